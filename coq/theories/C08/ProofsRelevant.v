(* C08/ProofsRelevant.v — locality of the well-founded model on a dependency-closed set of atoms,
   lifted through the world sum: the value of a query only depends on the clauses with a head in the
   dependency cone of the query and evidence atoms.

   1. `wfm_local` : for two normal programs R, R' that have the same rules with a head in S (a boolean
      predicate on atoms, closed under "body atom of a rule with head in S"), and two universes that
      agree on S, the alternating-fixpoint models agree on S (true atoms and true-or-undefined atoms).
      Proof: both computations follow the unbounded alternating sequence T_0 = {}, U_n = Gamma(T_n),
      T_{n+1} = Gamma(U_n) (as predicates, `TP`/`UP`); the two sequences agree on S index by index, and each
      computation stops at an index from which its sequence is stationary.
   2. `wsum_restrict_inv` : RelProofs.wsum_restrict with an invariant on the rules of the world (here:
      "the body atoms of a rule with head in S are in S", true for every rule that comes from a clause).
   3. `prob_gen_relevant`, `prob_gen_restrict` : prob_gen of the restricted program = prob_gen of the program. *)
From Coq Require Import NArith QArith List Bool Permutation Lia.
From PL.Sem Require Import Program Sem SemFast SemBasics PermProofs StratProofs FuelProofs RelProofs.
Import ListNotations.

Section Loc.
Variable A : Type.
Variable eqb : A -> A -> bool.
Hypothesis eqb_spec : forall x y, eqb x y = true <-> x = y.

Notation nrule := (nrule A).
Notation mem := (mem A eqb).
Notation subset := (subset A eqb).

(* ------------------------------------------------------------------ derivability w.r.t. a predicate *)
Inductive derivP (R : list nrule) (U : list A) (Ng : A -> Prop) : A -> Prop :=
| derivP_intro : forall a b, In a U -> In (a, b) R ->
    (forall c, In (Pos c) b -> derivP R U Ng c) ->
    (forall c, In (Neg c) b -> ~ Ng c) -> derivP R U Ng a.

Lemma deriv_derivP R U Ng a : deriv A R U Ng a <-> derivP R U (fun c => In c Ng) a.
Proof.
  split.
  - induction 1 as [a b HaU Hin Hp IHp Hn]. apply (derivP_intro R U _ a b HaU Hin IHp Hn).
  - induction 1 as [a b HaU Hin Hp IHp Hn]. apply (deriv_intro A R U Ng a b HaU Hin IHp Hn).
Qed.

Lemma derivP_antimono R U (Ng Ng' : A -> Prop) a :
  (forall c, Ng c -> Ng' c) -> derivP R U Ng' a -> derivP R U Ng a.
Proof.
  intro H. induction 1 as [a b HaU Hin Hp IHp Hn].
  apply (derivP_intro R U Ng a b HaU Hin IHp). intros c Hc Hcn. apply (Hn c Hc). apply H. exact Hcn.
Qed.

Lemma derivP_ext R U (Ng Ng' : A -> Prop) a :
  (forall c, Ng c <-> Ng' c) -> (derivP R U Ng a <-> derivP R U Ng' a).
Proof. intro H. split; apply derivP_antimono; intros c Hc; apply H; exact Hc. Qed.

(* the unbounded alternating sequence *)
Fixpoint TP (R : list nrule) (U : list A) (n : nat) : A -> Prop :=
  match n with
  | O => fun _ => False
  | S k => derivP R U (derivP R U (TP R U k))
  end.
Definition UP (R : list nrule) (U : list A) (n : nat) : A -> Prop := derivP R U (TP R U n).

Lemma TP_mono R U n : forall a, TP R U n a -> TP R U (S n) a.
Proof.
  induction n as [|n IH]; intros a Ha; [destruct Ha|].
  simpl in *. revert Ha. apply derivP_antimono. intro c. apply derivP_antimono. exact IH.
Qed.

Lemma TP_stationary R U m : (forall a, TP R U (S m) a -> TP R U m a) ->
  forall k a, TP R U (k + m) a <-> TP R U m a.
Proof.
  intros H k. induction k as [|k IH]; intro a; [tauto|].
  cbn [Nat.add]. split.
  - intro Ha. apply H. revert Ha. cbn [TP].
    apply (proj1 (derivP_ext R U _ _ a (fun c => derivP_ext R U _ _ c IH))).
  - intro Ha. apply TP_mono in Ha. revert Ha. cbn [TP].
    apply (proj2 (derivP_ext R U _ _ a (fun c => derivP_ext R U _ _ c IH))).
Qed.

Lemma gamma_P R U Ng X (NgP : A -> Prop) : gamma A eqb R U Ng = Some X ->
  (forall c, In c Ng <-> NgP c) -> forall a, In a X <-> derivP R U NgP a.
Proof.
  intros H HN a. rewrite (gamma_char A eqb eqb_spec R U Ng X H a). rewrite deriv_derivP.
  apply derivP_ext. exact HN.
Qed.

(* the computation returns some element of the sequence from which the sequence is stationary *)
Lemma wfm_iter_seq R U fuel : forall T0 n T Uk,
  (forall a, In a T0 <-> TP R U n a) ->
  wfm_iter A eqb fuel R U T0 = Some (T, Uk) ->
  exists m, (forall a, In a T <-> TP R U m a) /\ (forall a, In a Uk <-> UP R U m a) /\
            (forall a, TP R U (S m) a -> TP R U m a).
Proof.
  induction fuel as [|f IH]; intros T0 n T Uk H0 H; simpl in H; [discriminate|].
  destruct (gamma A eqb R U T0) as [Uk0|] eqn:E1; [|discriminate].
  destruct (gamma A eqb R U Uk0) as [T1|] eqn:E2; [|discriminate].
  pose proof (gamma_P R U T0 Uk0 (TP R U n) E1 H0) as HU.
  pose proof (gamma_P R U Uk0 T1 (UP R U n) E2 HU) as HT1.
  destruct (subset T1 T0) eqn:E3.
  - inversion H; subst. exists n. split; [exact H0|]. split; [exact HU|].
    apply (subset_spec A eqb eqb_spec) in E3. intros a Ha. apply H0. apply E3. apply HT1. exact Ha.
  - apply (IH T1 (S n) T Uk); [|exact H]. exact HT1.
Qed.

Lemma wfm_seq R U T Uk : wfm A eqb R U = Some (T, Uk) ->
  exists m, (forall a, In a T <-> TP R U m a) /\ (forall a, In a Uk <-> UP R U m a) /\
            (forall a, TP R U (S m) a -> TP R U m a).
Proof.
  unfold wfm. apply (wfm_iter_seq R U _ [] 0%nat). intro a. simpl. tauto.
Qed.

(* ------------------------------------------------------------------ locality *)
Variable inS : A -> bool.
Definition kr (r : nrule) : bool := inS (fst r).
(* the body atoms of a rule with head in S are in S *)
Definition closed_rule (r : nrule) : Prop :=
  inS (fst r) = true -> forall l, In l (snd r) -> inS (lit_atom l) = true.

Lemma filter_kr_In R R' h b : filter kr R = filter kr R' -> inS h = true -> In (h, b) R -> In (h, b) R'.
Proof.
  intros HR Hh Hin.
  assert (In (h, b) (filter kr R')) as K.
  { rewrite <- HR. apply filter_In. split; [exact Hin|exact Hh]. }
  apply filter_In in K. tauto.
Qed.

Section Two.
Variables R R' : list nrule.
Variables U U' : list A.
Hypothesis HR : filter kr R = filter kr R'.
Hypothesis Hcl : Forall closed_rule R.
Hypothesis HU : forall a, inS a = true -> In a U -> In a U'.

Lemma derivP_local (Ng Ng' : A -> Prop) :
  (forall c, inS c = true -> Ng' c -> Ng c) ->
  forall a, derivP R U Ng a -> inS a = true -> derivP R' U' Ng' a.
Proof.
  intros HN. induction 1 as [a b HaU Hin Hp IHp Hn]. intro Ha.
  pose proof (proj1 (Forall_forall _ _) Hcl (a, b) Hin Ha) as Hb. simpl in Hb.
  apply (derivP_intro R' U' Ng' a b).
  - apply HU; assumption.
  - apply (filter_kr_In R R' a b HR Ha Hin).
  - intros c Hc. apply IHp; [exact Hc|]. apply (Hb (Pos c) Hc).
  - intros c Hc Hcn. apply (Hn c Hc). apply HN; [|exact Hcn]. apply (Hb (Neg c) Hc).
Qed.
End Two.

Section Sym.
Variables R R' : list nrule.
Variables U U' : list A.
Hypothesis HR : filter kr R = filter kr R'.
Hypothesis Hcl : Forall closed_rule R.
Hypothesis Hcl' : Forall closed_rule R'.
Hypothesis HU : forall a, inS a = true -> (In a U <-> In a U').

Lemma derivP_local_iff (Ng Ng' : A -> Prop) :
  (forall c, inS c = true -> (Ng c <-> Ng' c)) ->
  forall a, inS a = true -> (derivP R U Ng a <-> derivP R' U' Ng' a).
Proof.
  intros HN a Ha. split; intro H.
  - apply (derivP_local R R' U U' HR Hcl (fun x Hx => proj1 (HU x Hx)) Ng Ng'); [|exact H|exact Ha].
    intros c Hc. apply HN. exact Hc.
  - apply (derivP_local R' R U' U (eq_sym HR) Hcl' (fun x Hx => proj2 (HU x Hx)) Ng' Ng); [|exact H|exact Ha].
    intros c Hc. apply HN. exact Hc.
Qed.

Lemma TP_local n : forall a, inS a = true -> (TP R U n a <-> TP R' U' n a).
Proof.
  induction n as [|n IH]; intros a Ha; [simpl; tauto|].
  cbn [TP]. apply derivP_local_iff; [|exact Ha]. intros c Hc. apply derivP_local_iff; [|exact Hc]. exact IH.
Qed.

Lemma UP_local n : forall a, inS a = true -> (UP R U n a <-> UP R' U' n a).
Proof. intros a Ha. unfold UP. apply derivP_local_iff; [|exact Ha]. apply TP_local. Qed.

(* LOCALITY OF THE WELL-FOUNDED MODEL *)
Theorem wfm_local T Uk T' Uk' :
  wfm A eqb R U = Some (T, Uk) -> wfm A eqb R' U' = Some (T', Uk') ->
  forall a, inS a = true -> (In a T <-> In a T') /\ (In a Uk <-> In a Uk').
Proof.
  intros H H' a Ha.
  destruct (wfm_seq R U T Uk H) as [m [HT [HUk Hst]]].
  destruct (wfm_seq R' U' T' Uk' H') as [m' [HT' [HUk' Hst']]].
  pose proof (TP_stationary R U m Hst m') as S1.
  pose proof (TP_stationary R' U' m' Hst' m) as S2.
  rewrite (Nat.add_comm m m') in S2.
  split.
  - rewrite HT, HT'. rewrite <- (S1 a), <- (S2 a). apply TP_local. exact Ha.
  - rewrite HUk, HUk'. unfold UP.
    rewrite <- (derivP_ext R U _ _ a (S1)), <- (derivP_ext R' U' _ _ a (S2)).
    apply (UP_local (m' + m) a Ha).
Qed.
End Sym.

Lemma filter_kr_idem R : filter kr (filter kr R) = filter kr R.
Proof.
  induction R as [|r R IH]; simpl; [reflexivity|]. destruct (kr r) eqn:E; simpl; [rewrite E, IH|]; auto.
Qed.

Corollary wfm_subprogram R U : Forall closed_rule R ->
  forall T Uk T' Uk',
  wfm A eqb R U = Some (T, Uk) -> wfm A eqb (filter kr R) U = Some (T', Uk') ->
  forall a, inS a = true -> (In a T <-> In a T') /\ (In a Uk <-> In a Uk').
Proof.
  intros Hcl. apply (wfm_local R (filter kr R) U U).
  - symmetry. apply filter_kr_idem.
  - exact Hcl.
  - apply Forall_forall. intros r Hr. apply filter_In in Hr. apply (proj1 (Forall_forall _ _) Hcl r). tauto.
  - intros; tauto.
Qed.

(* ------------------------------------------------------------------ indicators *)
Definition agree (T T' : list A) : Prop := forall a, inS a = true -> (In a T <-> In a T').

Lemma mem_agree T T' a : agree T T' -> inS a = true -> mem a T = mem a T'.
Proof.
  intros H Ha. destruct (mem a T) eqn:E1, (mem a T') eqn:E2; try reflexivity.
  - apply (mem_spec A eqb eqb_spec) in E1. apply (H a Ha) in E1. apply (mem_spec A eqb eqb_spec) in E1. congruence.
  - apply (mem_spec A eqb eqb_spec) in E2. apply (H a Ha) in E2. apply (mem_spec A eqb eqb_spec) in E2. congruence.
Qed.

Lemma holds_agree T T' ev : agree T T' -> (forall e, In e ev -> inS (fst e) = true) ->
  holds A eqb T ev = holds A eqb T' ev.
Proof.
  intros H Hev. unfold holds. apply forallb_ext_in. intros av Hav.
  rewrite (mem_agree T T' (fst av) H (Hev av Hav)). reflexivity.
Qed.

Lemma ind_true_local R R' U U' chk :
  filter kr R = filter kr R' -> Forall closed_rule R -> Forall closed_rule R' ->
  (forall a, inS a = true -> (In a U <-> In a U')) ->
  (forall T T', agree T T' -> chk T = chk T') ->
  ind_true A eqb U chk R = ind_true A eqb U' chk R'.
Proof.
  intros HR Hcl Hcl' HU Hchk. unfold ind_true.
  destruct (wfm A eqb R U) as [[T Uk]|] eqn:E; [|exfalso; apply (wfm_total A eqb eqb_spec R U E)].
  destruct (wfm A eqb R' U') as [[T' Uk']|] eqn:E'; [|exfalso; apply (wfm_total A eqb eqb_spec R' U' E')].
  simpl. f_equal. apply Hchk. intros a Ha.
  apply (proj1 (wfm_local R R' U U' HR Hcl Hcl' HU T Uk T' Uk' E E' a Ha)).
Qed.

Lemma ind_undef_local R R' U U' :
  filter kr R = filter kr R' -> Forall closed_rule R -> Forall closed_rule R' ->
  (forall a, inS a = true -> (In a U <-> In a U')) ->
  ind_undef A eqb U inS R = ind_undef A eqb U' inS R'.
Proof.
  intros HR Hcl Hcl' HU. unfold ind_undef.
  destruct (wfm A eqb R U) as [[T Uk]|] eqn:E; [|exfalso; apply (wfm_total A eqb eqb_spec R U E)].
  destruct (wfm A eqb R' U') as [[T' Uk']|] eqn:E'; [|exfalso; apply (wfm_total A eqb eqb_spec R' U' E')].
  simpl. f_equal. f_equal.
  pose proof (wfm_local R R' U U' HR Hcl Hcl' HU T Uk T' Uk' E E') as L.
  destruct (subset (filter inS Uk) T) eqn:E1, (subset (filter inS Uk') T') eqn:E2; try reflexivity; exfalso.
  - apply (subset_spec A eqb eqb_spec) in E1.
    assert (subset (filter inS Uk') T' = true) as K; [|congruence].
    apply (subset_spec A eqb eqb_spec). intros a Ha. apply filter_In in Ha. destruct Ha as [Ha Hs].
    apply (proj1 (L a Hs)). apply E1. apply filter_In. split; [|exact Hs]. apply (proj2 (L a Hs)). exact Ha.
  - apply (subset_spec A eqb eqb_spec) in E2.
    assert (subset (filter inS Uk) T = true) as K; [|congruence].
    apply (subset_spec A eqb eqb_spec). intros a Ha. apply filter_In in Ha. destruct Ha as [Ha Hs].
    apply (proj1 (L a Hs)). apply E2. apply filter_In. split; [|exact Hs]. apply (proj2 (L a Hs)). exact Ha.
Qed.

(* ------------------------------------------------------------------ the world sum, with an invariant on the rules *)
Local Open Scope Q_scope.

Lemma expect_ext_in {X} (hs : list (Q * X)) f g :
  (forall ph, In ph hs -> f (Some (snd ph)) == g (Some (snd ph))) -> f None == g None ->
  expect hs f == expect hs g.
Proof.
  intros H HN. unfold expect. rewrite HN.
  rewrite (lsum_ext_in' hs (fun h => f (Some h)) (fun h => g (Some h)) H). reflexivity.
Qed.

Section RestrictInv.
Variable P : nrule -> Prop.

Theorem wsum_restrict_inv (F F' : list nrule -> Q) :
  (forall acc acc', Forall P acc -> Forall P acc' -> filter kr acc = filter kr acc' -> F acc == F' acc') ->
  forall cs, (forall c, In c cs -> forall h, In h (clause_heads c) -> P (h, clause_body c)) ->
  forall acc acc', Forall P acc -> Forall P acc' -> filter kr acc = filter kr acc' ->
  wsum A F cs acc == wsum A F' (filter (keepc A kr) cs) acc'.
Proof.
  intro HF. induction cs as [|c cs IH]; intros Hcs acc acc' Pa Pa' Hacc; simpl; [apply HF; assumption|].
  assert (forall c0, In c0 cs -> forall h, In h (clause_heads c0) -> P (h, clause_body c0)) as Hcs'
    by (intros c0 Hc0; apply Hcs; right; exact Hc0).
  assert (forall h, In h (clause_heads c) -> P (h, clause_body c)) as Hc
    by (apply Hcs; left; reflexivity).
  specialize (IH Hcs').
  destruct (keepc A kr c) eqn:Ek.
  - destruct c as [h b|hs b]; simpl.
    + apply IH.
      * constructor; [apply (Hc h); left; reflexivity|exact Pa].
      * constructor; [apply (Hc h); left; reflexivity|exact Pa'].
      * simpl. rewrite Hacc. reflexivity.
    + rewrite !ad_sum_expect. apply expect_ext_in.
      * intros ph Hph. simpl.
        assert (P (snd ph, b)) as Pph by (apply (Hc (snd ph)); simpl; apply in_map; exact Hph).
        apply IH; [constructor; assumption|constructor; assumption|].
        simpl. rewrite Hacc. reflexivity.
      * simpl. apply IH; assumption.
  - destruct c as [h b|hs b]; simpl.
    + apply IH; [constructor; [apply (Hc h); left; reflexivity|exact Pa]|exact Pa'|].
      simpl. unfold keepc in Ek. simpl in Ek. rewrite orb_false_r in Ek. rewrite Ek. exact Hacc.
    + rewrite ad_sum_expect. unfold expect.
      set (K := wsum A F' (filter (keepc A kr) cs) acc').
      rewrite (lsum_ext_in' hs _ (fun _ => K)).
      * rewrite lsum_const. simpl. rewrite (IH acc acc' Pa Pa' Hacc). fold K. ring.
      * intros ph Hph. simpl.
        assert (P (snd ph, b)) as Pph by (apply (Hc (snd ph)); simpl; apply in_map; exact Hph).
        apply IH; [constructor; assumption|exact Pa'|]. simpl.
        assert (kr (snd ph, b) = false) as Kf.
        { unfold keepc in Ek. simpl in Ek.
          destruct (kr (snd ph, b)) eqn:E; [|reflexivity].
          assert (existsb (fun h => kr (h, b)) (map snd hs) = true) as T.
          { apply existsb_exists. exists (snd ph). split; [apply in_map; exact Hph|exact E]. }
          congruence. }
        rewrite Kf. exact Hacc.
Qed.
End RestrictInv.

(* ------------------------------------------------------------------ prob_gen on the restricted program *)
Definition closed_clause (c : clause A) : Prop :=
  forall h, In h (clause_heads c) -> inS h = true -> forall l, In l (clause_body c) -> inS (lit_atom l) = true.

Definition keeph (c : clause A) : bool := existsb inS (clause_heads c).

Lemma keeph_keepc cs : filter keeph cs = filter (keepc A kr) cs.
Proof. apply filter_ext. intro c. unfold keeph, keepc, kr. reflexivity. Qed.

Lemma universe_restrict cs a : inS a = true ->
  (In a (universe A eqb cs) <-> In a (universe A eqb (filter keeph cs))).
Proof.
  intro Ha. unfold universe, heads_of. rewrite !(dedup_In A eqb eqb_spec). rewrite !in_flat_map. split.
  - intros [c [Hc Hh]]. exists c. split; [|exact Hh]. apply filter_In. split; [exact Hc|].
    unfold keeph. apply existsb_exists. exists a. split; assumption.
  - intros [c [Hc Hh]]. exists c. split; [|exact Hh]. apply filter_In in Hc. tauto.
Qed.

Lemma wsum_ind_true_restrict cs chk :
  Forall closed_clause cs ->
  (forall T T', agree T T' -> chk T = chk T') ->
  wsum A (ind_true A eqb (universe A eqb cs) chk) cs []
  == wsum A (ind_true A eqb (universe A eqb (filter keeph cs)) chk) (filter keeph cs) [].
Proof.
  intros Hcl Hchk. rewrite keeph_keepc.
  apply (wsum_restrict_inv closed_rule); try constructor; try reflexivity.
  - intros acc acc' Pa Pa' Hacc. rewrite <- keeph_keepc.
    rewrite (ind_true_local acc acc' (universe A eqb cs) (universe A eqb (filter keeph cs)) chk Hacc Pa Pa');
      [reflexivity| |exact Hchk].
    intros a Ha. apply universe_restrict. exact Ha.
  - intros c Hc h Hh Hin l Hl. simpl in *.
    apply (proj1 (Forall_forall _ _) Hcl c Hc h Hh Hin l Hl).
Qed.

(* the probability that some atom OF S is undefined (what Sem.classify sums) is local as well *)
Lemma wsum_ind_undef_restrict cs :
  Forall closed_clause cs ->
  wsum A (ind_undef A eqb (universe A eqb cs) inS) cs []
  == wsum A (ind_undef A eqb (universe A eqb (filter keeph cs)) inS) (filter keeph cs) [].
Proof.
  intros Hcl. rewrite keeph_keepc.
  apply (wsum_restrict_inv closed_rule); try constructor; try reflexivity.
  - intros acc acc' Pa Pa' Hacc. rewrite <- keeph_keepc.
    rewrite (ind_undef_local acc acc' (universe A eqb cs) (universe A eqb (filter keeph cs)) Hacc Pa Pa');
      [reflexivity|].
    intros a Ha. apply universe_restrict. exact Ha.
  - intros c Hc h Hh Hin l Hl. simpl in *.
    apply (proj1 (Forall_forall _ _) Hcl c Hc h Hh Hin l Hl).
Qed.

Lemma stratified_wsum_undef lvl cs U rel :
  stratified_prog A lvl cs -> wsum A (ind_undef A eqb U rel) cs [] == 0.
Proof.
  intro HS. apply wsum_zero. intros wt R HR. unfold ind_undef.
  destruct (wfm A eqb R U) as [[T Uk]|] eqn:Em; [|reflexivity].
  pose proof (stratified_two_valued A eqb eqb_spec lvl R U T Uk (world_stratified A lvl cs 1 wt R HS HR) Em) as TV.
  simpl.
  assert (subset (filter rel Uk) T = true) as K.
  { apply (subset_spec A eqb eqb_spec). intros a Ha. apply TV. apply filter_In in Ha. tauto. }
  rewrite K. reflexivity.
Qed.

Lemma wsum_fuel_zero cs U : wsum A (ind_fuel A eqb U) cs [] == 0.
Proof.
  apply (wsum_zero A). intros wt R _. unfold ind_fuel.
  destruct (wfm A eqb R U) eqn:E; [reflexivity|]. exfalso. apply (wfm_total A eqb eqb_spec R _ E).
Qed.

Lemma stratified_filter lvl cs f : stratified_prog A lvl cs -> stratified_prog A lvl (filter f cs).
Proof. intros H c Hc. apply filter_In in Hc. apply H. tauto. Qed.

(* For a program without a cycle through negation (more generally: stratified by some level mapping), a set S
   of atoms closed under dependency, evidence and query inside S: the clauses without a head in S are irrelevant. *)
Theorem prob_gen_relevant_strat lvl cs ev q :
  stratified_prog A lvl cs -> Forall closed_clause cs ->
  inS q = true -> (forall e, In e ev -> inS (fst e) = true) ->
  prob_gen A eqb (filter keeph cs) ev q = prob_gen A eqb cs ev q.
Proof.
  intros HS Hcl Hq Hev. unfold prob_gen.
  set (U := universe A eqb cs). set (U' := universe A eqb (filter keeph cs)).
  pose proof (wsum_fuel_zero cs U) as F1. pose proof (wsum_fuel_zero (filter keeph cs) U') as F2.
  pose proof (stratified_wsum_undef lvl cs U (fun _ => true) HS) as N1.
  pose proof (stratified_wsum_undef lvl (filter keeph cs) U' (fun _ => true) (stratified_filter lvl cs keeph HS)) as N2.
  apply Qeq_bool_iff in F1, F2, N1, N2. rewrite F1, F2, N1, N2. cbn [negb].
  assert (wsum A (ind_true A eqb U (fun T => holds A eqb T ev)) cs []
          == wsum A (ind_true A eqb U' (fun T => holds A eqb T ev)) (filter keeph cs) []) as E3.
  { apply wsum_ind_true_restrict; [exact Hcl|]. intros T T' HT. apply holds_agree; assumption. }
  assert (wsum A (ind_true A eqb U (fun T => mem q T && holds A eqb T ev)) cs []
          == wsum A (ind_true A eqb U' (fun T => mem q T && holds A eqb T ev)) (filter keeph cs) []) as E4.
  { apply wsum_ind_true_restrict; [exact Hcl|]. intros T T' HT.
    rewrite (mem_agree T T' q HT Hq). f_equal. apply holds_agree; assumption. }
  rewrite (Qeq_bool_comp _ _ E3).
  destruct (Qeq_bool (wsum A (ind_true A eqb U' (fun T => holds A eqb T ev)) (filter keeph cs) []) 0); [reflexivity|].
  f_equal. apply Qred_complete. rewrite E3, E4. reflexivity.
Qed.

(* the same without any syntactic condition on negation: it suffices that neither program is rejected as
   not two-valued (all other masses are local, see wsum_ind_true_restrict) *)
Theorem prob_gen_relevant_tv cs ev q :
  Forall closed_clause cs -> inS q = true -> (forall e, In e ev -> inS (fst e) = true) ->
  prob_gen A eqb cs ev q <> NotTwoValued -> prob_gen A eqb (filter keeph cs) ev q <> NotTwoValued ->
  prob_gen A eqb (filter keeph cs) ev q = prob_gen A eqb cs ev q.
Proof.
  intros Hcl Hq Hev. unfold prob_gen.
  set (U := universe A eqb cs). set (U' := universe A eqb (filter keeph cs)).
  pose proof (wsum_fuel_zero cs U) as F1. pose proof (wsum_fuel_zero (filter keeph cs) U') as F2.
  apply Qeq_bool_iff in F1, F2. rewrite F1, F2. cbn [negb].
  destruct (Qeq_bool (wsum A (ind_undef A eqb U (fun _ => true)) cs []) 0); cbn [negb]; [|intro K; exfalso; apply K; reflexivity].
  destruct (Qeq_bool (wsum A (ind_undef A eqb U' (fun _ => true)) (filter keeph cs) []) 0); cbn [negb];
    [|intros _ K; exfalso; apply K; reflexivity].
  intros _ _.
  assert (wsum A (ind_true A eqb U (fun T => holds A eqb T ev)) cs []
          == wsum A (ind_true A eqb U' (fun T => holds A eqb T ev)) (filter keeph cs) []) as E3.
  { apply wsum_ind_true_restrict; [exact Hcl|]. intros T T' HT. apply holds_agree; assumption. }
  assert (wsum A (ind_true A eqb U (fun T => mem q T && holds A eqb T ev)) cs []
          == wsum A (ind_true A eqb U' (fun T => mem q T && holds A eqb T ev)) (filter keeph cs) []) as E4.
  { apply wsum_ind_true_restrict; [exact Hcl|]. intros T T' HT.
    rewrite (mem_agree T T' q HT Hq). f_equal. apply holds_agree; assumption. }
  rewrite (Qeq_bool_comp _ _ E3).
  destruct (Qeq_bool (wsum A (ind_true A eqb U' (fun T => holds A eqb T ev)) (filter keeph cs) []) 0); [reflexivity|].
  f_equal. apply Qred_complete. rewrite E3, E4. reflexivity.
Qed.

Theorem prob_gen_relevant cs ev q :
  neg_cycle_free A eqb cs = Some true -> Forall closed_clause cs ->
  inS q = true -> (forall e, In e ev -> inS (fst e) = true) ->
  prob_gen A eqb (filter keeph cs) ev q = prob_gen A eqb cs ev q.
Proof.
  intros H. destruct (neg_cycle_free_stratified A eqb eqb_spec cs H) as [lvl HS].
  apply (prob_gen_relevant_strat lvl cs ev q HS).
Qed.

End Loc.

(* ------------------------------------------------------------------ the computed cone *)
Section Cone.
Variable A : Type.
Variable eqb : A -> A -> bool.
Hypothesis eqb_spec : forall x y, eqb x y = true <-> x = y.
Notation edge := (A * A * bool)%type.
Local Open Scope nat_scope.

Lemma succs_nodes (E : list edge) x y : In y (succs A eqb E x) -> In y (nodes A eqb E).
Proof.
  intro H. apply (succs_inv A eqb eqb_spec) in H. destruct H as [s Hs].
  unfold nodes. apply (dedup_In A eqb eqb_spec). apply in_flat_map. exists (x, y, s). split; [exact Hs|].
  simpl. auto.
Qed.

(* the closure iteration terminates: every round adds an atom of V (the nodes of the graph) *)
Lemma close_iter_total (E : list edge) V : (forall x y, In y (succs A eqb E x) -> In y V) ->
  forall fuel R, length V - cnt A eqb V R < fuel -> close_iter A eqb fuel E R <> None.
Proof.
  intros HV. induction fuel as [|f IH]; intros R Hm; [lia|]. simpl.
  destruct (Sem.subset A eqb (flat_map (succs A eqb E) R) R) eqn:Es; [discriminate|].
  destruct (subset_false_witness A eqb eqb_spec _ _ Es) as [x [Hx Hnx]].
  apply IH.
  assert (In x V) as HxV.
  { apply in_flat_map in Hx. destruct Hx as [y [_ Hy]]. apply (HV y x Hy). }
  assert (incl R (dedup A eqb (R ++ flat_map (succs A eqb E) R))) as Hi.
  { intros z Hz. apply (dedup_In A eqb eqb_spec). apply in_or_app. left. exact Hz. }
  assert (In x (dedup A eqb (R ++ flat_map (succs A eqb E) R))) as Hx'.
  { apply (dedup_In A eqb eqb_spec). apply in_or_app. right. exact Hx. }
  pose proof (cnt_lt A eqb eqb_spec V R _ x Hi HxV Hx' Hnx) as K.
  pose proof (cnt_le A eqb V (dedup A eqb (R ++ flat_map (succs A eqb E) R))). lia.
Qed.

Theorem cone_total (E : list edge) goals : cone A eqb E goals <> None.
Proof.
  unfold cone. apply (close_iter_total E (nodes A eqb E)); [apply succs_nodes|].
  pose proof (cnt_le A eqb (nodes A eqb E) (dedup A eqb goals)). lia.
Qed.

Theorem restrict_total cs goals : restrict A eqb cs goals <> None.
Proof.
  unfold restrict. destruct (cone A eqb (edges A cs) goals) eqn:E; [discriminate|].
  exfalso. apply (cone_total _ _ E).
Qed.

Lemma cone_spec (E : list edge) goals C : cone A eqb E goals = Some C ->
  incl goals C /\ (forall x, In x C -> incl (succs A eqb E x) C).
Proof.
  unfold cone. intro H. apply (close_iter_spec A eqb eqb_spec) in H. destruct H as [H1 H2].
  split; [|exact H2]. intros x Hx. apply H1. apply (dedup_In A eqb eqb_spec). exact Hx.
Qed.

Lemma cone_closed cs goals C : cone A eqb (edges A cs) goals = Some C ->
  Forall (closed_clause A (fun a => mem A eqb a C)) cs.
Proof.
  intro H. apply cone_spec in H. destruct H as [_ H2]. apply Forall_forall.
  intros c Hc h Hh Hin l Hl. apply (mem_spec A eqb eqb_spec) in Hin. apply (mem_spec A eqb eqb_spec).
  apply (H2 h Hin). pose proof (edges_In A cs c h l Hc Hh Hl) as He. apply (succs_In A eqb eqb_spec _ _ _ _ He).
Qed.

(* C08_relevant on a generic atom type *)
Theorem prob_gen_restrict cs goals cs' ev q :
  restrict A eqb cs goals = Some cs' -> In q goals -> (forall e, In e ev -> In (fst e) goals) ->
  neg_cycle_free A eqb cs = Some true ->
  prob_gen A eqb cs' ev q = prob_gen A eqb cs ev q.
Proof.
  unfold restrict. destruct (cone A eqb (edges A cs) goals) as [C|] eqn:EC; [|discriminate].
  intros H Hq Hev Hncf. inversion H; subst cs'. clear H.
  pose proof (cone_closed cs goals C EC) as Hcl. destruct (cone_spec _ _ _ EC) as [Hg _].
  apply (prob_gen_relevant A eqb eqb_spec (fun a => mem A eqb a C) cs ev q Hncf Hcl).
  - apply (mem_spec A eqb eqb_spec). apply Hg. exact Hq.
  - intros e He. apply (mem_spec A eqb eqb_spec). apply Hg. apply Hev. exact He.
Qed.

Theorem prob_gen_restrict_tv cs goals cs' ev q :
  restrict A eqb cs goals = Some cs' -> In q goals -> (forall e, In e ev -> In (fst e) goals) ->
  prob_gen A eqb cs ev q <> NotTwoValued -> prob_gen A eqb cs' ev q <> NotTwoValued ->
  prob_gen A eqb cs' ev q = prob_gen A eqb cs ev q.
Proof.
  unfold restrict. destruct (cone A eqb (edges A cs) goals) as [C|] eqn:EC; [|discriminate].
  intros H Hq Hev. inversion H; subst cs'. clear H.
  pose proof (cone_closed cs goals C EC) as Hcl. destruct (cone_spec _ _ _ EC) as [Hg _].
  apply (prob_gen_relevant_tv A eqb eqb_spec (fun a => mem A eqb a C) cs ev q Hcl).
  - apply (mem_spec A eqb eqb_spec). apply Hg. exact Hq.
  - intros e He. apply (mem_spec A eqb eqb_spec). apply Hg. apply Hev. exact He.
Qed.

(* the restricted program of a program without negative cycle has no negative cycle in the sense needed here:
   it is stratified by the same level mapping, hence never rejected *)
Theorem restrict_not_NotTwoValued cs goals cs' ev q :
  restrict A eqb cs goals = Some cs' -> neg_cycle_free A eqb cs = Some true ->
  prob_gen A eqb cs' ev q <> NotTwoValued.
Proof.
  unfold restrict. destruct (cone A eqb (edges A cs) goals) as [C|]; [|discriminate].
  intros H Hn. inversion H; subst cs'. clear H.
  destruct (neg_cycle_free_stratified A eqb eqb_spec cs Hn) as [lvl HS].
  unfold prob_gen.
  destruct (negb (Qeq_bool (wsum A (ind_fuel A eqb (universe A eqb (filter (fun c => existsb (fun h => mem A eqb h C) (clause_heads c)) cs)))
                                 (filter (fun c => existsb (fun h => mem A eqb h C) (clause_heads c)) cs) []) 0)); [discriminate|].
  pose proof (stratified_wsum_undef A eqb eqb_spec (fun _ => true) lvl _ (universe A eqb (filter (fun c => existsb (fun h => mem A eqb h C) (clause_heads c)) cs))
                (fun _ => true) (stratified_filter A lvl cs (fun c => existsb (fun h => mem A eqb h C) (clause_heads c)) HS)) as Z.
  apply Qeq_bool_iff in Z. rewrite Z. cbn [negb].
  match goal with |- (if ?c then _ else _) <> _ => destruct c end; discriminate.
Qed.

(* without any hypothesis on negation: the unnormalised masses P(chk) for checks that only look at the cone,
   and the mass of the worlds where an atom of the cone is undefined, are those of the restricted program *)
Theorem masses_restrict cs goals C cs' :
  cone A eqb (edges A cs) goals = Some C -> restrict A eqb cs goals = Some cs' ->
  (forall chk, (forall T T', agree A (fun a => mem A eqb a C) T T' -> chk T = chk T') ->
     (wsum A (ind_true A eqb (universe A eqb cs) chk) cs []
      == wsum A (ind_true A eqb (universe A eqb cs') chk) cs' [])%Q) /\
  (wsum A (ind_undef A eqb (universe A eqb cs) (fun a => mem A eqb a C)) cs []
   == wsum A (ind_undef A eqb (universe A eqb cs') (fun a => mem A eqb a C)) cs' [])%Q.
Proof.
  unfold restrict. intros EC. rewrite EC. intro H. inversion H; subst cs'. clear H.
  pose proof (cone_closed cs goals C EC) as Hcl. split.
  - intros chk Hchk. apply (wsum_ind_true_restrict A eqb eqb_spec (fun a => mem A eqb a C) cs chk Hcl Hchk).
  - apply (wsum_ind_undef_restrict A eqb eqb_spec (fun a => mem A eqb a C) cs Hcl).
Qed.

(* more roots: two goal sets that both contain the query and the evidence atoms give restricted programs
   with the same value *)
Theorem prob_gen_restrict_roots cs goals goals' cs1 cs2 ev q :
  restrict A eqb cs goals = Some cs1 -> restrict A eqb cs goals' = Some cs2 ->
  In q goals -> In q goals' ->
  (forall e, In e ev -> In (fst e) goals) -> (forall e, In e ev -> In (fst e) goals') ->
  neg_cycle_free A eqb cs = Some true ->
  prob_gen A eqb cs1 ev q = prob_gen A eqb cs2 ev q.
Proof.
  intros H1 H2 Hq Hq' He He' Hn.
  rewrite (prob_gen_restrict cs goals cs1 ev q H1 Hq He Hn).
  rewrite (prob_gen_restrict cs goals' cs2 ev q H2 Hq' He' Hn). reflexivity.
Qed.
End Cone.

(* ------------------------------------------------------------------ first-order programs *)
Theorem relevant_program P cs' q :
  restrict gatom gatom_eqb (g_clauses (ground P)) (goals (ground P)) = Some cs' ->
  In q (g_queries (ground P)) ->
  neg_cycle_free gatom gatom_eqb (g_clauses (ground P)) = Some true ->
  gprob (mkG cs' (g_queries (ground P)) (g_evid (ground P))) q = prob P q.
Proof.
  intros H Hq Hn. unfold prob, gprob. simpl.
  apply (prob_gen_restrict gatom gatom_eqb gatom_eqb_spec _ (goals (ground P)) cs' _ q H); [| |exact Hn].
  - unfold goals. apply in_or_app. left. exact Hq.
  - intros e He. unfold goals. apply in_or_app. right. apply in_map. exact He.
Qed.

Theorem more_roots_relevant P a cs' q :
  incl (consts_atom a) (domain P) ->
  restrict gatom gatom_eqb (g_clauses (ground (P ++ [SQuery a]))) (goals (ground (P ++ [SQuery a]))) = Some cs' ->
  In q (g_queries (ground (P ++ [SQuery a]))) ->
  neg_cycle_free gatom gatom_eqb (g_clauses (ground (P ++ [SQuery a]))) = Some true ->
  gprob (mkG cs' (g_queries (ground (P ++ [SQuery a]))) (g_evid (ground (P ++ [SQuery a])))) q = prob P q.
Proof.
  intros Hd H Hq Hn. rewrite (relevant_program _ cs' q H Hq Hn). apply prob_add_query. exact Hd.
Qed.
