(* C08 — a query's answer does not depend on what else was grounded (statements only). *)
From Coq Require Import NArith QArith List Bool.
From PL.Sem Require Import Program Sem.
Import ListNotations.

Example C08_example :
  gprob (mkG [AD [(3#10, (1%N, []))] []; Rule (2%N, []) [Pos (1%N, [])]] [(2%N, [])] []) (2%N, []) = Ok (3#10).
Proof. vm_compute. reflexivity. Qed.
