(* C08 — a query's answer does not depend on what else was grounded.
   Semantic side.  Only statements; proofs in Sem/RelProofs.v and C08/ProofsRelevant.v. *)
From Coq Require Import NArith QArith List Bool Permutation.
From PL.Sem Require Import Program Sem SemFast SemBasics PermProofs PermFO RelProofs.
From PL.C08 Require Import ProofsRelevant ProofsRelevantTV.
Import ListNotations.

(* The value of a query on a ground program does not mention the other queries (roots) at all. *)
Theorem C08_sem_query_indep : forall cs qs qs' ev q, gprob (mkG cs qs ev) q = gprob (mkG cs qs' ev) q.
Proof. exact gprob_queries_irrelevant. Qed.
Print Assumptions C08_sem_query_indep.

(* First-order: adding a further query statement over known constants changes no existing answer
   (the Herbrand domain, hence the instantiation, is the same up to order). *)
Theorem C08_add_query : forall P a q, incl (consts_atom a) (domain P) -> prob (P ++ [SQuery a]) q = prob P q.
Proof. exact prob_add_query. Qed.
Print Assumptions C08_add_query.

(* ... and the order in which queries/evidence/clauses are stated (grounded) is irrelevant. *)
Theorem C08_order_free : forall P P' q, Permutation P P' -> prob P q = prob P' q.
Proof. exact prob_perm_statements. Qed.
Print Assumptions C08_order_free.

(* Relevant sub-program, probabilistic half: when the value of a world only depends on the rules selected
   by `kr` (e.g. "head in the dependency cone of the goals"), the sum over the total choices of the whole
   program equals the sum over the total choices of the kept clauses: the choices of every dropped AD
   instance marginalise to (sum p_i) + (1 - sum p_i) = 1.  This is the theorem behind SemFast.restrict. *)
Theorem C08_irrelevant_choices_marginalise_partial :
  forall (kr : nrule gatom -> bool) (F F' : list (nrule gatom) -> Q),
  (forall acc acc', filter kr acc = filter kr acc' -> F acc == F' acc') ->
  forall cs, wsum gatom F cs [] == wsum gatom F' (filter (keepc gatom kr) cs) [].
Proof. intros kr F F' H cs. apply (wsum_restrict gatom kr F F' H cs [] []). reflexivity. Qed.
Print Assumptions C08_irrelevant_choices_marginalise_partial.

(* Logical half: LOCALITY OF THE WELL-FOUNDED MODEL.  S = a set of atoms (boolean predicate) closed under
   dependency: every body atom, positive or negative, of a rule whose head is in S is in S (`closed_rule`).
   Two normal programs (worlds) with the same rules with head in S, over universes that agree on S, have
   alternating-fixpoint models that agree on S — both components: true atoms T and true-or-undefined atoms Uk.
   In particular (R' := the rules of R with head in S) the model of R restricted to S is the model of the
   sub-program of the rules with head in S. *)
Theorem C08_wfm_local : forall (inS : gatom -> bool) (R R' : list (nrule gatom)) (U U' : list gatom),
  filter (kr gatom inS) R = filter (kr gatom inS) R' ->
  Forall (closed_rule gatom inS) R -> Forall (closed_rule gatom inS) R' ->
  (forall a, inS a = true -> (In a U <-> In a U')) ->
  forall T Uk T' Uk',
  wfm gatom gatom_eqb R U = Some (T, Uk) -> wfm gatom gatom_eqb R' U' = Some (T', Uk') ->
  forall a, inS a = true -> (In a T <-> In a T') /\ (In a Uk <-> In a Uk').
Proof. exact (wfm_local gatom gatom_eqb gatom_eqb_spec). Qed.
Print Assumptions C08_wfm_local.

Corollary C08_wfm_subprogram : forall (inS : gatom -> bool) (R : list (nrule gatom)) (U : list gatom),
  Forall (closed_rule gatom inS) R ->
  forall T Uk T' Uk',
  wfm gatom gatom_eqb R U = Some (T, Uk) -> wfm gatom gatom_eqb (filter (kr gatom inS) R) U = Some (T', Uk') ->
  forall a, inS a = true -> (In a T <-> In a T') /\ (In a Uk <-> In a Uk').
Proof. exact (wfm_subprogram gatom gatom_eqb gatom_eqb_spec). Qed.
Print Assumptions C08_wfm_subprogram.

(* The cone computation never runs out of fuel: `restrict` is total. *)
Theorem C08_restrict_total : forall cs goals, restrict gatom gatom_eqb cs goals <> None.
Proof. exact (restrict_total gatom gatom_eqb gatom_eqb_spec). Qed.
Print Assumptions C08_restrict_total.

(* FULL STATEMENT.  cs' = the clauses of cs with a head in the dependency cone of the goals (closure of
   query + evidence atoms under "body atom of a clause with that head", positive or negative: what ProbLog
   grounds).  Evidence atoms must be goals: evidence outside the cone conditions the distribution.
   `neg_cycle_free cs`: without it a negative loop OUTSIDE the cone makes the whole program NotTwoValued
   while the restricted program answers; see C08_masses_relevant for what holds without it. *)
Theorem C08_relevant : forall cs goals cs' ev q,
  restrict gatom gatom_eqb cs goals = Some cs' -> In q goals -> (forall e, In e ev -> In (fst e) goals) ->
  neg_cycle_free gatom gatom_eqb cs = Some true ->
  prob_gen gatom gatom_eqb cs' ev q = prob_gen gatom gatom_eqb cs ev q.
Proof. exact (prob_gen_restrict gatom gatom_eqb gatom_eqb_spec). Qed.
Print Assumptions C08_relevant.

(* The same without a syntactic condition on negation: it suffices that neither the program nor the relevant
   ground program is rejected as not two-valued (e.g. a negative loop outside the cone that happens to be
   two-valued in every world is harmless). *)
Theorem C08_relevant_two_valued : forall cs goals cs' ev q,
  restrict gatom gatom_eqb cs goals = Some cs' -> In q goals -> (forall e, In e ev -> In (fst e) goals) ->
  prob_gen gatom gatom_eqb cs ev q <> NotTwoValued -> prob_gen gatom gatom_eqb cs' ev q <> NotTwoValued ->
  prob_gen gatom gatom_eqb cs' ev q = prob_gen gatom gatom_eqb cs ev q.
Proof. exact (prob_gen_restrict_tv gatom gatom_eqb gatom_eqb_spec). Qed.
Print Assumptions C08_relevant_two_valued.

(* STRONGEST FORM.  For a program with well-formed weights (0 <= p <= 1, sum p <= 1 in every AD instance: what
   `wf_program` checks) the only semantic hypothesis is that the WHOLE program is not rejected as not two-valued:
   then the relevant ground program is not rejected either and gives the same value.  (`neg_cycle_free cs` implies
   the hypothesis, so for well-formed programs this subsumes C08_relevant.)  Behind it: an atom that is undefined in
   the well-founded model has an undefined body atom, so an undefined atom in a world of the relevant program
   implies an undefined atom of the cone; world sums are monotone for non-negative weights. *)
Theorem C08_relevant_wf : forall cs goals cs' ev q,
  (forall c, In c cs -> wf_clause c = true) ->
  restrict gatom gatom_eqb cs goals = Some cs' -> In q goals -> (forall e, In e ev -> In (fst e) goals) ->
  prob_gen gatom gatom_eqb cs ev q <> NotTwoValued ->
  prob_gen gatom gatom_eqb cs' ev q = prob_gen gatom gatom_eqb cs ev q.
Proof. exact (prob_gen_restrict_wf gatom gatom_eqb gatom_eqb_spec). Qed.
Print Assumptions C08_relevant_wf.

(* Without any hypothesis on negation: the unnormalised masses (P(e), P(q /\ e), any check that only reads
   atoms of the cone C) and the mass of the worlds in which an atom of the cone is undefined (the sum Sem.classify
   uses) are those of the restricted program.  Choices of AD instances outside the cone marginalise to 1. *)
Theorem C08_masses_relevant : forall cs goals C cs',
  cone gatom gatom_eqb (edges gatom cs) goals = Some C -> restrict gatom gatom_eqb cs goals = Some cs' ->
  (forall chk, (forall T T', agree gatom (fun a => mem gatom gatom_eqb a C) T T' -> chk T = chk T') ->
     wsum gatom (ind_true gatom gatom_eqb (universe gatom gatom_eqb cs) chk) cs []
     == wsum gatom (ind_true gatom gatom_eqb (universe gatom gatom_eqb cs') chk) cs' []) /\
  wsum gatom (ind_undef gatom gatom_eqb (universe gatom gatom_eqb cs) (fun a => mem gatom gatom_eqb a C)) cs []
  == wsum gatom (ind_undef gatom gatom_eqb (universe gatom gatom_eqb cs') (fun a => mem gatom gatom_eqb a C)) cs' [].
Proof. exact (masses_restrict gatom gatom_eqb gatom_eqb_spec). Qed.
Print Assumptions C08_masses_relevant.

(* Grounding more roots first: any two goal sets containing the query and the evidence atoms give relevant
   ground programs with the same value for the query. *)
Theorem C08_roots_monotone : forall cs goals goals' cs1 cs2 ev q,
  restrict gatom gatom_eqb cs goals = Some cs1 -> restrict gatom gatom_eqb cs goals' = Some cs2 ->
  In q goals -> In q goals' ->
  (forall e, In e ev -> In (fst e) goals) -> (forall e, In e ev -> In (fst e) goals') ->
  neg_cycle_free gatom gatom_eqb cs = Some true ->
  prob_gen gatom gatom_eqb cs1 ev q = prob_gen gatom gatom_eqb cs2 ev q.
Proof. exact (prob_gen_restrict_roots gatom gatom_eqb gatom_eqb_spec). Qed.
Print Assumptions C08_roots_monotone.

(* First-order programs: the relevant ground program of P (cone of ALL queries and evidence of P) gives every
   query of P its value in P ... *)
Theorem C08_relevant_program : forall P cs' q,
  restrict gatom gatom_eqb (g_clauses (ground P)) (goals (ground P)) = Some cs' ->
  In q (g_queries (ground P)) ->
  neg_cycle_free gatom gatom_eqb (g_clauses (ground P)) = Some true ->
  gprob (mkG cs' (g_queries (ground P)) (g_evid (ground P))) q = prob P q.
Proof. exact relevant_program. Qed.
Print Assumptions C08_relevant_program.

(* ... and stating (grounding) one more query `a` first does not change the value the relevant ground program
   gives to the other queries: it is still their value in the program without `a`. *)
Theorem C08_more_roots_relevant : forall P a cs' q,
  incl (consts_atom a) (domain P) ->
  restrict gatom gatom_eqb (g_clauses (ground (P ++ [SQuery a]))) (goals (ground (P ++ [SQuery a]))) = Some cs' ->
  In q (g_queries (ground (P ++ [SQuery a]))) ->
  neg_cycle_free gatom gatom_eqb (g_clauses (ground (P ++ [SQuery a]))) = Some true ->
  gprob (mkG cs' (g_queries (ground (P ++ [SQuery a]))) (g_evid (ground (P ++ [SQuery a])))) q = prob P q.
Proof. exact more_roots_relevant. Qed.
Print Assumptions C08_more_roots_relevant.

(* Still not stated: C08_roots_monotone / C08_order_free on the pipeline model ground_m (DESIGN C01 stretch:
   needs a model of the engine's grounding).  The hypothesis "the whole program is not NotTwoValued" of C08_relevant_wf
   cannot be dropped: a negative loop outside the cone makes the program NotTwoValued while the relevant ground program
   answers. *)

Example C08_example :
  gprob (mkG [AD [(3#10, (1%N, []))] []; Rule (2%N, []) [Pos (1%N, [])]; AD [(1#2, (5%N, []))] []] [(2%N, [])] []) (2%N, [])
  = Ok (3#10).
Proof. vm_compute. reflexivity. Qed.

(* non-vacuity of C08_relevant: two clauses outside the cone (one AD instance, one rule with a negative literal)
   are dropped, the restricted program has 3 of 5 clauses and the same conditional probability *)
Definition ex_cs : list (clause gatom) :=
  [AD [(3#10, (1%N, []))] []; Rule (2%N, []) [Pos (1%N, []); Neg (4%N, [])]; AD [(1#2, (4%N, []))] [];
   AD [(1#2, (5%N, [])); (1#4, (6%N, []))] []; Rule (7%N, []) [Neg (5%N, []); Pos (2%N, [])]].
Definition ex_cs' : list (clause gatom) :=
  [AD [(3#10, (1%N, []))] []; Rule (2%N, []) [Pos (1%N, []); Neg (4%N, [])]; AD [(1#2, (4%N, []))] []].
Example C08_relevant_example_restrict : restrict gatom gatom_eqb ex_cs [(2%N, []); (4%N, [])] = Some ex_cs'.
Proof. vm_compute. reflexivity. Qed.
Example C08_relevant_example_ncf : neg_cycle_free gatom gatom_eqb ex_cs = Some true.
Proof. vm_compute. reflexivity. Qed.
Example C08_relevant_example_value :
  prob_gen gatom gatom_eqb ex_cs' [((4%N, []), false)] (2%N, []) = Ok (3#10) /\
  prob_gen gatom gatom_eqb ex_cs [((4%N, []), false)] (2%N, []) = Ok (3#10).
Proof. split; vm_compute; reflexivity. Qed.

(* C08_relevant_wf applies where C08_relevant does not: a negative loop outside the cone (p :- \+q, f.  q :- \+p, f.
   with f underivable) that is two-valued in every world: not neg_cycle_free, not rejected, weights well-formed. *)
Definition ex_cs2 : list (clause gatom) :=
  [AD [(3#10, (1%N, []))] []; Rule (2%N, []) [Neg (3%N, []); Pos (4%N, [])]; Rule (3%N, []) [Neg (2%N, []); Pos (4%N, [])]].
Example C08_relevant_wf_example :
  neg_cycle_free gatom gatom_eqb ex_cs2 = Some false /\
  forallb (@wf_clause gatom) ex_cs2 = true /\
  prob_gen gatom gatom_eqb ex_cs2 [] (1%N, []) = Ok (3#10) /\
  restrict gatom gatom_eqb ex_cs2 [(1%N, [])] = Some [AD [(3#10, (1%N, []))] []].
Proof. vm_compute. repeat split; reflexivity. Qed.
