(* C08 — a query's answer does not depend on what else was grounded.
   Semantic side.  Only statements; proofs in Sem/RelProofs.v. *)
From Coq Require Import NArith QArith List Bool Permutation.
From PL.Sem Require Import Program Sem SemBasics PermProofs PermFO RelProofs.
Import ListNotations.

(* The value of a query on a ground program does not mention the other queries (roots) at all. *)
Theorem C08_sem_query_indep : forall cs qs qs' ev q, gprob (mkG cs qs ev) q = gprob (mkG cs qs' ev) q.
Proof. exact gprob_queries_irrelevant. Qed.
Print Assumptions C08_sem_query_indep.

(* First-order: adding a further query statement over known constants changes no existing answer
   (the Herbrand domain, hence the instantiation, is the same up to order). *)
Theorem C08_add_query : forall P a q, incl (consts_atom a) (domain P) -> prob (P ++ [SQuery a]) q = prob P q.
Proof. exact prob_add_query. Qed.
Print Assumptions C08_add_query.

(* ... and the order in which queries/evidence/clauses are stated (grounded) is irrelevant. *)
Theorem C08_order_free : forall P P' q, Permutation P P' -> prob P q = prob P' q.
Proof. exact prob_perm_statements. Qed.
Print Assumptions C08_order_free.

(* Relevant sub-program, probabilistic half: when the value of a world only depends on the rules selected
   by `kr` (e.g. "head in the dependency cone of the goals"), the sum over the total choices of the whole
   program equals the sum over the total choices of the kept clauses: the choices of every dropped AD
   instance marginalise to (sum p_i) + (1 - sum p_i) = 1.  This is the theorem behind SemFast.restrict. *)
Theorem C08_irrelevant_choices_marginalise_partial :
  forall (kr : nrule gatom -> bool) (F F' : list (nrule gatom) -> Q),
  (forall acc acc', filter kr acc = filter kr acc' -> F acc == F' acc') ->
  forall cs, wsum gatom F cs [] == wsum gatom F' (filter (keepc gatom kr) cs) [].
Proof. intros kr F F' H cs. apply (wsum_restrict gatom kr F F' H cs [] []). reflexivity. Qed.
Print Assumptions C08_irrelevant_choices_marginalise_partial.

(* FULL STATEMENT, not proved (hence `_partial` above):
     C08_relevant : restrict cs goals = Some cs' -> In q goals -> (forall e, In e ev -> In (fst e) goals) ->
                    neg_cycle_free cs = Some true ->
                    prob_gen cs' ev q = prob_gen cs ev q.
   Missing lemma (logical half): locality of the well-founded model — for kr r := mem (fst r) C with C the
   dependency cone, `filter kr acc = filter kr acc'` implies that wfm acc U and wfm acc' U' agree on the atoms
   of C (so the four indicators of prob_gen satisfy the hypothesis of the theorem above).  The oracle's use of
   `restrict`/`prune` is therefore additionally tied to Sem.answers by the spec-vs-fast self-check of the C01 run.
   Also not proved: C08_roots_monotone / C08_order_free on the pipeline model ground_m (DESIGN C01 stretch). *)

Example C08_example :
  gprob (mkG [AD [(3#10, (1%N, []))] []; Rule (2%N, []) [Pos (1%N, [])]; AD [(1#2, (5%N, []))] []] [(2%N, [])] []) (2%N, [])
  = Ok (3#10).
Proof. vm_compute. reflexivity. Qed.
