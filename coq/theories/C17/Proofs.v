(* C17 -- token-level round trip: the reference reader inverts the printer on
   every statement satisfying [ok_stmt]. *)
From Coq Require Import String Ascii List ZArith NArith Bool Arith Lia.
From PL.C17 Require Import ModelPrinter ModelReader.
Import ListNotations.
Local Open Scope string_scope.
Local Open Scope nat_scope.
Local Open Scope list_scope.

Arguments lookup : simpl never.

(* ------------------------------------------------------------------ unfolding equations *)
Lemma parse_S f maxp ts :
  parse (S f) maxp ts =
  match primary f maxp ts with
  | Some (l, lp, rest) => infix f maxp l lp rest
  | None => None
  end.
Proof. reflexivity. Qed.

Lemma infix_S f maxp l lp ts :
  infix (S f) maxp l lp ts =
  match ts with
  | [] => Some (l, lp, [])
  | t :: r =>
      match infix_of t with
      | Some (n, p, s) =>
          if (p <=? maxp) && (lp <=? leftmax p s) then
            match parse f (rightmax p s) r with
            | Some (b, _, r1) => infix f maxp (mk_bin n p s l b) p r1
            | None => None
            end
          else Some (l, lp, ts)
      | None => Some (l, lp, ts)
      end
  end.
Proof. reflexivity. Qed.

Lemma primary_var f maxp s r : primary (S f) maxp (TVar s :: r) = Some (Var s, 0, r).
Proof. reflexivity. Qed.
Lemma primary_int f maxp n r : primary (S f) maxp (TInt n :: r) = Some (Int (Z.of_N n), 0, r).
Proof. reflexivity. Qed.
Lemma primary_flt f maxp s r : primary (S f) maxp (TFlt s :: r) = Some (Flt false s, 0, r).
Proof. reflexivity. Qed.
Lemma primary_str f maxp s r : primary (S f) maxp (TStr s :: r) = Some (Str s, 0, r).
Proof. reflexivity. Qed.
Lemma primary_open f maxp r :
  primary (S f) maxp (TOpen :: r) =
  match parse f 1200 r with
  | Some (t, _, TClose :: r') => Some (t, 0, r')
  | _ => None
  end.
Proof. reflexivity. Qed.
Lemma primary_nil f maxp r : primary (S f) maxp (TLBrack :: TRBrack :: r) = Some (App "[]" [], 0, r).
Proof. reflexivity. Qed.
Definition is_rbrack (t : token) : bool := match t with TRBrack => true | _ => false end.
Lemma primary_list f maxp t r :
  is_rbrack t = false ->
  primary (S f) maxp (TLBrack :: t :: r) =
  match parse f 999 (t :: r) with
  | Some (h, _, r1) =>
      match ltail f r1 with
      | Some (tl, r2) => Some (Cons h tl, 0, r2)
      | None => None
      end
  | None => None
  end.
Proof. destruct t; simpl; try discriminate; reflexivity. Qed.
Lemma primary_app f maxp n r :
  primary (S f) maxp (TName n true :: TOpen :: r) =
  match parse f 999 r with
  | Some (a, _, r1) =>
      match args f r1 with
      | Some (l, r2) => Some (App n (a :: l), 0, r2)
      | None => None
      end
  | None => None
  end.
Proof. reflexivity. Qed.
Lemma primary_name f maxp n r :
  primary (S f) maxp (TName n false :: r) =
  match lookup n prefix_table with
  | Some (p, s) =>
      if p <=? maxp then
        match parse f (opmax p s) r with
        | Some (a, _, r1) => Some (mk_un n p s a, p, r1)
        | None => None
        end
      else None
  | None => Some (App n [], 0, r)
  end.
Proof. reflexivity. Qed.
Lemma args_close f r : args (S f) (TClose :: r) = Some ([], r).
Proof. reflexivity. Qed.
Lemma args_comma f r :
  args (S f) (TComma :: r) =
  match parse f 999 r with
  | Some (a, _, r1) =>
      match args f r1 with
      | Some (l, r2) => Some (a :: l, r2)
      | None => None
      end
  | None => None
  end.
Proof. reflexivity. Qed.
Lemma ltail_close f r : ltail (S f) (TRBrack :: r) = Some (App "[]" [], r).
Proof. reflexivity. Qed.
Lemma ltail_comma f r :
  ltail (S f) (TComma :: r) =
  match parse f 999 r with
  | Some (h, _, r1) =>
      match ltail f r1 with
      | Some (t, r2) => Some (Cons h t, r2)
      | None => None
      end
  | None => None
  end.
Proof. reflexivity. Qed.
Lemma ltail_bar f r :
  ltail (S f) (TBar :: r) =
  match parse f 999 r with
  | Some (t, _, TRBrack :: r2) => Some (t, r2)
  | _ => None
  end.
Proof. reflexivity. Qed.

(* ------------------------------------------------------------------ tokens of pieces *)
Lemma toks_app l1 l2 : toks (l1 ++ l2) = toks l1 ++ toks l2.
Proof.
  induction l1 as [|[t|] l1 IH]; simpl; [reflexivity| |]; rewrite IH; reflexivity.
Qed.

Lemma toks_wrap l : toks (wrap l) = TOpen :: toks l ++ [TClose].
Proof. unfold wrap. simpl. rewrite toks_app. reflexivity. Qed.

Definition tk (m : mode) (t : tm) : list token := toks (pr m t).

Definition args_toks (l : list tm) : list token :=
  flat_map (fun x => TComma :: tk MIn x) l.

Fixpoint lt_toks (u : tm) : list token :=
  match u with
  | Cons x y => TComma :: tk MIn x ++ lt_toks y
  | _ => if is_nil u then [] else TBar :: tk MIn u
  end.

Fixpoint oktail (u : tm) : bool :=
  match u with
  | Cons x y => ok MIn x && (eff MIn x <=? 999) && oktail y
  | _ => is_nil u || (ok MIn u && (eff MIn u <=? 999))
  end.

Fixpoint args_pr (l : list tm) : list piece :=
  match l with
  | [] => []
  | x :: l' => PT TComma :: pr MIn x ++ args_pr l'
  end.

Fixpoint lt_pr (u : tm) : list piece :=
  match u with
  | Cons x y => PT TComma :: PSp :: pr MIn x ++ lt_pr y
  | _ => if is_nil u then [] else PSp :: PT TBar :: PSp :: pr MIn u
  end.

Lemma pr_app_cons m f a l :
  pr m (App f (a :: l)) = PT (TName f (ct_capable f)) :: PT TOpen :: pr MIn a ++ args_pr l ++ [PT TClose].
Proof. reflexivity. Qed.

Lemma pr_cons m h tl :
  pr m (Cons h tl) = PT TLBrack :: pr MIn h ++ lt_pr tl ++ [PT TRBrack].
Proof. reflexivity. Qed.

Lemma toks_args_pr l : toks (args_pr l) = args_toks l.
Proof.
  induction l as [|x l IH]; [reflexivity|].
  cbn [args_pr toks]. rewrite toks_app, IH. reflexivity.
Qed.

Lemma toks_lt_pr u : toks (lt_pr u) = lt_toks u.
Proof.
  induction u; cbn [lt_pr lt_toks];
    try (destruct (is_nil _); cbn [toks]; reflexivity).
  cbn [toks]. rewrite toks_app, IHu2. reflexivity.
Qed.

Lemma tk_app_cons m f a l :
  tk m (App f (a :: l)) = TName f (ct_capable f) :: TOpen :: tk MIn a ++ args_toks l ++ [TClose].
Proof.
  unfold tk. rewrite pr_app_cons. cbn [toks]. rewrite !toks_app, toks_args_pr. reflexivity.
Qed.

Lemma tk_cons m h tl :
  tk m (Cons h tl) = TLBrack :: tk MIn h ++ lt_toks tl ++ [TRBrack].
Proof.
  unfold tk. rewrite pr_cons. cbn [toks]. rewrite !toks_app, toks_lt_pr. reflexivity.
Qed.

Lemma ok_cons m h tl :
  ok m (Cons h tl) = ok MIn h && (eff MIn h <=? 999) && oktail tl.
Proof. reflexivity. Qed.

Lemma toks_op_pieces n r : exists fl, toks (op_pieces n r) = [TName n fl].
Proof.
  unfold op_pieces. destruct (alpha_start n); simpl; eexists; reflexivity.
Qed.

(* ------------------------------------------------------------------ the reading relation *)
Definition cost (ts : list token) : nat := 3 * List.length ts.

Lemma cost_app a b : cost (a ++ b) = cost a + cost b.
Proof. unfold cost. rewrite app_length. lia. Qed.
Lemma cost_cons t a : cost (t :: a) = 3 + cost a.
Proof. unfold cost. simpl. lia. Qed.
Lemma cost_nil : cost [] = 0.
Proof. reflexivity. Qed.

Definition guard (rl : nat) (rest : list token) : Prop :=
  match rest with
  | [] => True
  | t :: _ => match infix_of t with Some (_, q, _) => rl < q | None => True end
  end.

Lemma guard_mono rl rl' rest : guard rl rest -> rl' <= rl -> guard rl' rest.
Proof.
  unfold guard. destruct rest as [|t r]; [tauto|].
  destruct (infix_of t) as [[[n q] s]|]; [lia|tauto].
Qed.

Lemma infix_stop rl rest maxp l lp k :
  guard rl rest -> maxp <= rl -> 1 <= k -> infix k maxp l lp rest = Some (l, lp, rest).
Proof.
  intros G Hm Hk. destruct k as [|k]; [lia|]. rewrite infix_S.
  destruct rest as [|t r]; [reflexivity|].
  unfold guard in G. destruct (infix_of t) as [[[n q] s]|]; [|reflexivity].
  replace (q <=? maxp) with false by (symmetry; apply Nat.leb_gt; lia).
  reflexivity.
Qed.

(* [ts] is read as term [t] of priority [pt]; [rl] is the level at which the
   reader is still working when it reaches the end of [ts] *)
Definition reads (ts : list token) (t : tm) (pt rl : nat) : Prop :=
  forall maxp rest K r,
    pt <= maxp -> guard rl rest -> 1 <= K ->
    (forall k, K <= k -> infix k maxp t pt rest = Some r) ->
    forall k, K + cost ts <= k -> parse k maxp (ts ++ rest) = Some r.

Lemma reads_atom tk0 t :
  (forall f maxp r, primary (S f) maxp (tk0 :: r) = Some (t, 0, r)) ->
  reads [tk0] t 0 0.
Proof.
  intros H maxp rest K r _ _ HK Hinf k Hk.
  rewrite cost_cons, cost_nil in Hk.
  destruct k as [|k]; [lia|]. rewrite parse_S.
  destruct k as [|k]; [lia|]. simpl app. rewrite H. apply Hinf. lia.
Qed.

Lemma reads_wrap ts t pt rl :
  reads ts t pt rl -> pt <= 1200 -> reads (TOpen :: ts ++ [TClose]) t 0 0.
Proof.
  intros H Hp maxp rest K r _ _ HK Hinf k Hk.
  rewrite cost_cons, cost_app, cost_cons, cost_nil in Hk.
  destruct k as [|k]; [lia|]. rewrite parse_S.
  destruct k as [|k]; [lia|]. simpl app. rewrite primary_open.
  rewrite <- app_assoc. simpl app.
  rewrite (H 1200 (TClose :: rest) 1 (t, pt, TClose :: rest)); try lia.
  - apply Hinf. lia.
  - simpl. exact I.
  - intros k' Hk'. apply infix_stop with (rl := 1200); try lia. simpl. exact I.
Qed.

Lemma reads_bin tsL tsR a b pa rla pb rlb tk0 n p s :
  reads tsL a pa rla -> reads tsR b pb rlb ->
  infix_of tk0 = Some (n, p, s) ->
  pa <= leftmax p s -> rla < p -> pb <= rightmax p s -> rlb <= rightmax p s ->
  leftmax p s <= p ->
  reads (tsL ++ tk0 :: tsR) (mk_bin n p s a b) p (rightmax p s).
Proof.
  intros HL HR Hop Hpa Hrla Hpb Hrlb Hlm maxp rest K r Hp Hg HK Hinf k Hk.
  rewrite cost_app, cost_cons in Hk.
  rewrite <- app_assoc. simpl app.
  apply (HL maxp (tk0 :: tsR ++ rest) (K + cost tsR + 2) r); try lia.
  - unfold guard. rewrite Hop. exact Hrla.
  - intros k' Hk'. destruct k' as [|k']; [lia|]. rewrite infix_S. rewrite Hop.
    replace ((p <=? maxp) && (pa <=? leftmax p s)) with true
      by (symmetry; apply andb_true_iff; split; apply Nat.leb_le; lia).
    rewrite (HR (rightmax p s) rest 1 (b, pb, rest)); try lia.
    + apply Hinf. lia.
    + eapply guard_mono; eauto.
    + intros k2 Hk2. apply infix_stop with (rl := rightmax p s); auto.
Qed.

Lemma reads_prefix ts a pa rla n p s :
  reads ts a pa rla ->
  lookup n prefix_table = Some (p, s) ->
  pa <= opmax p s -> rla <= opmax p s ->
  reads (TName n false :: ts) (mk_un n p s a) p (opmax p s).
Proof.
  intros H Hl Hpa Hrla maxp rest K r Hp Hg HK Hinf k Hk.
  rewrite cost_cons in Hk.
  destruct k as [|k]; [lia|]. rewrite parse_S.
  destruct k as [|k]; [lia|]. simpl app. rewrite primary_name. rewrite Hl.
  replace (p <=? maxp) with true by (symmetry; apply Nat.leb_le; lia).
  rewrite (H (opmax p s) rest 1 (a, pa, rest)); try lia.
  - apply Hinf. lia.
  - eapply guard_mono; eauto.
  - intros k2 Hk2. apply infix_stop with (rl := opmax p s); auto.
Qed.

(* a term read in argument position (max 999) followed by , ) | ] *)
Definition arg_stop (rest : list token) : Prop :=
  match rest with
  | TComma :: _ | TClose :: _ | TBar :: _ | TRBrack :: _ => True
  | _ => False
  end.

Lemma reads_arg ts t pt rl rest k :
  reads ts t pt rl -> pt <= 999 -> rl <= 999 -> arg_stop rest ->
  1 + cost ts <= k -> parse k 999 (ts ++ rest) = Some (t, pt, rest).
Proof.
  intros H Hp Hrl Hs Hk.
  apply (H 999 rest 1 (t, pt, rest)); try lia.
  - destruct rest as [|[]]; simpl in *; try tauto; lia.
  - intros k' Hk'. apply infix_stop with (rl := 999); try lia.
    destruct rest as [|[]]; simpl in *; try tauto; lia.
Qed.

(* ------------------------------------------------------------------ table facts *)
Lemma lookup_forall (P : nat * spec -> Prop) tbl n v :
  Forall (fun kv => P (snd kv)) tbl -> lookup n tbl = Some v -> P v.
Proof.
  induction 1 as [|[k w] l Hx Hl IH]; [discriminate|].
  change (lookup n ((k, w) :: l)) with (if String.eqb n k then Some w else lookup n l).
  destruct (String.eqb n k); [intros E; inversion E; subst; exact Hx|exact IH].
Qed.

Lemma binop_range n p s : lookup n binop_table = Some (p, s) -> 200 <= p <= 1200.
Proof.
  apply (lookup_forall (fun v => 200 <= fst v <= 1200) binop_table n (p, s)).
  unfold binop_table. repeat (apply Forall_cons; [simpl; lia|]). apply Forall_nil.
Qed.

Lemma prefix_range n p s : lookup n prefix_table = Some (p, s) -> 200 <= p <= 900.
Proof.
  apply (lookup_forall (fun v => 200 <= fst v <= 900) prefix_table n (p, s)).
  unfold prefix_table. repeat (apply Forall_cons; [simpl; lia|]). apply Forall_nil.
Qed.

Lemma binop_not_special n v :
  lookup n binop_table = Some v ->
  String.eqb n "," = false /\ String.eqb n ";" = false /\ String.eqb n "::" = false.
Proof.
  intros H. repeat split.
  - destruct (String.eqb n ",") eqn:E; [|reflexivity]. apply String.eqb_eq in E. subst. discriminate H.
  - destruct (String.eqb n ";") eqn:E; [|reflexivity]. apply String.eqb_eq in E. subst. discriminate H.
  - destruct (String.eqb n "::") eqn:E; [|reflexivity]. apply String.eqb_eq in E. subst. discriminate H.
Qed.

Lemma infix_of_binop n fl p s :
  lookup n binop_table = Some (p, s) -> infix_of (TName n fl) = Some (n, p, s).
Proof.
  intros H. destruct (binop_not_special _ _ H) as (_ & H2 & H3).
  unfold infix_of. rewrite H2, H3, H. reflexivity.
Qed.

Lemma mk_bin_binop n p s a b :
  lookup n binop_table = Some (p, s) -> mk_bin n p s a b = Bin n p s a b.
Proof.
  intros H. destruct (binop_not_special _ _ H) as (H1 & H2 & H3).
  unfold mk_bin. rewrite H1, H2, H3. reflexivity.
Qed.

Lemma leftmax_le p s : leftmax p s <= p.
Proof. destruct s; simpl; lia. Qed.
Lemma rightmax_le p s : rightmax p s <= p.
Proof. destruct s; simpl; lia. Qed.
Lemma opmax_le p s : opmax p s <= p.
Proof. destruct s; simpl; lia. Qed.

Lemma spec_eqb_eq a b : spec_eqb a b = true -> a = b.
Proof. destruct a, b; simpl; congruence. Qed.

Lemma rlev_le_eff m t : rlev m t <= eff m t.
Proof.
  destruct t; simpl; try lia; try apply rightmax_le; try apply opmax_le; destruct m; lia.
Qed.

(* ------------------------------------------------------------------ induction principle *)
Section TmInd.
  Variable P : tm -> Prop.
  Hypothesis HVar : forall s, P (Var s).
  Hypothesis HInt : forall z, P (Int z).
  Hypothesis HFlt : forall n s, P (Flt n s).
  Hypothesis HStr : forall s, P (Str s).
  Hypothesis HApp : forall f l, Forall P l -> P (App f l).
  Hypothesis HBin : forall n p s a b, P a -> P b -> P (Bin n p s a b).
  Hypothesis HUn : forall n p s a, P a -> P (Un n p s a).
  Hypothesis HNeg : forall f a, P a -> P (Neg f a).
  Hypothesis HAnd : forall a b, P a -> P b -> P (And a b).
  Hypothesis HOr : forall a b, P a -> P b -> P (Or a b).
  Hypothesis HCons : forall a b, P a -> P b -> P (Cons a b).
  Hypothesis HProb : forall a b, P a -> P b -> P (Prob a b).

  Fixpoint tm_ind2 (t : tm) : P t :=
    match t with
    | Var s => HVar s
    | Int z => HInt z
    | Flt n s => HFlt n s
    | Str s => HStr s
    | App f l =>
        HApp f l ((fix go (l : list tm) : Forall P l :=
                     match l with
                     | [] => Forall_nil P
                     | x :: r => Forall_cons x (tm_ind2 x) (go r)
                     end) l)
    | Bin n p s a b => HBin n p s a b (tm_ind2 a) (tm_ind2 b)
    | Un n p s a => HUn n p s a (tm_ind2 a)
    | Neg f a => HNeg f a (tm_ind2 a)
    | And a b => HAnd a b (tm_ind2 a) (tm_ind2 b)
    | Or a b => HOr a b (tm_ind2 a) (tm_ind2 b)
    | Cons a b => HCons a b (tm_ind2 a) (tm_ind2 b)
    | Prob a b => HProb a b (tm_ind2 a) (tm_ind2 b)
    end.
End TmInd.

(* ------------------------------------------------------------------ the main lemma *)
Definition main_P (t : tm) : Prop :=
  forall m, ok m t = true -> reads (tk m t) t (eff m t) (rlev m t).

Definition tail_Q (t : tm) : Prop :=
  oktail t = true ->
  forall rest k, 1 + cost (lt_toks t) + 3 <= k ->
    ltail k (lt_toks t ++ TRBrack :: rest) = Some (t, rest).

Ltac btrue :=
  repeat match goal with
         | H : _ && _ = true |- _ => apply andb_true_iff in H; destruct H
         | H : negb _ = true |- _ => apply negb_true_iff in H
         | H : (_ <=? _) = true |- _ => apply Nat.leb_le in H
         | H : (_ <? _) = true |- _ => apply Nat.ltb_lt in H
         | H : (_ =? _) = true |- _ => apply Nat.eqb_eq in H
         end.

Lemma eff_le_1200 m t : ok m t = true -> eff m t <= 1200.
Proof.
  destruct t; simpl; intros H; try lia.
  - destruct (z <? 0)%Z; lia.
  - destruct neg; lia.
  - destruct (lookup n binop_table) as [[p' s']|] eqn:E; [|discriminate].
    btrue. subst. apply binop_range in E. lia.
  - destruct (lookup n prefix_table) as [[p' s']|] eqn:E; [|discriminate].
    btrue. subst. apply prefix_range in E. lia.
  - destruct m; lia.
  - destruct m; lia.
Qed.

Lemma args_toks_cons x l : args_toks (x :: l) = TComma :: tk MIn x ++ args_toks l.
Proof. reflexivity. Qed.

Lemma reads_args l :
  Forall main_P l ->
  forallb (fun a => ok MIn a && (eff MIn a <=? 999)) l = true ->
  forall rest k, 1 + cost (args_toks l) + 3 <= k ->
    args k (args_toks l ++ TClose :: rest) = Some (l, rest).
Proof.
  induction 1 as [|x l Hx Hl IH]; intros Hok rest k Hk.
  - simpl. destruct k as [|k]; [lia|]. apply args_close.
  - simpl in Hok. btrue.
    rewrite args_toks_cons in *. simpl app.
    rewrite cost_cons, cost_app in Hk.
    destruct k as [|k]; [lia|]. rewrite args_comma.
    rewrite <- app_assoc.
    rewrite (reads_arg (tk MIn x) x (eff MIn x) (rlev MIn x)); try lia.
    + rewrite IH; auto. lia.
    + apply Hx; auto.
    + pose proof (rlev_le_eff MIn x). lia.
    + destruct l; simpl; exact I.
Qed.

Lemma is_nil_eq u : is_nil u = true -> u = App "[]" [].
Proof.
  destruct u; simpl; try discriminate. destruct args; [|discriminate].
  intros H. apply String.eqb_eq in H. subst. reflexivity.
Qed.

Lemma lt_toks_stop u rest : arg_stop (lt_toks u ++ TRBrack :: rest).
Proof.
  destruct u; cbn [lt_toks]; try (destruct (is_nil _)); simpl; exact I.
Qed.

Lemma tail_generic t :
  main_P t -> (forall x y, t <> Cons x y) -> is_nil t = false -> tail_Q t.
Proof.
  intros M Hnc Hnil Hok rest k Hk.
  assert (E1 : lt_toks t = TBar :: tk MIn t).
  { destruct t; cbn [lt_toks]; try rewrite Hnil; try reflexivity. exfalso. eapply Hnc. reflexivity. }
  assert (E2 : oktail t = is_nil t || (ok MIn t && (eff MIn t <=? 999))).
  { destruct t; try reflexivity. exfalso. eapply Hnc. reflexivity. }
  rewrite E2, Hnil in Hok. simpl orb in Hok. btrue. rewrite E1 in *. rewrite cost_cons in Hk. simpl app.
  destruct k; [lia|]. rewrite ltail_bar.
  rewrite (reads_arg (tk MIn t) t (eff MIn t) (rlev MIn t) (TRBrack :: rest) k).
  - reflexivity.
  - apply M; auto.
  - lia.
  - pose proof (rlev_le_eff MIn t). lia.
  - exact I.
  - lia.
Qed.

Ltac tail_gen M := apply tail_generic; [exact M | intros ? ?; discriminate | reflexivity].

Theorem main_all : forall t, main_P t /\ tail_Q t.
Proof.
  induction t using tm_ind2.
  - (* Var *)
    split.
    + intros m _. apply reads_atom. intros. apply primary_var.
    + apply tail_generic; [|intros ? ?; discriminate|reflexivity].
      intros m _. apply reads_atom. intros. apply primary_var.
  - (* Int *)
    assert (M : main_P (Int z)).
    { intros m _. unfold tk. simpl. destruct (z <? 0)%Z eqn:E; simpl toks.
      - apply Z.ltb_lt in E.
        replace (Int z) with (mk_un "-" 200 FY (Int (Z.of_N (Z.to_N (- z))))).
        + apply reads_prefix with (pa := 0) (rla := 0); simpl; try lia; try reflexivity.
          apply reads_atom. intros. apply primary_int.
        + replace (Z.of_N (Z.to_N (- z))) with (- z)%Z by (rewrite Z2N.id; lia).
          change (mk_un "-" 200 FY (Int (- z))) with (Int (- - z)). f_equal. lia.
      - apply Z.ltb_ge in E.
        apply reads_atom. intros. rewrite primary_int. rewrite Z2N.id by lia. reflexivity. }
    split; [exact M|]. tail_gen M.
  - (* Flt *)
    assert (M : main_P (Flt n s)).
    { intros m _. unfold tk. simpl. destruct n; simpl toks.
      - change (Flt true s) with (mk_un "-" 200 FY (Flt false s)).
        apply reads_prefix with (pa := 0) (rla := 0); simpl; try lia; try reflexivity.
        apply reads_atom. intros. apply primary_flt.
      - apply reads_atom. intros. apply primary_flt. }
    split; [exact M|]. tail_gen M.
  - (* Str *)
    split.
    + intros m _. apply reads_atom. intros. apply primary_str.
    + apply tail_generic; [|intros ? ?; discriminate|reflexivity].
      intros m _. apply reads_atom. intros. apply primary_str.
  - (* App *)
    rename H into IHl.
    assert (M : main_P (App f l)).
    { intros m Hok. destruct l as [|a l].
      - simpl in Hok. unfold tk. simpl.
        destruct (String.eqb f "[]") eqn:E.
        + apply String.eqb_eq in E. subst. simpl toks.
          intros maxp rest K r _ _ HK Hinf k Hk.
          rewrite !cost_cons, cost_nil in Hk.
          destruct k as [|k]; [lia|]. rewrite parse_S.
          destruct k as [|k]; [lia|]. simpl app. rewrite primary_nil. apply Hinf. lia.
        + simpl in Hok. btrue. unfold no_prefix in H.
          destruct (lookup f prefix_table) eqn:E2; [discriminate|].
          simpl toks. apply reads_atom. intros. rewrite primary_name. rewrite E2. reflexivity.
      - rewrite tk_app_cons.
        assert (Hok' : ct_capable f = true /\ forallb (fun a0 => ok MIn a0 && (eff MIn a0 <=? 999)) (a :: l) = true).
        { simpl in Hok. simpl. btrue. split; [assumption|]. apply andb_true_iff. split; [|assumption].
          apply andb_true_iff. split; [assumption|]. apply Nat.leb_le. assumption. }
        destruct Hok' as [Hc Hall]. rewrite Hc.
        inversion IHl as [|? ? Ha Hl]; subst. destruct Ha as [Ha _].
        assert (Hl' : Forall main_P l) by (eapply Forall_impl; [|exact Hl]; intros ? [? _]; assumption).
        simpl in Hall. btrue.
        intros maxp rest K r _ _ HK Hinf k Hk.
        rewrite !cost_cons, !cost_app, cost_cons, cost_nil in Hk.
        destruct k as [|k]; [lia|]. rewrite parse_S.
        destruct k as [|k]; [lia|]. simpl app. rewrite primary_app.
        rewrite <- !app_assoc. simpl app.
        rewrite (reads_arg (tk MIn a) a (eff MIn a) (rlev MIn a)); try lia.
        + rewrite reads_args; auto; try lia. apply Hinf. lia.
        + apply Ha; auto.
        + pose proof (rlev_le_eff MIn a). lia.
        + destruct l; simpl; exact I. }
    split; [exact M|].
    destruct (is_nil (App f l)) eqn:En.
    + intros Hok rest k Hk. apply is_nil_eq in En. inversion En; subst. cbn.
      destruct k; [cbn in Hk; lia|]. apply ltail_close.
    + apply tail_generic; [exact M|intros ? ?; discriminate|exact En].
  - (* Bin *)
    destruct IHt1 as [IHa _]. destruct IHt2 as [IHb _].
    assert (M : main_P (Bin n p s t1 t2)).
    { intros m Hok. simpl in Hok.
      destruct (lookup n binop_table) as [[p' s']|] eqn:E; [|discriminate].
      btrue. subst p'. apply spec_eqb_eq in H4. subst s'.
      pose proof (binop_range _ _ _ E) as Hr.
      unfold tk. simpl pr. rewrite !toks_app.
      destruct (toks_op_pieces n (if bare_right p s t2 then pr MIn t2 else wrap (pr MIn t2))) as [fl Hfl].
      rewrite Hfl. simpl app.
      change (eff m (Bin n p s t1 t2)) with p. change (rlev m (Bin n p s t1 t2)) with (rightmax p s).
      rewrite <- (mk_bin_binop n p s t1 t2 E).
      apply reads_bin with (pa := if bare_left p s t1 then eff MIn t1 else 0)
                           (rla := if bare_left p s t1 then rlev MIn t1 else 0)
                           (pb := if bare_right p s t2 then eff MIn t2 else 0)
                           (rlb := if bare_right p s t2 then rlev MIn t2 else 0).
      - destruct (bare_left p s t1).
        + apply IHa; auto.
        + rewrite toks_wrap. eapply reads_wrap; [apply IHa; auto|]. apply eff_le_1200; auto.
      - destruct (bare_right p s t2).
        + apply IHb; auto.
        + rewrite toks_wrap. eapply reads_wrap; [apply IHb; auto|]. apply eff_le_1200; auto.
      - apply infix_of_binop; auto.
      - destruct (bare_left p s t1); btrue; [lia|lia].
      - destruct (bare_left p s t1); btrue; [lia|lia].
      - destruct (bare_right p s t2); btrue; [lia|lia].
      - destruct (bare_right p s t2); btrue.
        + pose proof (rlev_le_eff MIn t2). lia.
        + lia.
      - apply leftmax_le. }
    split; [exact M|]. tail_gen M.
  - (* Un *)
    destruct IHt as [IHa _].
    assert (M : main_P (Un n p s t)).
    { intros m Hok. simpl in Hok.
      destruct (lookup n prefix_table) as [[p' s']|] eqn:E; [|discriminate].
      repeat rewrite andb_true_iff in Hok.
      destruct Hok as [[[[[[[[Hp Hs] Hn1] Hn2] Hn3] Hal] Hct] Hoka] Heff].
      apply Nat.eqb_eq in Hp. subst p'. apply spec_eqb_eq in Hs. subst s'.
      apply negb_true_iff in Hn1, Hn2, Hn3, Hal, Hct. apply Nat.leb_le in Heff.
      unfold tk. simpl pr. unfold op_pieces. rewrite Hal. unfold nm. rewrite Hct.
      simpl toks. fold (tk MIn t).
      change (eff m (Un n p s t)) with p. change (rlev m (Un n p s t)) with (opmax p s).
      replace (Un n p s t) with (mk_un n p s t).
      - apply reads_prefix with (pa := eff MIn t) (rla := rlev MIn t); auto.
        pose proof (rlev_le_eff MIn t). lia.
      - unfold mk_un. rewrite Hn1, Hn2. simpl orb. cbv iota.
        destruct (String.eqb n "-"); [|reflexivity].
        simpl in Hn3. destruct t; simpl in Hn3; try reflexivity; discriminate. }
    split; [exact M|]. tail_gen M.
  - (* Neg *)
    destruct IHt as [IHa _].
    assert (M : main_P (Neg f t)).
    { intros m Hok.
      assert (Inner : String.eqb f "\+" = true -> ok MIn t = true ->
                      reads (TName f (ct_capable f) :: TOpen :: tk MIn t ++ [TClose]) (Neg f t) 900 900).
      { intros Hf Ht. apply String.eqb_eq in Hf. subst f.
        change (Neg "\+" t) with (mk_un "\+" 900 FY t).
        change (ct_capable "\+") with false.
        apply reads_prefix with (pa := 0) (rla := 0) (p := 900) (s := FY); simpl; try lia; try reflexivity.
        eapply reads_wrap; [apply IHa; eauto|]. apply eff_le_1200; auto. }
      destruct m; simpl in Hok; btrue;
        try (unfold tk; simpl pr; simpl toks; rewrite toks_app; simpl toks; apply Inner; assumption).
      (* MTop *)
      unfold tk. simpl pr.
      set (c := if is_and (core t) || is_or (core t) then wrap (pr MTop t) else pr MTop t).
      assert (Hc : reads (toks c) t (if is_and (core t) || is_or (core t) then 0 else eff MTop t)
                         (if is_and (core t) || is_or (core t) then 0 else rlev MTop t)).
      { subst c. destruct (is_and (core t) || is_or (core t)).
        - rewrite toks_wrap. eapply reads_wrap; [apply IHa; eauto|]. apply eff_le_1200; auto.
        - apply IHa; auto. }
      assert (Hp : (if is_and (core t) || is_or (core t) then 0 else eff MTop t) <= 900).
      { destruct (is_and (core t) || is_or (core t)) eqn:Ec; [lia|].
        apply orb_true_iff in H0. destruct H0 as [H0|H0]; [rewrite H0 in Ec; discriminate|].
        btrue. lia. }
      assert (Hr : (if is_and (core t) || is_or (core t) then 0 else rlev MTop t) <= 900).
      { destruct (is_and (core t) || is_or (core t)); [lia|]. pose proof (rlev_le_eff MTop t). lia. }
      apply orb_true_iff in H. destruct H as [Hf|Hf]; apply String.eqb_eq in Hf; subst f.
      - simpl String.eqb. cbv iota. unfold nm. change (ct_capable "\+") with false. simpl andb.
        simpl toks.
        change (Neg "\+" t) with (mk_un "\+" 900 FY t).
        apply reads_prefix with (p := 900) (s := FY) (pa := if is_and (core t) || is_or (core t) then 0 else eff MTop t)
                                (rla := if is_and (core t) || is_or (core t) then 0 else rlev MTop t); auto.
      - simpl String.eqb. cbv iota. simpl toks.
        change (Neg "not" t) with (mk_un "not" 900 FY t).
        apply reads_prefix with (p := 900) (s := FY) (pa := if is_and (core t) || is_or (core t) then 0 else eff MTop t)
                                (rla := if is_and (core t) || is_or (core t) then 0 else rlev MTop t); auto. }
    split; [exact M|]. tail_gen M.
  - (* And *)
    destruct IHt1 as [IHa _]. destruct IHt2 as [IHb _].
    assert (Inner : ok MIn (And t1 t2) = true ->
                    reads (toks ((if is_or (core t1) then wrap (pr MIn t1) else pr MIn t1) ++ sep_comma ++ pr MAndT t2))
                          (And t1 t2) 1000 1000).
    { intros Hok. simpl in Hok. btrue.
      rewrite !toks_app. simpl (toks sep_comma). simpl app.
      change (And t1 t2) with (mk_bin "," 1000 XFY t1 t2).
      change 1000 with (rightmax 1000 XFY) at 2.
      apply reads_bin with (pa := if is_or (core t1) then 0 else eff MIn t1)
                           (rla := if is_or (core t1) then 0 else rlev MIn t1)
                           (pb := eff MAndT t2) (rlb := rlev MAndT t2); simpl; try lia; try reflexivity.
      - destruct (is_or (core t1)).
        + rewrite toks_wrap. eapply reads_wrap; [apply IHa; eauto|]. apply eff_le_1200; auto.
        + apply IHa; auto.
      - apply IHb; auto.
      - destruct (is_or (core t1)); [lia|]. simpl in H1. btrue. lia.
      - destruct (is_or (core t1)); [lia|]. simpl in H1. btrue. lia.
      - pose proof (rlev_le_eff MAndT t2). lia. }
    assert (M : main_P (And t1 t2)).
    { intros m Hok. destruct m.
      - (* MIn *) unfold tk. simpl pr. rewrite toks_wrap. simpl eff. simpl rlev.
        eapply reads_wrap; [apply Inner; exact Hok|lia].
      - (* MTop *)
        simpl in Hok. btrue. unfold tk. simpl pr.
        rewrite !toks_app. simpl (toks sep_comma). simpl app.
        simpl eff. simpl rlev.
        change (And t1 t2) with (mk_bin "," 1000 XFY t1 t2).
        change 1000 with (rightmax 1000 XFY) at 2.
        apply reads_bin with (pa := if is_or (core t1) then 0 else eff MTop t1)
                             (rla := if is_or (core t1) then 0 else rlev MTop t1)
                             (pb := if is_or (core t2) then 0 else eff MTop t2)
                             (rlb := if is_or (core t2) then 0 else rlev MTop t2); simpl; try lia; try reflexivity.
        + destruct (is_or (core t1)).
          * rewrite toks_wrap. eapply reads_wrap; [apply IHa; eauto|]. apply eff_le_1200; auto.
          * apply IHa; auto.
        + destruct (is_or (core t2)).
          * rewrite toks_wrap. eapply reads_wrap; [apply IHb; eauto|]. apply eff_le_1200; auto.
          * apply IHb; auto.
        + destruct (is_or (core t1)); [lia|]. simpl in H1. btrue. lia.
        + destruct (is_or (core t1)); [lia|]. simpl in H1. btrue. lia.
        + destruct (is_or (core t2)); [lia|]. simpl in H0. btrue. lia.
        + destruct (is_or (core t2)); [lia|]. simpl in H0. btrue. pose proof (rlev_le_eff MTop t2). lia.
      - (* MAndT *) unfold tk. simpl pr. simpl eff. simpl rlev. apply Inner. exact Hok.
      - (* MOrT *) unfold tk. simpl pr. rewrite toks_wrap. simpl eff. simpl rlev.
        eapply reads_wrap; [apply Inner; exact Hok|lia]. }
    split; [exact M|]. tail_gen M.
  - (* Or *)
    destruct IHt1 as [IHa _]. destruct IHt2 as [IHb _].
    assert (Inner : ok MIn (Or t1 t2) = true ->
                    reads (toks (pr MIn t1 ++ sep_semi ++ pr MOrT t2)) (Or t1 t2) 1100 1100).
    { intros Hok. simpl in Hok. btrue.
      rewrite !toks_app. simpl (toks sep_semi). simpl app.
      change (Or t1 t2) with (mk_bin ";" 1100 XFY t1 t2).
      change 1100 with (rightmax 1100 XFY) at 2.
      apply reads_bin with (pa := eff MIn t1) (rla := rlev MIn t1)
                           (pb := eff MOrT t2) (rlb := rlev MOrT t2); simpl; try lia; try reflexivity.
      - apply IHa; auto.
      - apply IHb; auto.
      - pose proof (rlev_le_eff MOrT t2). lia. }
    assert (M : main_P (Or t1 t2)).
    { intros m Hok. destruct m.
      - unfold tk. simpl pr. simpl eff. simpl rlev. apply Inner. exact Hok.
      - (* MTop *)
        simpl in Hok. btrue. unfold tk. simpl pr.
        rewrite !toks_app. simpl (toks sep_semi). simpl app.
        simpl eff. simpl rlev.
        change (Or t1 t2) with (mk_bin ";" 1100 XFY t1 t2).
        change 1100 with (rightmax 1100 XFY) at 2.
        apply reads_bin with (pa := eff MTop t1) (rla := rlev MTop t1)
                             (pb := eff MTop t2) (rlb := rlev MTop t2); simpl; try lia; try reflexivity.
        + apply IHa; auto.
        + apply IHb; auto.
        + pose proof (rlev_le_eff MTop t2). lia.
      - (* MAndT *) unfold tk. simpl pr. rewrite toks_wrap. simpl eff. simpl rlev.
        eapply reads_wrap; [apply Inner; exact Hok|lia].
      - unfold tk. simpl pr. simpl eff. simpl rlev. apply Inner. exact Hok. }
    split; [exact M|]. tail_gen M.
  - (* Cons *)
    destruct IHt1 as [IHa _]. destruct IHt2 as [_ IHtl].
    assert (M : main_P (Cons t1 t2)).
    { intros m Hok. rewrite ok_cons in Hok. btrue. rewrite tk_cons. simpl eff. simpl rlev.
      intros maxp rest K r _ _ HK Hinf k Hk.
      rewrite cost_cons, !cost_app, cost_cons, cost_nil in Hk.
      destruct k as [|k]; [lia|]. rewrite parse_S.
      destruct k as [|k]; [lia|]. simpl app.
      destruct (tk MIn t1) as [|t0 r0] eqn:Et.
      - (* impossible: the reader cannot read the empty list of tokens as a term *)
        exfalso.
        assert (X : parse (1 + cost (tk MIn t1)) 999 (tk MIn t1 ++ [TClose]) = Some (t1, eff MIn t1, [TClose])).
        { apply reads_arg with (rl := rlev MIn t1); try lia.
          - apply IHa; auto.
          - pose proof (rlev_le_eff MIn t1). lia.
          - simpl. exact I. }
        rewrite Et in X.
        simpl in X. discriminate X.
      - assert (Hnr : is_rbrack t0 = false).
        { destruct t0; try reflexivity. exfalso.
          assert (X : parse (1 + cost (tk MIn t1)) 999 (tk MIn t1 ++ [TClose]) = Some (t1, eff MIn t1, [TClose])).
          { apply reads_arg with (rl := rlev MIn t1); try lia.
            - apply IHa; auto.
            - pose proof (rlev_le_eff MIn t1). lia.
            - simpl. exact I. }
          rewrite Et in X. rewrite cost_cons in X. simpl in X. discriminate X. }
        simpl app. rewrite primary_list by exact Hnr.
        replace (t0 :: (r0 ++ lt_toks t2 ++ [TRBrack]) ++ rest) with (tk MIn t1 ++ lt_toks t2 ++ TRBrack :: rest)
          by (rewrite Et; simpl; rewrite <- !app_assoc; reflexivity).
        rewrite <- Et in Hk.
        rewrite (reads_arg (tk MIn t1) t1 (eff MIn t1) (rlev MIn t1)); try lia.
        + rewrite IHtl; auto; try lia. apply Hinf. lia.
        + apply IHa; auto.
        + pose proof (rlev_le_eff MIn t1). lia.
        + apply lt_toks_stop. }
    split; [exact M|].
    intros Hok rest k Hk. simpl oktail in Hok. btrue. simpl lt_toks in *.
    rewrite cost_cons, cost_app in Hk. simpl app.
    destruct k; [lia|]. rewrite ltail_comma. rewrite <- app_assoc.
    rewrite (reads_arg (tk MIn t1) t1 (eff MIn t1) (rlev MIn t1)); try lia.
    + rewrite IHtl; auto. lia.
    + apply IHa; auto.
    + pose proof (rlev_le_eff MIn t1). lia.
    + apply lt_toks_stop.
  - (* Prob *)
    destruct IHt1 as [IHp _]. destruct IHt2 as [IHu _].
    assert (M : main_P (Prob t1 t2)).
    { intros m Hok. simpl in Hok. btrue.
      destruct t2; simpl in H3; try discriminate.
      assert (X : reads (toks (pr MTop t1 ++ sep_prob ++ pr MIn (App f args))) (Prob t1 (App f args)) 1000 999).
      { rewrite !toks_app. simpl (toks sep_prob). simpl app.
        change (Prob t1 (App f args)) with (mk_bin "::" 1000 XFX t1 (App f args)).
        change 999 with (rightmax 1000 XFX).
        apply reads_bin with (pa := eff MTop t1) (rla := rlev MTop t1) (pb := 0) (rlb := 0); simpl; try lia; try reflexivity.
        - apply IHp; auto.
        - apply (IHu MIn); auto. }
      unfold tk. simpl eff. simpl rlev.
      destruct m; simpl pr; exact X. }
    split; [exact M|]. tail_gen M.
Qed.

Lemma reads_ok m t : ok m t = true -> reads (tk m t) t (eff m t) (rlev m t).
Proof. intros H. destruct (main_all t) as [M _]. apply M. exact H. Qed.

(* ------------------------------------------------------------------ statements *)
Lemma reads_full ts t pt rl k :
  reads ts t pt rl -> pt <= 1199 -> 1 + cost ts <= k ->
  parse k 1199 ts = Some (t, pt, []).
Proof.
  intros H Hp Hk. rewrite <- (app_nil_r ts).
  apply (H 1199 [] 1 (t, pt, [])); try lia.
  - simpl. exact I.
  - intros k' Hk'. destruct k'; [lia|]. reflexivity.
Qed.

Lemma neck_not_infix t : is_neck t = true -> infix_of t = None.
Proof.
  destruct t; simpl; try discriminate. intros H. apply String.eqb_eq in H. subst. reflexivity.
Qed.

Lemma reads_before_neck ts t pt rl nk rest k :
  reads ts t pt rl -> pt <= 1199 -> is_neck nk = true -> 1 + cost ts <= k ->
  parse k 1199 (ts ++ nk :: rest) = Some (t, pt, nk :: rest).
Proof.
  intros H Hp Hn Hk.
  apply (H 1199 (nk :: rest) 1 (t, pt, nk :: rest)); try lia.
  - simpl. rewrite (neck_not_infix _ Hn). exact I.
  - intros k' Hk'. destruct k'; [lia|]. rewrite infix_S. rewrite (neck_not_infix _ Hn). reflexivity.
Qed.

Fixpoint or_chain (h : tm) (r : list tm) : tm :=
  match r with
  | [] => h
  | x :: r' => Or h (or_chain x r')
  end.

Lemma join_heads_cons h r :
  join_heads (h :: r) = match r with [] => pr MTop h | _ => pr MTop h ++ sep_semi ++ join_heads r end.
Proof. destruct r; reflexivity. Qed.

Lemma reads_chain r : forall h,
  forallb (head_ok 1099) (h :: r) = true ->
  exists pt rl, pt <= 1100 /\ rl <= 1100 /\
    reads (toks (join_heads (h :: r))) (or_chain h r) pt rl.
Proof.
  induction r as [|x r IH]; intros h Hok.
  - simpl in Hok. unfold head_ok in Hok. btrue.
    exists (eff MTop h), (rlev MTop h). repeat split; try lia.
    simpl. apply reads_ok. assumption.
  - assert (Hok' := Hok). simpl in Hok. apply andb_true_iff in Hok. destruct Hok as [Hh Hr].
    destruct (IH x Hr) as (pt & rl & Hpt & Hrl & Hreads).
    unfold head_ok in Hh. btrue.
    exists 1100, 1100. repeat split; try lia.
    rewrite join_heads_cons. rewrite !toks_app. simpl (toks sep_semi). simpl app.
    simpl or_chain.
    change (Or h (or_chain x r)) with (mk_bin ";" 1100 XFY h (or_chain x r)).
    change 1100 with (rightmax 1100 XFY) at 2.
    apply reads_bin with (pa := eff MTop h) (rla := rlev MTop h) (pb := pt) (rlb := rl); simpl; try lia; try reflexivity.
    + apply reads_ok. assumption.
    + exact Hreads.
Qed.

Lemma heads_of_chain r : forall h,
  forallb (head_ok 1099) (h :: r) = true -> heads_of (or_chain h r) = h :: r.
Proof.
  induction r as [|x r IH]; intros h Hok.
  - simpl in *. unfold head_ok, not_or in Hok. btrue. destruct h; simpl in *; try reflexivity; discriminate.
  - simpl in Hok. apply andb_true_iff in Hok. destruct Hok as [Hh Hr].
    simpl. f_equal. apply IH. exact Hr.
Qed.

Lemma parse_nil k maxp : parse k maxp [] = None.
Proof. destruct k; [reflexivity|]. rewrite parse_S. destruct k; reflexivity. Qed.

Lemma fuel_enough ts ts' : 1 + cost ts' <= fuel_for (ts' ++ ts).
Proof. unfold fuel_for, cost. rewrite app_length. lia. Qed.
Lemma fuel_enough2 ts ts' t : 1 + cost ts' <= fuel_for (ts ++ t :: ts').
Proof. unfold fuel_for, cost. rewrite app_length. simpl. lia. Qed.
Lemma fuel_enough3 ts : 1 + cost ts <= fuel_for ts.
Proof. unfold fuel_for, cost. lia. Qed.

Theorem roundtrip_tokens : forall s, ok_stmt s = true -> read_tokens (print_tokens s) = Some s.
Proof.
  intros s Hok. unfold read_tokens, print_tokens.
  destruct s as [t|h b|b|hs b]; simpl in Hok; repeat rewrite andb_true_iff in Hok.
  - (* fact *)
    destruct Hok as [[Hokt Heff] Hneck]. apply Nat.leb_le in Heff. apply negb_true_iff in Hneck.
    simpl pr_stmt. fold (tk MTop t) in *.
    pose proof (reads_ok _ _ Hokt) as R.
    assert (X := reads_full _ _ _ _ (fuel_for (tk MTop t)) R ltac:(lia) (fuel_enough3 _)).
    unfold parse_stmt. destruct (tk MTop t) as [|t0 r0] eqn:E.
    + rewrite parse_nil in X. discriminate.
    + simpl in Hneck. rewrite Hneck. rewrite X. reflexivity.
  - (* clause *)
    destruct Hok as [[[[Hdir Hh] Hokb] Heffb] Hneck].
    apply negb_true_iff in Hdir, Hneck. apply Nat.leb_le in Heffb.
    unfold head_ok in Hh. repeat rewrite andb_true_iff in Hh.
    destruct Hh as [[[Hokh Hnor] Heffh] _]. apply Nat.leb_le in Heffh.
    simpl pr_stmt. rewrite Hdir.
    rewrite !toks_app. simpl (toks sep_clause). fold (tk MTop h) in *. fold (tk MTop b). cbn [app].
    pose proof (reads_ok _ _ Hokh) as Rh. pose proof (reads_ok _ _ Hokb) as Rb.
    remember (tk MTop b) as tb eqn:Etb.
    set (nk := TName ":-" false).
    assert (Xh := reads_before_neck _ _ _ _ nk tb (fuel_for (tk MTop h ++ nk :: tb)) Rh ltac:(lia) eq_refl).
    assert (Xb := reads_full _ _ _ _ (fuel_for (tk MTop h ++ nk :: tb)) Rb ltac:(lia) (fuel_enough2 _ _ _)).
    unfold parse_stmt. destruct (tk MTop h) as [|t0 r0] eqn:E.
    + exfalso.
      assert (Z := Rh 1199 [TClose] 1 (h, eff MTop h, [TClose]) ltac:(lia) I ltac:(lia)
                      (fun k' Hk' => infix_stop 1199 [TClose] 1199 h (eff MTop h) k' I ltac:(lia) Hk') 5).
      assert (Hc : 1 + cost [] <= 5) by (unfold cost; simpl; lia).
      specialize (Z Hc). simpl in Z. discriminate Z.
    + simpl in Hneck. cbn [app] in *. cbv beta iota. rewrite Hneck.
      cbn [toks]. unfold tk in Etb. rewrite <- ?Etb.
      rewrite Xh by (unfold fuel_for, cost; simpl length; rewrite app_length; simpl length; lia).
      simpl is_neck. cbv iota. rewrite Xb.
      unfold mk_clause. unfold not_or in Hnor.
      destruct h; simpl in *; try reflexivity; discriminate.
  - (* directive *)
    destruct Hok as [Hokb Heffb]. apply Nat.leb_le in Heffb.
    simpl pr_stmt. simpl toks. fold (tk MTop b).
    pose proof (reads_ok _ _ Hokb) as Rb.
    unfold parse_stmt. simpl is_neck. cbv iota.
    rewrite (reads_full _ _ _ _ _ Rb); try lia.
    + reflexivity.
    + unfold fuel_for, cost. simpl. lia.
  - (* AD *)
    destruct Hok as [[[[Hlen Hhs] Hokb] Heffb] Hneck].
    apply negb_true_iff in Hneck. apply Nat.leb_le in Heffb.
    destruct hs as [|h r]; [simpl in Hlen; discriminate|].
    destruct r as [|x r]; [simpl in Hlen; discriminate|].
    cbn [pr_stmt].
    destruct (reads_chain (x :: r) h Hhs) as (pt & rl & Hpt & Hrl & Rh).
    pose proof (reads_ok _ _ Hokb) as Rb.
    rewrite !toks_app. simpl (toks sep_clause). fold (tk MTop b). cbn [app].
    remember (tk MTop b) as tb eqn:Etb.
    set (nk := TName ":-" false).
    remember (toks (join_heads (h :: x :: r))) as hd eqn:Ehd. clear Ehd.
    assert (Xh := reads_before_neck _ _ _ _ nk tb (fuel_for (hd ++ nk :: tb)) Rh ltac:(lia) eq_refl).
    assert (Xb := reads_full _ _ _ _ (fuel_for (hd ++ nk :: tb)) Rb ltac:(lia) (fuel_enough2 _ _ _)).
    unfold parse_stmt. destruct hd as [|t0 r0].
    + exfalso.
      assert (Z := Rh 1199 [TClose] 1 (or_chain h (x :: r), pt, [TClose]) ltac:(lia) I ltac:(lia)
                      (fun k' Hk' => infix_stop 1199 [TClose] 1199 _ pt k' I ltac:(lia) Hk') 5).
      assert (Hc : 1 + cost [] <= 5) by (unfold cost; simpl; lia).
      specialize (Z Hc). simpl in Z. discriminate Z.
    + simpl in Hneck. cbn [app] in *. cbv beta iota. rewrite Hneck.
      cbn [toks]. unfold tk in Etb. rewrite <- ?Etb.
      rewrite Xh by (unfold fuel_for, cost; simpl length; rewrite app_length; simpl length; lia).
      simpl is_neck. cbv iota. rewrite Xb.
      unfold mk_clause. rewrite (heads_of_chain (x :: r) h Hhs). reflexivity.
Qed.

(* ------------------------------------------------------------------ string level *)
Lemma token_eqb_eq a b : token_eqb a b = true -> a = b.
Proof.
  destruct a, b; simpl; try discriminate; try reflexivity; intros H.
  - apply andb_true_iff in H. destruct H as [H1 H2].
    apply String.eqb_eq in H1. apply Bool.eqb_prop in H2. subst. reflexivity.
  - apply String.eqb_eq in H. subst. reflexivity.
  - apply N.eqb_eq in H. subst. reflexivity.
  - apply String.eqb_eq in H. subst. reflexivity.
  - apply String.eqb_eq in H. subst. reflexivity.
Qed.

Lemma tokens_eqb_eq l l' : tokens_eqb l l' = true -> l = l'.
Proof.
  revert l'. induction l as [|a l IH]; destruct l' as [|b l']; simpl; try discriminate; [reflexivity|].
  intros H. apply andb_true_iff in H. destruct H as [H1 H2].
  apply token_eqb_eq in H1. apply IH in H2. subst. reflexivity.
Qed.

Theorem roundtrip_string : forall s, printable s = true -> read_string (print_stmt s) = Some s.
Proof.
  intros s H. unfold printable in H. apply andb_true_iff in H. destruct H as [Hok Hlex].
  unfold lex_ok in Hlex. unfold read_string.
  destruct (tokenize (print_stmt s)) as [ts|]; [|discriminate].
  apply tokens_eqb_eq in Hlex. subst ts. apply roundtrip_tokens. exact Hok.
Qed.

Theorem print_injective : forall s1 s2,
  printable s1 = true -> printable s2 = true -> print_stmt s1 = print_stmt s2 -> s1 = s2.
Proof.
  intros s1 s2 H1 H2 E.
  apply roundtrip_string in H1. apply roundtrip_string in H2.
  rewrite E in H1. rewrite H1 in H2. inversion H2. reflexivity.
Qed.
