(* C17 -- hand model of the ProbLog term printer.

   Models problog/logic.py: Term.__repr__ (the non-recursive stack loop,
   logic.py:356-511) and the overriding __repr__/__str__ of Clause,
   AnnotatedDisjunction, And, Or, Not, Constant, over an AST of the objects the
   parser factory (problog/program.py PrologFactory) builds:

     Var s            Var(s)
     Int z            Constant(z)            (python int)
     Flt neg s        Constant(float)        s = repr of the absolute value (opaque text)
     Str s            Constant('"s"')        (build_string keeps the double quotes in the functor)
     App f args       Term(f, *args)         f = functor text as stored (quotes of a quoted atom included)
     Bin n p s a b    Term("'n'", a, b, priority=p, opspec=s)   (build_binop)
     Un n p s a       Term("'n'", a, priority=p, opspec=s)      (build_unop)
     Neg f a          Not(f, a)              f = "\+" or "not"
     And a b / Or a b And(a,b) / Or(a,b)
     Cons h t         Term('.', h, t)
     Prob p t         t with attribute t.probability = p   (build_probabilistic)

   The printer produces a list of pieces (tokens and the blanks python emits);
   the printed string is [render] of the pieces.  The check compares
   [print_stmt] with python's str() byte for byte on generated terms.

   Modes: python has two printing contexts.  MTop is str(x) called on the object
   itself (And.__repr__, Or.__repr__, Not.__repr__ recurse with str()); MIn is
   a term met as `current` inside Term.__repr__'s loop.  MAndT / MOrT are the
   right-spine walks of that loop for conjunctions "(a, b, c)" and
   disjunctions "a; b; c".

   No proofs in this file. *)
From Coq Require Import String Ascii List ZArith NArith Bool Arith DecimalString.
Import ListNotations.
Local Open Scope string_scope.

Inductive spec := XFX | XFY | YFX | FY | FX.

Inductive tm :=
| Var (s : string)
| Int (z : Z)
| Flt (neg : bool) (s : string)
| Str (s : string)
| App (f : string) (args : list tm)
| Bin (n : string) (p : nat) (s : spec) (a b : tm)
| Un (n : string) (p : nat) (s : spec) (a : tm)
| Neg (f : string) (a : tm)
| And (a b : tm)
| Or (a b : tm)
| Cons (h t : tm)
| Prob (p t : tm).

Inductive stmt :=
| SFact (t : tm)
| SClause (h b : tm)
| SDirective (b : tm)
| SAD (hs : list tm) (b : tm).

(* tokens of the printed language; [ct] of a name = "the next character is
   ( or [" and the name can take functional notation (parser.py
   _next_paren_open; for multi-character symbolic names the tokenizer looks at
   the wrong position, so they never get the flag) *)
Inductive token :=
| TName (s : string) (ct : bool)
| TVar (s : string)
| TInt (n : N)
| TFlt (s : string)
| TStr (s : string)
| TOpen | TClose | TLBrack | TRBrack | TComma | TBar.

Inductive piece := PT (t : token) | PSp.

Inductive mode := MIn | MTop | MAndT | MOrT.

(* ------------------------------------------------------------------ helpers *)
Definition spec_eqb (a b : spec) : bool :=
  match a, b with
  | XFX, XFX | XFY, XFY | YFX, YFX | FY, FY | FX, FX => true
  | _, _ => false
  end.

Definition symch (c : ascii) : bool :=
  existsb (Ascii.eqb c)
    ["+"; "-"; "*"; "/"; "\"; "^"; "<"; ">"; "="; "~"; ":"; "."; "?"; "@"; "#"; "&"; "$"]%char.

(* 'a' <= cf[0] <= 'z' *)
Definition alpha_start (n : string) : bool :=
  match n with
  | String c _ => Nat.leb 97 (nat_of_ascii c) && Nat.leb (nat_of_ascii c) 122
  | EmptyString => false
  end.

Definition ct_capable (n : string) : bool :=
  match n with
  | String c EmptyString => true
  | String c _ => negb (symch c)
  | EmptyString => false
  end.

Definition starts_open (l : list piece) : bool :=
  match l with
  | PT TOpen :: _ | PT TLBrack :: _ => true
  | _ => false
  end.

(* a name immediately followed by the pieces [next] *)
Definition nm (n : string) (next : list piece) : piece :=
  PT (TName n (ct_capable n && starts_open next)).

Definition wrap (l : list piece) : list piece := PT TOpen :: l ++ [PT TClose].

Fixpoint core (t : tm) : tm := match t with Prob _ u => core u | _ => t end.
Definition is_or (t : tm) : bool := match t with Or _ _ => true | _ => false end.
Definition is_and (t : tm) : bool := match t with And _ _ => true | _ => false end.
Definition is_nil (t : tm) : bool :=
  match t with App f [] => String.eqb f "[]" | _ => false end.

(* op_priority attribute of the python object *)
Fixpoint ann_prio (t : tm) : option nat :=
  match t with
  | Bin _ p _ _ _ => Some p
  | Un _ p _ _ => Some p
  | Prob _ u => ann_prio u
  | _ => None
  end.

(* logic.py:455-463 / 475-483: is the operand printed WITHOUT parentheses *)
Definition bare_left (p : nat) (s : spec) (a : tm) : bool :=
  match ann_prio a with
  | None => true
  | Some pa => Nat.ltb pa p || (Nat.eqb pa p && spec_eqb s YFX)
  end.
Definition bare_right (p : nat) (s : spec) (b : tm) : bool :=
  match ann_prio b with
  | None => true
  | Some pb => Nat.ltb pb p || (Nat.eqb pb p && spec_eqb s XFY)
  end.

Definition sep_comma : list piece := [PT TComma; PSp].
Definition sep_semi : list piece := [PT (TName ";" false); PSp].
Definition sep_prob : list piece := [PT (TName "::" false)].

(* the generic branch of Term.__repr__ (logic.py:491) prints the probability *)
Definition generic_kind (t : tm) : bool :=
  match t with
  | App _ _ | Var _ | Int _ | Flt _ _ | Str _ | Neg _ _ => true
  | _ => false
  end.
(* Not.__repr__ and Constant.__str__ ignore the probability when called directly *)
Definition top_drops_prob (t : tm) : bool :=
  match t with
  | Neg _ _ | Int _ | Flt _ _ | Str _ => true
  | _ => false
  end.

Definition op_pieces (n : string) (next : list piece) : list piece :=
  if alpha_start n then [PSp; PT (TName n false); PSp] else [nm n next].

(* ------------------------------------------------------------------ the printer *)
Fixpoint pr (m : mode) (t : tm) {struct t} : list piece :=
  match t with
  | Var s => [PT (TVar s)]
  | Int z =>
      if (z <? 0)%Z then [PT (TName "-" false); PT (TInt (Z.to_N (- z)))]
      else [PT (TInt (Z.to_N z))]
  | Flt neg s => if neg then [PT (TName "-" false); PT (TFlt s)] else [PT (TFlt s)]
  | Str s => [PT (TStr s)]
  | App f args =>
      match args with
      | [] => if String.eqb f "[]" then [PT TLBrack; PT TRBrack] else [PT (TName f false)]
      | a :: r =>
          PT (TName f (ct_capable f)) :: PT TOpen :: pr MIn a ++
          (fix go (l : list tm) : list piece :=
             match l with
             | [] => []
             | x :: l' => PT TComma :: pr MIn x ++ go l'
             end) r ++ [PT TClose]
      end
  | Cons h tl =>
      PT TLBrack :: pr MIn h ++
      (fix go (u : tm) : list piece :=
         match u with
         | Cons x y => PT TComma :: PSp :: pr MIn x ++ go y
         | _ => if is_nil u then [] else PSp :: PT TBar :: PSp :: pr MIn u
         end) tl ++ [PT TRBrack]
  | Bin n p s a b =>
      let l := if bare_left p s a then pr MIn a else wrap (pr MIn a) in
      let r := if bare_right p s b then pr MIn b else wrap (pr MIn b) in
      l ++ op_pieces n r ++ r
  | Un n p s a =>
      let r := pr MIn a in op_pieces n r ++ r
  | Neg f a =>
      match m with
      | MTop =>
          let c := if is_and (core a) || is_or (core a) then wrap (pr MTop a) else pr MTop a in
          if String.eqb f "not" then PT (TName "not" false) :: PSp :: c else nm f c :: c
      | _ => PT (TName f (ct_capable f)) :: PT TOpen :: pr MIn a ++ [PT TClose]
      end
  | And a b =>
      match m with
      | MTop =>
          (if is_or (core a) then wrap (pr MTop a) else pr MTop a) ++ sep_comma ++
          (if is_or (core b) then wrap (pr MTop b) else pr MTop b)
      | MAndT =>
          (if is_or (core a) then wrap (pr MIn a) else pr MIn a) ++ sep_comma ++ pr MAndT b
      | _ =>
          wrap ((if is_or (core a) then wrap (pr MIn a) else pr MIn a) ++ sep_comma ++ pr MAndT b)
      end
  | Or a b =>
      match m with
      | MTop => pr MTop a ++ sep_semi ++ pr MTop b
      | MAndT => wrap (pr MIn a ++ sep_semi ++ pr MOrT b)
      | _ => pr MIn a ++ sep_semi ++ pr MOrT b
      end
  | Prob p u =>
      if generic_kind u then
        match m with
        | MTop => if top_drops_prob u then pr MTop u else pr MTop p ++ sep_prob ++ pr MIn u
        | _ => pr MTop p ++ sep_prob ++ pr MIn u
        end
      else pr m u
  end.

Definition functor_is_directive (t : tm) : bool :=
  match core t with
  | App f _ => String.eqb f "_directive"
  | Var s => String.eqb s "_directive"
  | _ => false
  end.

Definition sep_clause : list piece := [PSp; PT (TName ":-" false); PSp].

Fixpoint join_heads (hs : list tm) : list piece :=
  match hs with
  | [] => []
  | [h] => pr MTop h
  | h :: r => pr MTop h ++ sep_semi ++ join_heads r
  end.

Definition pr_stmt (s : stmt) : list piece :=
  match s with
  | SFact t => pr MTop t
  | SClause h b =>
      if functor_is_directive h then PT (TName ":-" false) :: PSp :: pr MTop b
      else pr MTop h ++ sep_clause ++ pr MTop b
  | SDirective b => PT (TName ":-" false) :: PSp :: pr MTop b
  | SAD hs b => join_heads hs ++ sep_clause ++ pr MTop b
  end.

(* ------------------------------------------------------------------ rendering *)
Definition dec (n : N) : string := NilEmpty.string_of_uint (N.to_uint n).

Definition tok_text (t : token) : string :=
  match t with
  | TName s _ => s
  | TVar s => s
  | TInt n => dec n
  | TFlt s => s
  | TStr s => String """"%char (s ++ String """"%char EmptyString)
  | TOpen => "("
  | TClose => ")"
  | TLBrack => "["
  | TRBrack => "]"
  | TComma => ","
  | TBar => "|"
  end.

Fixpoint render (l : list piece) : string :=
  match l with
  | [] => EmptyString
  | PT t :: r => tok_text t ++ render r
  | PSp :: r => String " "%char (render r)
  end.

Fixpoint toks (l : list piece) : list token :=
  match l with
  | [] => []
  | PT t :: r => t :: toks r
  | PSp :: r => toks r
  end.

Definition print_stmt (s : stmt) : string := render (pr_stmt s).
Definition print_tokens (s : stmt) : list token := toks (pr_stmt s).
