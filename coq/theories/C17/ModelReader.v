(* C17 -- reference reader for the printed language.

   A tokenizer for the printer's alphabet ([tokenize]) and an operator
   precedence reader over tokens (precedence climbing with fuel, returning
   option: total by construction).  The operator table is the one of
   problog/parser.py.  This is a REFERENCE reader, not a model of PrologParser:
   it follows the standard reading of xfx/xfy/yfx/fy/fx priorities, with the
   ProbLog conventions the printer relies on:
     - a name directly followed by "(" is functional notation only when the
       name is an identifier, a quoted atom or a single symbol character
       (multi-character symbolic names such as \+ are always operators);
     - prefix minus applied to a number literal folds into a negative constant
       (PrologFactory.build_unop) but keeps priority 200;
     - "," builds And, ";" builds Or, \+ and not build Neg, "::" attaches a
       probability; a statement is  head [:- body]  or  :- body ; several
       ";"-separated heads make an annotated disjunction (parser._build_clause).

   No proofs in this file. *)
From Coq Require Import String Ascii List ZArith NArith Bool Arith.
From PL.C17 Require Import ModelPrinter.
Import ListNotations.
Local Open Scope string_scope.
Local Open Scope nat_scope.

(* ------------------------------------------------------------------ operator table *)
Definition binop_table : list (string * (nat * spec)) :=
  [ ("-->", (1200, XFX)); ("->", (1050, XFY));
    ("<", (700, XFX)); ("=<", (700, XFX)); ("=:=", (700, XFX)); ("=\=", (700, XFX));
    ("=@=", (700, XFX)); ("=..", (700, XFX)); ("==", (700, XFX)); ("=", (700, XFX));
    (">=", (700, XFX)); (">", (700, XFX)); ("@<", (700, XFX)); ("@=<", (700, XFX));
    ("@>=", (700, XFX)); ("@>", (700, XFX)); ("\==", (700, XFX)); ("\=", (700, XFX));
    ("~==", (700, XFX)); ("~=/=", (700, XFX)); ("~<", (700, XFX)); ("~=<", (700, XFX));
    ("~>=", (700, XFX)); ("~>", (700, XFX)); ("~=", (700, XFX));
    ("is", (700, XFX)); ("as", (700, XFX)); ("=>", (700, YFX)); (":", (600, XFY));
    ("#", (500, YFX)); ("+", (500, YFX)); ("-", (500, YFX)); ("/\", (500, YFX));
    ("><", (500, YFX)); ("\/", (500, YFX)); ("xor", (500, YFX));
    ("*", (400, YFX)); ("//", (400, YFX)); ("/", (400, YFX)); ("<<", (400, YFX));
    (">>", (400, YFX)); ("rdiv", (400, YFX)); ("mod", (400, YFX)); ("rem", (400, YFX));
    ("div", (400, YFX)); ("^", (400, XFY)); ("**", (200, XFX)); ("*->", (200, XFY)) ].

Definition prefix_table : list (string * (nat * spec)) :=
  [ ("+", (200, FY)); ("-", (200, FY)); ("\\", (200, FY)); ("\", (200, FY));
    ("~=", (200, FY)); ("~", (900, FX)); ("\+", (900, FY)); ("not", (900, FY)) ].

Fixpoint lookup (n : string) (l : list (string * (nat * spec))) : option (nat * spec) :=
  match l with
  | [] => None
  | (k, v) :: r => if String.eqb n k then Some v else lookup n r
  end.

Definition leftmax (p : nat) (s : spec) : nat := match s with YFX => p | _ => p - 1 end.
Definition rightmax (p : nat) (s : spec) : nat := match s with XFY => p | _ => p - 1 end.
Definition opmax (p : nat) (s : spec) : nat := match s with FY => p | _ => p - 1 end.

(* which infix operator does a token denote in operator position *)
Definition infix_of (t : token) : option (string * nat * spec) :=
  match t with
  | TComma => Some (",", 1000, XFY)
  | TName n _ =>
      if String.eqb n ";" then Some (";", 1100, XFY)
      else if String.eqb n "::" then Some ("::", 1000, XFX)
      else match lookup n binop_table with
           | Some (p, s) => Some (n, p, s)
           | None => None
           end
  | _ => None
  end.

Definition mk_bin (n : string) (p : nat) (s : spec) (l r : tm) : tm :=
  if String.eqb n "," then And l r
  else if String.eqb n ";" then Or l r
  else if String.eqb n "::" then Prob l r
  else Bin n p s l r.

Definition mk_un (n : string) (p : nat) (s : spec) (a : tm) : tm :=
  if String.eqb n "\+" || String.eqb n "not" then Neg n a
  else if String.eqb n "-" then
    match a with
    | Int z => Int (- z)
    | Flt b x => Flt (negb b) x
    | _ => Un n p s a
    end
  else Un n p s a.

Definition res := (tm * nat * list token)%type.

(* ------------------------------------------------------------------ precedence climbing *)
Fixpoint parse (f : nat) (maxp : nat) (ts : list token) {struct f} : option res :=
  match f with
  | 0 => None
  | S f' =>
      match primary f' maxp ts with
      | Some (l, lp, rest) => infix f' maxp l lp rest
      | None => None
      end
  end
with primary (f : nat) (maxp : nat) (ts : list token) {struct f} : option res :=
  match f with
  | 0 => None
  | S f' =>
      match ts with
      | TVar s :: r => Some (Var s, 0, r)
      | TInt n :: r => Some (Int (Z.of_N n), 0, r)
      | TFlt s :: r => Some (Flt false s, 0, r)
      | TStr s :: r => Some (Str s, 0, r)
      | TOpen :: r =>
          match parse f' 1200 r with
          | Some (t, _, TClose :: r') => Some (t, 0, r')
          | _ => None
          end
      | TLBrack :: TRBrack :: r => Some (App "[]" [], 0, r)
      | TLBrack :: r =>
          match parse f' 999 r with
          | Some (h, _, r1) =>
              match ltail f' r1 with
              | Some (t, r2) => Some (Cons h t, 0, r2)
              | None => None
              end
          | None => None
          end
      | TName n true :: TOpen :: r =>
          match parse f' 999 r with
          | Some (a, _, r1) =>
              match args f' r1 with
              | Some (l, r2) => Some (App n (a :: l), 0, r2)
              | None => None
              end
          | None => None
          end
      | TName n true :: _ => None
      | TName n false :: r =>
          match lookup n prefix_table with
          | Some (p, s) =>
              if p <=? maxp then
                match parse f' (opmax p s) r with
                | Some (a, _, r1) => Some (mk_un n p s a, p, r1)
                | None => None
                end
              else None
          | None => Some (App n [], 0, r)
          end
      | _ => None
      end
  end
with infix (f : nat) (maxp : nat) (l : tm) (lp : nat) (ts : list token) {struct f} : option res :=
  match f with
  | 0 => None
  | S f' =>
      match ts with
      | [] => Some (l, lp, [])
      | t :: r =>
          match infix_of t with
          | Some (n, p, s) =>
              if (p <=? maxp) && (lp <=? leftmax p s) then
                match parse f' (rightmax p s) r with
                | Some (b, _, r1) => infix f' maxp (mk_bin n p s l b) p r1
                | None => None
                end
              else Some (l, lp, ts)
          | None => Some (l, lp, ts)
          end
      end
  end
with args (f : nat) (ts : list token) {struct f} : option (list tm * list token) :=
  match f with
  | 0 => None
  | S f' =>
      match ts with
      | TClose :: r => Some ([], r)
      | TComma :: r =>
          match parse f' 999 r with
          | Some (a, _, r1) =>
              match args f' r1 with
              | Some (l, r2) => Some (a :: l, r2)
              | None => None
              end
          | None => None
          end
      | _ => None
      end
  end
with ltail (f : nat) (ts : list token) {struct f} : option (tm * list token) :=
  match f with
  | 0 => None
  | S f' =>
      match ts with
      | TRBrack :: r => Some (App "[]" [], r)
      | TComma :: r =>
          match parse f' 999 r with
          | Some (h, _, r1) =>
              match ltail f' r1 with
              | Some (t, r2) => Some (Cons h t, r2)
              | None => None
              end
          | None => None
          end
      | TBar :: r =>
          match parse f' 999 r with
          | Some (t, _, TRBrack :: r2) => Some (t, r2)
          | _ => None
          end
      | _ => None
      end
  end.

(* ------------------------------------------------------------------ statements *)
Fixpoint heads_of (t : tm) : list tm :=
  match t with
  | Or a b => a :: heads_of b
  | _ => [t]
  end.

Definition mk_clause (h b : tm) : stmt :=
  match heads_of h with
  | [x] => SClause x b
  | hs => SAD hs b
  end.

Definition is_neck (t : token) : bool :=
  match t with TName n _ => String.eqb n ":-" | _ => false end.

Definition parse_stmt (f : nat) (ts : list token) : option stmt :=
  match ts with
  | [] => None
  | t :: r =>
      if is_neck t then
        match parse f 1199 r with
        | Some (b, _, []) => Some (SDirective b)
        | _ => None
        end
      else
        match parse f 1199 ts with
        | Some (h, _, []) => Some (SFact h)
        | Some (h, _, t2 :: r2) =>
            if is_neck t2 then
              match parse f 1199 r2 with
              | Some (b, _, []) => Some (mk_clause h b)
              | _ => None
              end
            else None
        | None => None
        end
  end.

Definition fuel_for (ts : list token) : nat := 3 * List.length ts + 3.

Definition read_tokens (ts : list token) : option stmt := parse_stmt (fuel_for ts) ts.

(* ------------------------------------------------------------------ priorities of printed terms *)
(* priority with which the reader sees the text  pr m t  *)
Definition eff (m : mode) (t : tm) : nat :=
  match t with
  | Int z => if (z <? 0)%Z then 200 else 0
  | Flt neg _ => if neg then 200 else 0
  | Bin _ p _ _ _ => p
  | Un _ p _ _ => p
  | Neg _ _ => 900
  | And _ _ => match m with MTop | MAndT => 1000 | _ => 0 end
  | Or _ _ => match m with MAndT => 0 | _ => 1100 end
  | Prob _ _ => 1000
  | _ => 0
  end.

(* the level at which the reader is still reading the right edge of  pr m t *)
Definition rlev (m : mode) (t : tm) : nat :=
  match t with
  | Int z => if (z <? 0)%Z then 200 else 0
  | Flt neg _ => if neg then 200 else 0
  | Bin _ p s _ _ => rightmax p s
  | Un _ p s _ => opmax p s
  | Neg _ _ => 900
  | And _ _ => match m with MTop | MAndT => 1000 | _ => 0 end
  | Or _ _ => match m with MAndT => 0 | _ => 1100 end
  | Prob _ _ => 999
  | _ => 0
  end.

Definition is_num (t : tm) : bool := match t with Int _ | Flt _ _ => true | _ => false end.
Definition is_app (t : tm) : bool := match t with App _ _ => true | _ => false end.
Definition no_prefix (f : string) : bool :=
  match lookup f prefix_table with None => true | Some _ => false end.

(* the structural (token level) part of [printable]: every operator is in the
   table with its annotation, and every operand sits where the reader accepts
   its priority given the parentheses the printer does (not) put *)
Fixpoint ok (m : mode) (t : tm) {struct t} : bool :=
  match t with
  | Var _ | Int _ | Flt _ _ | Str _ => true
  | App f l =>
      match l with
      | [] => String.eqb f "[]" || (no_prefix f && negb (String.eqb f ":-"))
      | _ => ct_capable f && forallb (fun a => ok MIn a && (eff MIn a <=? 999)) l
      end
  | Cons h tl =>
      ok MIn h && (eff MIn h <=? 999) &&
      (fix go (u : tm) : bool :=
         match u with
         | Cons x y => ok MIn x && (eff MIn x <=? 999) && go y
         | _ => is_nil u || (ok MIn u && (eff MIn u <=? 999))
         end) tl
  | Bin n p s a b =>
      match lookup n binop_table with
      | Some (p', s') => (p =? p') && spec_eqb s s'
      | None => false
      end &&
      ok MIn a && ok MIn b &&
      (if bare_left p s a then (eff MIn a <=? leftmax p s) && (rlev MIn a <? p) else true) &&
      (if bare_right p s b then eff MIn b <=? rightmax p s else true)
  | Un n p s a =>
      match lookup n prefix_table with
      | Some (p', s') => (p =? p') && spec_eqb s s'
      | None => false
      end &&
      negb (String.eqb n "\+") && negb (String.eqb n "not") &&
      negb (String.eqb n "-" && is_num a) &&
      negb (alpha_start n) &&
      negb (ct_capable n && starts_open (pr MIn a)) &&
      ok MIn a && (eff MIn a <=? opmax p s)
  | Neg f a =>
      match m with
      | MTop =>
          (String.eqb f "\+" || String.eqb f "not") && ok MTop a &&
          (is_and (core a) || is_or (core a) || (eff MTop a <=? 900))
      | _ => String.eqb f "\+" && ok MIn a
      end
  | And a b =>
      match m with
      | MTop =>
          ok MTop a && ok MTop b &&
          (is_or (core a) || ((eff MTop a <=? 999) && (rlev MTop a <? 1000))) &&
          (is_or (core b) || (eff MTop b <=? 1000))
      | _ =>
          ok MIn a && ok MAndT b &&
          (is_or (core a) || ((eff MIn a <=? 999) && (rlev MIn a <? 1000))) &&
          (eff MAndT b <=? 1000)
      end
  | Or a b =>
      match m with
      | MTop =>
          ok MTop a && ok MTop b &&
          (eff MTop a <=? 1099) && (rlev MTop a <? 1100) && (eff MTop b <=? 1100)
      | _ =>
          ok MIn a && ok MOrT b &&
          (eff MIn a <=? 1099) && (rlev MIn a <? 1100) && (eff MOrT b <=? 1100)
      end
  | Prob p u =>
      is_app u && ok MIn u && ok MTop p && (eff MTop p <=? 999) && (rlev MTop p <? 1000)
  end.

Definition not_or (t : tm) : bool := negb (is_or t).

Definition head_ok (lim : nat) (h : tm) : bool :=
  ok MTop h && not_or h && (eff MTop h <=? lim) && (rlev MTop h <=? lim).

Definition starts_neck (ts : list token) : bool :=
  match ts with t :: _ => is_neck t | [] => false end.

Definition ok_stmt (s : stmt) : bool :=
  match s with
  | SFact t => ok MTop t && (eff MTop t <=? 1199) && negb (starts_neck (toks (pr MTop t)))
  | SClause h b =>
      negb (functor_is_directive h) && head_ok 1199 h && ok MTop b && (eff MTop b <=? 1199) &&
      negb (starts_neck (toks (pr MTop h)))
  | SDirective b => ok MTop b && (eff MTop b <=? 1199)
  | SAD hs b =>
      (2 <=? List.length hs) && forallb (head_ok 1099) hs && ok MTop b && (eff MTop b <=? 1199) &&
      negb (starts_neck (toks (join_heads hs)))
  end.

(* ------------------------------------------------------------------ structural equality (harness glue) *)
Fixpoint tm_eqb (x y : tm) {struct x} : bool :=
  match x, y with
  | Var a, Var b => String.eqb a b
  | Int a, Int b => Z.eqb a b
  | Flt n a, Flt n' b => Bool.eqb n n' && String.eqb a b
  | Str a, Str b => String.eqb a b
  | App f l, App g l' =>
      String.eqb f g &&
      (fix go (l l' : list tm) : bool :=
         match l, l' with
         | [], [] => true
         | a :: r, b :: r' => tm_eqb a b && go r r'
         | _, _ => false
         end) l l'
  | Bin n p s a b, Bin n' p' s' a' b' =>
      String.eqb n n' && (p =? p') && spec_eqb s s' && tm_eqb a a' && tm_eqb b b'
  | Un n p s a, Un n' p' s' a' => String.eqb n n' && (p =? p') && spec_eqb s s' && tm_eqb a a'
  | Neg f a, Neg f' a' => String.eqb f f' && tm_eqb a a'
  | And a b, And a' b' => tm_eqb a a' && tm_eqb b b'
  | Or a b, Or a' b' => tm_eqb a a' && tm_eqb b b'
  | Cons a b, Cons a' b' => tm_eqb a a' && tm_eqb b b'
  | Prob a b, Prob a' b' => tm_eqb a a' && tm_eqb b b'
  | _, _ => false
  end.

Fixpoint tms_eqb (l l' : list tm) : bool :=
  match l, l' with
  | [], [] => true
  | a :: r, b :: r' => tm_eqb a b && tms_eqb r r'
  | _, _ => false
  end.

Definition stmt_eqb (x y : stmt) : bool :=
  match x, y with
  | SFact a, SFact b => tm_eqb a b
  | SClause h b, SClause h' b' => tm_eqb h h' && tm_eqb b b'
  | SDirective b, SDirective b' => tm_eqb b b'
  | SAD hs b, SAD hs' b' => tms_eqb hs hs' && tm_eqb b b'
  | _, _ => false
  end.

(* ------------------------------------------------------------------ tokenizer (string level) *)
Local Open Scope char_scope.

Definition c_le (a b : ascii) : bool := Nat.leb (nat_of_ascii a) (nat_of_ascii b).
Definition is_digit (c : ascii) : bool := c_le "0" c && c_le c "9".
Definition is_lower (c : ascii) : bool := c_le "a" c && c_le c "z".
Definition is_upper (c : ascii) : bool := (c_le "A" c && c_le c "Z") || Ascii.eqb c "_".
Definition is_alnum (c : ascii) : bool := is_digit c || is_lower c || is_upper c.
Definition is_space (c : ascii) : bool := Nat.leb (nat_of_ascii c) 32.

Fixpoint take_while (p : ascii -> bool) (s : string) : string * string :=
  match s with
  | EmptyString => (EmptyString, EmptyString)
  | String c r =>
      if p c then let (a, b) := take_while p r in (String c a, b)
      else (EmptyString, s)
  end.

(* up to (excluding) the first occurrence of q; None when q does not occur or a
   backslash is met (escapes are outside the printable fragment) *)
Fixpoint take_until (q : ascii) (s : string) : option (string * string) :=
  match s with
  | EmptyString => None
  | String c r =>
      if Ascii.eqb c q then Some (EmptyString, r)
      else if Ascii.eqb c "\" then None
      else match take_until q r with
           | Some (a, b) => Some (String c a, b)
           | None => None
           end
  end.

Definition next_open (s : string) : bool :=
  match s with
  | String c _ => Ascii.eqb c "(" || Ascii.eqb c "["
  | EmptyString => false
  end.

Local Open Scope string_scope.

(* symbolic names of the tokenizer (the _token_ methods of parser.py), longest first *)
Definition sym_table : list string :=
  [ "\=@="; "~=/=";
    "-->"; "=:="; "=\="; "=@="; "=.."; "@=<"; "@>="; "\=="; "~=="; "~=<"; "~>="; "*->";
    "->"; ":-"; "::"; "<-"; "<<"; "=<"; "=="; "=>"; ">>"; "><"; ">="; "@<"; "@>";
    "\\"; "\+"; "\="; "\/"; "~<"; "~>"; "~="; "**"; "/\"; "//";
    "-"; ":"; "<"; "="; ">"; "\"; "~"; "*"; "+"; "/"; "^"; "#" ].

Fixpoint strip_prefix (p s : string) : option string :=
  match p, s with
  | EmptyString, _ => Some s
  | String a p', String b s' => if Ascii.eqb a b then strip_prefix p' s' else None
  | _, _ => None
  end.

Fixpoint find_sym (tbl : list string) (s : string) : option (string * string) :=
  match tbl with
  | [] => None
  | k :: r => match strip_prefix k s with
              | Some rest => Some (k, rest)
              | None => find_sym r s
              end
  end.

Fixpoint digits_to_N (s : string) (acc : N) : N :=
  match s with
  | EmptyString => acc
  | String c r => digits_to_N r (acc * 10 + N.of_nat (nat_of_ascii c - 48))%N
  end.

Definition starts_digit (s : string) : bool :=
  match s with String c _ => is_digit c | _ => false end.

(* digits [. digits] [e [+-] digits] *)
Definition lex_number (s : string) : token * string :=
  let (ip, r0) := take_while is_digit s in
  let '(fp, r1) :=
    match r0 with
    | String "."%char r => if starts_digit r then let (d, r') := take_while is_digit r in (String "."%char d, r') else (EmptyString, r0)
    | _ => (EmptyString, r0)
    end in
  let '(ep, r2) :=
    match r1 with
    | String "e"%char r =>
        match r with
        | String sg r' =>
            if (Ascii.eqb sg "+"%char || Ascii.eqb sg "-"%char) && starts_digit r'
            then let (d, r'') := take_while is_digit r' in (String "e"%char (String sg d), r'')
            else if starts_digit r then let (d, r'') := take_while is_digit r in (String "e"%char d, r'')
            else (EmptyString, r1)
        | EmptyString => (EmptyString, r1)
        end
    | _ => (EmptyString, r1)
    end in
  match fp, ep with
  | EmptyString, EmptyString => (TInt (digits_to_N ip 0%N), r2)
  | _, _ => (TFlt (ip ++ fp ++ ep), r2)
  end.

Definition consk (t : token) (r : option (list token)) : option (list token) :=
  match r with Some l => Some (t :: l) | None => None end.

Fixpoint lex (f : nat) (s : string) {struct f} : option (list token) :=
  match f with
  | 0 => None
  | S f' =>
      match s with
      | EmptyString => Some []
      | String c r =>
          if is_space c then lex f' r
          else if is_digit c then let (t, r') := lex_number s in consk t (lex f' r')
          else if is_lower c then
            let (w, r') := take_while is_alnum s in consk (TName w (next_open r')) (lex f' r')
          else if is_upper c then
            let (w, r') := take_while is_alnum s in consk (TVar w) (lex f' r')
          else if Ascii.eqb c "'"%char then
            match take_until "'"%char r with
            | Some (w, r') =>
                consk (TName (String "'"%char (w ++ "'")) (next_open r')) (lex f' r')
            | None => None
            end
          else if Ascii.eqb c """"%char then
            match take_until """"%char r with
            | Some (w, r') => consk (TStr w) (lex f' r')
            | None => None
            end
          else if Ascii.eqb c "("%char then consk TOpen (lex f' r)
          else if Ascii.eqb c ")"%char then consk TClose (lex f' r)
          else if Ascii.eqb c "["%char then consk TLBrack (lex f' r)
          else if Ascii.eqb c "]"%char then consk TRBrack (lex f' r)
          else if Ascii.eqb c ","%char then consk TComma (lex f' r)
          else if Ascii.eqb c "|"%char then consk TBar (lex f' r)
          else if Ascii.eqb c ";"%char then consk (TName ";" (next_open r)) (lex f' r)
          else if Ascii.eqb c "!"%char then consk (TName "!" (next_open r)) (lex f' r)
          else
            match find_sym sym_table s with
            | Some (k, r') =>
                consk (TName k (match k with String _ EmptyString => next_open r' | _ => false end)) (lex f' r')
            | None => None
            end
      end
  end.

Definition tokenize (s : string) : option (list token) := lex (S (String.length s)) s.

Definition read_string (s : string) : option stmt :=
  match tokenize s with
  | Some ts => read_tokens ts
  | None => None
  end.

Definition token_eqb (a b : token) : bool :=
  match a, b with
  | TName s c, TName s' c' => String.eqb s s' && Bool.eqb c c'
  | TVar s, TVar s' => String.eqb s s'
  | TInt n, TInt n' => N.eqb n n'
  | TFlt s, TFlt s' => String.eqb s s'
  | TStr s, TStr s' => String.eqb s s'
  | TOpen, TOpen | TClose, TClose | TLBrack, TLBrack | TRBrack, TRBrack
  | TComma, TComma | TBar, TBar => true
  | _, _ => false
  end.

Fixpoint tokens_eqb (l l' : list token) : bool :=
  match l, l' with
  | [], [] => true
  | a :: r, b :: r' => token_eqb a b && tokens_eqb r r'
  | _, _ => false
  end.

(* the lexical half of [printable]: the tokenizer recovers exactly the token
   list the printer meant (no two pieces glue together, every name / number /
   string text is lexed back as one token with the same functional-notation flag) *)
Definition lex_ok (s : stmt) : bool :=
  match tokenize (print_stmt s) with
  | Some ts => tokens_eqb ts (print_tokens s)
  | None => false
  end.

Definition printable (s : stmt) : bool := ok_stmt s && lex_ok s.

Definition read_ok (s : stmt) : bool :=
  match read_string (print_stmt s) with
  | Some s' => stmt_eqb s' s
  | None => false
  end.
