(* C17 -- the parser is total and printing round-trips.
   Only statements, closed by `exact`.  Models: ModelPrinter.v (hand model of
   Term.__repr__ and the Clause/AnnotatedDisjunction/And/Or/Not/Constant
   overrides of problog/logic.py), ModelReader.v (reference tokenizer + operator
   precedence reader for the printed language; operator table of problog/parser.py).

   [printable s] = [ok_stmt s && lex_ok s]:
     ok_stmt  structural: every operator carries its table annotation, and every
              operand sits where its priority is accepted given the parentheses the
              python printer does or does not emit (unary operands, left operands of
              conjunctions, arguments of priority >= 1000, negative numbers next to
              priority-200 operators, ... are exactly where the printer goes wrong);
     lex_ok   lexical: the reference tokenizer applied to the printed string gives back
              the printer's own token list (no gluing such as `X<-1`, every name is a
              lexable atom).  This half is a computed check (validator style).

   The totality half of C17 (PrologParser never raises a non-ProbLog exception) is
   NOT a theorem: the 1500-line tokenizer/labeller is not modelled; the check searches
   for counterexamples (token mutation stream).  The reference reader below is total
   by construction (a Gallina function into option). *)
From Coq Require Import String List ZArith Bool.
From PL.C17 Require Import ModelPrinter ModelReader Proofs.
Import ListNotations.
Local Open Scope string_scope.

(* token level: for every statement satisfying the structural predicate, the
   reference reader applied to the printer's tokens returns the statement *)
Theorem C17_roundtrip_tokens : forall s, ok_stmt s = true -> read_tokens (print_tokens s) = Some s.
Proof. exact roundtrip_tokens. Qed.
Print Assumptions C17_roundtrip_tokens.

(* string level (code points = bytes of the UTF-8 text python prints) *)
Theorem C17_roundtrip : forall s, printable s = true -> read_string (print_stmt s) = Some s.
Proof. exact roundtrip_string. Qed.
Print Assumptions C17_roundtrip.

(* hence the printer is injective on printable statements: two different
   statements never print the same text *)
Theorem C17_print_injective : forall s1 s2,
  printable s1 = true -> printable s2 = true -> print_stmt s1 = print_stmt s2 -> s1 = s2.
Proof. exact print_injective. Qed.
Print Assumptions C17_print_injective.

(* non-vacuity: nested operators, negation, lists with tail, negative number,
   quoted atom, string, probabilities, annotated disjunction *)
Definition ex_ad : stmt :=
  SAD [ Prob (Flt false "0.3") (App "p" [Var "X"; Cons (Int 1) (Cons (Int (-2)) (Var "T"))]);
        Prob (Bin "/" 400 YFX (Int 1) (Int 3)) (App "'hello world'" [Str "abc"]) ]
      (And (Bin "is" 700 XFX (Var "X")
              (Bin "-" 500 YFX (Int 1) (Bin "*" 400 YFX (Bin "-" 500 YFX (Int 2) (Int 3)) (Un "-" 200 FY (Var "Y")))))
           (And (Neg "\+" (And (App "a" []) (App "b" [])))
                (Or (Neg "not" (App "c" []))
                    (App "f" [And (App "a" []) (App "b" []); Neg "\+" (App "a" []); App "[]" []])))).

Example C17_example_printable : printable ex_ad = true.
Proof. vm_compute. reflexivity. Qed.

Example C17_example_text :
  print_stmt ex_ad =
  "0.3::p(X,[1, -2 | T]); 1/3::'hello world'(""abc"") :- X is 1-(2-3)*-Y, \+(a, b), (not c; f((a, b),\+(a),[]))".
Proof. vm_compute. reflexivity. Qed.

Example C17_example_read : read_string (print_stmt ex_ad) = Some ex_ad.
Proof. vm_compute. reflexivity. Qed.
