(* C17 -- witnesses of printer defects: statements (all in the image of the
   parser) whose printed text the reference reader reads back as a DIFFERENT
   statement or not at all.  Each is confirmed against the real PrologParser by
   the check (harness/props/C17.py).  Not imported by Props.v. *)
From Coq Require Import String List ZArith Bool.
From PL.C17 Require Import ModelPrinter ModelReader.
Import ListNotations.
Local Open Scope string_scope.

Definition differs (s : stmt) : bool :=
  match read_string (print_stmt s) with
  | Some s' => negb (stmt_eqb s' s)
  | None => true
  end.

(* X is - (2-3)   prints   X is -2-3 : unary operands are never parenthesised *)
Definition w_unary := SFact (Bin "is" 700 XFX (Var "X") (Un "-" 200 FY (Bin "-" 500 YFX (Int 2) (Int 3)))).
Lemma C17_unary_operand_refuted : exists s, print_stmt s = "X is -2-3" /\ differs s = true.
Proof. exists w_unary. vm_compute. split; reflexivity. Qed.

(* X < -1   prints   X<-1 : no blank between a symbolic operator and a following symbol char *)
Definition w_glue := SFact (Bin "<" 700 XFX (Var "X") (Int (-1))).
Lemma C17_glue_refuted : exists s, print_stmt s = "X<-1" /\ ok_stmt s = true /\ differs s = true.
Proof. exists w_glue. vm_compute. repeat split; reflexivity. Qed.

(* x :- (a,b),c   prints   x :- a, b, c *)
Definition w_and := SClause (App "x" []) (And (And (App "a" []) (App "b" [])) (App "c" [])).
Lemma C17_and_left_refuted : exists s, print_stmt s = "x :- a, b, c" /\ differs s = true.
Proof. exists w_and. vm_compute. split; reflexivity. Qed.

(* x :- (a->b),c   prints   x :- a->b, c  (read back as a->(b,c)) *)
Definition w_ite := SClause (App "x" []) (And (Bin "->" 1050 XFY (App "a" []) (App "b" [])) (App "c" [])).
Lemma C17_ifthen_left_refuted : exists s, print_stmt s = "x :- a->b, c" /\ differs s = true.
Proof. exists w_ite. vm_compute. split; reflexivity. Qed.

(* findall(X,(a;b),L)   prints   findall(X,a; b,L) *)
Definition w_or_arg := SFact (App "findall" [Var "X"; Or (App "a" []) (App "b" []); Var "L"]).
Lemma C17_or_argument_refuted : exists s, print_stmt s = "findall(X,a; b,L)" /\ differs s = true.
Proof. exists w_or_arg. vm_compute. split; reflexivity. Qed.

(* X is (-1)**2   prints   X is -1**2 *)
Definition w_negpow := SFact (Bin "is" 700 XFX (Var "X") (Bin "**" 200 XFX (Int (-1)) (Int 2))).
Lemma C17_negative_base_refuted : exists s, print_stmt s = "X is -1**2" /\ differs s = true.
Proof. exists w_negpow. vm_compute. split; reflexivity. Qed.

(* X is (2^3)*4   prints   X is 2^3*4  (read back as 2^(3*4)) *)
Definition w_mixed := SFact (Bin "is" 700 XFX (Var "X") (Bin "*" 400 YFX (Bin "^" 400 XFY (Int 2) (Int 3)) (Int 4))).
Lemma C17_mixed_assoc_refuted : exists s, print_stmt s = "X is 2^3*4" /\ differs s = true.
Proof. exists w_mixed. vm_compute. split; reflexivity. Qed.

(* 0.5::(a=b)   prints   a=b : the probability is dropped on operator terms *)
Definition w_prob := SFact (Prob (Flt false "0.5") (Bin "=" 700 XFX (App "a" []) (App "b" []))).
Lemma C17_prob_dropped_refuted : exists s, print_stmt s = "a=b" /\ differs s = true.
Proof. exists w_prob. vm_compute. split; reflexivity. Qed.

(* f(not a)   prints   f(not(a)) : read back as the plain term not(a) *)
Definition w_not := SFact (App "f" [Neg "not" (App "a" [])]).
Lemma C17_not_inner_refuted : exists s, print_stmt s = "f(not(a))" /\ differs s = true.
Proof. exists w_not. vm_compute. split; reflexivity. Qed.
