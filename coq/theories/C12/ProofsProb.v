(* C12 — SemiringProbability over the reals. *)
From Coq Require Import Reals Lra ZArith Bool String List.
From PL.C12 Require Import ModelPy ModelR GenSemirings SpecSemiring ProofsBase.
Local Open Scope R_scope.

(* domain of weights: finite, non-negative *)
Definition Dprob (x : rfl) : Prop := exists r, x = RF r /\ 0 <= r.
(* probabilities proper *)
Definition Dunit (x : rfl) : Prop := exists r, x = RF r /\ 0 <= r <= 1.

Lemma prob_plus_R a b : prob_plus Rops (RF a) (RF b) = Ok (RF (a + b)).
Proof. reflexivity. Qed.
Lemma prob_times_R a b : prob_times Rops (RF a) (RF b) = Ok (RF (a * b)).
Proof. reflexivity. Qed.
Lemma prob_negate_R a : prob_negate Rops (RF a) = Ok (RF (1 - a)).
Proof. cbv [prob_negate]. py_cbv. do 2 f_equal. field. Qed.
Lemma prob_zero_R : prob_zero Rops = Ok (RF 0).
Proof. cbv [prob_zero]. py_cbv. do 2 f_equal. field. Qed.
Lemma prob_one_R : prob_one Rops = Ok (RF 1).
Proof. cbv [prob_one]. py_cbv. do 2 f_equal. field. Qed.

Ltac dprob :=
  repeat match goal with
  | H : Dprob _ |- _ => let r := fresh "r" in let E := fresh "E" in let P := fresh "P" in destruct H as (r & E & P); subst
  | H : Dunit _ |- _ => let r := fresh "r" in let E := fresh "E" in let P := fresh "P" in destruct H as (r & E & P); subst
  end.

Lemma prob_semiring : comm_semiring_on Dprob (prob_plus Rops) (prob_times Rops) (prob_zero Rops) (prob_one Rops).
Proof.
  constructor; unfold returns_in; intros; dprob;
    rewrite ?prob_zero_R, ?prob_one_R, ?prob_plus_R, ?prob_times_R; cbn [bind];
    rewrite ?prob_plus_R, ?prob_times_R; cbn [bind]; rewrite ?prob_plus_R, ?prob_times_R.
  - exists (RF 0); split; auto. exists 0; split; auto; lra.
  - exists (RF 1); split; auto. exists 1; split; auto; lra.
  - eexists; split; eauto. eexists; split; eauto. lra.
  - eexists; split; eauto. eexists; split; eauto. apply Rmult_le_pos; auto.
  - do 2 f_equal; ring.
  - do 2 f_equal; ring.
  - do 2 f_equal; ring.
  - do 2 f_equal; ring.
  - do 2 f_equal; ring.
  - do 2 f_equal; ring.
  - do 2 f_equal; ring.
  - do 2 f_equal; ring.
Qed.

(* [0,1] is closed under times and negate *)
Lemma prob_unit_closed : forall a b, Dunit a -> Dunit b ->
  returns_in Dunit (prob_times Rops a b) /\ returns_in Dunit (prob_negate Rops a).
Proof.
  intros a b Ha Hb; dprob. rewrite prob_times_R, prob_negate_R. split.
  - eexists; split; eauto. eexists; split; eauto. split. apply Rmult_le_pos; lra.
    replace 1 with (1*1) by ring. apply Rmult_le_compat; lra.
  - eexists; split; eauto. eexists; split; eauto. lra.
Qed.

(* negate is an involution and complements to one *)
Lemma prob_negate_compl : forall a, prob_negate Rops (RF a) = Ok (RF (1 - a)) /\
   (t <- prob_negate Rops (RF a) ;; prob_plus Rops (RF a) t) = Ok (RF 1) /\
   (t <- prob_negate Rops (RF a) ;; prob_negate Rops t) = Ok (RF a).
Proof.
  intros. rewrite prob_negate_R. cbn [bind]. rewrite prob_plus_R, prob_negate_R.
  repeat split; do 2 f_equal; ring.
Qed.

(* thresholds of is_one / is_zero / in_domain, exactly as written in the code *)
Lemma prob_is_one_R v : prob_is_one Rops (RF v) = Ok true <-> 1 - 1/10^12 < v < 1 + 1/10^12.
Proof.
  cbv [prob_is_one]. py_cbv.
  replace (IZR 1000000000000) with (10^12) by (simpl; lra).
  split.
  - rdec; intros H; try discriminate; lra.
  - intros H. rdec; reflexivity.
Qed.

Lemma prob_is_one_total v : exists b, prob_is_one Rops (RF v) = Ok b.
Proof. cbv [prob_is_one]. py_cbv. eexists; reflexivity. Qed.

Lemma prob_is_zero_R v : prob_is_zero Rops (RF v) = Ok true <-> - (1/10^12) < v < 1/10^12.
Proof.
  cbv [prob_is_zero]. py_cbv.
  replace (IZR 1000000000000) with (10^12) by (simpl; lra).
  replace (IZR (-1)) with (-1) by (simpl; lra).
  split.
  - rdec; intros H; try discriminate; lra.
  - intros H. rdec; reflexivity.
Qed.

Lemma prob_in_domain_R v : prob_in_domain Rops (RF v) = Ok true <-> - (1/10^9) <= v <= 1 + 1/10^9.
Proof.
  cbv [prob_in_domain]. py_cbv.
  replace (IZR 1000000000) with (10^9) by (simpl; lra).
  split.
  - rdec; intros H; try discriminate; lra.
  - intros H. rdec; reflexivity.
Qed.

Lemma prob_defaults :
  (o <- prob_one Rops ;; prob_is_one Rops o) = Ok true /\
  (z <- prob_zero Rops ;; prob_is_zero Rops z) = Ok true /\
  (forall a, (o <- prob_one Rops ;; prob_normalize Rops (RF a) o) = Ok (RF a)).
Proof.
  rewrite prob_one_R, prob_zero_R. cbn [bind]. repeat split.
  - apply prob_is_one_R. lra.
  - apply prob_is_zero_R. lra.
  - intros. cbv [prob_normalize]. py_cbv. rewrite Reqb_false by lra. do 2 f_equal. field.
Qed.

Lemma prob_normalize_R a z : z <> 0 -> prob_normalize Rops (RF a) (RF z) = Ok (RF (a / z)).
Proof. intros. cbv [prob_normalize]. py_cbv. rewrite Reqb_false by (intro E; apply H; lra). reflexivity. Qed.

Lemma prob_normalize_zero a : prob_normalize Rops (RF a) (RF 0) = Raise ZeroDivisionError.
Proof. cbv [prob_normalize]. py_cbv. rewrite Reqb_true; auto. lra. Qed.

(* value: exact acceptance condition (C30) *)
Lemma prob_value_ok v : - (1/10^9) <= v <= 1 + 1/10^9 -> prob_value Rops (RF v) = Ok (RF v).
Proof.
  intros. cbv [prob_value]. py_cbv.
  replace (IZR 1000000000) with (10^9) by (simpl; lra). rdec; reflexivity.
Qed.
Lemma prob_value_raises v : (v < - (1/10^9) \/ v > 1 + 1/10^9) <-> prob_value Rops (RF v) = Raise InvalidValue.
Proof.
  cbv [prob_value]. py_cbv.
  replace (IZR 1000000000) with (10^9) by (simpl; lra). split.
  - intros. rdec; try reflexivity; lra.
  - intros H. revert H. rdec; intros; try discriminate; lra.
Qed.
Lemma prob_value_nonfinite : prob_value Rops FNaN = Raise InvalidValue /\
  prob_value Rops FNInf = Raise InvalidValue /\ prob_value Rops FPInf = Raise InvalidValue.
Proof. repeat split; reflexivity. Qed.

Lemma prob_result_R a : prob_result Rops a = Ok a.
Proof. reflexivity. Qed.

(* ad_complement = 1 - sum *)
Fixpoint Rsum (l : list R) : R := match l with nil => 0 | cons x t => x + Rsum t end.

Lemma prob_fold_plus : forall ps s, fold_res (fun s w => prob_plus Rops s w) (map RF ps) (RF s) = Ok (RF (s + Rsum ps)).
Proof.
  induction ps; intros; cbn [map fold_res Rsum].
  - do 2 f_equal. ring.
  - rewrite prob_plus_R. cbn [bind]. rewrite IHps. do 2 f_equal. ring.
Qed.

Lemma prob_ad_complement_R ps : prob_ad_complement Rops (map RF ps) = Ok (RF (1 - Rsum ps)).
Proof.
  cbv [prob_ad_complement]. rewrite prob_zero_R. cbn [bind]. rewrite prob_fold_plus. cbn [bind].
  rewrite prob_negate_R. do 2 f_equal. ring.
Qed.
