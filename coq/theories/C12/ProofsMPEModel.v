(* C12 <-> C20: the definitions TRANSLATED from SemiringMPEState (GenSemirings.v, prefix mpe_)
   compute, at the exact-rational instance of the numeric structure, exactly the
   hand model C20/ModelMPE.v (sr_zero / sr_one / sr_plus / sr_times / pos_value /
   neg_value) that the C20 theorems about FormulaEvaluatorNSP are stated over.
   A C20 literal (negated?, atom key n) is the Python key  n  resp.  -n  (keys are >= 1;
   the encoding is injective exactly when no atom key is 0, which is the hypothesis [wf]). *)
From Coq Require Import QArith ZArith List Bool Lia.
From PL.C12 Require Import ModelPy ModelPySet GenSemirings.
From PL.C20 Require ModelMPE.
Import ListNotations.

(* exact rationals; ln/exp are never called by the mpe_ methods (dummies) *)
Definition Qops : NumOps := {|
  num := Q;
  n_lit := fun n d => (n # d);
  n_add := Qplus; n_sub := Qminus; n_mul := Qmult; n_div := Qdiv; n_opp := Qopp;
  n_ltb := ModelMPE.Qlt_bool; n_leb := Qle_bool; n_eqb := Qeq_bool;
  n_ln := fun x => x; n_exp := fun x => x |}.

Definition enc (l : ModelMPE.lit) : Z := if fst l then (- Z.of_N (snd l))%Z else Z.of_N (snd l).
Definition encv (v : ModelMPE.value) : fl Qops * list Z := (FFin (N:=Qops) (fst v), map enc (snd v)).
Definition wf (v : ModelMPE.value) : Prop := Forall (fun l => snd l <> 0%N) (snd v).

Lemma enc_eqb x l : snd x <> 0%N -> snd l <> 0%N -> ModelMPE.lit_eqb x l = Z.eqb (enc x) (enc l).
Proof.
  destruct x as [bx n], l as [bl m]. unfold ModelMPE.lit_eqb, enc. cbn [fst snd]. intros Hn Hm.
  destruct bx, bl; cbn [Bool.eqb andb];
    destruct (N.eqb_spec n m);
    match goal with |- _ = Z.eqb ?u ?v => destruct (Z.eqb_spec u v) end; try reflexivity; exfalso; lia.
Qed.

Lemma enc_mem x s : snd x <> 0%N -> Forall (fun l => snd l <> 0%N) s ->
  ModelMPE.memL x s = zs_mem (enc x) (map enc s).
Proof.
  intros Hx Hs. induction Hs as [|l s Hl Hs IH]; cbn; auto.
  rewrite enc_eqb; auto. f_equal. apply IH.
Qed.

Lemma enc_union s t : Forall (fun l => snd l <> 0%N) s -> Forall (fun l => snd l <> 0%N) t ->
  map enc (ModelMPE.unionL s t) = zs_union (map enc s) (map enc t).
Proof.
  intros Hs Ht. unfold ModelMPE.unionL, zs_union. rewrite map_app. f_equal.
  induction Ht as [|x t Hx Ht IH]; cbn [filter map]; auto.
  rewrite <- enc_mem; auto. destruct (ModelMPE.memL x s); cbn [negb map]; rewrite IH; reflexivity.
Qed.

Lemma Qlt_bool_asym p q : ModelMPE.Qlt_bool q p = true -> ModelMPE.Qlt_bool p q = false.
Proof.
  unfold ModelMPE.Qlt_bool. rewrite negb_true_iff, negb_false_iff. intros H.
  apply Qle_bool_iff. destruct (Qlt_le_dec p q) as [L | L].
  - exfalso. apply Qlt_le_weak in L. apply Qle_bool_iff in L. congruence.
  - exact L.
Qed.

Lemma mpe_consts_model :
  mpe_zero Qops = Ok (encv ModelMPE.sr_zero) /\ mpe_one Qops = Ok (encv ModelMPE.sr_one).
Proof. split; reflexivity. Qed.

Lemma mpe_plus_model a b : mpe_plus Qops (encv a) (encv b) = Ok (encv (ModelMPE.sr_plus a b)).
Proof.
  destruct a as [p s], b as [q t]. unfold mpe_plus, ModelMPE.sr_plus, encv, ret. cbn [fst snd fl_ltb n_ltb Qops].
  destruct (ModelMPE.Qlt_bool q p) eqn:E1.
  - rewrite (Qlt_bool_asym _ _ E1). reflexivity.
  - destruct (ModelMPE.Qlt_bool p q); reflexivity.
Qed.

Lemma mpe_times_model a b : wf a -> wf b ->
  mpe_times Qops (encv a) (encv b) = Ok (encv (ModelMPE.sr_times a b)) /\ wf (ModelMPE.sr_times a b).
Proof.
  destruct a as [p s], b as [q t]. unfold wf. cbn [fst snd]. intros Hs Ht. split.
  - unfold mpe_times, ModelMPE.sr_times, encv, ret. cbn [fst snd fl_mul n_mul Qops]. rewrite enc_union; auto.
  - unfold ModelMPE.sr_times, ModelMPE.unionL. cbn [snd]. apply Forall_app. split; auto.
    rewrite Forall_forall in *. intros x Hx. apply filter_In in Hx. apply Ht, Hx.
Qed.

Lemma mpe_plus_model_wf a b : wf a -> wf b -> wf (ModelMPE.sr_plus a b).
Proof. unfold ModelMPE.sr_plus. destruct (ModelMPE.Qlt_bool _ _); auto. Qed.

(* extract_weights: pos_value(p, key) / neg_value(p, key) with key = the atom's node id *)
Lemma mpe_values_model (wpos : N -> Q) (x : N) :
  mpe_pos_value Qops (FFin (N:=Qops) (wpos x)) (Z.of_N x)
    = Ok (encv (ModelMPE.pos_value wpos x)) /\
  mpe_neg_value Qops (FFin (N:=Qops) (wpos x)) (Z.of_N x)
    = Ok (encv (ModelMPE.neg_value (fun y => ((1 # 1) - wpos y)%Q) x)) /\
  (x <> 0%N -> wf (ModelMPE.pos_value wpos x) /\ wf (ModelMPE.neg_value (fun y => ((1 # 1) - wpos y)%Q) x)).
Proof.
  repeat split; try reflexivity; constructor; auto.
Qed.
