(* C12/C30 — the real-number instance of the numeric structure of ModelPy.v.
   No proofs in this file. *)
From Coq Require Import Reals ZArith.
From PL.C12 Require Import ModelPy.
Local Open Scope R_scope.

Definition Rltb (a b : R) : bool := if Rlt_dec a b then true else false.
Definition Rleb (a b : R) : bool := if Rle_dec a b then true else false.
Definition Reqb (a b : R) : bool := if Req_EM_T a b then true else false.

Definition Rops : NumOps := {|
  num := R;
  n_lit := fun n d => IZR n / IZR (Zpos d);
  n_add := Rplus; n_sub := Rminus; n_mul := Rmult; n_div := Rdiv; n_opp := Ropp;
  n_ltb := Rltb; n_leb := Rleb; n_eqb := Reqb;
  n_ln := ln; n_exp := exp |}.

Notation rfl := (fl Rops).
Definition RF (r : R) : rfl := FFin (N:=Rops) r.
