(* C12 — run-time library of the translation of the state semirings of
   problog/tasks/mpe.py (SemiringMPEState / SemiringMinPEState): Python sets of
   integer literal keys, tuple equality, sum().  No proofs in this file.

   A Python set of ints is a duplicate-free list; the operations keep lists
   duplicate-free ([zs_union a b] appends the elements of [b] not in [a], the same
   representation as C20/ModelMPE.v [unionL]); equality is extensional, as
   Python's set `==`.  The iteration order of a Python set is not modelled and is
   never observed by the translated methods. *)
From Coq Require Import ZArith List Bool.
From PL.C12 Require Import ModelPy.
Import ListNotations.

Definition zs_mem (x : Z) (s : list Z) : bool := existsb (Z.eqb x) s.
Definition zs_empty : list Z := [].                                   (* set() *)
Definition zs_single (k : Z) : list Z := [k].                         (* {k} *)
Definition zs_union (a b : list Z) : list Z :=                        (* a | b *)
  a ++ filter (fun x => negb (zs_mem x a)) b.
Definition zs_subset (a b : list Z) : bool := forallb (fun x => zs_mem x b) a.
Definition zs_eqb (a b : list Z) : bool := zs_subset a b && zs_subset b a.   (* a == b on sets *)

(* (p, s) == (q, t) on tuples: component-wise *)
Definition st_eqb (N : NumOps) (a b : fl N * list Z) : bool :=
  fl_eqb N (fst a) (fst b) && zs_eqb (snd a) (snd b).

(* sum(list of floats): left fold of + starting from the int 0 *)
Definition fl_sum (N : NumOps) (l : list (fl N)) : fl N :=
  fold_left (fl_add N) l (FFin (zero_n N)).

(* ---- used by the correspondence only (QE instance) *)
Definition st_close (tol : QArith_base.Q) (r : res (qfl * list Z)) (p : qfl) (s : list Z) : bool :=
  match r with
  | Ok (x, t) => fl_close tol x p && zs_eqb t s
  | Raise _ => false
  end.
Definition st_raises (r : res (qfl * list Z)) (e : exn) : bool := raises r e.
Fixpoint zs_nodup (s : list Z) : bool :=
  match s with [] => true | x :: t => negb (zs_mem x t) && zs_nodup t end.
Definition st_nodup (r : res (qfl * list Z)) : bool :=
  match r with Ok (_, t) => zs_nodup t | Raise _ => true end.
