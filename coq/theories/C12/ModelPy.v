(* C12/C30 — run-time library of the Python->Gallina translation of the semiring
   classes (gen/c12_semiring.py).  No proofs in this file.

   Python floats are idealised: a float is NaN, -inf, +inf or a *number* of an
   abstract numeric structure [NumOps].  The generated definitions are written
   once, inside a Section over [NumOps], and instantiated twice:
     - [Rops]  : Coq reals (theorems are stated about this instance)
     - [QEops] : closed expressions over exact rationals with symbolic ln/exp
                 (vm_compute-able; used by the float-level correspondence)
   Exceptions are values of [res]. *)
From Coq Require Import ZArith QArith Qabs Qminmax String List Bool.
Import ListNotations.

Inductive exn : Set :=
| InvalidValue | OperationNotSupported | NotImplementedError
| ValueError | ZeroDivisionError | TypeError.

Inductive res (A : Type) : Type := Ok (a : A) | Raise (e : exn).
Arguments Ok {A} a.
Arguments Raise {A} e.

Definition ret {A} (a : A) : res A := Ok a.
Definition bind {A B} (m : res A) (f : A -> res B) : res B :=
  match m with Ok a => f a | Raise e => Raise e end.
Notation "x <- m ;; k" := (bind m (fun x => k))
  (at level 61, m at next level, right associativity).
Notation "' p <- m ;; k" := (bind m (fun p => k))
  (at level 61, p pattern, m at next level, right associativity).

Definition exn_eqb (a b : exn) : bool :=
  match a, b with
  | InvalidValue, InvalidValue | OperationNotSupported, OperationNotSupported
  | NotImplementedError, NotImplementedError | ValueError, ValueError
  | ZeroDivisionError, ZeroDivisionError | TypeError, TypeError => true
  | _, _ => false
  end.

Definition raises {A} (m : res A) (e : exn) : bool :=
  match m with Raise e' => exn_eqb e e' | Ok _ => false end.

(* Python `try: BODY except E: raise E'` *)
Definition try_reraise {A} (m : res A) (caught : exn) (raised : exn) : res A :=
  match m with
  | Raise e => if exn_eqb e caught then Raise raised else Raise e
  | Ok a => Ok a
  end.

(* `for w in ws: s = f(s, w)` *)
Fixpoint fold_res {A B} (f : A -> B -> res A) (l : list B) (s : A) : res A :=
  match l with
  | [] => Ok s
  | w :: t => bind (f s w) (fun s' => fold_res f t s')
  end.

(* numeric structure *)
Record NumOps : Type := {
  num : Type;
  n_lit : Z -> positive -> num;       (* the rational n/d, written as a decimal literal in the source *)
  n_add : num -> num -> num;
  n_sub : num -> num -> num;
  n_mul : num -> num -> num;
  n_div : num -> num -> num;          (* only called with a non-zero divisor *)
  n_opp : num -> num;
  n_ltb : num -> num -> bool;
  n_leb : num -> num -> bool;
  n_eqb : num -> num -> bool;
  n_ln : num -> num;                  (* only called on positive arguments *)
  n_exp : num -> num;
}.

Section Float.
Variable N : NumOps.
Local Notation num := (num N).

Inductive fl : Type := FNaN | FNInf | FFin (r : num) | FPInf.

Definition flit (n : Z) (d : positive) : fl := FFin (n_lit N n d).
Definition zero_n : num := n_lit N 0 1.
Definition one_n : num := n_lit N 1 1.

Definition fl_neg (a : fl) : fl :=
  match a with FNaN => FNaN | FNInf => FPInf | FPInf => FNInf | FFin r => FFin (n_opp N r) end.

Definition fl_add (a b : fl) : fl :=
  match a, b with
  | FNaN, _ | _, FNaN => FNaN
  | FNInf, FPInf | FPInf, FNInf => FNaN
  | FNInf, _ | _, FNInf => FNInf
  | FPInf, _ | _, FPInf => FPInf
  | FFin x, FFin y => FFin (n_add N x y)
  end.

Definition fl_sub (a b : fl) : fl :=
  match a, b with
  | FFin x, FFin y => FFin (n_sub N x y)
  | _, _ => fl_add a (fl_neg b)
  end.

(* sign of a number: used for inf * x *)
Definition inf_times (pos : bool) (r : num) : fl :=
  if n_ltb N zero_n r then (if pos then FPInf else FNInf)
  else if n_ltb N r zero_n then (if pos then FNInf else FPInf)
  else FNaN.

Definition fl_mul (a b : fl) : fl :=
  match a, b with
  | FNaN, _ | _, FNaN => FNaN
  | FFin x, FFin y => FFin (n_mul N x y)
  | FPInf, FFin r | FFin r, FPInf => inf_times true r
  | FNInf, FFin r | FFin r, FNInf => inf_times false r
  | FPInf, FPInf | FNInf, FNInf => FPInf
  | FPInf, FNInf | FNInf, FPInf => FNInf
  end.

(* Python float `/` : ZeroDivisionError on a zero divisor *)
Definition fl_div (a b : fl) : res fl :=
  match a, b with
  | FNaN, FFin y => if n_eqb N y zero_n then Raise ZeroDivisionError else Ok FNaN
  | FNaN, _ | _, FNaN => Ok FNaN
  | FFin x, FFin y => if n_eqb N y zero_n then Raise ZeroDivisionError else Ok (FFin (n_div N x y))
  | FFin _, _ => Ok (FFin zero_n)
  | FPInf, FFin y => if n_eqb N y zero_n then Raise ZeroDivisionError else Ok (inf_times true y)
  | FNInf, FFin y => if n_eqb N y zero_n then Raise ZeroDivisionError else Ok (inf_times false y)
  | _, _ => Ok FNaN
  end.

Definition fl_ltb (a b : fl) : bool :=
  match a, b with
  | FNaN, _ | _, FNaN => false
  | FNInf, FNInf => false
  | FNInf, _ => true
  | _, FNInf => false
  | FPInf, _ => false
  | _, FPInf => true
  | FFin x, FFin y => n_ltb N x y
  end.

Definition fl_leb (a b : fl) : bool :=
  match a, b with
  | FNaN, _ | _, FNaN => false
  | FNInf, _ => true
  | _, FNInf => false
  | _, FPInf => true
  | FPInf, _ => false
  | FFin x, FFin y => n_leb N x y
  end.

Definition fl_eqb (a b : fl) : bool :=
  match a, b with
  | FNInf, FNInf | FPInf, FPInf => true
  | FFin x, FFin y => n_eqb N x y
  | _, _ => false
  end.

(* math.log : ValueError outside (0, +inf] *)
Definition py_log (a : fl) : res fl :=
  match a with
  | FNaN => Ok FNaN
  | FPInf => Ok FPInf
  | FNInf => Raise ValueError
  | FFin r => if n_ltb N zero_n r then Ok (FFin (n_ln N r)) else Raise ValueError
  end.

(* math.log1p x = ln (1+x) : ValueError for x <= -1 *)
Definition py_log1p (a : fl) : res fl :=
  match a with
  | FNaN => Ok FNaN
  | FPInf => Ok FPInf
  | FNInf => Raise ValueError
  | FFin r => if n_ltb N (n_opp N one_n) r then Ok (FFin (n_ln N (n_add N one_n r))) else Raise ValueError
  end.

(* math.exp : OverflowError (argument > ~709.78) is not modelled *)
Definition py_exp (a : fl) : res fl :=
  match a with
  | FNaN => Ok FNaN
  | FPInf => Ok FPInf
  | FNInf => Ok (FFin zero_n)
  | FFin r => Ok (FFin (n_exp N r))
  end.

(* float(x) of something that already is a float *)
Definition py_float (a : fl) : res fl := Ok a.

(* Dynamically typed view used ONLY for `==`: a bound method object such as
   `self.one` (attribute access without a call) is a value that is equal to
   itself and to nothing else - in particular to no number and no string. *)
Inductive pyv : Type :=
| PFloat (x : fl) | PStr (s : string) | PBool (b : bool) | PMeth (name : string)
| PPair (a b : pyv).

Fixpoint py_eqb (a b : pyv) : bool :=
  match a, b with
  | PFloat x, PFloat y => fl_eqb x y
  | PStr s, PStr t => String.eqb s t
  | PBool x, PBool y => Bool.eqb x y
  | PMeth m, PMeth m' => String.eqb m m'
  | PPair a1 a2, PPair b1 b2 => py_eqb a1 b1 && py_eqb a2 b2
  | _, _ => false
  end.

Definition fl_finite (a : fl) : bool := match a with FFin _ => true | _ => false end.

End Float.

Arguments FNaN {N}.
Arguments FNInf {N}.
Arguments FPInf {N}.
Arguments FFin {N} r.
Arguments PFloat {N} x.
Arguments PStr {N} s.
Arguments PBool {N} b.
Arguments PMeth {N} name.
Arguments PPair {N} a b.

(* str(x) of something that already is its rendering *)
Definition py_str (s : string) : res string := Ok s.

(* ------------------------------------------------------------------------ *)
(* Instance 2: exact rationals with symbolic transcendental functions.      *)
Inductive qe : Set :=
| QC (q : Q)
| QLn (e : qe) | QExp (e : qe)
| QAdd (a b : qe) | QSub (a b : qe) | QMul (a b : qe) | QDiv (a b : qe) | QOpp (a : qe).

Definition qe_add a b := match a, b with QC x, QC y => QC (Qred (x + y)) | _, _ => QAdd a b end.
Definition qe_sub a b := match a, b with QC x, QC y => QC (Qred (x - y)) | _, _ => QSub a b end.
Definition qe_mul a b := match a, b with QC x, QC y => QC (Qred (x * y)) | _, _ => QMul a b end.
Definition qe_div a b := match a, b with QC x, QC y => QC (Qred (x / y)) | _, _ => QDiv a b end.
Definition qe_opp a := match a with QC x => QC (Qred (- x)) | _ => QOpp a end.
(* Comparisons.  On constants they are exact.  On expressions containing exp
   they answer `true` only when elementary rational bounds prove the inequality
   (0 < exp x, 1 + x <= exp x, exp x <= 1/(1-x) for x < 1, 1 - 1/y <= ln y <= y - 1); an undecided
   comparison answers `false`, which the correspondence would expose as a
   mismatch with the implementation (it never silently agrees). *)
Fixpoint qe_lo (e : qe) : option Q :=
  match e with
  | QC q => Some q
  | QExp (QC x) => Some (Qmax 0 (1 + x))
  | QExp _ => Some 0
  | QLn (QC y) => match Qcompare 0 y with Lt => Some (1 - 1 / y) | _ => None end
  | QOpp a => option_map Qopp (qe_hi a)
  | QAdd a b => match qe_lo a, qe_lo b with Some x, Some y => Some (x + y) | _, _ => None end
  | QSub a b => match qe_lo a, qe_hi b with Some x, Some y => Some (x - y) | _, _ => None end
  | _ => None
  end
with qe_hi (e : qe) : option Q :=
  match e with
  | QC q => Some q
  | QExp (QC x) => match Qcompare x 1 with Lt => Some (1 / (1 - x)) | _ => None end
  | QLn (QC y) => match Qcompare 0 y with Lt => Some (y - 1) | _ => None end
  | QOpp a => option_map Qopp (qe_lo a)
  | QAdd a b => match qe_hi a, qe_hi b with Some x, Some y => Some (x + y) | _, _ => None end
  | QSub a b => match qe_hi a, qe_lo b with Some x, Some y => Some (x - y) | _, _ => None end
  | _ => None
  end.
(* 0 < exp x strictly: a lower bound 0 of an exp-expression is never attained *)
Definition qe_lo_strict (e : qe) : bool := match e with QExp _ => true | _ => false end.
Definition qe_hi_strict (e : qe) : bool := match e with QOpp (QExp _) => true | _ => false end.

Definition qe_ltb a b :=
  match a, b with
  | QC x, QC y => match Qcompare x y with Lt => true | _ => false end
  | _, _ => match qe_hi a, qe_lo b with
            | Some h, Some l => match Qcompare h l with
                                | Lt => true
                                | Eq => qe_hi_strict a || qe_lo_strict b
                                | Gt => false end
            | _, _ => false end
  end.
Definition qe_leb a b :=
  match a, b with
  | QC x, QC y => match Qcompare x y with Gt => false | _ => true end
  | _, _ => match qe_hi a, qe_lo b with
            | Some h, Some l => match Qcompare h l with Gt => false | _ => true end
            | _, _ => false end
  end.
Definition qe_eqb a b := match a, b with QC x, QC y => Qeq_bool x y | _, _ => false end.
Definition qe_ln a := match a with QC x => if Qeq_bool x 1 then QC 0 else QLn a | _ => QLn a end.
Definition qe_exp a :=
  match a with
  | QC x => if Qeq_bool x 0 then QC 1 else QExp a
  | QLn (QC y) => match Qcompare 0 y with Lt => QC y | _ => QExp a end    (* exp (ln y) = y for y > 0 *)
  | _ => QExp a
  end.

Definition QEops : NumOps := {|
  num := qe;
  n_lit := fun n d => QC (Qred (n # d));
  n_add := qe_add; n_sub := qe_sub; n_mul := qe_mul; n_div := qe_div; n_opp := qe_opp;
  n_ltb := qe_ltb; n_leb := qe_leb; n_eqb := qe_eqb;
  n_ln := qe_ln; n_exp := qe_exp |}.

Definition qfl := fl QEops.
Definition qlit (n : Z) (d : positive) : qfl := FFin (N:=QEops) (QC (Qred (n # d))).

(* is the value a rational constant within tol of the expected rational? *)
Definition q_close (tol : Q) (x y : Q) : bool :=
  match Qcompare (Qabs (x - y)) tol with Gt => false | _ => true end.

Definition fl_close (tol : Q) (a : qfl) (b : qfl) : bool :=
  match a, b with
  | FNaN, FNaN | FNInf, FNInf | FPInf, FPInf => true
  | FFin (QC x), FFin (QC y) => q_close tol x y
  | _, _ => false
  end.

Definition res_close (tol : Q) (a : res qfl) (b : res qfl) : bool :=
  match a, b with
  | Ok x, Ok y => fl_close tol x y
  | Raise e, Raise e' => exn_eqb e e'
  | _, _ => false
  end.

Definition res_bool_eqb (a b : res bool) : bool :=
  match a, b with
  | Ok x, Ok y => Bool.eqb x y
  | Raise e, Raise e' => exn_eqb e e'
  | _, _ => false
  end.

Definition res_str_eqb (a b : res string) : bool :=
  match a, b with
  | Ok x, Ok y => String.eqb x y
  | Raise e, Raise e' => exn_eqb e e'
  | _, _ => false
  end.

(* ------------------------------------------------------------------------ *)
(* Flat serialisation of results of the QE instance (read back by the harness,
   which evaluates ln/exp numerically):  prefix code over Z. *)
Fixpoint qe_ser (e : qe) : list Z :=
  match e with
  | QC q => [0%Z; Qnum q; Zpos (Qden q)]
  | QLn a => 1%Z :: qe_ser a
  | QExp a => 2%Z :: qe_ser a
  | QAdd a b => 3%Z :: qe_ser a ++ qe_ser b
  | QSub a b => 4%Z :: qe_ser a ++ qe_ser b
  | QMul a b => 5%Z :: qe_ser a ++ qe_ser b
  | QDiv a b => 6%Z :: qe_ser a ++ qe_ser b
  | QOpp a => 7%Z :: qe_ser a
  end.

Definition exn_code (e : exn) : Z :=
  match e with
  | InvalidValue => 20 | OperationNotSupported => 21 | NotImplementedError => 22
  | ValueError => 23 | ZeroDivisionError => 24 | TypeError => 25
  end%Z.

Definition fl_ser (x : qfl) : list Z :=
  match x with
  | FFin e => 10%Z :: qe_ser e
  | FNInf => [11%Z] | FPInf => [12%Z] | FNaN => [13%Z]
  end.

Definition res_ser (r : res qfl) : list Z :=
  match r with Ok x => fl_ser x | Raise e => [exn_code e] end.
