(* C12 — SemiringSymbolic: the strings it builds denote, under the standard
   expression grammar (precedence: parentheses > * / > + -, left associative),
   the corresponding real-number operations. *)
From Coq Require Import Reals Lra Lia ZArith Bool String List Ascii.
From PL.C12 Require Import ModelPy ModelR GenSemirings ProofsBase.
Local Open Scope R_scope.
Local Open Scope string_scope.

Lemma length_app (s t : string) : String.length (s ++ t) = (String.length s + String.length t)%nat.
Proof. induction s; cbn; auto. Qed.
Lemma app_assoc (s t u : string) : (s ++ t) ++ u = s ++ (t ++ u).
Proof. induction s; cbn; congruence. Qed.

Section Denote.
(* atomic expressions (constants, names, ...) and their values; "0" and "1" mean 0 and 1 *)
Variable atomic : string -> Prop.
Variable aval : string -> R.
Hypothesis atomic_len : forall s, atomic s -> (1 <= String.length s)%nat.
Hypothesis aval_0 : aval "0" = 0.
Hypothesis aval_1 : aval "1" = 1.
Hypothesis atomic_0 : atomic "0".
Hypothesis atomic_1 : atomic "1".

(* the standard stratified expression grammar, with values *)
Inductive den_atom : string -> R -> Prop :=
| DA_atom s : atomic s -> den_atom s (aval s)
| DA_paren s v : den_sum s v -> den_atom ("(" ++ s ++ ")") v
with den_prod : string -> R -> Prop :=
| DP_atom s v : den_atom s v -> den_prod s v
| DP_mul s t v w : den_prod s v -> den_atom t w -> den_prod (s ++ "*" ++ t) (v * w)
| DP_div s t v w : den_prod s v -> den_atom t w -> den_prod (s ++ " / " ++ t) (v / w)
with den_sum : string -> R -> Prop :=
| DS_prod s v : den_prod s v -> den_sum s v
| DS_add s t v w : den_sum s v -> den_prod t w -> den_sum (s ++ " + " ++ t) (v + w)
| DS_sub s t v w : den_sum s v -> den_prod t w -> den_sum (s ++ "-" ++ t) (v - w).

Scheme den_atom_ind' := Induction for den_atom Sort Prop
  with den_prod_ind' := Induction for den_prod Sort Prop
  with den_sum_ind' := Induction for den_sum Sort Prop.
Combined Scheme den_mutind from den_atom_ind', den_prod_ind', den_sum_ind'.

Lemma den_len :
  (forall s v, den_atom s v -> (1 <= String.length s)%nat) /\
  (forall s v, den_prod s v -> (1 <= String.length s)%nat) /\
  (forall s v, den_sum s v -> (1 <= String.length s)%nat).
Proof.
  apply den_mutind; intros; auto; rewrite ?length_app; cbn; try lia.
Qed.

(* a one-character string can only be an atom *)
Lemma den_single c :
  (forall s v, den_atom s v -> s = String c EmptyString -> atomic s /\ v = aval s) /\
  (forall s v, den_prod s v -> s = String c EmptyString -> atomic s /\ v = aval s) /\
  (forall s v, den_sum s v -> s = String c EmptyString -> atomic s /\ v = aval s).
Proof.
  destruct den_len as (L1 & L2 & L3).
  apply den_mutind; intros; auto.
  - exfalso. apply L3 in d. apply (f_equal String.length) in H0. rewrite !length_app in H0. cbn in H0. lia.
  - exfalso. apply L2 in d. apply L1 in d0. apply (f_equal String.length) in H1. rewrite !length_app in H1. cbn in H1. lia.
  - exfalso. apply L2 in d. apply L1 in d0. apply (f_equal String.length) in H1. rewrite !length_app in H1. cbn in H1. lia.
  - exfalso. apply L3 in d. apply L2 in d0. apply (f_equal String.length) in H1. rewrite !length_app in H1. cbn in H1. lia.
  - exfalso. apply L3 in d. apply L2 in d0. apply (f_equal String.length) in H1. rewrite !length_app in H1. cbn in H1. lia.
Qed.

Lemma den_zero v : den_prod "0" v -> v = 0.
Proof. intros H. destruct (den_single "0"%char) as (_ & P & _). destruct (P _ _ H eq_refl) as [_ ->]. apply aval_0. Qed.
Lemma den_one v : den_prod "1" v -> v = 1.
Proof. intros H. destruct (den_single "1"%char) as (_ & P & _). destruct (P _ _ H eq_refl) as [_ ->]. apply aval_1. Qed.

Lemma prod_zero : den_prod "0" 0.
Proof. rewrite <- aval_0. apply DP_atom, DA_atom, atomic_0. Qed.
Lemma prod_one : den_prod "1" 1.
Proof. rewrite <- aval_1. apply DP_atom, DA_atom, atomic_1. Qed.

(* a * b where b is itself a product: the string reads as ((a * b1) * b2) ..., same value *)
Lemma prod_mul a va : den_prod a va -> forall b vb, den_prod b vb -> den_prod (a ++ "*" ++ b) (va * vb).
Proof.
  intros Ha b vb Hb. induction Hb as [s v Hs | s t v w Hs IH Ht | s t v w Hs IH Ht].
  - apply DP_mul; auto.
  - replace (a ++ "*" ++ s ++ "*" ++ t) with ((a ++ "*" ++ s) ++ "*" ++ t) by (rewrite !app_assoc; reflexivity).
    replace (va * (v * w)) with ((va * v) * w) by ring. apply DP_mul; auto.
  - replace (a ++ "*" ++ s ++ " / " ++ t) with ((a ++ "*" ++ s) ++ " / " ++ t) by (rewrite !app_assoc; reflexivity).
    replace (va * (v / w)) with ((va * v) / w) by (unfold Rdiv; ring). apply DP_div; auto.
Qed.

Definition seqb_true (a b : string) : String.eqb a b = true -> a = b := proj1 (String.eqb_eq a b).

(* ---- the operations of SemiringSymbolic are homomorphic *)
Lemma sym_zero_den : exists s, sym_zero Rops = Ok s /\ den_prod s 0.
Proof. eexists; split; [reflexivity|apply prod_zero]. Qed.
Lemma sym_one_den : exists s, sym_one Rops = Ok s /\ den_prod s 1.
Proof. eexists; split; [reflexivity|apply prod_one]. Qed.

Lemma sym_plus_den a b va vb : den_prod a va -> den_prod b vb ->
  exists s, sym_plus Rops a b = Ok s /\ den_prod s (va + vb).
Proof.
  intros Ha Hb. cbv [sym_plus py_eqb ret].
  destruct (String.eqb a "0") eqn:Ea.
  - apply seqb_true in Ea; subst. apply den_zero in Ha; subst. eexists; split; eauto. replace (0 + vb) with vb by ring. auto.
  - destruct (String.eqb b "0") eqn:Eb.
    + apply seqb_true in Eb; subst. apply den_zero in Hb; subst. eexists; split; eauto. replace (va + 0) with va by ring. auto.
    + eexists; split; eauto. apply DP_atom.
      replace ("(" ++ a ++ " + " ++ b ++ ")") with ("(" ++ (a ++ " + " ++ b) ++ ")") by (rewrite !app_assoc; reflexivity).
      apply DA_paren. apply DS_add; auto. apply DS_prod; auto.
Qed.

Lemma sym_times_den a b va vb : den_prod a va -> den_prod b vb ->
  exists s, sym_times Rops a b = Ok s /\ den_prod s (va * vb).
Proof.
  intros Ha Hb. cbv [sym_times py_eqb ret].
  destruct (String.eqb a "0") eqn:Ea; cbn [orb].
  - apply seqb_true in Ea; subst. apply den_zero in Ha; subst. eexists; split; eauto. replace (0 * vb) with 0 by ring. apply prod_zero.
  - destruct (String.eqb b "0") eqn:Eb.
    + apply seqb_true in Eb; subst. apply den_zero in Hb; subst. eexists; split; eauto. replace (va * 0) with 0 by ring. apply prod_zero.
    + destruct (String.eqb a "1") eqn:Ea1.
      * apply seqb_true in Ea1; subst. apply den_one in Ha; subst. eexists; split; eauto. replace (1 * vb) with vb by ring. auto.
      * destruct (String.eqb b "1") eqn:Eb1.
        -- apply seqb_true in Eb1; subst. apply den_one in Hb; subst. eexists; split; eauto. replace (va * 1) with va by ring. auto.
        -- eexists; split; eauto. apply prod_mul; auto.
Qed.

Lemma sym_negate_den a va : den_prod a va -> exists s, sym_negate Rops a = Ok s /\ den_prod s (1 - va).
Proof.
  intros Ha. cbv [sym_negate py_eqb ret].
  destruct (String.eqb a "0") eqn:Ea.
  - apply seqb_true in Ea; subst. apply den_zero in Ha; subst. eexists; split; eauto. replace (1 - 0) with 1 by ring. apply prod_one.
  - destruct (String.eqb a "1") eqn:Ea1.
    + apply seqb_true in Ea1; subst. apply den_one in Ha; subst. eexists; split; eauto. replace (1 - 1) with 0 by ring. apply prod_zero.
    + eexists; split; eauto. apply DP_atom.
      replace ("(1-" ++ a ++ ")") with ("(" ++ ("1" ++ "-" ++ a) ++ ")") by (rewrite ?app_assoc; reflexivity).
      apply DA_paren. apply DS_sub; auto. apply DS_prod, prod_one.
Qed.

(* normalize (with the divisor parenthesised: repair 7576302) *)
Lemma sym_normalize_den a z va vz : den_prod a va -> den_prod z vz ->
  exists s, sym_normalize Rops a z = Ok s /\ den_prod s (va / vz).
Proof.
  intros Ha Hz. cbv [sym_normalize py_eqb ret].
  destruct (String.eqb z "1") eqn:Ez.
  - apply seqb_true in Ez; subst. apply den_one in Hz; subst. eexists; split; eauto. replace (va / 1) with va by (unfold Rdiv; rewrite Rinv_1; ring). auto.
  - eexists; split; eauto.
    replace (a ++ " / (" ++ z ++ ")") with (a ++ " / " ++ ("(" ++ z ++ ")")) by reflexivity.
    apply DP_div; auto. apply DA_paren, DS_prod; auto.
Qed.

Lemma sym_value_den x : atomic x -> exists s, sym_value Rops x = Ok s /\ den_prod s (aval x).
Proof. intros. eexists; split; [reflexivity|]. apply DP_atom, DA_atom; auto. Qed.

Lemma sym_ad_complement_den ws vs : Forall2 den_prod ws vs ->
  exists s, sym_ad_complement Rops ws = Ok s /\ den_prod s (1 - fold_left Rplus vs 0).
Proof.
  intros H. cbv [sym_ad_complement]. cbn [sym_zero ret bind].
  assert (G : forall acc vacc, den_prod acc vacc ->
     exists s, fold_res (fun s w => sym_plus Rops s w) ws acc = Ok s /\ den_prod s (fold_left Rplus vs vacc)).
  { induction H; intros acc vacc Hacc; cbn [fold_res fold_left].
    - eauto.
    - destruct (sym_plus_den acc x vacc y Hacc H) as (s & E & Hs). rewrite E. cbn [bind]. apply IHForall2; auto. }
  destruct (G "0" 0 prod_zero) as (s & E & Hs). rewrite E. cbn [bind]. apply sym_negate_den; auto.
Qed.
End Denote.

(* all of it, with the assumptions on the atoms spelled out *)
Lemma sym_homomorphism (atomic : string -> Prop) (aval : string -> R) :
  (forall s, atomic s -> (1 <= String.length s)%nat) -> aval "0" = 0 -> aval "1" = 1 -> atomic "0" -> atomic "1" ->
  (exists s, sym_zero Rops = Ok s /\ den_prod atomic aval s 0) /\
  (exists s, sym_one Rops = Ok s /\ den_prod atomic aval s 1) /\
  (forall x, atomic x -> exists s, sym_value Rops x = Ok s /\ den_prod atomic aval s (aval x)) /\
  (forall a b va vb, den_prod atomic aval a va -> den_prod atomic aval b vb ->
     (exists s, sym_plus Rops a b = Ok s /\ den_prod atomic aval s (va + vb)) /\
     (exists s, sym_times Rops a b = Ok s /\ den_prod atomic aval s (va * vb)) /\
     (exists s, sym_negate Rops a = Ok s /\ den_prod atomic aval s (1 - va)) /\
     (exists s, sym_normalize Rops a b = Ok s /\ den_prod atomic aval s (va / vb))) /\
  (forall ws vs, Forall2 (den_prod atomic aval) ws vs ->
     exists s, sym_ad_complement Rops ws = Ok s /\ den_prod atomic aval s (1 - fold_left Rplus vs 0)).
Proof.
  intros L A0 A1 T0 T1. repeat split.
  - eapply sym_zero_den; eauto.
  - eapply sym_one_den; eauto.
  - intros. eapply sym_value_den; eauto.
  - eapply sym_plus_den; eauto.
  - eapply sym_times_den; eauto.
  - eapply sym_negate_den; eauto.
  - eapply sym_normalize_den; eauto.
  - intros. eapply sym_ad_complement_den; eauto.
Qed.

(* consequence: the semiring laws hold under the denotation, e.g. commutativity / associativity /
   distributivity: both sides of each law have a reading with the same value *)
Lemma sym_laws_under_den (atomic : string -> Prop) (aval : string -> R) :
  (forall s, atomic s -> (1 <= String.length s)%nat) -> aval "0" = 0 -> aval "1" = 1 -> atomic "0" -> atomic "1" ->
  forall a b c va vb vc, den_prod atomic aval a va -> den_prod atomic aval b vb -> den_prod atomic aval c vc ->
  (exists s1 s2 v, sym_plus Rops a b = Ok s1 /\ sym_plus Rops b a = Ok s2 /\ den_prod atomic aval s1 v /\ den_prod atomic aval s2 v) /\
  (exists s1 s2 v, sym_times Rops a b = Ok s1 /\ sym_times Rops b a = Ok s2 /\ den_prod atomic aval s1 v /\ den_prod atomic aval s2 v) /\
  (exists s1 s2 v, (t <- sym_plus Rops a b ;; sym_plus Rops t c) = Ok s1 /\ (t <- sym_plus Rops b c ;; sym_plus Rops a t) = Ok s2 /\
                   den_prod atomic aval s1 v /\ den_prod atomic aval s2 v) /\
  (exists s1 s2 v, (t <- sym_times Rops a b ;; sym_times Rops t c) = Ok s1 /\ (t <- sym_times Rops b c ;; sym_times Rops a t) = Ok s2 /\
                   den_prod atomic aval s1 v /\ den_prod atomic aval s2 v) /\
  (exists s1 s2 v, (t <- sym_plus Rops b c ;; sym_times Rops a t) = Ok s1 /\
                   (x <- sym_times Rops a b ;; y <- sym_times Rops a c ;; sym_plus Rops x y) = Ok s2 /\
                   den_prod atomic aval s1 v /\ den_prod atomic aval s2 v).
Proof.
  intros L A0 A1 T0 T1 a b c va vb vc Ha Hb Hc.
  destruct (sym_homomorphism atomic aval L A0 A1 T0 T1) as (_ & _ & _ & H & _).
  assert (P : forall x y vx vy, den_prod atomic aval x vx -> den_prod atomic aval y vy ->
            exists s, sym_plus Rops x y = Ok s /\ den_prod atomic aval s (vx + vy)) by (intros; eapply H; eauto).
  assert (T : forall x y vx vy, den_prod atomic aval x vx -> den_prod atomic aval y vy ->
            exists s, sym_times Rops x y = Ok s /\ den_prod atomic aval s (vx * vy)) by (intros; eapply H; eauto).
  repeat split.
  - destruct (P a b _ _ Ha Hb) as (s1 & E1 & D1). destruct (P b a _ _ Hb Ha) as (s2 & E2 & D2).
    exists s1, s2, (va + vb). repeat split; auto. replace (va + vb) with (vb + va) by ring. auto.
  - destruct (T a b _ _ Ha Hb) as (s1 & E1 & D1). destruct (T b a _ _ Hb Ha) as (s2 & E2 & D2).
    exists s1, s2, (va * vb). repeat split; auto. replace (va * vb) with (vb * va) by ring. auto.
  - destruct (P a b _ _ Ha Hb) as (ab & E1 & D1). destruct (P ab c _ _ D1 Hc) as (s1 & E1' & D1').
    destruct (P b c _ _ Hb Hc) as (bc & E2 & D2). destruct (P a bc _ _ Ha D2) as (s2 & E2' & D2').
    exists s1, s2, (va + vb + vc). rewrite E1, E2. cbn [bind]. repeat split; auto.
    replace (va + vb + vc) with (va + (vb + vc)) by ring. auto.
  - destruct (T a b _ _ Ha Hb) as (ab & E1 & D1). destruct (T ab c _ _ D1 Hc) as (s1 & E1' & D1').
    destruct (T b c _ _ Hb Hc) as (bc & E2 & D2). destruct (T a bc _ _ Ha D2) as (s2 & E2' & D2').
    exists s1, s2, (va * vb * vc). rewrite E1, E2. cbn [bind]. repeat split; auto.
    replace (va * vb * vc) with (va * (vb * vc)) by ring. auto.
  - destruct (P b c _ _ Hb Hc) as (bc & E1 & D1). destruct (T a bc _ _ Ha D1) as (s1 & E1' & D1').
    destruct (T a b _ _ Ha Hb) as (ab & E2 & D2). destruct (T a c _ _ Ha Hc) as (ac & E3 & D3).
    destruct (P ab ac _ _ D2 D3) as (s2 & E4 & D4).
    exists s1, s2, (va * (vb + vc)). rewrite E1, E2, E3. cbn [bind]. repeat split; auto.
    replace (va * (vb + vc)) with (va * vb + va * vc) by ring. auto.
Qed.
