(* C12 — built-in semirings obey their algebra and documented defaults.
   Only statements; every proof is `exact <lemma>`.  All statements are about the
   definitions GENERATED from problog/evaluator.py (GenSemirings.v), instantiated
   at the real numbers (Rops): "within floating tolerance" is idealised to exact
   reals, the numeric thresholds of the code are kept literally.
   `x <- m ;; k` is the exception monad: a law such as
   (t <- plus a b ;; plus t c) = (t <- plus b c ;; plus a t) also says that neither side raises. *)
From Coq Require Import Reals Lra ZArith Bool String List.
From PL.C12 Require Import ModelPy ModelR GenSemirings SpecSemiring ProofsProb ProofsLog ProofsDefaults ProofsSym.
Import ListNotations.
Local Open Scope string_scope.
Local Open Scope R_scope.

(* ---------------------------------------------------------------- probability *)
(* commutative-semiring laws on the domain of finite non-negative weights *)
Theorem C12_prob_semiring :
  comm_semiring_on Dprob (prob_plus Rops) (prob_times Rops) (prob_zero Rops) (prob_one Rops).
Proof. exact prob_semiring. Qed.
Print Assumptions C12_prob_semiring.

(* [0,1] is closed under times and negate *)
Theorem C12_prob_unit_closed : forall a b, Dunit a -> Dunit b ->
  returns_in Dunit (prob_times Rops a b) /\ returns_in Dunit (prob_negate Rops a).
Proof. exact prob_unit_closed. Qed.
Print Assumptions C12_prob_unit_closed.

Theorem C12_prob_negate : forall a, prob_negate Rops (RF a) = Ok (RF (1 - a)) /\
   (t <- prob_negate Rops (RF a) ;; prob_plus Rops (RF a) t) = Ok (RF 1) /\
   (t <- prob_negate Rops (RF a) ;; prob_negate Rops t) = Ok (RF a).
Proof. exact prob_negate_compl. Qed.
Print Assumptions C12_prob_negate.

Theorem C12_prob_thresholds : forall v,
  (prob_is_one Rops (RF v) = Ok true <-> 1 - 1/10^12 < v < 1 + 1/10^12) /\
  (prob_is_zero Rops (RF v) = Ok true <-> - (1/10^12) < v < 1/10^12) /\
  (prob_in_domain Rops (RF v) = Ok true <-> - (1/10^9) <= v <= 1 + 1/10^9).
Proof. exact (fun v => conj (prob_is_one_R v) (conj (prob_is_zero_R v) (prob_in_domain_R v))). Qed.
Print Assumptions C12_prob_thresholds.

(* documented defaults: is_one(one()), is_zero(zero()), normalize(a, one()) = a *)
Theorem C12_prob_defaults :
  (o <- prob_one Rops ;; prob_is_one Rops o) = Ok true /\
  (z <- prob_zero Rops ;; prob_is_zero Rops z) = Ok true /\
  (forall a, (o <- prob_one Rops ;; prob_normalize Rops (RF a) o) = Ok (RF a)).
Proof. exact prob_defaults. Qed.
Print Assumptions C12_prob_defaults.

Theorem C12_prob_normalize : forall a z,
  (z <> 0 -> prob_normalize Rops (RF a) (RF z) = Ok (RF (a / z))) /\
  prob_normalize Rops (RF a) (RF 0) = Raise ZeroDivisionError.
Proof. exact (fun a z => conj (prob_normalize_R a z) (prob_normalize_zero a)). Qed.
Print Assumptions C12_prob_normalize.

Theorem C12_prob_ad_complement : forall ps, prob_ad_complement Rops (map RF ps) = Ok (RF (1 - Rsum ps)).
Proof. exact prob_ad_complement_R. Qed.
Print Assumptions C12_prob_ad_complement.

(* ---------------------------------------------------------------- log-probability *)
(* commutative-semiring laws on {-inf} + finite reals *)
Theorem C12_log_semiring :
  comm_semiring_on Dlog (log_plus Rops) (log_times Rops) (log_zero Rops) (log_one Rops).
Proof. exact log_semiring. Qed.
Print Assumptions C12_log_semiring.

(* the log semiring is the image of the probability semiring under
   llog p = ln p (p > 0), -inf (p = 0); lexp is its inverse on the domain *)
Theorem C12_log_image_bijection :
  (forall p, 0 <= p -> lexp (llog p) = p) /\ (forall a, Dlog a -> llog (lexp a) = a) /\ (forall p, Dlog (llog p)).
Proof. exact (conj lexp_llog (conj llog_lexp Dlog_llog)). Qed.
Print Assumptions C12_log_image_bijection.

Theorem C12_log_image_plus_times : forall a b, 0 <= a -> 0 <= b ->
  log_plus Rops (llog a) (llog b) = Ok (llog (a + b)) /\
  log_times Rops (llog a) (llog b) = Ok (llog (a * b)).
Proof. exact (fun a b Ha Hb => conj (log_image_plus a b Ha Hb) (log_image_times a b Ha Hb)). Qed.
Print Assumptions C12_log_image_plus_times.

Theorem C12_log_image_result_normalize :
  (forall a, 0 <= a -> log_result Rops (llog a) = Ok (RF a)) /\
  (forall a z, 0 < a -> 0 < z -> log_normalize Rops (llog a) (llog z) = Ok (llog (a / z))).
Proof. exact (conj log_image_result log_image_normalize). Qed.
Print Assumptions C12_log_image_result_normalize.

(* value: ln above the 1e-9 cut-off, -inf (probability 0) in [-1e-9, 1e-9), InvalidValue outside [-1e-9, 1+1e-9];
   above the cut-off it is the image of SemiringProbability.value *)
Theorem C12_log_image_value : forall v,
  (1/10^9 <= v <= 1 + 1/10^9 -> log_value Rops (RF v) = Ok (RF (ln v))) /\
  (- (1/10^9) <= v < 1/10^9 -> log_value Rops (RF v) = Ok FNInf) /\
  (1/10^9 <= v <= 1 + 1/10^9 ->
     exists p, prob_value Rops (RF v) = Ok (RF p) /\ log_value Rops (RF v) = Ok (llog p)).
Proof. exact (fun v => conj (log_value_ln v) (conj (log_value_zero v) (log_value_image v))). Qed.
Print Assumptions C12_log_image_value.

(* negate: exact image of 1-a up to a = exp(-1e-10); above that the code returns
   probability 0, which is within 1e-10 of 1-a *)
Theorem C12_log_image_negate : forall a, 0 <= a <= 1 ->
  exists c, log_negate Rops (llog a) = Ok c /\ Dlog c /\
     (a <= exp (- (1/10^10)) -> c = llog (1 - a)) /\
     Rabs (lexp c - (1 - a)) < 1/10^10.
Proof. exact log_image_negate. Qed.
Print Assumptions C12_log_image_negate.

Theorem C12_log_negate_branches : forall x,
  (x <= - (1/10^10) -> log_negate Rops (RF x) = Ok (RF (ln (1 - exp x)))) /\
  (- (1/10^10) < x <= 1/10^12 -> log_negate Rops (RF x) = Ok FNInf) /\
  (x > 1/10^12 <-> log_negate Rops (RF x) = Raise InvalidValue).
Proof. exact (fun x => conj (log_negate_ln x) (conj (log_negate_cut x) (log_negate_raises x))). Qed.
Print Assumptions C12_log_negate_branches.

(* ad_complement corresponds: it is the image of 1 - sum (same tolerance as negate) *)
Theorem C12_log_image_ad_complement : forall ps, Forall (fun p => 0 <= p) ps -> Rsum ps <= 1 ->
  exists c, log_ad_complement Rops (map llog ps) = Ok c /\ Dlog c /\
     (Rsum ps <= exp (- (1/10^10)) -> c = llog (1 - Rsum ps)) /\
     Rabs (lexp c - (1 - Rsum ps)) < 1/10^10.
Proof. exact log_ad_complement_image. Qed.
Print Assumptions C12_log_image_ad_complement.

Theorem C12_log_thresholds : forall v,
  (log_is_one Rops (RF v) = Ok true <-> - (1/10^12) < v < 1/10^12) /\
  (log_is_zero Rops (RF v) = Ok true <-> v <= IZR (- 10 ^ 100)) /\
  log_is_zero Rops FNInf = Ok true.
Proof. exact (fun v => conj (log_is_one_R v) (conj (log_is_zero_R v) log_is_zero_ninf)). Qed.
Print Assumptions C12_log_thresholds.

Theorem C12_log_defaults :
  (o <- log_one Rops ;; log_is_one Rops o) = Ok true /\
  (z <- log_zero Rops ;; log_is_zero Rops z) = Ok true /\
  (forall a, Dlog a -> (o <- log_one Rops ;; log_normalize Rops a o) = Ok a).
Proof. exact log_defaults. Qed.
Print Assumptions C12_log_defaults.

(* ---------------------------------------------------------------- inherited base-class defaults *)
(* For ANY subclass that only defines one()/zero() (g1, g0 arbitrary non-NaN values):
   is_zero(zero()) holds; normalize(a, z) is `a` exactly when is_one(z), else OperationNotSupported;
   the remaining defaults are the documented ones. *)
Theorem C12_defaults_inherited : forall g1 g0 a z, proper g0 ->
  (t <- generic_zero Rops g1 g0 ;; generic_is_zero Rops g1 g0 t) = Ok true /\
  generic_normalize Rops g1 g0 a z =
     (b <- generic_is_one Rops g1 g0 z ;; if b then Ok a else Raise OperationNotSupported) /\
  generic_negate Rops g1 g0 a = Raise OperationNotSupported /\
  generic_value Rops g1 g0 a = Ok a /\ generic_result Rops g1 g0 a = Ok a /\
  generic_in_domain Rops g1 g0 a = Ok true.
Proof.
  exact (fun g1 g0 a z H => conj (generic_is_zero_zero g1 g0 H) (conj (generic_normalize_char g1 g0 a z)
    (conj (generic_negate_unsupported g1 g0 a)
      (let P := generic_plain_defaults g1 g0 a in conj (proj1 P) (conj (proj1 (proj2 P)) (proj1 (proj2 (proj2 P)))))))).
Qed.
Print Assumptions C12_defaults_inherited.

(* is_one(one()) and normalize(a, one()) = a for every such subclass (refuted before repair f43b2ec,
   when Semiring.is_one compared the value with the bound method `self.one`) *)
Theorem C12_defaults_is_one_inherited : forall g1 g0 a, proper g1 ->
  (o <- generic_one Rops g1 g0 ;; generic_is_one Rops g1 g0 o) = Ok true /\
  (o <- generic_one Rops g1 g0 ;; generic_normalize Rops g1 g0 a o) = Ok a.
Proof. exact (fun g1 g0 a H => conj (generic_is_one_one g1 g0 H) (generic_normalize_one g1 g0 a H)). Qed.
Print Assumptions C12_defaults_is_one_inherited.

Theorem C12_sym_defaults :
  (o <- sym_one Rops ;; sym_is_one Rops o) = Ok true /\
  (z <- sym_zero Rops ;; sym_is_zero Rops z) = Ok true /\
  (forall a, (o <- sym_one Rops ;; sym_normalize Rops a o) = Ok a).
Proof. exact (conj sym_is_one_one (conj sym_is_zero_zero sym_normalize_one)). Qed.
Print Assumptions C12_sym_defaults.

(* ---------------------------------------------------------------- symbolic semiring *)
(* den_prod atomic aval s v : the string s reads, under the standard expression grammar (parentheses,
   then left-associative * and " / ", then left-associative " + " and "-"), as a product-level expression
   of value v; atoms are the strings in `atomic` with value `aval` ("0" and "1" mean 0 and 1).
   Every operation of SemiringSymbolic maps strings with a reading to a string with the reading of the
   corresponding real operation (normalize included, with the divisor parenthesised).
   FULL STATEMENT WANTED: the same with a *functional* denotation (each string has exactly one value).
   _partial because uniqueness of the reading (unambiguity of the grammar) is not proved here; the harness
   reads the strings with Python's own expression parser and compares with exact rational evaluation. *)
Theorem C12_symbolic_homomorphism_partial : forall (atomic : string -> Prop) (aval : string -> R),
  (forall s, atomic s -> (1 <= String.length s)%nat) -> aval "0" = 0 -> aval "1" = 1 -> atomic "0" -> atomic "1" ->
  (exists s, sym_zero Rops = Ok s /\ den_prod atomic aval s 0) /\
  (exists s, sym_one Rops = Ok s /\ den_prod atomic aval s 1) /\
  (forall x, atomic x -> exists s, sym_value Rops x = Ok s /\ den_prod atomic aval s (aval x)) /\
  (forall a b va vb, den_prod atomic aval a va -> den_prod atomic aval b vb ->
     (exists s, sym_plus Rops a b = Ok s /\ den_prod atomic aval s (va + vb)) /\
     (exists s, sym_times Rops a b = Ok s /\ den_prod atomic aval s (va * vb)) /\
     (exists s, sym_negate Rops a = Ok s /\ den_prod atomic aval s (1 - va)) /\
     (exists s, sym_normalize Rops a b = Ok s /\ den_prod atomic aval s (va / vb))) /\
  (forall ws vs, Forall2 (den_prod atomic aval) ws vs ->
     exists s, sym_ad_complement Rops ws = Ok s /\ den_prod atomic aval s (1 - fold_left Rplus vs 0)).
Proof. exact sym_homomorphism. Qed.
Print Assumptions C12_symbolic_homomorphism_partial.

(* commutativity, associativity and distributivity under the denotation: both sides of each law return
   strings that have a common reading *)
Theorem C12_symbolic_laws_partial : forall (atomic : string -> Prop) (aval : string -> R),
  (forall s, atomic s -> (1 <= String.length s)%nat) -> aval "0" = 0 -> aval "1" = 1 -> atomic "0" -> atomic "1" ->
  forall a b c va vb vc, den_prod atomic aval a va -> den_prod atomic aval b vb -> den_prod atomic aval c vc ->
  (exists s1 s2 v, sym_plus Rops a b = Ok s1 /\ sym_plus Rops b a = Ok s2 /\ den_prod atomic aval s1 v /\ den_prod atomic aval s2 v) /\
  (exists s1 s2 v, sym_times Rops a b = Ok s1 /\ sym_times Rops b a = Ok s2 /\ den_prod atomic aval s1 v /\ den_prod atomic aval s2 v) /\
  (exists s1 s2 v, (t <- sym_plus Rops a b ;; sym_plus Rops t c) = Ok s1 /\ (t <- sym_plus Rops b c ;; sym_plus Rops a t) = Ok s2 /\
                   den_prod atomic aval s1 v /\ den_prod atomic aval s2 v) /\
  (exists s1 s2 v, (t <- sym_times Rops a b ;; sym_times Rops t c) = Ok s1 /\ (t <- sym_times Rops b c ;; sym_times Rops a t) = Ok s2 /\
                   den_prod atomic aval s1 v /\ den_prod atomic aval s2 v) /\
  (exists s1 s2 v, (t <- sym_plus Rops b c ;; sym_times Rops a t) = Ok s1 /\
                   (x <- sym_times Rops a b ;; y <- sym_times Rops a c ;; sym_plus Rops x y) = Ok s2 /\
                   den_prod atomic aval s1 v /\ den_prod atomic aval s2 v).
Proof. exact sym_laws_under_den. Qed.
Print Assumptions C12_symbolic_laws_partial.

(* ---------------------------------------------------------------- non-vacuity *)
Example C12_domains_inhabited :
  Dprob (RF (3/8)) /\ Dunit (RF (3/8)) /\ Dlog (llog (3/8)) /\ Dlog FNInf /\ proper (RF 1).
Proof.
  repeat split; try (eexists; split; [reflexivity|lra]); try lra.
  - apply Dlog_llog.
  - left; reflexivity.
  - discriminate.
Qed.

(* the hypotheses on atoms are satisfiable, and the strings are the ones the code builds *)
Example C12_symbolic_example :
  let atomic := fun s : string => s = "0" \/ s = "1" \/ s = "x" \/ s = "y" in
  let aval := fun s : string => if String.eqb s "1" then 1 else if String.eqb s "x" then 3/8 else if String.eqb s "y" then 1/4 else 0 in
  (forall s, atomic s -> (1 <= String.length s)%nat) /\ aval "0" = 0 /\ aval "1" = 1 /\ atomic "0" /\ atomic "1" /\
  den_prod atomic aval "x" (3/8) /\
  sym_plus Rops "x" "y" = Ok "(x + y)" /\ sym_times Rops "(x + y)" "x" = Ok "(x + y)*x" /\
  sym_normalize Rops "x" "(x + y)*x" = Ok "x / ((x + y)*x)" /\ sym_negate Rops "x" = Ok "(1-x)".
Proof.
  cbv zeta. repeat split; try reflexivity; auto.
  - intros s [ -> | [ -> | [ -> | -> ] ] ]; cbn; auto.
  - change (3/8) with ((fun s : string => if String.eqb s "1" then 1 else if String.eqb s "x" then 3/8 else if String.eqb s "y" then 1/4 else 0) "x") at 2.
    apply DP_atom, DA_atom. auto.
Qed.
