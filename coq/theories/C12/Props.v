(* C12 — built-in semirings obey their algebra and documented defaults.
   Only statements; every proof is `exact <lemma>`.  All statements are about the
   definitions GENERATED from problog/evaluator.py (GenSemirings.v), instantiated
   at the real numbers (Rops): "within floating tolerance" is idealised to exact
   reals, the numeric thresholds of the code are kept literally.
   `x <- m ;; k` is the exception monad: a law such as
   (t <- plus a b ;; plus t c) = (t <- plus b c ;; plus a t) also says that neither side raises. *)
From Coq Require Import Reals Lra ZArith Bool String List.
From PL.C12 Require Import ModelPy ModelPySet ModelR GenSemirings SpecSemiring ProofsProb ProofsLog ProofsDefaults ProofsSym ProofsMPE.
From PL.C12 Require ProofsMPEModel.
From PL.C20 Require ModelMPE.
Import ListNotations.
Local Open Scope string_scope.
Local Open Scope R_scope.

(* ---------------------------------------------------------------- probability *)
(* commutative-semiring laws on the domain of finite non-negative weights *)
Theorem C12_prob_semiring :
  comm_semiring_on Dprob (prob_plus Rops) (prob_times Rops) (prob_zero Rops) (prob_one Rops).
Proof. exact prob_semiring. Qed.
Print Assumptions C12_prob_semiring.

(* [0,1] is closed under times and negate *)
Theorem C12_prob_unit_closed : forall a b, Dunit a -> Dunit b ->
  returns_in Dunit (prob_times Rops a b) /\ returns_in Dunit (prob_negate Rops a).
Proof. exact prob_unit_closed. Qed.
Print Assumptions C12_prob_unit_closed.

Theorem C12_prob_negate : forall a, prob_negate Rops (RF a) = Ok (RF (1 - a)) /\
   (t <- prob_negate Rops (RF a) ;; prob_plus Rops (RF a) t) = Ok (RF 1) /\
   (t <- prob_negate Rops (RF a) ;; prob_negate Rops t) = Ok (RF a).
Proof. exact prob_negate_compl. Qed.
Print Assumptions C12_prob_negate.

Theorem C12_prob_thresholds : forall v,
  (prob_is_one Rops (RF v) = Ok true <-> 1 - 1/10^12 < v < 1 + 1/10^12) /\
  (prob_is_zero Rops (RF v) = Ok true <-> - (1/10^12) < v < 1/10^12) /\
  (prob_in_domain Rops (RF v) = Ok true <-> - (1/10^9) <= v <= 1 + 1/10^9).
Proof. exact (fun v => conj (prob_is_one_R v) (conj (prob_is_zero_R v) (prob_in_domain_R v))). Qed.
Print Assumptions C12_prob_thresholds.

(* documented defaults: is_one(one()), is_zero(zero()), normalize(a, one()) = a *)
Theorem C12_prob_defaults :
  (o <- prob_one Rops ;; prob_is_one Rops o) = Ok true /\
  (z <- prob_zero Rops ;; prob_is_zero Rops z) = Ok true /\
  (forall a, (o <- prob_one Rops ;; prob_normalize Rops (RF a) o) = Ok (RF a)).
Proof. exact prob_defaults. Qed.
Print Assumptions C12_prob_defaults.

Theorem C12_prob_normalize : forall a z,
  (z <> 0 -> prob_normalize Rops (RF a) (RF z) = Ok (RF (a / z))) /\
  prob_normalize Rops (RF a) (RF 0) = Raise ZeroDivisionError.
Proof. exact (fun a z => conj (prob_normalize_R a z) (prob_normalize_zero a)). Qed.
Print Assumptions C12_prob_normalize.

Theorem C12_prob_ad_complement : forall ps, prob_ad_complement Rops (map RF ps) = Ok (RF (1 - Rsum ps)).
Proof. exact prob_ad_complement_R. Qed.
Print Assumptions C12_prob_ad_complement.

(* ---------------------------------------------------------------- log-probability *)
(* commutative-semiring laws on {-inf} + finite reals *)
Theorem C12_log_semiring :
  comm_semiring_on Dlog (log_plus Rops) (log_times Rops) (log_zero Rops) (log_one Rops).
Proof. exact log_semiring. Qed.
Print Assumptions C12_log_semiring.

(* the log semiring is the image of the probability semiring under
   llog p = ln p (p > 0), -inf (p = 0); lexp is its inverse on the domain *)
Theorem C12_log_image_bijection :
  (forall p, 0 <= p -> lexp (llog p) = p) /\ (forall a, Dlog a -> llog (lexp a) = a) /\ (forall p, Dlog (llog p)).
Proof. exact (conj lexp_llog (conj llog_lexp Dlog_llog)). Qed.
Print Assumptions C12_log_image_bijection.

Theorem C12_log_image_plus_times : forall a b, 0 <= a -> 0 <= b ->
  log_plus Rops (llog a) (llog b) = Ok (llog (a + b)) /\
  log_times Rops (llog a) (llog b) = Ok (llog (a * b)).
Proof. exact (fun a b Ha Hb => conj (log_image_plus a b Ha Hb) (log_image_times a b Ha Hb)). Qed.
Print Assumptions C12_log_image_plus_times.

Theorem C12_log_image_result_normalize :
  (forall a, 0 <= a -> log_result Rops (llog a) = Ok (RF a)) /\
  (forall a z, 0 < a -> 0 < z -> log_normalize Rops (llog a) (llog z) = Ok (llog (a / z))).
Proof. exact (conj log_image_result log_image_normalize). Qed.
Print Assumptions C12_log_image_result_normalize.

(* value: ln above the 1e-9 cut-off, -inf (probability 0) in [-1e-9, 1e-9), InvalidValue outside [-1e-9, 1+1e-9];
   above the cut-off it is the image of SemiringProbability.value *)
Theorem C12_log_image_value : forall v,
  (1/10^9 <= v <= 1 + 1/10^9 -> log_value Rops (RF v) = Ok (RF (ln v))) /\
  (- (1/10^9) <= v < 1/10^9 -> log_value Rops (RF v) = Ok FNInf) /\
  (1/10^9 <= v <= 1 + 1/10^9 ->
     exists p, prob_value Rops (RF v) = Ok (RF p) /\ log_value Rops (RF v) = Ok (llog p)).
Proof. exact (fun v => conj (log_value_ln v) (conj (log_value_zero v) (log_value_image v))). Qed.
Print Assumptions C12_log_image_value.

(* negate: exact image of 1-a up to a = exp(-1e-10); above that the code returns
   probability 0, which is within 1e-10 of 1-a *)
Theorem C12_log_image_negate : forall a, 0 <= a <= 1 ->
  exists c, log_negate Rops (llog a) = Ok c /\ Dlog c /\
     (a <= exp (- (1/10^10)) -> c = llog (1 - a)) /\
     Rabs (lexp c - (1 - a)) < 1/10^10.
Proof. exact log_image_negate. Qed.
Print Assumptions C12_log_image_negate.

Theorem C12_log_negate_branches : forall x,
  (x <= - (1/10^10) -> log_negate Rops (RF x) = Ok (RF (ln (1 - exp x)))) /\
  (- (1/10^10) < x <= 1/10^12 -> log_negate Rops (RF x) = Ok FNInf) /\
  (x > 1/10^12 <-> log_negate Rops (RF x) = Raise InvalidValue).
Proof. exact (fun x => conj (log_negate_ln x) (conj (log_negate_cut x) (log_negate_raises x))). Qed.
Print Assumptions C12_log_negate_branches.

(* ad_complement corresponds: it is the image of 1 - sum (same tolerance as negate) *)
Theorem C12_log_image_ad_complement : forall ps, Forall (fun p => 0 <= p) ps -> Rsum ps <= 1 ->
  exists c, log_ad_complement Rops (map llog ps) = Ok c /\ Dlog c /\
     (Rsum ps <= exp (- (1/10^10)) -> c = llog (1 - Rsum ps)) /\
     Rabs (lexp c - (1 - Rsum ps)) < 1/10^10.
Proof. exact log_ad_complement_image. Qed.
Print Assumptions C12_log_image_ad_complement.

Theorem C12_log_thresholds : forall v,
  (log_is_one Rops (RF v) = Ok true <-> - (1/10^12) < v < 1/10^12) /\
  (log_is_zero Rops (RF v) = Ok true <-> v <= IZR (- 10 ^ 100)) /\
  log_is_zero Rops FNInf = Ok true.
Proof. exact (fun v => conj (log_is_one_R v) (conj (log_is_zero_R v) log_is_zero_ninf)). Qed.
Print Assumptions C12_log_thresholds.

Theorem C12_log_defaults :
  (o <- log_one Rops ;; log_is_one Rops o) = Ok true /\
  (z <- log_zero Rops ;; log_is_zero Rops z) = Ok true /\
  (forall a, Dlog a -> (o <- log_one Rops ;; log_normalize Rops a o) = Ok a).
Proof. exact log_defaults. Qed.
Print Assumptions C12_log_defaults.

(* ---------------------------------------------------------------- inherited base-class defaults *)
(* For ANY subclass that only defines one()/zero() (g1, g0 arbitrary non-NaN values):
   is_zero(zero()) holds; normalize(a, z) is `a` exactly when is_one(z), else OperationNotSupported;
   the remaining defaults are the documented ones. *)
Theorem C12_defaults_inherited : forall g1 g0 a z, proper g0 ->
  (t <- generic_zero Rops g1 g0 ;; generic_is_zero Rops g1 g0 t) = Ok true /\
  generic_normalize Rops g1 g0 a z =
     (b <- generic_is_one Rops g1 g0 z ;; if b then Ok a else Raise OperationNotSupported) /\
  generic_negate Rops g1 g0 a = Raise OperationNotSupported /\
  generic_value Rops g1 g0 a = Ok a /\ generic_result Rops g1 g0 a = Ok a /\
  generic_in_domain Rops g1 g0 a = Ok true.
Proof.
  exact (fun g1 g0 a z H => conj (generic_is_zero_zero g1 g0 H) (conj (generic_normalize_char g1 g0 a z)
    (conj (generic_negate_unsupported g1 g0 a)
      (let P := generic_plain_defaults g1 g0 a in conj (proj1 P) (conj (proj1 (proj2 P)) (proj1 (proj2 (proj2 P)))))))).
Qed.
Print Assumptions C12_defaults_inherited.

(* is_one(one()) and normalize(a, one()) = a for every such subclass (refuted before repair f43b2ec,
   when Semiring.is_one compared the value with the bound method `self.one`) *)
Theorem C12_defaults_is_one_inherited : forall g1 g0 a, proper g1 ->
  (o <- generic_one Rops g1 g0 ;; generic_is_one Rops g1 g0 o) = Ok true /\
  (o <- generic_one Rops g1 g0 ;; generic_normalize Rops g1 g0 a o) = Ok a.
Proof. exact (fun g1 g0 a H => conj (generic_is_one_one g1 g0 H) (generic_normalize_one g1 g0 a H)). Qed.
Print Assumptions C12_defaults_is_one_inherited.

Theorem C12_sym_defaults :
  (o <- sym_one Rops ;; sym_is_one Rops o) = Ok true /\
  (z <- sym_zero Rops ;; sym_is_zero Rops z) = Ok true /\
  (forall a, (o <- sym_one Rops ;; sym_normalize Rops a o) = Ok a).
Proof. exact (conj sym_is_one_one (conj sym_is_zero_zero sym_normalize_one)). Qed.
Print Assumptions C12_sym_defaults.

(* ---------------------------------------------------------------- symbolic semiring *)
(* den_prod atomic aval s v : the string s reads, under the standard expression grammar (parentheses,
   then left-associative * and " / ", then left-associative " + " and "-"), as a product-level expression
   of value v; atoms are the strings in `atomic` with value `aval` ("0" and "1" mean 0 and 1).
   Every operation of SemiringSymbolic maps strings with a reading to a string with the reading of the
   corresponding real operation (normalize included, with the divisor parenthesised).
   FULL STATEMENT WANTED: the same with a *functional* denotation (each string has exactly one value).
   _partial because uniqueness of the reading (unambiguity of the grammar) is not proved here; the harness
   reads the strings with Python's own expression parser and compares with exact rational evaluation. *)
Theorem C12_symbolic_homomorphism_partial : forall (atomic : string -> Prop) (aval : string -> R),
  (forall s, atomic s -> (1 <= String.length s)%nat) -> aval "0" = 0 -> aval "1" = 1 -> atomic "0" -> atomic "1" ->
  (exists s, sym_zero Rops = Ok s /\ den_prod atomic aval s 0) /\
  (exists s, sym_one Rops = Ok s /\ den_prod atomic aval s 1) /\
  (forall x, atomic x -> exists s, sym_value Rops x = Ok s /\ den_prod atomic aval s (aval x)) /\
  (forall a b va vb, den_prod atomic aval a va -> den_prod atomic aval b vb ->
     (exists s, sym_plus Rops a b = Ok s /\ den_prod atomic aval s (va + vb)) /\
     (exists s, sym_times Rops a b = Ok s /\ den_prod atomic aval s (va * vb)) /\
     (exists s, sym_negate Rops a = Ok s /\ den_prod atomic aval s (1 - va)) /\
     (exists s, sym_normalize Rops a b = Ok s /\ den_prod atomic aval s (va / vb))) /\
  (forall ws vs, Forall2 (den_prod atomic aval) ws vs ->
     exists s, sym_ad_complement Rops ws = Ok s /\ den_prod atomic aval s (1 - fold_left Rplus vs 0)).
Proof. exact sym_homomorphism. Qed.
Print Assumptions C12_symbolic_homomorphism_partial.

(* commutativity, associativity and distributivity under the denotation: both sides of each law return
   strings that have a common reading *)
Theorem C12_symbolic_laws_partial : forall (atomic : string -> Prop) (aval : string -> R),
  (forall s, atomic s -> (1 <= String.length s)%nat) -> aval "0" = 0 -> aval "1" = 1 -> atomic "0" -> atomic "1" ->
  forall a b c va vb vc, den_prod atomic aval a va -> den_prod atomic aval b vb -> den_prod atomic aval c vc ->
  (exists s1 s2 v, sym_plus Rops a b = Ok s1 /\ sym_plus Rops b a = Ok s2 /\ den_prod atomic aval s1 v /\ den_prod atomic aval s2 v) /\
  (exists s1 s2 v, sym_times Rops a b = Ok s1 /\ sym_times Rops b a = Ok s2 /\ den_prod atomic aval s1 v /\ den_prod atomic aval s2 v) /\
  (exists s1 s2 v, (t <- sym_plus Rops a b ;; sym_plus Rops t c) = Ok s1 /\ (t <- sym_plus Rops b c ;; sym_plus Rops a t) = Ok s2 /\
                   den_prod atomic aval s1 v /\ den_prod atomic aval s2 v) /\
  (exists s1 s2 v, (t <- sym_times Rops a b ;; sym_times Rops t c) = Ok s1 /\ (t <- sym_times Rops b c ;; sym_times Rops a t) = Ok s2 /\
                   den_prod atomic aval s1 v /\ den_prod atomic aval s2 v) /\
  (exists s1 s2 v, (t <- sym_plus Rops b c ;; sym_times Rops a t) = Ok s1 /\
                   (x <- sym_times Rops a b ;; y <- sym_times Rops a c ;; sym_plus Rops x y) = Ok s2 /\
                   den_prod atomic aval s1 v /\ den_prod atomic aval s2 v).
Proof. exact sym_laws_under_den. Qed.
Print Assumptions C12_symbolic_laws_partial.

(* ---------------------------------------------------------------- SemiringMPEState (problog/tasks/mpe.py) *)
(* States are (probability, set of literal keys); `St p s` is the state with the finite probability p.
   plus: the probability is the maximum, the witness is that of the argument with the LARGER
   probability, and on a tie of the probabilities the FIRST argument's witness. *)
Theorem C12_mpe_plus_is_max : forall x s y t,
  mpe_plus Rops (St x s) (St y t) = Ok (St (Rmax x y) (if Rltb x y then t else s)) /\
  (y < x -> mpe_plus Rops (St x s) (St y t) = Ok (St x s)) /\
  (x < y -> mpe_plus Rops (St x s) (St y t) = Ok (St y t)) /\
  (x = y -> mpe_plus Rops (St x s) (St y t) = Ok (St x s)).
Proof.
  exact (fun x s y t => conj (mpe_plus_char x s y t) (conj (proj1 (mpe_plus_larger x s y t))
          (conj (proj2 (mpe_plus_larger x s y t))
                (fun E => eq_ind x (fun y => mpe_plus Rops (St x s) (St y t) = Ok (St x s)) (mpe_plus_first_wins_on_tie x s t) y E)))).
Qed.
Print Assumptions C12_mpe_plus_is_max.

(* times: product of the probabilities, union of the witness sets (membership; duplicate-freeness kept) *)
Theorem C12_mpe_times_is_product_union : forall x s y t,
  mpe_times Rops (St x s) (St y t) = Ok (St (x * y) (zs_union s t)) /\
  (forall k, In k (zs_union s t) <-> In k s \/ In k t) /\
  (NoDup s -> NoDup t -> NoDup (zs_union s t)).
Proof.
  exact (fun x s y t => conj (mpe_times_char x s y t) (conj (fun k => zs_union_In k s t) (zs_union_NoDup s t))).
Qed.
Print Assumptions C12_mpe_times_is_product_union.

(* max-times commutative-semiring laws on the probability component (prob_part), for all reals
   (distributivity and the zero law: non-negative weights); neither side raises *)
Theorem C12_mpe_max_times_semiring : forall x s y t z u,
  (* plus: commutative, associative (exactly, witness included), idempotent *)
  (prob_part (mpe_plus Rops (St x s) (St y t)) = Ok (RF (Rmax x y)) /\
   prob_part (mpe_plus Rops (St y t) (St x s)) = Ok (RF (Rmax x y))) /\
  ((ab <- mpe_plus Rops (St x s) (St y t) ;; mpe_plus Rops ab (St z u)) =
   (bc <- mpe_plus Rops (St y t) (St z u) ;; mpe_plus Rops (St x s) bc) /\
   prob_part (ab <- mpe_plus Rops (St x s) (St y t) ;; mpe_plus Rops ab (St z u)) = Ok (RF (Rmax (Rmax x y) z))) /\
  mpe_plus Rops (St x s) (St x s) = Ok (St x s) /\
  (* times: commutative and associative on the probability, witnesses extensionally equal sets *)
  (exists w w', mpe_times Rops (St x s) (St y t) = Ok (St (x * y) w) /\
                mpe_times Rops (St y t) (St x s) = Ok (St (x * y) w') /\ zs_eqb w w' = true) /\
  (exists w w',
    (ab <- mpe_times Rops (St x s) (St y t) ;; mpe_times Rops ab (St z u)) = Ok (St (x * y * z) w) /\
    (bc <- mpe_times Rops (St y t) (St z u) ;; mpe_times Rops (St x s) bc) = Ok (St (x * y * z) w') /\
    zs_eqb w w' = true) /\
  (* one neutral (exactly), zero annihilates *)
  ((o <- mpe_one Rops ;; mpe_times Rops o (St x s)) = Ok (St x s) /\
   (o <- mpe_one Rops ;; mpe_times Rops (St x s) o) = Ok (St x s)) /\
  ((z0 <- mpe_zero Rops ;; mpe_times Rops z0 (St x s)) = Ok (St 0 s) /\
   (z0 <- mpe_zero Rops ;; mpe_times Rops (St x s) z0) = Ok (St 0 s)) /\
  (* zero neutral for plus on non-negative weights *)
  (0 <= x -> (z0 <- mpe_zero Rops ;; mpe_plus Rops (St x s) z0) = Ok (St x s) /\
             prob_part (z0 <- mpe_zero Rops ;; mpe_plus Rops z0 (St x s)) = Ok (RF x) /\
             (0 < x -> (z0 <- mpe_zero Rops ;; mpe_plus Rops z0 (St x s)) = Ok (St x s))) /\
  (* times distributes over plus for a non-negative factor *)
  (0 <= x ->
   prob_part (bc <- mpe_plus Rops (St y t) (St z u) ;; mpe_times Rops (St x s) bc) = Ok (RF (x * Rmax y z)) /\
   prob_part (ab <- mpe_times Rops (St x s) (St y t) ;; ac <- mpe_times Rops (St x s) (St z u) ;; mpe_plus Rops ab ac)
     = Ok (RF (x * Rmax y z))).
Proof.
  exact (fun x s y t z u =>
    conj (mpe_plus_prob_comm x s y t)
   (conj (conj (mpe_plus_assoc x s y t z u) (mpe_plus_assoc_prob x s y t z u))
   (conj (mpe_plus_first_wins_on_tie x s s)
   (conj (proj2 (mpe_times_prob_comm x s y t))
   (conj (mpe_times_assoc x s y t z u)
   (conj (mpe_times_one x s)
   (conj (mpe_times_zero x s)
   (conj (mpe_plus_zero x s)
         (mpe_distr_prob x s y t z u))))))))).
Qed.
Print Assumptions C12_mpe_max_times_semiring.

(* for a strictly positive factor distributivity is exact, witness included
   (for the factor 0 both products tie at 0 and the first one's witness is returned) *)
Theorem C12_mpe_distributes_with_witness : forall x s y t z u, 0 < x ->
  (bc <- mpe_plus Rops (St y t) (St z u) ;; mpe_times Rops (St x s) bc) =
  (ab <- mpe_times Rops (St x s) (St y t) ;; ac <- mpe_times Rops (St x s) (St z u) ;; mpe_plus Rops ab ac).
Proof. exact mpe_distr_exact. Qed.
Print Assumptions C12_mpe_distributes_with_witness.

(* external values: pos_value(p, key) = (p, {key}), neg_value(p, key) = (1-p, {-key}),
   ad_complement(ws, key) = (1 - sum of the probabilities, {key}) *)
Theorem C12_mpe_values : forall p k (ws : list (R * list Z)),
  mpe_pos_value Rops (RF p) k = Ok (St p [k]) /\
  mpe_neg_value Rops (RF p) k = Ok (St (1 - p) [(- k)%Z]) /\
  mpe_ad_complement Rops (map (fun a => St (fst a) (snd a)) ws) k = Ok (St (1 - Rsum (map fst ws)) [k]).
Proof.
  exact (fun p k ws => conj (proj1 (mpe_pos_neg_value p k)) (conj (proj2 (mpe_pos_neg_value p k)) (mpe_ad_complement_R ws k))).
Qed.
Print Assumptions C12_mpe_values.

(* inherited defaults of the base class, as they resolve for SemiringMPEState *)
Theorem C12_mpe_defaults :
  (o <- mpe_one Rops ;; mpe_is_one Rops o) = Ok true /\
  (z <- mpe_zero Rops ;; mpe_is_zero Rops z) = Ok true /\
  (o <- mpe_one Rops ;; mpe_is_zero Rops o) = Ok false /\
  (z <- mpe_zero Rops ;; mpe_is_one Rops z) = Ok false /\
  (forall a, (o <- mpe_one Rops ;; mpe_normalize Rops a o) = Ok a) /\
  (forall a z, mpe_normalize Rops a z = (b <- mpe_is_one Rops z ;; if b then Ok a else Raise OperationNotSupported)) /\
  (forall a, mpe_negate Rops a = Raise OperationNotSupported) /\
  (forall a, mpe_result Rops a = Ok a) /\ (forall v, mpe_value Rops v = Ok v) /\
  (forall a, mpe_in_domain Rops a = Ok true) /\
  mpe_is_nsp Rops = Ok true /\ mpe_is_dsp Rops = Ok false /\
  mpe_result_one Rops = Ok (St 1 []) /\ mpe_result_zero Rops = Ok (St 0 []) /\
  mpe_true Rops = Ok (St 1 [], St 0 []) /\ mpe_false Rops = Ok (St 0 [], St 1 []) /\
  (forall a b, mpe_ad_negate Rops a b = Ok (St 1 [])).
Proof. exact mpe_defaults. Qed.
Print Assumptions C12_mpe_defaults.

(* is_one / is_zero are Python's tuple comparison: exact probability and extensionally empty set *)
Theorem C12_mpe_is_one_is_tuple_equality : forall p s,
  mpe_is_one Rops (St p s) = Ok (Reqb p 1 && zs_eqb s []) /\
  mpe_is_zero Rops (St p s) = Ok (Reqb p 0 && zs_eqb s []).
Proof. exact mpe_is_one_char. Qed.
Print Assumptions C12_mpe_is_one_is_tuple_equality.

(* SemiringMinPEState: plus picks the smallest NON-ZERO probability (first argument on a tie);
   everything else is inherited from SemiringMPEState *)
Theorem C12_minpe_plus : forall x s y t,
  minpe_plus Rops (St x s) (St y t) =
  Ok (if Reqb x 0 then St y t else if Reqb y 0 then St x s else if Rltb y x then St y t else St x s).
Proof. exact minpe_plus_char. Qed.
Print Assumptions C12_minpe_plus.

(* the translated definitions, at the exact-rational instance Qops, compute the hand model of
   SemiringMPEState used by the C20 theorems (C20/ModelMPE.v); encv maps a C20 value (Q, list of
   (negated?, atom)) to a translated state, atom keys non-zero (wf) *)
Theorem C12_mpe_translation_computes_C20_model :
  (mpe_zero ProofsMPEModel.Qops = Ok (ProofsMPEModel.encv ModelMPE.sr_zero) /\
   mpe_one ProofsMPEModel.Qops = Ok (ProofsMPEModel.encv ModelMPE.sr_one)) /\
  (forall a b, mpe_plus ProofsMPEModel.Qops (ProofsMPEModel.encv a) (ProofsMPEModel.encv b)
               = Ok (ProofsMPEModel.encv (ModelMPE.sr_plus a b))) /\
  (forall a b, ProofsMPEModel.wf a -> ProofsMPEModel.wf b ->
     mpe_times ProofsMPEModel.Qops (ProofsMPEModel.encv a) (ProofsMPEModel.encv b)
       = Ok (ProofsMPEModel.encv (ModelMPE.sr_times a b)) /\ ProofsMPEModel.wf (ModelMPE.sr_times a b)) /\
  (forall a b, ProofsMPEModel.wf a -> ProofsMPEModel.wf b -> ProofsMPEModel.wf (ModelMPE.sr_plus a b)) /\
  (forall (wpos : N -> QArith_base.Q) (x : N),
     mpe_pos_value ProofsMPEModel.Qops (FFin (N:=ProofsMPEModel.Qops) (wpos x)) (Z.of_N x)
       = Ok (ProofsMPEModel.encv (ModelMPE.pos_value wpos x)) /\
     mpe_neg_value ProofsMPEModel.Qops (FFin (N:=ProofsMPEModel.Qops) (wpos x)) (Z.of_N x)
       = Ok (ProofsMPEModel.encv (ModelMPE.neg_value (fun y => QArith_base.Qminus (QArith_base.Qmake 1 1) (wpos y)) x)) /\
     (x <> 0%N -> ProofsMPEModel.wf (ModelMPE.pos_value wpos x) /\
                  ProofsMPEModel.wf (ModelMPE.neg_value (fun y => QArith_base.Qminus (QArith_base.Qmake 1 1) (wpos y)) x))).
Proof.
  exact (conj ProofsMPEModel.mpe_consts_model (conj ProofsMPEModel.mpe_plus_model
        (conj ProofsMPEModel.mpe_times_model (conj ProofsMPEModel.mpe_plus_model_wf ProofsMPEModel.mpe_values_model)))).
Qed.
Print Assumptions C12_mpe_translation_computes_C20_model.

(* ---------------------------------------------------------------- non-vacuity *)
Example C12_mpe_example :
  mpe_plus Rops (St (1/2) [1%Z]) (St (1/2) [(-1)%Z]) = Ok (St (1/2) [1%Z]) /\
  mpe_plus Rops (St (1/4) [1%Z]) (St (1/2) [(-1)%Z]) = Ok (St (1/2) [(-1)%Z]) /\
  mpe_times Rops (St (1/2) [1%Z; 2%Z]) (St (1/2) [2%Z; (-3)%Z]) = Ok (St (1/2 * (1/2)) [1%Z; 2%Z; (-3)%Z]) /\
  ProofsMPEModel.wf (QArith_base.Qmake 1 1, [(true, 3%N); (false, 1%N)]).
Proof.
  repeat split.
  - apply mpe_plus_first_wins_on_tie.
  - apply mpe_plus_larger. lra.
  - repeat constructor; discriminate.
Qed.

Example C12_domains_inhabited :
  Dprob (RF (3/8)) /\ Dunit (RF (3/8)) /\ Dlog (llog (3/8)) /\ Dlog FNInf /\ proper (RF 1).
Proof.
  repeat split; try (eexists; split; [reflexivity|lra]); try lra.
  - apply Dlog_llog.
  - left; reflexivity.
  - discriminate.
Qed.

(* the hypotheses on atoms are satisfiable, and the strings are the ones the code builds *)
Example C12_symbolic_example :
  let atomic := fun s : string => s = "0" \/ s = "1" \/ s = "x" \/ s = "y" in
  let aval := fun s : string => if String.eqb s "1" then 1 else if String.eqb s "x" then 3/8 else if String.eqb s "y" then 1/4 else 0 in
  (forall s, atomic s -> (1 <= String.length s)%nat) /\ aval "0" = 0 /\ aval "1" = 1 /\ atomic "0" /\ atomic "1" /\
  den_prod atomic aval "x" (3/8) /\
  sym_plus Rops "x" "y" = Ok "(x + y)" /\ sym_times Rops "(x + y)" "x" = Ok "(x + y)*x" /\
  sym_normalize Rops "x" "(x + y)*x" = Ok "x / ((x + y)*x)" /\ sym_negate Rops "x" = Ok "(1-x)".
Proof.
  cbv zeta. repeat split; try reflexivity; auto.
  - intros s [ -> | [ -> | [ -> | -> ] ] ]; cbn; auto.
  - change (3/8) with ((fun s : string => if String.eqb s "1" then 1 else if String.eqb s "x" then 3/8 else if String.eqb s "y" then 1/4 else 0) "x") at 2.
    apply DP_atom, DA_atom. auto.
Qed.
