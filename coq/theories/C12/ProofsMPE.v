(* C12 — SemiringMPEState / SemiringMinPEState (problog/tasks/mpe.py), translated into
   GenSemirings.v as mpe_* / minpe_*: max-times semiring on the probability component,
   witness sets, inherited defaults.  Real instance (Rops). *)
From Coq Require Import Reals Lra ZArith Bool String List.
From PL.C12 Require Import ModelPy ModelPySet ModelR GenSemirings ProofsBase ProofsProb.
Import ListNotations.
Local Open Scope R_scope.

Definition rst : Type := (rfl * list Z)%type.
(* a state with a finite probability component *)
Definition St (p : R) (s : list Z) : rst := (RF p, s).
(* probability component of a result *)
Definition prob_part (r : res rst) : res rfl :=
  match r with Ok a => Ok (fst a) | Raise e => Raise e end.

(* ------------------------------------------------------------------ sets *)
Lemma zs_mem_In x s : zs_mem x s = true <-> In x s.
Proof.
  unfold zs_mem. rewrite existsb_exists. split.
  - intros (y & Hy & E). apply Z.eqb_eq in E. subst; auto.
  - intros H. exists x. split; auto. apply Z.eqb_refl.
Qed.

Lemma zs_union_In x a b : In x (zs_union a b) <-> In x a \/ In x b.
Proof.
  unfold zs_union. rewrite in_app_iff, filter_In. split.
  - intros [H | [H _]]; auto.
  - intros [H | H]; auto. destruct (zs_mem x a) eqn:E.
    + left. apply zs_mem_In; auto.
    + right. split; auto.
Qed.

Lemma zs_union_mem x a b : zs_mem x (zs_union a b) = zs_mem x a || zs_mem x b.
Proof.
  apply eq_true_iff_eq. rewrite orb_true_iff, !zs_mem_In. apply zs_union_In.
Qed.

Lemma zs_union_nil_l s : zs_union [] s = s.
Proof.
  unfold zs_union. cbn [app zs_mem existsb negb]. induction s as [|x t IH]; cbn; auto. f_equal; auto.
Qed.
Lemma zs_union_nil_r s : zs_union s [] = s.
Proof. unfold zs_union. cbn. apply app_nil_r. Qed.

Lemma zs_subset_spec a b : zs_subset a b = true <-> (forall x, In x a -> In x b).
Proof.
  unfold zs_subset. rewrite forallb_forall. split; intros H x Hx.
  - apply zs_mem_In; auto.
  - apply zs_mem_In; auto.
Qed.
Lemma zs_eqb_spec a b : zs_eqb a b = true <-> (forall x, In x a <-> In x b).
Proof.
  unfold zs_eqb. rewrite andb_true_iff, !zs_subset_spec. split.
  - intros [H1 H2] x; split; auto.
  - intros H; split; intros x; apply H.
Qed.
Lemma zs_eqb_refl a : zs_eqb a a = true.
Proof. apply zs_eqb_spec; tauto. Qed.

Lemma zs_union_comm a b : zs_eqb (zs_union a b) (zs_union b a) = true.
Proof. apply zs_eqb_spec. intros x. rewrite !zs_union_In. tauto. Qed.
Lemma zs_union_assoc a b c : zs_eqb (zs_union (zs_union a b) c) (zs_union a (zs_union b c)) = true.
Proof. apply zs_eqb_spec. intros x. rewrite !zs_union_In. tauto. Qed.

Lemma zs_nodup_spec s : zs_nodup s = true <-> NoDup s.
Proof.
  induction s as [|x t IH]; cbn [zs_nodup].
  - split; auto. constructor.
  - rewrite andb_true_iff, negb_true_iff, IH. split.
    + intros [H1 H2]. constructor; auto. intros Hin. apply zs_mem_In in Hin. congruence.
    + intros H. inversion H; subst. split; auto.
      destruct (zs_mem x t) eqn:E; auto. apply zs_mem_In in E. contradiction.
Qed.

Lemma NoDup_app_disj {A} (a l : list A) : NoDup a -> NoDup l -> (forall x, In x a -> In x l -> False) -> NoDup (a ++ l).
Proof.
  induction a as [|x t IH]; cbn; intros Ha Hl Hd; auto.
  inversion Ha; subst. constructor.
  - rewrite in_app_iff. intros [H | H]; auto. apply (Hd x); auto.
  - apply IH; auto. intros y Hy. apply Hd; auto.
Qed.

Lemma zs_union_NoDup a b : NoDup a -> NoDup b -> NoDup (zs_union a b).
Proof.
  intros Ha Hb. unfold zs_union. apply NoDup_app_disj; auto.
  - apply NoDup_filter; auto.
  - intros x Hx Hf. apply filter_In in Hf. destruct Hf as [_ Hf].
    apply negb_true_iff in Hf. apply zs_mem_In in Hx. congruence.
Qed.

(* ------------------------------------------------------------------ plus *)
Lemma lit_one : IZR 1 / IZR 1 = 1. Proof. cbv [IZR IPR]; field. Qed.
Lemma lit_zero : IZR 0 / IZR 1 = 0. Proof. cbv [IZR IPR]; field. Qed.

Lemma mpe_one_val : mpe_one Rops = Ok (St 1 []).
Proof. cbv [mpe_one ret zs_empty flit n_lit Rops St RF]. rewrite lit_one. reflexivity. Qed.
Lemma mpe_zero_val : mpe_zero Rops = Ok (St 0 []).
Proof. cbv [mpe_zero ret zs_empty flit n_lit Rops St RF]. rewrite lit_zero. reflexivity. Qed.

Ltac mpe_cbv := cbv [mpe_plus mpe_times mpe_one mpe_zero mpe_is_one mpe_is_zero mpe_normalize mpe_negate
                     mpe_value mpe_result mpe_pos_value mpe_neg_value mpe_result_zero mpe_result_one
                     mpe_is_dsp mpe_is_nsp mpe_in_domain mpe_true mpe_false mpe_ad_negate mpe_ad_complement
                     St prob_part fst snd st_eqb zs_empty zs_single].

(* plus returns the argument with the larger probability; on a tie the FIRST argument *)
Lemma mpe_plus_char x s y t :
  mpe_plus Rops (St x s) (St y t) = Ok (St (Rmax x y) (if Rltb x y then t else s)).
Proof.
  mpe_cbv. py_cbv. unfold Rmax. destruct (Rle_dec x y); rdec; try reflexivity.
  assert (x = y) by lra. subst. reflexivity.
Qed.

Lemma mpe_plus_first_wins_on_tie x s t : mpe_plus Rops (St x s) (St x t) = Ok (St x s).
Proof. rewrite mpe_plus_char. rewrite Rltb_false by lra. unfold Rmax. destruct (Rle_dec x x); reflexivity. Qed.

Lemma mpe_plus_larger x s y t :
  (y < x -> mpe_plus Rops (St x s) (St y t) = Ok (St x s)) /\
  (x < y -> mpe_plus Rops (St x s) (St y t) = Ok (St y t)).
Proof.
  split; intros H; rewrite mpe_plus_char; unfold Rmax; destruct (Rle_dec x y); try lra.
  - rewrite Rltb_false by lra. reflexivity.
  - rewrite Rltb_true by lra. reflexivity.
Qed.

Lemma mpe_plus_prob_comm x s y t :
  prob_part (mpe_plus Rops (St x s) (St y t)) = Ok (RF (Rmax x y)) /\
  prob_part (mpe_plus Rops (St y t) (St x s)) = Ok (RF (Rmax x y)).
Proof. rewrite !mpe_plus_char. cbn. rewrite (Rmax_comm y x). auto. Qed.

Lemma mpe_plus_idem a : mpe_plus Rops (St (fst a) (snd a)) (St (fst a) (snd a)) = Ok (St (fst a) (snd a)).
Proof. apply mpe_plus_first_wins_on_tie. Qed.

(* associativity holds exactly, witness included: the leftmost maximal argument wins *)
Lemma mpe_plus_assoc x s y t z u :
  (ab <- mpe_plus Rops (St x s) (St y t) ;; mpe_plus Rops ab (St z u)) =
  (bc <- mpe_plus Rops (St y t) (St z u) ;; mpe_plus Rops (St x s) bc).
Proof.
  rewrite !mpe_plus_char. cbv [bind]. fold (St (Rmax x y) (if Rltb x y then t else s)).
  fold (St (Rmax y z) (if Rltb y z then u else t)). rewrite !mpe_plus_char.
  rewrite Rmax_assoc. f_equal. f_equal.
  unfold Rmax. destruct (Rle_dec x y), (Rle_dec y z); rdec; try reflexivity;
    repeat (destruct (Rle_dec _ _)); rdec; try reflexivity; try (exfalso; lra).
Qed.

Lemma mpe_plus_assoc_prob x s y t z u :
  prob_part (ab <- mpe_plus Rops (St x s) (St y t) ;; mpe_plus Rops ab (St z u)) = Ok (RF (Rmax (Rmax x y) z)).
Proof.
  rewrite mpe_plus_char. cbv [bind]. fold (St (Rmax x y) (if Rltb x y then t else s)).
  rewrite mpe_plus_char. reflexivity.
Qed.

(* zero is neutral on non-negative weights; with weight exactly 0 the tie rule applies *)
Lemma mpe_plus_zero x s : 0 <= x ->
  (z <- mpe_zero Rops ;; mpe_plus Rops (St x s) z) = Ok (St x s) /\
  prob_part (z <- mpe_zero Rops ;; mpe_plus Rops z (St x s)) = Ok (RF x) /\
  (0 < x -> (z <- mpe_zero Rops ;; mpe_plus Rops z (St x s)) = Ok (St x s)).
Proof.
  intros Hx. rewrite mpe_zero_val. cbv [bind]. rewrite !mpe_plus_char.
  unfold Rmax. destruct (Rle_dec x 0), (Rle_dec 0 x); try lra.
  - assert (x = 0) by lra. subst. rewrite !Rltb_false by lra. repeat split; auto. intros; lra.
  - rewrite Rltb_false by lra. repeat split; auto. intros _. rewrite Rltb_true by lra. reflexivity.
Qed.

(* ------------------------------------------------------------------ times *)
Lemma mpe_times_char x s y t :
  mpe_times Rops (St x s) (St y t) = Ok (St (x * y) (zs_union s t)).
Proof. reflexivity. Qed.

Lemma mpe_times_prob_comm x s y t :
  prob_part (mpe_times Rops (St x s) (St y t)) = prob_part (mpe_times Rops (St y t) (St x s)) /\
  (exists w w', mpe_times Rops (St x s) (St y t) = Ok (St (x * y) w) /\
                mpe_times Rops (St y t) (St x s) = Ok (St (x * y) w') /\ zs_eqb w w' = true).
Proof.
  rewrite !mpe_times_char. cbn [prob_part fst St]. split.
  - rewrite Rmult_comm. reflexivity.
  - exists (zs_union s t), (zs_union t s). rewrite (Rmult_comm y x). repeat split; auto. apply zs_union_comm.
Qed.

Lemma mpe_times_assoc x s y t z u :
  exists w w',
  (ab <- mpe_times Rops (St x s) (St y t) ;; mpe_times Rops ab (St z u)) = Ok (St (x * y * z) w) /\
  (bc <- mpe_times Rops (St y t) (St z u) ;; mpe_times Rops (St x s) bc) = Ok (St (x * y * z) w') /\
  zs_eqb w w' = true.
Proof.
  exists (zs_union (zs_union s t) u), (zs_union s (zs_union t u)).
  rewrite !mpe_times_char. cbv [bind]. fold (St (x * y) (zs_union s t)). fold (St (y * z) (zs_union t u)).
  rewrite !mpe_times_char. rewrite (Rmult_assoc x y z). repeat split; auto. apply zs_union_assoc.
Qed.

(* one is neutral exactly (witness included), on both sides *)
Lemma mpe_times_one x s :
  (o <- mpe_one Rops ;; mpe_times Rops o (St x s)) = Ok (St x s) /\
  (o <- mpe_one Rops ;; mpe_times Rops (St x s) o) = Ok (St x s).
Proof.
  rewrite mpe_one_val. cbv [bind]. rewrite !mpe_times_char, zs_union_nil_l, zs_union_nil_r.
  rewrite Rmult_1_l, Rmult_1_r. auto.
Qed.

(* zero annihilates the probability; the witness of the other factor is kept *)
Lemma mpe_times_zero x s :
  (z <- mpe_zero Rops ;; mpe_times Rops z (St x s)) = Ok (St 0 s) /\
  (z <- mpe_zero Rops ;; mpe_times Rops (St x s) z) = Ok (St 0 s).
Proof.
  rewrite mpe_zero_val. cbv [bind]. rewrite !mpe_times_char, zs_union_nil_l, zs_union_nil_r.
  rewrite Rmult_0_l, Rmult_0_r. auto.
Qed.

(* ------------------------------------------------------------------ distributivity *)
Lemma Rmax_mult_l x y z : 0 <= x -> x * Rmax y z = Rmax (x * y) (x * z).
Proof. intros. symmetry. apply RmaxRmult; auto. Qed.

Lemma mpe_distr_prob x s y t z u : 0 <= x ->
  prob_part (bc <- mpe_plus Rops (St y t) (St z u) ;; mpe_times Rops (St x s) bc) = Ok (RF (x * Rmax y z)) /\
  prob_part (ab <- mpe_times Rops (St x s) (St y t) ;; ac <- mpe_times Rops (St x s) (St z u) ;; mpe_plus Rops ab ac)
     = Ok (RF (x * Rmax y z)).
Proof.
  intros Hx. rewrite mpe_plus_char, !mpe_times_char. cbv [bind].
  fold (St (Rmax y z) (if Rltb y z then u else t)). fold (St (x * y) (zs_union s t)). fold (St (x * z) (zs_union s u)).
  rewrite mpe_times_char, mpe_plus_char. cbn [prob_part fst St]. rewrite Rmax_mult_l; auto.
Qed.

(* for a strictly positive factor distributivity is exact, witness included *)
Lemma mpe_distr_exact x s y t z u : 0 < x ->
  (bc <- mpe_plus Rops (St y t) (St z u) ;; mpe_times Rops (St x s) bc) =
  (ab <- mpe_times Rops (St x s) (St y t) ;; ac <- mpe_times Rops (St x s) (St z u) ;; mpe_plus Rops ab ac).
Proof.
  intros Hx. rewrite mpe_plus_char, !mpe_times_char. cbv [bind].
  fold (St (Rmax y z) (if Rltb y z then u else t)). fold (St (x * y) (zs_union s t)). fold (St (x * z) (zs_union s u)).
  rewrite mpe_times_char, mpe_plus_char. rewrite Rmax_mult_l by lra. f_equal. f_equal.
  destruct (Rltb_spec y z) as [H | H].
  - rewrite Rltb_true; auto. apply Rmult_lt_compat_l; auto.
  - rewrite Rltb_false; auto. intros H'. apply H. apply Rmult_lt_reg_l with x; auto.
Qed.

(* ------------------------------------------------------------------ external values *)
Lemma mpe_pos_neg_value p k :
  mpe_pos_value Rops (RF p) k = Ok (St p [k]) /\
  mpe_neg_value Rops (RF p) k = Ok (St (1 - p) [(- k)%Z]).
Proof.
  cbv [mpe_pos_value mpe_neg_value py_float bind ret zs_single fl_sub flit n_lit n_sub Rops St RF].
  rewrite lit_one. auto.
Qed.

Lemma fl_sum_R ps acc : fold_left (fl_add Rops) (map RF ps) (RF acc) = RF (acc + Rsum ps).
Proof.
  revert acc. induction ps as [|p t IH]; intros acc; cbn [map fold_left Rsum].
  - replace (acc + 0) with acc by lra. reflexivity.
  - cbv [fl_add RF]. cbn [n_add Rops]. fold (RF (acc + p)). rewrite IH.
    replace (acc + p + Rsum t) with (acc + (p + Rsum t)) by lra. reflexivity.
Qed.

Lemma mpe_ad_complement_R (ws : list (R * list Z)) k :
  mpe_ad_complement Rops (map (fun a => St (fst a) (snd a)) ws) k = Ok (St (1 - Rsum (map fst ws)) [k]).
Proof.
  cbv [mpe_ad_complement bind ret zs_single]. rewrite map_map. cbn [fst St].
  unfold fl_sum. cbv [zero_n n_lit Rops]. rewrite lit_zero. fold (RF 0).
  rewrite <- (map_map fst RF). rewrite fl_sum_R.
  cbv [fl_sub flit n_lit n_sub Rops St RF]. rewrite lit_one.
  replace (0 + Rsum (map fst ws)) with (Rsum (map fst ws)) by lra. reflexivity.
Qed.

(* ------------------------------------------------------------------ defaults (inherited from Semiring) *)
Lemma st_eqb_refl p s : st_eqb Rops (St p s) (St p s) = true.
Proof. cbv [st_eqb St fst snd fl_eqb RF]. cbn [n_eqb Rops]. rewrite Reqb_true by reflexivity. apply zs_eqb_refl. Qed.

Lemma mpe_defaults :
  (o <- mpe_one Rops ;; mpe_is_one Rops o) = Ok true /\
  (z <- mpe_zero Rops ;; mpe_is_zero Rops z) = Ok true /\
  (o <- mpe_one Rops ;; mpe_is_zero Rops o) = Ok false /\
  (z <- mpe_zero Rops ;; mpe_is_one Rops z) = Ok false /\
  (forall a, (o <- mpe_one Rops ;; mpe_normalize Rops a o) = Ok a) /\
  (forall a z, mpe_normalize Rops a z = (b <- mpe_is_one Rops z ;; if b then Ok a else Raise OperationNotSupported)) /\
  (forall a, mpe_negate Rops a = Raise OperationNotSupported) /\
  (forall a, mpe_result Rops a = Ok a) /\ (forall v, mpe_value Rops v = Ok v) /\
  (forall a, mpe_in_domain Rops a = Ok true) /\
  mpe_is_nsp Rops = Ok true /\ mpe_is_dsp Rops = Ok false /\
  mpe_result_one Rops = Ok (St 1 []) /\ mpe_result_zero Rops = Ok (St 0 []) /\
  mpe_true Rops = Ok (St 1 [], St 0 []) /\ mpe_false Rops = Ok (St 0 [], St 1 []) /\
  (forall a b, mpe_ad_negate Rops a b = Ok (St 1 [])).
Proof.
  assert (E1 : (o <- mpe_one Rops ;; mpe_is_one Rops o) = Ok true).
  { unfold mpe_is_one. rewrite mpe_one_val. cbv [bind ret]. rewrite st_eqb_refl. reflexivity. }
  assert (N01 : Reqb 0 1 = false) by (apply Reqb_false; lra).
  assert (N10 : Reqb 1 0 = false) by (apply Reqb_false; lra).
  repeat split; try reflexivity; auto.
  - unfold mpe_is_zero. rewrite mpe_zero_val. cbv [bind ret]. rewrite st_eqb_refl. reflexivity.
  - unfold mpe_is_zero. rewrite mpe_one_val, mpe_zero_val. cbv [bind ret st_eqb St fst snd fl_eqb RF]. cbn [n_eqb Rops].
    rewrite N10. reflexivity.
  - unfold mpe_is_one. rewrite mpe_one_val, mpe_zero_val. cbv [bind ret st_eqb St fst snd fl_eqb RF]. cbn [n_eqb Rops].
    rewrite N01. reflexivity.
  - intros a. unfold mpe_normalize. rewrite mpe_one_val in *. cbv [bind] in *. rewrite E1. reflexivity.
  - unfold mpe_result_one. rewrite mpe_one_val. reflexivity.
  - unfold mpe_result_zero. rewrite mpe_zero_val. reflexivity.
  - unfold mpe_true. rewrite mpe_one_val, mpe_zero_val. reflexivity.
  - unfold mpe_false. rewrite mpe_one_val, mpe_zero_val. reflexivity.
  - intros a b. unfold mpe_ad_negate. apply mpe_one_val.
Qed.

(* is_one / is_zero are the tuple comparison: exact probability AND extensionally equal set *)
Lemma mpe_is_one_char p s :
  mpe_is_one Rops (St p s) = Ok (Reqb p 1 && zs_eqb s []) /\
  mpe_is_zero Rops (St p s) = Ok (Reqb p 0 && zs_eqb s []).
Proof.
  unfold mpe_is_one, mpe_is_zero. rewrite mpe_one_val, mpe_zero_val. split; reflexivity.
Qed.

(* ------------------------------------------------------------------ SemiringMinPEState.plus *)
(* smallest NON-ZERO probability; a zero argument loses; on a tie the first argument *)
Lemma minpe_plus_char x s y t :
  minpe_plus Rops (St x s) (St y t) =
  Ok (if Reqb x 0 then St y t else if Reqb y 0 then St x s else
      if Rltb y x then St y t else St x s).
Proof.
  cbv [minpe_plus St fst snd ret py_eqb fl_eqb RF flit fl_ltb]. cbn [n_lit n_eqb n_ltb Rops]. rewrite lit_zero.
  destruct (Reqb x 0); auto. destruct (Reqb y 0); auto. destruct (Rltb y x); auto.
  destruct (Rltb x y); auto.
Qed.

Lemma minpe_inherits :
  (forall a b, minpe_times Rops a b = mpe_times Rops a b) /\ minpe_one Rops = mpe_one Rops /\
  minpe_zero Rops = mpe_zero Rops /\ (forall p k, minpe_pos_value Rops p k = mpe_pos_value Rops p k) /\
  (forall p k, minpe_neg_value Rops p k = mpe_neg_value Rops p k).
Proof. repeat split; reflexivity. Qed.
