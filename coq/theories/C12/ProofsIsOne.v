(* C12 — is_one(one()) for classes that INHERIT Semiring.is_one.  Holds only when
   is_one calls self.one() (it compares with the bound method at the pinned
   commit; see Findings.v). *)
From Coq Require Import Reals Lra ZArith Bool String List.
From PL.C12 Require Import ModelPy ModelR GenSemirings ProofsBase ProofsDefaults.
Local Open Scope R_scope.

Lemma generic_is_one_one g1 g0 : proper g1 ->
  (o <- generic_one Rops g1 g0 ;; generic_is_one Rops g1 g0 o) = Ok true.
Proof. intros. cbv [generic_one generic_is_one ret bind py_eqb]. rewrite fl_eqb_refl; auto. Qed.

Lemma generic_normalize_one g1 g0 a : proper g1 ->
  (o <- generic_one Rops g1 g0 ;; generic_normalize Rops g1 g0 a o) = Ok a.
Proof.
  intros. pose proof (generic_is_one_one g1 g0 H) as E.
  cbv [generic_one ret bind] in *. rewrite generic_normalize_char. cbv [bind]. rewrite E. reflexivity.
Qed.

Lemma sym_is_one_one : (o <- sym_one Rops ;; sym_is_one Rops o) = Ok true.
Proof. reflexivity. Qed.
