(* C12 — is_one(one()) and normalize(a, one()) = a for classes that INHERIT
   Semiring.is_one (the synthetic subclass defining only one()/zero(), and
   SemiringSymbolic).  These obligations are refuted at the pinned commit
   (Findings.v: is_one compares with the bound method `self.one`); the check
   reports the concrete failing input instead of compiling this file then. *)
From Coq Require Import Reals ZArith Bool String List.
From PL.C12 Require Import ModelPy ModelR GenSemirings ProofsDefaults ProofsIsOne.

Theorem C12_defaults_is_one_inherited : forall g1 g0 a, proper g1 ->
  (o <- generic_one Rops g1 g0 ;; generic_is_one Rops g1 g0 o) = Ok true /\
  (o <- generic_one Rops g1 g0 ;; generic_normalize Rops g1 g0 a o) = Ok a.
Proof. exact (fun g1 g0 a H => conj (generic_is_one_one g1 g0 H) (generic_normalize_one g1 g0 a H)). Qed.
Print Assumptions C12_defaults_is_one_inherited.

Theorem C12_sym_is_one : (o <- sym_one Rops ;; sym_is_one Rops o) = Ok true.
Proof. exact sym_is_one_one. Qed.
Print Assumptions C12_sym_is_one.
