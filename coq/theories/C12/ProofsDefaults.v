(* C12 — base-class defaults, as inherited by (a) the synthetic subclass that only
   defines one()/zero() and (b) SemiringSymbolic.  Everything in this file holds
   for the code before and after the `is_one` repair. *)
From Coq Require Import Reals Lra ZArith Bool String List.
From PL.C12 Require Import ModelPy ModelR GenSemirings ProofsBase.
Local Open Scope R_scope.

(* a float that is equal to itself (everything but NaN) *)
Definition proper (x : rfl) : Prop := x <> FNaN.

Lemma fl_eqb_refl x : proper x -> fl_eqb Rops x x = true.
Proof. unfold proper; destruct x; cbn; intros H; auto; try (apply Reqb_true; reflexivity); try (exfalso; apply H; reflexivity). Qed.

Lemma generic_is_zero_zero g1 g0 : proper g0 ->
  (z <- generic_zero Rops g1 g0 ;; generic_is_zero Rops g1 g0 z) = Ok true.
Proof. intros. cbv [generic_zero generic_is_zero ret bind py_eqb]. rewrite fl_eqb_refl; auto. Qed.

(* normalize is exactly "a if is_one(z) else OperationNotSupported" *)
Lemma generic_normalize_char g1 g0 a z :
  generic_normalize Rops g1 g0 a z =
  (b <- generic_is_one Rops g1 g0 z ;; if b then Ok a else Raise OperationNotSupported).
Proof. reflexivity. Qed.

Lemma generic_negate_unsupported g1 g0 a : generic_negate Rops g1 g0 a = Raise OperationNotSupported.
Proof. reflexivity. Qed.

Lemma generic_plain_defaults g1 g0 a :
  generic_value Rops g1 g0 a = Ok a /\ generic_result Rops g1 g0 a = Ok a /\
  generic_in_domain Rops g1 g0 a = Ok true /\ generic_ad_negate Rops g1 g0 a a = Ok g1 /\
  generic_true Rops g1 g0 = Ok (g1, g0) /\ generic_false Rops g1 g0 = Ok (g0, g1) /\
  generic_result_one Rops g1 g0 = Ok g1 /\ generic_result_zero Rops g1 g0 = Ok g0 /\
  generic_pos_value Rops g1 g0 a = Ok a.
Proof. repeat split; reflexivity. Qed.

Lemma sym_is_zero_zero : (z <- sym_zero Rops ;; sym_is_zero Rops z) = Ok true.
Proof. reflexivity. Qed.

Lemma sym_normalize_one a : (o <- sym_one Rops ;; sym_normalize Rops a o) = Ok a.
Proof. reflexivity. Qed.
