(* C12 — base-class defaults, as inherited by (a) the synthetic subclass that only
   defines one()/zero() and (b) SemiringSymbolic. *)
From Coq Require Import Reals Lra ZArith Bool String List.
From PL.C12 Require Import ModelPy ModelR GenSemirings ProofsBase.
Local Open Scope R_scope.

(* a float that is equal to itself (everything but NaN) *)
Definition proper (x : rfl) : Prop := x <> FNaN.

Lemma fl_eqb_refl x : proper x -> fl_eqb Rops x x = true.
Proof. unfold proper; destruct x; cbn; intros H; auto; try (apply Reqb_true; reflexivity); try (exfalso; apply H; reflexivity). Qed.

Lemma generic_is_zero_zero g1 g0 : proper g0 ->
  (z <- generic_zero Rops g1 g0 ;; generic_is_zero Rops g1 g0 z) = Ok true.
Proof. intros. cbv [generic_zero generic_is_zero ret bind py_eqb]. rewrite fl_eqb_refl; auto. Qed.

(* normalize is exactly "a if is_one(z) else OperationNotSupported" *)
Lemma generic_normalize_char g1 g0 a z :
  generic_normalize Rops g1 g0 a z =
  (b <- generic_is_one Rops g1 g0 z ;; if b then Ok a else Raise OperationNotSupported).
Proof. reflexivity. Qed.

Lemma generic_negate_unsupported g1 g0 a : generic_negate Rops g1 g0 a = Raise OperationNotSupported.
Proof. reflexivity. Qed.

Lemma generic_plain_defaults g1 g0 a :
  generic_value Rops g1 g0 a = Ok a /\ generic_result Rops g1 g0 a = Ok a /\
  generic_in_domain Rops g1 g0 a = Ok true /\ generic_ad_negate Rops g1 g0 a a = Ok g1 /\
  generic_true Rops g1 g0 = Ok (g1, g0) /\ generic_false Rops g1 g0 = Ok (g0, g1) /\
  generic_result_one Rops g1 g0 = Ok g1 /\ generic_result_zero Rops g1 g0 = Ok g0 /\
  generic_pos_value Rops g1 g0 a = Ok a.
Proof. repeat split; reflexivity. Qed.

Lemma sym_is_zero_zero : (z <- sym_zero Rops ;; sym_is_zero Rops z) = Ok true.
Proof. reflexivity. Qed.

Lemma sym_normalize_one a : (o <- sym_one Rops ;; sym_normalize Rops a o) = Ok a.
Proof. reflexivity. Qed.

(* is_one(one()) and normalize(a, one()) = a for classes that INHERIT Semiring.is_one
   (false before the repair f43b2ec: is_one compared with the bound method `self.one`) *)
Lemma generic_is_one_one g1 g0 : proper g1 ->
  (o <- generic_one Rops g1 g0 ;; generic_is_one Rops g1 g0 o) = Ok true.
Proof. intros. cbv [generic_one generic_is_one ret bind py_eqb]. rewrite fl_eqb_refl; auto. Qed.

Lemma generic_normalize_one g1 g0 a : proper g1 ->
  (o <- generic_one Rops g1 g0 ;; generic_normalize Rops g1 g0 a o) = Ok a.
Proof.
  intros. pose proof (generic_is_one_one g1 g0 H) as E.
  cbv [generic_one ret bind] in *. rewrite generic_normalize_char. cbv [bind]. rewrite E. reflexivity.
Qed.

Lemma sym_is_one_one : (o <- sym_one Rops ;; sym_is_one Rops o) = Ok true.
Proof. reflexivity. Qed.
