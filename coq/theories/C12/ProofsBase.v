(* C12/C30 — reflection lemmas for the real instance and the evaluation tactic. *)
From Coq Require Import Reals Lra ZArith Bool String List.
From PL.C12 Require Import ModelPy ModelR.
Local Open Scope R_scope.

Lemma Rltb_spec a b : reflect (a < b) (Rltb a b).
Proof. unfold Rltb. destruct (Rlt_dec a b); constructor; assumption. Qed.
Lemma Rleb_spec a b : reflect (a <= b) (Rleb a b).
Proof. unfold Rleb. destruct (Rle_dec a b); constructor; assumption. Qed.
Lemma Reqb_spec a b : reflect (a = b) (Reqb a b).
Proof. unfold Reqb. destruct (Req_EM_T a b); constructor; assumption. Qed.

Lemma Rltb_true a b : a < b -> Rltb a b = true.
Proof. intros; destruct (Rltb_spec a b); auto; contradiction. Qed.
Lemma Rltb_false a b : ~ a < b -> Rltb a b = false.
Proof. intros; destruct (Rltb_spec a b); auto; contradiction. Qed.
Lemma Rleb_true a b : a <= b -> Rleb a b = true.
Proof. intros; destruct (Rleb_spec a b); auto; contradiction. Qed.
Lemma Rleb_false a b : ~ a <= b -> Rleb a b = false.
Proof. intros; destruct (Rleb_spec a b); auto; contradiction. Qed.
Lemma Reqb_true a b : a = b -> Reqb a b = true.
Proof. intros; destruct (Reqb_spec a b); auto; contradiction. Qed.
Lemma Reqb_false a b : a <> b -> Reqb a b = false.
Proof. intros; destruct (Reqb_spec a b); auto; contradiction. Qed.

(* unfold the run-time library (not IZR, not the deciders) *)
Ltac py_cbv :=
  cbv [ret bind fl_neg fl_add fl_sub fl_mul fl_div fl_ltb fl_leb fl_eqb py_log py_log1p py_exp
       py_float py_str py_eqb flit zero_n one_n inf_times n_lit n_add n_sub n_mul n_div n_opp n_ltb n_leb
       n_eqb n_ln n_exp Rops num RF fl_finite raises exn_eqb try_reraise].
Ltac py_cbv_in H :=
  cbv [ret bind fl_neg fl_add fl_sub fl_mul fl_div fl_ltb fl_leb fl_eqb py_log py_log1p py_exp
       py_float py_str py_eqb flit zero_n one_n inf_times n_lit n_add n_sub n_mul n_div n_opp n_ltb n_leb
       n_eqb n_ln n_exp Rops num RF fl_finite raises exn_eqb try_reraise] in H.

(* case-split every decider in the goal, closing impossible branches with lra *)
Ltac rdec1 :=
  match goal with
  | |- context [Rltb ?a ?b] => destruct (Rltb_spec a b)
  | |- context [Rleb ?a ?b] => destruct (Rleb_spec a b)
  | |- context [Reqb ?a ?b] => destruct (Reqb_spec a b)
  end.
Ltac rdec := repeat (rdec1; try (exfalso; lra)); cbv [andb orb negb].
