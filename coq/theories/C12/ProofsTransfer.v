(* C12 — a structure that is mapped injectively and homomorphically into the
   reals (with + and * ) is a commutative semiring on its domain. *)
From Coq Require Import Reals Lra.
From PL.C12 Require Import ModelPy SpecSemiring.
Local Open Scope R_scope.

Section Transfer.
Context {C : Type}.
Variable D : C -> Prop.
Variables plus times : C -> C -> res C.
Variables zero one : res C.
Variable h : C -> R.
Hypothesis h_inj : forall a b, D a -> D b -> h a = h b -> a = b.
Hypothesis Hplus : forall a b, D a -> D b -> exists c, plus a b = Ok c /\ D c /\ h c = h a + h b.
Hypothesis Htimes : forall a b, D a -> D b -> exists c, times a b = Ok c /\ D c /\ h c = h a * h b.
Hypothesis Hzero : exists z, zero = Ok z /\ D z /\ h z = 0.
Hypothesis Hone : exists o, one = Ok o /\ D o /\ h o = 1.

Ltac stepp a b := let c := fresh "c" in let E := fresh "E" in let Dc := fresh "Dc" in let Hc := fresh "Hc" in
  destruct (Hplus a b) as (c & E & Dc & Hc); [assumption | assumption | rewrite ?E; cbn [bind]].
Ltac stept a b := let c := fresh "c" in let E := fresh "E" in let Dc := fresh "Dc" in let Hc := fresh "Hc" in
  destruct (Htimes a b) as (c & E & Dc & Hc); [assumption | assumption | rewrite ?E; cbn [bind]].
Ltac fin := f_equal; apply h_inj; auto; lra || nra.

Theorem transfer : comm_semiring_on D plus times zero one.
Proof.
  destruct Hzero as (z & Ez & Dz & Hz). destruct Hone as (o & Eo & Do & Ho).
  constructor; unfold returns_in; intros; rewrite ?Ez, ?Eo; cbn [bind].
  - eauto.
  - eauto.
  - stepp a b. eauto.
  - stept a b. eauto.
  - stepp a b. stepp b a. fin.
  - stepp a b. stepp b c. stepp c0 c. stepp a c1. fin.
  - stepp z a. fin.
  - stept a b. stept b a. fin.
  - stept a b. stept b c. stept c0 c. stept a c1. fin.
  - stept o a. fin.
  - stept z a. fin.
  - stepp b c. stept a b. stept a c. cbn [bind]. stept a c0. stepp c1 c2. fin.
Qed.
End Transfer.
