(* C12 — refutation witnesses for the code AS IT IS at the pinned commit; outside
   the cone of every Props file.  When one of these stops compiling the defect is gone. *)
From Coq Require Import Reals ZArith Bool String List.
From PL.C12 Require Import ModelPy ModelR GenSemirings.

(* Semiring.is_one compares with the bound method `self.one`: never true *)
Theorem C12_is_one_inherited_refuted :
  (forall g1 g0 v, generic_is_one Rops g1 g0 v = Ok false) /\
  (exists g1 g0, (o <- generic_one Rops g1 g0 ;; generic_is_one Rops g1 g0 o) <> Ok true) /\
  (o <- sym_one Rops ;; sym_is_one Rops o) = Ok false /\
  (exists g1 g0 a, (o <- generic_one Rops g1 g0 ;; generic_normalize Rops g1 g0 a o) = Raise OperationNotSupported).
Proof.
  repeat split.
  - exists (RF 1), (RF 0). cbv. discriminate.
  - exists (RF 1), (RF 0), (RF 1). reflexivity.
Qed.
