(* C12 — SemiringLogProbability over the reals: it is the ln-image of the
   probability semiring. *)
From Coq Require Import Reals Lra ZArith Bool String List.
From PL.C12 Require Import ModelPy ModelR GenSemirings SpecSemiring ProofsBase ProofsTransfer ProofsProb.
Local Open Scope R_scope.

(* domain: -inf or a finite real (the logarithm of a non-negative weight) *)
Definition Dlog (x : rfl) : Prop := x = FNInf \/ exists r, x = RF r.
(* back to probability space *)
Definition lexp (x : rfl) : R := match x with FFin r => exp r | _ => 0 end.
(* into log space (for p >= 0) *)
Definition llog (p : R) : rfl := if Rlt_dec 0 p then RF (ln p) else FNInf.

Lemma lexp_llog p : 0 <= p -> lexp (llog p) = p.
Proof. intros. unfold llog. destruct (Rlt_dec 0 p); cbn. apply exp_ln; auto. lra. Qed.

Lemma Dlog_llog p : Dlog (llog p).
Proof. unfold llog, Dlog. destruct (Rlt_dec 0 p); eauto. Qed.

Lemma lexp_inj a b : Dlog a -> Dlog b -> lexp a = lexp b -> a = b.
Proof.
  intros [->|(x & ->)] [->|(y & ->)]; cbn; intros E; auto.
  - pose proof (exp_pos y); lra.
  - pose proof (exp_pos x); lra.
  - apply exp_inv in E. subst; auto.
Qed.

Lemma lexp_nonneg a : 0 <= lexp a.
Proof. destruct a; cbn; try lra. left; apply exp_pos. Qed.

Lemma llog_lexp a : Dlog a -> llog (lexp a) = a.
Proof. intros. apply lexp_inj; auto using Dlog_llog. apply lexp_llog, lexp_nonneg. Qed.

Lemma log_zero_R : log_zero Rops = Ok FNInf.
Proof. reflexivity. Qed.
Lemma log_one_R : log_one Rops = Ok (RF 0).
Proof. cbv [log_one]. py_cbv. do 2 f_equal. field. Qed.

Lemma log_plus_fin x y : log_plus Rops (RF x) (RF y) = Ok (RF (ln (exp x + exp y))).
Proof.
  cbv [log_plus]. py_cbv.
  pose proof (exp_pos (x - y)). pose proof (exp_pos (y - x)). pose proof (exp_pos x). pose proof (exp_pos y).
  destruct (Rltb_spec x y).
  - rewrite Rltb_true by lra. do 2 f_equal.
    replace (exp x + exp y) with (exp y * (1 / 1 + exp (x - y))).
    rewrite ln_mult by lra. rewrite ln_exp. reflexivity.
    unfold Rminus. rewrite exp_plus, exp_Ropp. field. lra.
  - rewrite Rltb_true by lra. do 2 f_equal.
    replace (exp x + exp y) with (exp x * (1 / 1 + exp (y - x))).
    rewrite ln_mult by lra. rewrite ln_exp. reflexivity.
    unfold Rminus. rewrite exp_plus, exp_Ropp. field. lra.
Qed.

Lemma log_plus_image a b : Dlog a -> Dlog b ->
  exists c, log_plus Rops a b = Ok c /\ Dlog c /\ lexp c = lexp a + lexp b.
Proof.
  intros [->|(x & ->)] [->|(y & ->)].
  - exists FNInf. cbn. repeat split; auto. left; auto. lra.
  - exists (RF y). cbn. repeat split; auto. right; eauto. lra.
  - exists (RF x). cbn. repeat split; auto. right; eauto. lra.
  - rewrite log_plus_fin. eexists; repeat split; eauto. right; eauto.
    cbn. rewrite exp_ln; auto. pose proof (exp_pos x). pose proof (exp_pos y). lra.
Qed.

Lemma log_times_image a b : Dlog a -> Dlog b ->
  exists c, log_times Rops a b = Ok c /\ Dlog c /\ lexp c = lexp a * lexp b.
Proof.
  intros [->|(x & ->)] [->|(y & ->)]; cbv [log_times]; py_cbv.
  - exists FNInf. repeat split; auto. left; auto. cbn; lra.
  - exists FNInf. repeat split; auto. left; auto. cbn; lra.
  - exists FNInf. repeat split; auto. left; auto. cbn; lra.
  - eexists; repeat split; eauto. right; eauto. cbn. apply exp_plus.
Qed.

Lemma log_semiring : comm_semiring_on Dlog (log_plus Rops) (log_times Rops) (log_zero Rops) (log_one Rops).
Proof.
  apply transfer with (h := lexp).
  - apply lexp_inj.
  - apply log_plus_image.
  - apply log_times_image.
  - exists FNInf. repeat split; auto. left; auto.
  - exists (RF 0). rewrite log_one_R. repeat split; auto. right; eauto. cbn. apply exp_0.
Qed.

(* ---- the logarithmic image, operation by operation (a, b are probabilities / weights) *)
Lemma log_image_plus a b : 0 <= a -> 0 <= b -> log_plus Rops (llog a) (llog b) = Ok (llog (a + b)).
Proof.
  intros. destruct (log_plus_image (llog a) (llog b)) as (c & E & Dc & Hc); auto using Dlog_llog.
  rewrite E. f_equal. rewrite !lexp_llog in Hc by auto. rewrite <- Hc. symmetry; apply llog_lexp; auto.
Qed.

Lemma log_image_times a b : 0 <= a -> 0 <= b -> log_times Rops (llog a) (llog b) = Ok (llog (a * b)).
Proof.
  intros. destruct (log_times_image (llog a) (llog b)) as (c & E & Dc & Hc); auto using Dlog_llog.
  rewrite E. f_equal. rewrite !lexp_llog in Hc by auto. rewrite <- Hc. symmetry; apply llog_lexp; auto.
Qed.

Lemma log_image_result a : 0 <= a -> log_result Rops (llog a) = Ok (RF a).
Proof.
  intros. unfold llog. destruct (Rlt_dec 0 a); cbv [log_result]; py_cbv.
  - rewrite exp_ln; auto.
  - do 2 f_equal. lra.
Qed.

Lemma log_image_normalize a z : 0 < a -> 0 < z -> log_normalize Rops (llog a) (llog z) = Ok (llog (a / z)).
Proof.
  intros. assert (0 < a / z) by (apply Rdiv_lt_0_compat; auto).
  unfold llog. destruct (Rlt_dec 0 a), (Rlt_dec 0 z), (Rlt_dec 0 (a / z)); try lra.
  cbv [log_normalize]. py_cbv. do 2 f_equal. unfold Rdiv.
  rewrite ln_mult; [rewrite ln_Rinv; [lra|auto] | auto | apply Rinv_0_lt_compat; auto].
Qed.

(* value: thresholds exactly as in the code *)
Lemma log_value_zero v : - (1/10^9) <= v < 1/10^9 -> log_value Rops (RF v) = Ok FNInf.
Proof.
  intros. cbv [log_value log_zero]. py_cbv.
  replace (IZR 1000000000) with (10^9) by (simpl; lra). replace (IZR (-1)) with (-1) by (simpl; lra).
  rdec; reflexivity.
Qed.
Lemma log_value_ln v : 1/10^9 <= v <= 1 + 1/10^9 -> log_value Rops (RF v) = Ok (RF (ln v)).
Proof.
  intros. cbv [log_value log_zero]. py_cbv.
  replace (IZR 1000000000) with (10^9) by (simpl; lra). replace (IZR (-1)) with (-1) by (simpl; lra).
  rdec; reflexivity.
Qed.
Lemma log_value_raises v : (v < - (1/10^9) \/ v > 1 + 1/10^9) <-> log_value Rops (RF v) = Raise InvalidValue.
Proof.
  cbv [log_value log_zero]. py_cbv.
  replace (IZR 1000000000) with (10^9) by (simpl; lra). replace (IZR (-1)) with (-1) by (simpl; lra).
  split.
  - intros. rdec; try reflexivity; lra.
  - rdec; intros; try discriminate; lra.
Qed.
Lemma log_value_nonfinite : log_value Rops FNaN = Raise InvalidValue /\
  log_value Rops FNInf = Raise InvalidValue /\ log_value Rops FPInf = Raise InvalidValue.
Proof. repeat split; reflexivity. Qed.

(* value agrees with the probability semiring's value up to the 1e-9 cut-off *)
Lemma log_value_image v : 1/10^9 <= v <= 1 + 1/10^9 ->
  exists p, prob_value Rops (RF v) = Ok (RF p) /\ log_value Rops (RF v) = Ok (llog p).
Proof.
  intros. exists v. rewrite prob_value_ok, log_value_ln by lra. split; auto.
  unfold llog. assert (0 < 1/10^9) by lra. destruct (Rlt_dec 0 v); auto; lra.
Qed.

(* negate *)
Lemma log_negate_ln x : x <= - (1/10^10) -> log_negate Rops (RF x) = Ok (RF (ln (1 - exp x))).
Proof.
  intros. cbv [log_negate log_in_domain log_zero]. py_cbv.
  replace (IZR 1000000000000) with (10^12) by (simpl; lra).
  replace (IZR 10000000000) with (10^10) by (simpl; lra). replace (IZR (-1)) with (-1) by (simpl; lra).
  assert (exp x < 1). { rewrite <- exp_0. apply exp_increasing. lra. }
  pose proof (exp_pos x).
  rewrite Rleb_true by lra. cbn [negb]. rewrite Rltb_false by lra. rewrite Rltb_true by lra.
  do 3 f_equal. lra.
Qed.
Lemma log_negate_cut x : - (1/10^10) < x <= 1/10^12 -> log_negate Rops (RF x) = Ok FNInf.
Proof.
  intros. cbv [log_negate log_in_domain log_zero]. py_cbv.
  replace (IZR 1000000000000) with (10^12) by (simpl; lra).
  replace (IZR 10000000000) with (10^10) by (simpl; lra). replace (IZR (-1)) with (-1) by (simpl; lra).
  rewrite Rleb_true by lra. cbn [negb]. rewrite Rltb_true by lra. reflexivity.
Qed.
Lemma log_negate_raises x : x > 1/10^12 <-> log_negate Rops (RF x) = Raise InvalidValue.
Proof.
  cbv [log_negate log_in_domain log_zero]. py_cbv.
  replace (IZR 1000000000000) with (10^12) by (simpl; lra).
  replace (IZR 10000000000) with (10^10) by (simpl; lra). replace (IZR (-1)) with (-1) by (simpl; lra).
  split.
  - intros. rewrite Rleb_false by lra. reflexivity.
  - destruct (Rleb_spec x (1/10^12)); cbn [negb]; intros E; try lra.
    destruct (Rltb_spec (-1 / 10^10) x); try discriminate.
    destruct (Rltb_spec (- (1/1)) (- exp x)); discriminate.
Qed.
Lemma log_negate_ninf : log_negate Rops FNInf = Ok (RF 0).
Proof.
  cbv [log_negate log_in_domain log_zero]. py_cbv. rewrite Rltb_true by lra. cbn [negb]. do 2 f_equal.
  replace (1 / 1 + - (0 / 1)) with 1 by lra. apply ln_1.
Qed.

(* the image statement for negate: exact below the cut, and within 1e-10 of the exact
   value (in probability space) inside the cut *)
Lemma log_image_negate a : 0 <= a <= 1 ->
  exists c, log_negate Rops (llog a) = Ok c /\ Dlog c /\
     (a <= exp (- (1/10^10)) -> c = llog (1 - a)) /\
     Rabs (lexp c - (1 - a)) < 1/10^10.
Proof.
  intros Ha. unfold llog at 1. destruct (Rlt_dec 0 a) as [Hp|Hz].
  - destruct (Rle_dec (ln a) (- (1/10^10))) as [Hl|Hl].
    + rewrite log_negate_ln by auto. rewrite exp_ln by auto.
      assert (a < 1). { rewrite <- (exp_ln a) by auto. rewrite <- exp_0. apply exp_increasing. lra. }
      eexists; repeat split; eauto. right; eauto.
      * intros _. unfold llog. destruct (Rlt_dec 0 (1 - a)); auto; lra.
      * cbn. rewrite exp_ln by lra. replace (1 - a - (1 - a)) with 0 by ring. rewrite Rabs_R0. lra.
    + assert (ln a <= 0). { rewrite <- ln_1. destruct (Req_dec a 1); [subst; lra|]. left. apply ln_increasing; lra. }
      rewrite log_negate_cut by lra. exists FNInf. repeat split; auto. left; auto.
      * intros Hle. exfalso. apply Hl. rewrite <- (ln_exp (- (1/10^10))).
        destruct Hle as [Hlt|Heq]. left; apply ln_increasing; auto. rewrite Heq; lra.
      * cbn. assert (exp (- (1/10^10)) < a).
        { rewrite <- (exp_ln a) by auto. apply exp_increasing. lra. }
        assert (1 - 1/10^10 <= exp (- (1/10^10))).
        { pose proof (exp_ineq1_le (- (1/10^10))). lra. }
        rewrite Rabs_left1 by lra. lra.
  - assert (a = 0) by lra. subst. rewrite log_negate_ninf. exists (RF 0). repeat split; auto. right; eauto.
    + intros _. unfold llog. destruct (Rlt_dec 0 (1 - 0)); try lra. f_equal. replace (1 - 0) with 1 by ring. symmetry; apply ln_1.
    + cbn. rewrite exp_0. replace (1 - (1 - 0)) with 0 by ring. rewrite Rabs_R0. lra.
Qed.

(* thresholds of is_one / is_zero / in_domain *)
Lemma log_is_one_R v : log_is_one Rops (RF v) = Ok true <-> - (1/10^12) < v < 1/10^12.
Proof.
  cbv [log_is_one]. py_cbv.
  replace (IZR 1000000000000) with (10^12) by (simpl; lra). replace (IZR (-1)) with (-1) by (simpl; lra).
  split.
  - rdec; intros H; try discriminate; lra.
  - intros H. rdec; reflexivity.
Qed.
Lemma log_is_zero_ninf : log_is_zero Rops FNInf = Ok true.
Proof. reflexivity. Qed.
Lemma log_is_zero_R v : log_is_zero Rops (RF v) = Ok true <-> v <= IZR (- 10 ^ 100).
Proof.
  cbv [log_is_zero]. py_cbv.
  match goal with |- context [Rleb v ?t] =>
    assert (Et : t = IZR (- 10 ^ 100)) by (unfold Rdiv; rewrite Rinv_1, Rmult_1_r; reflexivity);
    rewrite Et; clear Et end.
  destruct (Rleb_spec v (IZR (- 10 ^ 100))); split; intros; auto; try discriminate; contradiction.
Qed.

Lemma log_defaults :
  (o <- log_one Rops ;; log_is_one Rops o) = Ok true /\
  (z <- log_zero Rops ;; log_is_zero Rops z) = Ok true /\
  (forall a, Dlog a -> (o <- log_one Rops ;; log_normalize Rops a o) = Ok a).
Proof.
  rewrite log_one_R, log_zero_R. cbn [bind]. repeat split.
  - apply log_is_one_R. lra.
  - intros a [->|(x & ->)]; cbv [log_normalize]; py_cbv; auto. do 2 f_equal. lra.
Qed.

(* ad_complement *)
Lemma log_fold_plus : forall ps s, 0 <= s -> Forall (fun p => 0 <= p) ps ->
  fold_res (fun s w => log_plus Rops s w) (map llog ps) (llog s) = Ok (llog (s + Rsum ps)).
Proof.
  induction ps; intros s Hs Hps; cbn [map fold_res Rsum].
  - do 2 f_equal. ring.
  - inversion Hps; subst. rewrite log_image_plus by auto. cbn [bind]. rewrite IHps; auto. do 2 f_equal. ring. lra.
Qed.

Lemma Rsum_nonneg ps : Forall (fun p => 0 <= p) ps -> 0 <= Rsum ps.
Proof. induction 1; cbn; lra. Qed.

Lemma log_ad_complement_image ps : Forall (fun p => 0 <= p) ps -> Rsum ps <= 1 ->
  exists c, log_ad_complement Rops (map llog ps) = Ok c /\ Dlog c /\
     (Rsum ps <= exp (- (1/10^10)) -> c = llog (1 - Rsum ps)) /\
     Rabs (lexp c - (1 - Rsum ps)) < 1/10^10.
Proof.
  intros Hps Hs. cbv [log_ad_complement]. rewrite log_zero_R. cbn [bind].
  replace (FNInf (N:=Rops)) with (llog 0) by (unfold llog; destruct (Rlt_dec 0 0); auto; lra).
  rewrite log_fold_plus by (auto; lra). cbn [bind]. rewrite Rplus_0_l.
  apply log_image_negate. split; auto. apply Rsum_nonneg; auto.
Qed.
