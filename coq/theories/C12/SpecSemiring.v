(* C12 — what "commutative semiring on a domain" means for operations that may
   raise (definitions only, no proofs). *)
From PL.C12 Require Import ModelPy.

Section Laws.
Context {C : Type}.
Variable D : C -> Prop.                       (* the domain *)
Variables plus times : C -> C -> res C.
Variables zero one : res C.

(* m returns normally, with a value in the domain *)
Definition returns_in (m : res C) : Prop := exists c, m = Ok c /\ D c.

Record comm_semiring_on : Prop := {
  csr_zero_in : returns_in zero;
  csr_one_in : returns_in one;
  csr_plus_closed : forall a b, D a -> D b -> returns_in (plus a b);
  csr_times_closed : forall a b, D a -> D b -> returns_in (times a b);
  csr_plus_comm : forall a b, D a -> D b -> plus a b = plus b a;
  csr_plus_assoc : forall a b c, D a -> D b -> D c ->
      (t <- plus a b ;; plus t c) = (t <- plus b c ;; plus a t);
  csr_plus_zero : forall a, D a -> (z <- zero ;; plus z a) = Ok a;
  csr_times_comm : forall a b, D a -> D b -> times a b = times b a;
  csr_times_assoc : forall a b c, D a -> D b -> D c ->
      (t <- times a b ;; times t c) = (t <- times b c ;; times a t);
  csr_times_one : forall a, D a -> (o <- one ;; times o a) = Ok a;
  csr_times_zero : forall a, D a -> (z <- zero ;; times z a) = zero;
  csr_distr : forall a b c, D a -> D b -> D c ->
      (t <- plus b c ;; times a t) = (x <- times a b ;; y <- times a c ;; plus x y);
}.
End Laws.
