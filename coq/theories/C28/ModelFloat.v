(* C28 — executable model of the CPython float operations that problog.logic.Constant
   uses: a finite binary64 value is the dyadic rational m * 2^e in canonical form
   (m odd, or (0,0)); `round_nd nd x` is CPython's round(x, nd) for nd >= 0:
   correctly rounded (half-even on the exact value) decimal with nd fractional digits
   (_Py_dg_dtoa mode 3), converted back to the nearest binary64 (_Py_dg_strtod,
   round-half-even, gradual underflow).  No proofs in this file. *)
From Coq Require Import ZArith Bool.
Open Scope Z_scope.

Definition flt := (Z * Z)%type.

Definition flt_eqb (a b : flt) : bool := (fst a =? fst b) && (snd a =? snd b).

(* strip trailing zero bits of the mantissa; fuel = number of bits is enough *)
Fixpoint canon_pos (fuel : nat) (m : positive) (e : Z) : positive * Z :=
  match fuel, m with
  | S k, xO m' => canon_pos k m' (e + 1)
  | _, _ => (m, e)
  end.

Definition canon (m e : Z) : flt :=
  match m with
  | Z0 => (0, 0)
  | Zpos p => let '(p', e') := canon_pos (Pos.to_nat (Pos.size p)) p e in (Zpos p', e')
  | Zneg p => let '(p', e') := canon_pos (Pos.to_nat (Pos.size p)) p e in (Zneg p', e')
  end.

(* a / b rounded to the nearest integer, ties to even (b > 0) *)
Definition rhe (a b : Z) : Z :=
  let q := a / b in
  let r := a mod b in
  match (2 * r ?= b) with
  | Lt => q
  | Gt => q + 1
  | Eq => if Z.even q then q else q + 1
  end.

(* nearest binary64 to p / q  (q > 0); overflow cannot occur for the uses below
   (|result| <= |argument| + 1/2 ulp of a value that is itself a double) *)
Definition nearest (p q : Z) : flt :=
  if p =? 0 then (0, 0) else
  let a := Z.abs p in
  let e0 := Z.log2 a - Z.log2 q - 52 in
  (* a / (q 2^e0) lies in [2^51, 2^53) *)
  let below := if 0 <=? e0 + 52 then a <? q * 2 ^ (e0 + 52) else a * 2 ^ (- (e0 + 52)) <? q in
  let e1 := if below then e0 - 1 else e0 in
  let e := Z.max e1 (-1074) in
  let m := if 0 <=? e then rhe a (q * 2 ^ e) else rhe (a * 2 ^ (- e)) q in
  canon (Z.sgn p * m) e.

Definition round_nd (nd : Z) (x : flt) : flt :=
  let '(m, e) := x in
  let n := if 0 <=? e then m * 2 ^ e * 10 ^ nd else rhe (m * 10 ^ nd) (2 ^ (- e)) in
  nearest n (10 ^ nd).

(* int(x) for a finite float: truncation toward zero *)
Definition flt_trunc (x : flt) : Z :=
  let '(m, e) := x in if 0 <=? e then m * 2 ^ e else Z.quot m (2 ^ (- e)).

(* float(z) for a Python int (no overflow check: |z| < 2^1024 assumed by callers) *)
Definition flt_of_Z (z : Z) : flt := nearest z 1.

Definition flt_is_zero (x : flt) : bool := fst x =? 0.
