(* C28 — lemmas about the generated py2pl / pl2py (GenPyPl.v). *)
From Coq Require Import ZArith List Bool NArith Lia.
From PL.C28 Require Import ModelFloat ModelPyBase GenPyPl ModelWf.
Import ListNotations.
Open Scope Z_scope.

(* ------------------------------------------------------------------ induction on values *)
Section PyvalInd.
  Variable P : pyval -> Prop.
  Hypothesis HNone : P PNone.
  Hypothesis HInt : forall z, P (PInt z).
  Hypothesis HFlt : forall f, P (PFlt f).
  Hypothesis HStr : forall s, P (PStr s).
  Hypothesis HList : forall l, Forall P l -> P (PList l).
  Hypothesis HTuple : forall l, Forall P l -> P (PTuple l).
  Hypothesis HObj : forall k f a, P f -> Forall P a -> P (PObj k f a).

  Fixpoint pyval_rect' (v : pyval) : P v :=
    let fix go (l : list pyval) : Forall P l :=
        match l with
        | [] => Forall_nil P
        | x :: r => Forall_cons x (pyval_rect' x) (go r)
        end in
    match v with
    | PNone => HNone
    | PInt z => HInt z
    | PFlt f => HFlt f
    | PStr s => HStr s
    | PList l => HList l (go l)
    | PTuple l => HTuple l (go l)
    | PObj k f a => HObj k f a (pyval_rect' f) (go a)
    end.
End PyvalInd.

(* ------------------------------------------------------------------ primitives *)
Lemma seq_index_snoc : forall m a, seq_index (m ++ [a]) (-1) = Ok a.
Proof.
  intros m a. unfold seq_index. rewrite app_length. cbn [length].
  replace (-1 <? 0) with true by reflexivity.
  destruct ((-1 + Z.of_nat (length m + 1) <? 0) || (Z.of_nat (length m + 1) <=? -1 + Z.of_nat (length m + 1))) eqn:E.
  - exfalso. apply orb_true_iff in E. destruct E as [E | E]; [apply Z.ltb_lt in E | apply Z.leb_le in E]; lia.
  - replace (Z.to_nat (-1 + Z.of_nat (length m + 1))) with (length m + 0)%nat by lia.
    rewrite nth_error_app2 by lia. replace (length m + 0 - length m)%nat with 0%nat by lia. reflexivity.
Qed.

Lemma slice_to_snoc : forall (A : Type) (m : list A) a, slice_to (m ++ [a]) (-1) = m.
Proof.
  intros A m a. unfold slice_to. rewrite app_length. cbn [length].
  replace (-1 <? 0) with true by reflexivity.
  replace (Z.to_nat (Z.max 0 (-1 + Z.of_nat (length m + 1)))) with (length m + 0)%nat by lia.
  rewrite firstn_app_2. cbn. apply app_nil_r.
Qed.

Lemma seq_index_0 : forall a l, seq_index (a :: l) 0 = Ok a.
Proof.
  intros a l. unfold seq_index. cbn [length].
  replace (0 <? 0) with false by reflexivity.
  destruct ((0 <? 0) || (Z.of_nat (S (length l)) <=? 0)) eqn:E.
  - exfalso. apply orb_true_iff in E. destruct E as [E | E]; [apply Z.ltb_lt in E | apply Z.leb_le in E]; lia.
  - reflexivity.
Qed.

Lemma seq_index_1 : forall a b l, seq_index (a :: b :: l) 1 = Ok b.
Proof.
  intros a b l. unfold seq_index. cbn [length].
  replace (1 <? 0) with false by reflexivity.
  destruct ((1 <? 0) || (Z.of_nat (S (S (length l))) <=? 1)) eqn:E.
  - exfalso. apply orb_true_iff in E. destruct E as [E | E]; [apply Z.ltb_lt in E | apply Z.leb_le in E]; lia.
  - reflexivity.
Qed.

(* ------------------------------------------------------------------ loops *)
Lemma for_fold_gen :
  forall (g : pyval -> res pyval) (mk : pyval -> pyval -> pyval) (body : pyval -> pyval -> res pyval) xs tail,
    (forall st x, body st x = bind (g x) (fun y => Ok (mk y st))) ->
    Forall (fun x => g x = Ok (enc x)) xs ->
    for_ (rev xs) tail body = Ok (fold_right mk tail (map enc xs)).
Proof.
  intros g mk body xs. induction xs as [|x xs IH] using rev_ind; intros tail Hb Hg.
  - reflexivity.
  - rewrite rev_unit. cbn [for_]. apply Forall_app in Hg. destruct Hg as [Hxs Hx].
    inversion Hx as [|? ? Hx1 _]; subst. rewrite Hb, Hx1. cbn [bind].
    rewrite IH by assumption. rewrite map_app, fold_right_app. reflexivity.
Qed.

(* ------------------------------------------------------------------ py2pl = enc *)
Definition precision_ok : bool :=
  match FLOAT_PRECISION with PNone => true | PInt n => 0 <=? n | _ => false end.

Definition is_scalar (v : pyval) : bool :=
  match v with PInt _ | PFlt _ | PStr _ => true | _ => false end.

Lemma Constant_init_ok : forall n x, is_scalar x = true -> Constant_init (S n) x = Ok (constant_of x).
Proof.
  intros n x Hx. destruct x; try discriminate; reflexivity.
Qed.

(* values py2pl accepts: no None; every instance is a Term instance by construction *)
Fixpoint convertible (v : pyval) : bool :=
  match v with
  | PNone => false
  | PList l | PTuple l => forallb convertible l
  | _ => true
  end.

Lemma size_in : forall x l, In x l -> (size x <= fold_right (fun x acc => size x + acc) 0 l)%nat.
Proof.
  intros x l. induction l as [|y l IH]; intros H; [destruct H|].
  cbn [fold_right]. destruct H as [-> | H]; [lia | specialize (IH H); lia].
Qed.

Lemma comma_chain_snoc : forall ts t a,
  fold_right (consT text_comma) a (t :: ts) = comma_chain t (ts ++ [a]).
Proof.
  induction ts as [|u ts IH]; intros t a; [reflexivity|].
  cbn [fold_right app comma_chain]. f_equal. apply (IH u a).
Qed.

Local Opaque round_nd seq_index slice_to Constant_init.

Lemma nonempty_snoc : forall (A : Type) (m : list A) a,
  match m ++ [a] with [] => false | _ :: _ => true end = true.
Proof. intros A m a. destruct m; reflexivity. Qed.

Lemma size_snoc_elems : forall m a n,
  (S (fold_right (fun x acc => size x + acc) 0 (m ++ [a])) < S n)%nat ->
  (size a < n)%nat /\ Forall (fun x => size x < n)%nat m.
Proof.
  intros m a n H. split.
  - assert (In a (m ++ [a])) as Hin by (apply in_or_app; right; left; reflexivity).
    apply size_in in Hin. lia.
  - apply Forall_forall. intros x Hx.
    assert (In x (m ++ [a])) as Hin by (apply in_or_app; left; assumption).
    apply size_in in Hin. lia.
Qed.

Lemma py2pl_enc : forall v n, convertible v = true -> (size v < n)%nat -> py2pl n v = Ok (enc v).
Proof.
  induction v using pyval_rect'; intros n Hc Hn; try discriminate;
    (destruct n as [|n]; [lia|]).
  - destruct n as [|n]; [cbn in Hn; lia|]. cbn. rewrite Constant_init_ok by reflexivity. reflexivity.
  - destruct n as [|n]; [cbn in Hn; lia|]. cbn. rewrite Constant_init_ok by reflexivity. reflexivity.
  - destruct n as [|n]; [cbn in Hn; lia|]. cbn. rewrite Constant_init_ok by reflexivity. reflexivity.
  - (* list *)
    destruct l as [|x0 l0]; [reflexivity|].
    destruct (@exists_last _ (x0 :: l0)) as [m [a E]]; [discriminate|]. rewrite E in *. clear E x0 l0.
    cbn [size] in Hn. apply size_snoc_elems in Hn. destruct Hn as [Ha Hm].
    cbn [convertible] in Hc. rewrite forallb_app in Hc. apply andb_true_iff in Hc. destruct Hc as [Hcm Hca].
    cbn [forallb] in Hca. rewrite andb_true_r in Hca.
    apply Forall_app in H. destruct H as [IHm IHa]. inversion IHa as [|? ? IHa1 _]; subst.
    cbn -[py_index py_slice_to]. rewrite nonempty_snoc. cbn [negb py_index py_slice_to].
    rewrite seq_index_snoc, slice_to_snoc. cbn [bind py_reversed py_iter].
    rewrite (IHa1 n Hca Ha). cbn [bind].
    rewrite (for_fold_gen (py2pl n) (consT text_dot)).
    + cbn [bind]. unfold list_chain. rewrite map_app, fold_right_app. reflexivity.
    + intros st x. reflexivity.
    + rewrite Forall_forall in *. intros x Hx. apply IHm; auto.
      rewrite forallb_forall in Hcm. auto.
  - (* tuple *)
    destruct l as [|x0 l0]; [reflexivity|].
    destruct (@exists_last _ (x0 :: l0)) as [m [a E]]; [discriminate|]. rewrite E in *. clear E x0 l0.
    cbn [size] in Hn. apply size_snoc_elems in Hn. destruct Hn as [Ha Hm].
    cbn [convertible] in Hc. rewrite forallb_app in Hc. apply andb_true_iff in Hc. destruct Hc as [Hcm Hca].
    cbn [forallb] in Hca. rewrite andb_true_r in Hca.
    apply Forall_app in H. destruct H as [IHm IHa]. inversion IHa as [|? ? IHa1 _]; subst.
    cbn -[py_index py_slice_to]. rewrite nonempty_snoc. cbn [negb py_index py_slice_to].
    rewrite seq_index_snoc, slice_to_snoc. cbn [bind py_reversed py_iter].
    rewrite (IHa1 n Hca Ha). cbn [bind].
    rewrite (for_fold_gen (py2pl n) (consT text_comma)).
    + cbn [bind]. cbn [enc]. rewrite map_app. cbn [map].
      destruct (map enc m) as [|t ts]; [reflexivity|].
      rewrite comma_chain_snoc. reflexivity.
    + intros st x. reflexivity.
    + rewrite Forall_forall in *. intros x Hx. apply IHm; auto.
      rewrite forallb_forall in Hcm. auto.
  - (* instance *)
    reflexivity.
Qed.

(* ------------------------------------------------------------------ pl2py after enc *)
Lemma while_collect :
  forall sep (f : pyval -> res pyval) (cond : pyval * pyval -> res bool) (body : pyval * pyval -> res (pyval * pyval)) stop,
    (forall acc a b, cond (acc, consT sep a b) = Ok true) ->
    (forall acc a b, body (PList acc, consT sep a b) = bind (f a) (fun x => Ok (PList (acc ++ [x]), b))) ->
    (forall acc, cond (acc, stop) = Ok false) ->
    forall xs acc fuel,
      (length xs < fuel)%nat ->
      Forall (fun x => f (enc x) = Ok x) xs ->
      while_ fuel cond body (PList acc, fold_right (consT sep) stop (map enc xs)) = Ok (PList (acc ++ xs), stop).
Proof.
  intros sep f cond body stop Hc Hb Hs xs.
  induction xs as [|x xs IH]; intros acc fuel Hf Hx; (destruct fuel as [|fuel]; [cbn in Hf; lia|]).
  - cbn [map fold_right while_]. rewrite Hs, app_nil_r. reflexivity.
  - cbn [map fold_right while_]. rewrite Hc, Hb. inversion Hx as [|? ? Hx1 Hx2]; subst.
    rewrite Hx1. cbn [bind]. rewrite IH; [|cbn in Hf; lia|assumption].
    rewrite <- app_assoc. reflexivity.
Qed.

Lemma flt_eqb_eq : forall a b, flt_eqb a b = true -> a = b.
Proof.
  intros [a1 a2] [b1 b2] H. unfold flt_eqb in H. cbn in H. apply andb_true_iff in H.
  destruct H as [H1 H2]. apply Z.eqb_eq in H1. apply Z.eqb_eq in H2. subst. reflexivity.
Qed.

Lemma filter_quote_free : forall s c, (forall x, In x s -> N.eqb x c = false) ->
  filter (fun x => negb (N.eqb x c)) s = s.
Proof.
  induction s as [|y s IH]; intros c H; [reflexivity|].
  cbn [filter]. rewrite (H y) by (left; reflexivity). cbn [negb]. f_equal. apply IH.
  intros x Hx. apply H. right. assumption.
Qed.

Lemma strip_quotes_quote_free : forall s, quote_free s = true ->
  filter (fun x => negb (N.eqb x SQ)) (filter (fun x => negb (N.eqb x DQ)) (s ++ [DQ])) = s.
Proof.
  intros s H. unfold quote_free in H. rewrite forallb_forall in H.
  rewrite filter_app. cbn [filter]. replace (N.eqb DQ DQ) with true by reflexivity. cbn [negb].
  rewrite app_nil_r. rewrite (filter_quote_free s DQ).
  - apply filter_quote_free. intros x Hx. specialize (H x Hx). apply andb_true_iff in H.
    destruct H as [_ H]. apply negb_true_iff in H. exact H.
  - intros x Hx. specialize (H x Hx). apply andb_true_iff in H.
    destruct H as [H _]. apply negb_true_iff in H. exact H.
Qed.

Lemma size_pos : forall v, (1 <= size v)%nat.
Proof. destruct v; cbn; lia. Qed.

Lemma length_le_sum : forall l, (length l <= fold_right (fun x acc => size x + acc) 0 l)%nat.
Proof.
  induction l as [|x l IH]; [cbn; lia|]. cbn [length fold_right]. pose proof (size_pos x). lia.
Qed.

Lemma elems_dec : forall (l : list pyval) (n : nat) (g : pyval -> res pyval),
  Forall (fun v => forall n, wf v = true -> (size v < n)%nat -> g = g -> pl2py n (enc v) = Ok v) l ->
  forallb wf l = true ->
  (fold_right (fun x acc => size x + acc) 0 l < n)%nat ->
  Forall (fun x => pl2py n (enc x) = Ok x) l.
Proof.
  intros l n g H Hw Hn. rewrite Forall_forall in *. rewrite forallb_forall in Hw.
  intros x Hx. apply H; auto. pose proof (size_in x l Hx). lia.
Qed.

Lemma enc_tuple_snoc : forall x m a,
  enc (PTuple ((x :: m) ++ [a])) = fold_right (consT text_comma) (enc a) (map enc (x :: m)).
Proof.
  intros x m a. cbn [enc]. rewrite map_app. cbn [map app tuple_chain].
  rewrite <- comma_chain_snoc. reflexivity.
Qed.

Definition cons_test (sep : str) (t : pyval) : res bool :=
  (* `isinstance(tail, Term) and tail.arity == 2 and tail.functor == sep`, in the shape the
     translator emits for a short-circuit `and` *)
  match Ok (isinstance_cls KTerm t) with
  | Ok true =>
      match bind (get_arity t) (fun x => py_eq x (PInt 2)) with
      | Ok true => bind (get_functor t) (fun x => py_eq x (PStr sep))
      | Ok false => Ok false
      | Err e => Err e
      | OutOfFuel => OutOfFuel
      end
  | Ok false => Ok false
  | Err e => Err e
  | OutOfFuel => OutOfFuel
  end.

Lemma len2 : forall (A : Type) (l : list A), (Z.of_nat (length l) =? 2) = Nat.eqb (length l) 2.
Proof.
  intros A l. destruct (Nat.eqb_spec (length l) 2) as [E | E].
  - rewrite E. reflexivity.
  - apply Z.eqb_neq. lia.
Qed.

Lemma cons_test_opaque : forall s args sep,
  opaque_term KTerm (PStr s) args = true -> (sep = text_dot \/ sep = text_comma) ->
  cons_test sep (PObj KTerm (PStr s) args) = Ok false.
Proof.
  intros s args sep H Hsep. unfold opaque_term in H.
  apply andb_true_iff in H. destruct H as [_ H]. apply negb_true_iff in H.
  unfold cons_test. cbn -[str_eqb Z.eqb]. rewrite len2.
  destruct (Nat.eqb (length args) 2); [|reflexivity].
  rewrite andb_true_r in H. apply orb_false_iff in H. destruct H as [H1 H2].
  cbn -[str_eqb]. destruct Hsep as [-> | ->]; unfold text_dot, text_comma in *; [rewrite H1 | rewrite H2]; reflexivity.
Qed.

Lemma cons_test_enc_false : forall a, wf a = true -> is_nonempty_tuple a = false ->
  cons_test text_comma (enc a) = Ok false.
Proof.
  intros a Hw Ht. destruct a as [| z | f | s | l | l | k f args]; try discriminate; try reflexivity.
  - destruct l; reflexivity.
  - destruct l; [reflexivity | discriminate].
  - cbn [wf] in Hw. destruct k; try discriminate. destruct f; try discriminate.
    apply cons_test_opaque; auto.
Qed.

Lemma pl2py_dec : forall v n, wf v = true -> (size v < n)%nat -> pl2py n (enc v) = Ok v.
Proof.
  induction v using pyval_rect'; intros n Hw Hn; try discriminate;
    (destruct n as [|n]; [lia|]).
  - reflexivity.
  - cbn [wf] in Hw. unfold float_fixed in Hw. cbn in Hw. apply flt_eqb_eq in Hw.
    cbn. rewrite Hw. reflexivity.
  - cbn [wf] in Hw. cbn. fold DQ SQ. rewrite strip_quotes_quote_free by assumption. reflexivity.
  - (* list *)
    destruct l as [|x l]; [reflexivity|].
    cbn [enc map list_chain fold_right].
    cbn -[enc].
    change (consT text_dot (enc x) (fold_right (consT text_dot) nilT (map enc l)))
      with (fold_right (consT text_dot) nilT (map enc (x :: l))).
    erewrite (while_collect text_dot (pl2py n)) with (stop := nilT).
    + cbn. reflexivity.
    + intros acc a b. reflexivity.
    + intros acc a b. cbn. rewrite seq_index_0, seq_index_1. cbn. reflexivity.
    + intros acc. reflexivity.
    + cbn [size] in Hn. pose proof (length_le_sum (x :: l)). lia.
    + cbn [wf] in Hw. cbn [size] in Hn. apply (elems_dec _ _ (fun x => Ok x)); [|assumption|lia].
      eapply Forall_impl; [|exact H]. intros a Ha m Hwa Hsa _. apply Ha; assumption.
  - (* tuple *)
    destruct l as [|x0 l0]; [reflexivity|].
    destruct (@exists_last _ (x0 :: l0)) as [m [a E]]; [discriminate|]. rewrite E in *. clear E x0 l0.
    destruct m as [|x m]; [cbn in Hw; discriminate|].
    rewrite enc_tuple_snoc. cbn [map fold_right]. cbn -[enc].
    change (consT text_comma (enc x) (fold_right (consT text_comma) (enc a) (map enc m)))
      with (fold_right (consT text_comma) (enc a) (map enc (x :: m))).
    erewrite (while_collect text_comma (pl2py n)) with (stop := enc a).
    + cbn -[enc].
      cbn [wf] in Hw. apply andb_true_iff in Hw. destruct Hw as [Hw Hlast].
      apply andb_true_iff in Hw. destruct Hw as [_ Hw].
      change (x :: m ++ [a]) with ((x :: m) ++ [a]) in Hw. rewrite forallb_app in Hw.
      apply andb_true_iff in Hw. destruct Hw as [Hwm Hwa]. cbn [forallb] in Hwa. rewrite andb_true_r in Hwa.
      change (x :: m ++ [a]) with ((x :: m) ++ [a]) in H. apply Forall_app in H. destruct H as [IHm IHa].
      inversion IHa as [|? ? IHa1 _]; subst.
      cbn [size] in Hn. change (x :: m ++ [a]) with ((x :: m) ++ [a]) in Hn.
      apply size_snoc_elems in Hn. destruct Hn as [Ha Hm].
      rewrite (IHa1 n Hwa Ha). reflexivity.
    + intros acc a0 b. reflexivity.
    + intros acc a0 b. cbn. rewrite seq_index_0, seq_index_1. cbn. reflexivity.
    + intros acc. cbn [wf] in Hw. apply andb_true_iff in Hw. destruct Hw as [Hw Hlast].
      apply andb_true_iff in Hw. destruct Hw as [_ Hw].
      change (x :: m ++ [a]) with ((x :: m) ++ [a]) in *. rewrite forallb_app in Hw.
      apply andb_true_iff in Hw. destruct Hw as [Hwm Hwa]. cbn [forallb] in Hwa. rewrite andb_true_r in Hwa.
      rewrite last_last in Hlast. apply negb_true_iff in Hlast.
      apply (cons_test_enc_false a Hwa Hlast).
    + cbn [size] in Hn. change (x :: m ++ [a]) with ((x :: m) ++ [a]) in Hn.
      pose proof (length_le_sum ((x :: m) ++ [a])) as HL. rewrite app_length in HL. cbn [length] in HL. cbn [length]. lia.
    + cbn [wf] in Hw. apply andb_true_iff in Hw. destruct Hw as [Hw Hlast].
      apply andb_true_iff in Hw. destruct Hw as [_ Hw].
      change (x :: m ++ [a]) with ((x :: m) ++ [a]) in *. rewrite forallb_app in Hw.
      apply andb_true_iff in Hw. destruct Hw as [Hwm Hwa].
      apply Forall_app in H. destruct H as [IHm IHa].
      cbn [size] in Hn. apply size_snoc_elems in Hn. destruct Hn as [Ha Hm].
      rewrite Forall_forall in *. rewrite forallb_forall in Hwm. intros y Hy. apply IHm; auto.
  - (* instance *)
    cbn [wf] in Hw. destruct k; try discriminate. destruct v; try discriminate.
    cbn [enc].
    unfold opaque_term, text_nil, text_unit, text_dot, text_comma in Hw.
    apply andb_true_iff in Hw. destruct Hw as [Hw E3]. apply andb_true_iff in Hw. destruct Hw as [E1 E2].
    apply negb_true_iff in E1, E2, E3.
    cbn -[str_eqb Z.eqb]. rewrite E1, E2, !len2.
    destruct (str_eqb s [46%N]), (str_eqb s [44%N]), (Nat.eqb (length a) 2); try discriminate; reflexivity.
Qed.

(* ------------------------------------------------------------------ the round trip *)
Lemma wf_convertible : forall v, wf v = true -> convertible v = true.
Proof.
  induction v using pyval_rect'; intros Hw; try discriminate; try reflexivity.
  - cbn [wf convertible] in *. rewrite forallb_forall in *. rewrite Forall_forall in H. auto.
  - cbn [wf convertible] in *. apply andb_true_iff in Hw. destruct Hw as [Hw _].
    apply andb_true_iff in Hw. destruct Hw as [_ Hw].
    rewrite forallb_forall in *. rewrite Forall_forall in H. auto.
Qed.

Lemma roundtrip_wf : forall v n, wf v = true -> (fuel_for v <= n)%nat -> roundtrip n v = Ok v.
Proof.
  intros v n Hw Hn. unfold roundtrip, fuel_for in *.
  rewrite py2pl_enc; [|apply wf_convertible; assumption|lia].
  cbn [bind]. apply pl2py_dec; [assumption|lia].
Qed.

(* ------------------------------------------------------------------ the comparison used by the tie *)
Lemma str_eqb_eq : forall a b, str_eqb a b = true -> a = b.
Proof.
  induction a as [|x a IH]; destruct b as [|y b]; cbn; intros H; try discriminate; [reflexivity|].
  apply andb_true_iff in H. destruct H as [H1 H2]. apply N.eqb_eq in H1. subst. f_equal. auto.
Qed.

Lemma cls_eqb_eq : forall a b, cls_eqb a b = true -> a = b.
Proof. destruct a, b; cbn; intros; congruence. Qed.

Lemma list_eqb_eq : forall (l1 l2 : list pyval),
  Forall (fun x => forall y, pyval_eqb x y = true -> x = y) l1 ->
  list_eqb pyval_eqb l1 l2 = true -> l1 = l2.
Proof.
  induction l1 as [|x l1 IH]; destruct l2 as [|y l2]; cbn; intros HF H; try discriminate; [reflexivity|].
  apply andb_true_iff in H. destruct H as [H1 H2]. inversion HF as [|? ? Hx Hl]; subst.
  f_equal; auto.
Qed.

Lemma pyval_eqb_eq : forall a b, pyval_eqb a b = true -> a = b.
Proof.
  induction a using pyval_rect'; destruct b; cbn [pyval_eqb]; intros E; try discriminate.
  - reflexivity.
  - apply Z.eqb_eq in E. congruence.
  - apply flt_eqb_eq in E. congruence.
  - apply str_eqb_eq in E. congruence.
  - f_equal. apply list_eqb_eq; assumption.
  - f_equal. apply list_eqb_eq; assumption.
  - apply andb_true_iff in E. destruct E as [E E3]. apply andb_true_iff in E. destruct E as [E1 E2].
    apply cls_eqb_eq in E1. apply IHa in E2. apply list_eqb_eq in E3; [|assumption]. congruence.
Qed.

Lemma res_eqb_ok : forall r v, res_eqb r (Ok v) = true -> r = Ok v.
Proof.
  intros [x| |] v H; cbn in H; try discriminate. apply pyval_eqb_eq in H. congruence.
Qed.

(* ------------------------------------------------------------------ problog_export conversions *)
Lemma export_int : forall n z,
  convert_output (S (S n)) (PInt z) ts_int = Ok (PObj KConstant (PInt z) []).
Proof. intros. reflexivity. Qed.

Lemma export_float : forall n f,
  convert_output (S (S n)) (PFlt f) ts_float = Ok (constant_of (PFlt f)).
Proof. intros. reflexivity. Qed.

Lemma export_float_exact : forall n f, float_fixed f = true ->
  convert_output (S (S n)) (PFlt f) ts_float = Ok (PObj KConstant (PFlt f) []).
Proof.
  intros n f H. rewrite export_float. unfold float_fixed in H. cbn in H. apply flt_eqb_eq in H.
  cbn. rewrite H. reflexivity.
Qed.

Lemma export_str : forall n s,
  convert_output (S n) (PStr s) ts_str = Ok (PObj KTerm (PStr s) []).
Proof. intros. reflexivity. Qed.

Lemma export_term : forall n t, isinstance_cls KTerm t = true ->
  convert_output (S n) t ts_term = Ok t.
Proof. intros n t H. cbn. rewrite H. reflexivity. Qed.

Lemma export_list : forall l n, forallb convertible l = true -> (size (PList l) + 2 <= n)%nat ->
  convert_output n (PList l) ts_list = Ok (list_chain (map enc l)).
Proof.
  intros l n Hc Hn. destruct n as [|[|n]]; [cbn in Hn; lia | cbn in Hn; lia |].
  cbn -[py2pl]. rewrite <- (rev_involutive l) at 1.
  rewrite (for_fold_gen (py2pl n) (consT text_dot)).
  - cbn [bind]. rewrite rev_involutive. reflexivity.
  - intros st x. reflexivity.
  - rewrite rev_involutive. rewrite Forall_forall. rewrite forallb_forall in Hc. intros x Hx. apply py2pl_enc; auto.
    pose proof (size_in x l Hx). cbn [size] in Hn. lia.
Qed.

Lemma import_list : forall l n, forallb wf l = true -> (size (PList l) + 2 <= n)%nat ->
  convert_input n (list_chain (map enc l)) ts_list = Ok (PList l).
Proof.
  intros l n Hw Hn. destruct n as [|[|n]]; [cbn in Hn; lia | cbn in Hn; lia |].
  cbn -[pl2py enc]. unfold list_chain.
  erewrite (while_collect text_dot (pl2py n)) with (stop := nilT).
  - reflexivity.
  - intros acc a b. reflexivity.
  - intros acc a b. cbn. rewrite seq_index_0, seq_index_1. cbn. reflexivity.
  - intros acc. reflexivity.
  - cbn [size] in Hn. pose proof (length_le_sum l). lia.
  - rewrite Forall_forall. rewrite forallb_forall in Hw. intros x Hx. apply pl2py_dec; auto.
    pose proof (size_in x l Hx). cbn [size] in Hn. lia.
Qed.

Lemma import_scalars : forall n z f s,
  convert_input (S n) (PObj KConstant (PInt z) []) ts_int = Ok (PInt z) /\
  convert_input (S n) (PObj KConstant (PFlt f) []) ts_float = Ok (PFlt f) /\
  convert_input (S n) (PObj KTerm (PStr s) []) ts_term = Ok (PObj KTerm (PStr s) []).
Proof. intros. repeat split; reflexivity. Qed.
