(* C28 — Python and Prolog values convert losslessly.
   Statements only; every proof is `exact <lemma of ProofsPyPl>`.
   py2pl, pl2py, Constant_init, list2term, term2list, convert_input, convert_output are the
   GENERATED definitions of GenPyPl.v (translated from the current sources on every run);
   `roundtrip n v` is `bind (py2pl n v) (pl2py n)`; `n` is fuel and `fuel_for v = size v + 2`
   always suffices (OutOfFuel is a distinguished result, so no theorem below can hold
   because of fuel exhaustion). *)
From Coq Require Import ZArith List Bool NArith.
From PL.C28 Require Import ModelFloat ModelPyBase GenPyPl ModelWf ProofsPyPl.
Import ListNotations.
Open Scope Z_scope.

(* The round trip is the identity on every value satisfying the boolean guard `wf`
   (ModelWf.v): ints; floats that Constant's rounding fixes; strings without quote
   characters; lists of wf values; tuples of wf values of length <> 1 whose last
   element is not a non-empty tuple; opaque Term instances.  No bound on nesting,
   length or magnitude.
   The property text promises more (all strings, all floats, all nestings): the three
   excluded classes are refuted in Findings.v. *)
Theorem C28_roundtrip :
  forall v n, wf v = true -> (fuel_for v <= n)%nat -> roundtrip n v = Ok v.
Proof. exact roundtrip_wf. Qed.
Print Assumptions C28_roundtrip.

(* py2pl produces exactly the Prolog term `enc v` ([..] as '.'/2 chains ending in '[]',
   tuples as right-nested ','/2 ending in the last element, strings as double-quoted
   constants, numbers as constants) for every convertible value, wf or not *)
Theorem C28_py2pl_is_enc :
  forall v n, convertible v = true -> (size v < n)%nat -> py2pl n v = Ok (enc v).
Proof. exact py2pl_enc. Qed.
Print Assumptions C28_py2pl_is_enc.

Theorem C28_pl2py_inverts_enc :
  forall v n, wf v = true -> (size v < n)%nat -> pl2py n (enc v) = Ok v.
Proof. exact pl2py_dec. Qed.
Print Assumptions C28_pl2py_inverts_enc.

(* problog_export: what the engine receives for each output type specifier *)
Theorem C28_export_int :
  forall n z, convert_output (S (S n)) (PInt z) ts_int = Ok (PObj KConstant (PInt z) []).
Proof. exact export_int. Qed.
Print Assumptions C28_export_int.

Theorem C28_export_float :
  forall n f, float_fixed f = true ->
    convert_output (S (S n)) (PFlt f) ts_float = Ok (PObj KConstant (PFlt f) []).
Proof. exact export_float_exact. Qed.
Print Assumptions C28_export_float.

Theorem C28_export_str :
  forall n s, convert_output (S n) (PStr s) ts_str = Ok (PObj KTerm (PStr s) []).
Proof. exact export_str. Qed.
Print Assumptions C28_export_str.

Theorem C28_export_term :
  forall n t, isinstance_cls KTerm t = true -> convert_output (S n) t ts_term = Ok t.
Proof. exact export_term. Qed.
Print Assumptions C28_export_term.

Theorem C28_export_list :
  forall l n, forallb convertible l = true -> (size (PList l) + 2 <= n)%nat ->
    convert_output n (PList l) ts_list = Ok (list_chain (map enc l)).
Proof. exact export_list. Qed.
Print Assumptions C28_export_list.

(* ... and a list handed back to Python ('+list') is the original list *)
Theorem C28_export_import_list :
  forall l n, forallb wf l = true -> (size (PList l) + 2 <= n)%nat ->
    convert_input n (list_chain (map enc l)) ts_list = Ok (PList l).
Proof. exact import_list. Qed.
Print Assumptions C28_export_import_list.

(* the comparison the tie uses is sound *)
Theorem C28_eqb_sound : forall r v, res_eqb r (Ok v) = true -> r = Ok v.
Proof. exact res_eqb_ok. Qed.
Print Assumptions C28_eqb_sound.

(* non-vacuity: a nested value with every constructor satisfies the guard, and the
   generated functions compute the round trip on it *)
Definition example_value : pyval :=
  PList [PInt 1; PStr [97%N; 32%N; 98%N]; PTuple [PInt 4; PFlt (1, -1); PStr [99%N]];
         PFlt (7, 0); PList [PInt (-8); PTuple []]; PObj KTerm (PStr [104%N]) [PInt 3];
         PTuple [PTuple [PInt 1; PInt 2]; PList []]].
Example C28_guard_satisfiable : wf example_value = true /\ in_scope (PList [PInt 1; PTuple [PFlt (1, -1); PStr [99%N]]]) = true.
Proof. vm_compute. split; reflexivity. Qed.
Example C28_roundtrip_example : roundtrip (fuel_for example_value) example_value = Ok example_value.
Proof. vm_compute. reflexivity. Qed.
