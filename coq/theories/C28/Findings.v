(* C28 — refutation witnesses: values the property text covers ("nested lists and tuples
   of length other than one built from ints, floats and strings, including strings
   containing quotes") on which the GENERATED model of the current code does not round-trip.
   Outside the cone of Props.v: if one of these stops compiling the defect is gone. *)
From Coq Require Import ZArith List Bool NArith.
From PL.C28 Require Import ModelFloat ModelPyBase GenPyPl ModelWf.
Import ListNotations.
Open Scope Z_scope.

(* class pl2py-strips-quotes:  "a'b"  comes back as  "ab" *)
Theorem C28_roundtrip_refuted_quotes :
  exists v n, in_scope v = true /\ (fuel_for v <= n)%nat /\ exists w, roundtrip n v = Ok w /\ w <> v.
Proof.
  exists (PStr [97%N; 39%N; 98%N]), 5%nat. split; [reflexivity|]. split; [vm_compute; repeat constructor|].
  exists (PStr [97%N; 98%N]). split; [vm_compute; reflexivity | discriminate].
Qed.

(* class nested-last-tuple-flattens:  (1, (2, 3))  comes back as  (1, 2, 3) *)
Theorem C28_roundtrip_refuted_nested_tuple :
  exists v n, in_scope v = true /\ (fuel_for v <= n)%nat /\ exists w, roundtrip n v = Ok w /\ w <> v.
Proof.
  exists (PTuple [PInt 1; PTuple [PInt 2; PInt 3]]), 10%nat. split; [reflexivity|].
  split; [vm_compute; repeat constructor|].
  exists (PTuple [PInt 1; PInt 2; PInt 3]). split; [vm_compute; reflexivity | discriminate].
Qed.

(* class float-rounded-15-digits:  0.1 + 0.2 = 0.30000000000000004  comes back as  0.3 *)
Theorem C28_roundtrip_refuted_float :
  exists v n, in_scope v = true /\ (fuel_for v <= n)%nat /\ exists w, roundtrip n v = Ok w /\ w <> v.
Proof.
  exists (PFlt (1351079888211149, -52)), 5%nat. split; [reflexivity|]. split; [vm_compute; repeat constructor|].
  exists (PFlt (5404319552844595, -54)). split; [vm_compute; reflexivity | discriminate].
Qed.

(* the same rounding on the export side: a '-float' result 0.1+0.2 reaches the engine as 0.3 *)
Theorem C28_export_float_refuted :
  exists f n, convert_output (S (S n)) (PFlt f) ts_float <> Ok (PObj KConstant (PFlt f) []).
Proof.
  exists (1351079888211149, -52), 0%nat. vm_compute. discriminate.
Qed.
