(* C28 — the guard of the round-trip theorem (a boolean predicate) and the clean
   structural description `enc` of what py2pl produces.  Depends on the generated
   file only through FLOAT_PRECISION.  No proofs in this file. *)
From Coq Require Import ZArith List Bool NArith.
From PL.C28 Require Import ModelFloat ModelPyBase GenPyPl.
Import ListNotations.
Open Scope Z_scope.

Definition DQ : N := 34%N.   (* double quote *)
Definition SQ : N := 39%N.   (* single quote *)

Definition quote_free (s : str) : bool := forallb (fun c => negb (N.eqb c DQ) && negb (N.eqb c SQ)) s.

(* Constant.__init__ leaves the float unchanged *)
Definition float_fixed (f : flt) : bool :=
  match FLOAT_PRECISION with
  | PNone => true
  | PInt n => (0 <=? n) && flt_eqb (round_nd n f) f
  | _ => false
  end.

Definition is_nonempty_tuple (v : pyval) : bool :=
  match v with PTuple (_ :: _) => true | _ => false end.

Definition text_dot : str := [46%N].
Definition text_comma : str := [44%N].
Definition text_nil : str := [91%N; 93%N].
Definition text_unit : str := [40%N; 41%N].

(* a Term instance that pl2py hands back unchanged *)
Definition opaque_term (k : cls) (f : pyval) (args : list pyval) : bool :=
  match k, f with
  | KTerm, PStr s =>
      negb (str_eqb s text_nil) && negb (str_eqb s text_unit)
      && negb ((str_eqb s text_dot || str_eqb s text_comma) && (Nat.eqb (length args) 2))
  | _, _ => false
  end.

(* The values for which the round trip is the identity:
   ints; floats that Constant's rounding leaves alone; strings without quote
   characters; lists; tuples of length <> 1 whose last element is not a non-empty
   tuple; opaque Term instances. *)
Fixpoint wf (v : pyval) : bool :=
  match v with
  | PNone => false
  | PInt _ => true
  | PFlt f => float_fixed f
  | PStr s => quote_free s
  | PList l => forallb wf l
  | PTuple l => negb (Nat.eqb (length l) 1) && forallb wf l && negb (is_nonempty_tuple (last l PNone))
  | PObj k f args => opaque_term k f args
  end.

(* the values the property text speaks about ("nested lists and tuples of length other
   than one built from ints, floats and strings"), with no further restriction *)
Fixpoint in_scope (v : pyval) : bool :=
  match v with
  | PInt _ | PFlt _ | PStr _ => true
  | PList l => forallb in_scope l
  | PTuple l => negb (Nat.eqb (length l) 1) && forallb in_scope l
  | _ => false
  end.

Definition nilT : pyval := PObj KTerm (PStr text_nil) [].
Definition unitT : pyval := PObj KTerm (PStr text_unit) [].
Definition consT (f : str) (a b : pyval) : pyval := PObj KTerm (PStr f) [a; b].

(* what Constant(x) builds *)
Definition constant_of (x : pyval) : pyval :=
  match x, FLOAT_PRECISION with
  | PFlt f, PInt n => PObj KConstant (PFlt (round_nd n f)) []
  | _, _ => PObj KConstant x []
  end.

(* [t1,...,tn] and (t1,...,tn) as Prolog terms *)
Definition list_chain (ts : list pyval) : pyval := fold_right (consT text_dot) nilT ts.
Fixpoint comma_chain (t : pyval) (ts : list pyval) : pyval :=
  match ts with [] => t | u :: r => consT text_comma t (comma_chain u r) end.
Definition tuple_chain (ts : list pyval) : pyval :=
  match ts with [] => unitT | t :: r => comma_chain t r end.

Fixpoint enc (v : pyval) : pyval :=
  match v with
  | PInt z => constant_of (PInt z)
  | PFlt f => constant_of (PFlt f)
  | PStr s => constant_of (PStr (DQ :: s ++ [DQ]))
  | PList l => list_chain (map enc l)
  | PTuple l => tuple_chain (map enc l)
  | other => other
  end.

Fixpoint size (v : pyval) : nat :=
  match v with
  | PList l | PTuple l => S (fold_right (fun x acc => size x + acc)%nat O l)
  | _ => 1%nat
  end.

(* enough fuel for both directions on v *)
Definition fuel_for (v : pyval) : nat := (size v + 2)%nat.

(* the composite the property speaks about *)
Definition roundtrip (fuel : nat) (v : pyval) : res pyval := bind (py2pl fuel v) (pl2py fuel).

(* type specifiers of problog_export *)
Definition ts_str : pyval := PStr [115%N; 116%N; 114%N].
Definition ts_int : pyval := PStr [105%N; 110%N; 116%N].
Definition ts_float : pyval := PStr [102%N; 108%N; 111%N; 97%N; 116%N].
Definition ts_list : pyval := PStr [108%N; 105%N; 115%N; 116%N].
Definition ts_term : pyval := PStr [116%N; 101%N; 114%N; 109%N].
