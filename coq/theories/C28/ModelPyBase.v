(* C28 — the fragment of Python's value universe and builtin operations that
   problog/pypl.py, problog/extern.py (the _convert_input and _convert_output methods of problog_export), logic.Constant,
   logic.list2term and logic.term2list use.  The translator gen/c28_pypl.py maps every
   Python expression form of those functions to one operation of this file
   (fail-closed: an unknown form is an error of the translator, an operation applied
   outside the modelled domain is `Err Unsupported`, never a default value).
   No proofs in this file. *)
From Coq Require Import ZArith List Bool NArith.
From Coq Require DecimalString String Ascii.
From PL.C28 Require Import ModelFloat.
Import ListNotations.
Open Scope Z_scope.

Definition str := list N.   (* code points *)

(* classes of problog.logic that occur: Term and its subclasses *)
Inductive cls := KTerm | KConstant | KVar | KObject.

Definition cls_eqb (a b : cls) : bool :=
  match a, b with
  | KTerm, KTerm | KConstant, KConstant | KVar, KVar | KObject, KObject => true
  | _, _ => false
  end.

(* issubclass k k' *)
Definition subclass (k k' : cls) : bool :=
  match k' with KTerm => true | _ => cls_eqb k k' end.

(* One universe of Python values: None, int, float, str, list, tuple and instances
   of Term/Constant/Var/Object (functor, args).  A "Prolog term" is a value built
   from PObj and PInt (engine variables). *)
Inductive pyval :=
| PNone
| PInt (z : Z)
| PFlt (f : flt)
| PStr (s : str)
| PList (l : list pyval)
| PTuple (l : list pyval)
| PObj (k : cls) (functor : pyval) (args : list pyval).

Inductive exn := ValueError | IndexError | AttributeError | TypeError | Unsupported.

Inductive res (A : Type) :=
| Ok (a : A)
| Err (e : exn)
| OutOfFuel.
Arguments Ok {A} a.
Arguments Err {A} e.
Arguments OutOfFuel {A}.

Definition bind {A B} (r : res A) (k : A -> res B) : res B :=
  match r with Ok a => k a | Err e => Err e | OutOfFuel => OutOfFuel end.

(* short-circuit `and` / `or` / `not` on conditions that may raise *)
Definition rand (a b : res bool) : res bool :=
  match a with Ok true => b | other => other end.
Definition ror (a b : res bool) : res bool :=
  match a with Ok false => b | other => other end.
Definition rnot (a : res bool) : res bool :=
  match a with Ok b => Ok (negb b) | Err e => Err e | OutOfFuel => OutOfFuel end.
Definition rif {A} (c : res bool) (t e : res A) : res A :=
  match c with Ok true => t | Ok false => e | Err x => Err x | OutOfFuel => OutOfFuel end.

(* ---------------------------------------------------------------- equality *)
Fixpoint str_eqb (a b : str) : bool :=
  match a, b with
  | [], [] => true
  | x :: a', y :: b' => N.eqb x y && str_eqb a' b'
  | _, _ => false
  end.

Definition list_eqb {A : Type} (f : A -> A -> bool) : list A -> list A -> bool :=
  fix go (l1 l2 : list A) {struct l1} : bool :=
    match l1, l2 with
    | [], [] => true
    | x :: l1', y :: l2' => f x y && go l1' l2'
    | _, _ => false
    end.

Fixpoint pyval_eqb (a b : pyval) {struct a} : bool :=
  match a, b with
  | PNone, PNone => true
  | PInt x, PInt y => x =? y
  | PFlt x, PFlt y => flt_eqb x y
  | PStr x, PStr y => str_eqb x y
  | PList x, PList y => list_eqb pyval_eqb x y
  | PTuple x, PTuple y => list_eqb pyval_eqb x y
  | PObj k f x, PObj k' f' y => cls_eqb k k' && pyval_eqb f f' && list_eqb pyval_eqb x y
  | _, _ => false
  end.

Definition res_eqb (a b : res pyval) : bool :=
  match a, b with
  | Ok x, Ok y => pyval_eqb x y
  | Err _, Err _ => true           (* exception class is compared by the harness *)
  | OutOfFuel, OutOfFuel => true
  | _, _ => false
  end.

(* ---------------------------------------------------------------- type tests *)
Inductive pytype := TyList | TyTuple | TyStr | TyInt | TyFloat.

(* type(d) == T *)
Definition type_is (t : pytype) (d : pyval) : bool :=
  match t, d with
  | TyList, PList _ | TyTuple, PTuple _ | TyStr, PStr _ | TyInt, PInt _ | TyFloat, PFlt _ => true
  | _, _ => false
  end.

(* isinstance(d, K) for K one of Term / Constant / Var / Object *)
Definition isinstance_cls (k : cls) (d : pyval) : bool :=
  match d with PObj k' _ _ => subclass k' k | _ => false end.

(* isinstance(d, int)   (bool is not in the universe) *)
Definition isinstance_int (d : pyval) : bool :=
  match d with PInt _ => true | _ => false end.

Definition is_none (d : pyval) : bool := match d with PNone => true | _ => false end.

(* bool(d): Term defines neither __bool__ nor __len__, so instances are true *)
Definition truthy (d : pyval) : bool :=
  match d with
  | PNone => false
  | PInt z => negb (z =? 0)
  | PFlt f => negb (flt_is_zero f)
  | PStr s => match s with [] => false | _ => true end
  | PList l | PTuple l => match l with [] => false | _ => true end
  | PObj _ _ _ => true
  end.

(* ---------------------------------------------------------------- sequences *)
Definition seq_index (l : list pyval) (i : Z) : res pyval :=
  let n := Z.of_nat (length l) in
  let j := if i <? 0 then i + n else i in
  if (j <? 0) || (n <=? j) then Err IndexError
  else match nth_error l (Z.to_nat j) with Some x => Ok x | None => Err IndexError end.

(* d[i] *)
Definition py_index (d : pyval) (i : Z) : res pyval :=
  match d with
  | PList l | PTuple l => seq_index l i
  | PStr s => match seq_index (map (fun c => PStr [c]) s) i with r => r end
  | _ => Err TypeError
  end.

(* d[:hi] *)
Definition slice_to {A} (l : list A) (hi : Z) : list A :=
  let n := Z.of_nat (length l) in
  let h := if hi <? 0 then Z.max 0 (hi + n) else Z.min hi n in
  firstn (Z.to_nat h) l.

Definition py_slice_to (d : pyval) (hi : Z) : res pyval :=
  match d with
  | PList l => Ok (PList (slice_to l hi))
  | PTuple l => Ok (PTuple (slice_to l hi))
  | PStr s => Ok (PStr (slice_to s hi))
  | _ => Err TypeError
  end.

(* reversed(d): the iterator is modelled by the list of values it yields *)
Definition py_reversed (d : pyval) : res pyval :=
  match d with
  | PList l | PTuple l => Ok (PList (rev l))
  | _ => Err TypeError
  end.

(* the values `for x in d` ranges over *)
Definition py_iter (d : pyval) : res (list pyval) :=
  match d with
  | PList l | PTuple l => Ok l
  | _ => Err TypeError
  end.

(* tuple(d) *)
Definition py_tuple (d : pyval) : res pyval :=
  match d with
  | PList l | PTuple l => Ok (PTuple l)
  | _ => Err TypeError
  end.

(* l.append(x) as a rebinding of l (the translator checks l is a fresh local list
   that is never aliased) *)
Definition py_append (l x : pyval) : res pyval :=
  match l with
  | PList xs => Ok (PList (xs ++ [x]))
  | _ => Err AttributeError
  end.

(* ---------------------------------------------------------------- loops *)
(* for x in xs: st = body st x *)
Fixpoint for_ {S} (xs : list pyval) (st : S) (body : S -> pyval -> res S) : res S :=
  match xs with
  | [] => Ok st
  | x :: xs' => bind (body st x) (fun st' => for_ xs' st' body)
  end.

(* while cond st: st = body st *)
Fixpoint while_ {S} (fuel : nat) (cond : S -> res bool) (body : S -> res S) (st : S) : res S :=
  match fuel with
  | O => OutOfFuel
  | S fuel' =>
      match cond st with
      | Ok true => bind (body st) (while_ fuel' cond body)
      | Ok false => Ok st
      | Err e => Err e
      | OutOfFuel => OutOfFuel
      end
  end.

(* ---------------------------------------------------------------- objects *)
(* K(functor, *args) for K = Term / Var / Object (Constant has its own __init__,
   translated from the source) *)
Definition new_obj (k : cls) (args : list pyval) : res pyval :=
  match args with
  | f :: rest => Ok (PObj k f rest)
  | [] => Err TypeError
  end.

Definition get_functor (d : pyval) : res pyval :=
  match d with PObj _ f _ => Ok f | _ => Err AttributeError end.
Definition get_args (d : pyval) : res pyval :=
  match d with PObj _ _ a => Ok (PTuple a) | _ => Err AttributeError end.
Definition get_arity (d : pyval) : res pyval :=
  match d with PObj _ _ a => Ok (PInt (Z.of_nat (length a))) | _ => Err AttributeError end.
(* d.value: Constant.compute_value returns the functor; for other terms it evaluates
   an arithmetic function, which is outside this model *)
Definition get_value (d : pyval) : res pyval :=
  match d with
  | PObj KConstant f _ => Ok f
  | PObj _ _ _ => Err Unsupported
  | _ => Err AttributeError
  end.

(* logic.is_variable: `term is None or type(term) == int or term.is_var()` *)
Definition is_variable (d : pyval) : res bool :=
  match d with
  | PNone | PInt _ => Ok true
  | PObj KVar _ _ => Ok true
  | PObj _ _ _ => Ok false
  | _ => Err AttributeError
  end.

(* ---------------------------------------------------------------- strings *)
Definition str_of_string (s : String.string) : str :=
  map (fun a => Ascii.N_of_ascii a) (String.list_ascii_of_string s).

Definition str_of_Z (z : Z) : str := str_of_string (DecimalString.NilZero.string_of_int (Z.to_int z)).

(* str(d), only where it is cheap to say what Python prints *)
Definition py_str_opt (d : pyval) : option str :=
  match d with
  | PStr s => Some s
  | PInt z => Some (str_of_Z z)
  | PList [] => Some [91%N; 93%N]
  | PTuple [] => Some [40%N; 41%N]
  | PObj KObject _ _ => None
  | PObj _ (PStr f) [] => Some f
  | PObj _ (PInt z) [] => Some (str_of_Z z)
  | _ => None
  end.

Definition py_str (d : pyval) : res pyval :=
  match py_str_opt d with Some s => Ok (PStr s) | None => Err Unsupported end.

(* does str(d) equal the given text?  Decidable for every value of the universe when
   the text is "[]" or "()" (no compound term, number or non-empty sequence prints
   like that), which is the only use in the translated sources. *)
Definition is_atomic_text (s : str) : bool :=
  str_eqb s [91%N; 93%N] || str_eqb s [40%N; 41%N].

Definition py_str_equals (d : pyval) (s : str) : res bool :=
  match py_str_opt d with
  | Some x => Ok (str_eqb x s)
  | None =>
      if is_atomic_text s then
        match d with
        | PObj KObject _ _ => Err Unsupported
        | PObj _ (PStr _) (_ :: _) | PObj _ (PInt _) _ | PObj _ (PFlt _) _
        | PFlt _ | PList (_ :: _) | PTuple (_ :: _) => Ok false
        | _ => Err Unsupported
        end
      else Err Unsupported
  end.

(* s.replace(a, "") for a one-character a *)
Definition py_replace (s a b : pyval) : res pyval :=
  match s, a, b with
  | PStr s, PStr [c], PStr [] => Ok (PStr (filter (fun x => negb (N.eqb x c)) s))
  | PStr _, PStr _, PStr _ => Err Unsupported
  | _, _, _ => Err AttributeError
  end.

Fixpoint lstrip (c : N) (s : str) : str :=
  match s with
  | x :: s' => if N.eqb x c then lstrip c s' else s
  | [] => []
  end.

(* s.strip(a) for a one-character a *)
Definition py_strip (s a : pyval) : res pyval :=
  match s, a with
  | PStr s, PStr [c] => Ok (PStr (rev (lstrip c (rev (lstrip c s)))))
  | PStr _, PStr _ => Err Unsupported
  | _, _ => Err AttributeError
  end.

(* tmpl.format(d) for a template with exactly one "{}" and a str argument *)
Fixpoint split_braces (t : str) : option (str * str) :=
  match t with
  | 123%N :: 125%N :: rest => Some ([], rest)
  | c :: rest => match split_braces rest with Some (a, b) => Some (c :: a, b) | None => None end
  | [] => None
  end.

Definition has_brace (s : str) : bool := existsb (fun c => N.eqb c 123 || N.eqb c 125) s.

Definition py_format1 (tmpl d : pyval) : res pyval :=
  match tmpl, d with
  | PStr t, PStr s =>
      match split_braces t with
      | Some (a, b) => if has_brace a || has_brace b then Err Unsupported else Ok (PStr (a ++ s ++ b))
      | None => Err Unsupported
      end
  | _, _ => Err Unsupported
  end.

(* ---------------------------------------------------------------- numbers *)
(* round(x, nd) *)
Definition py_round (x nd : pyval) : res pyval :=
  match x, nd with
  | PFlt f, PInt n => if n <? 0 then Err Unsupported else Ok (PFlt (round_nd n f))
  | _, _ => Err Unsupported
  end.

(* int(a): Term.__int__ is int(self.value) *)
Definition py_int (a : pyval) : res pyval :=
  match a with
  | PInt z => Ok (PInt z)
  | PFlt f => Ok (PInt (flt_trunc f))
  | PObj KConstant (PInt z) _ => Ok (PInt z)
  | PObj KConstant (PFlt f) _ => Ok (PInt (flt_trunc f))
  | _ => Err Unsupported
  end.

Definition two1024 : Z := 2 ^ 1024.

(* float(a): Term.__float__ is float(self.value) *)
Definition py_float (a : pyval) : res pyval :=
  let of_int z := if (Z.abs z <? 2 ^ 1000) then Ok (PFlt (flt_of_Z z)) else Err Unsupported in
  match a with
  | PInt z => of_int z
  | PFlt f => Ok (PFlt f)
  | PObj KConstant (PInt z) _ => of_int z
  | PObj KConstant (PFlt f) _ => Ok (PFlt f)
  | _ => Err Unsupported
  end.

(* logic.term2str on an engine variable (an int) *)
Definition py_term2str (d : pyval) : res pyval :=
  match d with
  | PNone => Ok (PStr [95%N])
  | PInt z => if 0 <=? z then Ok (PStr (65%N :: str_of_Z (z + 1))) else Ok (PStr (88%N :: str_of_Z (- z)))
  | _ => Err Unsupported
  end.

(* ---------------------------------------------------------------- == *)
(* a == b.  int/float mixed comparisons are outside the model.  For instances:
   Constant.__eq__ and Var.__eq__ compare the printed forms (and win over
   Term.__eq__ as reflected methods of a subclass); Term.__eq__ is structural and
   False against a non-Term; Object.__eq__ is identity (outside the model). *)
Definition is_obj (d : pyval) : bool := match d with PObj _ _ _ => true | _ => false end.
Definition obj_cls (d : pyval) : option cls := match d with PObj k _ _ => Some k | _ => None end.
Definition prints_cls (k : option cls) : bool :=
  match k with Some KConstant | Some KVar => true | _ => false end.
Definition is_object_cls (k : option cls) : bool :=
  match k with Some KObject => true | _ => false end.

Definition py_eq (a b : pyval) : res bool :=
  if is_object_cls (obj_cls a) || is_object_cls (obj_cls b) then Err Unsupported
  else if prints_cls (obj_cls a) || prints_cls (obj_cls b) then
    match py_str_opt a, py_str_opt b with
    | Some x, Some y => Ok (str_eqb x y)
    | _, _ => Err Unsupported
    end
  else match a, b with
  | PInt _, PFlt _ | PFlt _, PInt _ => Err Unsupported
  | _, _ => Ok (pyval_eqb a b)
  end.

Definition py_ne (a b : pyval) : res bool := rnot (py_eq a b).
