(* C26/ModelSubquery.v — hand model of engine_builtin._builtin_subquery on top of the
   Coq-defined distribution semantics (PL.Sem).  Executable definitions only; no proofs here.

   What the code does (engine_builtin.py:1779):
       eng    = engine.__class__()
       target = eng.ground(database, term, label="query")            # database = the CALLER's ClauseDB
       for ev in term2list(evidence):
           target = eng.ground(database, ev, target=target, label=LABEL_EVIDENCE_POS)
       results = kc.create_from(target).evaluate(semiring=semiring)
       return [(t, Constant(p)) for t, p in results.items()]
   * `eng.ground(db, term)` grounds ONE goal on the clause database; it does not go through
     `ground_all`, hence the `query/1` and `evidence/1,2` statements of the program are not consulted.
   * an element `\+a` of the evidence list is stored under the name `-a` with the negated node and
     label "evidence positive", i.e. it is negative evidence on `a`.
   * `results` has one entry per answer instance of the goal (an instance without a proof is either
     not listed, or listed with probability 0.0: both are the observation "probability 0").
   * an evidence list of weight 0 makes `evaluate` raise InconsistentEvidenceError: the builtin,
     and with it the whole outer inference, fails with that error.

   Model: the nested value of an instance g of the goal is `prob_gen` of the semantics on the
   ground clauses of the caller's program with the evidence list as the ONLY evidence. *)
From Coq Require Import NArith QArith List Bool.
From PL.Sem Require Import Program Sem.
Import ListNotations.

(* the clause database the nested call grounds on *)
Definition db (P : program) : list (clause gatom) := g_clauses (ground P).

(* the value computed by the nested ground + evaluate for one ground instance of the goal *)
Definition nested (P : program) (ev : list (gatom * bool)) (g : gatom) : result :=
  prob_gen gatom gatom_eqb (db P) ev g.

(* the ground instances of the goal over the constants of the caller's program *)
Definition instances (P : program) (G : atom) : list gatom :=
  g_queries (ground_stmt (domain P) (SQuery G)).

(* the evidence list argument: ground literals  [a, \+b, ...] *)
Definition ev_lit (l : lit atom) : gatom * bool :=
  match l with Pos a => (inst_atom [] a, true) | Neg a => (inst_atom [] a, false) end.
Definition ev_of (l : list (lit atom)) : list (gatom * bool) := map ev_lit l.

Inductive outcome := Answers (l : list (gatom * Q)) | Failed (r : result).

Definition positive (p : Q) : bool := negb (Qle_bool p 0).

(* one (instance, probability) pair per instance with non-zero probability;
   any error of the nested evaluation is the error of the call *)
Fixpoint collect (P : program) (ev : list (gatom * bool)) (gs : list gatom) : outcome :=
  match gs with
  | [] => Answers []
  | g :: gs' =>
      match nested P ev g with
      | Ok p =>
          match collect P ev gs' with
          | Answers l => Answers (if positive p then (g, p) :: l else l)
          | Failed r => Failed r
          end
      | r => Failed r
      end
  end.

(* subquery(G, P) = subquery_m DB G [] ; subquery(G, P, Ev) = subquery_m DB G Ev *)
Definition subquery_m (P : program) (G : atom) (ev : list (lit atom)) : outcome :=
  collect P (ev_of ev) (instances P G).

(* ---------------------------------------------------------------- the wrapper seen from the outer inference
   w(Args, Pr) :- subquery(g(Args), Pr).   The builtin is deterministic: every answer (g', p) of the
   nested call contributes the ground FACT w(args', p) to the outer ground program.  Outer atoms are
   the atoms of the program (inl) or wrapper answers (inr). *)
Definition oatom : Type := (gatom + (gatom * Q))%type.
Definition q_eqb (p q : Q) : bool := Z.eqb (Qnum p) (Qnum q) && Pos.eqb (Qden p) (Qden q).
Definition oatom_eqb (a b : oatom) : bool :=
  match a, b with
  | inl x, inl y => gatom_eqb x y
  | inr (x, p), inr (y, q) => gatom_eqb x y && q_eqb p q
  | _, _ => false
  end.
Definition outer_db (P : program) (ans : list (gatom * Q)) : list (clause oatom) :=
  map (clause_map (fun a => inl a : oatom)) (db P) ++ map (fun a => Rule (inr a : oatom) []) ans.
Definition outer_ev (oev : list (gatom * bool)) : list (oatom * bool) :=
  map (fun e => (inl (fst e) : oatom, snd e)) oev.
(* probability the outer (top-level) inference reports for an outer atom, under the outer evidence oev *)
Definition outer_prob (P : program) (ans : list (gatom * Q)) (oev : list (gatom * bool)) (q : oatom) : result :=
  prob_gen oatom oatom_eqb (outer_db P ans) (outer_ev oev) q.

(* the answers of  query(w(Args,Pr))  in the program extended with the wrapper *)
Definition wrapper_m (P : program) (G : atom) (ev : list (lit atom)) (oev : list (gatom * bool))
  : option (list ((gatom * Q) * result)) :=
  match subquery_m P G ev with
  | Answers l => Some (map (fun a => (a, outer_prob P l oev (inr a))) l)
  | Failed _ => None
  end.

(* ---------------------------------------------------------------- comparison helpers for the tie *)
Definition close (tol p q : Q) : bool := Qle_bool (p - q) tol && Qle_bool (q - p) tol.
(* observed answers of the engine (exact value of the float), error class as a result *)
Definition agree (tol : Q) (m : outcome) (obs : option (list (gatom * Q))) : bool :=
  match m, obs with
  | Answers l, Some o =>
      forallb (fun a => existsb (fun b => gatom_eqb (fst a) (fst b) && close tol (snd a) (snd b)) o) l &&
      forallb (fun b => Qle_bool (snd b) tol && Qle_bool (- tol) (snd b)
                        || existsb (fun a => gatom_eqb (fst a) (fst b) && close tol (snd a) (snd b)) l) o
  | Failed Inconsistent, None => true
  | _, _ => false
  end.
