(* C26/ProofsWrapperNeutral.v — adding deterministic facts over FRESH atoms (the wrapper answers
   w(G',p) of subquery_m) does not change the probability of any ordinary atom.

   Generic part: an injective atom embedding f : A -> B, a list `facts` of B-atoms outside the image
   of f.  The program  map (clause_map f) cs ++ [b. | b in facts]  evaluated on f q under the
   embedded evidence gives exactly prob_gen cs ev q (same value, same error).
   Route: (1) the well-founded model computed by wfm_iter is the least fixpoint of gamma o gamma
   (independent of the fuel), (2) derivability in the embedded world = derivability in the original
   world on image atoms, every fact derivable, nothing else, (3) hence the two well-founded models
   correspond, the four world sums of prob_gen coincide. *)
From Coq Require Import NArith ZArith QArith List Bool Permutation Lia.
From PL.Sem Require Import Program Sem SemBasics PermProofs StratProofs FuelProofs.
From PL.C26 Require Import ModelSubquery ProofsSubquery.
Import ListNotations.

(* ------------------------------------------------------------------ wfm = least fixpoint of gamma o gamma *)
Section LFP.
Variable A : Type.
Variable eqb : A -> A -> bool.
Hypothesis eqb_spec : forall x y, eqb x y = true <-> x = y.
Notation nrule := (nrule A).

Lemma wfm_iter_fix (R : list nrule) U : forall fuel T0 T Uk,
  (forall Uk0 T1, gamma A eqb R U T0 = Some Uk0 -> gamma A eqb R U Uk0 = Some T1 -> incl T0 T1) ->
  wfm_iter A eqb fuel R U T0 = Some (T, Uk) ->
  gamma A eqb R U T = Some Uk /\ exists T1, gamma A eqb R U Uk = Some T1 /\ incl T1 T /\ incl T T1.
Proof.
  induction fuel as [|fuel IH]; intros T0 T Uk Hinv H; simpl in H; [discriminate|].
  destruct (gamma A eqb R U T0) as [Uk0|] eqn:E1; [|discriminate].
  destruct (gamma A eqb R U Uk0) as [T1|] eqn:E2; [|discriminate].
  destruct (subset A eqb T1 T0) eqn:E3.
  - inversion H; subst. split; [exact E1|]. exists T1. split; [exact E2|]. split.
    + apply (subset_spec A eqb eqb_spec). exact E3.
    + exact (Hinv Uk T1 eq_refl E2).
  - apply (IH T1 T Uk); [|exact H]. intros Uk' T'' E1' E2'.
    pose proof (Hinv Uk0 T1 eq_refl E2) as HTT'.
    pose proof (gamma_antimono A eqb eqb_spec R U T0 T1 Uk0 Uk' E1 E1' HTT') as HU.
    exact (gamma_antimono A eqb eqb_spec R U Uk' Uk0 T'' T1 E2' E2 HU).
Qed.

Lemma wfm_iter_least (R : list nrule) U L UL L' :
  gamma A eqb R U L = Some UL -> gamma A eqb R U UL = Some L' -> incl L' L ->
  forall fuel T0 T Uk, incl T0 L -> wfm_iter A eqb fuel R U T0 = Some (T, Uk) -> incl T L.
Proof.
  intros HL1 HL2 HL3. induction fuel as [|fuel IH]; intros T0 T Uk H0 H; simpl in H; [discriminate|].
  destruct (gamma A eqb R U T0) as [Uk0|] eqn:E1; [|discriminate].
  destruct (gamma A eqb R U Uk0) as [T1|] eqn:E2; [|discriminate].
  destruct (subset A eqb T1 T0) eqn:E3.
  - inversion H; subst. exact H0.
  - apply (IH T1 T Uk); [|exact H].
    pose proof (gamma_antimono A eqb eqb_spec R U T0 L Uk0 UL E1 HL1 H0) as K1.
    pose proof (gamma_antimono A eqb eqb_spec R U UL Uk0 L' T1 HL2 E2 K1) as K2.
    intros a Ha. apply HL3. apply K2. exact Ha.
Qed.

Lemma wfm_fix (R : list nrule) U T Uk : wfm A eqb R U = Some (T, Uk) ->
  gamma A eqb R U T = Some Uk /\ exists T1, gamma A eqb R U Uk = Some T1 /\ incl T1 T /\ incl T T1.
Proof. unfold wfm. apply wfm_iter_fix. intros Uk0 T1 _ _ a []. Qed.

Lemma wfm_least (R : list nrule) U T Uk L UL L' : wfm A eqb R U = Some (T, Uk) ->
  gamma A eqb R U L = Some UL -> gamma A eqb R U UL = Some L' -> incl L' L -> incl T L.
Proof.
  unfold wfm. intros H H1 H2 H3. apply (wfm_iter_least R U L UL L' H1 H2 H3 (2 + length U) [] T Uk); [intros a []|exact H].
Qed.
End LFP.

(* ------------------------------------------------------------------ the embedding *)
Section Embed.
Variable A B : Type.
Variable eqbA : A -> A -> bool.
Variable eqbB : B -> B -> bool.
Hypothesis eqbA_spec : forall x y, eqbA x y = true <-> x = y.
Hypothesis eqbB_spec : forall x y, eqbB x y = true <-> x = y.
Variable f : A -> B.
Hypothesis f_inj : forall x y, f x = f y -> x = y.
Variable facts : list B.
Hypothesis fresh : forall a, ~ In (f a) facts.

Definition nm (r : nrule A) : nrule B := (f (fst r), map (lit_map f) (snd r)).
Definition frules : list (nrule B) := map (fun b => (b, @nil (lit B))) facts.
Definition fclauses : list (clause B) := map (fun b => Rule b []) facts.

(* X' = f X  +  facts *)
Definition Srel (X : list A) (X' : list B) : Prop :=
  forall b, In b X' <-> (exists a, b = f a /\ In a X) \/ In b facts.
(* X' agrees with X on the image of f *)
Definition weak (X : list A) (X' : list B) : Prop := forall a, In (f a) X' <-> In a X.

Lemma Srel_weak X X' : Srel X X' -> weak X X'.
Proof.
  intros H a. rewrite (H (f a)). split.
  - intros [[a0 [E K]]|K]; [apply f_inj in E; subst; exact K|exfalso; exact (fresh a K)].
  - intro K. left. exists a. split; [reflexivity|exact K].
Qed.

Section World.
Variable R : list (nrule A).
Variable U : list A.
Variable R' : list (nrule B).
Variable U' : list B.
Hypothesis HR' : forall r', In r' R' <-> In r' (map nm R) \/ In r' frules.
Hypothesis HU' : Srel U U'.

Lemma deriv_emb1 Ng Ng' : weak Ng Ng' -> forall a, deriv A R U Ng a -> deriv B R' U' Ng' (f a).
Proof.
  intros Hng a Hd. induction Hd as [a b HaU Hin Hp IHp Hn].
  apply (deriv_intro B R' U' Ng' (f a) (map (lit_map f) b)).
  - apply HU'. left. exists a. split; [reflexivity|exact HaU].
  - apply HR'. left. apply in_map_iff. exists (a, b). split; [reflexivity|exact Hin].
  - intros c Hc. apply in_map_iff in Hc. destruct Hc as [[x|x] [E Hx]]; simpl in E; [|discriminate].
    injection E as E. subst c. apply IHp. exact Hx.
  - intros c Hc. apply in_map_iff in Hc. destruct Hc as [[x|x] [E Hx]]; simpl in E; [discriminate|].
    injection E as E. subst c. intro K. apply Hng in K. exact (Hn x Hx K).
Qed.

Lemma deriv_emb2 Ng Ng' : weak Ng Ng' -> forall b, deriv B R' U' Ng' b -> forall a, b = f a -> deriv A R U Ng a.
Proof.
  intros Hng b Hd. induction Hd as [b body HbU Hin Hp IHp Hn]. intros a Eb. subst b.
  apply HR' in Hin. destruct Hin as [Hin|Hin].
  - apply in_map_iff in Hin. destruct Hin as [[a0 b0] [E Hin]]. unfold nm in E. simpl in E.
    injection E as E1 E2. apply f_inj in E1. subst a0. subst body.
    apply (deriv_intro A R U Ng a b0).
    + apply HU' in HbU. destruct HbU as [[a1 [E1 H1]]|K]; [apply f_inj in E1; subst; exact H1|exfalso; exact (fresh a K)].
    + exact Hin.
    + intros c Hc. apply (IHp (f c)); [|reflexivity]. apply in_map_iff. exists (Pos c). split; [reflexivity|exact Hc].
    + intros c Hc K. apply (Hn (f c)).
      * apply in_map_iff. exists (Neg c). split; [reflexivity|exact Hc].
      * apply Hng. exact K.
  - unfold frules in Hin. apply in_map_iff in Hin. destruct Hin as [b0 [E Hb0]].
    injection E as E1 E2. subst b0. exfalso. exact (fresh a Hb0).
Qed.

Lemma deriv_fact Ng' b : In b facts -> deriv B R' U' Ng' b.
Proof.
  intro Hb. apply (deriv_intro B R' U' Ng' b []).
  - apply HU'. right. exact Hb.
  - apply HR'. right. unfold frules. apply in_map_iff. exists b. split; [reflexivity|exact Hb].
  - intros c [].
  - intros c [].
Qed.

Lemma gamma_emb Ng Ng' X X' : weak Ng Ng' ->
  gamma A eqbA R U Ng = Some X -> gamma B eqbB R' U' Ng' = Some X' -> Srel X X'.
Proof.
  intros Hng H H' b.
  rewrite (gamma_char B eqbB eqbB_spec R' U' Ng' X' H' b). split.
  - intro Hd. assert (In b U') as HbU by (destruct Hd; assumption).
    apply HU' in HbU. destruct HbU as [[a [E Ha]]|K]; [|right; exact K].
    left. exists a. split; [exact E|]. apply (gamma_char A eqbA eqbA_spec R U Ng X H a).
    exact (deriv_emb2 Ng Ng' Hng b Hd a E).
  - intros [[a [E Ha]]|K].
    + subst b. apply (deriv_emb1 Ng Ng' Hng). apply (gamma_char A eqbA eqbA_spec R U Ng X H a). exact Ha.
    + apply deriv_fact. exact K.
Qed.

Lemma weak_preimage T' : incl T' U' -> weak (filter (fun a => mem B eqbB (f a) T') U) T'.
Proof.
  intros Hi a. rewrite filter_In. rewrite (mem_spec B eqbB eqbB_spec). split; [|tauto].
  intro K. split; [|exact K]. apply Hi in K. apply (Srel_weak U U' HU'). exact K.
Qed.

Lemma weak_image T : weak T (map f T ++ facts).
Proof.
  intro a. rewrite in_app_iff, in_map_iff. split.
  - intros [[a0 [E K]]|K]; [apply f_inj in E; subst; exact K|exfalso; exact (fresh a K)].
  - intro K. left. exists a. split; [reflexivity|exact K].
Qed.

Lemma wfm_emb T Uk T' Uk' :
  wfm A eqbA R U = Some (T, Uk) -> wfm B eqbB R' U' = Some (T', Uk') -> Srel T T' /\ Srel Uk Uk'.
Proof.
  intros H H'.
  destruct (wfm_fix A eqbA eqbA_spec R U T Uk H) as [G1 [T1 [G2 [I1 I2]]]].
  destruct (wfm_fix B eqbB eqbB_spec R' U' T' Uk' H') as [G1' [T1' [G2' [I1' I2']]]].
  (* (i) T' <= f T + facts *)
  assert (incl T' (map f T ++ facts)) as Up.
  { destruct (gamma B eqbB R' U' (map f T ++ facts)) as [UL|] eqn:EL1;
      [|exfalso; exact (gamma_total B eqbB eqbB_spec _ _ _ EL1)].
    destruct (gamma B eqbB R' U' UL) as [L'|] eqn:EL2;
      [|exfalso; exact (gamma_total B eqbB eqbB_spec _ _ _ EL2)].
    apply (wfm_least B eqbB eqbB_spec R' U' T' Uk' _ UL L' H' EL1 EL2).
    pose proof (gamma_emb T _ Uk UL (weak_image T) G1 EL1) as S1.
    pose proof (gamma_emb Uk UL T1 L' (Srel_weak _ _ S1) G2 EL2) as S2.
    intros b Hb. apply S2 in Hb. apply in_or_app. destruct Hb as [[a [E Ha]]|K]; [left|right; exact K].
    subst b. apply in_map. apply I1. exact Ha. }
  (* (ii) T <= preimage of T' *)
  assert (incl T' U') as HT'U.
  { intros b Hb. apply I2' in Hb. exact (gamma_incl_U B eqbB eqbB_spec R' U' Uk' T1' G2' b Hb). }
  assert (incl T (filter (fun a => mem B eqbB (f a) T') U)) as Lo.
  { set (L := filter (fun a => mem B eqbB (f a) T') U).
    destruct (gamma A eqbA R U L) as [UL|] eqn:EL1;
      [|exfalso; exact (gamma_total A eqbA eqbA_spec _ _ _ EL1)].
    destruct (gamma A eqbA R U UL) as [L'|] eqn:EL2;
      [|exfalso; exact (gamma_total A eqbA eqbA_spec _ _ _ EL2)].
    apply (wfm_least A eqbA eqbA_spec R U T Uk L UL L' H EL1 EL2).
    pose proof (gamma_emb L T' UL Uk' (weak_preimage T' HT'U) EL1 G1') as S1.
    pose proof (gamma_emb UL Uk' L' T1' (Srel_weak _ _ S1) EL2 G2') as S2.
    intros a Ha. unfold L. apply filter_In. split.
    - exact (gamma_incl_U A eqbA eqbA_spec R U UL L' EL2 a Ha).
    - apply (mem_spec B eqbB eqbB_spec). apply I1'. apply S2. left. exists a. split; [reflexivity|exact Ha]. }
  assert (Srel T T') as ST.
  { intro b. split.
    - intro Hb. apply Up in Hb. apply in_app_or in Hb. destruct Hb as [Hb|Hb]; [left|right; exact Hb].
      apply in_map_iff in Hb. destruct Hb as [a [E Ha]]. exists a. split; [symmetry; exact E|exact Ha].
    - intros [[a [E Ha]]|K].
      + subst b. apply Lo in Ha. apply filter_In in Ha. destruct Ha as [_ Ha].
        apply (mem_spec B eqbB eqbB_spec). exact Ha.
      + apply I1'. apply (gamma_char B eqbB eqbB_spec R' U' Uk' T1' G2' b). apply deriv_fact. exact K. }
  split; [exact ST|]. exact (gamma_emb T T' Uk Uk' (Srel_weak _ _ ST) G1 G1').
Qed.

Lemma filter_true {X} (l : list X) : filter (fun _ => true) l = l.
Proof. induction l as [|x l IH]; simpl; [reflexivity|rewrite IH; reflexivity]. Qed.

Lemma incl_emb X X' Y Y' : Srel X X' -> Srel Y Y' -> (incl X' Y' <-> incl X Y).
Proof.
  intros SX SY. split.
  - intros Hi a Ha. apply (Srel_weak _ _ SY). apply Hi. apply (Srel_weak _ _ SX). exact Ha.
  - intros Hi b Hb. apply SX in Hb. apply SY. destruct Hb as [[a [E Ha]]|K]; [left|right; exact K].
    exists a. split; [exact E|apply Hi; exact Ha].
Qed.

Lemma ind_fuel_emb : ind_fuel B eqbB U' R' = ind_fuel A eqbA U R.
Proof.
  unfold ind_fuel.
  destruct (wfm A eqbA R U) eqn:E; [|exfalso; exact (wfm_total A eqbA eqbA_spec _ _ E)].
  destruct (wfm B eqbB R' U') eqn:E'; [|exfalso; exact (wfm_total B eqbB eqbB_spec _ _ E')].
  reflexivity.
Qed.

Lemma ind_undef_emb :
  ind_undef B eqbB U' (fun _ => true) R' = ind_undef A eqbA U (fun _ => true) R.
Proof.
  unfold ind_undef.
  destruct (wfm A eqbA R U) as [[T Uk]|] eqn:E; [|exfalso; exact (wfm_total A eqbA eqbA_spec _ _ E)].
  destruct (wfm B eqbB R' U') as [[T' Uk']|] eqn:E'; [|exfalso; exact (wfm_total B eqbB eqbB_spec _ _ E')].
  destruct (wfm_emb T Uk T' Uk' E E') as [ST SU]. simpl. rewrite !filter_true.
  f_equal. f_equal.
  destruct (subset B eqbB Uk' T') eqn:E1, (subset A eqbA Uk T) eqn:E2; try reflexivity; exfalso.
  - apply (subset_spec B eqbB eqbB_spec) in E1. apply (incl_emb _ _ _ _ SU ST) in E1.
    apply (subset_spec A eqbA eqbA_spec) in E1. congruence.
  - apply (subset_spec A eqbA eqbA_spec) in E2. apply (incl_emb _ _ _ _ SU ST) in E2.
    apply (subset_spec B eqbB eqbB_spec) in E2. congruence.
Qed.

Lemma ind_true_emb chk chk' : (forall T T', Srel T T' -> chk' T' = chk T) ->
  ind_true B eqbB U' chk' R' = ind_true A eqbA U chk R.
Proof.
  intro Hc. unfold ind_true.
  destruct (wfm A eqbA R U) as [[T Uk]|] eqn:E; [|exfalso; exact (wfm_total A eqbA eqbA_spec _ _ E)].
  destruct (wfm B eqbB R' U') as [[T' Uk']|] eqn:E'; [|exfalso; exact (wfm_total B eqbB eqbB_spec _ _ E')].
  destruct (wfm_emb T Uk T' Uk' E E') as [ST SU]. simpl. rewrite (Hc T T' ST). reflexivity.
Qed.
End World.

(* ------------------------------------------------------------------ world sums *)
Lemma wsum_facts F' : forall fs acc',
  wsum B F' (map (fun b => Rule b []) fs) acc' = F' (rev (map (fun b => (b, @nil (lit B))) fs) ++ acc').
Proof.
  induction fs as [|b fs IH]; intro acc'; simpl; [reflexivity|].
  rewrite IH. rewrite <- app_assoc. reflexivity.
Qed.

Lemma lsum_map {X Y} (g : X -> Y) (hs : list (Q * X)) (k : Y -> Q) :
  lsum (map (fun ph => (fst ph, g (snd ph))) hs) k = lsum hs (fun x => k (g x)).
Proof. induction hs as [|[p x] hs IH]; simpl; [reflexivity|]. rewrite IH. reflexivity. Qed.

Lemma sum_p_map {X Y} (g : X -> Y) (hs : list (Q * X)) :
  sum_p (map (fun ph => (fst ph, g (snd ph))) hs) = sum_p hs.
Proof. induction hs as [|[p x] hs IH]; simpl; [reflexivity|]. rewrite IH. reflexivity. Qed.

Lemma wsum_emb F F' cs : (forall acc, F' (rev frules ++ map nm acc) == F acc) ->
  forall acc, wsum B F' (map (clause_map f) cs ++ fclauses) (map nm acc) == wsum A F cs acc.
Proof.
  intro H. induction cs as [|c cs IH]; intro acc.
  - simpl. unfold fclauses. rewrite wsum_facts. apply H.
  - destruct c as [h b|hs b]; simpl.
    + change ((f h, map (lit_map f) b) :: map nm acc) with (map nm ((h, b) :: acc)). apply IH.
    + rewrite !ad_sum_expect. unfold expect. rewrite sum_p_map, lsum_map. simpl.
      rewrite (IH acc).
      rewrite (lsum_ext hs _ (fun h => wsum A F cs ((h, b) :: acc))); [reflexivity|].
      intro x. change ((f x, map (lit_map f) b) :: map nm acc) with (map nm ((x, b) :: acc)). apply IH.
Qed.

Lemma heads_emb cs : Srel (universe A eqbA cs) (universe B eqbB (map (clause_map f) cs ++ fclauses)).
Proof.
  intro b. unfold universe. rewrite (dedup_In B eqbB eqbB_spec). unfold heads_of.
  rewrite flat_map_app, in_app_iff. split.
  - intros [K|K].
    + left. apply in_flat_map in K. destruct K as [c' [Hc' Hb]]. apply in_map_iff in Hc'.
      destruct Hc' as [c [E Hc]]. subst c'.
      assert (exists a, b = f a /\ In a (clause_heads c)) as [a [E Ha]].
      { destruct c as [h bd|hs bd]; simpl in Hb.
        - destruct Hb as [Hb|[]]. exists h. split; [symmetry; exact Hb|left; reflexivity].
        - rewrite map_map in Hb. simpl in Hb. apply in_map_iff in Hb. destruct Hb as [ph [E Hph]].
          exists (snd ph). split; [symmetry; exact E|]. simpl. apply in_map. exact Hph. }
      exists a. split; [exact E|]. apply (dedup_In A eqbA eqbA_spec). apply in_flat_map. exists c. split; assumption.
    + right. unfold fclauses in K. apply in_flat_map in K. destruct K as [c' [Hc' Hb]]. apply in_map_iff in Hc'.
      destruct Hc' as [b0 [E Hb0]]. subst c'. simpl in Hb. destruct Hb as [Hb|[]]. subst. exact Hb0.
  - intros [[a [E Ha]]|K].
    + left. rewrite (dedup_In A eqbA eqbA_spec) in Ha. apply in_flat_map in Ha. destruct Ha as [c [Hc Ha]].
      apply in_flat_map. exists (clause_map f c). split; [apply in_map; exact Hc|]. subst b.
      destruct c as [h bd|hs bd]; simpl in *.
      * destruct Ha as [Ha|[]]. subst. left. reflexivity.
      * rewrite map_map. simpl. apply in_map_iff in Ha. destruct Ha as [ph [E Hph]]. subst a.
        apply in_map_iff. exists ph. split; [reflexivity|exact Hph].
    + right. apply in_flat_map. exists (Rule b []). split; [|left; reflexivity].
      unfold fclauses. apply in_map_iff. exists b. split; [reflexivity|exact K].
Qed.

Lemma rules_emb acc : forall r', In r' (rev frules ++ map nm acc) <-> In r' (map nm acc) \/ In r' frules.
Proof. intro r'. rewrite in_app_iff, <- in_rev. tauto. Qed.

Definition ev_emb (ev : list (A * bool)) : list (B * bool) := map (fun e => (f (fst e), snd e)) ev.

Lemma mem_emb T T' a : Srel T T' -> mem B eqbB (f a) T' = mem A eqbA a T.
Proof.
  intro S. pose proof (Srel_weak _ _ S a) as W.
  destruct (mem B eqbB (f a) T') eqn:E1, (mem A eqbA a T) eqn:E2; try reflexivity; exfalso.
  - apply (mem_spec B eqbB eqbB_spec) in E1. apply W in E1. apply (mem_spec A eqbA eqbA_spec) in E1. congruence.
  - apply (mem_spec A eqbA eqbA_spec) in E2. apply W in E2. apply (mem_spec B eqbB eqbB_spec) in E2. congruence.
Qed.

Lemma holds_emb T T' ev : Srel T T' -> holds B eqbB T' (ev_emb ev) = holds A eqbA T ev.
Proof.
  intro S. unfold holds, ev_emb. induction ev as [|[a v] ev IH]; simpl; [reflexivity|].
  rewrite IH, (mem_emb T T' a S). reflexivity.
Qed.

Theorem prob_gen_fresh_facts cs ev q :
  prob_gen B eqbB (map (clause_map f) cs ++ fclauses) (ev_emb ev) (f q) = prob_gen A eqbA cs ev q.
Proof.
  unfold prob_gen.
  set (cs' := map (clause_map f) cs ++ fclauses).
  set (U := universe A eqbA cs). set (U' := universe B eqbB cs').
  pose proof (heads_emb cs) as HU. fold cs' in HU. fold U in HU. fold U' in HU.
  assert (forall F F', (forall acc, F' (rev frules ++ map nm acc) == F acc) ->
                       wsum B F' cs' [] == wsum A F cs []) as Hsum.
  { intros F F' HF. exact (wsum_emb F F' cs HF []). }
  assert (forall a b : Q, a = b -> a == b) as QE by (intros a b K; rewrite K; reflexivity).
  assert (wsum B (ind_fuel B eqbB U') cs' [] == wsum A (ind_fuel A eqbA U) cs []) as E1.
  { apply Hsum. intro acc. apply QE. apply (ind_fuel_emb acc U (rev frules ++ map nm acc) U'). }
  assert (wsum B (ind_undef B eqbB U' (fun _ => true)) cs' [] == wsum A (ind_undef A eqbA U (fun _ => true)) cs []) as E2.
  { apply Hsum. intro acc. apply QE. apply (ind_undef_emb acc U (rev frules ++ map nm acc) U' (rules_emb acc) HU). }
  assert (wsum B (ind_true B eqbB U' (fun T => holds B eqbB T (ev_emb ev))) cs' []
          == wsum A (ind_true A eqbA U (fun T => holds A eqbA T ev)) cs []) as E3.
  { apply Hsum. intro acc. apply QE.
    apply (ind_true_emb acc U (rev frules ++ map nm acc) U' (rules_emb acc) HU).
    intros T T' S. apply holds_emb. exact S. }
  assert (wsum B (ind_true B eqbB U' (fun T => mem B eqbB (f q) T && holds B eqbB T (ev_emb ev))) cs' []
          == wsum A (ind_true A eqbA U (fun T => mem A eqbA q T && holds A eqbA T ev)) cs []) as E4.
  { apply Hsum. intro acc. apply QE.
    apply (ind_true_emb acc U (rev frules ++ map nm acc) U' (rules_emb acc) HU).
    intros T T' S. rewrite (holds_emb T T' ev S), (mem_emb T T' q S). reflexivity. }
  rewrite (Qeq_bool_comp _ _ E1). destruct (negb (Qeq_bool (wsum A (ind_fuel A eqbA U) cs []) 0)); [reflexivity|].
  rewrite (Qeq_bool_comp _ _ E2).
  destruct (negb (Qeq_bool (wsum A (ind_undef A eqbA U (fun _ => true)) cs []) 0)); [reflexivity|].
  rewrite (Qeq_bool_comp _ _ E3).
  destruct (Qeq_bool (wsum A (ind_true A eqbA U (fun T => holds A eqbA T ev)) cs []) 0); [reflexivity|].
  f_equal. apply Qred_complete. rewrite E3, E4. reflexivity.
Qed.
End Embed.

(* ------------------------------------------------------------------ the wrapper facts are neutral *)
Lemma inl_inj (x y : gatom) : (inl x : oatom) = inl y -> x = y.
Proof. intro H. inversion H. reflexivity. Qed.

Lemma inl_fresh (ans : list (gatom * Q)) (a : gatom) : ~ In (inl a : oatom) (map (fun x => inr x : oatom) ans).
Proof. intro H. apply in_map_iff in H. destruct H as [x [E _]]. discriminate. Qed.

Theorem wrapper_facts_neutral P ans oev g :
  outer_prob P ans oev (inl g) = nested P oev g.
Proof.
  unfold outer_prob, nested, outer_db, outer_ev.
  pose proof (prob_gen_fresh_facts gatom oatom gatom_eqb oatom_eqb gatom_eqb_spec oatom_eqb_spec
                (fun a => inl a : oatom) inl_inj (map (fun x => inr x : oatom) ans) (inl_fresh ans) (db P) oev g) as H.
  unfold fclauses, ev_emb in H. rewrite map_map in H. exact H.
Qed.

(* the program with the wrapper clause, queried on an ordinary atom under the program's own evidence,
   gives the top-level value of the program without the wrapper *)
Theorem wrapper_program_neutral P G ev l g :
  subquery_m P G ev = Answers l ->
  outer_prob P l (g_evid (ground P)) (inl g) = prob P g.
Proof. intros _. rewrite wrapper_facts_neutral. reflexivity. Qed.
