(* C26 — subquery/2,3 computes the same probabilities as top-level inference.
   Model: C26/ModelSubquery.v (hand model of engine_builtin._builtin_subquery over PL.Sem).
   Only statements here; proofs in C26/ProofsSubquery.v.

   The content is thin by nature: the nested call IS the semantics' `prob_gen` on the ground clauses
   of the caller's program with the evidence list as the only evidence (that is the model, tied to the
   code by the differential check); the theorems say that this value is the one top-level inference
   gives on the same clause database (C01 applied at the nested call), that statements other than
   clauses (the outer queries and the outer evidence) cannot influence it, and that the wrapper
   predicate is a deterministic fact for the outer inference. *)
From Coq Require Import NArith ZArith QArith List Bool Permutation.
From PL.Sem Require Import Program Sem.
From PL.C26 Require Import ModelSubquery ProofsSubquery.
Import ListNotations.

(* subquery_def: the answers of subquery(G,Pr[,Ev]) are exactly the pairs (G', p) with G' a ground
   instance of G, p the nested value of G' and p > 0 ... *)
Theorem C26_subquery_def : forall P G ev l, subquery_m P G ev = Answers l ->
  forall g p, In (g, p) l <->
              In g (instances P G) /\ nested P (ev_of ev) g = Ok p /\ positive p = true.
Proof. intros P G ev l H. exact (collect_answers P (ev_of ev) (instances P G) l H). Qed.
Print Assumptions C26_subquery_def.

(* ... every other instance has a value too (which is then not positive: "unreported = 0") ... *)
Theorem C26_subquery_unreported_zero : forall P G ev l, subquery_m P G ev = Answers l ->
  forall g, In g (instances P G) -> exists p, nested P (ev_of ev) g = Ok p.
Proof. intros P G ev l H. exact (collect_all_ok P (ev_of ev) (instances P G) l H). Qed.
Print Assumptions C26_subquery_unreported_zero.

(* ... and the call fails only with the error of the nested evaluation (inconsistent evidence list,
   or a database outside the fragment) *)
Theorem C26_subquery_error : forall P G ev r, subquery_m P G ev = Failed r ->
  (forall p, r <> Ok p) /\ exists g, In g (instances P G) /\ nested P (ev_of ev) g = r.
Proof. intros P G ev r H. exact (collect_failed P (ev_of ev) (instances P G) r H). Qed.
Print Assumptions C26_subquery_error.

(* same_db: the nested value is a function of the clause statements (and the set of constants) only *)
Theorem C26_same_db : forall P P' ev g,
  strip P = strip P' -> Permutation (domain P) (domain P') -> nested P ev g = nested P' ev g.
Proof. exact same_db. Qed.
Print Assumptions C26_same_db.

(* top-level inference on ANY program T with the same clause statements is the nested value under
   T's own evidence statements *)
Theorem C26_toplevel_is_nested : forall T P g,
  strip T = strip P -> Permutation (domain T) (domain P) ->
  prob T g = nested P (g_evid (ground T)) g.
Proof. exact toplevel_is_nested. Qed.
Print Assumptions C26_toplevel_is_nested.

(* the nested evaluation sees neither the outer queries nor the OUTER EVIDENCE *)
Theorem C26_outer_statements_invisible : forall P X ev g,
  strip X = [] -> incl (flat_map consts_stmt X) (domain P) -> nested (P ++ X) ev g = nested P ev g.
Proof. exact nested_ignores_non_clauses. Qed.
Print Assumptions C26_outer_statements_invisible.

(* subquery(G,Pr,Ev) = the conditional probability top-level inference reports when Ev is written as
   evidence statements (program without evidence statements of its own, Ev ground, over known constants) *)
Theorem C26_reduces_to_toplevel : forall P ev g,
  no_evid P = true -> ev_ground ev -> incl (ev_consts ev) (domain P) ->
  prob (P ++ map ev_stmt ev) g = nested P (ev_of ev) g.
Proof. exact reduces_to_toplevel. Qed.
Print Assumptions C26_reduces_to_toplevel.

(* subquery(G,Pr) = the unconditional top-level probability *)
Theorem C26_subquery2_is_toplevel : forall P g, no_evid P = true -> prob P g = nested P [] g.
Proof.
  intros P g H. rewrite <- (app_nil_r P) at 1.
  apply (reduces_to_toplevel P [] g H); [intros l []|intros x []].
Qed.
Print Assumptions C26_subquery2_is_toplevel.

(* w(Args,Pr) :- subquery(g(Args),Pr).  Every answer of the wrapper has probability 1 in the outer
   inference, whatever the outer evidence `oev` is (oev is also the evidence list of an ENCLOSING
   subquery/3 when the wrapper is itself the goal of a subquery) ... *)
Theorem C26_wrapper_deterministic : forall P G ev l oev a p,
  subquery_m P G ev = Answers l -> In a l -> outer_prob P l oev (inr a) = Ok p -> p = 1.
Proof. intros P G ev l oev a p _. exact (wrapper_deterministic P l oev a p). Qed.
Print Assumptions C26_wrapper_deterministic.

(* ... and it is reported whenever the outer inference answers anything at all *)
Theorem C26_wrapper_reported : forall P l oev a q p,
  outer_prob P l oev q = Ok p -> exists p', outer_prob P l oev (inr a) = Ok p'.
Proof. exact wrapper_reported. Qed.
Print Assumptions C26_wrapper_reported.

(* ------------------------------------------------------------------ non-vacuity
   0.5::a. 0.4::b. c :- a. c :- b.      (a=1 b=2 c=3) *)
Definition exP : program :=
  [SClause (AD [(1#2, (1%N, []))] []); SClause (AD [(2#5, (2%N, []))] []);
   SClause (Rule (3%N, []) [Pos (1%N, [])]); SClause (Rule (3%N, []) [Pos (2%N, [])])].
Example C26_example_subquery2 : subquery_m exP (3%N, []) [] = Answers [((3%N, []), 7#10)].
Proof. vm_compute. reflexivity. Qed.
Example C26_example_subquery3 : subquery_m exP (3%N, []) [Neg (1%N, [])] = Answers [((3%N, []), 2#5)].
Proof. vm_compute. reflexivity. Qed.
Example C26_example_inconsistent :
  subquery_m exP (3%N, []) [Pos (1%N, []); Neg (1%N, [])] = Failed Inconsistent.
Proof. vm_compute. reflexivity. Qed.
(* outer evidence evidence(a,false) does not reach the nested call, the wrapper answer has probability 1 *)
Example C26_example_wrapper :
  wrapper_m (exP ++ [SEvid (1%N, []) false]) (3%N, []) [] [((1%N, []), false)]
  = Some [(((3%N, []), 7#10), Ok 1)].
Proof. vm_compute. reflexivity. Qed.
(* n(a). n(b). 0.3::p(X) :- n(X). q(X) :- p(X).  subquery(q(X),Pr): one answer per instance *)
Definition exFO : program :=
  [SClause (Rule (1%N, [TC 1%N]) []); SClause (Rule (1%N, [TC 2%N]) []);
   SClause (AD [(3#10, (2%N, [TV 0%nat]))] [Pos (1%N, [TV 0%nat])]);
   SClause (Rule (3%N, [TV 0%nat]) [Pos (2%N, [TV 0%nat])])].
Example C26_example_nonground :
  subquery_m exFO (3%N, [TV 0%nat]) [] = Answers [((3%N, [1%N]), 3#10); ((3%N, [2%N]), 3#10)].
Proof. vm_compute. reflexivity. Qed.
Example C26_example_hyps : no_evid exFO = true /\ strip exFO = exFO.
Proof. vm_compute. split; reflexivity. Qed.
