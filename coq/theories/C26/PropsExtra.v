(* C26 (extra) — the wrapper facts are neutral for ordinary atoms.
   Model: C26/ModelSubquery.v; proofs in C26/ProofsWrapperNeutral.v.  Only statements here.

   `w(Args,Pr) :- subquery(g(Args),Pr).` contributes, for the outer inference, one ground FACT
   `w(args',p)` per answer of the nested call.  The wrapper predicate is fresh (it does not occur in
   the program): in the model the outer atoms are the sum type `gatom + gatom*Q`, ordinary atoms `inl g`,
   wrapper answers `inr (g',p)`.  Props.v shows the wrapper atoms have outer probability 1; here: the
   ordinary atoms keep exactly the value (or the error) they have without the wrapper, under any outer
   evidence on ordinary atoms. *)
From Coq Require Import NArith ZArith QArith List Bool Permutation.
From PL.Sem Require Import Program Sem.
From PL.C26 Require Import ModelSubquery ProofsSubquery ProofsWrapperNeutral.
Import ListNotations.

(* generic form: f an injective atom embedding A -> B, `facts` any list of B-atoms outside the image of f;
   the program  f(cs) ++ [b. | b in facts]  gives on f q, under the embedded evidence, exactly what cs gives on q
   (the same value or the same error; any atom types, any clauses incl. negation, cycles, ADs) *)
Theorem C26_fresh_facts_neutral :
  forall (A B : Type) (eqbA : A -> A -> bool) (eqbB : B -> B -> bool),
  (forall x y, eqbA x y = true <-> x = y) -> (forall x y, eqbB x y = true <-> x = y) ->
  forall (f : A -> B), (forall x y, f x = f y -> x = y) ->
  forall (facts : list B), (forall a, ~ In (f a) facts) ->
  forall (cs : list (clause A)) (ev : list (A * bool)) (q : A),
    prob_gen B eqbB (map (clause_map f) cs ++ map (fun b => Rule b []) facts)
             (map (fun e => (f (fst e), snd e)) ev) (f q)
    = prob_gen A eqbA cs ev q.
Proof. exact prob_gen_fresh_facts. Qed.
Print Assumptions C26_fresh_facts_neutral.

(* the wrapper facts (ANY list of answers `ans`, in particular the one produced by subquery_m) leave the
   outer probability of every ordinary atom g unchanged, under any outer evidence oev on ordinary atoms:
   it is the value of g on the caller's clause database under oev *)
Theorem C26_wrapper_facts_neutral : forall P ans oev g,
  outer_prob P ans oev (inl g) = prob_gen gatom gatom_eqb (db P) oev g.
Proof. exact wrapper_facts_neutral. Qed.
Print Assumptions C26_wrapper_facts_neutral.

(* corollary: the program containing `w(X,Pr) :- subquery(G,Pr[,Ev]).`, asked for an ordinary atom under the
   program's own evidence statements, answers what the program without the wrapper clause answers *)
Theorem C26_wrapper_program_neutral : forall P G ev l g,
  subquery_m P G ev = Answers l ->
  outer_prob P l (g_evid (ground P)) (inl g) = prob P g.
Proof. exact wrapper_program_neutral. Qed.
Print Assumptions C26_wrapper_program_neutral.

(* ------------------------------------------------------------------ non-vacuity
   0.5::a. 0.4::b. c :- a. c :- b.  evidence(a,false).  w(Pr) :- subquery(c,Pr).
   the wrapper answer w(0.7) is present, query(c) still gives 0.4 (= P(c | ~a)), query(b) 0.4 *)
Definition exW : program :=
  [SClause (AD [(1#2, (1%N, []))] []); SClause (AD [(2#5, (2%N, []))] []);
   SClause (Rule (3%N, []) [Pos (1%N, [])]); SClause (Rule (3%N, []) [Pos (2%N, [])])].
Example C26_example_neutral :
  let P := exW ++ [SEvid (1%N, []) false] in
  subquery_m P (3%N, []) [] = Answers [((3%N, []), 7#10)] /\
  outer_prob P [((3%N, []), 7#10)] (g_evid (ground P)) (inl (3%N, [])) = Ok (2#5) /\
  prob P (3%N, []) = Ok (2#5) /\
  outer_prob P [((3%N, []), 7#10)] (g_evid (ground P)) (inr ((3%N, []), 7#10)) = Ok 1.
Proof. vm_compute. repeat split; reflexivity. Qed.
(* errors are preserved too: inconsistent outer evidence *)
Example C26_example_neutral_error :
  outer_prob exW [((3%N, []), 7#10)] [((1%N, []), true); ((1%N, []), false)] (inl (3%N, [])) = Inconsistent.
Proof. vm_compute. reflexivity. Qed.
