(* C26/ProofsSubquery.v — lemmas about the subquery model (ModelSubquery.v). *)
From Coq Require Import NArith ZArith QArith List Bool Permutation Lia.
From PL.Sem Require Import Program Sem SemBasics PermProofs PermFO.
From PL.C26 Require Import ModelSubquery.
Import ListNotations.

(* ------------------------------------------------------------------ answers of the model *)
Lemma collect_answers P ev gs l : collect P ev gs = Answers l ->
  forall g p, In (g, p) l <-> In g gs /\ nested P ev g = Ok p /\ positive p = true.
Proof.
  revert l. induction gs as [|g0 gs IH]; intros l H g p; simpl in H.
  - inversion H; subst. simpl. tauto.
  - destruct (nested P ev g0) as [p0| | |] eqn:E0; try discriminate.
    destruct (collect P ev gs) as [l0|r0] eqn:Ec; try discriminate.
    specialize (IH l0 eq_refl g p). inversion H; subst; clear H.
    destruct (positive p0) eqn:Epos; simpl.
    + rewrite IH. split.
      * intros [K|K]; [inversion K; subst; tauto|tauto].
      * intros [[K|K] [K1 K2]]; [subst; left; congruence|right; tauto].
    + rewrite IH. split; [tauto|]. intros [[K|K] [K1 K2]]; [subst; congruence|tauto].
Qed.

Lemma collect_all_ok P ev gs l : collect P ev gs = Answers l ->
  forall g, In g gs -> exists p, nested P ev g = Ok p.
Proof.
  revert l. induction gs as [|g0 gs IH]; intros l H g Hg; simpl in H; [destruct Hg|].
  destruct (nested P ev g0) as [p0| | |] eqn:E0; try discriminate.
  destruct (collect P ev gs) as [l0|r0] eqn:Ec; try discriminate.
  destruct Hg as [K|K]; [subst; eexists; exact E0|exact (IH l0 eq_refl g K)].
Qed.

Lemma collect_failed P ev gs r : collect P ev gs = Failed r ->
  (forall p, r <> Ok p) /\ exists g, In g gs /\ nested P ev g = r.
Proof.
  induction gs as [|g0 gs IH]; intro H; simpl in H; [discriminate|].
  destruct (nested P ev g0) as [p0| | |] eqn:E0.
  - destruct (collect P ev gs) as [l0|r0] eqn:Ec; try discriminate.
    inversion H; subst. destruct (IH eq_refl) as [K1 [g [K2 K3]]].
    split; [exact K1|]. exists g. split; [right; exact K2|exact K3].
  - inversion H; subst. split; [discriminate|]. exists g0. split; [left; reflexivity|exact E0].
  - inversion H; subst. split; [discriminate|]. exists g0. split; [left; reflexivity|exact E0].
  - inversion H; subst. split; [discriminate|]. exists g0. split; [left; reflexivity|exact E0].
Qed.

(* the error of the nested evaluation does not depend on the instance *)
Lemma prob_gen_error_uniform (A : Type) (eqb : A -> A -> bool) cs ev q q' p :
  prob_gen A eqb cs ev q = Ok p -> exists p', prob_gen A eqb cs ev q' = Ok p'.
Proof.
  unfold prob_gen.
  destruct (negb (Qeq_bool (wsum A (ind_fuel A eqb (universe A eqb cs)) cs []) 0)); [discriminate|].
  destruct (negb (Qeq_bool (wsum A (ind_undef A eqb (universe A eqb cs) (fun _ => true)) cs []) 0)); [discriminate|].
  destruct (Qeq_bool (wsum A (ind_true A eqb (universe A eqb cs) (fun T => holds A eqb T ev)) cs []) 0); [discriminate|].
  intros _. eexists. reflexivity.
Qed.

(* ------------------------------------------------------------------ the database of the nested call *)
Definition is_clause (s : stmt) : bool := match s with SClause _ => true | _ => false end.
Definition strip (P : program) : program := filter is_clause P.
Definition is_evid (s : stmt) : bool := match s with SEvid _ _ => true | _ => false end.
Definition no_evid (P : program) : bool := forallb (fun s => negb (is_evid s)) P.

Lemma clauses_strip d P : g_clauses (ground_with d P) = g_clauses (ground_with d (strip P)).
Proof.
  rewrite !ground_with_clauses. induction P as [|s P IH]; simpl; [reflexivity|].
  destruct s as [c|a|a v]; simpl; rewrite IH; reflexivity.
Qed.

Lemma no_evid_ground d P : no_evid P = true -> g_evid (ground_with d P) = [].
Proof.
  rewrite ground_with_evid. induction P as [|s P IH]; simpl; [reflexivity|].
  intro H. apply andb_prop in H. destruct H as [H1 H2]. rewrite (IH H2).
  destruct s as [c|a|a v]; simpl in *; try reflexivity. discriminate.
Qed.

(* the nested value depends on the clause statements (and the constants) only *)
Theorem same_db P P' ev g :
  strip P = strip P' -> Permutation (domain P) (domain P') -> nested P ev g = nested P' ev g.
Proof.
  intros Hs Hd. unfold nested, db, ground. rewrite (clauses_strip _ P), (clauses_strip _ P'), Hs.
  assert (Permutation (strip P') (strip P')) as HPP by reflexivity.
  destruct (ground_with_perm (domain P) (domain P') (strip P') (strip P') Hd HPP) as [Kc _].
  apply (prob_gen_perm_clauses gatom gatom_eqb gatom_eqb_spec); [exact Kc|reflexivity].
Qed.

(* top-level inference on T is the nested value on any P with the same clauses, under T's evidence *)
Theorem toplevel_is_nested T P g :
  strip T = strip P -> Permutation (domain T) (domain P) ->
  prob T g = nested P (g_evid (ground T)) g.
Proof.
  intros Hs Hd. change (prob T g) with (nested T (g_evid (ground T)) g). apply same_db; assumption.
Qed.

Lemma domain_app_incl P X : incl (flat_map consts_stmt X) (domain P) -> Permutation (domain (P ++ X)) (domain P).
Proof.
  intro H. unfold domain. apply NoDup_Permutation; try apply NoDup_nodup.
  intro x. rewrite !nodup_In. rewrite flat_map_app. rewrite in_app_iff.
  split; [|tauto]. intros [K|K]; [exact K|]. apply H in K. unfold domain in K. apply nodup_In in K. exact K.
Qed.

Lemma strip_app P X : strip X = [] -> strip (P ++ X) = strip P.
Proof. intro H. unfold strip in *. rewrite filter_app, H, app_nil_r. reflexivity. Qed.

(* statements that are not clauses (outer queries, outer evidence) are invisible to the nested call *)
Theorem nested_ignores_non_clauses P X ev g :
  strip X = [] -> incl (flat_map consts_stmt X) (domain P) -> nested (P ++ X) ev g = nested P ev g.
Proof.
  intros Hs Hi. apply same_db; [apply strip_app; exact Hs|apply domain_app_incl; exact Hi].
Qed.

(* ------------------------------------------------------------------ the evidence list as evidence statements *)
Definition ev_stmt (l : lit atom) : stmt :=
  match l with Pos a => SEvid a true | Neg a => SEvid a false end.
Definition ev_ground (ev : list (lit atom)) : Prop := forall l, In l ev -> vars_atom (lit_atom l) = [].

Lemma strip_ev_stmts ev : strip (map ev_stmt ev) = [].
Proof. induction ev as [|[a|a] ev IH]; simpl; [reflexivity|exact IH|exact IH]. Qed.

Lemma ground_ev_stmt d l : vars_atom (lit_atom l) = [] -> g_evid (ground_stmt d (ev_stmt l)) = [ev_lit l].
Proof.
  intro H. destruct l as [a|a]; simpl in *;
    unfold vars_stmt, nvars_stmt; simpl; rewrite app_nil_r, H; reflexivity.
Qed.

Lemma evid_app_ev_stmts d P ev : ev_ground ev ->
  g_evid (ground_with d (P ++ map ev_stmt ev)) = g_evid (ground_with d P) ++ ev_of ev.
Proof.
  intro H. rewrite !ground_with_evid, flat_map_app. f_equal.
  induction ev as [|l ev IH]; simpl; [reflexivity|].
  rewrite (ground_ev_stmt d l) by (apply H; left; reflexivity). simpl. f_equal.
  apply IH. intros l' Hl'. apply H. right. exact Hl'.
Qed.

Definition ev_consts (ev : list (lit atom)) : list N := flat_map (fun l => consts_atom (lit_atom l)) ev.

Lemma consts_ev_stmts ev : flat_map consts_stmt (map ev_stmt ev) = ev_consts ev.
Proof.
  unfold ev_consts. induction ev as [|l ev IH]; simpl; [reflexivity|]. rewrite IH. f_equal.
  destruct l as [a|a]; unfold consts_stmt; simpl; rewrite app_nil_r; reflexivity.
Qed.

(* subquery(G, Pr, Ev) on a program without evidence statements = top-level inference on the same
   program with Ev written as evidence statements; Ev = [] is subquery/2 *)
Theorem reduces_to_toplevel P ev g :
  no_evid P = true -> ev_ground ev -> incl (ev_consts ev) (domain P) ->
  prob (P ++ map ev_stmt ev) g = nested P (ev_of ev) g.
Proof.
  intros Hne Hg Hi.
  rewrite (toplevel_is_nested (P ++ map ev_stmt ev) P g).
  - f_equal. unfold ground. rewrite (evid_app_ev_stmts _ P ev Hg). rewrite (no_evid_ground _ P Hne). reflexivity.
  - apply strip_app. apply strip_ev_stmts.
  - apply domain_app_incl. rewrite consts_ev_stmts. exact Hi.
Qed.

(* ------------------------------------------------------------------ a fact has probability 1 *)
Section Fact.
Variable A : Type.
Variable eqb : A -> A -> bool.
Hypothesis eqb_spec : forall x y, eqb x y = true <-> x = y.
Notation nrule := (nrule A).

Lemma subset_mem I J a : subset A eqb I J = true -> mem A eqb a I = true -> mem A eqb a J = true.
Proof.
  intros H1 H2. apply (subset_spec A eqb eqb_spec) in H1. apply (mem_spec A eqb eqb_spec) in H2.
  apply (mem_spec A eqb eqb_spec). apply H1. exact H2.
Qed.

Lemma fact_in_gamma rules U Ng T q :
  In (q, []) rules -> In q U -> gamma A eqb rules U Ng = Some T -> mem A eqb q T = true.
Proof.
  intros Hr HU Hg. unfold gamma in Hg. apply lfp_iter_closed in Hg.
  apply (subset_mem _ _ q Hg). apply (mem_spec A eqb eqb_spec). unfold step. apply filter_In. split; [exact HU|].
  unfold derivable. apply existsb_exists. exists (q, []). split; [exact Hr|].
  unfold fires. simpl. rewrite (eqb_refl A eqb eqb_spec). reflexivity.
Qed.

Lemma fact_in_wfm_iter rules U q : In (q, []) rules -> In q U ->
  forall fuel T m, wfm_iter A eqb fuel rules U T = Some m -> mem A eqb q (fst m) = true.
Proof.
  intros Hr HU. induction fuel as [|f IH]; intros T m H; simpl in H; [discriminate|].
  destruct (gamma A eqb rules U T) as [Uk|] eqn:E1; [|discriminate].
  destruct (gamma A eqb rules U Uk) as [T'|] eqn:E2; [|discriminate].
  pose proof (fact_in_gamma rules U Uk T' q Hr HU E2) as HT'.
  destruct (subset A eqb T' T) eqn:Es.
  - inversion H; subst. simpl. exact (subset_mem _ _ q Es HT').
  - exact (IH T' m H).
Qed.

Lemma ind_true_fact U q chk chk' acc : In (q, []) acc -> In q U ->
  (forall T, mem A eqb q T = true -> chk T = chk' T) ->
  ind_true A eqb U chk acc = ind_true A eqb U chk' acc.
Proof.
  intros Ha HU Hc. unfold ind_true, wfm.
  destruct (wfm_iter A eqb (2 + length U) acc U []) as [m|] eqn:E; [|reflexivity].
  rewrite (Hc (fst m)); [reflexivity|]. exact (fact_in_wfm_iter acc U q Ha HU _ _ _ E).
Qed.

Lemma wsum_ext_fact F G q cs :
  (forall acc, In (q, []) acc -> F acc == G acc) ->
  forall acc, In (q, []) acc \/ In (Rule q []) cs -> wsum A F cs acc == wsum A G cs acc.
Proof.
  intro HFG. induction cs as [|c cs IH]; intros acc H; simpl.
  - destruct H as [H|[]]. apply HFG. exact H.
  - destruct c as [h b|hs b].
    + apply IH. destruct H as [H|[H|H]].
      * left. right. exact H.
      * inversion H; subst. left. left. reflexivity.
      * right. exact H.
    + rewrite !(ad_sum_expect A). apply expect_ext. intro o. apply IH.
      destruct H as [H|[H|H]]; [left|discriminate|right; exact H].
      destruct o; simpl; [right; exact H|exact H].
Qed.

Theorem fact_prob_one cs ev q p :
  In (Rule q []) cs -> prob_gen A eqb cs ev q = Ok p -> p = 1.
Proof.
  intros Hin. unfold prob_gen.
  set (U := universe A eqb cs).
  assert (In q U) as HU.
  { unfold U, universe. apply (dedup_In A eqb eqb_spec). unfold heads_of. apply in_flat_map.
    exists (Rule q []). split; [exact Hin|left; reflexivity]. }
  destruct (negb (Qeq_bool (wsum A (ind_fuel A eqb U) cs []) 0)); [discriminate|].
  destruct (negb (Qeq_bool (wsum A (ind_undef A eqb U (fun _ => true)) cs []) 0)); [discriminate|].
  set (pe := wsum A (ind_true A eqb U (fun T => holds A eqb T ev)) cs []).
  destruct (Qeq_bool pe 0) eqn:Ez; [discriminate|].
  intro H.
  assert (forall a b : Q, Ok a = Ok b -> a = b) as Hinj by (intros a b K; congruence).
  apply Hinj in H. rewrite <- H. clear H Hinj p.
  assert (wsum A (ind_true A eqb U (fun T => mem A eqb q T && holds A eqb T ev)) cs [] == pe) as E.
  { unfold pe. apply (wsum_ext_fact _ _ q); [|right; exact Hin].
    intros acc Hacc. rewrite (ind_true_fact U q _ (fun T => holds A eqb T ev) acc Hacc HU); [reflexivity|].
    intros T HT. rewrite HT. reflexivity. }
  assert (~ pe == 0) as Hnz.
  { intro K. apply Qeq_bool_iff in K. congruence. }
  transitivity (Qred 1); [|reflexivity]. apply Qred_complete. rewrite E. field. exact Hnz.
Qed.
End Fact.

(* ------------------------------------------------------------------ the wrapper *)
Lemma q_eqb_spec p q : q_eqb p q = true <-> p = q.
Proof.
  unfold q_eqb. destruct p as [a b], q as [c d]; simpl. rewrite andb_true_iff, Z.eqb_eq, Pos.eqb_eq.
  split; [intros [H1 H2]; subst; reflexivity|intro H; inversion H; split; reflexivity].
Qed.

Lemma oatom_eqb_spec : forall a b : oatom, oatom_eqb a b = true <-> a = b.
Proof.
  intros [x|[x p]] [y|[y q]]; simpl.
  - rewrite gatom_eqb_spec. split; [intro; subst; reflexivity|intro H; inversion H; reflexivity].
  - split; discriminate.
  - split; discriminate.
  - rewrite andb_true_iff, gatom_eqb_spec, q_eqb_spec.
    split; [intros [H1 H2]; subst; reflexivity|intro H; inversion H; split; reflexivity].
Qed.

Theorem wrapper_deterministic P ans oev a p :
  In a ans -> outer_prob P ans oev (inr a) = Ok p -> p = 1.
Proof.
  intros Hin H. unfold outer_prob in H.
  apply (fact_prob_one oatom oatom_eqb oatom_eqb_spec _ _ _ _) in H; [exact H|].
  unfold outer_db. apply in_or_app. right. apply in_map_iff. exists a. split; [reflexivity|exact Hin].
Qed.

Theorem wrapper_reported P ans oev a q p :
  outer_prob P ans oev q = Ok p -> exists p', outer_prob P ans oev (inr a) = Ok p'.
Proof. unfold outer_prob. apply prob_gen_error_uniform. Qed.
