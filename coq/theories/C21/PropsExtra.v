(* C21 — the score of a strategy stated against the Coq possible-world
   semantics: with the per-query probabilities being Sem.prob of the program
   in which every decision `?::d` is the fact 1::d or 0::d chosen by the
   strategy, dtproblog.evaluate computes
       sum over utility(a, r) of r * Sem.prob(P[strategy], a)
   and exhaustive search returns a strategy maximising that sum.
   Only statements, closed by `exact`. *)
From Coq Require Import QArith List Bool NArith Arith.
From PL.Sem Require Import Program Sem.
From PL.C21 Require Import ModelDTSearch ProofsDTSearch ModelDTSem ProofsDTSem.
Import ListNotations.
Local Close Scope Q_scope.

(* the guard `sem_ok` says that every utility attribute has an `Ok` probability
   (no silent default); keys_nodup / no_complement as in C21_score_is_EU *)
Theorem C21_score_is_Sem_EU :
  forall (P : program) (ds : list gatom) (atoms : N -> gatom)
         (u : list (ModelDTSearch.lit * Q)) (s : strategy),
    keys_nodup u = true -> no_complement u = true ->
    sem_ok P ds atoms u s = true ->
    (evaluate_code (sem_P P ds atoms s) u == sem_EU P ds atoms u s)%Q.
Proof. exact score_is_Sem_EU. Qed.
Print Assumptions C21_score_is_Sem_EU.

(* the two readings of the expected utility coincide (Leibniz) under the guard *)
Theorem C21_Sem_EU_unfolds :
  forall P ds atoms u s,
    sem_ok P ds atoms u s = true ->
    sem_EU P ds atoms u s = expected_utility (sem_P P ds atoms s) u.
Proof. exact sem_EU_is_expected_utility. Qed.
Print Assumptions C21_Sem_EU_unfolds.

(* exhaustive search over the score computed from the Sem probabilities returns
   an admissible strategy, reports its Sem expected utility, and no admissible
   strategy has a larger Sem expected utility *)
Theorem C21_exhaustive_optimal_Sem :
  forall (P : program) (ds : list gatom) (atoms : N -> gatom)
         (u : list (ModelDTSearch.lit * Q)) (admissible : strategy -> bool) b sc ev,
    keys_nodup u = true -> no_complement u = true ->
    (forall s, length s = length ds -> sem_ok P ds atoms u s = true) ->
    search_exhaustive (fun s => evaluate_code (sem_P P ds atoms s) u) admissible (length ds)
      = (Some (b, sc), ev) ->
    length b = length ds /\ admissible b = true /\
    (sc == sem_EU P ds atoms u b)%Q /\
    forall s, length s = length ds -> admissible s = true ->
              (sem_EU P ds atoms u s <= sem_EU P ds atoms u b)%Q.
Proof. exact exhaustive_optimal_Sem. Qed.
Print Assumptions C21_exhaustive_optimal_Sem.

(* ------------------------------------------------------------------ non-vacuity
   ?::d.  0.3::f.  r :- d, f.  utility(r, 5).  utility(d, -1).
   predicate symbols d = 0, f = 1, r = 2 (no arguments); atom id = predicate symbol *)
Definition ex_d : gatom := (0%N, []).
Definition ex_f : gatom := (1%N, []).
Definition ex_r : gatom := (2%N, []).
Definition ex_prog : program :=
  [ SClause (AD [((3 # 10)%Q, atom_of ex_f)] []);
    SClause (Rule (atom_of ex_r) [Pos (atom_of ex_d); Pos (atom_of ex_f)]) ].
Definition ex_ds : list gatom := [ex_d].
Definition ex_atoms (id : N) : gatom := (id, []).
Definition ex_u : list (ModelDTSearch.lit * Q) := [((false, 2%N), 5%Q); ((false, 0%N), (-1)%Q)].

Example C21_example_sem_prob :
  Sem.prob (apply_strategy ex_prog ex_ds [true]) ex_r = Ok (3 # 10)%Q /\
  Sem.prob (apply_strategy ex_prog ex_ds [true]) ex_d = Ok 1%Q /\
  Sem.prob (apply_strategy ex_prog ex_ds [false]) ex_r = Ok 0%Q /\
  Sem.prob (apply_strategy ex_prog ex_ds [false]) ex_d = Ok 0%Q.
Proof. vm_compute. repeat split; reflexivity. Qed.

Example C21_example_sem_guards :
  keys_nodup ex_u = true /\ no_complement ex_u = true /\
  sem_ok ex_prog ex_ds ex_atoms ex_u [false] = true /\
  sem_ok ex_prog ex_ds ex_atoms ex_u [true] = true.
Proof. vm_compute. repeat split; reflexivity. Qed.

(* EU([false]) = 0,  EU([true]) = 5 * 0.3 - 1 = 1/2 *)
Example C21_example_sem_EU :
  Qeq_bool (sem_EU ex_prog ex_ds ex_atoms ex_u [false]) 0%Q = true /\
  Qeq_bool (sem_EU ex_prog ex_ds ex_atoms ex_u [true]) (1 # 2)%Q = true /\
  Qeq_bool (evaluate_code (sem_P ex_prog ex_ds ex_atoms [true]) ex_u) (1 # 2)%Q = true.
Proof. vm_compute. repeat split; reflexivity. Qed.

Example C21_example_sem_search :
  option_map fst (fst (search_exhaustive
     (fun s => evaluate_code (sem_P ex_prog ex_ds ex_atoms s) ex_u) (fun _ => true) (length ex_ds)))
  = Some [true].
Proof. vm_compute. reflexivity. Qed.

(* a utility on a negated atom:  utility(\+r, 2).  utility(d, -1).
   EU([false]) = 2 * (1 - 0) = 2,  EU([true]) = 2 * (1 - 0.3) - 1 = 2/5: do not decide *)
Definition ex_u_neg : list (ModelDTSearch.lit * Q) := [((true, 2%N), 2%Q); ((false, 0%N), (-1)%Q)].

Example C21_example_sem_neg :
  keys_nodup ex_u_neg = true /\ no_complement ex_u_neg = true /\
  sem_ok ex_prog ex_ds ex_atoms ex_u_neg [false] = true /\
  sem_ok ex_prog ex_ds ex_atoms ex_u_neg [true] = true /\
  Qeq_bool (sem_EU ex_prog ex_ds ex_atoms ex_u_neg [false]) 2%Q = true /\
  Qeq_bool (sem_EU ex_prog ex_ds ex_atoms ex_u_neg [true]) (2 # 5)%Q = true /\
  option_map fst (fst (search_exhaustive
     (fun s => evaluate_code (sem_P ex_prog ex_ds ex_atoms s) ex_u_neg) (fun _ => true) (length ex_ds)))
  = Some [false].
Proof. vm_compute. repeat split; reflexivity. Qed.
