(* Hand model of problog/tasks/dtproblog.py: num2bits, search_exhaustive,
   search_local, evaluate; and of the MAP reduction in problog/tasks/map.py.
   A strategy is the list of 0/1 values of the decisions, in the order of the
   Python list `decisions` (ground-program node order).
   No proofs in this file: it must keep running when a proof breaks. *)
From Coq Require Import QArith List Bool NArith Arith.
Import ListNotations.

Definition strategy := list bool.

(* num2bits(n, nbits): bits[nbits - i] = bool(n % 2); n >>= 1   for i = 1..nbits
   (the FIRST decision is the most significant bit) *)
Fixpoint num2bits_aux (k : nat) (n : N) (acc : list bool) : list bool :=
  match k with
  | O => acc
  | S k' => num2bits_aux k' (N.div2 n) (N.odd n :: acc)
  end.
Definition num2bits (n : N) (nbits : nat) : strategy := num2bits_aux nbits n [].

(* range(0, 1 << nbits) *)
Definition all_numbers (nbits : nat) : list N := map N.of_nat (seq 0 (2 ^ nbits)).
Definition all_strategies (nbits : nat) : list strategy :=
  map (fun i => num2bits i nbits) (all_numbers nbits).

(* choices[key] = 1 - choices[key] *)
Fixpoint flip (i : nat) (s : strategy) : strategy :=
  match s, i with
  | [], _ => []
  | b :: t, O => negb b :: t
  | b :: t, S i' => b :: flip i' t
  end.

(* scores given as a table indexed by the strategy read as a binary number
   (first decision = most significant bit): used to run the model on the
   exact expected-utility table computed by the harness *)
Definition strategy_index (s : strategy) : nat :=
  fold_left (fun (acc : nat) (b : bool) => (2 * acc + (if b then 1 else 0))%nat) s 0%nat.
Definition table_score (t : list Q) (s : strategy) : Q := nth (strategy_index s) t 0%Q.

Section Search.
  (* evaluate(formula, choices, utilities) as a function of the strategy *)
  Variable score : strategy -> Q.
  (* the constraint filter: all(c.check(values) for c in constraints) *)
  Variable admissible : strategy -> bool.

  (* ---------------------------------------------------------------- search_exhaustive
     state = (best_choice/best_score or None, stats['eval']) *)
  Definition ex_state := (option (strategy * Q) * nat)%type.

  Definition ex_step (st : ex_state) (s : strategy) : ex_state :=
    if admissible s then
      let sc := score s in
      match fst st with
      | None => (Some (s, sc), S (snd st))
      | Some (_, bs) =>
          (* `score > best_score` *)
          if Qle_bool sc bs then (fst st, S (snd st)) else (Some (s, sc), S (snd st))
      end
    else st.

  Definition search_exhaustive (nbits : nat) : ex_state :=
    fold_left ex_step (all_strategies nbits) (None, O).

  (* ---------------------------------------------------------------- search_local
     One machine step per iteration of the inner `for`, plus one step for the
     end of a pass.  `last` is the index of last_update (decision keys are
     pairwise different, so `last_update == key` is index equality).
     Fuel exhaustion returns None. *)
  Record lstate := { l_choices : strategy; l_best : Q; l_evals : nat }.

  Definition is_last (last : option nat) (pos : nat) : bool :=
    match last with Some p => Nat.eqb p pos | None => false end.

  Fixpoint local_loop (fuel : nat) (n pos : nat) (last : option nat) (st : lstate) : option lstate :=
    match fuel with
    | O => None
    | S fuel' =>
        if Nat.eqb pos n then
          (* end of the for loop: `if last_update is None: stop = True` *)
          match last with
          | None => Some st
          | Some _ => local_loop fuel' n 0 last st
          end
        else if is_last last pos then
          (* `if last_update == key: stop = True; break` *)
          Some st
        else
          let c' := flip pos (l_choices st) in
          let fs := score c' in
          if Qle_bool fs (l_best st) then
            (* `flip_score <= best_score`: undo the flip *)
            local_loop fuel' n (S pos) last
              {| l_choices := l_choices st; l_best := l_best st; l_evals := S (l_evals st) |}
          else
            local_loop fuel' n (S pos) (Some pos)
              {| l_choices := c'; l_best := fs; l_evals := S (l_evals st) |}
    end.

  (* initial strategy: 1 iff `key in utilities and float(utilities[key]) > 0` *)
  Definition init_choices (own_utility : list (option Q)) : strategy :=
    map (fun u => match u with Some q => negb (Qle_bool q 0) | None => false end) own_utility.

  Definition search_local (fuel : nat) (init : strategy) : option lstate :=
    local_loop fuel (length init) 0 None {| l_choices := init; l_best := score init; l_evals := 1 |}.

  (* fuel that always suffices (see C21_local_terminates) *)
  Definition local_fuel (n : nat) : nat := (2 ^ n + 1) * (n + 1).
End Search.

(* ------------------------------------------------------------------ constraints
   ConstraintAD.check over the decision nodes of one AD: `sum(actual) == 1`
   (exactly one), trivially true when the AD has at most one node. *)
Fixpoint count_true (idx : list nat) (s : strategy) : nat :=
  match idx with
  | [] => O
  | i :: t => (if nth i s false then 1 else 0) + count_true t s
  end.
Definition ad_check (group : list nat) (s : strategy) : bool :=
  (length group <=? 1) || (count_true group s =? 1).
Definition ads_admissible (groups : list (list nat)) (s : strategy) : bool :=
  forallb (fun g => ad_check g s) groups.

(* ------------------------------------------------------------------ evaluate
   result = formula.evaluate(weights=decisions); for r in result:
     score += result[r] * utilities.get(r, 0) + (1 - result[r]) * utilities.get(-r, 0)
   The queries are exactly the keys of `utilities` (dtproblog) .
   A literal is (negated?, atom id); P gives the probability of the atom. *)
Definition lit := (bool * N)%type.
Definition negl (l : lit) : lit := (negb (fst l), snd l).
Definition lit_eqb (a b : lit) : bool := Bool.eqb (fst a) (fst b) && N.eqb (snd a) (snd b).

Fixpoint uget (u : list (lit * Q)) (k : lit) : Q :=
  match u with
  | [] => 0
  | (k', r) :: t => if lit_eqb k' k then r else uget t k
  end.

Section Evaluate.
  Variable P : N -> Q.   (* success probability of each atom under the strategy *)
  Definition plit (l : lit) : Q := if fst l then 1 - P (snd l) else P (snd l).

  Definition evaluate_code_over (queries : list lit) (u : list (lit * Q)) : Q :=
    fold_right (fun r acc => plit r * uget u r + (1 - plit r) * uget u (negl r) + acc) 0 queries.
  (* dtproblog: queries = utilities.keys() *)
  Definition evaluate_code (u : list (lit * Q)) : Q := evaluate_code_over (map fst u) u.

  (* the specification: sum over utility attributes of reward * P(attribute) *)
  Definition expected_utility (u : list (lit * Q)) : Q :=
    fold_right (fun kr acc => snd kr * plit (fst kr) + acc) 0 u.
End Evaluate.

(* keys pairwise different (python dict) *)
Fixpoint keys_nodup (u : list (lit * Q)) : bool :=
  match u with
  | [] => true
  | (k, _) :: t => negb (existsb (fun kr => lit_eqb (fst kr) k) t) && keys_nodup t
  end.
(* no atom carries a utility on both polarities *)
Definition no_complement (u : list (lit * Q)) : bool :=
  forallb (fun kr => negb (existsb (fun kr' => lit_eqb (fst kr') (negl (fst kr))) u)) u.

(* ------------------------------------------------------------------ MAP (tasks/map.py)
   decisions = the queried facts; utilities[q] = m_q, utilities[-q] = 1 - m_q
   with m_q the marginal of q given the evidence; evaluate() on a strategy s
   gives result[q] = s_q, hence this objective: *)
Fixpoint map_objective (m : list Q) (s : strategy) : Q :=
  match m, s with
  | mq :: m', b :: s' => (if b then mq else 1 - mq) + map_objective m' s'
  | _, _ => 0
  end.
(* evidence that sits on a queried fact becomes TrueConstraint(node); only constraints on a
   positive decision node survive the filter `set(c.get_nodes()) & decision_nodes`, and
   TrueConstraint.check then requires that decision to be 1 *)
Definition forced_admissible (forced : list nat) (s : strategy) : bool :=
  forallb (fun i => nth i s false) forced.
Definition map_threshold (m : list Q) : strategy :=
  map (fun mq => negb (Qle_bool mq (1 - mq))) m.
