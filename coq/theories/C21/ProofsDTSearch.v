(* Lemmas about the model of dtproblog.py / map.py. *)
From Coq Require Import QArith List Bool NArith Arith Lia Wf_nat.
From PL.C21 Require Import ModelDTSearch.
Import ListNotations.
Local Close Scope Q_scope.

(* ------------------------------------------------------------------ num2bits enumerates every strategy *)
Definition b2nat (b : bool) : nat := if b then 1 else 0.
Definition bits2nat (s : strategy) : nat := fold_left (fun acc b => 2 * acc + b2nat b) s 0.

Lemma num2bits_aux_app : forall k n acc, num2bits_aux k n acc = num2bits_aux k n [] ++ acc.
Proof.
  induction k as [|k IH]; intros n acc; cbn [num2bits_aux].
  - reflexivity.
  - rewrite (IH _ (N.odd n :: acc)), (IH _ [N.odd n]). rewrite <- app_assoc. reflexivity.
Qed.

Lemma num2bits_length : forall k n, length (num2bits n k) = k.
Proof.
  unfold num2bits. induction k as [|k IH]; intros n; cbn [num2bits_aux].
  - reflexivity.
  - rewrite num2bits_aux_app, app_length, IH. cbn. lia.
Qed.

Lemma bits2nat_snoc : forall s b, bits2nat (s ++ [b]) = 2 * bits2nat s + b2nat b.
Proof. intros s b. unfold bits2nat. rewrite fold_left_app. reflexivity. Qed.

Lemma of_nat_double_b : forall x b, N.of_nat (2 * x + b2nat b) = (N.b2n b + 2 * N.of_nat x)%N.
Proof. intros x b. destruct b; cbn [b2nat N.b2n]; lia. Qed.

Lemma num2bits_bits2nat : forall s, num2bits (N.of_nat (bits2nat s)) (length s) = s.
Proof.
  induction s as [|b s IH] using rev_ind.
  - reflexivity.
  - rewrite app_length, bits2nat_snoc. cbn [length]. rewrite Nat.add_1_r.
    unfold num2bits. cbn [num2bits_aux]. rewrite num2bits_aux_app.
    rewrite of_nat_double_b.
    rewrite N.div2_div, N.add_b2n_double_div2.
    rewrite <- N.bit0_odd, N.add_b2n_double_bit0.
    unfold num2bits in IH. rewrite IH. reflexivity.
Qed.

Lemma bits2nat_bound : forall s, bits2nat s < 2 ^ length s.
Proof.
  induction s as [|b s IH] using rev_ind.
  - cbn. lia.
  - rewrite app_length, bits2nat_snoc. cbn [length]. rewrite Nat.add_1_r, Nat.pow_succ_r'.
    destruct b; cbn [b2nat]; lia.
Qed.

Lemma all_strategies_complete : forall n s, length s = n -> In s (all_strategies n).
Proof.
  intros n s <-. unfold all_strategies, all_numbers.
  apply in_map_iff. exists (N.of_nat (bits2nat s)). split.
  - apply num2bits_bits2nat.
  - apply in_map. apply in_seq. pose proof (bits2nat_bound s). lia.
Qed.

Lemma all_strategies_length : forall n s, In s (all_strategies n) -> length s = n.
Proof.
  intros n s H. unfold all_strategies in H. apply in_map_iff in H.
  destruct H as [i [<- _]]. apply num2bits_length.
Qed.

Lemma all_strategies_count : forall n, length (all_strategies n) = 2 ^ n.
Proof. intros n. unfold all_strategies, all_numbers. now rewrite !map_length, seq_length. Qed.

(* ------------------------------------------------------------------ Q order helpers *)
Lemma Qle_bool_false_lt : forall x y, Qle_bool x y = false -> (y < x)%Q.
Proof.
  intros x y H. apply Qnot_le_lt. intro L. apply Qle_bool_iff in L. congruence.
Qed.

Lemma Qle_bool_true_le : forall x y, Qle_bool x y = true -> (x <= y)%Q.
Proof. intros x y H. now apply Qle_bool_iff. Qed.

(* ------------------------------------------------------------------ search_exhaustive *)
Section Exhaustive.
  Variable score : strategy -> Q.
  Variable admissible : strategy -> bool.

  Definition ex_inv (st : ex_state) (seen : list strategy) : Prop :=
    snd st = length (filter admissible seen) /\
    match fst st with
    | None => forall s, In s seen -> admissible s = false
    | Some (b, sc) =>
        In b seen /\ admissible b = true /\ sc = score b /\
        forall s, In s seen -> admissible s = true -> (score s <= score b)%Q
    end.

  Lemma ex_step_inv : forall st seen s,
      ex_inv st seen -> ex_inv (ex_step score admissible st s) (seen ++ [s]).
  Proof.
    intros [best ev] seen s [Hev Hb]. cbn [fst snd] in *.
    unfold ex_step. cbn [fst snd].
    destruct (admissible s) eqn:Ha.
    - destruct best as [[b sc]|].
      + destruct Hb as (Hin & Hadm & Hsc & Hmax).
        destruct (Qle_bool (score s) sc) eqn:Hc; unfold ex_inv; cbn [fst snd].
        * split.
          { rewrite filter_app, app_length. cbn [filter]. rewrite Ha. cbn. lia. }
          split; [apply in_or_app; now left|]. split; [assumption|]. split; [assumption|].
          intros s' Hs' Ha'. apply in_app_or in Hs'. destruct Hs' as [Hs'|[<-|[]]].
          -- now apply Hmax.
          -- apply Qle_bool_true_le in Hc. now rewrite <- Hsc.
        * split.
          { rewrite filter_app, app_length. cbn [filter]. rewrite Ha. cbn. lia. }
          split; [apply in_or_app; right; now left|]. split; [assumption|]. split; [reflexivity|].
          intros s' Hs' Ha'. apply in_app_or in Hs'. destruct Hs' as [Hs'|[<-|[]]].
          -- apply Qle_bool_false_lt in Hc. rewrite Hsc in Hc.
             apply Qle_trans with (score b); [now apply Hmax | now apply Qlt_le_weak].
          -- apply Qle_refl.
      + unfold ex_inv; cbn [fst snd]. split.
        { rewrite filter_app, app_length. cbn [filter]. rewrite Ha. cbn. lia. }
        split; [apply in_or_app; right; now left|]. split; [assumption|]. split; [reflexivity|].
        intros s' Hs' Ha'. apply in_app_or in Hs'. destruct Hs' as [Hs'|[<-|[]]].
        -- rewrite (Hb _ Hs') in Ha'. discriminate.
        -- apply Qle_refl.
    - unfold ex_inv; cbn [fst snd]. split.
      { rewrite filter_app, app_length. cbn [filter]. rewrite Ha. cbn. lia. }
      destruct best as [[b sc]|].
      + destruct Hb as (Hin & Hadm & Hsc & Hmax).
        split; [apply in_or_app; now left|]. split; [assumption|]. split; [assumption|].
        intros s' Hs' Ha'. apply in_app_or in Hs'. destruct Hs' as [Hs'|[<-|[]]].
        -- now apply Hmax.
        -- congruence.
      + intros s' Hs'. apply in_app_or in Hs'. destruct Hs' as [Hs'|[<-|[]]]; auto.
  Qed.

  Lemma ex_fold_inv : forall l st seen,
      ex_inv st seen -> ex_inv (fold_left (ex_step score admissible) l st) (seen ++ l).
  Proof.
    induction l as [|s l IH]; intros st seen H.
    - now rewrite app_nil_r.
    - cbn [fold_left]. replace (seen ++ s :: l) with ((seen ++ [s]) ++ l) by now rewrite <- app_assoc.
      apply IH. now apply ex_step_inv.
  Qed.

  Lemma search_exhaustive_inv : forall n,
      ex_inv (search_exhaustive score admissible n) (all_strategies n).
  Proof.
    intros n. unfold search_exhaustive.
    change (all_strategies n) with ([] ++ all_strategies n) at 2.
    apply ex_fold_inv. split; [reflexivity|]. intros s [].
  Qed.

  (* the returned strategy is admissible, of the right length, its reported
     score is its score, and no admissible strategy scores higher *)
  Lemma exhaustive_optimal : forall n b sc ev,
      search_exhaustive score admissible n = (Some (b, sc), ev) ->
      length b = n /\ admissible b = true /\ sc = score b /\
      forall s, length s = n -> admissible s = true -> (score s <= score b)%Q.
  Proof.
    intros n b sc ev H. pose proof (search_exhaustive_inv n) as [_ Hb].
    rewrite H in Hb. cbn [fst] in Hb. destruct Hb as (Hin & Ha & Hsc & Hmax).
    split; [now apply all_strategies_length|]. split; [assumption|]. split; [assumption|].
    intros s Hl Hs. apply Hmax; [now apply all_strategies_complete | assumption].
  Qed.

  (* a strategy is returned whenever an admissible one exists *)
  Lemma exhaustive_finds : forall n s,
      length s = n -> admissible s = true ->
      exists b sc ev, search_exhaustive score admissible n = (Some (b, sc), ev).
  Proof.
    intros n s Hl Ha. pose proof (search_exhaustive_inv n) as [_ Hb].
    destruct (search_exhaustive score admissible n) as [[[b sc]|] ev] eqn:E.
    - now exists b, sc, ev.
    - cbn [fst] in Hb. rewrite (Hb s (all_strategies_complete n s Hl)) in Ha. discriminate.
  Qed.

  Lemma exhaustive_none : forall n ev,
      search_exhaustive score admissible n = (None, ev) ->
      forall s, length s = n -> admissible s = false.
  Proof.
    intros n ev H s Hl. pose proof (search_exhaustive_inv n) as [_ Hb].
    rewrite H in Hb. cbn [fst] in Hb. apply Hb. now apply all_strategies_complete.
  Qed.

  (* stats['eval'] = number of admissible strategies *)
  Lemma exhaustive_evals : forall n,
      snd (search_exhaustive score admissible n) = length (filter admissible (all_strategies n)).
  Proof. intros n. now destruct (search_exhaustive_inv n). Qed.
End Exhaustive.

(* ------------------------------------------------------------------ flip *)
Lemma flip_length : forall i s, length (flip i s) = length s.
Proof.
  intros i s; revert i. induction s as [|b t IH]; intros [|i]; cbn [flip length]; auto.
Qed.

Lemma flip_flip : forall i s, flip i (flip i s) = s.
Proof.
  intros i s; revert i. induction s as [|b t IH]; intros [|i]; cbn [flip]; auto.
  - now rewrite negb_involutive.
  - now rewrite IH.
Qed.

Lemma flip_nth_same : forall i s, i < length s -> nth i (flip i s) false = negb (nth i s false).
Proof.
  intros i s; revert i. induction s as [|b t IH]; intros [|i] H; cbn [flip nth length] in *; try lia; auto.
  apply IH. lia.
Qed.

(* ------------------------------------------------------------------ search_local *)
Section Local.
  Variable score : strategy -> Q.

  Definition one_opt_at (c : strategy) (j : nat) : Prop := (score (flip j c) <= score c)%Q.

  Definition linv (n pos : nat) (last : option nat) (st : lstate) : Prop :=
    pos <= n /\ length (l_choices st) = n /\ l_best st = score (l_choices st) /\
    match last with
    | None => forall j, j < pos -> one_opt_at (l_choices st) j
    | Some p =>
        p < n /\ one_opt_at (l_choices st) p /\
        (p < pos -> forall j, p < j < pos -> one_opt_at (l_choices st) j) /\
        (pos <= p -> forall j, (p < j < n \/ j < pos) -> one_opt_at (l_choices st) j)
    end.

  Lemma local_loop_sound : forall fuel n pos last st res,
      linv n pos last st ->
      local_loop score fuel n pos last st = Some res ->
      length (l_choices res) = n /\ l_best res = score (l_choices res) /\
      forall j, j < n -> one_opt_at (l_choices res) j.
  Proof.
    induction fuel as [|fuel IH]; intros n pos last st res Hinv Hrun; [discriminate|].
    cbn [local_loop] in Hrun.
    destruct Hinv as (Hpos & Hlen & Hbest & Hlast).
    destruct (Nat.eqb pos n) eqn:Epn.
    - apply Nat.eqb_eq in Epn. subst pos.
      destruct last as [p|].
      + (* new pass *)
        apply IH in Hrun; [assumption|].
        destruct Hlast as (Hp & Hpp & Hgt & Hle).
        split; [lia|]. split; [assumption|]. split; [assumption|].
        split; [assumption|]. split; [assumption|]. split.
        * intros Hc. lia.
        * intros _ j [Hj|Hj]; [apply Hgt; lia | lia].
      + inversion Hrun; subst res. split; [assumption|]. split; [assumption|].
        intros j Hj. now apply Hlast.
    - apply Nat.eqb_neq in Epn.
      destruct (is_last last pos) eqn:El.
      + destruct last as [p|]; [|discriminate]. cbn [is_last] in El. apply Nat.eqb_eq in El. subst p.
        inversion Hrun; subst res. split; [assumption|]. split; [assumption|].
        destruct Hlast as (Hp & Hpp & Hgt & Hle).
        intros j Hj. destruct (Nat.eq_dec j pos) as [->|Hne]; [assumption|].
        apply Hle; lia.
      + destruct (Qle_bool (score (flip pos (l_choices st))) (l_best st)) eqn:Ec.
        * (* undo *)
          apply IH in Hrun; [assumption|]. unfold linv. cbn [l_choices l_best].
          apply Qle_bool_true_le in Ec. rewrite Hbest in Ec.
          split; [lia|]. split; [assumption|]. split; [assumption|].
          destruct last as [p|].
          -- cbn [is_last] in El. apply Nat.eqb_neq in El.
             destruct Hlast as (Hp & Hpp & Hgt & Hle).
             split; [assumption|]. split; [assumption|]. split.
             ++ intros Hc j Hj. destruct (Nat.eq_dec j pos) as [->|Hne]; [exact Ec|].
                apply Hgt; lia.
             ++ intros Hc j Hj. destruct (Nat.eq_dec j pos) as [->|Hne]; [exact Ec|].
                apply Hle; lia.
          -- intros j Hj. destruct (Nat.eq_dec j pos) as [->|Hne]; [exact Ec|].
             apply Hlast; lia.
        * (* improvement *)
          apply IH in Hrun; [assumption|]. unfold linv. cbn [l_choices l_best].
          apply Qle_bool_false_lt in Ec. rewrite Hbest in Ec.
          split; [lia|]. split; [now rewrite flip_length|]. split; [reflexivity|].
          split; [lia|]. split.
          -- unfold one_opt_at. rewrite flip_flip. now apply Qlt_le_weak.
          -- split; intros Hc j Hj; lia.
  Qed.

  Lemma search_local_sound : forall fuel init res,
      search_local score fuel init = Some res ->
      length (l_choices res) = length init /\ l_best res = score (l_choices res) /\
      forall j, j < length init -> (score (flip j (l_choices res)) <= score (l_choices res))%Q.
  Proof.
    intros fuel init res H. unfold search_local in H.
    eapply local_loop_sound in H; [exact H|].
    split; [lia|]. split; [reflexivity|]. split; [reflexivity|]. intros j Hj. lia.
  Qed.

  (* ---------------- termination: the score strictly increases, so the number
     of strategies scoring strictly higher than the current one decreases *)
  Definition better (c s : strategy) : bool := negb (Qle_bool (score s) (score c)).
  Definition rank (n : nat) (c : strategy) : nat := length (filter (better c) (all_strategies n)).

  Lemma filter_length_lt : forall (A : Type) (f g : A -> bool) (l : list A) (x0 : A),
      (forall x, f x = true -> g x = true) -> In x0 l -> g x0 = true -> f x0 = false ->
      length (filter f l) < length (filter g l).
  Proof.
    intros A f g l x0 Hfg. induction l as [|x l IH]; intros Hin Hg Hf; [destruct Hin|].
    assert (Hle : forall l', length (filter f l') <= length (filter g l')).
    { induction l' as [|y l' IH']; cbn [filter]; [lia|].
      destruct (f y) eqn:Fy; [rewrite (Hfg _ Fy); cbn; lia|].
      destruct (g y); cbn; lia. }
    cbn [filter]. destruct Hin as [->|Hin].
    - rewrite Hg, Hf. cbn [length]. specialize (Hle l). lia.
    - specialize (IH Hin Hg Hf). destruct (f x) eqn:Fx; [rewrite (Hfg _ Fx); cbn; lia|].
      destruct (g x); cbn; lia.
  Qed.

  Lemma rank_decreases : forall n c c',
      length c' = n -> Qle_bool (score c') (score c) = false -> rank n c' < rank n c.
  Proof.
    intros n c c' Hl Hc. unfold rank. apply filter_length_lt with (x0 := c').
    - intros x Hx. unfold better in *. apply negb_true_iff in Hx. apply negb_true_iff.
      apply Qle_bool_false_lt in Hx. apply Qle_bool_false_lt in Hc.
      destruct (Qle_bool (score x) (score c)) eqn:E; [|reflexivity].
      apply Qle_bool_true_le in E. exfalso.
      apply (Qlt_irrefl (score x)). apply Qle_lt_trans with (score c); [assumption|].
      now apply Qlt_trans with (score c').
    - now apply all_strategies_complete.
    - unfold better. now rewrite Hc.
    - unfold better. apply negb_false_iff. apply Qle_bool_iff. apply Qle_refl.
  Qed.

  Lemma rank_bound : forall n c, rank n c <= 2 ^ n.
  Proof.
    intros n c. unfold rank. rewrite <- (all_strategies_count n).
    generalize (all_strategies n). induction l as [|x l IH]; cbn [filter length]; [lia|].
    destruct (better c x); cbn [length]; lia.
  Qed.

  (* machine steps until the stop rule fires if no flip improves *)
  Definition dist (n pos : nat) (last : option nat) : nat :=
    match last with
    | None => (n - pos) + 1
    | Some p => if pos <=? p then (p - pos) + 1 else (n - pos) + 1 + p + 1
    end.

  Definition lvalid (n pos : nat) (last : option nat) : Prop :=
    pos <= n /\ match last with None => True | Some p => p < n end.

  Lemma local_loop_terminates : forall n r d pos last st fuel,
      lvalid n pos last -> length (l_choices st) = n -> l_best st = score (l_choices st) ->
      rank n (l_choices st) <= r -> dist n pos last <= d ->
      r * (n + 1) + d <= fuel ->
      local_loop score fuel n pos last st <> None.
  Proof.
    intros n. induction r as [|r IHr].
    - (* no strictly better strategy exists: no flip can improve *)
      induction d as [d IHd] using lt_wf_ind.
      intros pos last st fuel [Hpos Hlast] Hlen Hbest Hrank Hdist Hfuel.
      assert (Hd : 1 <= dist n pos last).
      { unfold dist. destruct last as [p|]; [destruct (pos <=? p)|]; lia. }
      destruct fuel as [|fuel]; [lia|]. cbn [local_loop].
      destruct (Nat.eqb pos n) eqn:Epn.
      + apply Nat.eqb_eq in Epn. subst pos. destruct last as [p|]; [|discriminate].
        apply (IHd (d - 1)); try assumption; try lia.
        * split; [lia|assumption].
        * unfold dist in *. destruct (n <=? p) eqn:E1; [apply Nat.leb_le in E1; lia|].
          cbn [Nat.leb]. lia.
      + apply Nat.eqb_neq in Epn.
        destruct (is_last last pos) eqn:El; [discriminate|].
        destruct (Qle_bool (score (flip pos (l_choices st))) (l_best st)) eqn:Ec.
        * apply (IHd (d - 1)); cbn [l_choices l_best]; try assumption; try lia.
          -- split; [lia|assumption].
          -- unfold dist in *. destruct last as [p|]; [|lia].
             cbn [is_last] in El. apply Nat.eqb_neq in El.
             destruct (pos <=? p) eqn:E1.
             ++ apply Nat.leb_le in E1. assert (E2 : S pos <=? p = true) by (apply Nat.leb_le; lia).
                rewrite E2. lia.
             ++ apply Nat.leb_gt in E1. assert (E2 : S pos <=? p = false) by (apply Nat.leb_gt; lia).
                rewrite E2. lia.
        * exfalso. rewrite Hbest in Ec.
          pose proof (rank_decreases n (l_choices st) (flip pos (l_choices st))) as Hr.
          rewrite flip_length in Hr. specialize (Hr Hlen Ec). lia.
    - induction d as [d IHd] using lt_wf_ind.
      intros pos last st fuel [Hpos Hlast] Hlen Hbest Hrank Hdist Hfuel.
      assert (Hd : 1 <= dist n pos last).
      { unfold dist. destruct last as [p|]; [destruct (pos <=? p)|]; lia. }
      destruct fuel as [|fuel]; [lia|]. cbn [local_loop].
      destruct (Nat.eqb pos n) eqn:Epn.
      + apply Nat.eqb_eq in Epn. subst pos. destruct last as [p|]; [|discriminate].
        apply (IHd (d - 1)); try assumption; try lia.
        * split; [lia|assumption].
        * unfold dist in *. destruct (n <=? p) eqn:E1; [apply Nat.leb_le in E1; lia|].
          cbn [Nat.leb]. lia.
      + apply Nat.eqb_neq in Epn.
        destruct (is_last last pos) eqn:El; [discriminate|].
        destruct (Qle_bool (score (flip pos (l_choices st))) (l_best st)) eqn:Ec.
        * apply (IHd (d - 1)); cbn [l_choices l_best]; try assumption; try lia.
          -- split; [lia|assumption].
          -- unfold dist in *. destruct last as [p|]; [|lia].
             cbn [is_last] in El. apply Nat.eqb_neq in El.
             destruct (pos <=? p) eqn:E1.
             ++ apply Nat.leb_le in E1. assert (E2 : S pos <=? p = true) by (apply Nat.leb_le; lia).
                rewrite E2. lia.
             ++ apply Nat.leb_gt in E1. assert (E2 : S pos <=? p = false) by (apply Nat.leb_gt; lia).
                rewrite E2. lia.
        * (* improvement: rank drops, distance is reset to n + 1 *)
          rewrite Hbest in Ec.
          pose proof (rank_decreases n (l_choices st) (flip pos (l_choices st))) as Hr.
          rewrite flip_length in Hr. specialize (Hr Hlen Ec).
          apply (IHr (n + 1)); cbn [l_choices l_best].
          -- split; [lia|lia].
          -- now rewrite flip_length.
          -- reflexivity.
          -- lia.
          -- unfold dist. assert (E2 : S pos <=? pos = false) by (apply Nat.leb_gt; lia).
             rewrite E2. lia.
          -- cbn [Nat.mul] in Hfuel. lia.
  Qed.

  Lemma search_local_terminates : forall init fuel,
      local_fuel (length init) <= fuel -> search_local score fuel init <> None.
  Proof.
    intros init fuel Hf. unfold search_local.
    apply local_loop_terminates with (r := 2 ^ length init) (d := length init + 1); cbn [l_choices l_best].
    - split; [lia|exact I].
    - reflexivity.
    - reflexivity.
    - apply rank_bound.
    - unfold dist. lia.
    - unfold local_fuel in Hf. lia.
  Qed.
End Local.

(* ------------------------------------------------------------------ evaluate = expected utility *)
Lemma lit_eqb_eq : forall a b, lit_eqb a b = true <-> a = b.
Proof.
  intros [a1 a2] [b1 b2]. unfold lit_eqb. cbn [fst snd]. rewrite andb_true_iff, N.eqb_eq.
  split.
  - intros [H1 H2]. apply eqb_prop in H1. now subst.
  - intros H. inversion H. subst. split; [apply eqb_reflx|reflexivity].
Qed.

Lemma uget_notin : forall u k,
    existsb (fun kr => lit_eqb (fst kr) k) u = false -> uget u k = 0%Q.
Proof.
  induction u as [|[k' r] u IH]; intros k H; cbn [uget existsb fst] in *; [reflexivity|].
  apply orb_false_iff in H. destruct H as [H1 H2]. rewrite H1. now apply IH.
Qed.

Section EvalProofs.
  Variable P : N -> Q.

  Lemma evaluate_over_sound : forall (u l : list (lit * Q)),
      (forall k r, In (k, r) l -> uget u k = r /\ uget u (negl k) = 0%Q) ->
      (evaluate_code_over P (map fst l) u == expected_utility P l)%Q.
  Proof.
    intros u. induction l as [|[k r] l IH]; intros H; cbn [map fst evaluate_code_over expected_utility fold_right snd].
    - reflexivity.
    - destruct (H k r (or_introl eq_refl)) as [H1 H2].
      fold (evaluate_code_over P (map fst l) u). fold (expected_utility P l).
      rewrite IH by (intros k' r' Hin; apply H; now right).
      rewrite H1, H2. ring.
  Qed.

  Lemma uget_in_nodup : forall u k r, keys_nodup u = true -> In (k, r) u -> uget u k = r.
  Proof.
    induction u as [|[k' r'] u IH]; intros k r Hnd Hin; [destruct Hin|].
    cbn [keys_nodup] in Hnd. apply andb_true_iff in Hnd. destruct Hnd as [Hn1 Hn2].
    cbn [uget]. destruct Hin as [E|Hin].
    - inversion E; subst. assert (Hk : lit_eqb k k = true) by now apply lit_eqb_eq.
      now rewrite Hk.
    - destruct (lit_eqb k' k) eqn:Ek.
      + apply lit_eqb_eq in Ek. subst k'. apply negb_true_iff in Hn1.
        exfalso. assert (Hex : existsb (fun kr => lit_eqb (fst kr) k) u = true).
        { apply existsb_exists. exists (k, r). split; [assumption|]. cbn [fst]. now apply lit_eqb_eq. }
        congruence.
      + now apply IH.
  Qed.

  (* reported score = expected utility, unless some atom has a utility on both polarities *)
  Lemma evaluate_code_is_EU : forall u,
      keys_nodup u = true -> no_complement u = true ->
      (evaluate_code P u == expected_utility P u)%Q.
  Proof.
    intros u Hnd Hnc. unfold evaluate_code. apply evaluate_over_sound.
    intros k r Hin. split; [now apply uget_in_nodup|].
    apply uget_notin. unfold no_complement in Hnc. rewrite forallb_forall in Hnc.
    specialize (Hnc _ Hin). cbn [fst] in Hnc. now apply negb_true_iff in Hnc.
  Qed.
End EvalProofs.

(* ------------------------------------------------------------------ MAP objective *)
Lemma map_threshold_length : forall m, length (map_threshold m) = length m.
Proof. intros m. unfold map_threshold. apply map_length. Qed.

Lemma map_threshold_optimal : forall m s,
    length s = length m -> (map_objective m s <= map_objective m (map_threshold m))%Q.
Proof.
  unfold map_threshold.
  induction m as [|mq m IH]; intros [|b s] Hl; cbn [length] in Hl; try discriminate Hl.
  - cbn. apply Qle_refl.
  - cbn [map map_objective].
    apply Qplus_le_compat; [|apply IH; lia].
    destruct (Qle_bool mq (1 - mq)) eqn:E; cbn [negb].
    + apply Qle_bool_true_le in E. destruct b; [assumption|apply Qle_refl].
    + apply Qle_bool_false_lt in E. destruct b; [apply Qle_refl|now apply Qlt_le_weak].
Qed.
