(* Refutation witnesses for problog/tasks/dtproblog.py and map.py AS THEY ARE
   at the pinned commit; outside the cone of Props.v. *)
From Coq Require Import QArith List Bool NArith Arith.
From PL.C21 Require Import ModelDTSearch ProofsDTSearch.
Import ListNotations.
Local Close Scope Q_scope.

(* utility(a, 5). utility(\+a, 2).  with P(a) = 3/10: evaluate() adds both
   attributes once for the query `a` and once more for the query `\+a`. *)
Definition w_u : list (lit * Q) := [((false, 1%N), 5%Q); ((true, 1%N), 2%Q)].
Theorem C21_evaluate_both_polarities_refuted :
  exists (P : N -> Q) u, keys_nodup u = true /\
    ~ (evaluate_code P u == expected_utility P u)%Q.
Proof.
  exists (fun _ => (3 # 10)%Q), w_u. split; [reflexivity|].
  vm_compute. discriminate.
Qed.

(* ?::d. 0.3::f. a :- d, f. utility(a,5). utility(\+a,2). utility(d,-1).
   atom 0 = d, atom 1 = a.  Exhaustive search over the code's objective
   returns d=1 (reported 24/5) although EU(d=1) = 19/10 < EU(d=0) = 2. *)
Definition w_P (s : strategy) (a : N) : Q :=
  let d := match s with true :: _ => 1%Q | _ => 0%Q end in
  if N.eqb a 0 then d else ((3 # 10) * d)%Q.
Definition w_u2 : list (lit * Q) := [((false, 1%N), 5%Q); ((true, 1%N), 2%Q); ((false, 0%N), (-1)%Q)].
Theorem C21_exhaustive_code_objective_refuted :
  match fst (search_exhaustive (fun s => evaluate_code (w_P s) w_u2) (fun _ => true) 1) with
  | Some (b, r) =>
      (expected_utility (w_P b) w_u2 < expected_utility (w_P [false]) w_u2)%Q /\
      ~ (r == expected_utility (w_P b) w_u2)%Q
  | None => False
  end.
Proof. vm_compute. split; [reflexivity|discriminate]. Qed.

(* MAP: 0.7::a. 0.7::b. e :- a, b. evidence(e, false). query(a). query(b).
   joint posterior of (a,b): 00 -> 9/51, 01 -> 21/51, 10 -> 21/51, 11 -> 0;
   posterior marginals 21/51 each, so the coded objective picks (0,0), whose
   joint posterior 9/51 is below that of (1,0). *)
Definition w_joint (s : strategy) : Q :=
  match s with
  | [false; false] => (9 # 51)%Q | [false; true] => (21 # 51)%Q
  | [true; false] => (21 # 51)%Q | _ => 0%Q end.
Definition marginal (joint : strategy -> Q) (n i : nat) : Q :=
  fold_right Qplus 0%Q (map joint (filter (fun s => nth i s false) (all_strategies n))).
Theorem C21_map_is_not_joint_map_refuted :
  exists (joint : strategy -> Q) (s : strategy),
    let m := [marginal joint 2 0; marginal joint 2 1] in
    length s = 2 /\ (joint (map_threshold m) < joint s)%Q.
Proof. exists w_joint, [true; false]. vm_compute. split; reflexivity. Qed.
