(* Lemmas linking the C21 hand model to the Coq semantics Sem.prob. *)
From Coq Require Import QArith List Bool NArith Arith.
From PL.Sem Require Import Program Sem.
From PL.C21 Require Import ModelDTSearch ProofsDTSearch ModelDTSem.
Import ListNotations.

(* under the guard, the directly defined Sem expected utility is the abstract
   expected utility instantiated with the Sem probabilities *)
Lemma sem_EU_is_expected_utility : forall P ds atoms u s,
    sem_ok P ds atoms u s = true ->
    sem_EU P ds atoms u s = expected_utility (sem_P P ds atoms s) u.
Proof.
  intros P ds atoms u s. unfold sem_ok, sem_EU, expected_utility.
  induction u as [|[[ng id] r] u IH]; intros H; cbn [forallb fold_right fst snd] in *.
  - reflexivity.
  - apply andb_true_iff in H. destruct H as [H1 H2].
    rewrite (IH H2). unfold plit, sem_P. cbn [fst snd].
    destruct (Sem.prob (apply_strategy P ds s) (atoms id)); cbn [is_ok] in H1;
      [reflexivity | discriminate | discriminate | discriminate].
Qed.

(* the value dtproblog.evaluate computes from the Sem probabilities is the Sem expected utility *)
Lemma score_is_Sem_EU : forall P ds atoms u s,
    keys_nodup u = true -> no_complement u = true ->
    sem_ok P ds atoms u s = true ->
    (evaluate_code (sem_P P ds atoms s) u == sem_EU P ds atoms u s)%Q.
Proof.
  intros P ds atoms u s Hnd Hnc Hok.
  rewrite (sem_EU_is_expected_utility _ _ _ _ _ Hok).
  now apply evaluate_code_is_EU.
Qed.

(* exhaustive search over the Sem score returns a maximiser of the Sem expected utility *)
Lemma exhaustive_optimal_Sem : forall P ds atoms u (admissible : strategy -> bool) b sc ev,
    keys_nodup u = true -> no_complement u = true ->
    (forall s, length s = length ds -> sem_ok P ds atoms u s = true) ->
    search_exhaustive (fun s => evaluate_code (sem_P P ds atoms s) u) admissible (length ds)
      = (Some (b, sc), ev) ->
    length b = length ds /\ admissible b = true /\
    (sc == sem_EU P ds atoms u b)%Q /\
    forall s, length s = length ds -> admissible s = true ->
              (sem_EU P ds atoms u s <= sem_EU P ds atoms u b)%Q.
Proof.
  intros P ds atoms u adm b sc ev Hnd Hnc Hok H.
  destruct (exhaustive_optimal _ _ _ _ _ _ H) as (Hl & Ha & Hs & Hm).
  split; [exact Hl|]. split; [exact Ha|]. split.
  - rewrite Hs. apply score_is_Sem_EU; auto.
  - intros s Hls Has.
    rewrite <- (score_is_Sem_EU P ds atoms u s Hnd Hnc (Hok s Hls)).
    rewrite <- (score_is_Sem_EU P ds atoms u b Hnd Hnc (Hok b Hl)).
    now apply Hm.
Qed.
