(* C21 against the Coq possible-world semantics (Sem.prob).
   A decision program is a Sem program P together with the list `ds` of its
   decision atoms (ground), a utility table `u` over atom ids and an interning
   `atoms` of the ids.  A strategy turns every decision `?::d_i` into the fact
   `1::d_i` or `0::d_i`; the expected utility of the strategy is the sum of
   reward * Sem.prob(P[strategy], attribute).
   Definitions only: no proofs in this file. *)
From Coq Require Import QArith List Bool NArith Arith.
From PL.Sem Require Import Program Sem.
From PL.C21 Require Import ModelDTSearch.
Import ListNotations.

(* a ground atom as a first-order atom (every argument is a constant) *)
Definition atom_of (g : gatom) : atom := (fst g, map TC (snd g)).

(* the weight given to a decision by the strategy *)
Definition dec_weight (s : strategy) (i : nat) : Q := if nth i s false then 1 else 0.

(* `?::d_i.` under strategy s  ~>  the probabilistic fact (dec_weight s i)::d_i. *)
Definition decision_fact (s : strategy) (i : nat) (d : gatom) : stmt :=
  SClause (AD [(dec_weight s i, atom_of d)] []).

(* decisions i, i+1, ... of the list *)
Fixpoint decision_facts (s : strategy) (i : nat) (ds : list gatom) : program :=
  match ds with
  | [] => []
  | d :: ds' => decision_fact s i d :: decision_facts s (S i) ds'
  end.

(* P[strategy] *)
Definition apply_strategy (P : program) (ds : list gatom) (s : strategy) : program :=
  P ++ decision_facts s 0 ds.

(* the per-atom probabilities handed to dtproblog.evaluate, read from the semantics *)
Definition sem_P (P : program) (ds : list gatom) (atoms : N -> gatom) (s : strategy) : N -> Q :=
  fun id => match Sem.prob (apply_strategy P ds s) (atoms id) with
            | Ok p => p
            | _ => 0
            end.

Definition is_ok (r : result) : bool := match r with Ok _ => true | _ => false end.

(* every atom that carries a utility has a probability under P[strategy] *)
Definition sem_ok (P : program) (ds : list gatom) (atoms : N -> gatom)
           (u : list (ModelDTSearch.lit * Q)) (s : strategy) : bool :=
  forallb (fun kr => is_ok (Sem.prob (apply_strategy P ds s) (atoms (snd (fst kr))))) u.

(* sum over the utility attributes (l, r) of r * Sem.prob(P[strategy], l);
   a negated attribute \+a is read as 1 - Sem.prob(P[strategy], a) *)
Definition sem_EU (P : program) (ds : list gatom) (atoms : N -> gatom)
           (u : list (ModelDTSearch.lit * Q)) (s : strategy) : Q :=
  fold_right
    (fun (kr : ModelDTSearch.lit * Q) (acc : Q) =>
       match Sem.prob (apply_strategy P ds s) (atoms (snd (fst kr))) with
       | Ok p => snd kr * (if fst (fst kr) then 1 - p else p)
       | _ => 0
       end + acc)
    0 u.
