(* C21 — DT-ProbLog and MAP return optimal strategies.
   Only statements, closed by `exact`.  `score` is the utility evaluation
   (dtproblog.evaluate) as an arbitrary function of the strategy and
   `admissible` the constraint filter: every theorem holds for all of them. *)
From Coq Require Import QArith List Bool NArith Arith.
From PL.C21 Require Import ModelDTSearch ProofsDTSearch.
Import ListNotations.
Local Close Scope Q_scope.

(* range(0, 1 << n) through num2bits visits exactly the 0/1 vectors of length n *)
Theorem C21_enumeration_complete : forall n s, length s = n <-> In s (all_strategies n).
Proof. intros n s; split; [apply all_strategies_complete | apply all_strategies_length]. Qed.
Print Assumptions C21_enumeration_complete.

(* exhaustive search: the returned strategy is admissible, the reported score
   is its score, and no admissible strategy scores higher *)
Theorem C21_exhaustive_optimal :
  forall (score : strategy -> Q) (admissible : strategy -> bool) n b sc ev,
    search_exhaustive score admissible n = (Some (b, sc), ev) ->
    length b = n /\ admissible b = true /\ sc = score b /\
    forall s, length s = n -> admissible s = true -> (score s <= score b)%Q.
Proof. exact exhaustive_optimal. Qed.
Print Assumptions C21_exhaustive_optimal.

(* ... and a strategy is returned as soon as one admissible strategy exists *)
Theorem C21_exhaustive_finds :
  forall (score : strategy -> Q) (admissible : strategy -> bool) n s,
    length s = n -> admissible s = true ->
    exists b sc ev, search_exhaustive score admissible n = (Some (b, sc), ev).
Proof. exact exhaustive_finds. Qed.
Print Assumptions C21_exhaustive_finds.

(* (None, None, stats) is returned only when the constraints exclude every strategy *)
Theorem C21_exhaustive_none :
  forall (score : strategy -> Q) (admissible : strategy -> bool) n ev,
    search_exhaustive score admissible n = (None, ev) ->
    forall s, length s = n -> admissible s = false.
Proof. exact exhaustive_none. Qed.
Print Assumptions C21_exhaustive_none.

(* stats['eval'] counts exactly the admissible strategies *)
Theorem C21_exhaustive_evals :
  forall (score : strategy -> Q) (admissible : strategy -> bool) n,
    snd (search_exhaustive score admissible n) = length (filter admissible (all_strategies n)).
Proof. exact exhaustive_evals. Qed.
Print Assumptions C21_exhaustive_evals.

(* local search, whenever it stops (any fuel, any initial strategy): the
   reported score is the score of the returned strategy and no single flip
   of a decision improves it *)
Theorem C21_local_1opt :
  forall (score : strategy -> Q) fuel init res,
    search_local score fuel init = Some res ->
    length (l_choices res) = length init /\ l_best res = score (l_choices res) /\
    forall j, j < length init -> (score (flip j (l_choices res)) <= score (l_choices res))%Q.
Proof. exact search_local_sound. Qed.
Print Assumptions C21_local_1opt.

(* local search stops: (2^n + 1) * (n + 1) machine steps always suffice
   (every accepted flip strictly increases the score; at most n + 1 steps
   separate two accepted flips) *)
Theorem C21_local_terminates :
  forall (score : strategy -> Q) init fuel,
    local_fuel (length init) <= fuel -> search_local score fuel init <> None.
Proof. exact search_local_terminates. Qed.
Print Assumptions C21_local_terminates.

(* dtproblog.evaluate computes the expected utility  sum_(u,r) r * P(u)
   provided no atom carries a utility on both polarities (guard excludes the
   finding C21_evaluate_both_polarities_refuted) *)
Theorem C21_score_is_EU :
  forall (P : N -> Q) u, keys_nodup u = true -> no_complement u = true ->
    (evaluate_code P u == expected_utility P u)%Q.
Proof. exact evaluate_code_is_EU. Qed.
Print Assumptions C21_score_is_EU.

(* MAP as coded: the objective sum_q (s_q ? m_q : 1 - m_q) is maximised by
   thresholding the posterior marginals, and the exhaustive search over it
   returns a maximiser among the admissible assignments with that score *)
Theorem C21_map_objective :
  forall m s, length s = length m -> (map_objective m s <= map_objective m (map_threshold m))%Q.
Proof. exact map_threshold_optimal. Qed.
Print Assumptions C21_map_objective.

Theorem C21_map_exhaustive :
  forall m (admissible : strategy -> bool) b sc ev,
    search_exhaustive (map_objective m) admissible (length m) = (Some (b, sc), ev) ->
    admissible b = true /\ sc = map_objective m b /\
    forall s, length s = length m -> admissible s = true -> (map_objective m s <= sc)%Q.
Proof.
  intros m adm b sc ev H. destruct (exhaustive_optimal _ _ _ _ _ _ H) as (_ & Ha & Hs & Hm).
  split; [exact Ha|]. split; [exact Hs|]. rewrite Hs. exact Hm.
Qed.
Print Assumptions C21_map_exhaustive.

(* ------------------------------------------------------------------ non-vacuity *)
Definition ex_table (s : strategy) : Q :=
  match s with
  | [false; false] => 0 | [false; true] => (-1)%Q | [true; false] => (-1 # 2)%Q | [true; true] => 3%Q
  | _ => 0%Q end.

Example C21_example_exhaustive :
  search_exhaustive ex_table (fun _ => true) 2 = (Some ([true; true], 3%Q), 4).
Proof. vm_compute. reflexivity. Qed.

(* test/dtproblog/ex5-like situation: local search stays in (0,0), which is 1-flip optimal but not optimal *)
Example C21_example_local :
  option_map l_choices (search_local ex_table (local_fuel 2) [false; false]) = Some [false; false].
Proof. vm_compute. reflexivity. Qed.

Example C21_example_ad_filter :
  fst (search_exhaustive ex_table (ads_admissible [[0; 1]]) 2) = Some ([true; false], (-1 # 2)%Q).
Proof. vm_compute. reflexivity. Qed.

Example C21_example_guard :
  keys_nodup [((false, 1%N), 5%Q); ((true, 2%N), 2%Q)] = true /\
  no_complement [((false, 1%N), 5%Q); ((true, 2%N), 2%Q)] = true.
Proof. vm_compute. split; reflexivity. Qed.
