(* C01pipe/Sums.v -- weighted Shannon sums over exact rationals (Qc), generic in the
   index type (CNF variables : nat, atom identifiers : N).

     ssum w vs psi a  =  sum over all assignments to the variables vs (the other
                         variables keep the value a gives them) of
                         (product of the literal weights w v b) * psi(assignment)

   This is ModelCircuit.wmc (C10) with a Qc-valued instead of a boolean integrand
   (wmc_ssum in Bridge.v).  Contents: extensionality (relative to the variables that
   are not summed), scaling, append, permutation invariance, the "all false" and
   "exactly one" sums (the Shannon form of Sem.WMC.ad_encoding). *)
From Coq Require Import List Bool Arith Lia QArith Qcanon Permutation.
Import ListNotations.
Local Open Scope Qc_scope.

Definition b2q (b : bool) : Qc := if b then 1 else 0.

Lemma b2q_andb : forall b c, b2q (b && c) = b2q b * b2q c.
Proof. intros [|] [|]; cbn [b2q andb]; ring. Qed.

Fixpoint qsum (l : list Qc) : Qc :=
  match l with [] => 0 | x :: r => x + qsum r end.

Lemma qsum_app : forall l l', qsum (l ++ l') = qsum l + qsum l'.
Proof. induction l; intros; simpl. ring. rewrite IHl. ring. Qed.

Lemma qsum_map_ext_in : forall (X : Type) (f g : X -> Qc) l,
    (forall x, In x l -> f x = g x) -> qsum (map f l) = qsum (map g l).
Proof.
  induction l as [|x l IH]; simpl; intros H; auto.
  rewrite (H x) by auto. rewrite IH; auto.
Qed.

Section Shannon.
Context {X : Type}.
Variable eqb : X -> X -> bool.
Hypothesis eqb_spec : forall x y, eqb x y = true <-> x = y.

Definition upd (a : X -> bool) (x : X) (b : bool) : X -> bool :=
  fun y => if eqb y x then b else a y.

Definition memx (y : X) (l : list X) : bool := existsb (eqb y) l.

(* the assignment that gives the elements of l the one-hot value selected by o
   (None: all false) and agrees with a elsewhere *)
Definition sel (a : X -> bool) (l : list X) (o : option X) : X -> bool :=
  fun y => if memx y l then match o with Some x => eqb y x | None => false end else a y.

Definition count (a : X -> bool) (l : list X) : nat := length (filter a l).

Definition extl (psi : (X -> bool) -> Qc) : Prop :=
  forall a a', (forall y, a y = a' y) -> psi a = psi a'.

(* psi only reads the variables in S *)
Definition dep (S : X -> Prop) (psi : (X -> bool) -> Qc) : Prop :=
  forall a a', (forall y, S y -> a y = a' y) -> psi a = psi a'.

Lemma dep_extl : forall S psi, dep S psi -> extl psi.
Proof. intros S psi H a a' E. apply H. intros; apply E. Qed.

Lemma eqb_refl : forall x, eqb x x = true.
Proof. intros. apply eqb_spec. reflexivity. Qed.

Lemma eqb_neq : forall x y, x <> y -> eqb x y = false.
Proof. intros x y H. destruct (eqb x y) eqn:E; auto. apply eqb_spec in E. contradiction. Qed.

Lemma upd_same : forall a x b, upd a x b x = b.
Proof. intros. unfold upd. now rewrite eqb_refl. Qed.

Lemma upd_other : forall a x b y, y <> x -> upd a x b y = a y.
Proof. intros. unfold upd. now rewrite eqb_neq. Qed.

Lemma memx_In : forall y l, memx y l = true <-> In y l.
Proof.
  intros. unfold memx. rewrite existsb_exists. split.
  - intros [x [H E]]. apply eqb_spec in E. subst. auto.
  - intros H. exists y. split; auto. apply eqb_refl.
Qed.

Lemma memx_notIn : forall y l, ~ In y l -> memx y l = false.
Proof. intros y l H. destruct (memx y l) eqn:E; auto. apply memx_In in E. contradiction. Qed.

Variable w : X -> bool -> Qc.

Fixpoint ssum (vs : list X) (psi : (X -> bool) -> Qc) (a : X -> bool) : Qc :=
  match vs with
  | [] => psi a
  | v :: r => w v true * ssum r psi (upd a v true) + w v false * ssum r psi (upd a v false)
  end.

(* two integrands that agree on every assignment that can be reached from a0 *)
Lemma ssum_ext_out : forall vs psi1 psi2 a0,
    (forall a, (forall y, ~ In y vs -> a y = a0 y) -> psi1 a = psi2 a) ->
    ssum vs psi1 a0 = ssum vs psi2 a0.
Proof.
  induction vs as [|v r IH]; intros psi1 psi2 a0 H; simpl.
  - apply H. auto.
  - rewrite (IH psi1 psi2 (upd a0 v true)), (IH psi1 psi2 (upd a0 v false)); auto.
    + intros a Ha. apply H. intros y Hy. rewrite Ha by (intro; apply Hy; right; auto).
      apply upd_other. intro; subst; apply Hy; left; auto.
    + intros a Ha. apply H. intros y Hy. rewrite Ha by (intro; apply Hy; right; auto).
      apply upd_other. intro; subst; apply Hy; left; auto.
Qed.

Lemma ssum_ext : forall vs psi1 psi2 a0, (forall a, psi1 a = psi2 a) -> ssum vs psi1 a0 = ssum vs psi2 a0.
Proof. intros. apply ssum_ext_out. auto. Qed.

Lemma ssum_scale : forall vs c psi a0, ssum vs (fun a => c * psi a) a0 = c * ssum vs psi a0.
Proof.
  induction vs as [|v r IH]; intros; simpl. reflexivity.
  rewrite !IH. ring.
Qed.

Lemma ssum_zero : forall vs a0, ssum vs (fun _ => 0) a0 = 0.
Proof. induction vs as [|v r IH]; intros; simpl. reflexivity. rewrite !IH. ring. Qed.

Lemma ssum_app : forall l1 l2 psi a0, ssum (l1 ++ l2) psi a0 = ssum l1 (fun a => ssum l2 psi a) a0.
Proof. induction l1 as [|v r IH]; intros; simpl. reflexivity. now rewrite !IH. Qed.

(* a factor that only reads variables that are not summed can be pulled out *)
Lemma ssum_factor_out : forall vs (c : (X -> bool) -> Qc) psi a0,
    (forall a, (forall y, ~ In y vs -> a y = a0 y) -> c a = c a0) ->
    ssum vs (fun a => c a * psi a) a0 = c a0 * ssum vs psi a0.
Proof.
  intros. rewrite <- ssum_scale. apply ssum_ext_out. intros a Ha. now rewrite H.
Qed.

Lemma ssum_ext_a : forall vs psi a a', extl psi -> (forall y, a y = a' y) -> ssum vs psi a = ssum vs psi a'.
Proof.
  induction vs as [|v r IH]; intros psi a a' E H; simpl. apply E; auto.
  rewrite (IH psi (upd a v true) (upd a' v true)), (IH psi (upd a v false) (upd a' v false)); auto.
  - intros y. unfold upd. destruct (eqb y v); auto.
  - intros y. unfold upd. destruct (eqb y v); auto.
Qed.

Lemma ssum_dep : forall (S : X -> Prop) vs psi, dep S psi -> dep S (ssum vs psi).
Proof.
  induction vs as [|v r IH]; intros psi D a a' H; simpl. apply D; auto.
  rewrite (IH psi D (upd a v true) (upd a' v true)), (IH psi D (upd a v false) (upd a' v false)); auto.
  - intros y Sy. unfold upd. destruct (eqb y v); auto.
  - intros y Sy. unfold upd. destruct (eqb y v); auto.
Qed.

Lemma ssum_extl : forall vs psi, extl psi -> extl (ssum vs psi).
Proof. intros vs psi E a a' H. apply ssum_ext_a; auto. Qed.

(* order of the variables is irrelevant (distinct variables, extensional integrand) *)
Lemma ssum_swap : forall x y r psi a, x <> y -> extl psi ->
    ssum (x :: y :: r) psi a = ssum (y :: x :: r) psi a.
Proof.
  intros x y r psi a N E. simpl.
  assert (S : forall b c, ssum r psi (upd (upd a x b) y c) = ssum r psi (upd (upd a y c) x b)).
  { intros b c. apply ssum_ext_a; auto. intros z. unfold upd.
    destruct (eqb z y) eqn:E1; destruct (eqb z x) eqn:E2; auto.
    apply eqb_spec in E1. apply eqb_spec in E2. congruence. }
  rewrite !S. ring.
Qed.

Lemma ssum_perm : forall l l', Permutation l l' -> NoDup l ->
    forall psi a, extl psi -> ssum l psi a = ssum l' psi a.
Proof.
  induction 1; intros ND psi a E.
  - reflexivity.
  - inversion ND; subst. simpl. rewrite !(IHPermutation H3); auto.
  - inversion ND; subst. apply ssum_swap; auto. intro; subst. apply H1. left; auto.
  - rewrite IHPermutation1; auto. apply IHPermutation2; auto.
    eapply Permutation_NoDup; eauto.
Qed.

(* ------------------------------------------------------------------ one-hot blocks *)
Lemma count_cons : forall a x l, count a (x :: l) = ((if a x then 1 else 0) + count a l)%nat.
Proof. intros. unfold count. simpl. destruct (a x); reflexivity. Qed.

Lemma count_ext_in : forall a a' l, (forall y, In y l -> a y = a' y) -> count a l = count a' l.
Proof.
  induction l as [|x l IH]; intros H. reflexivity.
  rewrite !count_cons. rewrite (H x) by (left; auto). rewrite IH; auto. intros; apply H; right; auto.
Qed.

(* all variables of l false, negative weights 1: a single term survives *)
Lemma ssum_all_false : forall l K a0, NoDup l -> (forall x, In x l -> w x false = 1) -> extl K ->
    ssum l (fun a => b2q (Nat.eqb (count a l) 0) * K a) a0 = K (sel a0 l None).
Proof.
  induction l as [|x l IH]; intros K a0 ND W E.
  - simpl. unfold b2q. rewrite Qcmult_1_l. apply E. intros y. reflexivity.
  - inversion ND; subst. simpl ssum.
    rewrite (ssum_ext_out l _ (fun _ => 0) (upd a0 x true)).
    2:{ intros a Ha. rewrite count_cons. rewrite (Ha x H1), upd_same. simpl. unfold b2q. ring. }
    rewrite ssum_zero.
    rewrite (ssum_ext_out l _ (fun a => b2q (Nat.eqb (count a l) 0) * K a) (upd a0 x false)).
    2:{ intros a Ha. rewrite count_cons. rewrite (Ha x H1), upd_same. reflexivity. }
    rewrite IH; auto. 2:{ intros; apply W; right; auto. }
    rewrite (W x) by (left; auto).
    rewrite (E (sel (upd a0 x false) l None) (sel a0 (x :: l) None)). ring.
    intros y. unfold sel, memx, upd. simpl.
    destruct (eqb y x) eqn:E1; simpl.
    + destruct (existsb (eqb y) l); reflexivity.
    + reflexivity.
Qed.

(* exactly one variable of l true, negative weights 1 *)
Lemma ssum_exactly_one : forall l K a0, NoDup l -> (forall x, In x l -> w x false = 1) -> extl K ->
    ssum l (fun a => b2q (Nat.eqb (count a l) 1) * K a) a0
    = qsum (map (fun x => w x true * K (sel a0 l (Some x))) l).
Proof.
  induction l as [|x l IH]; intros K a0 ND W E.
  - simpl. unfold b2q. ring.
  - inversion ND; subst. simpl ssum.
    rewrite (ssum_ext_out l _ (fun a => b2q (Nat.eqb (count a l) 0) * K a) (upd a0 x true)).
    2:{ intros a Ha. rewrite count_cons. rewrite (Ha x H1), upd_same. reflexivity. }
    rewrite ssum_all_false; auto. 2:{ intros; apply W; right; auto. }
    rewrite (ssum_ext_out l _ (fun a => b2q (Nat.eqb (count a l) 1) * K a) (upd a0 x false)).
    2:{ intros a Ha. rewrite count_cons. rewrite (Ha x H1), upd_same. reflexivity. }
    rewrite IH; auto. 2:{ intros; apply W; right; auto. }
    rewrite (W x) by (left; auto). simpl map. simpl qsum.
    rewrite (E (sel (upd a0 x true) l None) (sel a0 (x :: l) (Some x))).
    2:{ intros y. unfold sel, memx, upd. simpl. destruct (eqb y x) eqn:E1; simpl.
        - apply eqb_spec in E1. subst y. fold (memx x l). rewrite memx_notIn by auto. reflexivity.
        - destruct (existsb (eqb y) l); reflexivity. }
    rewrite (qsum_map_ext_in _ (fun z => w z true * K (sel (upd a0 x false) l (Some z)))
                             (fun z => w z true * K (sel a0 (x :: l) (Some z))) l).
    ring.
    intros z Hz. f_equal. apply E. intros y. unfold sel, memx, upd. simpl.
    destruct (eqb y x) eqn:E1; simpl.
    + apply eqb_spec in E1. subst y. fold (memx x l). rewrite memx_notIn by auto.
      symmetry. apply eqb_neq. intro; subst. contradiction.
    + reflexivity.
Qed.

(* ------------------------------------------------------------------ world sums over blocks *)
(* a block is a list of mutually exclusive alternatives; wt x is the probability of
   alternative x, the remaining mass 1 - sum is the probability that none is chosen.
   An independent probabilistic fact is the block [x]. *)
Variable wt : X -> Qc.

Definition wtsum (l : list X) : Qc := qsum (map wt l).

Definition bsum1 (b : list X) (K : (X -> bool) -> Qc) (a : X -> bool) : Qc :=
  qsum (map (fun x => wt x * K (sel a b (Some x))) b) + (1 - wtsum b) * K (sel a b None).

Fixpoint bsum (bs : list (list X)) (K : (X -> bool) -> Qc) (a : X -> bool) : Qc :=
  match bs with
  | [] => K a
  | b :: r => bsum1 b (bsum r K) a
  end.

Lemma sel_dep : forall (S : X -> Prop) a a' b o, (forall y, S y -> a y = a' y) -> forall y, S y -> sel a b o y = sel a' b o y.
Proof. intros S a a' b o H y Sy. unfold sel. destruct (memx y b); auto. Qed.

Lemma bsum1_dep : forall (S : X -> Prop) b K, dep S K -> dep S (bsum1 b K).
Proof.
  intros S b K D a a' H. unfold bsum1. f_equal.
  - apply qsum_map_ext_in. intros x _. f_equal. apply D. apply sel_dep; auto.
  - f_equal. apply D. apply sel_dep; auto.
Qed.

Lemma bsum_dep : forall (S : X -> Prop) bs K, dep S K -> dep S (bsum bs K).
Proof. induction bs as [|b r IH]; intros K D; simpl; auto. apply bsum1_dep. auto. Qed.

Lemma bsum1_ext : forall b K K' a, (forall a, K a = K' a) -> bsum1 b K a = bsum1 b K' a.
Proof.
  intros b K K' a H. unfold bsum1. rewrite H. f_equal. apply qsum_map_ext_in. intros; now rewrite H.
Qed.

Lemma bsum_ext : forall bs K K' a, (forall a, K a = K' a) -> bsum bs K a = bsum bs K' a.
Proof. induction bs as [|b r IH]; intros K K' a H; simpl; auto. apply bsum1_ext. intros; apply IH; auto. Qed.

(* marginalisation: alternatives the integrand does not read are merged into "none" *)
Lemma qsum_filter_split : forall (p : X -> bool) (f : X -> Qc) K0 l,
    qsum (map (fun x => wt x * (if p x then f x else K0)) l)
    = qsum (map (fun x => wt x * f x) (filter p l)) + (wtsum l - wtsum (filter p l)) * K0.
Proof.
  intros p f K0. unfold wtsum. induction l as [|x l IH]; simpl. ring.
  rewrite IH. destruct (p x); simpl; ring.
Qed.

Lemma bsum1_restrict : forall (p : X -> bool) b K a,
    dep (fun y => p y = true) K -> bsum1 b K a = bsum1 (filter p b) K a.
Proof.
  intros p b K a D. unfold bsum1.
  assert (E0 : K (sel a b None) = K (sel a (filter p b) None)).
  { apply D. intros y Py. unfold sel.
    destruct (memx y b) eqn:M1; destruct (memx y (filter p b)) eqn:M2; auto.
    - apply memx_In in M1. assert (In y (filter p b)) by (apply filter_In; auto).
      apply memx_In in H. congruence.
    - apply memx_In in M2. apply filter_In in M2. destruct M2 as [M2 _]. apply memx_In in M2. congruence. }
  rewrite (qsum_map_ext_in _ (fun x => wt x * K (sel a b (Some x)))
            (fun x => wt x * (if p x then K (sel a (filter p b) (Some x)) else K (sel a (filter p b) None))) b).
  - rewrite qsum_filter_split. rewrite E0. ring.
  - intros x Hx. f_equal. destruct (p x) eqn:Px.
    + apply D. intros y Py. unfold sel.
      destruct (memx y b) eqn:M1; destruct (memx y (filter p b)) eqn:M2; auto.
      * apply memx_In in M1. assert (In y (filter p b)) by (apply filter_In; auto).
        apply memx_In in H. congruence.
      * apply memx_In in M2. apply filter_In in M2. destruct M2 as [M2 _]. apply memx_In in M2. congruence.
    + apply D. intros y Py. unfold sel.
      destruct (memx y b) eqn:M1; destruct (memx y (filter p b)) eqn:M2; auto.
      * apply eqb_neq. intro; subst. congruence.
      * apply memx_In in M1. assert (In y (filter p b)) by (apply filter_In; auto).
        apply memx_In in H. congruence.
      * apply memx_In in M2. apply filter_In in M2. destruct M2 as [M2 _]. apply memx_In in M2. congruence.
Qed.

Lemma bsum_restrict : forall (p : X -> bool) bs K a,
    dep (fun y => p y = true) K -> bsum bs K a = bsum (map (filter p) bs) K a.
Proof.
  induction bs as [|b r IH]; intros K a D; simpl. reflexivity.
  rewrite (bsum1_restrict p b); [|apply bsum_dep; auto].
  apply bsum1_ext. intros; apply IH; auto.
Qed.

(* ------------------------------------------------------------------ the exactly-one encoding of a block *)
(* variables ms ++ [e]; positive weights wt m and 1 - sum, negative weights 1; the
   integrand does not read the extra variable e *)
Lemma ssum_ad_block : forall ms e K a0,
    NoDup (ms ++ [e]) ->
    (forall x, In x (ms ++ [e]) -> w x false = 1) ->
    (forall x, In x ms -> w x true = wt x) -> w e true = 1 - wtsum ms ->
    dep (fun y => y <> e) K ->
    ssum (ms ++ [e]) (fun a => b2q (Nat.eqb (count a (ms ++ [e])) 1) * K a) a0 = bsum1 ms K a0.
Proof.
  intros ms e K a0 ND W0 W1 We D.
  assert (E := dep_extl _ _ D).
  rewrite ssum_exactly_one; auto.
  rewrite map_app, qsum_app. simpl. unfold bsum1.
  assert (He : ~ In e ms).
  { apply NoDup_remove_2 in ND. rewrite app_nil_r in ND. exact ND. }
  f_equal.
  - apply qsum_map_ext_in. intros x Hx. rewrite W1 by auto. f_equal. apply D.
    intros y Hy. unfold sel, memx. rewrite existsb_app. simpl. rewrite (eqb_neq y e) by auto.
    now rewrite orb_false_r.
  - rewrite We. rewrite Qcplus_0_r. f_equal. apply D.
    intros y Hy. unfold sel, memx. rewrite existsb_app. simpl. rewrite (eqb_neq y e) by auto.
    rewrite orb_false_r. reflexivity.
Qed.

(* a block with at most one alternative and no constraint: an independent fact *)
Lemma ssum_single : forall x K a0, w x true = wt x -> w x false = 1 - wt x -> extl K ->
    ssum [x] K a0 = bsum1 [x] K a0.
Proof.
  intros x K a0 W1 W0 E. simpl. unfold bsum1, wtsum. simpl. rewrite W1, W0.
  rewrite (E (upd a0 x true) (sel a0 [x] (Some x))).
  rewrite (E (upd a0 x false) (sel a0 [x] None)). ring.
  - intros y. unfold upd, sel, memx. simpl. destruct (eqb y x); reflexivity.
  - intros y. unfold upd, sel, memx. simpl. destruct (eqb y x) eqn:E1; simpl; auto.
Qed.

Lemma ssum_nil_block : forall K a0, extl K -> ssum [] K a0 = bsum1 [] K a0.
Proof.
  intros K a0 E. simpl. unfold bsum1, wtsum. simpl.
  rewrite (E (sel a0 [] None) a0). ring. intros y. reflexivity.
Qed.

End Shannon.

(* ------------------------------------------------------------------ conditioning by weights *)
(* setting the weight of a literal to 0 = conjoining the opposite literal (what the d-DNNF
   evaluator does for evidence and for the query) *)
Section Weights.
Context {X : Type}.
Variable eqb : X -> X -> bool.
Hypothesis eqb_spec : forall x y, eqb x y = true <-> x = y.

Lemma ssum_w_ext : forall (w w' : X -> bool -> Qc) vs psi a,
    (forall x s, In x vs -> w x s = w' x s) -> ssum eqb w vs psi a = ssum eqb w' vs psi a.
Proof.
  intros w w'. induction vs as [|v r IH]; intros psi a H; simpl. reflexivity.
  rewrite !(H v) by (left; auto). rewrite !(IH psi) by (intros; apply H; right; auto). reflexivity.
Qed.

Definition zero_lit (w : X -> bool -> Qc) (v : X) (s : bool) : X -> bool -> Qc :=
  fun x t => if eqb x v && Bool.eqb t s then 0 else w x t.

Lemma ssum_condition : forall w v b vs psi a0, NoDup vs -> In v vs ->
    ssum eqb (zero_lit w v (negb b)) vs psi a0
    = ssum eqb w vs (fun a => b2q (Bool.eqb (a v) b) * psi a) a0.
Proof.
  intros w v b. induction vs as [|x r IH]; intros psi a0 ND Hin. contradiction.
  inversion ND as [|? ? Hx NDr]; subst. cbn [ssum].
  destruct (eqb x v) eqn:E.
  - apply eqb_spec in E. subst x.
    assert (L : forall t, ssum eqb (zero_lit w v (negb b)) r psi (upd eqb a0 v t) = ssum eqb w r psi (upd eqb a0 v t)).
    { intros t. apply ssum_w_ext. intros y s Hy. unfold zero_lit.
      rewrite (eqb_neq eqb eqb_spec y v). reflexivity. intro; subst; contradiction. }
    assert (R : forall t, ssum eqb w r (fun a => b2q (Bool.eqb (a v) b) * psi a) (upd eqb a0 v t)
                          = b2q (Bool.eqb t b) * ssum eqb w r psi (upd eqb a0 v t)).
    { intros t. rewrite <- ssum_scale. apply ssum_ext_out; auto.
      intros a Ha. rewrite (Ha v Hx). now rewrite (upd_same eqb eqb_spec). }
    rewrite !L, !R. unfold zero_lit. rewrite (eqb_refl eqb eqb_spec).
    destruct b; cbn [negb Bool.eqb andb b2q]; ring.
  - assert (Z : forall t, zero_lit w v (negb b) x t = w x t).
    { intros t. unfold zero_lit. now rewrite E. }
    rewrite !Z. destruct Hin as [->|Hin]. { rewrite (eqb_refl eqb eqb_spec) in E. discriminate. }
    rewrite !IH; auto.
Qed.

End Weights.
