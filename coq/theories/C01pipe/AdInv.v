(* C01pipe/AdInv.v -- the AD bookkeeping of break_cycles' target builder:
   for a well-formed source (members / facts pairwise distinct, extra identifiers distinct
   and fresh, every atom of the cyclic program a fact or a member) the acyclic formula
   returned by CyclesModel.break_cycles_m consists of exactly
     - the relevant facts and members, each once,
     - the extra atom of every group with at least two relevant members,
   and has no TRUE children:  PipeProofs.dag_ok.  (The C09 development proves the VALUES of
   the returned keys; this file proves the SHAPE the weight / constraint stage relies on.) *)
From Coq Require Import ZArith NArith List Bool Arith Lia Permutation.
From PL.C09 Require Import BoolGraph ClarkProofs CyclesModel BuilderProofs CyclesProofs.
From PL.C01pipe Require Import Sums PipeModel Bridge PipeProofs.
Import ListNotations.

(* ------------------------------------------------------------------ association lists *)
Lemma assoc_app : forall (A : Type) k (l1 l2 : list (N * A)),
    assoc k (l1 ++ l2) = match assoc k l1 with Some v => Some v | None => assoc k l2 end.
Proof.
  induction l1 as [|[k' v'] l1 IH]; intros; simpl; auto. destruct (N.eqb k k'); auto.
Qed.

Lemma assoc_map_in : forall (A : Type) (v : A) id l, In id l -> assoc id (map (fun m => (m, v)) l) = Some v.
Proof.
  induction l as [|x l IH]; simpl; intros H. contradiction.
  destruct (N.eqb id x) eqn:E; auto. apply IH. destruct H as [->|H]; auto. rewrite N.eqb_refl in E. discriminate.
Qed.

Lemma assoc_map_notin : forall (A : Type) (v : A) id l, ~ In id l -> assoc id (map (fun m => (m, v)) l) = None.
Proof.
  induction l as [|x l IH]; simpl; intros H; auto.
  destruct (N.eqb id x) eqn:E. apply N.eqb_eq in E. subst. exfalso. apply H. left; auto.
  apply IH. intro; apply H; right; auto.
Qed.

Lemma assoc_set_same : forall (A : Type) k (v : A) l, assoc k (assoc_set k v l) = Some v.
Proof.
  induction l as [|[k' v'] l IH]; simpl. now rewrite N.eqb_refl.
  destruct (N.eqb k k') eqn:E; simpl. now rewrite N.eqb_refl. now rewrite E.
Qed.

Lemma assoc_set_other : forall (A : Type) k k' (v : A) l, k' <> k -> assoc k' (assoc_set k v l) = assoc k' l.
Proof.
  induction l as [|[k2 v2] l IH]; simpl; intros H.
  - destruct (N.eqb k' k) eqn:E; auto. apply N.eqb_eq in E. contradiction.
  - destruct (N.eqb k k2) eqn:E; simpl.
    + apply N.eqb_eq in E. subst k2. destruct (N.eqb k' k) eqn:E2; auto. apply N.eqb_eq in E2. contradiction.
    + destruct (N.eqb k' k2); auto.
Qed.

(* ------------------------------------------------------------------ counting relevant members *)
Definition memN (A : list N) (x : N) : bool := existsb (N.eqb x) A.

Lemma memN_app_other : forall A id x, x <> id -> memN (A ++ [id]) x = memN A x.
Proof.
  intros. unfold memN. rewrite existsb_app. simpl.
  destruct (N.eqb x id) eqn:E. apply N.eqb_eq in E. contradiction. now rewrite !orb_false_r.
Qed.

Lemma filter_add_notin : forall A id l, ~ In id l -> filter (memN (A ++ [id])) l = filter (memN A) l.
Proof.
  induction l as [|x l IH]; simpl; intros H; auto.
  rewrite memN_app_other by (intro; subst; apply H; left; auto).
  rewrite IH by (intro; apply H; right; auto). reflexivity.
Qed.

Lemma filter_add_in : forall A id l, NoDup l -> In id l -> ~ In id A ->
    length (filter (memN (A ++ [id])) l) = S (length (filter (memN A) l)).
Proof.
  induction l as [|x l IH]; simpl; intros ND H NA. contradiction.
  inversion ND; subst. destruct (N.eq_dec x id) as [->|NE].
  - assert (E1 : memN (A ++ [id]) id = true).
    { unfold memN. rewrite existsb_app. simpl. rewrite N.eqb_refl. now rewrite orb_true_r. }
    assert (E2 : memN A id = false).
    { destruct (memN A id) eqn:E; auto. apply existsb_Neqb_In in E. contradiction. }
    rewrite E1, E2. simpl. rewrite filter_add_notin by auto. reflexivity.
  - rewrite memN_app_other by auto. destruct H as [H|H]. contradiction.
    destruct (memN A x); simpl; rewrite IH; auto.
Qed.

Lemma atoms_of_snoc_atom : forall g id, atoms_of (g ++ [NAtom id]) = atoms_of g ++ [id].
Proof. intros. rewrite atoms_of_app. reflexivity. Qed.

Lemma atoms_of_snoc_other : forall g nd, (forall id, nd <> NAtom id) -> atoms_of (g ++ [nd]) = atoms_of g.
Proof.
  intros. rewrite atoms_of_app. rewrite (atoms_of_nonatom nd []) by auto. unfold atoms_of. simpl. apply app_nil_r.
Qed.

Lemma blockD_memN : forall D b, blockD D b = filter (memN (atoms_of D)) (fst b).
Proof. reflexivity. Qed.

Lemma find_atom_None : forall g id, find_node g (NAtom id) 1 = None -> ~ In id (atoms_of g).
Proof.
  intros g id H Hin. apply In_atoms_node in Hin. destruct (find_atom_In g id 1 Hin) as [k Hk]. congruence.
Qed.

Lemma NoDup_snoc : forall (A : Type) (l : list A) x, NoDup l -> ~ In x l -> NoDup (l ++ [x]).
Proof.
  induction l as [|y l IH]; simpl; intros x ND H.
  - constructor. intros []. constructor.
  - inversion ND as [|? ? Hny NDl]; subst. constructor.
    + intro Hin. apply in_app_or in Hin. destruct Hin as [Hin|[E|[]]].
      * apply Hny; exact Hin.
      * apply H. left. symmetry. exact E.
    + apply IH; auto.
Qed.

Lemma NoDup_map_inj_in : forall (A B : Type) (f : A -> B) l x y,
    NoDup (map f l) -> In x l -> In y l -> f x = f y -> x = y.
Proof.
  induction l as [|z l IH]; simpl; intros x y ND Hx Hy E. contradiction.
  inversion ND; subst. destruct Hx as [->|Hx]; destruct Hy as [->|Hy]; auto.
  - exfalso. apply H1. rewrite E. apply in_map; auto.
  - exfalso. apply H1. rewrite <- E. apply in_map; auto.
Qed.

(* an identifier occurs in the member list of at most one block (as a position in the list) *)
Lemma flat_map_fst_unique : forall (bs : list (list N * N)) g g' id,
    NoDup (flat_map fst bs) -> In g bs -> In g' bs -> In id (fst g) -> In id (fst g') -> g = g'.
Proof.
  induction bs as [|b bs IH]; simpl; intros g g' id ND Hg Hg' Hi Hi'. contradiction.
  assert (D := fun x => NoDup_app_disj _ (fst b) (flat_map fst bs) x ND).
  assert (F : forall h, In h bs -> In id (fst h) -> In id (flat_map fst bs)).
  { intros h Hh Hih. apply in_flat_map. exists h. auto. }
  destruct Hg as [Hg|Hg]; destruct Hg' as [Hg'|Hg'].
  - congruence.
  - subst b. exfalso. apply (D id); auto. apply (F g'); auto.
  - subst b. exfalso. apply (D id); auto. apply (F g); auto.
  - apply (IH g g' id); auto. eapply NoDup_app_r; eauto.
Qed.

Section Inv.
Variable P : wprog.
Let groups := wp_groups P.
Let mids := flat_map fst (blocks P).
Let ai := ai_of P.

Hypothesis W1 : NoDup (flat_map fst (blocks P)).
Hypothesis W2 : NoDup (map snd (wp_groups P)).
Hypothesis W3 : forall g, In g (wp_groups P) -> ~ In (snd g) (flat_map fst (blocks P)).

Lemma groups_blocks : forall g, In g groups -> In g (blocks P).
Proof. intros g H. unfold blocks. apply in_or_app. left; auto. Qed.

Lemma member_mids : forall g id, In g groups -> In id (fst g) -> In id mids.
Proof. intros g id Hg Hi. unfold mids. apply in_flat_map. exists g. split; auto. apply groups_blocks; auto. Qed.

Lemma NoDup_gmembers : NoDup (flat_map fst groups).
Proof. unfold blocks in W1. rewrite flat_map_app in W1. eapply NoDup_app_l; eauto. Qed.

Lemma NoDup_fst : forall g, In g groups -> NoDup (fst g).
Proof.
  intros g H. assert (ND := NoDup_gmembers). clear - H ND. induction groups as [|b bs IH]; simpl in *. contradiction.
  destruct H as [->|H]. eapply NoDup_app_l; eauto. apply IH; auto. eapply NoDup_app_r; eauto.
Qed.

Lemma eid_not_member : forall g g' , In g groups -> In g' groups -> ~ In (snd g) (fst g').
Proof. intros g g' Hg Hg' Hi. apply (W3 g Hg). eapply member_mids; eauto. Qed.

(* lookups in the static atom information *)
Lemma ai_group_member : forall g id, In g groups -> In id (fst g) -> assoc id (ai_group ai) = Some (snd g, false).
Proof.
  intros g id Hg Hi. unfold ai, ai_of. simpl. fold groups.
  assert (ND := NoDup_gmembers). clear - Hg Hi ND. induction groups as [|b bs IH]; simpl in *. contradiction.
  rewrite assoc_app. destruct Hg as [->|Hg].
  - rewrite (assoc_map_in _ (snd g, false) id (fst g)); auto.
  - rewrite (assoc_map_notin _ (snd b, false) id (fst b)).
    + apply IH; auto. eapply NoDup_app_r; eauto.
    + intro Hb. apply (NoDup_app_disj _ _ _ id ND); auto. apply in_flat_map. exists g. auto.
Qed.

Lemma ai_group_none : forall id, ~ In id (flat_map fst groups) -> assoc id (ai_group ai) = None.
Proof.
  intros id H. unfold ai, ai_of. simpl. fold groups. clear - H. induction groups as [|b bs IH]; simpl in *; auto.
  rewrite assoc_app. rewrite (assoc_map_notin _ (snd b, false) id (fst b)).
  - apply IH. intro; apply H; apply in_or_app; right; auto.
  - intro; apply H; apply in_or_app; left; auto.
Qed.

Lemma ai_extra : forall g, In g groups -> assoc (snd g) (ai_extra_id ai) = Some (snd g).
Proof.
  intros g Hg. unfold ai, ai_of. simpl. fold groups. clear - Hg. induction groups as [|b bs IH]; simpl in *. contradiction.
  destruct (N.eqb (snd g) (snd b)) eqn:E. apply N.eqb_eq in E. now rewrite E.
  destruct Hg as [->|Hg]. rewrite N.eqb_refl in E. discriminate. auto.
Qed.

(* ------------------------------------------------------------------ the invariant *)
Definition cntD (nodes : graph) (g : list N * N) : nat := length (blockD nodes g).

Definition grp_ok (nodes : graph) (tg : list (N * group_state)) (g : list N * N) : Prop :=
  (In (snd g) (atoms_of nodes) <-> 2 <= cntD nodes g) /\
  match assoc (snd g) tg with
  | None => cntD nodes g = 0
  | Some gs => length (g_members gs) = cntD nodes g /\ (g_extra gs = None <-> ~ In (snd g) (atoms_of nodes))
  end.

Record Inv (t : tgt) : Prop := {
  inv_nz : nozero (t_nodes t);
  inv_nd : NoDup (atoms_of (t_nodes t));
  inv_src : forall id, In id (atoms_of (t_nodes t)) -> In id mids \/ exists g, In g groups /\ id = snd g;
  inv_grp : forall g, In g groups -> grp_ok (t_nodes t) (t_groups t) g }.

Lemma Inv_empty : Inv tgt_empty.
Proof.
  constructor; simpl.
  - intros nd c [].
  - constructor.
  - intros id [].
  - intros g Hg. unfold grp_ok, cntD, blockD. simpl.
    assert (E : filter (inD []) (fst g) = []).
    { induction (fst g); simpl; auto. }
    rewrite E. simpl. split; auto. split. intros []. lia.
Qed.

Lemma nozero_snoc : forall g nd, nozero g -> (forall c, In c (children nd) -> c <> 0%Z) -> nozero (g ++ [nd]).
Proof.
  intros g nd NZ H x c Hx Hc. apply in_app_or in Hx. destruct Hx as [Hx|[<-|[]]]; eauto.
Qed.

(* a non-atom node is appended: nothing about atoms changes *)
Lemma Inv_push_other : forall t nd, Inv t -> (forall id, nd <> NAtom id) -> (forall c, In c (children nd) -> c <> 0%Z) ->
    Inv {| t_nodes := t_nodes t ++ [nd]; t_groups := t_groups t |}.
Proof.
  intros t nd [NZ ND SRC GRP] NA CH.
  assert (EA : atoms_of (t_nodes t ++ [nd]) = atoms_of (t_nodes t)) by (apply atoms_of_snoc_other; auto).
  constructor; simpl.
  - apply nozero_snoc; auto.
  - now rewrite EA.
  - rewrite EA. auto.
  - intros g Hg. specialize (GRP g Hg). unfold grp_ok, cntD in *. rewrite !blockD_memN in *. rewrite EA. exact GRP.
Qed.

(* an atom that is a fact or a member is appended; the group table is tg' *)
Lemma Inv_push_atom : forall t id tg', Inv t -> In id mids -> ~ In id (atoms_of (t_nodes t)) ->
    (forall g, In g groups -> grp_ok (t_nodes t ++ [NAtom id]) tg' g) ->
    Inv {| t_nodes := t_nodes t ++ [NAtom id]; t_groups := tg' |}.
Proof.
  intros t id tg' [NZ ND SRC GRP] MI NI G.
  constructor; simpl; auto.
  - apply nozero_snoc; [exact NZ | intros c []].
  - rewrite atoms_of_snoc_atom. apply NoDup_snoc; auto.
  - intros x Hx. rewrite atoms_of_snoc_atom in Hx. apply in_app_or in Hx. destruct Hx as [Hx|[<-|[]]]; auto.
Qed.

Lemma cnt_other : forall nodes id g, ~ In id (fst g) -> cntD (nodes ++ [NAtom id]) g = cntD nodes g.
Proof.
  intros. unfold cntD. rewrite !blockD_memN, atoms_of_snoc_atom. now rewrite filter_add_notin.
Qed.

Lemma cnt_member : forall nodes id g, In g groups -> In id (fst g) -> ~ In id (atoms_of nodes) ->
    cntD (nodes ++ [NAtom id]) g = S (cntD nodes g).
Proof.
  intros. unfold cntD. rewrite !blockD_memN, atoms_of_snoc_atom. apply filter_add_in; auto. apply NoDup_fst; auto.
Qed.

Lemma in_snoc_other : forall (l : list N) x y, y <> x -> (In y (l ++ [x]) <-> In y l).
Proof.
  intros. split; intros H0. apply in_app_or in H0. destruct H0 as [H0|[<-|[]]]; auto. contradiction.
  apply in_or_app. left; auto.
Qed.

Lemma grp_ok_unrelated : forall nodes tg tg' id g, In g groups ->
    ~ In id (fst g) -> id <> snd g -> assoc (snd g) tg' = assoc (snd g) tg ->
    grp_ok nodes tg g -> grp_ok (nodes ++ [NAtom id]) tg' g.
Proof.
  intros nodes tg tg' id g Hg NI NE EA [H1 H2]. unfold grp_ok.
  rewrite cnt_other by auto. rewrite atoms_of_snoc_atom. rewrite EA.
  assert (IE := in_snoc_other (atoms_of nodes) id (snd g) (fun E => NE (eq_sym E))).
  split. { rewrite IE. exact H1. }
  destruct (assoc (snd g) tg) as [gs|]; auto.
  destruct H2 as [H2 H3]. split; auto. rewrite IE. exact H3.
Qed.

Theorem Inv_add_atom : forall t id t' k, Inv t -> In id mids -> t_add_atom ai t id = (t', k) -> Inv t'.
Proof.
  intros t id t' k I MI H. unfold t_add_atom in H.
  destruct (find_node (t_nodes t) (NAtom id) 1) as [j|] eqn:F.
  { inversion H; subst. exact I. }
  assert (NI := find_atom_None _ _ F).
  unfold push_node in H. cbn [t_nodes t_groups] in H.
  assert (NEid : forall g, In g groups -> id <> snd g).
  { intros g Hg E. subst id. apply (W3 g Hg). exact MI. }
  destruct (in_dec N.eq_dec id (flat_map fst groups)) as [HM|HM].
  - (* a member of group g0 *)
    apply in_flat_map in HM. destruct HM as [g0 [Hg0 Hi0]].
    rewrite (ai_group_member g0 id Hg0 Hi0) in H.
    assert (OTHER : forall g, In g groups -> g <> g0 -> ~ In id (fst g) /\ snd g <> snd g0).
    { intros g Hg NE. split.
      - intro Hi. apply NE. apply (flat_map_fst_unique (blocks P) g g0 id); auto; apply groups_blocks; auto.
      - intro E. apply NE. apply (NoDup_map_inj_in _ _ snd groups g g0); auto. }
    destruct I as [NZ ND SRC GRP]. assert (G0 := GRP g0 Hg0). destruct G0 as [G0a G0b].
    set (gs0 := match assoc (snd g0) (t_groups t) with Some gs => gs | None => {| g_members := []; g_extra := None |} end) in *.
    assert (L0 : length (g_members gs0) = cntD (t_nodes t) g0 /\ (g_extra gs0 = None <-> ~ In (snd g0) (atoms_of (t_nodes t)))).
    { unfold gs0. destruct (assoc (snd g0) (t_groups t)) as [gs|]; auto. simpl. split; auto.
      split; auto. intros _ Hin. apply G0a in Hin. lia. }
    destruct L0 as [L0 X0].
    assert (C0 := cnt_member (t_nodes t) id g0 Hg0 Hi0 NI).
    assert (II : Inv t) by (constructor; auto).
    destruct (g_extra gs0) as [ke|] eqn:GE.
    + (* extra atom already there *)
      inversion H; subst t' k. clear H. apply Inv_push_atom; auto.
      intros g Hg. destruct (N.eq_dec (snd g) (snd g0)) as [EQ2|NEQ2].
      * assert (g = g0) by (apply (NoDup_map_inj_in _ _ snd groups g g0); auto). subst g.
        unfold grp_ok. rewrite C0, atoms_of_snoc_atom, assoc_set_same. simpl.
        assert (IE := in_snoc_other (atoms_of (t_nodes t)) id (snd g0) (fun E => NEid g0 Hg0 (eq_sym E))).
        assert (Hin : In (snd g0) (atoms_of (t_nodes t))).
        { destruct (in_dec N.eq_dec (snd g0) (atoms_of (t_nodes t))) as [i|n]; auto. apply X0 in n. discriminate. }
        assert (2 <= cntD (t_nodes t) g0) by (apply G0a; auto).
        split. { rewrite IE. split; intros; auto; lia. }
        split. { rewrite app_length. simpl. lia. }
        split. discriminate. intros Hn. exfalso. apply Hn. apply IE. exact Hin.
      * destruct (OTHER g Hg) as [O1 O2]. { intro; subst; apply NEQ2; reflexivity. }
        apply (grp_ok_unrelated _ (t_groups t)); auto.
        apply assoc_set_other; auto.
    + assert (NX : ~ In (snd g0) (atoms_of (t_nodes t))) by (apply X0; auto).
      destruct (1 <? length (g_members gs0 ++ [S (length (t_nodes t))])) eqn:LT.
      * (* second member: the extra atom is created *)
        rewrite (ai_extra g0 Hg0) in H. inversion H; subst t' k. clear H.
        rewrite app_length in LT. simpl in LT. apply Nat.ltb_lt in LT.
        assert (C1 : cntD (t_nodes t) g0 = 1).
        { destruct (le_lt_dec 2 (cntD (t_nodes t) g0)). apply G0a in l. contradiction. lia. }
        assert (I1 : Inv {| t_nodes := t_nodes t ++ [NAtom id]; t_groups := t_groups t |} \/ True) by (right; exact I).
        (* build the invariant by hand for the two pushed atoms *)
        assert (EA : atoms_of ((t_nodes t ++ [NAtom id]) ++ [NAtom (snd g0)]) = (atoms_of (t_nodes t) ++ [id]) ++ [snd g0]).
        { now rewrite !atoms_of_snoc_atom. }
        constructor; simpl.
        -- apply nozero_snoc; [apply nozero_snoc; [exact NZ | intros c []] | intros c []].
        -- rewrite EA. apply NoDup_snoc. apply NoDup_snoc; auto.
           intro Hin. apply in_app_or in Hin. destruct Hin as [Hin|[E|[]]]; auto. revert E. apply NEid; auto.
        -- intros x Hx. rewrite EA in Hx. apply in_app_or in Hx. destruct Hx as [Hx|[<-|[]]].
           ++ apply in_app_or in Hx. destruct Hx as [Hx|[<-|[]]]; auto.
           ++ right. exists g0. auto.
        -- intros g Hg. unfold grp_ok. rewrite EA.
           assert (CN : cntD ((t_nodes t ++ [NAtom id]) ++ [NAtom (snd g0)]) g = cntD (t_nodes t ++ [NAtom id]) g).
           { apply cnt_other. apply eid_not_member; auto. }
           rewrite CN.
           destruct (N.eq_dec (snd g) (snd g0)) as [EQ2|NEQ2].
           ++ assert (g = g0) by (apply (NoDup_map_inj_in _ _ snd groups g g0); auto). subst g.
              rewrite C0, C1, assoc_set_same. simpl. split.
              ** split; intros; auto. apply in_or_app. right. left; auto.
              ** split. rewrite app_length. simpl. lia. split. discriminate.
                 intros Hn. exfalso. apply Hn. apply in_or_app. right. left; auto.
           ++ destruct (OTHER g Hg) as [O1 O2]. { intro; subst; apply NEQ2; reflexivity. }
              rewrite cnt_other by auto. rewrite assoc_set_other by auto.
              destruct (GRP g Hg) as [Ga Gb].
              assert (INE : In (snd g) ((atoms_of (t_nodes t) ++ [id]) ++ [snd g0]) <-> In (snd g) (atoms_of (t_nodes t))).
              { rewrite (in_snoc_other _ (snd g0) (snd g)) by auto.
                apply in_snoc_other. intro E; symmetry in E; revert E; apply NEid; auto. }
              split. { rewrite INE. exact Ga. }
              destruct (assoc (snd g) (t_groups t)) as [gs|]; auto.
              destruct Gb as [Gb1 Gb2]. split; auto. rewrite INE. exact Gb2.
      * (* first member *)
        inversion H; subst t' k. clear H.
        rewrite app_length in LT. simpl in LT. apply Nat.ltb_ge in LT.
        assert (C1 : cntD (t_nodes t) g0 = 0) by lia.
        apply Inv_push_atom; auto.
        intros g Hg. destruct (N.eq_dec (snd g) (snd g0)) as [EQ2|NEQ2].
        -- assert (g = g0) by (apply (NoDup_map_inj_in _ _ snd groups g g0); auto). subst g.
           unfold grp_ok. rewrite C0, C1, atoms_of_snoc_atom, assoc_set_same. simpl.
           rewrite (in_snoc_other _ id (snd g0)) by (intro E; symmetry in E; revert E; apply NEid; auto).
           split. split; intros; try lia. contradiction.
           split. rewrite app_length. simpl. lia. split; auto.
        -- destruct (OTHER g Hg) as [O1 O2]. { intro; subst; apply NEQ2; reflexivity. }
           apply (grp_ok_unrelated _ (t_groups t)); auto.
           apply assoc_set_other; auto.
  - (* an independent fact *)
    rewrite (ai_group_none id HM) in H. inversion H; subst t' k. clear H.
    apply Inv_push_atom; auto.
    intros g Hg. destruct I as [NZ ND SRC GRP]. apply (grp_ok_unrelated _ (t_groups t)); auto.
    intro Hi. apply HM. apply in_flat_map. exists g. auto.
Qed.

(* ------------------------------------------------------------------ compound nodes *)
Lemma keys_and_nz : forall content x,
    In x (keys_to_Z (filter (fun k => negb (key_eqb k (Some 0%Z))) content)) -> x <> 0%Z.
Proof.
  induction content as [|k content IH]; intros x I; simpl in *. destruct I.
  destruct k as [c|]; simpl in *; auto.
  destruct (Z.eqb c 0) eqn:E; simpl in *; auto.
  destruct I as [<-|I]; auto. apply Z.eqb_neq; auto.
Qed.

Lemma keys_or_nz : forall content x, existsb (key_eqb (Some 0%Z)) content = false ->
    In x (keys_to_Z (filter (fun k => negb (key_eqb k None)) content)) -> x <> 0%Z.
Proof.
  induction content as [|k content IH]; intros x Z I; simpl in *. destruct I.
  apply orb_false_iff in Z. destruct Z as [Z1 Z2].
  destruct k as [c|]; simpl in *; auto.
  destruct I as [<-|I]; auto. apply Z.eqb_neq; auto.
Qed.

Theorem Inv_add_compound : forall isand t content t' k, Inv t -> t_add_compound isand t content = Some (t', k) -> Inv t'.
Proof.
  intros isand t content t' k I H. unfold t_add_compound in H.
  destruct content as [|k0 content0]; [discriminate|].
  set (content := k0 :: content0) in *.
  destruct (existsb (key_eqb (if isand then None else Some 0%Z)) content) eqn:E1.
  { inversion H; subst; auto. }
  set (c2 := dedupe (keys_to_Z (filter (fun x => negb (key_eqb x (if isand then Some 0%Z else None))) content)) []) in *.
  assert (NZ2 : forall x, In x c2 -> x <> 0%Z).
  { intros x Hx. unfold c2 in Hx. apply (proj1 (dedupe_nil_In _ _)) in Hx. destruct isand; cbv iota in Hx, E1.
    - eapply keys_and_nz; eauto.
    - eapply keys_or_nz; eauto. }
  destruct c2 as [|x [|y l]] eqn:EC.
  - inversion H; subst; auto.
  - destruct (has_opposites [x]); inversion H; subst; auto.
  - destruct (has_opposites (x :: y :: l)). { inversion H; subst; auto. }
    destruct (find_node (t_nodes t) (if isand then NAnd (x :: y :: l) else NOr (x :: y :: l)) 1).
    + inversion H; subst; auto.
    + unfold push_node in H. inversion H; subst. apply Inv_push_other; auto.
      * intros id. destruct isand; discriminate.
      * intros c Hc. apply NZ2. destruct isand; exact Hc.
Qed.

(* ------------------------------------------------------------------ through the recursion *)
Variable F : graph.
Hypothesis W4 : forall id, In id (atoms_of F) -> In id (flat_map fst (blocks P)).
Variables tc um : bool.

Lemma bc_inv : forall fuel is_ev t m c anc r, Inv t -> bc fuel tc um F ai is_ev t m c anc = Some r -> Inv (r_tgt r).
Proof.
  induction fuel as [|f IH]; intros is_ev t m c anc r I H. discriminate.
  rewrite bc_unfold in H. cbv zeta in H.
  destruct ((Z.abs_nat c =? 0) && (tc || negb is_ev)). { inversion H; subst; auto. }
  destruct (mem (Z.abs_nat c) anc). { inversion H; subst; auto. }
  destruct (if um then match memo_get m (Z.abs_nat c) with Some es => memo_find es (anc ++ [Z.abs_nat c]) | None => None end else None)
    as [[[nk cb] cn]|]. { inversion H; subst; auto. }
  destruct (node_at F (Z.abs_nat c)) as [nd|] eqn:NA; [|discriminate].
  assert (FOLD : forall cs acc t0 m0 ks cb cn t1 m1 ks1 cb1 cn1, Inv t0 -> acc = Some (t0, m0, ks, cb, cn) ->
             fold_left (child_step f tc um F ai is_ev (anc ++ [Z.abs_nat c])) cs acc = Some (t1, m1, ks1, cb1, cn1) -> Inv t1).
  { induction cs as [|ch cs IHcs]; intros acc t0 m0 ks cb cn t1 m1 ks1 cb1 cn1 I0 EA HF; simpl in HF.
    - subst acc. inversion HF; subst; auto.
    - subst acc. simpl in HF.
      destruct (bc f tc um F ai is_ev t0 m0 ch (anc ++ [Z.abs_nat c])) as [r0|] eqn:B.
      + eapply (IHcs _ (r_tgt r0)); [|reflexivity|exact HF]. eapply IH; eauto.
      + rewrite child_step_none in HF. discriminate. }
  destruct nd as [id|cs|cs].
  - destruct (t_add_atom ai t id) as [t1 nk] eqn:TA. inversion H; subst. simpl.
    eapply Inv_add_atom; eauto. apply W4. apply atoms_of_in. apply node_at_Some in NA. tauto.
  - destruct (fold_left (child_step f tc um F ai is_ev (anc ++ [Z.abs_nat c])) (children (NAnd cs)) (Some (t, m, [], [], [])))
      as [[[[[t1 m1] ks] ccb] ccn]|] eqn:FL; [|discriminate].
    destruct (t_add_compound true t1 ks) as [[t2 nk]|] eqn:TC; [|discriminate].
    inversion H; subst. simpl. eapply Inv_add_compound; [|exact TC]. eapply FOLD; eauto.
  - destruct (fold_left (child_step f tc um F ai is_ev (anc ++ [Z.abs_nat c])) (children (NOr cs)) (Some (t, m, [], [], [])))
      as [[[[[t1 m1] ks] ccb] ccn]|] eqn:FL; [|discriminate].
    destruct (t_add_compound false t1 ks) as [[t2 nk]|] eqn:TC; [|discriminate].
    inversion H; subst. simpl. eapply Inv_add_compound; [|exact TC]. eapply FOLD; eauto.
Qed.

Lemma bc_top_inv : forall is_ev ns acc t m ks t' m' ks', Inv t -> acc = Some (t, m, ks) ->
    fold_left (bc_top tc um F ai is_ev) ns acc = Some (t', m', ks') -> Inv t'.
Proof.
  induction ns as [|n ns IH]; intros acc t m ks t' m' ks' I EA H.
  - subst acc. simpl in H. inversion H; subst; auto.
  - subst acc. cbn [fold_left] in H.
    destruct (bc_top tc um F ai is_ev (Some (t, m, ks)) n) as [[[t1 m1] ks1]|] eqn:BT.
    + eapply (IH _ t1); [|reflexivity|exact H].
      unfold bc_top in BT. destruct n as [c|]; [destruct (is_prob (Some c))|].
      * destruct (bc (S (S (length F))) tc um F ai is_ev t m (if is_ev then Z.abs c else c) []) as [r|] eqn:B; [|discriminate].
        inversion BT; subst. eapply bc_inv; eauto.
      * inversion BT; subst; auto.
      * inversion BT; subst; auto.
    + rewrite bc_top_none in H. discriminate.
Qed.

Theorem break_cycles_inv : forall labeled evidence D ks1 ks2,
    break_cycles_m tc um F ai labeled evidence = Some (D, ks1, ks2) ->
    exists t, t_nodes t = D /\ Inv t.
Proof.
  intros labeled evidence D ks1 ks2 H. unfold break_cycles_m in H.
  destruct (fold_left (bc_top tc um F ai false) labeled (Some (tgt_empty, [], []))) as [[[t1 m1] k1]|] eqn:F1; [|discriminate].
  destruct (fold_left (bc_top tc um F ai true) evidence (Some (t1, [], []))) as [[[t2 m2] k2]|] eqn:F2; [|discriminate].
  inversion H; subst. exists t2. split; auto.
  eapply bc_top_inv; [|reflexivity|exact F2]. eapply bc_top_inv; [|reflexivity|exact F1]. apply Inv_empty.
Qed.

End Inv.

(* ------------------------------------------------------------------ from the invariant to dag_ok *)
Lemma NoDup_filter_c : forall (A : Type) (p : A -> bool) l, NoDup l -> NoDup (filter p l).
Proof.
  induction l as [|x l IH]; simpl; intros ND. constructor. inversion ND; subst.
  destruct (p x); auto. constructor; auto. intro H. apply filter_In in H. tauto.
Qed.

Lemma NoDup_app_intro : forall (A : Type) (l1 l2 : list A), NoDup l1 -> NoDup l2 ->
    (forall x, In x l1 -> In x l2 -> False) -> NoDup (l1 ++ l2).
Proof.
  induction l1 as [|y l1 IH]; simpl; intros l2 N1 N2 D; auto.
  inversion N1; subst. constructor.
  - intro H. apply in_app_or in H. destruct H as [H|H]; auto. apply (D y); auto.
  - apply IH; auto. intros x H3 H4. apply (D x); auto.
Qed.

Lemma NoDup_map_filter : forall (A B : Type) (f : A -> B) (p : A -> bool) l, NoDup (map f l) -> NoDup (map f (filter p l)).
Proof.
  induction l as [|x l IH]; simpl; intros ND. constructor. inversion ND; subst.
  destruct (p x); simpl; auto. constructor; auto. intro H. apply H1.
  apply in_map_iff in H. destruct H as [y [E Hy]]. apply filter_In in Hy. rewrite <- E. apply in_map. tauto.
Qed.

Lemma lay_cases : forall D b x, In x (lay D b) -> In x (blockD D b) \/ (nontrivial D b = true /\ x = snd b).
Proof.
  intros D b x H. unfold lay in H. destruct (nontrivial D b); auto.
  apply in_app_or in H. destruct H as [H|[<-|[]]]; auto.
Qed.

Lemma blockD_sub : forall D b x, In x (blockD D b) -> In x (fst b) /\ In x (atoms_of D).
Proof. intros D b x H. unfold blockD in H. apply filter_In in H. destruct H as [H1 H2]. split; auto. apply inD_In; auto. Qed.

Lemma NoDup_layout_gen : forall D bs, NoDup (flat_map fst bs) ->
    (forall b, In b bs -> nontrivial D b = true -> ~ In (snd b) (flat_map fst bs)) ->
    NoDup (map snd (filter (nontrivial D) bs)) -> NoDup (flat_map (lay D) bs).
Proof.
  intros D. induction bs as [|b r IH]; simpl; intros N1 FR N2. constructor.
  assert (N1l := NoDup_app_l _ _ _ N1). assert (N1r := NoDup_app_r _ _ _ N1).
  apply NoDup_app_intro.
  - unfold lay. destruct (nontrivial D b) eqn:NT.
    + apply NoDup_snoc. apply NoDup_filter_c; auto.
      intro H. apply blockD_sub in H. apply (FR b (or_introl eq_refl) NT). apply in_or_app. left. tauto.
    + apply NoDup_filter_c; auto.
  - apply IH; auto.
    + intros b' Hb' NT H. apply (FR b' (or_intror Hb') NT). apply in_or_app. right; auto.
    + destruct (nontrivial D b); auto. simpl in N2. inversion N2; auto.
  - intros x H1 H2. apply in_flat_map in H2. destruct H2 as [b' [Hb' H2]].
    apply lay_cases in H1. apply lay_cases in H2.
    assert (IN' : forall y, In y (fst b') -> In y (flat_map fst r)).
    { intros y Hy. apply in_flat_map. exists b'. auto. }
    destruct H1 as [H1|[NT1 E1]]; destruct H2 as [H2|[NT2 E2]].
    + apply blockD_sub in H1. apply blockD_sub in H2. apply (NoDup_app_disj _ _ _ x N1); [tauto|apply IN'; tauto].
    + apply blockD_sub in H1. subst x. apply (FR b' (or_intror Hb') NT2). apply in_or_app. left. tauto.
    + apply blockD_sub in H2. subst x. apply (FR b (or_introl eq_refl) NT1). apply in_or_app. right. apply IN'. tauto.
    + rewrite NT1 in N2. simpl in N2. inversion N2 as [|? ? Hnot Hrest]. apply Hnot. rewrite <- E1, E2.
      apply in_map. apply filter_In. auto.
Qed.

Lemma fact_trivial : forall D (x : N), nontrivial D ([x], 0%N) = false.
Proof. intros. unfold nontrivial, blockD. simpl. destruct (inD D x); reflexivity. Qed.

Lemma nontrivial_group : forall P D b, In b (blocks P) -> nontrivial D b = true -> In b (wp_groups P).
Proof.
  intros P D b Hb NT. unfold blocks in Hb. apply in_app_or in Hb. destruct Hb as [Hb|Hb]; auto.
  apply in_map_iff in Hb. destruct Hb as [x [<- _]]. rewrite fact_trivial in NT. discriminate.
Qed.

Lemma NoDup_layout3 : forall P D, NoDup (flat_map fst (blocks P)) -> NoDup (map snd (wp_groups P)) ->
    (forall g, In g (wp_groups P) -> ~ In (snd g) (flat_map fst (blocks P))) -> NoDup (layout P D).
Proof.
  intros P D W1 W2 W3. unfold layout. apply NoDup_layout_gen; auto.
  - intros b Hb NT. apply W3. eapply nontrivial_group; eauto.
  - unfold blocks. rewrite filter_app, map_app.
    assert (E : filter (nontrivial D) (map (fun x : N => ([x], 0%N)) (wp_facts P)) = []).
    { induction (wp_facts P) as [|x l IH]; simpl; auto. rewrite fact_trivial. exact IH. }
    rewrite E. simpl. rewrite app_nil_r. apply NoDup_map_filter; auto.
Qed.

Theorem Inv_dag_ok3 : forall P t, NoDup (flat_map fst (blocks P)) -> NoDup (map snd (wp_groups P)) ->
    (forall g, In g (wp_groups P) -> ~ In (snd g) (flat_map fst (blocks P))) -> Inv P t -> dag_ok P (t_nodes t).
Proof.
  intros P t W1 W2 W3 [NZ ND SRC GRP]. assert (NL := NoDup_layout3 P (t_nodes t) W1 W2 W3).
  assert (I1 : forall id, In id (atoms_of (t_nodes t)) -> In id (layout P (t_nodes t))).
  { intros id Hid. unfold layout. apply in_flat_map. destruct (SRC id Hid) as [HM|[g [Hg E]]].
    - apply in_flat_map in HM. destruct HM as [b [Hb Hi]]. exists b. split; auto.
      assert (In id (blockD (t_nodes t) b)). { unfold blockD. apply filter_In. split; auto. apply inD_In; auto. }
      unfold lay. destruct (nontrivial (t_nodes t) b); auto. apply in_or_app. left; auto.
    - exists g. split. unfold blocks. apply in_or_app. left; auto.
      destruct (GRP g Hg) as [Ga _]. subst id. apply Ga in Hid.
      unfold lay. assert (NT : nontrivial (t_nodes t) g = true) by (apply Nat.leb_le; exact Hid).
      rewrite NT. apply in_or_app. right. left; auto. }
  assert (I2 : forall id, In id (layout P (t_nodes t)) -> In id (atoms_of (t_nodes t))).
  { intros id Hid. unfold layout in Hid. apply in_flat_map in Hid. destruct Hid as [b [Hb Hi]].
    apply lay_cases in Hi. destruct Hi as [Hi|[NT E]].
    - apply blockD_sub in Hi. tauto.
    - assert (Hg := nontrivial_group P _ b Hb NT). destruct (GRP b Hg) as [Ga _]. subst id.
      apply Ga. apply Nat.leb_le. exact NT. }
  constructor; auto.
  apply NoDup_Permutation; auto. intros x. split; auto.
Qed.

Theorem Inv_dag_ok : forall P t, wf_src P -> Inv P t -> dag_ok P (t_nodes t).
Proof. intros P t [W1 W2 W3 W4]. apply Inv_dag_ok3; auto. Qed.

Theorem break_cycles_shape : forall tc use_memo P labeled evidence D ks1 ks2,
    wf_src P -> break_cycles_m tc use_memo (wp_graph P) (ai_of P) labeled evidence = Some (D, ks1, ks2) ->
    dag_ok P D.
Proof.
  intros tc um P labeled evidence D ks1 ks2 WF BC.
  destruct (break_cycles_inv P (wf_ids P WF) (wf_extras P WF) (wf_fresh P WF) (wp_graph P) (wf_atoms P WF) tc um labeled evidence D ks1 ks2 BC)
    as [t [ED IT]].
  subst D. apply Inv_dag_ok; auto.
Qed.

(* ------------------------------------------------------------------ the full composition *)
Theorem pipeline_correct : forall tc use_memo P q e M D ks1 ks2,
    wf_src P -> stratified (wp_graph P) -> (forall a, is_model (wp_graph P) a (M a)) ->
    break_cycles_m tc use_memo (wp_graph P) (ai_of P) [q] e = Some (D, ks1, ks2) ->
    pipeline tc use_memo P q e = Some (world_prob P M q e).
Proof.
  intros tc um P q e M D ks1 ks2 WF ST HM BC.
  assert (C9 := break_cycles_correct tc um (wp_graph P) (ai_of P) [q] e D ks1 ks2 a0 (M a0) (HM a0) ST BC).
  destruct C9 as [_ [F1 _]].
  inversion F1 as [|? kq ? l' ? F1']; subst. inversion F1'; subst.
  destruct (break_cycles_inv P (wf_ids P WF) (wf_extras P WF) (wf_fresh P WF) (wp_graph P) (wf_atoms P WF) tc um [q] e D [kq] ks2 BC)
    as [t [ED IT]].
  eapply pipeline_correct_ok; eauto.
  - intros g Hg Hin. apply (wf_fresh P WF g Hg). apply (wf_atoms P WF). exact Hin.
  - subst D. apply Inv_dag_ok; auto.
Qed.

(* ... and with the evaluator's mechanics: one checked circuit for the unconditioned CNF, evidence and
   query imposed by zeroed weights *)
Theorem evaluator_correct : forall tc use_memo P q e M C D kq kes,
    wf_src P -> stratified (wp_graph P) -> (forall a, is_model (wp_graph P) a (M a)) ->
    break_cycles_m tc use_memo (wp_graph P) (ai_of P) [q] e = Some (D, [kq], kes) ->
    PL.C10.ModelCircuit.check_ddnnf (length D) C (clark_cnf P D) = true ->
    forallb (lit_key (length D)) (kq :: kes) = true ->
    evaluator tc use_memo P q e C = Some (world_prob P M q e).
Proof.
  intros tc um P q e M C D kq kes WF ST HM BC CK LK.
  rewrite (evaluator_is_pipeline tc um P q e C D kq kes BC CK LK).
  eapply pipeline_correct; eauto.
Qed.

(* all queries at once *)
Theorem pipeline_all_correct : forall tc use_memo P qs e M D kqs kes,
    wf_src P -> stratified (wp_graph P) -> (forall a, is_model (wp_graph P) a (M a)) ->
    break_cycles_m tc use_memo (wp_graph P) (ai_of P) qs e = Some (D, kqs, kes) ->
    pipeline_all tc use_memo P qs e = Some (map (fun q => world_prob P M q e) qs).
Proof.
  intros tc um P qs e M D kqs kes WF ST HM BC.
  eapply pipeline_all_correct_ok; eauto.
  - intros g Hg Hin. apply (wf_fresh P WF g Hg). apply (wf_atoms P WF). exact Hin.
  - eapply break_cycles_shape; eauto.
Qed.
