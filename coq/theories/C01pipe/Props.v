(* C01pipe -- the ground part of ProbLog's exact-inference pipeline, end to end (deepening of C01).
   Only statements here, every proof is `exact <lemma>`; definitions in PipeModel.v (executable,
   no proofs), proofs in Sums.v / Bridge.v / PipeProofs.v / AdInv.v.

   Composed developments (all Required read-only):
     C09  BoolGraph (and-or graphs, is_model, dag_val), Strat (existence), CyclesModel / CyclesProofs
          (break_cycles incl. memo returns the model value), GenClark / ClarkProofs (the TRANSLATED
          clarks_completion: clause list, node_spec_sat, ad_spec_sat), BuilderProofs
     C10  ModelCircuit.wmc_cnf / check_ddnnf / c_eval, ProofsWMC.checked_eval_is_wmc_cnf
   New here: Shannon sums over Qc, the AD exactly-one encoding in that form (= Sem.WMC.ad_encoding,
   which is stated over lists of assignments in Q), marginalisation of irrelevant choices, the
   elimination of the determined variables of a Clark completion, the AD bookkeeping invariant of
   break_cycles' target builder. *)
From Coq Require Import ZArith NArith List Bool Arith QArith Qcanon Permutation.
From PL.C09 Require Import BoolGraph Strat ClarkBase GenClark ClarkProofs CyclesModel.
From PL.C10 Require ModelCircuit ModelOracle.
From PL.C01pipe Require Import Sums PipeModel Bridge PipeProofs AdInv Cone.
Import ListNotations.
Local Open Scope Qc_scope.

(* ================================================================== THE END-TO-END THEOREM *)
(* For every weighted ground and-or program P (LogicFormula representation: cyclic graph with signed
   children, atom identifiers with probabilities, independent facts, AD groups with their extra
   identifier) that is well-formed (wf_src) and stratified, every query key q and evidence keys e, every
   function M giving each world's model (exists and is unique, see C01_pipe_model_exists):
   whenever the model of break_cycles returns an acyclic formula, the pipeline
       break_cycles  ->  clarks_completion + ConstraintAD clauses  ->  weights with the complement weight
       ->  two weighted model counts over ALL CNF variables (evidence; evidence + query as unit clauses)
       ->  ratio, or Inconsistent when the evidence count is 0
   returns exactly the possible-world conditional probability of q given e (exact rationals),
   where a world picks true/false for every fact and one member or none for every AD group, and truth
   in a world is the stratified (least) model of the CYCLIC program.  tc / use_memo: both variants of
   the cycle-breaking model (C09).  Nothing is assumed about the weights (they need not be
   probabilities: the identity is algebraic). *)
Theorem C01_pipeline_correct : forall tc use_memo P q e M D ks1 ks2,
    wf_src P -> stratified (wp_graph P) -> (forall a, is_model (wp_graph P) a (M a)) ->
    break_cycles_m tc use_memo (wp_graph P) (ai_of P) [q] e = Some (D, ks1, ks2) ->
    pipeline tc use_memo P q e = Some (world_prob P M q e).
Proof. exact pipeline_correct. Qed.
Print Assumptions C01_pipeline_correct.

(* the same for ALL queries at once, as the real pipeline runs: one acyclic formula built for every query
   and evidence name (so it also contains atoms that are irrelevant to a particular query: they are summed
   out by the weights), one conditional probability per query *)
Theorem C01_pipeline_correct_all : forall tc use_memo P qs e M D kqs kes,
    wf_src P -> stratified (wp_graph P) -> (forall a, is_model (wp_graph P) a (M a)) ->
    break_cycles_m tc use_memo (wp_graph P) (ai_of P) qs e = Some (D, kqs, kes) ->
    pipeline_all tc use_memo P qs e = Some (map (fun q => world_prob P M q e) qs).
Proof. exact pipeline_all_correct. Qed.
Print Assumptions C01_pipeline_correct_all.

(* REAL SOURCE LAYOUT.  The LogicFormula the engine produces also contains the extra atom of every AD as an
   atom node that nothing refers to (so wf_src's "every atom is a fact or a member" fails for it).  For such
   formulas: let SK be any set of node keys that contains the query / evidence keys, is closed under children
   and contains no atom other than facts and members (cone_ok; checkable: cone_okb).  Then the same
   conclusion holds -- the model on a cone only reads the atoms of the cone (C01_pipe_cone_local) and
   _break_cycles only follows children. *)
Theorem C01_pipeline_correct_real_layout : forall tc use_memo P qs e M SK D kqs kes,
    wf_src_x P -> cone_ok P (qs ++ e) SK ->
    stratified (wp_graph P) -> (forall a, is_model (wp_graph P) a (M a)) ->
    break_cycles_m tc use_memo (wp_graph P) (ai_of P) qs e = Some (D, kqs, kes) ->
    pipeline_all tc use_memo P qs e = Some (map (fun q => world_prob P M q e) qs).
Proof. exact pipeline_all_correct_cone. Qed.
Print Assumptions C01_pipeline_correct_real_layout.

(* the two counts separately: WMC(CNF /\ e /\ q) and WMC(CNF /\ e) are the world sums *)
Theorem C01_pipeline_counts : forall tc use_memo P q e M D kq kes,
    stratified (wp_graph P) -> (forall a, is_model (wp_graph P) a (M a)) -> extras_fresh P ->
    break_cycles_m tc use_memo (wp_graph P) (ai_of P) [q] e = Some (D, [kq], kes) ->
    dag_ok P D ->
    pipe_wmc P D (kq :: kes) = world_sum P (fun a => b2q (holds (M a) (q :: e))) /\
    pipe_wmc P D kes = world_sum P (fun a => b2q (holds (M a) e)).
Proof. exact pipeline_counts. Qed.
Print Assumptions C01_pipeline_counts.

(* Inconsistent iff the weighted model count of the evidence is 0 (pipeline side and specification side) *)
Theorem C01_pipeline_inconsistent : forall tc use_memo P q e D kq kes,
    break_cycles_m tc use_memo (wp_graph P) (ai_of P) [q] e = Some (D, [kq], kes) ->
    (pipeline tc use_memo P q e = Some PInconsistent <-> pipe_wmc P D kes = 0).
Proof. exact pipeline_inconsistent. Qed.
Print Assumptions C01_pipeline_inconsistent.

Theorem C01_world_inconsistent : forall wqe we, normalize wqe we = PInconsistent <-> we = 0.
Proof. exact normalize_inconsistent. Qed.
Print Assumptions C01_world_inconsistent.

(* the same result with a per-instance checked shape of the acyclic formula instead of wf_src
   (only "extra identifiers are not atoms of the cyclic program" is assumed about the source) *)
Theorem C01_pipeline_correct_checked : forall tc use_memo P q e M D kq kes,
    stratified (wp_graph P) -> (forall a, is_model (wp_graph P) a (M a)) -> extras_fresh P ->
    break_cycles_m tc use_memo (wp_graph P) (ai_of P) [q] e = Some (D, [kq], kes) ->
    dag_okb P D = true ->
    pipeline tc use_memo P q e = Some (world_prob P M q e).
Proof. exact pipeline_correct_checked. Qed.
Print Assumptions C01_pipeline_correct_checked.

(* d-DNNF stage (C10): any circuit accepted by the verified checker for the conditioned CNF evaluates
   to the count used above, so it may replace it *)
Theorem C01_pipe_circuit : forall P D ks C,
    ModelCircuit.check_ddnnf (length D) C (cond_cnf P D ks) = true -> pipe_eval P D C = pipe_wmc P D ks.
Proof. exact circuit_is_count. Qed.
Print Assumptions C01_pipe_circuit.

(* The evaluator's mechanics (SimpleDDNNFEvaluator): ONE circuit compiled from the unconditioned CNF and
   accepted by C10's verified checker; evidence and query imposed by setting the weight of the opposite
   literal to 0; keys must be expressible by weights (TRUE or a literal, not FALSE) *)
Theorem C01_pipeline_evaluator : forall tc use_memo P q e M C D kq kes,
    wf_src P -> stratified (wp_graph P) -> (forall a, is_model (wp_graph P) a (M a)) ->
    break_cycles_m tc use_memo (wp_graph P) (ai_of P) [q] e = Some (D, [kq], kes) ->
    ModelCircuit.check_ddnnf (length D) C (clark_cnf P D) = true ->
    forallb (lit_key (length D)) (kq :: kes) = true ->
    evaluator tc use_memo P q e C = Some (world_prob P M q e).
Proof. exact evaluator_correct. Qed.
Print Assumptions C01_pipeline_evaluator.

(* zeroed weights = unit clauses *)
Theorem C01_pipe_weights_are_units : forall P D ks,
    forallb (lit_key (length D)) ks = true -> pipe_wmc_w P D ks = pipe_wmc P D ks.
Proof. exact pipe_wmc_w_correct. Qed.
Print Assumptions C01_pipe_weights_are_units.

(* ================================================================== STAGE THEOREMS *)
(* shape of break_cycles' output (the part C09 does not state): no TRUE children, atoms pairwise distinct,
   atoms = relevant facts/members + the extra atom of exactly the groups with >= 2 relevant members *)
Theorem C01_pipe_break_cycles_shape : forall tc use_memo P labeled evidence D ks1 ks2,
    wf_src P -> break_cycles_m tc use_memo (wp_graph P) (ai_of P) labeled evidence = Some (D, ks1, ks2) ->
    dag_ok P D.
Proof. exact break_cycles_shape. Qed.
Print Assumptions C01_pipe_break_cycles_shape.

(* Clark stage: the count of (completion /\ G) over all node variables, internal nodes weighing (1,1),
   is the sum over the atom identifiers of G at the DAG valuation: internal variables are determined *)
Theorem C01_pipe_wmc_completion : forall D, topo D -> nozero D -> NoDup (atoms_of D) ->
    forall (w : nat -> bool -> Qc) (wi : N -> bool -> Qc),
    (forall k id b, node_at D k = Some (NAtom id) -> w k b = wi id b) ->
    (forall k nd b, node_at D k = Some nd -> (forall id, nd <> NAtom id) -> w k b = 1) ->
    forall G : (nat -> bool) -> Qc, (forall m m', (forall k, m k = m' k) -> G m = G m') ->
    forall a0,
    ssum Nat.eqb w (seq 1 (length D)) (fun m => b2q (sat_cnf m (completion_clauses D)) * G m) ModelCircuit.asg0
    = ssum N.eqb wi (atoms_of D) (fun a => G (dvD D a)) a0.
Proof. exact wmc_completion. Qed.
Print Assumptions C01_pipe_wmc_completion.

(* C10's recursive count is this Shannon sum *)
Theorem C01_pipe_wmc_is_ssum : forall (w : nat -> bool -> Qc) vs phi a,
    ModelCircuit.wmc ModelOracle.QcOps w vs phi a = ssum Nat.eqb w vs (fun m => b2q (phi m)) a.
Proof. exact wmc_ssum. Qed.
Print Assumptions C01_pipe_wmc_is_ssum.

(* AD stage (Shannon form of C01_ad_encoding): summing the member variables and the extra variable with
   positive weights p_i, 1 - sum p, negative weights 1, restricted to exactly-one, is the categorical sum *)
Theorem C01_pipe_ad_block : forall (w : N -> bool -> Qc) (wt : N -> Qc) ms e K a0,
    NoDup (ms ++ [e]) ->
    (forall x, In x (ms ++ [e]) -> w x false = 1) ->
    (forall x, In x ms -> w x true = wt x) -> w e true = 1 - wtsum wt ms ->
    dep (fun y => y <> e) K ->
    ssum N.eqb w (ms ++ [e]) (fun a => b2q (Nat.eqb (count a (ms ++ [e])) 1) * K a) a0
    = bsum1 N.eqb wt ms K a0.
Proof. exact (ssum_ad_block N.eqb N_eqb_spec). Qed.
Print Assumptions C01_pipe_ad_block.

(* marginalisation: choices the integrand does not read (facts / members that are not in the acyclic
   formula) sum out; dropped members join the "none" alternative -- this is where the complement
   weight 1 - (sum over the RELEVANT members) comes from *)
Theorem C01_pipe_marginal : forall (wt : N -> Qc) (p : N -> bool) bs K a,
    dep (fun y => p y = true) K -> bsum N.eqb wt bs K a = bsum N.eqb wt (map (filter p) bs) K a.
Proof. exact (bsum_restrict N.eqb N_eqb_spec). Qed.
Print Assumptions C01_pipe_marginal.

(* count of the acyclic formula = world sum of the CYCLIC program's choice structure, integrand read
   at the DAG valuation (Clark + constraints + weights + marginalisation, without cycle breaking) *)
Theorem C01_pipe_count_is_world_sum : forall P D ks,
    topo D -> dag_ok P D ->
    (forall b, In b (wp_groups P) -> dep (fun y => y <> snd b) (fun a => b2q (holds (vget (dag_val a D)) ks))) ->
    pipe_wmc P D ks = world_sum P (fun a => b2q (holds (vget (dag_val a D)) ks)).
Proof. exact pipe_wmc_world. Qed.
Print Assumptions C01_pipe_count_is_world_sum.

(* the formula's real constraint list also holds the trivial ConstraintAD objects (one relevant member, no
   extra node) and arbitrary weights / names tables: the generated clarks_completion emits the same clauses *)
Theorem C01_pipe_trivial_constraints : forall P D ws cons names,
    filter (fun ad => 2 <=? length (ad_nodes ad))%nat cons = cons_of P D ->
    map conv_clause (c_clauses (clarks_completion
       {| f_nodes := D; f_weights := ws; f_constraints := cons; f_names := names |} false cnf_empty))
    = clark_cnf P D.
Proof. exact clark_cnf_trivial. Qed.
Print Assumptions C01_pipe_trivial_constraints.

(* locality: on a set of keys closed under children, the model of a stratified graph only reads the atoms
   sitting at those keys (the statement C08 calls `relevant`, here for and-or graphs) *)
Theorem C01_pipe_cone_local : forall F SK,
    (forall k nd c, In k SK -> node_at F k = Some nd -> In c (children nd) -> c = 0%Z \/ In (key_of c) SK) ->
    forall a a' s s', stratified F -> is_model F a s -> is_model F a' s' ->
    (forall k id, In k SK -> node_at F k = Some (NAtom id) -> a id = a' id) ->
    forall k, In k SK -> s k = s' k.
Proof. exact cone_local. Qed.
Print Assumptions C01_pipe_cone_local.

Theorem C01_pipe_cone_checker_sound : forall P roots SK, cone_okb P roots SK = true -> cone_ok P roots SK.
Proof. exact cone_okb_sound. Qed.
Print Assumptions C01_pipe_cone_checker_sound.

(* the model function exists for stratified programs (and is unique: C09_stratified_model_unique) *)
Theorem C01_pipe_model_exists : forall F, stratified F -> exists M, forall a, is_model F a (M a).
Proof. exact stratified_model_fun. Qed.
Print Assumptions C01_pipe_model_exists.

(* an executable one, justified by enumeration of the atom assignments *)
Theorem C01_pipe_model_by_enumeration : forall F, model_checkb F = true -> forall a, is_model F a (model_of F a).
Proof. exact model_by_enumeration. Qed.
Print Assumptions C01_pipe_model_by_enumeration.

Theorem C01_pipe_checkers_sound : forall P, (wf_srcb P = true -> wf_src P) /\ (forall D, dag_okb P D = true -> dag_ok P D).
Proof. exact (fun P => conj (wf_srcb_sound P) (dag_okb_sound P)). Qed.
Print Assumptions C01_pipe_checkers_sound.

(* ================================================================== NON-VACUITY *)
(* 0.3::a; 0.5::b.  0.6::c.  p :- a.  p :- q, c.  q :- p.  q :- b.  r :- \+q, c.
   (positive cycle p <-> q, an AD, a fact, negation)   query(p).  evidence(r, false).
   keys: a=1 b=2 c=3 p=4 (a \/ 5) 5=(q /\ c) q=6 (p \/ b) r=7 (\+q /\ c); extra identifier of the AD: 10 *)
Definition exF : graph :=
  [NAtom 1; NAtom 2; NAtom 3; NOr [1; 5]%Z; NAnd [6; 3]%Z; NOr [4; 2]%Z; NAnd [-6; 3]%Z].
Definition exwt (id : N) : Qc :=
  match id with 1%N => Q2Qc (3#10) | 2%N => Q2Qc (1#2) | 3%N => Q2Qc (6#10) | _ => Q2Qc 0 end.
Definition exP : wprog :=
  {| wp_graph := exF; wp_wt := exwt; wp_facts := [3%N]; wp_groups := [([1%N; 2%N], 10%N)] |}.
Definition exq : key := Some 4%Z.
Definition exe : list key := [Some (-7)%Z].

(* the hypotheses of C01_pipeline_correct hold for this program ... *)
Example C01_example_hypotheses :
  wf_src exP /\ stratified exF /\ (forall a, is_model exF a (model_of exF a)) /\ topob exF = false /\
  exists D kq kes, break_cycles_m false true exF (ai_of exP) [exq] exe = Some (D, [kq], kes) /\ length D = 8%nat.
Proof.
  split. { apply wf_srcb_sound. vm_compute. reflexivity. }
  split. { apply (stratb_sound exF [0; 0; 0; 0; 0; 0; 0; 1]%nat). vm_compute. reflexivity. }
  split. { apply model_by_enumeration. vm_compute. reflexivity. }
  split. { vm_compute. reflexivity. }
  eexists. eexists. eexists. split. vm_compute. reflexivity. reflexivity.
Qed.

(* ... so the theorem applies (instance), and both sides evaluate to 15/22 = 0.6 / 0.88 *)
Example C01_example_instance :
  pipeline false true exP exq exe = Some (world_prob exP (model_of exF) exq exe).
Proof.
  destruct C01_example_hypotheses as [WF [ST [HM [_ [D [kq [kes [BC _]]]]]]]].
  exact (C01_pipeline_correct false true exP exq exe (model_of exF) D [kq] kes WF ST HM BC).
Qed.

Example C01_example_pipeline_value :
  exists p, pipeline false true exP exq exe = Some (POk p) /\ this p = (15#22)%Q.
Proof. eexists. split; vm_compute; reflexivity. Qed.

Example C01_example_world_value :
  exists p, world_prob exP (model_of exF) exq exe = POk p /\ this p = (15#22)%Q.
Proof. eexists. split; vm_compute; reflexivity. Qed.

(* the CNF really contains the AD clauses over members + extra variable (keys 1, 2 and 3) and the weights
   are (p,1), (p,1), (1 - 0.8, 1) for them, (0.6, 0.4) for the fact, (1,1) for internal nodes *)
Example C01_example_cnf_weights :
  match break_cycles_m false true exF (ai_of exP) [exq] exe with
  | Some (D, _, _) =>
      cons_of exP D = [{| ad_nodes := [1; 2]%Z; ad_extra := 3%Z |}] /\
      length (clark_cnf exP D) = 16%nat /\
      map (fun k => (this (wkey exP D k true), this (wkey exP D k false))) [1; 2; 3; 4; 5]%nat
      = [(3#10, 1); (1#2, 1); (1#5, 1); (3#5, 2#5); (1, 1)]%Q
  | None => False
  end.
Proof. vm_compute. repeat split; reflexivity. Qed.

(* contradictory evidence: r true and q true; both sides answer Inconsistent *)
Example C01_example_inconsistent :
  pipeline false true exP exq [Some 7%Z; Some 6%Z] = Some PInconsistent /\
  world_prob exP (model_of exF) exq [Some 7%Z; Some 6%Z] = PInconsistent.
Proof. split; vm_compute; reflexivity. Qed.

(* without the memo the same answer *)
Example C01_example_nomemo :
  exists p, pipeline false false exP exq exe = Some (POk p) /\ this p = (15#22)%Q.
Proof. eexists. split; vm_compute; reflexivity. Qed.

(* the circuit stage on a one-fact program: `0.3::a. query(a).` *)
Example C01_example_circuit :
  let P1 := {| wp_graph := [NAtom 1]; wp_wt := exwt; wp_facts := [1%N]; wp_groups := [] |} in
  ModelCircuit.check_ddnnf 1 [ModelCircuit.Atom 1] (cond_cnf P1 [NAtom 1] [Some 1%Z]) = true /\
  this (pipe_eval P1 [NAtom 1] [ModelCircuit.Atom 1]) = (3#10)%Q.
Proof. split; vm_compute; reflexivity. Qed.

(* a larger one: two ADs and two facts, of which one AD keeps two of its three members (extra weight
   1 - 0.2 - 0.3, the irrelevant third member is marginalised into "none"), the other AD keeps one
   member of two (trivial constraint: weights (p, 1-p), no extra atom) and one fact is irrelevant.
   0.2::a1; 0.3::a2; 0.4::a3.  0.5::b4; 0.25::b5.  0.7::f6.  0.9::f7.
   x :- a1.  x :- a2.  x :- y, f6.   y :- x.  y :- b4.   z :- a3, f7.   w :- \+y, f6.
   query(x).  evidence(w, false). *)
Definition ex2F : graph :=
  [NAtom 1; NAtom 2; NAtom 3; NAtom 4; NAtom 5; NAtom 6; NAtom 7;
   NOr [1; 2; 9]%Z; NAnd [10; 6]%Z; NOr [8; 4]%Z; NAnd [3; 7]%Z; NAnd [-10; 6]%Z].
Definition ex2wt (id : N) : Qc :=
  match id with
  | 1%N => Q2Qc (2#10) | 2%N => Q2Qc (3#10) | 3%N => Q2Qc (4#10) | 4%N => Q2Qc (1#2)
  | 5%N => Q2Qc (1#4) | 6%N => Q2Qc (7#10) | 7%N => Q2Qc (9#10) | _ => Q2Qc 0
  end.
Definition ex2P : wprog :=
  {| wp_graph := ex2F; wp_wt := ex2wt; wp_facts := [6%N; 7%N];
     wp_groups := [([1%N; 2%N; 3%N], 20%N); ([4%N; 5%N], 21%N)] |}.

Example C01_example2_hypotheses :
  wf_src ex2P /\ stratified ex2F /\ (forall a, is_model ex2F a (model_of ex2F a)).
Proof.
  split. { apply wf_srcb_sound. vm_compute. reflexivity. }
  split. { apply (stratb_sound ex2F [0; 0; 0; 0; 0; 0; 0; 0; 0; 0; 0; 0; 1]%nat). vm_compute. reflexivity. }
  apply model_by_enumeration. vm_compute. reflexivity.
Qed.

(* P(x /\ \+w) / P(\+w):  \+w = y \/ \+f6;  y = a1 \/ a2 \/ b4, x = a1 \/ a2 \/ (b4 /\ f6).
   P(y) = 1 - 0.5*0.5 = 3/4, P(\+w) = 3/4 + 1/4*3/10 = 33/40;  P(x /\ \+w) = P(x) = 1/2 + 1/2*1/2*7/10 = 27/40 *)
Example C01_example2_values :
  (exists p, pipeline false true ex2P (Some 8%Z) [Some (-12)%Z] = Some (POk p) /\ this p = (9#11)%Q) /\
  (exists p, world_prob ex2P (model_of ex2F) (Some 8%Z) [Some (-12)%Z] = POk p /\ this p = (9#11)%Q) /\
  match break_cycles_m false true ex2F (ai_of ex2P) [Some 8%Z] [Some (-12)%Z] with
  | Some (D, _, _) => atoms_of D = [1; 2; 20; 4; 6]%N /\ dag_okb ex2P D = true /\
                      map (fun k => (this (wkey ex2P D k true), this (wkey ex2P D k false))) [1; 2; 3; 4; 5]%nat
                      = [(1#5, 1); (3#10, 1); (1#2, 1); (1#2, 1#2); (7#10, 3#10)]%Q
  | None => False
  end.
Proof.
  split. { eexists. split; vm_compute; reflexivity. }
  split. { eexists. split; vm_compute; reflexivity. }
  vm_compute. repeat split; reflexivity.
Qed.

(* the circuit dsharp (-smoothNNF) returns for the 16 clauses of the first example, in ProbLog's DDNNF node
   layout: accepted by the verified checker; evaluated with the evidence / query weights zeroed it gives
   the same 15/22 *)
Definition exC : ModelCircuit.circuit :=
  [ModelCircuit.Atom 5;
   ModelCircuit.Atom 2;
   ModelCircuit.Atom 4;
   ModelCircuit.Disj [ModelCircuit.RPos 2; ModelCircuit.RNeg 2];
   ModelCircuit.Atom 6;
   ModelCircuit.Atom 1;
   ModelCircuit.Atom 7;
   ModelCircuit.Atom 8;
   ModelCircuit.Atom 3;
   ModelCircuit.Conj [ModelCircuit.RPos 4; ModelCircuit.RPos 5; ModelCircuit.RPos 6; ModelCircuit.RNeg 7; ModelCircuit.RNeg 8];
   ModelCircuit.Conj [ModelCircuit.RPos 3; ModelCircuit.RPos 9];
   ModelCircuit.Conj [ModelCircuit.RNeg 2; ModelCircuit.RNeg 7];
   ModelCircuit.Conj [ModelCircuit.RPos 2; ModelCircuit.RPos 7];
   ModelCircuit.Disj [ModelCircuit.RPos 11; ModelCircuit.RPos 12];
   ModelCircuit.Conj [ModelCircuit.RNeg 4; ModelCircuit.RNeg 5; ModelCircuit.RNeg 6; ModelCircuit.RPos 8; ModelCircuit.RPos 13];
   ModelCircuit.Disj [ModelCircuit.RPos 10; ModelCircuit.RPos 14];
   ModelCircuit.Conj [ModelCircuit.RNeg 0; ModelCircuit.RNeg 1; ModelCircuit.RPos 15];
   ModelCircuit.Conj [ModelCircuit.RNeg 0; ModelCircuit.RNeg 2; ModelCircuit.RNeg 4];
   ModelCircuit.Conj [ModelCircuit.RPos 0; ModelCircuit.RPos 2; ModelCircuit.RPos 4];
   ModelCircuit.Disj [ModelCircuit.RPos 17; ModelCircuit.RPos 18];
   ModelCircuit.Conj [ModelCircuit.RPos 1; ModelCircuit.RNeg 5; ModelCircuit.RPos 6; ModelCircuit.RNeg 7; ModelCircuit.RNeg 8; ModelCircuit.RPos 19];
   ModelCircuit.Disj [ModelCircuit.RPos 16; ModelCircuit.RPos 20]].

Example C01_example_evaluator :
  match break_cycles_m false true exF (ai_of exP) [exq] exe with
  | Some (D, ks1, ks2) =>
      ModelCircuit.check_ddnnf (length D) exC (clark_cnf exP D) = true /\
      forallb (lit_key (length D)) (ks1 ++ ks2) = true
  | None => False
  end /\
  exists p, evaluator false true exP exq exe exC = Some (POk p) /\ this p = (15#22)%Q.
Proof. split. vm_compute. split; reflexivity. eexists. split; vm_compute; reflexivity. Qed.

(* three queries at once on the second program (x, y, z): one formula with the atoms of all of them *)
Example C01_example2_all :
  match pipeline_all false true ex2P [Some 8%Z; Some 10%Z; Some 11%Z] [Some (-12)%Z],
        break_cycles_m false true ex2F (ai_of ex2P) [Some 8%Z; Some 10%Z; Some 11%Z] [Some (-12)%Z] with
  | Some rs, Some (D, _, _) =>
      map (fun r => match r with POk p => Some (this p) | PInconsistent => None end) rs
      = [Some (9#11)%Q; Some (10#11)%Q; Some (78#275)%Q] /\
      atoms_of D = [1; 2; 20; 4; 6; 3; 7]%N
  | _, _ => False
  end /\
  map (fun r => match r with POk p => Some (this p) | PInconsistent => None end)
      (map (fun q => world_prob ex2P (model_of ex2F) q [Some (-12)%Z]) [Some 8%Z; Some 10%Z; Some 11%Z])
  = [Some (9#11)%Q; Some (10#11)%Q; Some (78#275)%Q].
Proof. split; vm_compute; repeat split; reflexivity. Qed.

(* the first program in the engine's layout: the extra atom of the AD (identifier 10) is node 8 of the
   SOURCE formula, referenced by nothing.  wf_srcb rejects it, the cone {1..7} of the roots is accepted,
   and both sides still give 15/22 *)
Definition exF' : graph := exF ++ [NAtom 10].
Definition exP' : wprog :=
  {| wp_graph := exF'; wp_wt := exwt; wp_facts := [3%N]; wp_groups := [([1%N; 2%N], 10%N)] |}.

Example C01_example_real_layout :
  wf_srcb exP' = false /\
  wf_src_x exP' /\ cone_ok exP' ([exq] ++ exe) [1; 2; 3; 4; 5; 6; 7]%nat /\ stratified exF' /\
  (forall a, is_model exF' a (model_of exF' a)) /\
  (exists rs, pipeline_all false true exP' [exq] exe = Some rs /\
              map (fun r => match r with POk p => Some (this p) | PInconsistent => None end) rs = [Some (15#22)%Q]) /\
  (exists p, world_prob exP' (model_of exF') exq exe = POk p /\ this p = (15#22)%Q).
Proof.
  split. { vm_compute. reflexivity. }
  split. { constructor.
           - apply nodupb_sound. vm_compute. reflexivity.
           - apply nodupb_sound. vm_compute. reflexivity.
           - intros g [<-|[]]. vm_compute. intuition discriminate. }
  split. { apply cone_okb_sound. vm_compute. reflexivity. }
  split. { apply (stratb_sound exF' [0; 0; 0; 0; 0; 0; 0; 1; 0]%nat). vm_compute. reflexivity. }
  split. { apply model_by_enumeration. vm_compute. reflexivity. }
  split. { eexists. split; vm_compute; reflexivity. }
  eexists. split; vm_compute; reflexivity.
Qed.
