(* C01pipe/PipeProofs.v -- the composition:
     weighted model count of (Clark completion of the acyclic formula /\ AD clauses /\ unit clauses)
   = possible-world sum of the cyclic program.
   Uses C09.break_cycles_correct, C09.clark_clauses_eq / node_spec_sat / ad_spec_sat,
   C09.stratified_model_unique, Bridge.wmc_completion and the block lemmas of Sums. *)
From Coq Require Import ZArith NArith List Bool Arith Lia QArith Qcanon Permutation.
From PL.C09 Require Import BoolGraph Strat ClarkBase GenClark ClarkProofs CyclesModel BuilderProofs CyclesProofs.
From PL.C10 Require ModelCircuit ModelOracle ProofsWMC ProofsInstances.
From PL.C01pipe Require Import Sums PipeModel Bridge.
Import ListNotations.
Local Open Scope Qc_scope.

(* ------------------------------------------------------------------ small list facts *)
Lemma nodupb_sound : forall l, nodupb l = true -> NoDup l.
Proof.
  induction l as [|x r IH]; simpl; intros H. constructor.
  apply andb_true_iff in H. destruct H as [H1 H2]. constructor; auto.
  intro Hin. apply negb_true_iff in H1.
  assert (existsb (N.eqb x) r = true). { apply existsb_exists. exists x. split; auto. apply N.eqb_refl. }
  congruence.
Qed.

Lemma existsb_Neqb_In : forall x l, existsb (N.eqb x) l = true <-> In x l.
Proof.
  intros. rewrite existsb_exists. split.
  - intros [y [H E]]. apply N.eqb_eq in E. subst. auto.
  - intros H. exists x. split; auto. apply N.eqb_refl.
Qed.

Lemma inD_In : forall D id, inD D id = true <-> In id (atoms_of D).
Proof. intros. apply existsb_Neqb_In. Qed.

Lemma NoDup_app_disj : forall (A : Type) (l1 l2 : list A) x, NoDup (l1 ++ l2) -> In x l1 -> In x l2 -> False.
Proof.
  induction l1 as [|y l1 IH]; simpl; intros l2 x ND H1 H2. contradiction.
  inversion ND; subst. destruct H1 as [->|H1].
  - apply H3. apply in_or_app. right; auto.
  - eapply IH; eauto.
Qed.

Lemma NoDup_app_l : forall (A : Type) (l1 l2 : list A), NoDup (l1 ++ l2) -> NoDup l1.
Proof.
  induction l1 as [|y l1 IH]; simpl; intros l2 ND. constructor.
  inversion ND; subst. constructor. intro; apply H1; apply in_or_app; left; auto. eapply IH; eauto.
Qed.

Lemma NoDup_app_r : forall (A : Type) (l1 l2 : list A), NoDup (l1 ++ l2) -> NoDup l2.
Proof. induction l1 as [|y l1 IH]; simpl; intros l2 ND; auto. inversion ND; subst. auto. Qed.

Lemma assoc_In : forall (A : Type) (l : list (N * A)) k v, NoDup (map fst l) -> In (k, v) l -> assoc k l = Some v.
Proof.
  induction l as [|[k' v'] l IH]; simpl; intros k v ND H. contradiction.
  inversion ND; subst. destruct H as [H|H].
  - inversion H; subst. now rewrite N.eqb_refl.
  - destruct (N.eqb k k') eqn:E.
    + apply N.eqb_eq in E. subst. exfalso. apply H2. apply in_map_iff. exists (k', v). auto.
    + apply IH; auto.
Qed.

(* ------------------------------------------------------------------ what dag_okb gives *)
Record dag_ok (P : wprog) (D : graph) : Prop := {
  ok_nozero : nozero D;
  ok_nodup : NoDup (atoms_of D);
  ok_nodup_lay : NoDup (layout P D);
  ok_perm : Permutation (atoms_of D) (layout P D);
  ok_lay_in : forall id, In id (layout P D) -> In id (atoms_of D) }.

Lemma dag_okb_sound : forall P D, dag_okb P D = true -> dag_ok P D.
Proof.
  intros P D H. unfold dag_okb in H. rewrite !andb_true_iff in H.
  destruct H as [[[[H1 H2] H3] H4] H5].
  assert (N1 := nodupb_sound _ H2). assert (N2 := nodupb_sound _ H3).
  rewrite forallb_forall in H4, H5.
  assert (I1 : forall id, In id (atoms_of D) -> In id (layout P D)).
  { intros id Hi. apply existsb_Neqb_In. apply H4; auto. }
  assert (I2 : forall id, In id (layout P D) -> In id (atoms_of D)).
  { intros id Hi. apply inD_In. apply H5; auto. }
  constructor; auto.
  - intros nd c Hn Hc. rewrite forallb_forall in H1. apply H1 in Hn. rewrite forallb_forall in Hn.
    apply Hn in Hc. apply negb_true_iff in Hc. apply Z.eqb_neq in Hc. exact Hc.
  - apply NoDup_Permutation; auto. intros x. split; auto.
Qed.

(* ------------------------------------------------------------------ weights *)
Lemma wentries_keys : forall wt D b, map fst (wentries wt D b) = lay D b.
Proof.
  intros. unfold wentries, lay. destruct (nontrivial D b).
  - rewrite map_app, map_map. simpl. now rewrite map_id.
  - rewrite map_map. simpl. now rewrite map_id.
Qed.

Lemma wtable_keys : forall P D, map fst (wtable P D) = layout P D.
Proof.
  intros. unfold wtable, layout. induction (blocks P) as [|b r IH]; simpl; auto.
  now rewrite map_app, wentries_keys, IH.
Qed.

Lemma wid_entry : forall P D b id pn, NoDup (layout P D) -> In b (blocks P) ->
    In (id, pn) (wentries (wp_wt P) D b) -> forall s, wid P D id s = if s then fst pn else snd pn.
Proof.
  intros P D b id pn ND Hb Hin s. unfold wid.
  rewrite (assoc_In _ (wtable P D) id pn); auto.
  - now rewrite wtable_keys.
  - unfold wtable. apply in_flat_map. exists b. auto.
Qed.

Lemma wid_nontrivial : forall P D b, NoDup (layout P D) -> In b (blocks P) -> nontrivial D b = true ->
    (forall m, In m (blockD D b) -> wid P D m true = wp_wt P m /\ wid P D m false = 1) /\
    wid P D (snd b) true = 1 - wtsum (wp_wt P) (blockD D b) /\ wid P D (snd b) false = 1.
Proof.
  intros P D b ND Hb NT. split; [|split].
  - intros m Hm.
    assert (In (m, (wp_wt P m, 1)) (wentries (wp_wt P) D b)).
    { unfold wentries. rewrite NT. apply in_or_app. left. apply in_map_iff. exists m. auto. }
    split; rewrite (wid_entry P D b m _ ND Hb H); reflexivity.
  - assert (In (snd b, (1 - wtsum (wp_wt P) (blockD D b), 1)) (wentries (wp_wt P) D b)).
    { unfold wentries. rewrite NT. apply in_or_app. right. left. reflexivity. }
    rewrite (wid_entry P D b _ _ ND Hb H). reflexivity.
  - assert (In (snd b, (1 - wtsum (wp_wt P) (blockD D b), 1)) (wentries (wp_wt P) D b)).
    { unfold wentries. rewrite NT. apply in_or_app. right. left. reflexivity. }
    rewrite (wid_entry P D b _ _ ND Hb H). reflexivity.
Qed.

Lemma wid_trivial : forall P D b, NoDup (layout P D) -> In b (blocks P) -> nontrivial D b = false ->
    forall m, In m (blockD D b) -> wid P D m true = wp_wt P m /\ wid P D m false = 1 - wp_wt P m.
Proof.
  intros P D b ND Hb NT m Hm.
  assert (In (m, (wp_wt P m, 1 - wp_wt P m)) (wentries (wp_wt P) D b)).
  { unfold wentries. rewrite NT. apply in_map_iff. exists m. auto. }
  split; rewrite (wid_entry P D b m _ ND Hb H); reflexivity.
Qed.

(* ------------------------------------------------------------------ the AD indicator per block *)
Definition adb (D : graph) (a : N -> bool) (b : list N * N) : bool :=
  if nontrivial D b then Nat.eqb (count a (lay D b)) 1 else true.
Definition adsb (D : graph) (bs : list (list N * N)) (a : N -> bool) : bool := forallb (adb D a) bs.

Lemma blocks_sum : forall D wt wi U bs a0,
    NoDup (flat_map (lay D) bs) ->
    (forall b, In b bs -> nontrivial D b = true ->
       (forall m, In m (blockD D b) -> wi m true = wt m /\ wi m false = 1) /\
       wi (snd b) true = 1 - wtsum wt (blockD D b) /\ wi (snd b) false = 1) ->
    (forall b, In b bs -> nontrivial D b = false ->
       forall m, In m (blockD D b) -> wi m true = wt m /\ wi m false = 1 - wt m) ->
    extl U -> (forall b, In b bs -> nontrivial D b = true -> dep (fun y => y <> snd b) U) ->
    ssum N.eqb wi (flat_map (lay D) bs) (fun a => b2q (adsb D bs a) * U a) a0
    = bsum N.eqb wt (map (blockD D) bs) U a0.
Proof.
  intros D wt wi U. induction bs as [|b bs IH]; intros a0 ND WN WT EU DU.
  - simpl. unfold b2q. ring.
  - simpl flat_map in *. simpl map. cbn [bsum].
    assert (ND1 := NoDup_app_l _ _ _ ND). assert (ND2 := NoDup_app_r _ _ _ ND).
    rewrite (ssum_app N.eqb wi).
    set (K := bsum N.eqb wt (map (blockD D) bs) U).
    assert (EK : extl K). { apply (dep_extl (fun _ => True)). apply bsum_dep. intros a a' H. apply EU. auto. }
    rewrite (ssum_ext N.eqb N_eqb_spec wi (lay D b) _ (fun a => b2q (adb D a b) * K a)).
    2:{ intros a. unfold K. rewrite <- IH; auto.
        - rewrite <- ssum_scale. apply ssum_ext_out. apply N_eqb_spec.
          intros a' Ha'. unfold adsb. cbn [forallb]. rewrite b2q_andb.
          assert (E : adb D a' b = adb D a b).
          { unfold adb. destruct (nontrivial D b); auto. f_equal. apply count_ext_in.
            intros y Hy. apply Ha'. intro Hy'. eapply NoDup_app_disj; eauto. }
          rewrite E. fold (adsb D bs a'). ring.
        - intros b' Hb'. apply WN. right; auto.
        - intros b' Hb'. apply WT. right; auto.
        - intros b' Hb'. apply DU. right; auto. }
    destruct (nontrivial D b) eqn:NT.
    + destruct (WN b (or_introl eq_refl) NT) as [W1 [W2 W3]].
      unfold adb. rewrite NT. unfold lay in *. rewrite NT in *.
      apply (ssum_ad_block N.eqb N_eqb_spec wi wt); auto.
      * intros x Hx. apply in_app_or in Hx. destruct Hx as [Hx|[<-|[]]]; auto. apply W1; auto.
      * intros x Hx. apply W1; auto.
      * unfold K. apply bsum_dep. apply DU; auto. left; auto.
    + rewrite (ssum_ext N.eqb N_eqb_spec wi (lay D b) _ K).
      2:{ intros a. unfold adb. rewrite NT. unfold b2q. ring. }
      unfold lay. rewrite NT.
      assert (L : (length (blockD D b) < 2)%nat). { unfold nontrivial in NT. apply Nat.leb_gt in NT. exact NT. }
      destruct (blockD D b) as [|x [|y l]] eqn:EB.
      * apply ssum_nil_block; auto.
      * destruct (WT b (or_introl eq_refl) NT x) as [V1 V2]. { rewrite EB. left; auto. }
        apply (ssum_single N.eqb); auto.
      * simpl in L. lia.
Qed.

(* ------------------------------------------------------------------ keys of atoms *)
Lemma In_atoms_node : forall D id, In id (atoms_of D) -> In (NAtom id) D.
Proof.
  intros D id H. unfold atoms_of in H. apply in_flat_map in H. destruct H as [nd [Hn Hi]].
  destruct nd; simpl in Hi; try contradiction. destruct Hi as [->|[]]. exact Hn.
Qed.

Lemma find_atom_In : forall g id st, In (NAtom id) g -> exists k, find_node g (NAtom id) st = Some k.
Proof.
  induction g as [|x g IH]; intros id st H. contradiction.
  simpl. destruct (node_eqb x (NAtom id)) eqn:E. eauto.
  destruct H as [->|H]. simpl in E. rewrite N.eqb_refl in E. discriminate.
  apply IH; auto.
Qed.

Lemma keyZ_spec : forall D id, In id (atoms_of D) ->
    exists k, keyZ D id = Z.of_nat k /\ (1 <= k)%nat /\ node_at D k = Some (NAtom id).
Proof.
  intros D id H. apply In_atoms_node in H. destruct (find_atom_In D id 1 H) as [k Hk].
  exists k. unfold keyZ. rewrite Hk. apply find_node_at in Hk. tauto.
Qed.

Lemma cnf_lit_of_nat : forall m k, (1 <= k)%nat -> cnf_lit m (Z.of_nat k) = m k.
Proof. intros m k H. destruct k. lia. simpl. now rewrite SuccNat2Pos.id_succ. Qed.

Lemma count_true_keys : forall D a l, topo D -> (forall id, In id l -> In id (atoms_of D)) ->
    count_true (vget (dag_val a D)) (map (keyZ D) l) = count a l.
Proof.
  intros D a l T. unfold count_true, count. induction l as [|x l IH]; intros H. reflexivity.
  simpl. destruct (keyZ_spec D x) as [k [E [K NA]]]. { apply H. left; auto. }
  rewrite E, cnf_lit_of_nat by auto. rewrite (dag_val_atom_c D a k x T NA).
  destruct (a x); simpl; rewrite IH; auto; intros; apply H; right; auto.
Qed.

(* ------------------------------------------------------------------ the constraint clauses *)
Lemma sat_cnf_app : forall m c1 c2, sat_cnf m (c1 ++ c2) = sat_cnf m c1 && sat_cnf m c2.
Proof. intros. unfold sat_cnf. apply forallb_app. Qed.

Lemma constraint_clauses_app : forall l1 l2, constraint_clauses (l1 ++ l2) = constraint_clauses l1 ++ constraint_clauses l2.
Proof. intros. unfold constraint_clauses. apply flat_map_app. Qed.

Lemma cons_sat : forall P D a, topo D -> (forall id, In id (layout P D) -> In id (atoms_of D)) ->
    sat_cnf (vget (dag_val a D)) (constraint_clauses (cons_of P D)) = adsb D (blocks P) a.
Proof.
  intros P D a T. unfold cons_of, layout, adsb. induction (blocks P) as [|b bs IH]; intros H. reflexivity.
  simpl flat_map in *. cbn [forallb]. rewrite constraint_clauses_app, sat_cnf_app.
  rewrite IH by (intros; apply H; apply in_or_app; right; auto). f_equal.
  unfold adb. destruct (nontrivial D b) eqn:NT.
  - unfold constraint_clauses. simpl flat_map. rewrite app_nil_r.
    unfold sat_cnf. rewrite forallb_map_c.
    set (ad := {| ad_nodes := map (keyZ D) (blockD D b); ad_extra := keyZ D (snd b) |}).
    assert (HL : forall id, In id (lay D b) -> In id (atoms_of D)).
    { intros id Hi. apply H. apply in_or_app. left; auto. }
    assert (EL : lay D b = blockD D b ++ [snd b]) by (unfold lay; now rewrite NT).
    assert (NZ : forall y, In y (ad_nodes ad ++ [ad_extra ad]) -> y <> 0%Z).
    { intros y Hy. simpl in Hy.
      assert (In y (map (keyZ D) (lay D b))). { rewrite EL, map_app. exact Hy. }
      apply in_map_iff in H0. destruct H0 as [id [<- Hid]].
      destruct (keyZ_spec D id (HL id Hid)) as [k [E [K _]]]. rewrite E. lia. }
    assert (L2 : (2 <= length (ad_nodes ad))%nat).
    { simpl. rewrite map_length. unfold nontrivial in NT. apply Nat.leb_le in NT. exact NT. }
    apply bool_iff_eq.
    rewrite (ad_spec_sat (vget (dag_val a D)) ad NZ L2).
    rewrite Nat.eqb_eq. simpl ad_nodes. simpl ad_extra.
    replace (map (keyZ D) (blockD D b) ++ [keyZ D (snd b)]) with (map (keyZ D) (lay D b)) by (rewrite EL, map_app; reflexivity).
    rewrite count_true_keys; auto. reflexivity.
  - reflexivity.
Qed.

(* ------------------------------------------------------------------ extensionality of the integrands *)
Lemma key_val_ext : forall v v' k, (forall j, v j = v' j) -> key_val v k = key_val v' k.
Proof. intros v v' [c|] H; simpl; auto. apply lit_val_ext. apply H. Qed.

Lemma holds_ext : forall v v' ks, (forall j, v j = v' j) -> holds v ks = holds v' ks.
Proof. intros. unfold holds. apply forallb_ext_in_c. intros k _. apply key_val_ext; auto. Qed.

Lemma cnf_lit_ext : forall m m' z, (forall j, m j = m' j) -> cnf_lit m z = cnf_lit m' z.
Proof. intros m m' [|p|p] H; simpl; auto. now rewrite H. Qed.

Lemma sat_cnf_ext : forall m m' cs, (forall j, m j = m' j) -> sat_cnf m cs = sat_cnf m' cs.
Proof.
  intros. unfold sat_cnf. apply forallb_ext_in_c. intros c _. unfold sat_clause, sat_lits.
  induction (clause_lits c) as [|z l IH]; simpl; auto. rewrite (cnf_lit_ext m m' z H), IH. reflexivity.
Qed.

(* ------------------------------------------------------------------ count of the acyclic formula = world sum over its own atoms *)
Theorem pipe_wmc_world : forall P D ks,
    topo D -> dag_ok P D ->
    (forall b, In b (wp_groups P) ->
               dep (fun y => y <> snd b) (fun a => b2q (holds (vget (dag_val a D)) ks))) ->
    pipe_wmc P D ks = world_sum P (fun a => b2q (holds (vget (dag_val a D)) ks)).
Proof.
  intros P D ks T OK DEP. destruct OK as [NZ ND NDL PERM LIN].
  set (U := fun a : N -> bool => b2q (holds (vget (dag_val a D)) ks)).
  set (G := fun m : nat -> bool => b2q (sat_cnf m (constraint_clauses (cons_of P D)) && holds m ks)).
  assert (UD : dep (fun y => inD D y = true) U).
  { intros a a' H. unfold U. rewrite (dag_val_ext_a a a' D); auto. intros id Hid. apply H. apply inD_In; auto. }
  assert (UE : extl U) by (apply (dep_extl _ _ UD)).
  unfold pipe_wmc, ModelCircuit.wmc_cnf, ModelCircuit.var_list. rewrite wmc_ssum.
  (* 1. split the CNF *)
  rewrite (ssum_ext Nat.eqb Nat_eqb_spec (wkey P D) (seq 1 (length D)) _
             (fun m => b2q (sat_cnf m (completion_clauses D)) * G m)).
  2:{ intros m. unfold cond_cnf, clark_cnf. rewrite sat_app, conv_sat, units_sat.
      rewrite clark_clauses_eq. unfold force_clauses. simpl app. simpl f_nodes. simpl f_constraints.
      rewrite sat_cnf_app. unfold G. rewrite <- !b2q_andb. now rewrite andb_assoc. }
  (* 2. eliminate the internal nodes *)
  rewrite (wmc_completion D T NZ ND (wkey P D) (wid P D)) with (a0 := a0).
  2:{ intros k id b E. unfold wkey. now rewrite E. }
  2:{ intros k nd b E NA. unfold wkey. rewrite E. destruct nd; auto. exfalso. eapply NA; eauto. }
  2:{ intros m m' H. unfold G. rewrite (sat_cnf_ext m m'), (holds_ext m m'); auto. }
  (* 3. reorder the atoms by block *)
  rewrite (ssum_perm N.eqb N_eqb_spec (wid P D) _ _ PERM ND).
  2:{ intros a a' H. unfold dvD. rewrite (dag_val_ext_a a a' D); auto. }
  (* 4. the constraint clauses are the exactly-one indicators *)
  rewrite (ssum_ext N.eqb N_eqb_spec (wid P D) (layout P D) _ (fun a => b2q (adsb D (blocks P) a) * U a)).
  2:{ intros a. unfold G, dvD. rewrite b2q_andb. rewrite cons_sat; auto. }
  (* 5. blocks *)
  unfold layout. rewrite (blocks_sum D (wp_wt P) (wid P D) U); auto.
  - unfold world_sum. rewrite (bsum_restrict N.eqb N_eqb_spec (wp_wt P) (inD D) (map fst (blocks P)) U a0 UD).
    rewrite map_map. reflexivity.
  - intros b Hb NT. apply wid_nontrivial; auto.
  - intros b Hb NT. apply wid_trivial; auto.
  - intros b Hb NT. apply DEP. unfold blocks in Hb. apply in_app_or in Hb. destruct Hb as [Hb|Hb]; auto.
    exfalso. apply in_map_iff in Hb. destruct Hb as [x [<- _]].
    unfold nontrivial, blockD in NT. simpl in NT. destruct (inD D x); simpl in NT; discriminate.
Qed.

(* ------------------------------------------------------------------ the model function *)
Lemma model_dep : forall F M, stratified F -> (forall a, is_model F a (M a)) ->
    forall a a', (forall id, In id (atoms_of F) -> a id = a' id) -> forall k, M a k = M a' k.
Proof.
  intros F M ST HM a a' H k.
  apply (stratified_model_unique F a' (M a) (M a')); auto.
  apply (is_model_ext_a F a a'); auto.
Qed.

Lemma stratified_model_fun : forall F, stratified F -> exists M, forall a, is_model F a (M a).
Proof.
  intros F [lvl ST]. exists (fun a => titer F a (S (maxl F lvl))).
  intros a. apply stratified_model_exists_lvl. exact ST.
Qed.

Lemma filter_sublist : forall (f : N -> bool) l, In (filter f l) (sublists l).
Proof.
  induction l as [|x l IH]; simpl. left; auto.
  apply in_or_app. destruct (f x). left. apply in_map. auto. right. auto.
Qed.

Lemma asg_of_filter : forall (a : N -> bool) l id, In id l -> asg_of (filter a l) id = a id.
Proof.
  intros a l id H. unfold asg_of. destruct (a id) eqn:E.
  - apply existsb_exists. exists id. split. apply filter_In; auto. apply N.eqb_refl.
  - destruct (existsb (N.eqb id) (filter a l)) eqn:X; auto.
    apply existsb_exists in X. destruct X as [y [Hy Ey]]. apply N.eqb_eq in Ey. subst y.
    apply filter_In in Hy. destruct Hy. congruence.
Qed.

(* the executable model function is the model whenever the enumeration check passes *)
Lemma model_by_enumeration : forall F, model_checkb F = true -> forall a, is_model F a (model_of F a).
Proof.
  intros F H a. unfold model_checkb in H. rewrite forallb_forall in H.
  unfold model_of. apply is_model_ext_a with (a := asg_of (filter a (atoms_of F))).
  - intros id Hid. apply asg_of_filter; auto.
  - apply is_modelb_sound. apply H. apply filter_sublist.
Qed.

Lemma Forall2_holds : forall (v s : nat -> bool) ns ks,
    Forall2 (fun n k => key_val v k = key_val s n) ns ks -> holds v ks = holds s ns.
Proof. induction 1; simpl; auto. unfold holds in *. simpl. now rewrite H, IHForall2. Qed.

(* ------------------------------------------------------------------ composition with cycle breaking *)
Theorem pipeline_counts : forall tc use_memo P q e M D kq kes,
    stratified (wp_graph P) -> (forall a, is_model (wp_graph P) a (M a)) -> extras_fresh P ->
    break_cycles_m tc use_memo (wp_graph P) (ai_of P) [q] e = Some (D, [kq], kes) ->
    dag_ok P D ->
    pipe_wmc P D (kq :: kes) = world_sum P (fun a => b2q (holds (M a) (q :: e))) /\
    pipe_wmc P D kes = world_sum P (fun a => b2q (holds (M a) e)).
Proof.
  intros tc um P q e M D kq kes ST HM XF BC OK.
  assert (C9 : forall a, topo D /\
              Forall2 (fun n k => key_val (vget (dag_val a D)) k = key_val (M a) n) [q] [kq] /\
              Forall2 (fun n k => key_val (vget (dag_val a D)) k = key_val (M a) n) e kes).
  { intros a. apply (break_cycles_correct tc um (wp_graph P) (ai_of P) [q] e D [kq] kes a (M a)); auto. }
  assert (T : topo D) by (destruct (C9 a0); auto).
  assert (E2 : forall a, holds (vget (dag_val a D)) kes = holds (M a) e).
  { intros a. destruct (C9 a) as [_ [_ F2]]. apply Forall2_holds; auto. }
  assert (E1 : forall a, holds (vget (dag_val a D)) (kq :: kes) = holds (M a) (q :: e)).
  { intros a. destruct (C9 a) as [_ [F1 _]]. unfold holds in *. simpl. rewrite E2. f_equal.
    inversion F1; subst. auto. }
  assert (DEPM : forall ns b, In b (wp_groups P) -> dep (fun y => y <> snd b) (fun a => b2q (holds (M a) ns))).
  { intros ns b Hb a a' H. f_equal. apply holds_ext. apply (model_dep (wp_graph P) M ST HM).
    intros id Hid. apply H. intro; subst. eapply XF; eauto. }
  split.
  - rewrite pipe_wmc_world; auto.
    + unfold world_sum. apply bsum_ext. intros a. now rewrite E1.
    + intros b Hb a a' H. rewrite !E1. apply (DEPM (q :: e) b Hb a a' H).
  - rewrite pipe_wmc_world; auto.
    + unfold world_sum. apply bsum_ext. intros a. now rewrite E2.
    + intros b Hb a a' H. rewrite !E2. apply (DEPM e b Hb a a' H).
Qed.

Theorem pipeline_correct_ok : forall tc use_memo P q e M D kq kes,
    stratified (wp_graph P) -> (forall a, is_model (wp_graph P) a (M a)) -> extras_fresh P ->
    break_cycles_m tc use_memo (wp_graph P) (ai_of P) [q] e = Some (D, [kq], kes) ->
    dag_ok P D ->
    pipeline tc use_memo P q e = Some (world_prob P M q e).
Proof.
  intros tc um P q e M D kq kes ST HM XF BC OK.
  destruct (pipeline_counts tc um P q e M D kq kes ST HM XF BC OK) as [E1 E2].
  unfold pipeline, world_prob. rewrite BC, E1, E2. reflexivity.
Qed.

Theorem pipeline_correct_checked : forall tc use_memo P q e M D kq kes,
    stratified (wp_graph P) -> (forall a, is_model (wp_graph P) a (M a)) -> extras_fresh P ->
    break_cycles_m tc use_memo (wp_graph P) (ai_of P) [q] e = Some (D, [kq], kes) ->
    dag_okb P D = true ->
    pipeline tc use_memo P q e = Some (world_prob P M q e).
Proof.
  intros. eapply pipeline_correct_ok; eauto. apply dag_okb_sound; auto.
Qed.

(* Inconsistent exactly when the weighted model count of the evidence is 0 *)
Lemma normalize_inconsistent : forall wqe we, normalize wqe we = PInconsistent <-> we = 0.
Proof.
  intros. unfold normalize. destruct (Qc_eq_bool we 0) eqn:E.
  - apply Qc_eq_bool_correct in E. tauto.
  - split. discriminate. intros ->. unfold Qc_eq_bool in E. simpl in E. discriminate.
Qed.

Lemma pipeline_inconsistent : forall tc use_memo P q e D kq kes,
    break_cycles_m tc use_memo (wp_graph P) (ai_of P) [q] e = Some (D, [kq], kes) ->
    (pipeline tc use_memo P q e = Some PInconsistent <-> pipe_wmc P D kes = 0).
Proof.
  intros tc um P q e D kq kes BC. unfold pipeline. rewrite BC.
  rewrite <- (normalize_inconsistent (pipe_wmc P D (kq :: kes)) (pipe_wmc P D kes)).
  split. intros H. injection H. auto. intros ->. reflexivity.
Qed.

Lemma wf_srcb_sound : forall P, wf_srcb P = true -> wf_src P.
Proof.
  intros P H. unfold wf_srcb in H. rewrite !andb_true_iff in H. destruct H as [[[H1 H2] H3] H4].
  rewrite forallb_forall in H3, H4. constructor.
  - apply nodupb_sound; auto.
  - apply nodupb_sound; auto.
  - intros g Hg Hin. apply H3 in Hg. apply negb_true_iff in Hg. apply existsb_Neqb_In in Hin. congruence.
  - intros id Hid. apply existsb_Neqb_In. apply H4; auto.
Qed.

(* the compiled circuits: any circuit the verified checker accepts may replace a count *)
Lemma circuit_is_count : forall P D ks C,
    ModelCircuit.check_ddnnf (length D) C (cond_cnf P D ks) = true -> pipe_eval P D C = pipe_wmc P D ks.
Proof.
  intros. unfold pipe_eval, pipe_wmc.
  apply (PL.C10.ProofsWMC.checked_eval_is_wmc_cnf ModelOracle.QcOps PL.C10.ProofsInstances.QcOps_laws); auto.
Qed.

(* ------------------------------------------------------------------ conditioning by weights *)
Lemma wcond_ssum : forall n ks w (psi : (nat -> bool) -> Qc) a,
    forallb (lit_key n) ks = true ->
    ssum Nat.eqb (wcond w ks) (seq 1 n) psi a
    = ssum Nat.eqb w (seq 1 n) (fun m => b2q (holds m ks) * psi m) a.
Proof.
  intros n. induction ks as [|k r IH]; intros w psi a H.
  - simpl. apply ssum_ext. apply Nat_eqb_spec. intros m. unfold b2q. ring.
  - simpl in H. apply andb_true_iff in H. destruct H as [Hk Hr].
    change (wcond w (k :: r)) with (wcond (wcond1 w k) r). rewrite IH by auto.
    assert (INV : forall p, (Pos.to_nat p <=? n) = true -> In (Pos.to_nat p) (seq 1 n)).
    { intros p L. apply Nat.leb_le in L. apply in_seq. assert (0 < Pos.to_nat p)%nat by apply Pos2Nat.is_pos. lia. }
    destruct k as [[|p|p]|]; simpl in Hk.
    + simpl wcond1. apply ssum_ext. apply Nat_eqb_spec. intros m. reflexivity.
    + simpl wcond1. change false with (negb true).
      rewrite (ssum_condition Nat.eqb Nat_eqb_spec); auto. 2: apply seq_NoDup.
      apply ssum_ext. apply Nat_eqb_spec. intros m. unfold holds. simpl.
      destruct (m (Pos.to_nat p)); cbn [Bool.eqb andb b2q]; ring.
    + simpl wcond1. change true with (negb false) at 1.
      rewrite (ssum_condition Nat.eqb Nat_eqb_spec); auto. 2: apply seq_NoDup.
      apply ssum_ext. apply Nat_eqb_spec. intros m. unfold holds. simpl.
      destruct (m (Pos.to_nat p)); cbn [Bool.eqb andb negb b2q]; ring.
    + discriminate.
Qed.

Theorem pipe_wmc_w_correct : forall P D ks,
    forallb (lit_key (length D)) ks = true -> pipe_wmc_w P D ks = pipe_wmc P D ks.
Proof.
  intros P D ks H. unfold pipe_wmc_w, pipe_wmc, ModelCircuit.wmc_cnf, ModelCircuit.var_list.
  rewrite !wmc_ssum. rewrite wcond_ssum by auto.
  apply ssum_ext. apply Nat_eqb_spec. intros m. unfold cond_cnf. rewrite sat_app, units_sat.
  rewrite b2q_andb. ring.
Qed.

Lemma circuit_is_count_w : forall P D ks C,
    ModelCircuit.check_ddnnf (length D) C (clark_cnf P D) = true -> pipe_eval_w P D ks C = pipe_wmc_w P D ks.
Proof.
  intros. unfold pipe_eval_w, pipe_wmc_w.
  apply (PL.C10.ProofsWMC.checked_eval_is_wmc_cnf ModelOracle.QcOps PL.C10.ProofsInstances.QcOps_laws); auto.
Qed.

(* the evaluator with one checked circuit computes the pipeline's answer *)
Theorem evaluator_is_pipeline : forall tc use_memo P q e C D kq kes,
    break_cycles_m tc use_memo (wp_graph P) (ai_of P) [q] e = Some (D, [kq], kes) ->
    ModelCircuit.check_ddnnf (length D) C (clark_cnf P D) = true ->
    forallb (lit_key (length D)) (kq :: kes) = true ->
    evaluator tc use_memo P q e C = pipeline tc use_memo P q e.
Proof.
  intros tc um P q e C D kq kes BC CK LK. unfold evaluator, pipeline. rewrite BC.
  assert (LK2 : forallb (lit_key (length D)) kes = true). { simpl in LK. apply andb_true_iff in LK. tauto. }
  rewrite !circuit_is_count_w by auto. rewrite !pipe_wmc_w_correct by auto. reflexivity.
Qed.

(* ------------------------------------------------------------------ trivial ConstraintAD objects *)
(* the real formula also carries the constraints of groups with a single relevant member (extra_node
   None); they emit no clause, so the CNF is the one built from cons_of *)
Lemma trivial_constraints_no_clauses : forall ads,
    constraint_clauses ads = constraint_clauses (filter (fun ad => 2 <=? length (ad_nodes ad))%nat ads).
Proof.
  unfold constraint_clauses. induction ads as [|ad r IH]; auto.
  cbn [filter flat_map]. destruct (2 <=? length (ad_nodes ad))%nat eqn:E.
  - cbn [flat_map]. f_equal. exact IH.
  - rewrite ad_spec_trivial by (apply Nat.leb_gt; exact E). exact IH.
Qed.

Theorem clark_cnf_trivial : forall P D ws cons names,
    filter (fun ad => 2 <=? length (ad_nodes ad))%nat cons = cons_of P D ->
    map conv_clause (c_clauses (clarks_completion
       {| f_nodes := D; f_weights := ws; f_constraints := cons; f_names := names |} false cnf_empty))
    = clark_cnf P D.
Proof.
  intros P D ws cons names H. unfold clark_cnf, formula_of. rewrite !clark_clauses_eq. simpl.
  rewrite (trivial_constraints_no_clauses cons), H.
  rewrite (trivial_constraints_no_clauses (cons_of P D)).
  assert (E : filter (fun ad => 2 <=? length (ad_nodes ad))%nat (cons_of P D) = cons_of P D).
  { rewrite <- H. clear. induction cons as [|ad r IH]; auto.
    cbn [filter]. destruct (2 <=? length (ad_nodes ad))%nat eqn:E; auto.
    cbn [filter]. rewrite E. f_equal. exact IH. }
  now rewrite E.
Qed.

(* ------------------------------------------------------------------ several queries, one acyclic formula *)
Lemma Forall2_forall : forall (A B X : Type) (R : X -> A -> B -> Prop) (x0 : X) l l',
    (forall x, Forall2 (R x) l l') -> Forall2 (fun a b => forall x, R x a b) l l'.
Proof.
  intros A B X R x0 l l' H. assert (H0 := H x0). induction H0 as [|a b l l' _ _ IH].
  - constructor.
  - constructor.
    + intros x. specialize (H x). inversion H; subst; auto.
    + apply IH. intros x. specialize (H x). inversion H; subst; auto.
Qed.

Lemma Forall2_map_eq : forall (A B C : Type) (f : A -> C) (g : B -> C) l l',
    Forall2 (fun a b => g b = f a) l l' -> map g l' = map f l.
Proof. induction 1; simpl; auto. now rewrite H, IHForall2. Qed.

Theorem pipeline_counts_all : forall tc use_memo P qs e M D kqs kes,
    stratified (wp_graph P) -> (forall a, is_model (wp_graph P) a (M a)) -> extras_fresh P ->
    break_cycles_m tc use_memo (wp_graph P) (ai_of P) qs e = Some (D, kqs, kes) ->
    dag_ok P D ->
    Forall2 (fun q kq => pipe_wmc P D (kq :: kes) = world_sum P (fun a => b2q (holds (M a) (q :: e)))) qs kqs /\
    pipe_wmc P D kes = world_sum P (fun a => b2q (holds (M a) e)).
Proof.
  intros tc um P qs e M D kqs kes ST HM XF BC OK.
  assert (C9 : forall a, topo D /\
              Forall2 (fun n k => key_val (vget (dag_val a D)) k = key_val (M a) n) qs kqs /\
              Forall2 (fun n k => key_val (vget (dag_val a D)) k = key_val (M a) n) e kes).
  { intros a. apply (break_cycles_correct tc um (wp_graph P) (ai_of P) qs e D kqs kes a (M a)); auto. }
  assert (T : topo D) by (destruct (C9 a0); auto).
  assert (E2 : forall a, holds (vget (dag_val a D)) kes = holds (M a) e).
  { intros a. destruct (C9 a) as [_ [_ F2]]. apply Forall2_holds; auto. }
  assert (DEPM : forall ns b, In b (wp_groups P) -> dep (fun y => y <> snd b) (fun a => b2q (holds (M a) ns))).
  { intros ns b Hb a a' H. f_equal. apply holds_ext. apply (model_dep (wp_graph P) M ST HM).
    intros id Hid. apply H. intro; subst. eapply XF; eauto. }
  split.
  - assert (FA : Forall2 (fun n k => forall a, key_val (vget (dag_val a D)) k = key_val (M a) n) qs kqs).
    { apply (Forall2_forall _ _ _ (fun a n k => key_val (vget (dag_val a D)) k = key_val (M a) n) a0).
      intros a. destruct (C9 a) as [_ [F1 _]]. exact F1. }
    eapply Forall2_impl; [|exact FA]. intros q kq Hq. simpl in Hq.
    assert (E1 : forall a, holds (vget (dag_val a D)) (kq :: kes) = holds (M a) (q :: e)).
    { intros a. unfold holds in *. simpl. rewrite E2. f_equal. apply Hq. }
    rewrite pipe_wmc_world; auto.
    + unfold world_sum. apply bsum_ext. intros a. now rewrite E1.
    + intros b Hb a a' H. rewrite !E1. apply (DEPM (q :: e) b Hb a a' H).
  - rewrite pipe_wmc_world; auto.
    + unfold world_sum. apply bsum_ext. intros a. now rewrite E2.
    + intros b Hb a a' H. rewrite !E2. apply (DEPM e b Hb a a' H).
Qed.

Theorem pipeline_all_correct_ok : forall tc use_memo P qs e M D kqs kes,
    stratified (wp_graph P) -> (forall a, is_model (wp_graph P) a (M a)) -> extras_fresh P ->
    break_cycles_m tc use_memo (wp_graph P) (ai_of P) qs e = Some (D, kqs, kes) ->
    dag_ok P D ->
    pipeline_all tc use_memo P qs e = Some (map (fun q => world_prob P M q e) qs).
Proof.
  intros tc um P qs e M D kqs kes ST HM XF BC OK.
  destruct (pipeline_counts_all tc um P qs e M D kqs kes ST HM XF BC OK) as [F1 E2].
  unfold pipeline_all. rewrite BC. f_equal. apply Forall2_map_eq.
  eapply Forall2_impl; [|exact F1]. intros q kq H. simpl in H. unfold world_prob. now rewrite H, E2.
Qed.

(* the same with the independence of the extra identifiers given semantically (for source formulas that
   contain the extra atoms as unreferenced nodes, see Cone.v) *)
Theorem pipeline_counts_all_dep : forall tc use_memo P qs e M D kqs kes,
    stratified (wp_graph P) -> (forall a, is_model (wp_graph P) a (M a)) ->
    (forall b, In b (wp_groups P) -> forall a a', (forall y, y <> snd b -> a y = a' y) ->
               forall c, In (Some c) (qs ++ e) -> lit_val (M a) c = lit_val (M a') c) ->
    break_cycles_m tc use_memo (wp_graph P) (ai_of P) qs e = Some (D, kqs, kes) ->
    dag_ok P D ->
    Forall2 (fun q kq => pipe_wmc P D (kq :: kes) = world_sum P (fun a => b2q (holds (M a) (q :: e)))) qs kqs /\
    pipe_wmc P D kes = world_sum P (fun a => b2q (holds (M a) e)).
Proof.
  intros tc um P qs e M D kqs kes ST HM HD BC OK.
  assert (C9 : forall a, topo D /\
              Forall2 (fun n k => key_val (vget (dag_val a D)) k = key_val (M a) n) qs kqs /\
              Forall2 (fun n k => key_val (vget (dag_val a D)) k = key_val (M a) n) e kes).
  { intros a. apply (break_cycles_correct tc um (wp_graph P) (ai_of P) qs e D kqs kes a (M a)); auto. }
  assert (T : topo D) by (destruct (C9 a0); auto).
  assert (E2 : forall a, holds (vget (dag_val a D)) kes = holds (M a) e).
  { intros a. destruct (C9 a) as [_ [_ F2]]. apply Forall2_holds; auto. }
  assert (DEPM : forall ns b, In b (wp_groups P) -> (forall n, In n ns -> In n (qs ++ e)) ->
                              dep (fun y => y <> snd b) (fun a => b2q (holds (M a) ns))).
  { intros ns b Hb SUB a a' H. f_equal. unfold holds. apply forallb_ext_in_c. intros n Hn.
    destruct n as [c|]; simpl; auto. apply (HD b Hb a a' H c). apply SUB; auto. }
  split.
  - assert (FA : Forall2 (fun n k => In n qs /\ forall a, key_val (vget (dag_val a D)) k = key_val (M a) n) qs kqs).
    { assert (FA0 : Forall2 (fun n k => forall a, key_val (vget (dag_val a D)) k = key_val (M a) n) qs kqs).
      { apply (Forall2_forall _ _ _ (fun a n k => key_val (vget (dag_val a D)) k = key_val (M a) n) a0).
        intros a. destruct (C9 a) as [_ [F1 _]]. exact F1. }
      clear - FA0. induction FA0; constructor; auto.
      - split; auto. left; auto.
      - eapply Forall2_impl; [|exact IHFA0]. intros n k [Hn Hk]. split; auto. right; auto. }
    eapply Forall2_impl; [|exact FA]. intros q kq [Hin Hq]. simpl in Hq.
    assert (E1 : forall a, holds (vget (dag_val a D)) (kq :: kes) = holds (M a) (q :: e)).
    { intros a. unfold holds in *. simpl. rewrite E2. f_equal. apply Hq. }
    rewrite pipe_wmc_world; auto.
    + unfold world_sum. apply bsum_ext. intros a. now rewrite E1.
    + intros b Hb a a' H. rewrite !E1. apply (DEPM (q :: e) b Hb); auto.
      intros n [<-|Hn]; apply in_or_app; auto.
  - rewrite pipe_wmc_world; auto.
    + unfold world_sum. apply bsum_ext. intros a. now rewrite E2.
    + intros b Hb a a' H. rewrite !E2. apply (DEPM e b Hb); auto. intros n Hn. apply in_or_app; auto.
Qed.
