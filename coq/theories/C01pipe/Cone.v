(* C01pipe/Cone.v -- locality of the model on a dependency cone, and the end-to-end theorem for
   source formulas that DO contain the AD extra atoms as (unreferenced) atom nodes, as the real
   LogicFormula does.
     S = a set of node keys that contains the query / evidence keys and is closed under children.
     cone_local : the model of a stratified graph on S only reads the atoms that sit at keys of S.
   So the values of the queries and the evidence do not depend on the extra atoms when no node of
   the cone is an extra atom, and _break_cycles (which only follows children) never reads them. *)
From Coq Require Import ZArith NArith List Bool Arith Lia Permutation.
From PL.C09 Require Import BoolGraph Strat ClarkProofs CyclesModel BuilderProofs CyclesProofs.
From PL.C01pipe Require Import Sums PipeModel Bridge PipeProofs AdInv.
Import ListNotations.

Section Restrict.
Variable F : graph.
Variable SK : list nat.

Definition inS (k : nat) : bool := existsb (Nat.eqb k) SK.

Lemma inS_In : forall k, inS k = true <-> In k SK.
Proof.
  intros. unfold inS. rewrite existsb_exists. split.
  - intros [y [H E]]. apply Nat.eqb_eq in E. subst. auto.
  - intros H. exists k. split; auto. apply Nat.eqb_refl.
Qed.

Hypothesis closed : forall k nd c, In k SK -> node_at F k = Some nd -> In c (children nd) ->
                                   c = 0%Z \/ In (key_of c) SK.

(* the graph with every node outside SK replaced by the empty disjunction *)
Definition restrict_from (st : nat) (g : graph) : graph :=
  map (fun kn => if inS (fst kn) then snd kn else NOr []) (combine (seq st (length g)) g).
Definition restrict : graph := restrict_from 1 F.

Lemma restrict_length : length restrict = length F.
Proof. unfold restrict, restrict_from. rewrite map_length, combine_length, seq_length. lia. Qed.

Lemma nth_restrict_from : forall g st i,
    nth_error (restrict_from st g) i =
    match nth_error g i with Some nd => Some (if inS (st + i) then nd else NOr []) | None => None end.
Proof.
  induction g as [|x g IH]; intros st i; simpl.
  - destruct i; reflexivity.
  - destruct i; simpl.
    + now rewrite Nat.add_0_r.
    + unfold restrict_from in IH. rewrite IH. replace (S st + i) with (st + S i) by lia. reflexivity.
Qed.

Lemma node_at_restrict : forall k,
    node_at restrict k = match node_at F k with Some nd => Some (if inS k then nd else NOr []) | None => None end.
Proof.
  intros [|i]; simpl. reflexivity. unfold restrict. rewrite nth_restrict_from. reflexivity.
Qed.

Lemma fiter_restrict : forall a s s' blk, (forall k, In k SK -> s k = s' k) ->
    forall n k, fiter restrict a s' blk n k = if inS k then fiter F a s blk n k else false.
Proof.
  intros a s s' blk Hs. induction n as [|n IH]; intros k; simpl.
  - destruct (inS k); reflexivity.
  - unfold fstep. rewrite node_at_restrict. destruct (node_at F k) as [nd|] eqn:E.
    + destruct (inS k) eqn:Ik.
      * destruct (blk k); auto. apply eval_node_ext. intros c Hc.
        apply inS_In in Ik. destruct (closed k nd c Ik E Hc) as [->|Hin]. reflexivity.
        destruct c as [|p|p]; simpl; auto.
        -- rewrite IH. rewrite key_of_pos in Hin. apply inS_In in Hin. now rewrite Hin.
        -- rewrite key_of_neg in Hin. now rewrite Hs.
      * destruct (blk k); reflexivity.
    + destruct (inS k); reflexivity.
Qed.

Lemma model_restrict : forall a s, is_model F a s -> is_model restrict a (fun k => if inS k then s k else false).
Proof.
  intros a s M k. unfold lfpf. rewrite restrict_length.
  rewrite (fiter_restrict a s (fun k => if inS k then s k else false) noblk).
  - destruct (inS k); auto. apply M.
  - intros j Hj. apply inS_In in Hj. now rewrite Hj.
Qed.

Lemma stratified_restrict : stratified F -> stratified restrict.
Proof.
  intros [lvl ST]. exists lvl. intros k nd c E Hc. rewrite node_at_restrict in E.
  destruct (node_at F k) as [nd0|] eqn:E0; [|discriminate].
  destruct (inS k).
  - inversion E; subst. eapply ST; eauto.
  - inversion E; subst. destruct Hc.
Qed.

Lemma atoms_restrict : forall id, In id (atoms_of restrict) -> exists k, In k SK /\ node_at F k = Some (NAtom id).
Proof.
  intros id H. apply In_atoms_node in H. apply In_node_at in H. destruct H as [k H].
  rewrite node_at_restrict in H. destruct (node_at F k) as [nd|] eqn:E; [|discriminate].
  destruct (inS k) eqn:Ik; inversion H; subst. exists k. split; auto. apply inS_In; auto.
Qed.

(* the model on the cone only reads the atoms of the cone *)
Theorem cone_local : forall a a' s s', stratified F -> is_model F a s -> is_model F a' s' ->
    (forall k id, In k SK -> node_at F k = Some (NAtom id) -> a id = a' id) ->
    forall k, In k SK -> s k = s' k.
Proof.
  intros a a' s s' ST M M' H k Hk.
  assert (M1 := model_restrict a s M). assert (M2 := model_restrict a' s' M').
  assert (M2' : is_model restrict a (fun k => if inS k then s' k else false)).
  { apply (is_model_ext_a restrict a' a); auto. intros id Hid.
    destruct (atoms_restrict id Hid) as [j [Hj Ej]]. symmetry. eapply H; eauto. }
  assert (U := stratified_model_unique restrict a _ _ (stratified_restrict ST) M1 M2' k).
  simpl in U. apply inS_In in Hk. now rewrite Hk in U.
Qed.

End Restrict.

(* ------------------------------------------------------------------ source formulas with extra atoms *)
(* the cone condition: SK contains the roots, is closed under children, and no node of SK is an atom
   other than a fact or a member *)
Record cone_ok (P : wprog) (roots : list key) (SK : list nat) : Prop := {
  cone_roots : forall c, In (Some c) roots -> c = 0%Z \/ In (Z.abs_nat c) SK;
  cone_closed : forall k nd c, In k SK -> node_at (wp_graph P) k = Some nd -> In c (children nd) ->
                               c = 0%Z \/ In (key_of c) SK;
  cone_atoms : forall k id, In k SK -> node_at (wp_graph P) k = Some (NAtom id) -> In id (flat_map fst (blocks P)) }.

Record wf_src_x (P : wprog) : Prop := {
  wfx_ids : NoDup (flat_map fst (blocks P));
  wfx_extras : NoDup (map snd (wp_groups P));
  wfx_fresh : forall g, In g (wp_groups P) -> ~ In (snd g) (flat_map fst (blocks P)) }.

Section InvCone.
Variable P : wprog.
Variable SK : list nat.
Hypothesis WF : wf_src_x P.
Hypothesis CL : forall k nd c, In k SK -> node_at (wp_graph P) k = Some nd -> In c (children nd) -> c = 0%Z \/ In (key_of c) SK.
Hypothesis CA : forall k id, In k SK -> node_at (wp_graph P) k = Some (NAtom id) -> In id (flat_map fst (blocks P)).
Variables tc um : bool.
Let F := wp_graph P.
Let ai := ai_of P.

Lemma bc_inv_cone : forall fuel is_ev t m c anc r, Inv P t -> (c = 0%Z \/ In (Z.abs_nat c) SK) ->
    bc fuel tc um F ai is_ev t m c anc = Some r -> Inv P (r_tgt r).
Proof.
  induction fuel as [|f IH]; intros is_ev t m c anc r I RC H. discriminate.
  rewrite bc_unfold in H. cbv zeta in H.
  destruct ((Z.abs_nat c =? 0) && (tc || negb is_ev)). { inversion H; subst; auto. }
  destruct (mem (Z.abs_nat c) anc). { inversion H; subst; auto. }
  destruct (if um then match memo_get m (Z.abs_nat c) with Some es => memo_find es (anc ++ [Z.abs_nat c]) | None => None end else None)
    as [[[nk cb] cn]|]. { inversion H; subst; auto. }
  destruct (node_at F (Z.abs_nat c)) as [nd|] eqn:NA; [|discriminate].
  assert (INS : In (Z.abs_nat c) SK).
  { destruct RC as [->|RC]; auto. simpl in NA. discriminate. }
  assert (FOLD : forall cs acc t0 m0 ks cb cn t1 m1 ks1 cb1 cn1, Inv P t0 -> acc = Some (t0, m0, ks, cb, cn) ->
             (forall ch, In ch cs -> ch = 0%Z \/ In (Z.abs_nat ch) SK) ->
             fold_left (child_step f tc um F ai is_ev (anc ++ [Z.abs_nat c])) cs acc = Some (t1, m1, ks1, cb1, cn1) -> Inv P t1).
  { induction cs as [|ch cs IHcs]; intros acc t0 m0 ks cb cn t1 m1 ks1 cb1 cn1 I0 EA RCS HF; simpl in HF.
    - subst acc. inversion HF; subst; auto.
    - subst acc. simpl in HF.
      destruct (bc f tc um F ai is_ev t0 m0 ch (anc ++ [Z.abs_nat c])) as [r0|] eqn:B.
      + eapply (IHcs _ (r_tgt r0)); [|reflexivity| |exact HF].
        * apply (IH is_ev t0 m0 ch (anc ++ [Z.abs_nat c]) r0 I0 (RCS ch (or_introl eq_refl)) B).
        * intros ch' Hch'. apply RCS. right; auto.
      + rewrite child_step_none in HF. discriminate. }
  assert (RCH : forall ch, In ch (children nd) -> ch = 0%Z \/ In (Z.abs_nat ch) SK).
  { intros ch Hch. apply (CL (Z.abs_nat c) nd ch INS NA Hch). }
  destruct nd as [id|cs|cs].
  - destruct (t_add_atom ai t id) as [t1 nk] eqn:TA. inversion H; subst. simpl.
    eapply (Inv_add_atom P (wfx_ids P WF) (wfx_extras P WF) (wfx_fresh P WF)); eauto.
  - destruct (fold_left (child_step f tc um F ai is_ev (anc ++ [Z.abs_nat c])) (children (NAnd cs)) (Some (t, m, [], [], [])))
      as [[[[[t1 m1] ks] ccb] ccn]|] eqn:FL; [|discriminate].
    destruct (t_add_compound true t1 ks) as [[t2 nk]|] eqn:TC; [|discriminate].
    inversion H; subst. simpl. eapply Inv_add_compound; [|exact TC]. eapply FOLD; eauto.
  - destruct (fold_left (child_step f tc um F ai is_ev (anc ++ [Z.abs_nat c])) (children (NOr cs)) (Some (t, m, [], [], [])))
      as [[[[[t1 m1] ks] ccb] ccn]|] eqn:FL; [|discriminate].
    destruct (t_add_compound false t1 ks) as [[t2 nk]|] eqn:TC; [|discriminate].
    inversion H; subst. simpl. eapply Inv_add_compound; [|exact TC]. eapply FOLD; eauto.
Qed.

Lemma bc_top_inv_cone : forall is_ev ns acc t m ks t' m' ks', Inv P t -> acc = Some (t, m, ks) ->
    (forall c, In (Some c) ns -> c = 0%Z \/ In (Z.abs_nat c) SK) ->
    fold_left (bc_top tc um F ai is_ev) ns acc = Some (t', m', ks') -> Inv P t'.
Proof.
  induction ns as [|n ns IH]; intros acc t m ks t' m' ks' I EA RT H.
  - subst acc. simpl in H. inversion H; subst; auto.
  - subst acc. cbn [fold_left] in H.
    destruct (bc_top tc um F ai is_ev (Some (t, m, ks)) n) as [[[t1 m1] ks1]|] eqn:BT.
    + eapply (IH _ t1); [|reflexivity| |exact H].
      * unfold bc_top in BT. destruct n as [c|]; [destruct (is_prob (Some c))|].
        -- destruct (bc (S (S (length F))) tc um F ai is_ev t m (if is_ev then Z.abs c else c) []) as [r|] eqn:B; [|discriminate].
           inversion BT; subst. eapply bc_inv_cone; [exact I| |exact B].
           destruct (RT c (or_introl eq_refl)) as [->|RC]. left. destruct is_ev; reflexivity.
           right. destruct is_ev; auto. destruct c; exact RC.
        -- inversion BT; subst; auto.
        -- inversion BT; subst; auto.
      * intros c Hc. apply RT. right; auto.
    + rewrite bc_top_none in H. discriminate.
Qed.

Theorem break_cycles_shape_cone : forall labeled evidence D ks1 ks2,
    (forall c, In (Some c) (labeled ++ evidence) -> c = 0%Z \/ In (Z.abs_nat c) SK) ->
    break_cycles_m tc um F ai labeled evidence = Some (D, ks1, ks2) ->
    exists t, t_nodes t = D /\ Inv P t.
Proof.
  intros labeled evidence D ks1 ks2 RT H. unfold break_cycles_m in H.
  destruct (fold_left (bc_top tc um F ai false) labeled (Some (tgt_empty, [], []))) as [[[t1 m1] k1]|] eqn:F1; [|discriminate].
  destruct (fold_left (bc_top tc um F ai true) evidence (Some (t1, [], []))) as [[[t2 m2] k2]|] eqn:F2; [|discriminate].
  inversion H; subst. exists t2. split; auto.
  eapply bc_top_inv_cone; [|reflexivity| |exact F2].
  - eapply bc_top_inv_cone; [|reflexivity| |exact F1]. apply Inv_empty.
    intros c Hc. apply RT. apply in_or_app. left; auto.
  - intros c Hc. apply RT. apply in_or_app. right; auto.
Qed.

End InvCone.

(* ------------------------------------------------------------------ the end-to-end theorem, real source layout *)
Theorem pipeline_all_correct_cone : forall tc use_memo P qs e M SK D kqs kes,
    wf_src_x P -> cone_ok P (qs ++ e) SK ->
    stratified (wp_graph P) -> (forall a, is_model (wp_graph P) a (M a)) ->
    break_cycles_m tc use_memo (wp_graph P) (ai_of P) qs e = Some (D, kqs, kes) ->
    pipeline_all tc use_memo P qs e = Some (map (fun q => world_prob P M q e) qs).
Proof.
  intros tc um P qs e M SK D kqs kes WF [CR CL CA] ST HM BC.
  assert (OK : dag_ok P D).
  { destruct (break_cycles_shape_cone P SK WF CL CA tc um qs e D kqs kes CR BC) as [t [ED IT]].
    subst D. apply Inv_dag_ok3; auto; apply WF. }
  assert (HD : forall b, In b (wp_groups P) -> forall a a', (forall y, y <> snd b -> a y = a' y) ->
               forall c, In (Some c) (qs ++ e) -> lit_val (M a) c = lit_val (M a') c).
  { intros b Hb a a' H c Hc. destruct (CR c Hc) as [->|Hin]. reflexivity.
    apply lit_val_ext. unfold key_of.
    apply (cone_local (wp_graph P) SK CL a a' (M a) (M a') ST (HM a) (HM a')); auto.
    intros k id Hk Ek. apply H. intro; subst id. apply (wfx_fresh P WF b Hb). eapply CA; eauto. }
  destruct (pipeline_counts_all_dep tc um P qs e M D kqs kes ST HM HD BC OK) as [F1 E2].
  unfold pipeline_all. rewrite BC. f_equal. apply Forall2_map_eq.
  eapply Forall2_impl; [|exact F1]. intros q kq H. simpl in H. unfold world_prob. now rewrite H, E2.
Qed.

(* a checkable form of the cone condition *)
Definition cone_okb (P : wprog) (roots : list key) (SK : list nat) : bool :=
  let F := wp_graph P in
  let mids := flat_map fst (blocks P) in
  let inSK k := existsb (Nat.eqb k) SK in
  forallb (fun r => match r with Some c => Z.eqb c 0 || inSK (Z.abs_nat c) | None => true end) roots &&
  forallb (fun k => match node_at F k with
                    | Some (NAtom id) => existsb (N.eqb id) mids
                    | Some nd => forallb (fun c => Z.eqb c 0 || inSK (key_of c)) (children nd)
                    | None => true
                    end) SK.

Lemma cone_okb_sound : forall P roots SK, cone_okb P roots SK = true -> cone_ok P roots SK.
Proof.
  intros P roots SK H. unfold cone_okb in H. apply andb_true_iff in H. destruct H as [H1 H2].
  rewrite forallb_forall in H1, H2.
  assert (INS : forall k, existsb (Nat.eqb k) SK = true -> In k SK).
  { intros k E. apply existsb_exists in E. destruct E as [y [Hy E]]. apply Nat.eqb_eq in E. subst; auto. }
  constructor.
  - intros c Hc. apply H1 in Hc. apply orb_true_iff in Hc. destruct Hc as [Hc|Hc].
    left. apply Z.eqb_eq; auto. right. apply INS; auto.
  - intros k nd c Hk E Hc. apply H2 in Hk. rewrite E in Hk. destruct nd as [id|cs|cs]; simpl in Hc.
    + destruct Hc.
    + rewrite forallb_forall in Hk. apply Hk in Hc. apply orb_true_iff in Hc. destruct Hc as [Hc|Hc].
      left. apply Z.eqb_eq; auto. right. apply INS; auto.
    + rewrite forallb_forall in Hk. apply Hk in Hc. apply orb_true_iff in Hc. destruct Hc as [Hc|Hc].
      left. apply Z.eqb_eq; auto. right. apply INS; auto.
  - intros k id Hk E. apply H2 in Hk. rewrite E in Hk. apply existsb_Neqb_In; auto.
Qed.
