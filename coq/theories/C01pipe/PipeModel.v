(* C01pipe/PipeModel.v -- the ground part of ProbLog's exact-inference pipeline as ONE
   function, composed from the existing stage models, and the possible-world
   specification it is compared with.  Executable definitions only, no proofs.

   A weighted ground program (the LogicFormula the engine hands to the evaluator):
     wp_graph   and-or graph with signed children (C09.BoolGraph), atoms carry identifiers
     wp_wt      probability of an atom identifier
     wp_facts   identifiers of the independent probabilistic facts
     wp_groups  annotated disjunctions: (identifiers of the member atoms, identifier the
                target builder gives the extra "none" atom)              (ConstraintAD)

   Specification (possible worlds): a total choice picks, independently, true/false for
   every fact (p / 1-p) and one member or none for every group (p_i / 1 - sum p); a fact
   is the one-alternative block [x].  Truth in a world = value in the model of wp_graph
   under the induced atom assignment (BoolGraph.is_model; unique for stratified graphs).

   Pipeline: CyclesModel.break_cycles_m  ->  GenClark.clarks_completion (with the
   ConstraintAD objects of the acyclic formula)  ->  weights (ConstraintAD.update_weights:
   members (p,1), extra (1 - sum, 1), everything else (p, 1-p), internal nodes (1,1))  ->
   ModelCircuit.wmc_cnf over the exact rationals, once with the evidence literals and
   once with evidence + query as unit clauses  ->  ratio / Inconsistent. *)
From Coq Require Import ZArith NArith List Bool Arith QArith Qcanon.
From PL.C09 Require Import BoolGraph ClarkBase GenClark CyclesModel.
From PL.C10 Require ModelCircuit ModelOracle.
From PL.C01pipe Require Import Sums.
Import ListNotations.
Local Open Scope Qc_scope.

Record wprog : Type := {
  wp_graph : graph;
  wp_wt : N -> Qc;
  wp_facts : list N;
  wp_groups : list (list N * N) }.

(* choice blocks: (alternatives, extra identifier); the extra identifier of a fact is never used *)
Definition blocks (P : wprog) : list (list N * N) :=
  wp_groups P ++ map (fun x => ([x], 0%N)) (wp_facts P).

(* ------------------------------------------------------------------ specification *)
Definition a0 : N -> bool := fun _ => false.

(* sum over all total choices of (probability of the choice) * K(atom assignment of the choice) *)
Definition world_sum (P : wprog) (K : (N -> bool) -> Qc) : Qc :=
  bsum N.eqb (wp_wt P) (map fst (blocks P)) K a0.

(* an executable model function: the candidate model of BoolGraph.sem under the assignment
   restricted to the atoms of the graph (it IS the model whenever is_modelb accepts it on every
   sublist of atoms, PipeProofs.model_by_enumeration) *)
Definition model_of (F : graph) (a : N -> bool) : nat -> bool :=
  vget (sem F (asg_of (filter a (atoms_of F)))).
Definition model_checkb (F : graph) : bool :=
  forallb (fun t => is_modelb F (asg_of t) (sem F (asg_of t))) (sublists (atoms_of F)).

Definition holds (s : nat -> bool) (ks : list key) : bool := forallb (key_val s) ks.

Inductive presult : Type := POk (p : Qc) | PInconsistent.

Definition normalize (wqe we : Qc) : presult :=
  if Qc_eq_bool we 0 then PInconsistent else POk (wqe / we).

(* M a = the model of the program in the world with atom assignment a *)
Definition world_prob (P : wprog) (M : (N -> bool) -> nat -> bool) (q : key) (e : list key) : presult :=
  normalize (world_sum P (fun a => b2q (holds (M a) (q :: e))))
            (world_sum P (fun a => b2q (holds (M a) e))).

(* ------------------------------------------------------------------ pipeline *)
(* static atom information for the target builder of break_cycles: group key per member and
   extra identifier per group.  The group key is the extra identifier itself (ProbLog: the
   (group, arguments) identity of the AD; the key is only used to index the builder's tables) *)
Definition ai_of (P : wprog) : atom_info :=
  {| ai_group := flat_map (fun g => map (fun m => (m, (snd g, false))) (fst g)) (wp_groups P);
     ai_extra_id := map (fun g => (snd g, snd g)) (wp_groups P) |}.

Definition inD (D : graph) (id : N) : bool := existsb (N.eqb id) (atoms_of D).
(* the members of a block that occur in the acyclic formula *)
Definition blockD (D : graph) (b : list N * N) : list N := filter (inD D) (fst b).
(* ConstraintAD.is_nontrivial: at least two member nodes *)
Definition nontrivial (D : graph) (b : list N * N) : bool := 2 <=? length (blockD D b).
Definition lay (D : graph) (b : list N * N) : list N :=
  if nontrivial D b then blockD D b ++ [snd b] else blockD D b.
(* the atoms the acyclic formula must consist of *)
Definition layout (P : wprog) (D : graph) : list N := flat_map (lay D) (blocks P).

Definition keyZ (D : graph) (id : N) : Z :=
  match find_node D (NAtom id) 1 with Some k => Z.of_nat k | None => 0%Z end.

(* the non-trivial ConstraintAD objects of the acyclic formula (trivial ones emit no clause) *)
Definition cons_of (P : wprog) (D : graph) : list ad_constraint :=
  flat_map (fun b => if nontrivial D b
                     then [{| ad_nodes := map (keyZ D) (blockD D b); ad_extra := keyZ D (snd b) |}]
                     else []) (blocks P).

(* weights after ConstraintAD.update_weights, per atom identifier: (positive, negative) *)
Definition wentries (wt : N -> Qc) (D : graph) (b : list N * N) : list (N * (Qc * Qc)) :=
  if nontrivial D b
  then map (fun m => (m, (wt m, 1))) (blockD D b) ++ [(snd b, (1 - wtsum wt (blockD D b), 1))]
  else map (fun m => (m, (wt m, 1 - wt m))) (blockD D b).
Definition wtable (P : wprog) (D : graph) : list (N * (Qc * Qc)) := flat_map (wentries (wp_wt P) D) (blocks P).
Definition wid (P : wprog) (D : graph) (id : N) (b : bool) : Qc :=
  match assoc id (wtable P D) with Some pn => if b then fst pn else snd pn | None => 1 end.
(* weights per CNF variable (= node key) *)
Definition wkey (P : wprog) (D : graph) (k : nat) (b : bool) : Qc :=
  match node_at D k with Some (NAtom id) => wid P D id b | _ => 1 end.

(* C09's stored clauses -> C10's CNF (DIMACS literals); a 0 entry is not a literal *)
Definition conv_lit (z : Z) : list ModelCircuit.lit :=
  match z with Z0 => [] | Zpos p => [(Pos.to_nat p, true)] | Zneg p => [(Pos.to_nat p, false)] end.
Definition conv_clause (c : clause) : ModelCircuit.clause := flat_map conv_lit (clause_lits c).

Definition formula_of (P : wprog) (D : graph) : formula :=
  {| f_nodes := D; f_weights := []; f_constraints := cons_of P D; f_names := [] |}.
Definition clark_cnf (P : wprog) (D : graph) : ModelCircuit.cnf :=
  map conv_clause (c_clauses (clarks_completion (formula_of P D) false cnf_empty)).

(* a query / evidence key as unit clause: FALSE = empty clause, TRUE = nothing *)
Definition unit_of (k : key) : ModelCircuit.cnf :=
  match k with
  | None => [[]]
  | Some Z0 => []
  | Some z => [conv_lit z]
  end.
Definition cond_cnf (P : wprog) (D : graph) (ks : list key) : ModelCircuit.cnf :=
  clark_cnf P D ++ flat_map unit_of ks.

Definition pipe_wmc (P : wprog) (D : graph) (ks : list key) : Qc :=
  ModelCircuit.wmc_cnf ModelOracle.QcOps (wkey P D) (length D) (cond_cnf P D ks).

Definition pipeline (tc use_memo : bool) (P : wprog) (q : key) (e : list key) : option presult :=
  match break_cycles_m tc use_memo (wp_graph P) (ai_of P) [q] e with
  | Some (D, [kq], kes) => Some (normalize (pipe_wmc P D (kq :: kes)) (pipe_wmc P D kes))
  | _ => None
  end.

(* all queries at once, as the real pipeline does: ONE acyclic formula for all query and evidence
   names (it contains the atoms relevant to any of them), one answer per query *)
Definition pipeline_all (tc use_memo : bool) (P : wprog) (qs : list key) (e : list key) : option (list presult) :=
  match break_cycles_m tc use_memo (wp_graph P) (ai_of P) qs e with
  | Some (D, kqs, kes) => Some (map (fun kq => normalize (pipe_wmc P D (kq :: kes)) (pipe_wmc P D kes)) kqs)
  | None => None
  end.

(* the same with compiled circuits in place of the two counts (SimpleDDNNFEvaluator) *)
Definition pipe_eval (P : wprog) (D : graph) (C : ModelCircuit.circuit) : Qc :=
  ModelCircuit.c_eval ModelOracle.QcOps (wkey P D) C.

(* SimpleDDNNFEvaluator's way: ONE compiled circuit for the unconditioned CNF; evidence and query are
   imposed by setting the weight of the opposite literal to zero *)
Definition wcond1 (w : nat -> bool -> Qc) (k : key) : nat -> bool -> Qc :=
  match k with
  | Some (Zpos p) => zero_lit Nat.eqb w (Pos.to_nat p) false
  | Some (Zneg p) => zero_lit Nat.eqb w (Pos.to_nat p) true
  | _ => w
  end.
Definition wcond (w : nat -> bool -> Qc) (ks : list key) : nat -> bool -> Qc := fold_left wcond1 ks w.
(* a key that weights can express: TRUE or a literal of a variable 1..n (not FALSE) *)
Definition lit_key (n : nat) (k : key) : bool :=
  match k with Some z => Z.abs_nat z <=? n | None => false end.
Definition pipe_wmc_w (P : wprog) (D : graph) (ks : list key) : Qc :=
  ModelCircuit.wmc_cnf ModelOracle.QcOps (wcond (wkey P D) ks) (length D) (clark_cnf P D).
Definition pipe_eval_w (P : wprog) (D : graph) (ks : list key) (C : ModelCircuit.circuit) : Qc :=
  ModelCircuit.c_eval ModelOracle.QcOps (wcond (wkey P D) ks) C.
Definition evaluator (tc use_memo : bool) (P : wprog) (q : key) (e : list key) (C : ModelCircuit.circuit) : option presult :=
  match break_cycles_m tc use_memo (wp_graph P) (ai_of P) [q] e with
  | Some (D, [kq], kes) => Some (normalize (pipe_eval_w P D (kq :: kes) C) (pipe_eval_w P D kes C))
  | _ => None
  end.

(* ------------------------------------------------------------------ AD bookkeeping of the acyclic formula *)
Fixpoint nodupb (l : list N) : bool :=
  match l with [] => true | x :: r => negb (existsb (N.eqb x) r) && nodupb r end.

(* no TRUE children; atoms pairwise distinct; the atoms are exactly: the relevant members of
   every block plus the extra atom of every block with at least two relevant members *)
Definition dag_okb (P : wprog) (D : graph) : bool :=
  forallb (fun nd => forallb (fun c => negb (Z.eqb c 0)) (children nd)) D &&
  nodupb (atoms_of D) && nodupb (layout P D) &&
  forallb (fun x => existsb (N.eqb x) (layout P D)) (atoms_of D) &&
  forallb (inD D) (layout P D).

(* source side, full version: facts and members pairwise distinct, extra identifiers distinct and
   different from every fact / member, every atom of the cyclic program is a fact or a member *)
Record wf_src (P : wprog) : Prop := {
  wf_ids : NoDup (flat_map fst (blocks P));
  wf_extras : NoDup (map snd (wp_groups P));
  wf_fresh : forall g, In g (wp_groups P) -> ~ In (snd g) (flat_map fst (blocks P));
  wf_atoms : forall id, In id (atoms_of (wp_graph P)) -> In id (flat_map fst (blocks P)) }.

Definition wf_srcb (P : wprog) : bool :=
  let mids := flat_map fst (blocks P) in
  nodupb mids && nodupb (map snd (wp_groups P)) &&
  forallb (fun g => negb (existsb (N.eqb (snd g)) mids)) (wp_groups P) &&
  forallb (fun id => existsb (N.eqb id) mids) (atoms_of (wp_graph P)).

(* source side: the extra identifiers are not atoms of the cyclic program *)
Definition extras_fresh (P : wprog) : Prop :=
  forall b, In b (wp_groups P) -> ~ In (snd b) (atoms_of (wp_graph P)).
