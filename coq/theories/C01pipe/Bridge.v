(* C01pipe/Bridge.v -- interface lemmas between the three developments:
     C10's recursive weighted model count        = Sums.ssum            (wmc_ssum)
     C09's stored clauses / C10's DIMACS clauses : same satisfaction     (conv_sat, units_sat)
     C09's completion clauses                    = one local condition per internal node (completion_forallb)
   and the elimination lemma: in the weighted model count of a Clark completion of a DAG the
   variables of the internal nodes (weights 1,1) are determined by the atom variables, so the
   count collapses to a sum over atom assignments of the integrand at dag_val (wmc_completion). *)
From Coq Require Import ZArith NArith List Bool Arith Lia QArith Qcanon.
From PL.C09 Require Import BoolGraph ClarkBase GenClark ClarkProofs CyclesModel.
From PL.C10 Require ModelCircuit ModelOracle.
From PL.C01pipe Require Import Sums PipeModel.
Import ListNotations.
Local Open Scope Qc_scope.

Lemma Nat_eqb_spec : forall x y : nat, Nat.eqb x y = true <-> x = y.
Proof. intros. apply Nat.eqb_eq. Qed.
Lemma N_eqb_spec : forall x y : N, N.eqb x y = true <-> x = y.
Proof. intros. apply N.eqb_eq. Qed.

(* ------------------------------------------------------------------ C10.wmc is a Shannon sum *)
Lemma wmc_ssum : forall (w : nat -> bool -> Qc) vs phi a,
    ModelCircuit.wmc ModelOracle.QcOps w vs phi a = ssum Nat.eqb w vs (fun m => b2q (phi m)) a.
Proof.
  intros w vs. induction vs as [|v r IH]; intros phi a.
  - simpl. destruct (phi a); reflexivity.
  - simpl. rewrite !IH. reflexivity.
Qed.

(* ------------------------------------------------------------------ clause conversion *)
Lemma forallb_map_c : forall (A B : Type) (f : B -> bool) (g : A -> B) l, forallb f (map g l) = forallb (fun x => f (g x)) l.
Proof. induction l; simpl; auto. now rewrite IHl. Qed.

Lemma forallb_flat_map_c : forall (A B : Type) (f : B -> bool) (g : A -> list B) l,
    forallb f (flat_map g l) = forallb (fun x => forallb f (g x)) l.
Proof. induction l; simpl; auto. rewrite forallb_app. now rewrite IHl. Qed.

Lemma existsb_flat_map_c : forall (A B : Type) (f : B -> bool) (g : A -> list B) l,
    existsb f (flat_map g l) = existsb (fun x => existsb f (g x)) l.
Proof. induction l; simpl; auto. rewrite existsb_app. now rewrite IHl. Qed.

Lemma forallb_ext_in_c : forall (A : Type) (f g : A -> bool) l, (forall x, In x l -> f x = g x) -> forallb f l = forallb g l.
Proof.
  induction l as [|x l IH]; simpl; intros H; auto. rewrite (H x) by auto. rewrite IH; auto.
Qed.

Lemma conv_lit_sat : forall m z, existsb (ModelCircuit.lit_true m) (conv_lit z) = cnf_lit m z.
Proof.
  intros m [|p|p]; simpl; auto; unfold ModelCircuit.lit_true; simpl; destruct (m (Pos.to_nat p)); reflexivity.
Qed.

Lemma conv_clause_sat : forall m c, existsb (ModelCircuit.lit_true m) (conv_clause c) = sat_clause m c.
Proof.
  intros. unfold conv_clause, sat_clause, sat_lits. rewrite existsb_flat_map_c.
  induction (clause_lits c) as [|z l IH]; simpl; auto. now rewrite conv_lit_sat, IH.
Qed.

Lemma conv_sat : forall m cs, ModelCircuit.sat m (map conv_clause cs) = sat_cnf m cs.
Proof.
  intros. unfold ModelCircuit.sat, sat_cnf. rewrite forallb_map_c.
  apply forallb_ext_in_c. intros c _. apply conv_clause_sat.
Qed.

Lemma sat_app : forall m f g, ModelCircuit.sat m (f ++ g) = ModelCircuit.sat m f && ModelCircuit.sat m g.
Proof. intros. unfold ModelCircuit.sat. apply forallb_app. Qed.

Lemma unit_sat : forall m k, ModelCircuit.sat m (unit_of k) = key_val m k.
Proof.
  intros m [[|p|p]|]; simpl; auto; unfold ModelCircuit.lit_true; simpl; destruct (m (Pos.to_nat p)); reflexivity.
Qed.

Lemma units_sat : forall m ks, ModelCircuit.sat m (flat_map unit_of ks) = holds m ks.
Proof.
  intros m ks. induction ks as [|k r IH]; simpl; auto.
  rewrite sat_app, unit_sat, IH. reflexivity.
Qed.

(* ------------------------------------------------------------------ completion = local conditions *)
Definition afalse : N -> bool := fun _ => false.

Definition ncond (m : nat -> bool) (kn : nat * node) : bool :=
  match snd kn with
  | NAtom _ => true
  | nd => Bool.eqb (m (fst kn)) (eval_node afalse (lit_val m) nd)
  end.

Lemma bool_iff_eq : forall b c : bool, (b = true <-> c = true) -> b = c.
Proof. intros [|] [|] H; auto; destruct H as [H1 H2]; try (symmetry; apply H1; reflexivity); apply H2; reflexivity. Qed.

Lemma completion_forallb : forall D m, nozero D ->
    sat_cnf m (completion_clauses D) = forallb (ncond m) (combine (seq 1 (length D)) D).
Proof.
  intros D m NZ. unfold sat_cnf, completion_clauses. rewrite forallb_flat_map_c.
  apply forallb_ext_in_c. intros [k nd] Hin. simpl fst. simpl snd.
  apply In_combine_node_at in Hin. assert (K := node_at_Some _ _ _ Hin). destruct K as [K Hnd].
  destruct nd as [id|cs|cs].
  - reflexivity.
  - apply bool_iff_eq. unfold ncond. simpl fst. simpl snd. rewrite eqb_true_iff.
    apply (node_spec_sat afalse m k (NAnd cs)).
    + intros c Hc. eapply NZ; eauto.
    + lia.
    + intros id E. discriminate.
  - apply bool_iff_eq. unfold ncond. simpl fst. simpl snd. rewrite eqb_true_iff.
    apply (node_spec_sat afalse m k (NOr cs)).
    + intros c Hc. eapply NZ; eauto.
    + lia.
    + intros id E. discriminate.
Qed.

(* ------------------------------------------------------------------ values of DAG prefixes *)
Lemma dag_val_atom_c : forall g a k id, topo g -> node_at g k = Some (NAtom id) -> vget (dag_val a g) k = a id.
Proof. intros g a k id T E. rewrite (dag_val_supported g a T k), E. reflexivity. Qed.

Lemma atoms_of_app : forall g1 g2, atoms_of (g1 ++ g2) = atoms_of g1 ++ atoms_of g2.
Proof. intros. unfold atoms_of. apply flat_map_app. Qed.

Lemma dv_prefix : forall D D1 D2 a a' j, D = D1 ++ D2 ->
    (forall id, In id (atoms_of D1) -> a id = a' id) -> (j <= length D1)%nat ->
    vget (dag_val a D) j = vget (dag_val a' D) j.
Proof.
  intros D D1 D2 a a' j E H L. subst D. rewrite !dag_val_app by auto.
  rewrite (dag_val_ext_a a a' D1); auto.
Qed.

Lemma node_at_mid : forall (D1 : graph) nd D2, node_at (D1 ++ nd :: D2) (S (length D1)) = Some nd.
Proof. intros. simpl. rewrite nth_error_app2 by lia. now rewrite Nat.sub_diag. Qed.

Lemma eval_node_nonatom : forall a a' lv nd, (forall id, nd <> NAtom id) -> eval_node a lv nd = eval_node a' lv nd.
Proof. intros a a' lv nd H. apply eval_node_ext_a. intros id E. exfalso. eapply H; eauto. Qed.

Lemma ncond_nonatom : forall m k nd, (forall id, nd <> NAtom id) ->
    ncond m (k, nd) = Bool.eqb (m k) (eval_node afalse (lit_val m) nd).
Proof. intros m k nd H. unfold ncond. simpl. destruct nd; auto. exfalso. eapply H; eauto. Qed.

Lemma atoms_of_nonatom : forall nd g, (forall id, nd <> NAtom id) -> atoms_of (nd :: g) = atoms_of g.
Proof. intros nd g H. unfold atoms_of. simpl. destruct nd; auto. exfalso. eapply H; eauto. Qed.

Section Elim.
Variable D : graph.
Hypothesis T : topo D.
Hypothesis NZ : nozero D.
Hypothesis ND : NoDup (atoms_of D).
Variable w : nat -> bool -> Qc.
Variable wi : N -> bool -> Qc.
Hypothesis Watom : forall k id b, node_at D k = Some (NAtom id) -> w k b = wi id b.
Hypothesis Wint : forall k nd b, node_at D k = Some nd -> (forall id, nd <> NAtom id) -> w k b = 1.
Variable G : (nat -> bool) -> Qc.
Hypothesis Gext : forall m m', (forall k, m k = m' k) -> G m = G m'.

Definition dvD (a : N -> bool) : nat -> bool := vget (dag_val a D).

Lemma elim_gen : forall D2 D1 k m0 a0, D = D1 ++ D2 -> k = length D1 ->
    (forall j, m0 j = if j <=? k then dvD a0 j else false) ->
    ssum Nat.eqb w (seq (S k) (length D2))
         (fun m => b2q (forallb (ncond m) (combine (seq (S k) (length D2)) D2)) * G m) m0
    = ssum N.eqb wi (atoms_of D2) (fun a => G (dvD a)) a0.
Proof.
  induction D2 as [|nd D2 IH]; intros D1 k m0 a0 ED EK INV.
  - simpl. unfold b2q. rewrite Qcmult_1_l. apply Gext. intros j. rewrite INV.
    destruct (j <=? k) eqn:L; auto. apply Nat.leb_gt in L.
    symmetry. apply vget_out. rewrite dag_val_length. rewrite ED, app_nil_r. lia.
  - assert (ED' : D = (D1 ++ [nd]) ++ D2) by (rewrite <- app_assoc; exact ED).
    assert (EK' : S k = length (D1 ++ [nd])) by (rewrite app_length; simpl; lia).
    assert (NA : node_at D (S k) = Some nd) by (rewrite ED, EK; apply node_at_mid).
    assert (NIr : forall j, (j <= S k)%nat -> ~ In j (seq (S (S k)) (length D2))).
    { intros j Lj Hj. apply in_seq in Hj. lia. }
    change (length (nd :: D2)) with (S (length D2)).
    cbn [seq combine forallb ssum].
    destruct nd as [id|cs|cs].
    + (* atom: a genuine choice *)
      change (atoms_of (NAtom id :: D2)) with (id :: atoms_of D2). cbn [ssum].
      rewrite !(Watom (S k) id _ NA).
      assert (NI : ~ In id (atoms_of D1)).
      { rewrite ED in ND. rewrite atoms_of_app in ND.
        change (atoms_of (NAtom id :: D2)) with (id :: atoms_of D2) in ND.
        apply NoDup_remove_2 in ND. intro Hi. apply ND. apply in_or_app. left; auto. }
      assert (STEP : forall b,
        ssum Nat.eqb w (seq (S (S k)) (length D2))
             (fun m => b2q (ncond m (S k, NAtom id) && forallb (ncond m) (combine (seq (S (S k)) (length D2)) D2)) * G m)
             (upd Nat.eqb m0 (S k) b)
        = ssum N.eqb wi (atoms_of D2) (fun a => G (dvD a)) (upd N.eqb a0 id b)).
      { intros b. apply (IH (D1 ++ [NAtom id]) (S k)); auto.
        intros j. unfold upd at 1. destruct (Nat.eqb j (S k)) eqn:Ej.
        - apply Nat.eqb_eq in Ej. subst j. rewrite Nat.leb_refl.
          unfold dvD. rewrite (dag_val_atom_c D _ (S k) id T NA). unfold upd. now rewrite N.eqb_refl.
        - apply Nat.eqb_neq in Ej. rewrite INV.
          destruct (j <=? k) eqn:L1.
          + apply Nat.leb_le in L1. assert (L2 : (j <=? S k) = true) by (apply Nat.leb_le; lia). rewrite L2.
            unfold dvD. apply (dv_prefix D D1 (NAtom id :: D2)); auto; try lia.
            intros i Hi. unfold upd. destruct (N.eqb i id) eqn:Ei; auto.
            apply N.eqb_eq in Ei. subst i. contradiction.
          + apply Nat.leb_gt in L1. assert (L2 : (j <=? S k) = false) by (apply Nat.leb_gt; lia). now rewrite L2. }
      rewrite !STEP. reflexivity.
    + (* conjunction: determined *)
      rewrite atoms_of_nonatom by (intros; discriminate).
      rewrite !(Wint (S k) (NAnd cs) _ NA) by (intros; discriminate).
      set (v := eval_node afalse (lit_val m0) (NAnd cs)).
      assert (STEP : forall b,
        ssum Nat.eqb w (seq (S (S k)) (length D2))
             (fun m => b2q (ncond m (S k, NAnd cs) && forallb (ncond m) (combine (seq (S (S k)) (length D2)) D2)) * G m)
             (upd Nat.eqb m0 (S k) b)
        = b2q (Bool.eqb b v) *
          ssum Nat.eqb w (seq (S (S k)) (length D2))
               (fun m => b2q (forallb (ncond m) (combine (seq (S (S k)) (length D2)) D2)) * G m)
               (upd Nat.eqb m0 (S k) b)).
      { intros b. rewrite <- ssum_scale. apply ssum_ext_out. apply Nat_eqb_spec.
        intros m Hm. rewrite b2q_andb.
        assert (E1 : ncond m (S k, NAnd cs) = Bool.eqb b v).
        { rewrite ncond_nonatom by (intros; discriminate).
          rewrite (Hm (S k)) by (apply NIr; lia). rewrite (upd_same Nat.eqb Nat_eqb_spec).
          f_equal. unfold v. apply eval_node_ext. intros c Hc. apply lit_val_ext.
          assert (Lc : (key_of c < S k)%nat) by (eapply T; eauto).
          rewrite (Hm (key_of c)) by (apply NIr; lia).
          apply (upd_other Nat.eqb Nat_eqb_spec). lia. }
        rewrite E1. ring. }
      rewrite !STEP.
      transitivity (ssum Nat.eqb w (seq (S (S k)) (length D2))
               (fun m => b2q (forallb (ncond m) (combine (seq (S (S k)) (length D2)) D2)) * G m)
               (upd Nat.eqb m0 (S k) v)).
      { destruct v; cbn [Bool.eqb b2q]; ring. }
      apply (IH (D1 ++ [NAnd cs]) (S k)); auto.
      intros j. unfold upd at 1. destruct (Nat.eqb j (S k)) eqn:Ej.
      * apply Nat.eqb_eq in Ej. subst j. rewrite Nat.leb_refl.
        unfold dvD. rewrite (dag_val_supported D a0 T (S k)), NA.
        unfold v. rewrite (eval_node_nonatom afalse a0) by (intros; discriminate).
        apply eval_node_ext. intros c Hc. apply lit_val_ext.
        assert (Lc : (key_of c < S k)%nat) by (eapply T; eauto).
        rewrite INV. assert (L2 : (key_of c <=? k) = true) by (apply Nat.leb_le; lia). now rewrite L2.
      * apply Nat.eqb_neq in Ej. rewrite INV.
        destruct (j <=? k) eqn:L1.
        -- apply Nat.leb_le in L1. assert (L2 : (j <=? S k) = true) by (apply Nat.leb_le; lia). now rewrite L2.
        -- apply Nat.leb_gt in L1. assert (L2 : (j <=? S k) = false) by (apply Nat.leb_gt; lia). now rewrite L2.
    + (* disjunction: determined *)
      rewrite atoms_of_nonatom by (intros; discriminate).
      rewrite !(Wint (S k) (NOr cs) _ NA) by (intros; discriminate).
      set (v := eval_node afalse (lit_val m0) (NOr cs)).
      assert (STEP : forall b,
        ssum Nat.eqb w (seq (S (S k)) (length D2))
             (fun m => b2q (ncond m (S k, NOr cs) && forallb (ncond m) (combine (seq (S (S k)) (length D2)) D2)) * G m)
             (upd Nat.eqb m0 (S k) b)
        = b2q (Bool.eqb b v) *
          ssum Nat.eqb w (seq (S (S k)) (length D2))
               (fun m => b2q (forallb (ncond m) (combine (seq (S (S k)) (length D2)) D2)) * G m)
               (upd Nat.eqb m0 (S k) b)).
      { intros b. rewrite <- ssum_scale. apply ssum_ext_out. apply Nat_eqb_spec.
        intros m Hm. rewrite b2q_andb.
        assert (E1 : ncond m (S k, NOr cs) = Bool.eqb b v).
        { rewrite ncond_nonatom by (intros; discriminate).
          rewrite (Hm (S k)) by (apply NIr; lia). rewrite (upd_same Nat.eqb Nat_eqb_spec).
          f_equal. unfold v. apply eval_node_ext. intros c Hc. apply lit_val_ext.
          assert (Lc : (key_of c < S k)%nat) by (eapply T; eauto).
          rewrite (Hm (key_of c)) by (apply NIr; lia).
          apply (upd_other Nat.eqb Nat_eqb_spec). lia. }
        rewrite E1. ring. }
      rewrite !STEP.
      transitivity (ssum Nat.eqb w (seq (S (S k)) (length D2))
               (fun m => b2q (forallb (ncond m) (combine (seq (S (S k)) (length D2)) D2)) * G m)
               (upd Nat.eqb m0 (S k) v)).
      { destruct v; cbn [Bool.eqb b2q]; ring. }
      apply (IH (D1 ++ [NOr cs]) (S k)); auto.
      intros j. unfold upd at 1. destruct (Nat.eqb j (S k)) eqn:Ej.
      * apply Nat.eqb_eq in Ej. subst j. rewrite Nat.leb_refl.
        unfold dvD. rewrite (dag_val_supported D a0 T (S k)), NA.
        unfold v. rewrite (eval_node_nonatom afalse a0) by (intros; discriminate).
        apply eval_node_ext. intros c Hc. apply lit_val_ext.
        assert (Lc : (key_of c < S k)%nat) by (eapply T; eauto).
        rewrite INV. assert (L2 : (key_of c <=? k) = true) by (apply Nat.leb_le; lia). now rewrite L2.
      * apply Nat.eqb_neq in Ej. rewrite INV.
        destruct (j <=? k) eqn:L1.
        -- apply Nat.leb_le in L1. assert (L2 : (j <=? S k) = true) by (apply Nat.leb_le; lia). now rewrite L2.
        -- apply Nat.leb_gt in L1. assert (L2 : (j <=? S k) = false) by (apply Nat.leb_gt; lia). now rewrite L2.
Qed.

(* the weighted model count of (completion /\ anything) over all node variables is the sum over
   the atom identifiers of the DAG, in node order, of the integrand at the DAG valuation *)
Theorem wmc_completion : forall a0,
    ssum Nat.eqb w (seq 1 (length D))
         (fun m => b2q (sat_cnf m (completion_clauses D)) * G m) ModelCircuit.asg0
    = ssum N.eqb wi (atoms_of D) (fun a => G (dvD a)) a0.
Proof.
  intros a0.
  rewrite (ssum_ext Nat.eqb Nat_eqb_spec w (seq 1 (length D)) _
             (fun m => b2q (forallb (ncond m) (combine (seq 1 (length D)) D)) * G m)).
  2:{ intros m. now rewrite completion_forallb. }
  apply (elim_gen D [] 0); auto.
  intros j. destruct j; simpl; auto.
Qed.

End Elim.
