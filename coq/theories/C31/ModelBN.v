(* Hand model of problog/tasks/bayesnet.py : clause_to_cpt / formula_to_bn and of
   problog/pgm/cpd.py : Factor tables and OrCPT.

   A ground clause   p1::h1; ...; pk::hk :- body   (number i in formula.enum_clauses()) becomes
     - a latent choice variable c_i with values 0..k, parents = atoms of the body, and the table
         body true  -> [1 - sum p, p1, ..., pk]        body false -> [1, 0, ..., 0]
     - for every head atom an OrCPT that is true iff some (c_i, j) of its parentvalues holds.
   A head without probability counts as 1.0 (deterministic rule); facts and body-less ADs are
   clauses with body `true`.
   No proofs in this file. *)
From Coq Require Import QArith NArith List Bool.
Import ListNotations.
Open Scope Q_scope.

Inductive bform := BTrue | BAtom (a : N) | BNot (f : bform) | BAnd (f g : bform) | BOr (f g : bform).

Definition env := list (N * bool).
Fixpoint lookupb (a : N) (r : env) : bool :=
  match r with [] => false | (k, v) :: t => if N.eqb a k then v else lookupb a t end.

(* term_to_bool *)
Fixpoint beval (f : bform) (r : env) : bool :=
  match f with
  | BTrue => true
  | BAtom a => lookupb a r
  | BNot g => negb (beval g r)
  | BAnd g h => beval g r && beval h r
  | BOr g h => beval g r || beval h r
  end.

(* term_to_atoms: the parents, in the order of the table columns *)
Fixpoint batoms (f : bform) : list N :=
  match f with
  | BTrue => []
  | BAtom a => [a]
  | BNot g => batoms g
  | BAnd g h => batoms g ++ batoms h
  | BOr g h => batoms g ++ batoms h
  end.

Record clause := mkClause { c_heads : list (N * Q); c_body : bform }.

Fixpoint Qsum (l : list Q) : Q := match l with [] => 0 | x :: t => x + Qsum t end.
Fixpoint zeros (n : nat) : list Q := match n with O => [] | S n' => 0 :: zeros n' end.

(* probs = [1.0 - sum(probs_heads)] + probs_heads *)
Definition prior (c : clause) : list Q := (1 - Qsum (map snd (c_heads c))) :: map snd (c_heads c).
(* [1.0] + [0.0] * len(heads) *)
Definition det_row (c : clause) : list Q := 1 :: zeros (length (c_heads c)).
(* one row of the choice node's table *)
Definition choice_row (c : clause) (r : env) : list Q :=
  if beval (c_body c) r then prior c else det_row c.

(* itertools.product([False, True], repeat=n) *)
Fixpoint keys (n : nat) : list (list bool) :=
  match n with
  | O => [[]]
  | S n' => map (cons false) (keys n') ++ map (cons true) (keys n')
  end.

(* table_cn of clause_to_cpt: key -> row, truth_values = dict(zip(parents, key)) *)
Definition cpt_table (c : clause) : list (list bool * list Q) :=
  let ps := batoms (c_body c) in
  map (fun k => (k, choice_row c (combine ps k))) (keys (length ps)).

(* parentvalues of the OrCPT of atom a in the network of the clause list cs (numbered from i) *)
Fixpoint head_positions (a : N) (hs : list (N * Q)) (j : nat) : list nat :=
  match hs with
  | [] => []
  | (h, _) :: t => (if N.eqb a h then [j] else []) ++ head_positions a t (S j)
  end.
Fixpoint or_parentvalues (a : N) (cs : list clause) (i : nat) : list (nat * nat) :=
  match cs with
  | [] => []
  | c :: t => map (fun j => (i, j)) (head_positions a (c_heads c) 1) ++ or_parentvalues a t (S i)
  end.
(* OrCPT.to_factor: true iff some (parent, value) of parentvalues is in the assignment *)
Definition or_value (pv : list (nat * nat)) (choices : list nat) : bool :=
  existsb (fun p => Nat.eqb (nth (fst p) choices O) (snd p)) pv.

(* ---------------------------------------------------------------- weighted finite distributions *)
Fixpoint wsum (d : list (env * Q)) (F : env -> Q) : Q :=
  match d with [] => 0 | (r, w) :: t => w * F r + wsum t F end.
Definition mass (d : list (env * Q)) (ev : env -> bool) : Q := wsum d (fun r => if ev r then 1 else 0).

(* head j (1-based) of the clause becomes true when the choice value is j: a := a \/ (c = j) *)
Fixpoint set_heads (hs : list (N * Q)) (j : nat) (c : nat) (r : env) : env :=
  match hs with
  | [] => r
  | (a, _) :: t => set_heads t (S j) c ((a, lookupb a r || Nat.eqb c j) :: r)
  end.

Fixpoint enum_from (s : nat) (l : list Q) (f : nat -> env) : list (env * Q) :=
  match l with [] => [] | w :: t => (f s, w) :: enum_from (S s) t f end.

(* Bayesian network, one clause: draw the choice node from its CPT row given the parents, then the
   OrCPTs of the heads *)
Definition stepBN (c : clause) (r : env) : list (env * Q) :=
  enum_from 0 (choice_row c r) (fun ci => set_heads (c_heads c) 1 ci r).

(* ProbLog's world semantics of the AD: the choice is drawn from [1 - sum p, p1..pk] independently of
   everything; head j is true iff the choice is j AND the body is true *)
Definition stepW (c : clause) (r : env) : list (env * Q) :=
  enum_from 0 (prior c) (fun ci => set_heads (c_heads c) 1 (if beval (c_body c) r then ci else O) r).

Fixpoint run (step : clause -> env -> list (env * Q)) (cs : list clause) (r : env) : list (env * Q) :=
  match cs with
  | [] => [(r, 1)]
  | c :: t => flat_map (fun rw => map (fun rw' => (fst rw', snd rw * snd rw')) (run step t (fst rw))) (step c r)
  end.

(* ---------------------------------------------------------------- joint = product of factors,
   marginal = summation over ALL assignments (executable for small networks; used for examples) *)
Fixpoint all_choices (cs : list clause) : list (list nat) :=
  match cs with
  | [] => [[]]
  | c :: t => flat_map (fun ci => map (cons ci) (all_choices t)) (seq 0 (S (length (c_heads c))))
  end.
Fixpoint all_envs (atoms : list N) : list env :=
  match atoms with
  | [] => [[]]
  | a :: t => flat_map (fun b => map (cons (a, b)) (all_envs t)) [false; true]
  end.
Fixpoint choice_factors (cs : list clause) (choices : list nat) (r : env) : Q :=
  match cs, choices with
  | c :: t, ci :: ct => nth ci (choice_row c r) 0 * choice_factors t ct r
  | _, _ => 1
  end.
Fixpoint or_factors (atoms : list N) (cs : list clause) (choices : list nat) (r : env) : Q :=
  match atoms with
  | [] => 1
  | a :: t => (if Bool.eqb (lookupb a r) (or_value (or_parentvalues a cs 0) choices) then 1 else 0)
              * or_factors t cs choices r
  end.
Definition joint (atoms : list N) (cs : list clause) (choices : list nat) (r : env) : Q :=
  choice_factors cs choices r * or_factors atoms cs choices r.
Definition bn_marginal (atoms : list N) (cs : list clause) (ev : env -> bool) : Q :=
  Qsum (flat_map (fun ch => map (fun r => if ev r then joint atoms cs ch r else 0) (all_envs atoms)) (all_choices cs)).

(* ---------------------------------------------------------------- harness comparison helpers *)
Definition Qabs' (x : Q) : Q := if Qle_bool 0 x then x else - x.
Definition close (a b : Q) : bool := Qle_bool (Qabs' (a - b)) (1 # 1000000000).
Fixpoint row_close (a b : list Q) : bool :=
  match a, b with
  | [], [] => true
  | x :: a', y :: b' => close x y && row_close a' b'
  | _, _ => false
  end.
Fixpoint key_eqb (a b : list bool) : bool :=
  match a, b with
  | [], [] => true
  | x :: a', y :: b' => Bool.eqb x y && key_eqb a' b'
  | _, _ => false
  end.
Fixpoint table_close (m obs : list (list bool * list Q)) : bool :=
  match m, obs with
  | [], [] => true
  | (k, row) :: m', (k', row') :: obs' => key_eqb k k' && row_close row row' && table_close m' obs'
  | _, _ => false
  end.
Fixpoint N_list_eqb (a b : list N) : bool :=
  match a, b with
  | [], [] => true
  | x :: a', y :: b' => N.eqb x y && N_list_eqb a' b'
  | _, _ => false
  end.
Fixpoint pv_eqb (a b : list (nat * nat)) : bool :=
  match a, b with
  | [], [] => true
  | (x, y) :: a', (x', y') :: b' => Nat.eqb x x' && Nat.eqb y y' && pv_eqb a' b'
  | _, _ => false
  end.
(* clause i of the program: parents (column order) and table as observed *)
Definition check_cpt (c : clause) (obs_parents : list N) (obs : list (list bool * list Q)) : bool :=
  N_list_eqb (batoms (c_body c)) obs_parents && table_close (cpt_table c) obs.
Definition check_or (a : N) (cs : list clause) (obs : list (nat * nat)) : bool :=
  pv_eqb (or_parentvalues a cs 0) obs.
