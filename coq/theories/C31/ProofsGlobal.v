(* The global sum-product step for the exported network (ModelBN.v):
   summation over ALL assignments of the product of ALL factors  =  ancestral pass in a topological order
   (= clause-by-clause world semantics, by ProofsBN.run_eq). *)
From Coq Require Import QArith NArith List Bool Lia Lqa Setoid Morphisms.
From PL.C31 Require Import ModelBN ModelBNwf ProofsBN.
Import ListNotations.
Open Scope Q_scope.

(* ------------------------------------------------------------------ Qsum plumbing *)
Lemma Qsum_app : forall l1 l2, Qsum (l1 ++ l2) == Qsum l1 + Qsum l2.
Proof. induction l1 as [|x t IH]; intros; simpl. lra. rewrite IH. lra. Qed.

Lemma Qsum_flat_map : forall (A : Type) (f : A -> list Q) l,
  Qsum (flat_map f l) == Qsum (map (fun x => Qsum (f x)) l).
Proof. induction l as [|x t IH]; simpl. lra. rewrite Qsum_app, IH. lra. Qed.

Lemma Qsum_map_flat_map : forall (A B : Type) (h : B -> Q) (g : A -> list B) l,
  Qsum (map h (flat_map g l)) == Qsum (map (fun x => Qsum (map h (g x))) l).
Proof. induction l as [|x t IH]; simpl. lra. rewrite map_app, Qsum_app, IH. lra. Qed.

Lemma Qsum_map_ext_in : forall (A : Type) (f g : A -> Q) l,
  (forall x, In x l -> f x == g x) -> Qsum (map f l) == Qsum (map g l).
Proof.
  induction l as [|x t IH]; intros H; simpl. lra.
  rewrite (H x) by (left; reflexivity).
  rewrite IH by (intros y Hy; apply H; right; exact Hy). lra.
Qed.

Lemma Qsum_map_ext : forall (A : Type) (f g : A -> Q) l,
  (forall x, f x == g x) -> Qsum (map f l) == Qsum (map g l).
Proof. intros. apply Qsum_map_ext_in. intros; auto. Qed.

Lemma Qsum_map_scale : forall (A : Type) (k : Q) (f : A -> Q) l,
  Qsum (map (fun x => k * f x) l) == k * Qsum (map f l).
Proof. induction l as [|x t IH]; simpl. ring. rewrite IH. ring. Qed.

(* ------------------------------------------------------------------ boolean reflection *)
Lemma memb_In : forall a l, memb a l = true <-> In a l.
Proof.
  intros a l. unfold memb. rewrite existsb_exists. split.
  - intros [x [H1 H2]]. apply N.eqb_eq in H2. subst. exact H1.
  - intros H. exists a. split. exact H. apply N.eqb_refl.
Qed.

Lemma memb_false : forall a l, memb a l = false -> ~ In a l.
Proof. intros a l H HI. apply memb_In in HI. congruence. Qed.

Lemma nodupb_NoDup : forall l, nodupb l = true -> NoDup l.
Proof.
  induction l as [|a t IH]; intros H. constructor.
  cbn [nodupb] in H. apply andb_true_iff in H. destruct H as [H1 H2].
  constructor. apply memb_false. apply negb_true_iff. exact H1. apply IH. exact H2.
Qed.

Lemma all_heads_cons : forall c t, all_heads (c :: t) = heads_of c ++ all_heads t.
Proof. reflexivity. Qed.

Lemma topo_cons : forall c t, topo_okb (c :: t) = true ->
  (forall a, In a (batoms (c_body c)) -> ~ In a (heads_of c) /\ ~ In a (all_heads t)) /\ topo_okb t = true.
Proof.
  intros c t H. cbn [topo_okb] in H. apply andb_true_iff in H. destruct H as [H1 H2].
  split; [|exact H2]. intros a Ha. rewrite forallb_forall in H1. specialize (H1 a Ha).
  apply negb_true_iff in H1. apply memb_false in H1. rewrite all_heads_cons in H1.
  split; intro HI; apply H1; apply in_or_app; auto.
Qed.

Lemma heads_in : forall atoms cs, heads_inb atoms cs = true -> forall a, In a (all_heads cs) -> In a atoms.
Proof.
  intros atoms cs H a Ha. unfold heads_inb in H. rewrite forallb_forall in H.
  apply memb_In. apply H. exact Ha.
Qed.

(* ------------------------------------------------------------------ 1. the inner sum over environments collapses *)
Fixpoint ind (atoms : list N) (v : N -> bool) (r : env) : Q :=
  match atoms with
  | [] => 1
  | a :: t => (if Bool.eqb (lookupb a r) (v a) then 1 else 0) * ind t v r
  end.

(* the value the OrCPTs force on atom a under the choices ch *)
Definition vch (cs : list clause) (ch : list nat) : N -> bool :=
  fun a => or_value (or_parentvalues a cs 0) ch.

(* the unique assignment of `atoms` compatible with all OrCPT factors *)
Definition rstar (atoms : list N) (v : N -> bool) : env := map (fun a => (a, v a)) atoms.

Lemma or_factors_ind : forall atoms cs ch r, or_factors atoms cs ch r = ind atoms (vch cs ch) r.
Proof. induction atoms as [|a t IH]; intros; cbn [or_factors ind]. reflexivity. rewrite IH. reflexivity. Qed.

Lemma lookupb_cons_neq : forall a k b r, a <> k -> lookupb a ((k, b) :: r) = lookupb a r.
Proof. intros a k b r H. cbn [lookupb]. destruct (N.eqb_spec a k). contradiction. reflexivity. Qed.

Lemma lookupb_cons_eq : forall a b r, lookupb a ((a, b) :: r) = b.
Proof. intros. cbn [lookupb]. rewrite N.eqb_refl. reflexivity. Qed.

Lemma ind_cons_notin : forall t v a0 b r, ~ In a0 t -> ind t v ((a0, b) :: r) = ind t v r.
Proof.
  induction t as [|a t IH]; intros v a0 b r H. reflexivity.
  cbn [ind]. rewrite lookupb_cons_neq, IH. reflexivity.
  - intro HI. apply H. right. exact HI.
  - intro E. apply H. left. exact E.
Qed.

Lemma collapse : forall atoms v (X : env -> Q), NoDup atoms ->
  Qsum (map (fun r => ind atoms v r * X r) (all_envs atoms)) == X (rstar atoms v).
Proof.
  induction atoms as [|a t IH]; intros v X ND.
  - cbn [all_envs map Qsum ind rstar]. ring.
  - inversion ND as [|a' t' NI ND']; subst.
    assert (forall b, Qsum (map (fun x => ind (a :: t) v ((a, b) :: x) * X ((a, b) :: x)) (all_envs t))
                      == (if Bool.eqb b (v a) then 1 else 0) * X ((a, b) :: rstar t v)) as H.
    { intro b. pose proof (IH v (fun r => X ((a, b) :: r)) ND') as E. cbv beta in E.
      rewrite <- E. rewrite <- Qsum_map_scale. apply Qsum_map_ext. intro r.
      cbn [ind]. rewrite lookupb_cons_eq, ind_cons_notin by exact NI. ring. }
    cbn [all_envs flat_map]. rewrite app_nil_r, map_app, !map_map, Qsum_app.
    rewrite (H false), (H true). unfold rstar. cbn [map].
    destruct (v a); cbn [Bool.eqb]; ring.
Qed.

Lemma bn_marginal_collapse : forall atoms cs ev, NoDup atoms ->
  bn_marginal atoms cs ev ==
  Qsum (map (fun ch => if ev (rstar atoms (vch cs ch)) then choice_factors cs ch (rstar atoms (vch cs ch)) else 0)
            (all_choices cs)).
Proof.
  intros atoms cs ev ND. unfold bn_marginal. rewrite Qsum_flat_map. apply Qsum_map_ext. intro ch.
  etransitivity; [|apply (collapse atoms (vch cs ch) (fun r => if ev r then choice_factors cs ch r else 0) ND)].
  apply Qsum_map_ext. intro r. unfold joint. rewrite or_factors_ind. destruct (ev r); ring.
Qed.

(* ------------------------------------------------------------------ 2. the ancestral pass as a sum over choice vectors *)
(* final assignment given the choices *)
Fixpoint exec (cs : list clause) (ch : list nat) (r : env) : env :=
  match cs, ch with
  | c :: t, ci :: ct => exec t ct (set_heads (c_heads c) 1 ci r)
  | _, _ => r
  end.
(* product of the choice-node entries, each read in the assignment built so far *)
Fixpoint anc (cs : list clause) (ch : list nat) (r : env) : Q :=
  match cs, ch with
  | c :: t, ci :: ct => nth ci (choice_row c r) 0 * anc t ct (set_heads (c_heads c) 1 ci r)
  | _, _ => 1
  end.

Lemma wsum_enum_seq : forall l s f G,
  wsum (enum_from s l f) G == Qsum (map (fun j => nth j l 0 * G (f (s + j)%nat)) (seq 0 (length l))).
Proof.
  induction l as [|w t IH]; intros s f G. reflexivity.
  cbn [enum_from wsum length seq map Qsum]. rewrite IH. rewrite <- seq_shift, map_map.
  cbn [nth]. rewrite Nat.add_0_r. apply Qplus_comp. reflexivity.
  apply Qsum_map_ext. intro j. cbn [nth]. replace (S s + j)%nat with (s + S j)%nat by lia. reflexivity.
Qed.

Lemma zeros_length : forall k, length (zeros k) = k.
Proof. induction k; simpl; auto. Qed.

Lemma choice_row_length : forall c r, length (choice_row c r) = S (length (c_heads c)).
Proof.
  intros. unfold choice_row, prior, det_row. destruct (beval (c_body c) r); cbn [length].
  rewrite map_length. reflexivity. rewrite zeros_length. reflexivity.
Qed.

Lemma run_anc : forall cs r F,
  wsum (run stepBN cs r) F == Qsum (map (fun ch => anc cs ch r * F (exec cs ch r)) (all_choices cs)).
Proof.
  induction cs as [|c t IH]; intros r F.
  - cbn [run wsum all_choices map Qsum anc exec]. ring.
  - rewrite wsum_run_cons. unfold stepBN. rewrite wsum_enum_seq, choice_row_length.
    cbn [all_choices]. rewrite Qsum_map_flat_map. apply Qsum_map_ext. intro ci.
    rewrite map_map. cbn [anc exec Nat.add]. rewrite IH. rewrite <- Qsum_map_scale.
    apply Qsum_map_ext. intro ct. ring.
Qed.

(* ------------------------------------------------------------------ 3. the final assignment realises the OrCPTs *)
Lemma existsb_map : forall (A B : Type) (f : B -> bool) (g : A -> B) l,
  existsb f (map g l) = existsb (fun x => f (g x)) l.
Proof. induction l as [|x t IH]; simpl. reflexivity. rewrite IH. reflexivity. Qed.

Lemma set_heads_lookup : forall hs j ci r a,
  lookupb a (set_heads hs j ci r) = lookupb a r || existsb (fun p => Nat.eqb ci p) (head_positions a hs j).
Proof.
  induction hs as [|[h q] t IH]; intros j ci r a.
  - cbn [set_heads head_positions existsb]. rewrite orb_false_r. reflexivity.
  - cbn [set_heads head_positions]. rewrite IH, existsb_app.
    destruct (N.eqb_spec a h) as [E|E].
    + subst. rewrite lookupb_cons_eq. cbn [existsb]. rewrite orb_false_r, orb_assoc. reflexivity.
    + rewrite lookupb_cons_neq by exact E. reflexivity.
Qed.

Lemma head_positions_notin : forall hs a j, ~ In a (map fst hs) -> head_positions a hs j = [].
Proof.
  induction hs as [|[h q] t IH]; intros a j H. reflexivity.
  cbn [head_positions]. destruct (N.eqb_spec a h) as [E|E].
  - exfalso. apply H. left. symmetry. exact E.
  - rewrite IH. reflexivity. intro HI. apply H. right. exact HI.
Qed.

Lemma set_heads_lookup_nothead : forall hs j ci r a,
  ~ In a (map fst hs) -> lookupb a (set_heads hs j ci r) = lookupb a r.
Proof. intros. rewrite set_heads_lookup, head_positions_notin by assumption. apply orb_false_r. Qed.

Lemma or_value_app : forall p1 p2 ch, or_value (p1 ++ p2) ch = or_value p1 ch || or_value p2 ch.
Proof. intros. unfold or_value. apply existsb_app. Qed.

Lemma or_pv_shift : forall a t i x ch,
  or_value (or_parentvalues a t (S i)) (x :: ch) = or_value (or_parentvalues a t i) ch.
Proof.
  induction t as [|c t IH]; intros i x ch. reflexivity.
  cbn [or_parentvalues]. rewrite !or_value_app, IH. f_equal.
  unfold or_value. rewrite !existsb_map. reflexivity.
Qed.

Lemma or_pv_notin : forall a cs i, ~ In a (all_heads cs) -> or_parentvalues a cs i = [].
Proof.
  induction cs as [|c t IH]; intros i H. reflexivity.
  rewrite all_heads_cons in H. cbn [or_parentvalues].
  rewrite head_positions_notin, IH. reflexivity.
  - intro HI. apply H. apply in_or_app. right. exact HI.
  - intro HI. apply H. apply in_or_app. left. exact HI.
Qed.

Lemma exec_lookup : forall t ct r a, length ct = length t ->
  lookupb a (exec t ct r) = lookupb a r || or_value (or_parentvalues a t 0) ct.
Proof.
  induction t as [|c t IH]; intros ct r a L.
  - destruct ct; [|discriminate]. cbn. rewrite orb_false_r. reflexivity.
  - destruct ct as [|ci ct]; [discriminate|]. cbn [length] in L. injection L as L.
    cbn [exec or_parentvalues]. rewrite IH by exact L. rewrite set_heads_lookup.
    rewrite or_value_app, or_pv_shift. rewrite <- orb_assoc. f_equal. f_equal.
    unfold or_value. rewrite existsb_map. reflexivity.
Qed.

Lemma exec_lookup_nothead : forall t ct r a, ~ In a (all_heads t) -> lookupb a (exec t ct r) = lookupb a r.
Proof.
  induction t as [|c t IH]; intros ct r a H. reflexivity.
  destruct ct as [|ci ct]. reflexivity.
  rewrite all_heads_cons in H. cbn [exec]. rewrite IH, set_heads_lookup_nothead. reflexivity.
  - intro HI. apply H. apply in_or_app. left. exact HI.
  - intro HI. apply H. apply in_or_app. right. exact HI.
Qed.

(* ------------------------------------------------------------------ 4. topological order: parents are final when read *)
Lemma beval_ext_on : forall f r1 r2,
  (forall a, In a (batoms f) -> lookupb a r1 = lookupb a r2) -> beval f r1 = beval f r2.
Proof.
  induction f as [|a|f IHf|f IHf g IHg|f IHf g IHg]; intros r1 r2 H; cbn [beval batoms] in *.
  - reflexivity.
  - apply H. left. reflexivity.
  - f_equal. apply IHf. exact H.
  - rewrite (IHf r1 r2), (IHg r1 r2). reflexivity.
    + intros a Ha. apply H. apply in_or_app. right. exact Ha.
    + intros a Ha. apply H. apply in_or_app. left. exact Ha.
  - rewrite (IHf r1 r2), (IHg r1 r2). reflexivity.
    + intros a Ha. apply H. apply in_or_app. right. exact Ha.
    + intros a Ha. apply H. apply in_or_app. left. exact Ha.
Qed.

Lemma choice_factors_ext : forall cs ch r1 r2,
  (forall a, lookupb a r1 = lookupb a r2) -> choice_factors cs ch r1 = choice_factors cs ch r2.
Proof.
  induction cs as [|c t IH]; intros ch r1 r2 H. reflexivity.
  destruct ch as [|ci ct]. reflexivity.
  cbn [choice_factors]. rewrite (IH ct r1 r2 H). unfold choice_row.
  rewrite (beval_ext_on (c_body c) r1 r2). reflexivity. intros a _. apply H.
Qed.

Lemma anc_cf : forall t ct r, topo_okb t = true -> anc t ct r = choice_factors t ct (exec t ct r).
Proof.
  induction t as [|c t IH]; intros ct r T. reflexivity.
  destruct ct as [|ci ct]. reflexivity.
  apply topo_cons in T. destruct T as [T1 T2].
  cbn [anc choice_factors exec]. rewrite <- (IH ct _ T2). f_equal. f_equal.
  unfold choice_row.
  rewrite (beval_ext_on (c_body c) r (exec t ct (set_heads (c_heads c) 1 ci r))). reflexivity.
  intros a Ha. destruct (T1 a Ha) as [N1 N2].
  rewrite exec_lookup_nothead by exact N2. rewrite set_heads_lookup_nothead by exact N1. reflexivity.
Qed.

(* ------------------------------------------------------------------ 5. the collapsed assignment reads like the final one *)
Lemma lookupb_rstar : forall atoms v a, lookupb a (rstar atoms v) = if memb a atoms then v a else false.
Proof.
  induction atoms as [|a0 t IH]; intros v a. reflexivity.
  cbn [rstar map lookupb]. unfold memb. cbn [existsb]. destruct (N.eqb_spec a a0) as [E|E].
  - subst. reflexivity.
  - cbn [orb]. apply IH.
Qed.

Lemma all_choices_length : forall cs ch, In ch (all_choices cs) -> length ch = length cs.
Proof.
  induction cs as [|c t IH]; intros ch H.
  - destruct H as [H|[]]. subst. reflexivity.
  - cbn [all_choices] in H. apply in_flat_map in H. destruct H as [ci [_ H]].
    apply in_map_iff in H. destruct H as [ct [E H]]. subst. cbn [length]. f_equal. apply IH. exact H.
Qed.

Lemma rstar_reads_final : forall atoms cs ch a,
  heads_inb atoms cs = true -> length ch = length cs ->
  lookupb a (rstar atoms (vch cs ch)) = lookupb a (exec cs ch []).
Proof.
  intros atoms cs ch a HI L. rewrite lookupb_rstar, exec_lookup by exact L.
  cbn [lookupb orb]. fold (vch cs ch a). destruct (memb a atoms) eqn:M. reflexivity.
  unfold vch. rewrite or_pv_notin. reflexivity.
  intro Ha. apply (heads_in atoms cs HI) in Ha. apply memb_In in Ha. congruence.
Qed.

(* ------------------------------------------------------------------ 6. assembly *)
Lemma wf_netb_parts : forall atoms cs, wf_netb atoms cs = true ->
  NoDup atoms /\ heads_inb atoms cs = true /\ topo_okb cs = true.
Proof.
  intros atoms cs H. unfold wf_netb in H. apply andb_true_iff in H. destruct H as [H H3].
  apply andb_true_iff in H. destruct H as [H1 H2]. repeat split; auto. apply nodupb_NoDup. exact H1.
Qed.

Lemma sum_product_is_ancestral : forall atoms cs ev,
  wf_netb atoms cs = true -> ev_ext ev ->
  bn_marginal atoms cs ev == mass (run stepBN cs []) ev.
Proof.
  intros atoms cs ev WF EV. destruct (wf_netb_parts atoms cs WF) as [ND [HI TO]].
  rewrite (bn_marginal_collapse atoms cs ev ND). unfold mass. rewrite run_anc.
  apply Qsum_map_ext_in. intros ch Hch. apply all_choices_length in Hch.
  assert (forall a, lookupb a (rstar atoms (vch cs ch)) = lookupb a (exec cs ch [])) as R
    by (intro a; apply rstar_reads_final; assumption).
  rewrite (EV _ _ R), (choice_factors_ext cs ch _ _ R), <- (anc_cf cs ch [] TO).
  destruct (ev (exec cs ch [])); ring.
Qed.

Lemma marginals_global : forall atoms cs ev,
  wf_netb atoms cs = true -> ev_ext ev ->
  bn_marginal atoms cs ev == mass (run stepBN cs []) ev /\
  mass (run stepBN cs []) ev == mass (run stepW cs []) ev.
Proof.
  intros atoms cs ev WF EV. split. apply sum_product_is_ancestral; assumption. apply marginals_eq.
Qed.

(* ------------------------------------------------------------------ normalisation *)
Lemma wsum_enum_one : forall l s f, wsum (enum_from s l f) (fun _ => 1) == Qsum l.
Proof. induction l as [|w t IH]; intros s f; cbn [enum_from wsum Qsum]. reflexivity. rewrite IH. ring. Qed.

Lemma run_total_mass : forall cs r, wsum (run stepBN cs r) (fun _ => 1) == 1.
Proof.
  induction cs as [|c t IH]; intros r.
  - cbn [run wsum]. ring.
  - rewrite wsum_run_cons. rewrite (wsum_ext _ _ (fun _ => 1)) by (intro r'; apply IH).
    unfold stepBN. rewrite wsum_enum_one. apply row_sum.
Qed.

Lemma joint_normalised : forall atoms cs,
  wf_netb atoms cs = true -> bn_marginal atoms cs (fun _ => true) == 1.
Proof.
  intros atoms cs WF. rewrite (sum_product_is_ancestral atoms cs (fun _ => true) WF).
  - unfold mass. apply run_total_mass.
  - intros r1 r2 _. reflexivity.
Qed.
