(* Lemmas about the Bayesian-network export model (ModelBN.v). *)
From Coq Require Import QArith NArith List Bool Lia Lqa Setoid Morphisms.
From PL.C31 Require Import ModelBN.
Import ListNotations.
Open Scope Q_scope.

Lemma wsum_app : forall d1 d2 F, wsum (d1 ++ d2) F == wsum d1 F + wsum d2 F.
Proof. induction d1 as [|[r w] t IH]; intros; simpl. lra. rewrite IH. lra. Qed.

Lemma wsum_scale : forall d w F, wsum (map (fun rw' => (fst rw', w * snd rw')) d) F == w * wsum d F.
Proof. induction d as [|[r x] t IH]; intros; simpl. lra. rewrite IH. ring. Qed.

Lemma wsum_ext : forall d F G, (forall r, F r == G r) -> wsum d F == wsum d G.
Proof. induction d as [|[r x] t IH]; intros F G H; simpl. lra. rewrite (H r), (IH F G H). lra. Qed.

Lemma wsum_flat_map : forall (d : list (env * Q)) (k : env * Q -> list (env * Q)) F,
  wsum (flat_map k d) F == Qsum (map (fun rw => wsum (k rw) F) d).
Proof. induction d as [|a t IH]; intros; simpl. lra. rewrite wsum_app, IH. lra. Qed.

Lemma wsum_run_cons : forall step c t r F,
  wsum (run step (c :: t) r) F == wsum (step c r) (fun r' => wsum (run step t r') F).
Proof.
  intros. simpl. generalize (step c r) as d.
  induction d as [|[r1 w1] d IH]; simpl. lra.
  rewrite wsum_app, wsum_scale, IH. lra.
Qed.

Lemma wsum_enum_zeros : forall k s f G, wsum (enum_from s (zeros k) f) G == 0.
Proof. induction k; intros; simpl. lra. rewrite IHk. ring. Qed.

Lemma wsum_enum_const : forall l s r0 G, wsum (enum_from s l (fun _ => r0)) G == Qsum l * G r0.
Proof. induction l as [|w t IH]; intros; simpl. ring. rewrite IH. ring. Qed.

Lemma prior_sum : forall c, Qsum (prior c) == 1.
Proof. intros. unfold prior. simpl. ring. Qed.

Lemma zeros_sum : forall k, Qsum (zeros k) == 0.
Proof. induction k; simpl; lra. Qed.

Lemma row_sum : forall c r, Qsum (choice_row c r) == 1.
Proof.
  intros. unfold choice_row. destruct (beval (c_body c) r). apply prior_sum.
  unfold det_row. simpl. rewrite zeros_sum. lra.
Qed.

Lemma zeros_in : forall k x, In x (zeros k) -> x = 0.
Proof. induction k; simpl; intros x H. contradiction. destruct H; auto. Qed.

Lemma row_nonneg : forall c r,
  (forall h, In h (c_heads c) -> 0 <= snd h) -> Qsum (map snd (c_heads c)) <= 1 ->
  forall x, In x (choice_row c r) -> 0 <= x.
Proof.
  intros c r NN S x H. unfold choice_row in H. destruct (beval (c_body c) r).
  - unfold prior in H. destruct H as [H|H]. subst. lra.
    apply in_map_iff in H. destruct H as [h [H1 H2]]. subst. auto.
  - unfold det_row in H. destruct H as [H|H]. subst. lra. apply zeros_in in H. subst. lra.
Qed.

Lemma nth_zeros : forall k j, nth j (zeros k) 0 = 0.
Proof. induction k; destruct j; simpl; auto. Qed.

(* the entries of the table: under a true body the AD's prior, otherwise the point mass on 0 *)
Lemma row_entries : forall c r j,
  nth j (choice_row c r) 0 = if beval (c_body c) r then nth j (prior c) 0 else (if Nat.eqb j 0 then 1 else 0).
Proof.
  intros. unfold choice_row. destruct (beval (c_body c) r); auto.
  unfold det_row. destruct j; simpl; auto. apply nth_zeros.
Qed.

(* choice-node CPT + OrCPTs of a clause realise the AD's world semantics given the parents:
   for EVERY weighting G of the resulting assignments the two one-clause extensions agree *)
Lemma step_eq : forall c r G, wsum (stepBN c r) G == wsum (stepW c r) G.
Proof.
  intros c r G. unfold stepBN, stepW, choice_row.
  destruct (beval (c_body c) r).
  - reflexivity.
  - rewrite wsum_enum_const, prior_sum. unfold det_row. simpl.
    rewrite wsum_enum_zeros. ring.
Qed.

Lemma run_eq : forall cs r F, wsum (run stepBN cs r) F == wsum (run stepW cs r) F.
Proof.
  induction cs as [|c t IH]; intros r F. reflexivity.
  rewrite !wsum_run_cons.
  rewrite (wsum_ext _ _ (fun r' => wsum (run stepW t r') F)) by (intros; apply IH).
  apply step_eq.
Qed.

Lemma marginals_eq : forall cs r ev, mass (run stepBN cs r) ev == mass (run stepW cs r) ev.
Proof. intros. unfold mass. apply run_eq. Qed.

(* the table built by clause_to_cpt consists exactly of the rows, one per key of the parents *)
Lemma cpt_table_rows : forall c k row,
  In (k, row) (cpt_table c) -> row = choice_row c (combine (batoms (c_body c)) k) /\ length k = length (batoms (c_body c)).
Proof.
  intros c k row H. unfold cpt_table in H. apply in_map_iff in H. destruct H as [k' [H1 H2]].
  inversion H1; subst. split; auto.
  clear H1. revert k H2. generalize (length (batoms (c_body c))) as n.
  induction n; simpl; intros k H.
  - destruct H as [H|[]]. subst. auto.
  - apply in_app_or in H. destruct H as [H|H]; apply in_map_iff in H; destruct H as [k0 [H1 H2]]; subst; simpl; f_equal; auto.
Qed.

Lemma keys_complete : forall n k, length k = n -> In k (keys n).
Proof.
  induction n; intros k H.
  - destruct k; try discriminate. left. auto.
  - destruct k as [|b k]; try discriminate. simpl in H. assert (length k = n) as L by lia.
    simpl. apply in_or_app. destruct b; [right|left]; apply in_map; apply IHn; exact L.
Qed.

Lemma cpt_table_spec : forall c,
  (forall k row, In (k, row) (cpt_table c) ->
     length k = length (batoms (c_body c)) /\
     forall j, nth j row 0 = if beval (c_body c) (combine (batoms (c_body c)) k) then nth j (prior c) 0
                             else (if Nat.eqb j 0 then 1 else 0)) /\
  (forall k, length k = length (batoms (c_body c)) -> exists row, In (k, row) (cpt_table c)).
Proof.
  intros c. split.
  - intros k row H. destruct (cpt_table_rows c k row H) as [A B]. split; auto.
    intros j. subst row. apply row_entries.
  - intros k H. exists (choice_row c (combine (batoms (c_body c)) k)).
    unfold cpt_table. apply in_map_iff. exists k. split; auto. apply keys_complete. auto.
Qed.

Lemma rows_are_distributions : forall c r,
  Qsum (choice_row c r) == 1 /\
  ((forall h, In h (c_heads c) -> 0 <= snd h) -> Qsum (map snd (c_heads c)) <= 1 ->
   forall x, In x (choice_row c r) -> 0 <= x).
Proof. intros c r. split. apply row_sum. apply row_nonneg. Qed.
