(* Boolean well-formedness of an exported network (definitions only, no proofs):
   the hypothesis of the global sum-product theorem C31_marginals, evaluated by the harness on every
   real exported network and by an Example in Props.v.

   wf_netb atoms cs  =  `atoms` has no duplicates
                     /\ every head atom of every clause is in `atoms`   (every OrCPT variable is enumerated)
                     /\ `cs` is in topological order: for every suffix c :: t of cs no atom of the body of c
                        is a head of c or of a clause of t (the parents of every factor precede it; acyclic). *)
From Coq Require Import QArith NArith List Bool.
From PL.C31 Require Import ModelBN.
Import ListNotations.

Definition memb (a : N) (l : list N) : bool := existsb (N.eqb a) l.

Fixpoint nodupb (l : list N) : bool :=
  match l with
  | [] => true
  | a :: t => negb (memb a t) && nodupb t
  end.

Definition heads_of (c : clause) : list N := map fst (c_heads c).
Definition all_heads (cs : list clause) : list N := flat_map heads_of cs.

Fixpoint topo_okb (cs : list clause) : bool :=
  match cs with
  | [] => true
  | c :: t => forallb (fun b => negb (memb b (all_heads (c :: t)))) (batoms (c_body c)) && topo_okb t
  end.

Definition heads_inb (atoms : list N) (cs : list clause) : bool :=
  forallb (fun h => memb h atoms) (all_heads cs).

Definition wf_netb (atoms : list N) (cs : list clause) : bool :=
  nodupb atoms && heads_inb atoms cs && topo_okb cs.

(* an event reads the assignment only through lookupb (association lists with shadowing are a
   representation detail) *)
Definition ev_ext (ev : env -> bool) : Prop :=
  forall r1 r2, (forall a, lookupb a r1 = lookupb a r2) -> ev r1 = ev r2.
