(* The sum-product marginal of the exported network does not depend on the clause order (the numbering of the
   choice nodes): bn_marginal atoms cs ev == bn_marginal atoms cs' ev for Permutation cs cs'.  Hence the global
   theorem (ProofsGlobal.marginals_global, stated for a topologically ordered clause list) applies to the network of
   the clause list in ANY order, in particular in the order of formula.enum_clauses(). *)
From Coq Require Import QArith NArith List Bool Lia Lqa Setoid Morphisms Permutation.
From PL.C31 Require Import ModelBN ModelBNwf ProofsBN ProofsGlobal.
Import ListNotations.
Open Scope Q_scope.

(* ------------------------------------------------------------------ more Qsum plumbing *)
Lemma Qsum_map_zero : forall (A : Type) (l : list A), Qsum (map (fun _ => 0) l) == 0.
Proof. induction l as [|x t IH]; simpl. lra. rewrite IH. lra. Qed.

Lemma Qsum_map_plus : forall (A : Type) (g h : A -> Q) l,
  Qsum (map (fun x => g x + h x) l) == Qsum (map g l) + Qsum (map h l).
Proof. induction l as [|x t IH]; simpl. lra. rewrite IH. lra. Qed.

(* Fubini for finite sums *)
Lemma Qsum_swap : forall (A B : Type) (f : A -> B -> Q) la lb,
  Qsum (map (fun i => Qsum (map (fun j => f i j) lb)) la) ==
  Qsum (map (fun j => Qsum (map (fun i => f i j) la)) lb).
Proof.
  induction la as [|a t IH]; intros lb.
  - cbn [map Qsum]. rewrite Qsum_map_zero. reflexivity.
  - cbn [map Qsum]. rewrite IH. rewrite <- Qsum_map_plus. reflexivity.
Qed.

(* ------------------------------------------------------------------ 1. bn_marginal through the list of (clause, choice) pairs *)
(* product of the choice-node entries *)
Fixpoint prodl (l : list (clause * nat)) (r : env) : Q :=
  match l with
  | [] => 1
  | p :: t => nth (snd p) (choice_row (fst p) r) 0 * prodl t r
  end.

(* value forced on atom a by the OrCPTs: some clause chose a head position of a *)
Definition hit (a : N) (l : list (clause * nat)) : bool :=
  existsb (fun p => existsb (Nat.eqb (snd p)) (head_positions a (c_heads (fst p)) 1)) l.

Definition Phi (atoms : list N) (ev : env -> bool) (l : list (clause * nat)) : Q :=
  Qsum (map (fun r => if ev r then prodl l r * ind atoms (fun a => hit a l) r else 0) (all_envs atoms)).

Definition G (P : list (clause * nat) -> Q) (cs : list clause) : Q :=
  Qsum (map (fun ch => P (combine cs ch)) (all_choices cs)).

Lemma choice_factors_prodl : forall cs ch r, choice_factors cs ch r = prodl (combine cs ch) r.
Proof.
  induction cs as [|c t IH]; intros ch r. reflexivity.
  destruct ch as [|ci ct]. reflexivity.
  cbn [choice_factors combine prodl fst snd]. rewrite IH. reflexivity.
Qed.

Lemma vch_hit : forall a cs ch, length ch = length cs -> vch cs ch a = hit a (combine cs ch).
Proof.
  intros a. unfold vch. induction cs as [|c t IH]; intros ch L.
  - destruct ch; reflexivity.
  - destruct ch as [|ci ct]; [discriminate|]. cbn [length] in L. injection L as L.
    cbn [or_parentvalues combine]. rewrite or_value_app, or_pv_shift, (IH ct L).
    unfold hit. cbn [existsb fst snd]. f_equal.
    unfold or_value. rewrite existsb_map. reflexivity.
Qed.

Lemma ind_ext : forall atoms v v' r, (forall a, v a = v' a) -> ind atoms v r = ind atoms v' r.
Proof.
  induction atoms as [|a t IH]; intros v v' r H. reflexivity.
  cbn [ind]. rewrite (H a), (IH v v' r H). reflexivity.
Qed.

Lemma bn_marginal_G : forall atoms cs ev, bn_marginal atoms cs ev == G (Phi atoms ev) cs.
Proof.
  intros atoms cs ev. unfold bn_marginal, G. rewrite Qsum_flat_map.
  apply Qsum_map_ext_in. intros ch Hch. apply all_choices_length in Hch.
  unfold Phi. apply Qsum_map_ext. intro r. unfold joint.
  rewrite or_factors_ind, choice_factors_prodl.
  rewrite (ind_ext atoms (vch cs ch) (fun a => hit a (combine cs ch)) r)
    by (intro a; apply vch_hit; exact Hch).
  reflexivity.
Qed.

(* ------------------------------------------------------------------ 2. Phi is invariant under permutation of the pairs *)
Lemma prodl_perm : forall l l' r, Permutation l l' -> prodl l r == prodl l' r.
Proof.
  intros l l' r P. induction P as [|x l l' P IH|x y l|l l' l'' P1 IH1 P2 IH2].
  - reflexivity.
  - cbn [prodl]. rewrite IH. reflexivity.
  - cbn [prodl]. ring.
  - rewrite IH1. exact IH2.
Qed.

Lemma existsb_perm : forall (A : Type) (f : A -> bool) l l', Permutation l l' -> existsb f l = existsb f l'.
Proof.
  intros A f l l' P. induction P as [|x l l' P IH|x y l|l l' l'' P1 IH1 P2 IH2].
  - reflexivity.
  - cbn [existsb]. rewrite IH. reflexivity.
  - cbn [existsb]. rewrite !orb_assoc, (orb_comm (f y) (f x)). reflexivity.
  - rewrite IH1. exact IH2.
Qed.

Lemma hit_perm : forall a l l', Permutation l l' -> hit a l = hit a l'.
Proof. intros. unfold hit. apply existsb_perm. assumption. Qed.

Lemma Phi_perm : forall atoms ev l l', Permutation l l' -> Phi atoms ev l == Phi atoms ev l'.
Proof.
  intros atoms ev l l' P. unfold Phi. apply Qsum_map_ext. intro r.
  rewrite (ind_ext atoms (fun a => hit a l) (fun a => hit a l') r) by (intro a; apply hit_perm; exact P).
  destruct (ev r). rewrite (prodl_perm l l' r P). reflexivity. reflexivity.
Qed.

(* ------------------------------------------------------------------ 3. G of an invariant functional is invariant under clause permutation *)
Lemma G_cons : forall P c t,
  G P (c :: t) == Qsum (map (fun ci => G (fun l => P ((c, ci) :: l)) t) (seq 0 (S (length (c_heads c))))).
Proof.
  intros P c t. unfold G. cbn [all_choices]. rewrite Qsum_map_flat_map. apply Qsum_map_ext. intro ci.
  rewrite map_map. cbn [combine]. reflexivity.
Qed.

Lemma G_ext : forall P P' cs, (forall l, P l == P' l) -> G P cs == G P' cs.
Proof. intros P P' cs H. unfold G. apply Qsum_map_ext. intro ch. apply H. Qed.

Lemma G_perm : forall cs cs', Permutation cs cs' ->
  forall P, (forall l l', Permutation l l' -> P l == P l') -> G P cs == G P cs'.
Proof.
  intros cs cs' PM. induction PM as [|x l l' PM IH|x y l|l l' l'' P1 IH1 P2 IH2]; intros P HP.
  - reflexivity.
  - rewrite !G_cons. apply Qsum_map_ext. intro ci. apply IH.
    intros l0 l0' H0. apply HP. apply perm_skip. exact H0.
  - rewrite (G_cons P y (x :: l)), (G_cons P x (y :: l)).
    etransitivity.
    { apply Qsum_map_ext. intro cj. apply G_cons. }
    etransitivity; [apply Qsum_swap|].
    apply Qsum_map_ext. intro ci. symmetry.
    etransitivity; [apply G_cons|].
    apply Qsum_map_ext. intro cj. apply G_ext. intro l0. apply HP. apply perm_swap.
  - rewrite (IH1 P HP). apply IH2. exact HP.
Qed.

Lemma bn_marginal_perm : forall atoms cs cs' ev,
  Permutation cs cs' -> bn_marginal atoms cs ev == bn_marginal atoms cs' ev.
Proof.
  intros atoms cs cs' ev PM. rewrite !bn_marginal_G. apply G_perm. exact PM.
  intros l l' H. apply Phi_perm. exact H.
Qed.

Lemma marginals_any_order : forall atoms cs cs' ev,
  Permutation cs cs' -> wf_netb atoms cs' = true -> ev_ext ev ->
  bn_marginal atoms cs ev == mass (run stepW cs' []) ev.
Proof.
  intros atoms cs cs' ev PM WF EV. destruct (marginals_global atoms cs' ev WF EV) as [A B].
  rewrite (bn_marginal_perm atoms cs cs' ev PM), A. exact B.
Qed.

Lemma joint_normalised_any_order : forall atoms cs cs',
  Permutation cs cs' -> wf_netb atoms cs' = true -> bn_marginal atoms cs (fun _ => true) == 1.
Proof.
  intros atoms cs cs' PM WF. rewrite (bn_marginal_perm atoms cs cs' _ PM). apply joint_normalised. exact WF.
Qed.
