(* C31 — Bayesian-network export preserves the distribution (problog/tasks/bayesnet.py, problog/pgm/cpd.py).
   Only statements, closed by `exact`.  Model: ModelBN.v (network, world semantics), ModelBNwf.v (well-formedness).

   FULL STATEMENT (now proved: C31_marginals):
     for every acyclic ground program, the joint distribution defined as the PRODUCT OF ALL FACTORS of the
     exported network (one choice-node table per clause, one OrCPT per atom), marginalised by SUMMATION over
     all assignments (ModelBN.bn_marginal), gives every event -- in particular every atom -- the probability of
     ProbLog's possible-world semantics (mass (run stepW cs [])).
   What is proved: (1) every table row is a distribution and the table has the documented shape, (2) the
   per-clause theorem (choice-node CPT + OrCPTs realise the AD's world semantics given the parents), (3) its
   lifting along ANY clause order (ancestral reading of the network = clause-by-clause world semantics;
   C31_marginals_partial, kept), (4) the global sum-product step: summation over all assignments of the product
   of all factors = ancestral pass (C31_marginals, first conjunct; proofs in ProofsGlobal.v), and (5) the joint
   is normalised (C31_joint_normalised).
   Hypotheses of (4)/(5):
     * wf_netb atoms cs = true (ModelBNwf.v, a boolean the harness evaluates on every real exported network):
       `atoms` (the enumerated OrCPT variables) has no duplicates; every head atom of every clause is in `atoms`;
       the clause list is in topological order, i.e. for every suffix c :: t of cs no atom of the body of c is a
       head of c or of a clause of t (the parents of every factor precede it; the network is acyclic).  An atom
       may be the head of several clauses and of several heads of one clause; body atoms that are not in `atoms`
       read false on both sides.
     * ev_ext ev: the event reads an assignment only through lookupb (association lists with shadowing are a
       representation detail), e.g. `lookupb a` for an atom a or any boolean combination of such.
   (6) Order independence (C31_marginals_any_order, proofs in ProofsGlobalPerm.v): bn_marginal does not depend on
   the clause order, i.e. on the numbering of the choice nodes (bn_marginal_perm, no well-formedness needed), so the
   network of the clause list cs in ANY order -- in particular the order of formula.enum_clauses() -- has the
   world-semantics marginals as soon as SOME permutation cs' of it satisfies wf_netb.  The harness evaluates
   wf_netb on a topological permutation cs' of formula.enum_clauses() for every real exported network. *)
From Coq Require Import QArith NArith List Bool.
From Coq Require Import Permutation.
From PL.C31 Require Import ModelBN ModelBNwf ProofsBN ProofsGlobal ProofsGlobalPerm.
Import ListNotations.
Open Scope Q_scope.

(* every row of a choice-node table is a probability distribution *)
Theorem C31_cpt_rows_are_distributions : forall c r,
  Qsum (choice_row c r) == 1 /\
  ((forall h, In h (c_heads c) -> 0 <= snd h) -> Qsum (map snd (c_heads c)) <= 1 ->
   forall x, In x (choice_row c r) -> 0 <= x).
Proof. exact rows_are_distributions. Qed.
Print Assumptions C31_cpt_rows_are_distributions.

(* the table has exactly one row per truth assignment of the parents, and that row is the AD's prior
   [1 - sum p, p1..pk] when the body is true and the point mass on `no head` otherwise *)
Theorem C31_cpt_table : forall c,
  (forall k row, In (k, row) (cpt_table c) ->
     length k = length (batoms (c_body c)) /\
     forall j, nth j row 0 = if beval (c_body c) (combine (batoms (c_body c)) k) then nth j (prior c) 0
                             else (if Nat.eqb j 0 then 1 else 0)) /\
  (forall k, length k = length (batoms (c_body c)) -> exists row, In (k, row) (cpt_table c)).
Proof. exact cpt_table_spec. Qed.
Print Assumptions C31_cpt_table.

(* per clause: choice-node CPT + OrCPTs of a ground AD clause realise the AD's world semantics given its
   parents (for every weighting G of the resulting truth assignments, in particular every event) *)
Theorem C31_choice_cpt : forall c r G, wsum (stepBN c r) G == wsum (stepW c r) G.
Proof. exact step_eq. Qed.
Print Assumptions C31_choice_cpt.

(* along any list of clauses: network (ancestral reading) and world semantics give every event the same
   probability *)
Theorem C31_marginals_partial : forall cs r ev, mass (run stepBN cs r) ev == mass (run stepW cs r) ev.
Proof. exact marginals_eq. Qed.
Print Assumptions C31_marginals_partial.

(* the global step: for a well-formed (duplicate-free atoms, heads among atoms, topologically ordered clauses)
   network, summation over ALL assignments of the product of ALL factors = ancestral pass = world semantics,
   for every event that reads the assignment through lookupb *)
Theorem C31_marginals : forall atoms cs ev,
  wf_netb atoms cs = true ->
  ev_ext ev ->
  bn_marginal atoms cs ev == mass (run stepBN cs []) ev /\
  mass (run stepBN cs []) ev == mass (run stepW cs []) ev.
Proof. exact marginals_global. Qed.
Print Assumptions C31_marginals.

(* the product of all factors of a well-formed network sums to 1 over all assignments *)
Theorem C31_joint_normalised : forall atoms cs,
  wf_netb atoms cs = true -> bn_marginal atoms cs (fun _ => true) == 1.
Proof. exact joint_normalised. Qed.
Print Assumptions C31_joint_normalised.

(* order independence: the clause list of the network may be in ANY order (the order only numbers the choice
   nodes); it suffices that some permutation of it is well formed.  The right-hand side is ProbLog's world
   semantics read along that topological order. *)
Theorem C31_marginals_any_order : forall atoms cs cs' ev,
  Permutation cs cs' ->
  wf_netb atoms cs' = true ->
  ev_ext ev ->
  bn_marginal atoms cs ev == mass (run stepW cs' []) ev.
Proof. exact marginals_any_order. Qed.
Print Assumptions C31_marginals_any_order.

(* non-vacuity: 0.3::a. 0.5::b. 0.2::h1; 0.3::h2 :- a, \+b. 0.4::h1 :- b. d :- h1, \+h2.
   atoms a=1 b=2 h1=3 h2=4 d=5 *)
Definition ex_prog : list clause :=
  [ mkClause [(1%N, 3#10)] BTrue; mkClause [(2%N, 1#2)] BTrue;
    mkClause [(3%N, 1#5); (4%N, 3#10)] (BAnd (BAtom 1) (BNot (BAtom 2)));
    mkClause [(3%N, 2#5)] (BAtom 2);
    mkClause [(5%N, 1)] (BAnd (BAtom 3) (BNot (BAtom 4))) ].
(* P(h1) = 0.3*0.5*0.2 + 0.5*0.4 = 0.23 ; product-of-factors marginal = ancestral pass = world semantics *)
Example C31_ex_marginal :
  Qred (bn_marginal [1%N; 2%N; 3%N; 4%N; 5%N] ex_prog (lookupb 3)) = 23 # 100 /\
  Qred (mass (run stepBN ex_prog []) (lookupb 3)) = 23 # 100 /\
  Qred (mass (run stepW ex_prog []) (lookupb 3)) = 23 # 100 /\
  Qred (bn_marginal [1%N; 2%N; 3%N; 4%N; 5%N] ex_prog (lookupb 5)) = Qred (mass (run stepW ex_prog []) (lookupb 5)).
Proof. vm_compute. repeat split. Qed.
Example C31_ex_table :
  map (fun kr => (fst kr, map Qred (snd kr)))
      (cpt_table (mkClause [(3%N, 1#5); (4%N, 3#10)] (BAnd (BAtom 1) (BNot (BAtom 2))))) =
  [([false; false], [1%Q; 0%Q; 0%Q]); ([false; true], [1%Q; 0%Q; 0%Q]);
   ([true; false], [(1#2)%Q; (1#5)%Q; (3#10)%Q]); ([true; true], [1%Q; 0%Q; 0%Q])].
Proof. vm_compute. reflexivity. Qed.
(* non-vacuity of the hypotheses of C31_marginals: the example network is well formed, atom events are
   extensional; an ill-ordered clause list (a body atom defined later) is rejected *)
Example C31_ex_wf : wf_netb [1%N; 2%N; 3%N; 4%N; 5%N] ex_prog = true.
Proof. vm_compute. reflexivity. Qed.
Example C31_ex_not_wf : wf_netb [1%N; 2%N; 3%N; 4%N; 5%N] (rev ex_prog) = false.
Proof. vm_compute. reflexivity. Qed.
Example C31_ex_ev_ext : forall a, ev_ext (lookupb a).
Proof. intros a r1 r2 H. apply H. Qed.
(* non-vacuity of C31_marginals_any_order: the reversed example program is NOT well formed as it stands
   (C31_ex_not_wf) but is a permutation of a well-formed list, so its sum-product marginals are the world semantics *)
Example C31_ex_perm : Permutation (rev ex_prog) ex_prog.
Proof. apply Permutation_sym. apply Permutation_rev. Qed.
Example C31_ex_any_order : forall a,
  bn_marginal [1%N; 2%N; 3%N; 4%N; 5%N] (rev ex_prog) (lookupb a) == mass (run stepW ex_prog []) (lookupb a).
Proof.
  intro a. apply C31_marginals_any_order. exact C31_ex_perm. exact C31_ex_wf. exact (C31_ex_ev_ext a).
Qed.
