(* C07 — marginals do not depend on the textual order (statements only). *)
From Coq Require Import NArith QArith List Bool.
From PL.Sem Require Import Program Sem.
Import ListNotations.

Example C07_example :
  let c1 := AD [(3#10, (1%N, []))] [] in
  let c2 := AD [(1#2, (2%N, [])); (1#4, (3%N, []))] [Pos (1%N, []); Neg (4%N, [])] in
  let c3 := Rule (4%N, []) [Neg (1%N, [])] in
  gprob (mkG [c1; c2; c3] [] [((3%N, []), false)]) (2%N, []) = gprob (mkG [c3; c2; c1] [] [((3%N, []), false)]) (2%N, []).
Proof. vm_compute. reflexivity. Qed.
