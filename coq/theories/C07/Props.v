(* C07 — marginals do not depend on the textual order of the program.
   Only statements; proofs in Sem/PermProofs.v and Sem/PermFO.v. *)
From Coq Require Import NArith QArith List Bool Permutation.
From PL.Sem Require Import Program Sem SemBasics PermProofs PermFO.
Import ListNotations.

(* Ground level: the probability of a query (and the Inconsistent / NotTwoValued / OutOfFuel verdicts)
   is the same for every order of the clause instances and of the evidence. *)
Theorem C07_perm_clauses_ground : forall cs cs' ev ev' q,
  Permutation cs cs' -> Permutation ev ev' ->
  prob_gen gatom gatom_eqb cs ev q = prob_gen gatom gatom_eqb cs' ev' q.
Proof. exact (prob_gen_perm_clauses gatom gatom_eqb gatom_eqb_spec). Qed.
Print Assumptions C07_perm_clauses_ground.

(* Ground level: permuting the literals inside clause bodies (cbp = same heads, Permutation of the body). *)
Theorem C07_perm_body_ground : forall cs cs' ev q,
  Forall2 (cbp gatom) cs cs' -> prob_gen gatom gatom_eqb cs ev q = prob_gen gatom gatom_eqb cs' ev q.
Proof. exact (prob_gen_perm_body gatom gatom_eqb gatom_eqb_spec). Qed.
Print Assumptions C07_perm_body_ground.

(* First-order programs: any permutation of the statements (facts, rules, ADs, queries, evidence). *)
Theorem C07_perm_statements : forall P P' q, Permutation P P' -> prob P q = prob P' q.
Proof. exact prob_perm_statements. Qed.
Print Assumptions C07_perm_statements.

(* ... and the reported query instances with their values are the same multiset. *)
Theorem C07_perm_statements_answers : forall P P', Permutation P P' -> Permutation (answers P) (answers P').
Proof. exact answers_perm_statements. Qed.
Print Assumptions C07_perm_statements_answers.

(* First-order programs: permuting the body literals of every clause (sbp). The side condition of the
   property (negated literals after their binders) concerns the operational engine only: the
   semantics instantiates all variables of a clause at once. *)
Theorem C07_perm_body : forall P P' q, Forall2 sbp P P' -> prob P q = prob P' q.
Proof. exact prob_perm_body. Qed.
Print Assumptions C07_perm_body.

(* NOT proved here (would need the pipeline model of DESIGN C01):
   C07_model_invariant : infer_m P q = infer_m P' q. The real engine is tied by the differential check. *)

(* non-vacuity: an AD with a body, negation and evidence; reversing the clause list gives the same value *)
Example C07_example :
  let c1 := AD [(3#10, (1%N, []))] [] in
  let c2 := AD [(1#2, (2%N, [])); (1#4, (3%N, []))] [Pos (1%N, []); Neg (4%N, [])] in
  let c3 := Rule (4%N, []) [Neg (1%N, [])] in
  gprob (mkG [c1; c2; c3] [] [((3%N, []), false)]) (2%N, []) = Ok (6#37) /\
  gprob (mkG [c3; c2; c1] [] [((3%N, []), false)]) (2%N, []) = Ok (6#37).
Proof. vm_compute. split; reflexivity. Qed.
