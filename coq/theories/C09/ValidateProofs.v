(* Soundness of the validators, for all inputs (no size bound). *)
From Coq Require Import ZArith NArith List Bool Lia Arith.
From PL.C09 Require Import BoolGraph ClarkBase Validate.
Import ListNotations.

Lemma ids_of_in : forall gs g id, In g gs -> In id (atoms_of g) -> In id (ids_of gs).
Proof.
  intros gs g id Hg Hid. unfold ids_of. apply nodup_In. apply in_flat_map. exists g. auto.
Qed.

(* ------------------------------------------------------------------ validate_break *)
Theorem validate_break_sound : forall F D pairs,
    validate_break F D pairs = true ->
    topo D /\
    forall a, exists s, is_model F a s /\
                        forall kF kD, In (kF, kD) pairs -> key_val s kF = key_val (vget (dag_val a D)) kD.
Proof.
  intros F D pairs H. unfold validate_break in H. apply andb_true_iff in H. destruct H as [T H].
  split. apply topob_sound; auto.
  intros a. destruct (sublists_cover a (ids_of [F; D])) as [t [Ht Hag]].
  rewrite forallb_forall in H. specialize (H t Ht). unfold validate_break_at in H.
  apply andb_true_iff in H. destruct H as [M P].
  exists (vget (sem F (asg_of t))). split.
  - apply is_model_ext_a with (a := asg_of t).
    + intros id Hid. apply Hag. apply ids_of_in with (g := F); simpl; auto.
    + apply is_modelb_sound; auto.
  - intros kF kD Hin. unfold check_pairs in P. rewrite forallb_forall in P.
    specialize (P (kF, kD) Hin). simpl in P. apply eqb_prop in P. rewrite P.
    rewrite (dag_val_ext_a (asg_of t) a D); auto.
    intros id Hid. apply Hag. apply ids_of_in with (g := D); simpl; auto.
Qed.

(* with the stratification hypothesis the model is the only one *)
Corollary validate_break_sound_unique : forall F D pairs,
    validate_break F D pairs = true -> stratified F ->
    forall a s, is_model F a s ->
                forall kF kD, In (kF, kD) pairs -> key_val (vget (dag_val a D)) kD = key_val s kF.
Proof.
  intros F D pairs H ST a s M kF kD Hin.
  destruct (validate_break_sound F D pairs H) as [_ V]. destruct (V a) as [s' [M' P]].
  rewrite <- (P kF kD Hin).
  assert (E : forall k, s' k = s k) by (apply stratified_model_unique with (g := F) (a := a); auto).
  destruct kF as [c|]; simpl; auto. apply lit_val_ext. apply E.
Qed.

(* ------------------------------------------------------------------ validate_clark *)
Definition extends (g : graph) (a : N -> bool) (m : nat -> bool) : Prop :=
  forall k id, node_at g k = Some (NAtom id) -> m k = a id.

Lemma cnf_lit_agree : forall m dv l, m (lit_var l) = dv (lit_var l) -> cnf_lit m l = cnf_lit dv l.
Proof.
  intros m dv [|p|p] H; simpl; auto; unfold lit_var in H; simpl in H; now rewrite H.
Qed.

Lemma cnf_lit_same_true : forall m dv l, cnf_lit dv l = true -> cnf_lit m l = true -> m (lit_var l) = dv (lit_var l).
Proof.
  intros m dv [|p|p] H1 H2; simpl in *; unfold lit_var; simpl; try congruence.
  destruct (m (Pos.to_nat p)); destruct (dv (Pos.to_nat p)); simpl in *; congruence.
Qed.

Lemma forcing_sound : forall g dv m k c,
    forcing g dv k c = true -> sat_clause m c = true ->
    (forall j, 1 <= j < k -> m j = dv j) ->
    (forall j, is_atomb g j = true -> m j = dv j) ->
    m k = dv k.
Proof.
  intros g dv m k c F S Hlt Hat. unfold forcing in F. apply andb_true_iff in F. destruct F as [_ F].
  rewrite forallb_forall in F. unfold sat_clause, sat_lits in S. apply existsb_exists in S.
  destruct S as [l [Hl Sl]]. specialize (F l Hl).
  destruct (lit_var l =? k) eqn:E.
  - apply Nat.eqb_eq in E. rewrite <- E. apply cnf_lit_same_true; auto.
  - apply andb_true_iff in F. destruct F as [K N]. apply negb_true_iff in N.
    assert (m (lit_var l) = dv (lit_var l)).
    { apply orb_true_iff in K. destruct K as [K|K]; auto. apply Nat.ltb_lt in K.
      destruct l as [|p|p]; simpl in Sl; try discriminate; apply Hlt; unfold lit_var in *; simpl in *; lia. }
    rewrite (cnf_lit_agree m dv l H) in Sl. congruence.
Qed.

Lemma sat_cnf_filter : forall m cls (p : clause -> bool),
    sat_cnf m cls = sat_cnf m (filter p cls) && sat_cnf m (filter (fun c => negb (p c)) cls).
Proof.
  intros m cls p. unfold sat_cnf. induction cls as [|c cls IH]; simpl; auto.
  rewrite IH. destruct (p c); simpl; destruct (sat_clause m c); simpl; auto.
  now rewrite andb_false_r.
Qed.

Lemma dag_val_atom : forall g a k id, topo g -> node_at g k = Some (NAtom id) -> vget (dag_val a g) k = a id.
Proof.
  intros g a k id T E. rewrite (dag_val_supported g a T k), E. reflexivity.
Qed.

Theorem validate_clark_sound : forall D ads cls,
    validate_clark D ads cls = true ->
    topo D /\
    forall a,
      let dv := vget (dag_val a D) in
      let comp := filter is_completion_clause cls in
      let cons := filter (fun c => negb (is_completion_clause c)) cls in
      (* existence *)
      (extends D a dv /\ sat_cnf dv comp = true) /\
      (* uniqueness: every model of the completion clauses that extends a is dag_val on every node *)
      (forall m, extends D a m -> sat_cnf m comp = true -> forall k, 1 <= k <= length D -> m k = dv k) /\
      (* the constraint clauses say exactly what the AD constraints say *)
      sat_cnf dv cons = ads_okb dv ads /\
      (* hence for the whole clause list *)
      (forall m, extends D a m -> sat_cnf m cls = true ->
                 (forall k, 1 <= k <= length D -> m k = dv k)) /\
      sat_cnf dv cls = ads_okb dv ads.
Proof.
  intros D ads cls H. unfold validate_clark in H. apply andb_true_iff in H. destruct H as [T H].
  apply topob_sound in T. split; auto.
  intros a dv comp cons.
  destruct (sublists_cover a (ids_of [D])) as [t [Ht Hag]].
  rewrite forallb_forall in H. specialize (H t Ht). unfold validate_clark_at in H.
  assert (EQ : dag_val (asg_of t) D = dag_val a D).
  { apply dag_val_ext_a. intros id Hid. apply Hag. apply ids_of_in with (g := D); simpl; auto. }
  rewrite EQ in H. fold dv in H. fold comp in H. fold cons in H.
  apply andb_true_iff in H. destruct H as [H C]. apply andb_true_iff in H. destruct H as [S F].
  apply eqb_prop in C.
  assert (EX : extends D a dv). { intros k id E. apply dag_val_atom; auto. }
  assert (U : forall m, extends D a m -> sat_cnf m comp = true -> forall k, 1 <= k <= length D -> m k = dv k).
  { intros m EM SM k. induction k as [k IH] using lt_wf_ind. intros K.
    rewrite forallb_forall in F.
    assert (Fk : forced D comp dv k = true) by (apply F; apply in_seq; lia).
    assert (AT : forall j, is_atomb D j = true -> m j = dv j).
    { intros j Hj. unfold is_atomb in Hj. destruct (node_at D j) as [[id| |]|] eqn:E; try discriminate.
      rewrite (EM j id E), (EX j id E). reflexivity. }
    unfold forced in Fk. apply orb_true_iff in Fk. destruct Fk as [Fk|Fk]. auto.
    apply existsb_exists in Fk. destruct Fk as [c [Hc Fc]].
    apply (forcing_sound D dv m k c Fc).
    - unfold sat_cnf in SM. rewrite forallb_forall in SM. auto.
    - intros j Hj. apply IH; lia.
    - exact AT. }
  split; [split; auto|]. split; auto. split; auto. split.
  - intros m EM SM. apply U; auto.
    rewrite (sat_cnf_filter m cls is_completion_clause) in SM. apply andb_true_iff in SM. tauto.
  - rewrite (sat_cnf_filter dv cls is_completion_clause). fold comp. fold cons. rewrite S. simpl. exact C.
Qed.
