(* BoolGraph: and-or graphs with signed integer children, as used by
   problog/formula.py (LogicFormula / LogicDAG).

   * a graph is a list of nodes; the node with key k (k >= 1) is the (k-1)-th
     element (ProbLog keys are 1-based);
   * a child is a Z: 0 = TRUE, k > 0 = node k, k < 0 = negation of node |k|;
   * a key (the name table of a formula) is an [option Z]: None = FALSE;
   * atoms carry an identifier (N); an assignment is a function N -> bool.
   Graphs may be cyclic.  Semantics:
     - [lfpf g a s blk]  least fixpoint (Kleene iteration from bottom, |g| rounds) of
       the reduct of g w.r.t. the valuation s (negative children read s, positive
       children read the iterate), nodes k with blk k = true forced false;
     - [is_model g a s]  s is the least fixpoint of its own reduct (stable model;
       for graphs without negative children: the least model; for stratified
       graphs: the unique perfect model, see [stratified_model_unique]);
     - [dag_val a g]     one left-to-right pass for topologically ordered graphs.
   This file is self-contained (Coq stdlib only). *)
From Coq Require Import ZArith NArith List Bool Lia Arith PeanoNat.
Import ListNotations.

(* ------------------------------------------------------------------ syntax *)
Inductive node : Type :=
| NAtom (id : N)
| NAnd (cs : list Z)
| NOr (cs : list Z).

Definition graph := list node.

Definition children (n : node) : list Z :=
  match n with NAtom _ => [] | NAnd cs => cs | NOr cs => cs end.

Definition node_at (g : graph) (k : nat) : option node :=
  match k with O => None | S i => nth_error g i end.

Definition key_of (c : Z) : nat := Z.abs_nat c.

Definition atoms_of (g : graph) : list N :=
  flat_map (fun n => match n with NAtom id => [id] | _ => [] end) g.

(* ------------------------------------------------------------------ valuations *)
(* tabulated valuation: element i is the value of key i+1 *)
Definition vget (l : list bool) (k : nat) : bool :=
  match k with O => false | S i => nth i l false end.

Definition lit_val (v : nat -> bool) (c : Z) : bool :=
  match c with
  | Z0 => true
  | Zpos p => v (Pos.to_nat p)
  | Zneg p => negb (v (Pos.to_nat p))
  end.

(* reduct: negative children read the fixed valuation s *)
Definition rlit_val (s v : nat -> bool) (c : Z) : bool :=
  match c with
  | Z0 => true
  | Zpos p => v (Pos.to_nat p)
  | Zneg p => negb (s (Pos.to_nat p))
  end.

Definition eval_node (a : N -> bool) (lv : Z -> bool) (n : node) : bool :=
  match n with
  | NAtom id => a id
  | NAnd cs => forallb lv cs
  | NOr cs => existsb lv cs
  end.

(* value of a key of the name table *)
Definition key_val (v : nat -> bool) (k : option Z) : bool :=
  match k with None => false | Some c => lit_val v c end.

(* ------------------------------------------------------------------ Kleene iteration (specification, on functions) *)
Definition bot : nat -> bool := fun _ => false.
Definition noblk : nat -> bool := fun _ => false.

Definition fstep (g : graph) (a : N -> bool) (s blk v : nat -> bool) : nat -> bool :=
  fun k => match node_at g k with
           | None => false
           | Some nd => if blk k then false else eval_node a (rlit_val s v) nd
           end.

Fixpoint fiter (g : graph) (a : N -> bool) (s blk : nat -> bool) (n : nat) : nat -> bool :=
  match n with
  | O => bot
  | S m => fstep g a s blk (fiter g a s blk m)
  end.

Definition lfpf (g : graph) (a : N -> bool) (s blk : nat -> bool) : nat -> bool :=
  fiter g a s blk (length g).

(* s is a (stable / least) model of g under the atom assignment a *)
Definition is_model (g : graph) (a : N -> bool) (s : nat -> bool) : Prop :=
  forall k, s k = lfpf g a s noblk k.

(* supported model = fixpoint of the full (non-reduct) one-step operator *)
Definition supported (g : graph) (a : N -> bool) (s : nat -> bool) : Prop :=
  forall k, s k = match node_at g k with
                  | None => false
                  | Some nd => eval_node a (lit_val s) nd
                  end.

(* graphs without negative children *)
Definition positive_graph (g : graph) : Prop :=
  forall nd c, In nd g -> In c (children nd) -> (0 <= c)%Z.

(* negation only across strata: no cycle through a negative child *)
Definition stratified (g : graph) : Prop :=
  exists lvl : nat -> nat,
    forall k nd c, node_at g k = Some nd -> In c (children nd) ->
                   ((0 < c)%Z -> lvl (key_of c) <= lvl k) /\
                   ((c < 0)%Z -> lvl (key_of c) < lvl k).

(* children refer to existing nodes *)
Definition closed_graph (g : graph) : Prop :=
  forall nd c, In nd g -> In c (children nd) -> key_of c <= length g.

(* topological order: children have strictly smaller keys *)
Definition topo (g : graph) : Prop :=
  forall k nd c, node_at g k = Some nd -> In c (children nd) -> key_of c < k.

(* ------------------------------------------------------------------ executable versions (lists) *)
Definition lstep (g : graph) (a : N -> bool) (s blk : nat -> bool) (v : list bool) : list bool :=
  map (fun kn => if blk (fst kn) then false else eval_node a (rlit_val s (vget v)) (snd kn))
      (combine (seq 1 (length g)) g).

Fixpoint list_beq (x y : list bool) : bool :=
  match x, y with
  | [], [] => true
  | b :: x', c :: y' => Bool.eqb b c && list_beq x' y'
  | _, _ => false
  end.

(* iterate until stable, at most fuel rounds *)
Fixpoint kleene (g : graph) (a : N -> bool) (s blk : nat -> bool) (fuel : nat) (v : list bool) : list bool :=
  match fuel with
  | O => v
  | S f => let v' := lstep g a s blk v in
           if list_beq v v' then v else kleene g a s blk f v'
  end.

Definition lfp_list (g : graph) (a : N -> bool) (s blk : nat -> bool) : list bool :=
  kleene g a s blk (length g) (repeat false (length g)).

(* candidate stable model: alternate "take the lfp of the reduct of the current
   guess" until it no longer changes (at most fuel rounds).  For stratified
   graphs |g|+1 rounds reach the perfect model; callers check the result with
   [is_modelb], so nothing depends on that. *)
Fixpoint sem_iter (g : graph) (a : N -> bool) (fuel : nat) (s : list bool) : list bool :=
  match fuel with
  | O => s
  | S f => let s' := lfp_list g a (vget s) noblk in
           if list_beq s s' then s else sem_iter g a f s'
  end.

Definition sem (g : graph) (a : N -> bool) : list bool :=
  sem_iter g a (S (length g)) (repeat false (length g)).

Definition is_modelb (g : graph) (a : N -> bool) (s : list bool) : bool :=
  (length s =? length g) && list_beq s (lfp_list g a (vget s) noblk).

(* one pass for DAGs; a child referring to a node that is not yet evaluated reads false *)
Fixpoint dag_eval (a : N -> bool) (g : list node) (acc : list bool) : list bool :=
  match g with
  | [] => acc
  | nd :: r => dag_eval a r (acc ++ [eval_node a (lit_val (vget acc)) nd])
  end.

Definition dag_val (a : N -> bool) (g : graph) : list bool := dag_eval a g [].

Definition topob (g : graph) : bool :=
  forallb (fun kn => forallb (fun c => key_of c <? fst kn) (children (snd kn)))
          (combine (seq 1 (length g)) g).

Definition closedb (g : graph) : bool :=
  forallb (fun nd => forallb (fun c => key_of c <=? length g) (children nd)) g.

Definition positiveb (g : graph) : bool :=
  forallb (fun nd => forallb (fun c => (0 <=? c)%Z) (children nd)) g.

(* ------------------------------------------------------------------ assignments by enumeration *)
Definition asg_of (t : list N) : N -> bool := fun id => existsb (N.eqb id) t.

Fixpoint sublists (l : list N) : list (list N) :=
  match l with
  | [] => [[]]
  | x :: r => let s := sublists r in map (cons x) s ++ s
  end.

(* ================================================================== basic lemmas *)
Lemma node_at_Some : forall g k nd, node_at g k = Some nd -> 1 <= k <= length g /\ In nd g.
Proof.
  intros g [|i] nd H; simpl in H; [discriminate|].
  split. assert (i < length g) by (apply nth_error_Some; congruence). lia.
  eapply nth_error_In; eauto.
Qed.

Lemma node_at_None : forall g k, node_at g k = None <-> k = 0 \/ length g < k.
Proof.
  intros g [|i]; simpl. tauto.
  rewrite nth_error_None. lia.
Qed.

Lemma In_node_at : forall g nd, In nd g -> exists k, node_at g k = Some nd.
Proof.
  intros g nd H. apply In_nth_error in H. destruct H as [i H]. exists (S i). exact H.
Qed.

Lemma key_of_pos : forall p, key_of (Zpos p) = Pos.to_nat p.
Proof. intros. unfold key_of. simpl. reflexivity. Qed.
Lemma key_of_neg : forall p, key_of (Zneg p) = Pos.to_nat p.
Proof. intros. unfold key_of. simpl. reflexivity. Qed.

Lemma lit_val_ext : forall v w c, v (key_of c) = w (key_of c) -> lit_val v c = lit_val w c.
Proof.
  intros v w [|p|p] H; simpl; auto.
  rewrite key_of_neg in H. now rewrite H.
Qed.

Lemma rlit_val_self : forall s c, rlit_val s s c = lit_val s c.
Proof. intros s [|p|p]; reflexivity. Qed.

Lemma eval_node_ext : forall a lv lv' nd,
    (forall c, In c (children nd) -> lv c = lv' c) -> eval_node a lv nd = eval_node a lv' nd.
Proof.
  intros a lv lv' [id|cs|cs] H; simpl in *; auto.
  - induction cs as [|c cs IH]; simpl; auto. rewrite H by (left; auto). rewrite IH; auto.
    intros; apply H; right; auto.
  - induction cs as [|c cs IH]; simpl; auto. rewrite H by (left; auto). rewrite IH; auto.
    intros; apply H; right; auto.
Qed.

Lemma eval_node_ext_a : forall a a' lv nd,
    (forall id, nd = NAtom id -> a id = a' id) -> eval_node a lv nd = eval_node a' lv nd.
Proof. intros a a' lv [id|cs|cs] H; simpl; auto. Qed.

(* ------------------------------------------------------------------ order and monotonicity *)
Definition vle (v w : nat -> bool) : Prop := forall k, v k = true -> w k = true.

Lemma vle_refl : forall v, vle v v.
Proof. firstorder. Qed.
Lemma vle_trans : forall u v w, vle u v -> vle v w -> vle u w.
Proof. firstorder. Qed.
Lemma bot_vle : forall v, vle bot v.
Proof. intros v k H. discriminate. Qed.

Lemma rlit_val_mono : forall s v w c, vle v w -> rlit_val s v c = true -> rlit_val s w c = true.
Proof. intros s v w [|p|p] H; simpl; auto. Qed.

Lemma eval_node_mono : forall a (lv lv' : Z -> bool) nd,
    (forall c, In c (children nd) -> lv c = true -> lv' c = true) ->
    eval_node a lv nd = true -> eval_node a lv' nd = true.
Proof.
  intros a lv lv' [id|cs|cs] H; simpl in *; auto.
  - rewrite !forallb_forall. intros E c Hc. auto.
  - rewrite !existsb_exists. intros [c [Hc E]]. exists c; auto.
Qed.

Lemma fstep_mono : forall g a s blk blk' v w,
    vle v w -> vle blk' blk -> vle (fstep g a s blk v) (fstep g a s blk' w).
Proof.
  intros g a s blk blk' v w H HB k. unfold fstep.
  destruct (node_at g k) as [nd|]; auto.
  destruct (blk k) eqn:B; [discriminate|].
  destruct (blk' k) eqn:B'. { apply HB in B'. congruence. }
  apply eval_node_mono. intros c _. apply rlit_val_mono; auto.
Qed.

Lemma fiter_chain : forall g a s blk n, vle (fiter g a s blk n) (fiter g a s blk (S n)).
Proof.
  induction n. apply bot_vle.
  simpl. apply fstep_mono; auto. apply vle_refl.
Qed.

Lemma fiter_mono_le : forall g a s blk n m, n <= m -> vle (fiter g a s blk n) (fiter g a s blk m).
Proof.
  induction 1. apply vle_refl. eapply vle_trans; eauto. apply fiter_chain.
Qed.

Lemma fiter_antitone_blk : forall g a s blk blk' n,
    vle blk' blk -> vle (fiter g a s blk n) (fiter g a s blk' n).
Proof.
  induction n; intros H. apply vle_refl. simpl. apply fstep_mono; auto.
Qed.

Lemma fiter_range : forall g a s blk n k, fiter g a s blk n k = true -> 1 <= k <= length g.
Proof.
  intros g a s blk [|n] k; simpl. discriminate.
  unfold fstep. destruct (node_at g k) eqn:E; [|discriminate].
  intros _. apply node_at_Some in E. tauto.
Qed.

Lemma fiter_blocked : forall g a s blk n k, blk k = true -> fiter g a s blk n k = false.
Proof.
  intros g a s blk [|n] k B; simpl; auto. unfold fstep.
  destruct (node_at g k); auto. now rewrite B.
Qed.

(* leastness: the iterates stay below every pre-fixpoint *)
Lemma fiter_least : forall g a s blk w,
    vle (fstep g a s blk w) w -> forall n, vle (fiter g a s blk n) w.
Proof.
  intros g a s blk w H. induction n. apply bot_vle.
  simpl. eapply vle_trans; [|exact H]. apply fstep_mono; auto. apply vle_refl.
Qed.

(* ------------------------------------------------------------------ pigeonhole: |g| rounds reach the fixpoint *)
Definition cnt (v : nat -> bool) (l : list nat) : nat := length (filter v l).

Lemma cnt_le : forall v w l, (forall k, In k l -> v k = true -> w k = true) -> cnt v l <= cnt w l.
Proof.
  unfold cnt. induction l as [|x l IH]; simpl; intros H; auto.
  destruct (v x) eqn:E.
  - rewrite (H x) by auto. simpl. apply le_n_S. apply IH. intros; apply H; auto.
  - destruct (w x); simpl; [apply le_S|]; apply IH; intros; apply H; auto.
Qed.

Lemma cnt_lt : forall v w l x, (forall k, In k l -> v k = true -> w k = true) ->
    In x l -> v x = false -> w x = true -> cnt v l < cnt w l.
Proof.
  unfold cnt. induction l as [|y l IH]; simpl; intros x H Hin Hv Hw. tauto.
  destruct Hin as [->|Hin].
  - rewrite Hv, Hw. simpl. apply Nat.lt_succ_r. apply cnt_le. intros; apply H; auto.
  - assert (L : length (filter v l) < length (filter w l)) by (eapply IH; eauto).
    destruct (v y) eqn:E.
    + rewrite (H y) by auto. simpl. lia.
    + destruct (w y); simpl; lia.
Qed.

Lemma filter_len_le : forall (v : nat -> bool) l, length (filter v l) <= length l.
Proof. induction l; simpl; auto. destruct (v a); simpl; lia. Qed.

Lemma cnt_bound : forall v l, cnt v l <= length l.
Proof. unfold cnt. intros. apply filter_len_le. Qed.

Lemma cnt_full : forall v l, cnt v l >= length l -> forall k, In k l -> v k = true.
Proof.
  unfold cnt. induction l as [|x l IH]; simpl; intros H k Hin. tauto.
  destruct (v x) eqn:E; simpl in H.
  - destruct Hin as [->|Hin]; auto. apply IH; auto. lia.
  - pose proof (filter_len_le v l). lia.
Qed.

Definition stable_at (g : graph) a s blk n : Prop :=
  forall k, fiter g a s blk (S n) k = fiter g a s blk n k.

Lemma stable_dec : forall g a s blk n,
    stable_at g a s blk n \/
    exists k, In k (seq 1 (length g)) /\ fiter g a s blk n k = false /\ fiter g a s blk (S n) k = true.
Proof.
  intros g a s blk n.
  destruct (forallb (fun k => Bool.eqb (fiter g a s blk (S n) k) (fiter g a s blk n k)) (seq 1 (length g))) eqn:E.
  - left. intros k. rewrite forallb_forall in E.
    destruct (fiter g a s blk (S n) k) eqn:E1.
    + assert (R := fiter_range _ _ _ _ _ _ E1).
      assert (In k (seq 1 (length g))) by (apply in_seq; lia).
      apply E in H. rewrite E1 in H. apply eqb_prop in H. auto.
    + destruct (fiter g a s blk n k) eqn:E2; auto.
      apply fiter_chain in E2. congruence.
  - right. assert (E' : ~ (forall k, In k (seq 1 (length g)) ->
             Bool.eqb (fiter g a s blk (S n) k) (fiter g a s blk n k) = true)).
    { rewrite <- forallb_forall. congruence. }
    clear E. induction (seq 1 (length g)) as [|x l IH].
    + exfalso. apply E'. intros k [].
    + destruct (Bool.eqb (fiter g a s blk (S n) x) (fiter g a s blk n x)) eqn:Ex.
      * destruct IH as [k [Hk1 Hk2]].
        { intros H. apply E'. intros k [->|Hk]; auto. }
        exists k. split; auto. right; auto.
      * exists x. split. left; auto.
        destruct (fiter g a s blk n x) eqn:E2.
        { apply fiter_chain in E2. rewrite E2 in Ex. discriminate. }
        destruct (fiter g a s blk (S n) x); auto; try discriminate.
Qed.

Lemma fstep_ext : forall g a s blk v w, (forall k, v k = w k) -> forall k, fstep g a s blk v k = fstep g a s blk w k.
Proof.
  intros g a s blk v w H k. unfold fstep. destruct (node_at g k); auto. destruct (blk k); auto.
  apply eval_node_ext. intros c _. destruct c; simpl; auto.
Qed.

Lemma stable_step : forall g a s blk n, stable_at g a s blk n -> stable_at g a s blk (S n).
Proof.
  intros g a s blk n H k. simpl. apply fstep_ext. intro j. apply H.
Qed.

Lemma progress : forall g a s blk n,
    stable_at g a s blk n \/ cnt (fiter g a s blk n) (seq 1 (length g)) >= n.
Proof.
  induction n. right; lia.
  destruct IHn as [H|H]. left; apply stable_step; auto.
  destruct (stable_dec g a s blk n) as [S|[k [Hk [E1 E2]]]].
  - left; apply stable_step; auto.
  - right. assert (cnt (fiter g a s blk n) (seq 1 (length g)) < cnt (fiter g a s blk (S n)) (seq 1 (length g))).
    { eapply cnt_lt; eauto. intros; apply fiter_chain; auto. }
    lia.
Qed.

(* fuel = number of nodes suffices: the |g|-th iterate is a fixpoint *)
Theorem kleene_reaches_lfp : forall g a s blk k,
    fstep g a s blk (lfpf g a s blk) k = lfpf g a s blk k.
Proof.
  intros g a s blk. unfold lfpf.
  destruct (progress g a s blk (length g)) as [H|H]. exact H.
  intros k.
  assert (F : forall j, In j (seq 1 (length g)) -> fiter g a s blk (length g) j = true).
  { apply cnt_full. rewrite seq_length. exact H. }
  destruct (fstep g a s blk (fiter g a s blk (length g)) k) eqn:E.
  - symmetry. apply F. apply in_seq.
    assert (R := fiter_range g a s blk (S (length g)) k E). lia.
  - destruct (fiter g a s blk (length g) k) eqn:E2; auto.
    apply fiter_chain in E2. simpl in E2. congruence.
Qed.

Lemma stable_from : forall g a s blk m, length g <= m -> stable_at g a s blk m.
Proof.
  intros g a s blk m H. induction H. intro j; apply kleene_reaches_lfp. apply stable_step; auto.
Qed.

Lemma lfpf_stable_more : forall g a s blk n k, length g <= n -> fiter g a s blk n k = lfpf g a s blk k.
Proof.
  intros g a s blk n k H. induction H. reflexivity.
  rewrite <- IHle. apply stable_from; auto.
Qed.

Theorem lfp_least : forall g a s blk w,
    vle (fstep g a s blk w) w -> vle (lfpf g a s blk) w.
Proof. intros. apply fiter_least; auto. Qed.

Lemma lfpf_range : forall g a s blk k, lfpf g a s blk k = true -> 1 <= k <= length g.
Proof. intros. eapply fiter_range; eauto. Qed.

Lemma lfpf_unfold : forall g a s blk k,
    lfpf g a s blk k = match node_at g k with
                       | None => false
                       | Some nd => if blk k then false else eval_node a (rlit_val s (lfpf g a s blk)) nd
                       end.
Proof. intros. rewrite <- kleene_reaches_lfp. reflexivity. Qed.

Lemma lfpf_antitone_blk : forall g a s blk blk', vle blk' blk -> vle (lfpf g a s blk) (lfpf g a s blk').
Proof. intros. apply fiter_antitone_blk; auto. Qed.

(* a model is a fixpoint of the full operator *)
Theorem model_supported : forall g a s, is_model g a s -> supported g a s.
Proof.
  intros g a s M k. rewrite (M k). rewrite lfpf_unfold.
  destruct (node_at g k) as [nd|]; auto. unfold noblk.
  apply eval_node_ext. intros c _.
  destruct c as [|p|p]; simpl; auto.
Qed.

(* for graphs without negative children the model is the Kleene least fixpoint, whatever s *)
Lemma rlit_val_positive : forall s s' v c, (0 <= c)%Z -> rlit_val s v c = rlit_val s' v c.
Proof. intros s s' v [|p|p] H; simpl; auto. lia. Qed.

Lemma fiter_positive : forall g a s s' blk n k, positive_graph g ->
    fiter g a s blk n k = fiter g a s' blk n k.
Proof.
  intros g a s s' blk n k P. revert k. induction n; intros k; simpl; auto.
  unfold fstep. destruct (node_at g k) as [nd|] eqn:E; auto. destruct (blk k); auto.
  apply node_at_Some in E. destruct E as [_ E].
  transitivity (eval_node a (rlit_val s' (fiter g a s blk n)) nd).
  - apply eval_node_ext. intros c Hc. apply rlit_val_positive. eapply P; eauto.
  - apply eval_node_ext. intros c Hc. destruct c; simpl; auto.
Qed.

Theorem positive_model_unique : forall g a s, positive_graph g ->
    (is_model g a s <-> forall k, s k = lfpf g a bot noblk k).
Proof.
  intros g a s P. unfold is_model, lfpf. split; intros H k; rewrite (H k); apply fiter_positive; auto.
Qed.

Theorem positive_model_exists : forall g a, positive_graph g -> is_model g a (lfpf g a bot noblk).
Proof. intros g a P. apply positive_model_unique; auto. Qed.

(* ------------------------------------------------------------------ stratified graphs: at most one model *)
Lemma rlit_le_full : forall s1 s2 (v : nat -> bool) L (lvl : nat -> nat) c lk,
    ((0 < c)%Z -> lvl (key_of c) <= lk) -> ((c < 0)%Z -> lvl (key_of c) < lk) -> lk <= L ->
    (forall j, lvl j <= L -> v j = true -> s2 j = true) ->
    (forall j, lvl j < L -> s1 j = s2 j) ->
    rlit_val s1 v c = true -> lit_val s2 c = true.
Proof.
  intros s1 s2 v L lvl [|p|p] lk Hp Hn HL Hv Hs; simpl; auto.
  - rewrite key_of_pos in Hp. intros E. apply Hv; auto. assert (lvl (Pos.to_nat p) <= lk) by (apply Hp; lia). lia.
  - rewrite key_of_neg in Hn. assert (lvl (Pos.to_nat p) < lk) by (apply Hn; lia).
    rewrite Hs by lia. auto.
Qed.

Lemma strat_le : forall g a s1 s2 (lvl : nat -> nat),
    (forall k nd c, node_at g k = Some nd -> In c (children nd) ->
                    ((0 < c)%Z -> lvl (key_of c) <= lvl k) /\ ((c < 0)%Z -> lvl (key_of c) < lvl k)) ->
    is_model g a s1 -> supported g a s2 ->
    forall L, (forall j, lvl j < L -> s1 j = s2 j) ->
              forall j, lvl j <= L -> s1 j = true -> s2 j = true.
Proof.
  intros g a s1 s2 lvl ST M1 S2 L Hlow.
  assert (I : forall n j, lvl j <= L -> fiter g a s1 noblk n j = true -> s2 j = true).
  { induction n; intros j Hj; simpl. discriminate.
    unfold fstep. destruct (node_at g j) as [nd|] eqn:E; [|discriminate]. unfold noblk.
    intros Ev. rewrite (S2 j), E.
    revert Ev. apply eval_node_mono. intros c Hc.
    destruct (ST j nd c E Hc) as [Hp Hn].
    eapply rlit_le_full with (lvl := lvl) (L := L); eauto. }
  intros j Hj E. rewrite (M1 j) in E. eapply I; eauto.
Qed.

Theorem stratified_model_unique : forall g a s1 s2,
    stratified g -> is_model g a s1 -> is_model g a s2 -> forall k, s1 k = s2 k.
Proof.
  intros g a s1 s2 [lvl ST] M1 M2.
  assert (forall L j, lvl j < L -> s1 j = s2 j).
  { induction L; intros j Hj. lia.
    assert (Hlow : forall i, lvl i < L -> s1 i = s2 i) by auto.
    assert (Hlow' : forall i, lvl i < L -> s2 i = s1 i) by (intros; symmetry; auto).
    assert (A := strat_le g a s1 s2 lvl ST M1 (model_supported g a s2 M2) L Hlow).
    assert (B := strat_le g a s2 s1 lvl ST M2 (model_supported g a s1 M1) L Hlow').
    assert (Hj' : lvl j <= L) by lia.
    destruct (s1 j) eqn:E1; destruct (s2 j) eqn:E2; auto.
    - apply A in E1; auto. congruence.
    - apply B in E2; auto. congruence. }
  intros k. apply (H (S (lvl k))). lia.
Qed.

(* ------------------------------------------------------------------ list version = function version *)
Lemma list_beq_eq : forall x y, list_beq x y = true <-> x = y.
Proof.
  induction x as [|b x IH]; destruct y as [|c y]; simpl; split; intros H; try discriminate; auto.
  - apply andb_true_iff in H. destruct H as [H1 H2]. apply eqb_prop in H1. apply IH in H2. congruence.
  - inversion H; subst. rewrite eqb_reflx. simpl. apply IH. auto.
Qed.

Lemma vget_repeat_false : forall n k, vget (repeat false n) k = false.
Proof.
  intros n [|i]; simpl; auto. revert i. induction n; intros [|i]; simpl; auto.
Qed.

Lemma nth_map_combine_seq : forall (A : Type) (f : nat * A -> bool) (g : list A) (st i : nat),
    nth i (map f (combine (seq st (length g)) g)) false =
    match nth_error g i with Some x => f (st + i, x) | None => false end.
Proof.
  intros A f g. induction g as [|x g IH]; intros st i; simpl.
  - destruct i; auto.
  - destruct i; simpl. now rewrite Nat.add_0_r.
    rewrite IH. replace (S st + i) with (st + S i) by lia. reflexivity.
Qed.

Lemma vget_lstep : forall g a s blk v k,
    vget (lstep g a s blk v) k = fstep g a s blk (vget v) k.
Proof.
  intros g a s blk v [|i]; simpl; auto.
  unfold lstep. rewrite nth_map_combine_seq. unfold fstep. simpl.
  destruct (nth_error g i); auto.
Qed.

Lemma lstep_length : forall g a s blk v, length (lstep g a s blk v) = length g.
Proof.
  intros. unfold lstep. rewrite map_length, combine_length, seq_length. lia.
Qed.

Lemma vget_ext_eq : forall x y, length x = length y -> (forall k, vget x k = vget y k) -> x = y.
Proof.
  induction x as [|b x IH]; destruct y as [|c y]; simpl; intros L H; try discriminate; auto.
  f_equal. apply (H 1). apply IH. lia. intros [|i]; auto. apply (H (S (S i))).
Qed.

Lemma kleene_spec : forall g a s blk fuel v n,
    length v = length g ->
    (forall k, vget v k = fiter g a s blk n k) ->
    (forall k, vget (kleene g a s blk fuel v) k = fiter g a s blk (n + fuel) k) /\
    length (kleene g a s blk fuel v) = length g.
Proof.
  induction fuel; intros v n L H; simpl.
  - rewrite Nat.add_0_r. auto.
  - assert (H' : forall k, vget (lstep g a s blk v) k = fiter g a s blk (S n) k).
    { intros k. rewrite vget_lstep. simpl. apply fstep_ext. auto. }
    destruct (list_beq v (lstep g a s blk v)) eqn:E.
    + apply list_beq_eq in E. split; auto.
      assert (St : stable_at g a s blk n).
      { intros k. rewrite <- H'. rewrite <- E. auto. }
      assert (forall m k, fiter g a s blk (n + m) k = fiter g a s blk n k).
      { induction m; intros k. now rewrite Nat.add_0_r.
        replace (n + S m) with (S (n + m)) by lia.
        assert (stable_at g a s blk (n + m)).
        { clear IHm k. induction m. now rewrite Nat.add_0_r.
          replace (n + S m) with (S (n + m)) by lia. apply stable_step; auto. }
        rewrite H0. auto. }
      intros k. rewrite H0. auto.
    + replace (n + S fuel) with (S n + fuel) by lia.
      apply IHfuel; auto. apply lstep_length.
Qed.

Theorem lfp_list_spec : forall g a s blk k, vget (lfp_list g a s blk) k = lfpf g a s blk k.
Proof.
  intros. unfold lfp_list, lfpf.
  destruct (kleene_spec g a s blk (length g) (repeat false (length g)) 0) as [H _].
  - apply repeat_length.
  - intros j. apply vget_repeat_false.
  - apply H.
Qed.

Lemma lfp_list_length : forall g a s blk, length (lfp_list g a s blk) = length g.
Proof.
  intros. unfold lfp_list.
  destruct (kleene_spec g a s blk (length g) (repeat false (length g)) 0) as [_ H]; auto.
  apply repeat_length. intros j. apply vget_repeat_false.
Qed.

Theorem is_modelb_sound : forall g a s, is_modelb g a s = true -> is_model g a (vget s).
Proof.
  intros g a s H. unfold is_modelb in H. apply andb_true_iff in H. destruct H as [_ H].
  apply list_beq_eq in H. intros k. rewrite H at 1. apply lfp_list_spec.
Qed.

(* ------------------------------------------------------------------ DAGs *)
Lemma dag_eval_app : forall a g1 g2 acc, dag_eval a (g1 ++ g2) acc = dag_eval a g2 (dag_eval a g1 acc).
Proof. induction g1; simpl; intros; auto. Qed.

Lemma dag_eval_length : forall a g acc, length (dag_eval a g acc) = length acc + length g.
Proof.
  induction g; simpl; intros. lia. rewrite IHg. rewrite app_length. simpl. lia.
Qed.

Lemma dag_val_length : forall a g, length (dag_val a g) = length g.
Proof. intros. unfold dag_val. rewrite dag_eval_length. reflexivity. Qed.

Lemma dag_eval_prefix : forall a g acc, exists t, dag_eval a g acc = acc ++ t.
Proof.
  induction g; simpl; intros. exists []. now rewrite app_nil_r.
  destruct (IHg (acc ++ [eval_node a (lit_val (vget acc)) a0])) as [t H].
  rewrite H. rewrite <- app_assoc. eexists; eauto.
Qed.

Lemma vget_app_l : forall x y k, k <= length x -> vget (x ++ y) k = vget x k.
Proof.
  intros x y [|i] H; simpl; auto. apply app_nth1. lia.
Qed.

(* values are stable under extension of the graph (no topo hypothesis needed) *)
Theorem dag_val_app : forall a g1 g2 k, k <= length g1 -> vget (dag_val a (g1 ++ g2)) k = vget (dag_val a g1) k.
Proof.
  intros a g1 g2 k H. unfold dag_val. rewrite dag_eval_app.
  destruct (dag_eval_prefix a g2 (dag_eval a g1 [])) as [t E]. rewrite E.
  apply vget_app_l. rewrite dag_eval_length. simpl. exact H.
Qed.

Lemma dag_val_snoc : forall a g nd,
    vget (dag_val a (g ++ [nd])) (S (length g)) = eval_node a (lit_val (vget (dag_val a g))) nd.
Proof.
  intros. unfold dag_val. rewrite dag_eval_app. simpl.
  rewrite app_nth2; rewrite dag_eval_length; simpl; try lia.
  now rewrite Nat.sub_diag.
Qed.

Lemma vget_out : forall l k, length l < k -> vget l k = false.
Proof. intros l [|i] H; simpl; auto. apply nth_overflow. lia. Qed.

Lemma node_at_split : forall g k nd, node_at g k = Some nd ->
    exists g1 g2, g = g1 ++ nd :: g2 /\ length g1 = k - 1.
Proof.
  intros g [|i] nd H; simpl in H. discriminate.
  apply nth_error_split in H. destruct H as [g1 [g2 [E L]]]. exists g1, g2. split; auto. lia.
Qed.

(* on a topologically ordered graph the one-pass valuation is a fixpoint of the full operator *)
Theorem dag_val_supported : forall g a, topo g -> supported g a (vget (dag_val a g)).
Proof.
  intros g a T k. destruct (node_at g k) as [nd|] eqn:E.
  - destruct (node_at_split _ _ _ E) as [g1 [g2 [Eg L]]].
    assert (K := node_at_Some _ _ _ E). destruct K as [K _].
    assert (Ek : k = S (length g1)) by lia.
    rewrite Eg at 1. replace (g1 ++ nd :: g2) with ((g1 ++ [nd]) ++ g2) by (rewrite <- app_assoc; auto).
    rewrite dag_val_app by (rewrite app_length; simpl; lia).
    rewrite Ek. rewrite dag_val_snoc.
    apply eval_node_ext. intros c Hc. apply lit_val_ext.
    assert (key_of c < k) by (eapply T; eauto).
    symmetry. rewrite Eg. apply dag_val_app. lia.
  - apply node_at_None in E. destruct E as [->|E]. reflexivity.
    apply vget_out. now rewrite dag_val_length.
Qed.

Theorem dag_supported_unique : forall g a s1 s2, topo g ->
    supported g a s1 -> supported g a s2 -> forall k, s1 k = s2 k.
Proof.
  intros g a s1 s2 T S1 S2 k. induction k as [k IH] using lt_wf_ind.
  rewrite (S1 k), (S2 k). destruct (node_at g k) as [nd|] eqn:E; auto.
  apply eval_node_ext. intros c Hc. apply lit_val_ext. apply IH. eapply T; eauto.
Qed.

(* on DAGs: dag_val is the (unique) model *)
Theorem dag_val_is_model : forall g a, topo g -> is_model g a (vget (dag_val a g)).
Proof.
  intros g a T. set (s := vget (dag_val a g)).
  assert (S := dag_val_supported g a T). fold s in S.
  intros k. induction k as [k IH] using lt_wf_ind.
  rewrite (S k). rewrite lfpf_unfold. destruct (node_at g k) as [nd|] eqn:E; auto.
  unfold noblk. apply eval_node_ext. intros c Hc.
  assert (key_of c < k) by (eapply T; eauto).
  destruct c as [|p|p]; simpl.
  - reflexivity.
  - apply IH. exact H.
  - reflexivity.
Qed.

Theorem dag_val_eq_lfp_val : forall g a s, topo g -> is_model g a s -> forall k, s k = vget (dag_val a g) k.
Proof.
  intros g a s T M k. apply (dag_supported_unique g a s (vget (dag_val a g)) T).
  apply model_supported; auto. apply dag_val_supported; auto.
Qed.

Lemma topo_stratified : forall g, topo g -> stratified g.
Proof.
  intros g T. exists (fun k => k). intros k nd c E Hc. assert (key_of c < k) by (eapply T; eauto). lia.
Qed.

Lemma topob_sound : forall g, topob g = true -> topo g.
Proof.
  intros g H k nd c E Hc. unfold topob in H. rewrite forallb_forall in H.
  destruct k as [|i]; simpl in E. discriminate.
  assert (G : forall st, In (st + i, nd) (combine (seq st (length g)) g)).
  { clear H. revert i E. induction g as [|x g IH]; intros i E st. destruct i; discriminate.
    destruct i; simpl in *. inversion E; subst. left. f_equal. lia.
    right. specialize (IH i E (S st)).
    replace (S st + i) with (st + S i) in IH by lia. exact IH. }
  assert (H0 := G 1). simpl in H0.
  apply H in H0. simpl in H0. rewrite forallb_forall in H0. apply H0 in Hc.
  apply Nat.ltb_lt in Hc. exact Hc.
Qed.

Lemma closedb_sound : forall g, closedb g = true -> closed_graph g.
Proof.
  intros g H nd c Hn Hc. unfold closedb in H. rewrite forallb_forall in H.
  apply H in Hn. rewrite forallb_forall in Hn. apply Hn in Hc. apply Nat.leb_le in Hc. exact Hc.
Qed.

Lemma positiveb_sound : forall g, positiveb g = true -> positive_graph g.
Proof.
  intros g H nd c Hn Hc. unfold positiveb in H. rewrite forallb_forall in H.
  apply H in Hn. rewrite forallb_forall in Hn. apply Hn in Hc. apply Z.leb_le in Hc. exact Hc.
Qed.

(* ------------------------------------------------------------------ dependence on the assignment *)
Lemma atoms_of_in : forall g id, In (NAtom id) g -> In id (atoms_of g).
Proof.
  intros g id H. unfold atoms_of. apply in_flat_map. exists (NAtom id). split; auto. left; auto.
Qed.

Lemma fiter_ext_a : forall g a a' s blk n k,
    (forall id, In id (atoms_of g) -> a id = a' id) -> fiter g a s blk n k = fiter g a' s blk n k.
Proof.
  intros g a a' s blk n k H. revert k. induction n; intros k; simpl; auto.
  unfold fstep. destruct (node_at g k) as [nd|] eqn:E; auto. destruct (blk k); auto.
  transitivity (eval_node a' (rlit_val s (fiter g a s blk n)) nd).
  - apply eval_node_ext_a. intros id ->. apply H. apply atoms_of_in. apply node_at_Some in E. tauto.
  - apply eval_node_ext. intros c _. destruct c; simpl; auto.
Qed.

Lemma is_model_ext_a : forall g a a' s,
    (forall id, In id (atoms_of g) -> a id = a' id) -> is_model g a s -> is_model g a' s.
Proof.
  intros g a a' s H M k. rewrite (M k). unfold lfpf. apply fiter_ext_a; auto.
Qed.

Lemma dag_eval_ext_a : forall a a' g acc,
    (forall id, In id (atoms_of g) -> a id = a' id) -> dag_eval a g acc = dag_eval a' g acc.
Proof.
  induction g as [|nd g IH]; simpl; intros acc H; auto.
  rewrite IH. f_equal. f_equal. f_equal. apply eval_node_ext_a. intros id ->. apply H.
  simpl. left; auto.
  intros id Hid. apply H. unfold atoms_of in *. simpl. apply in_or_app. right; auto.
Qed.

Lemma dag_val_ext_a : forall a a' g,
    (forall id, In id (atoms_of g) -> a id = a' id) -> dag_val a g = dag_val a' g.
Proof. intros. unfold dag_val. apply dag_eval_ext_a; auto. Qed.

(* every assignment coincides, on the listed identifiers, with one of the enumerated ones *)
Lemma sublists_cover : forall (a : N -> bool) ids,
    exists t, In t (sublists ids) /\ forall id, In id ids -> asg_of t id = a id.
Proof.
  intros a. induction ids as [|x r IH].
  - exists []. split. left; auto. intros id [].
  - destruct IH as [t [Ht H]]. destruct (a x) eqn:E.
    + exists (x :: t). split. simpl. apply in_or_app. left. apply in_map. auto.
      intros id [<-|Hid]. unfold asg_of. simpl. now rewrite N.eqb_refl.
      unfold asg_of in *. simpl. rewrite H by auto.
      destruct (N.eqb id x) eqn:E'; auto. apply N.eqb_eq in E'. subst. auto.
    + destruct (existsb (N.eqb x) t) eqn:Ex.
      * (* x already set true by t through a duplicate: use IH value *)
        assert (In x r).
        { apply existsb_exists in Ex. destruct Ex as [y [Hy Ey]]. apply N.eqb_eq in Ey. subst y.
          clear - Ht Hy. revert t Ht Hy. induction r as [|z r IH]; simpl; intros t Ht Hy.
          destruct Ht as [<-|[]]. destruct Hy.
          apply in_app_or in Ht. destruct Ht as [Ht|Ht].
          apply in_map_iff in Ht. destruct Ht as [t' [<- Ht']]. destruct Hy as [->|Hy]; auto.
          right. eapply IH; eauto. right. eapply IH; eauto. }
        specialize (H x H0). unfold asg_of in H. congruence.
      * exists t. split. simpl. apply in_or_app. right; auto.
        intros id [<-|Hid]; auto. unfold asg_of. congruence.
Qed.
