(* "Value avoiding a set of ancestors": the least fixpoint of the graph in which
   the nodes of a list A are forced false, and the unfolding lemma that makes
   loop-free proofs (cycle breaking) correct for positive cycles with negation
   only across strata.  Depends on BoolGraph only. *)
From Coq Require Import ZArith NArith List Bool Lia Arith.
From PL.C09 Require Import BoolGraph.
Import ListNotations.

Definition blkset (A : list nat) : nat -> bool := fun k => existsb (Nat.eqb k) A.

(* value of node k in the reduct of g w.r.t. s when the nodes of A are false *)
Definition val_avoiding (g : graph) (a : N -> bool) (s : nat -> bool) (A : list nat) (k : nat) : bool :=
  lfpf g a s (blkset A) k.

Lemma blkset_In : forall A k, blkset A k = true <-> In k A.
Proof.
  intros A k. unfold blkset. rewrite existsb_exists. split.
  - intros [x [Hx E]]. apply Nat.eqb_eq in E. subst. auto.
  - intros H. exists k. split; auto. apply Nat.eqb_refl.
Qed.

Lemma blkset_cons : forall A k j, blkset (k :: A) j = (j =? k) || blkset A j.
Proof. reflexivity. Qed.

Lemma val_avoiding_antitone : forall g a s A B,
    (forall x, In x A -> In x B) -> vle (val_avoiding g a s B) (val_avoiding g a s A).
Proof.
  intros g a s A B H. unfold val_avoiding. apply lfpf_antitone_blk.
  intros k E. apply blkset_In. apply H. apply blkset_In. exact E.
Qed.

Lemma val_avoiding_ext : forall g a s A B k,
    (forall x, In x A <-> In x B) -> val_avoiding g a s A k = val_avoiding g a s B k.
Proof.
  intros g a s A B k H.
  assert (L : vle (val_avoiding g a s A) (val_avoiding g a s B)) by (apply val_avoiding_antitone; intros; apply H; auto).
  assert (R : vle (val_avoiding g a s B) (val_avoiding g a s A)) by (apply val_avoiding_antitone; intros; apply H; auto).
  destruct (val_avoiding g a s A k) eqn:E1; destruct (val_avoiding g a s B k) eqn:E2; auto.
  - apply L in E1. congruence.
  - apply R in E2. congruence.
Qed.

Lemma val_avoiding_blocked : forall g a s A k, In k A -> val_avoiding g a s A k = false.
Proof. intros. unfold val_avoiding, lfpf. apply fiter_blocked. apply blkset_In. auto. Qed.

Lemma val_avoiding_fix : forall g a s A k,
    val_avoiding g a s A k = match node_at g k with
                             | None => false
                             | Some nd => if blkset A k then false else eval_node a (rlit_val s (val_avoiding g a s A)) nd
                             end.
Proof. intros. unfold val_avoiding. apply lfpf_unfold. Qed.

(* THE unfolding lemma: the value of k avoiding A is the node's operator applied to the
   values of the children avoiding k :: A *)
Theorem val_avoiding_unfold : forall g a s A k nd,
    node_at g k = Some nd -> ~ In k A ->
    val_avoiding g a s A k = eval_node a (rlit_val s (val_avoiding g a s (k :: A))) nd.
Proof.
  intros g a s A k nd E NI.
  assert (B : blkset A k = false).
  { destruct (blkset A k) eqn:B; auto. apply blkset_In in B. contradiction. }
  destruct (eval_node a (rlit_val s (val_avoiding g a s (k :: A))) nd) eqn:V.
  - (* >= : the children avoiding more are below the children avoiding less *)
    rewrite val_avoiding_fix, E, B.
    revert V. apply eval_node_mono. intros c _. apply rlit_val_mono.
    apply val_avoiding_antitone. intros x Hx. right. exact Hx.
  - (* <= : val_avoiding (k :: A) is a pre-fixpoint of the operator that only blocks A *)
    set (w := val_avoiding g a s (k :: A)) in *.
    assert (P : vle (fstep g a s (blkset A) w) w).
    { intros j Hj. destruct (Nat.eq_dec j k) as [->|Nk].
      - unfold fstep in Hj. rewrite E, B in Hj. congruence.
      - unfold w. rewrite val_avoiding_fix. unfold fstep in Hj.
        destruct (node_at g j) as [ndj|]; auto.
        rewrite blkset_cons. apply Nat.eqb_neq in Nk. rewrite Nk. simpl. exact Hj. }
    assert (L := lfp_least g a s (blkset A) w P).
    destruct (val_avoiding g a s A k) eqn:E2; auto.
    apply L in E2. unfold w in E2. rewrite val_avoiding_blocked in E2 by (left; auto). discriminate.
Qed.

(* nodes of higher strata do not influence lower ones *)
Lemma val_avoiding_level : forall g a s (lvl : nat -> nat) A L,
    (forall k nd c, node_at g k = Some nd -> In c (children nd) ->
                    ((0 < c)%Z -> lvl (key_of c) <= lvl k) /\ ((c < 0)%Z -> lvl (key_of c) < lvl k)) ->
    (forall x, In x A -> L < lvl x) ->
    forall k, lvl k <= L -> val_avoiding g a s A k = val_avoiding g a s [] k.
Proof.
  intros g a s lvl A L ST HA. unfold val_avoiding, lfpf. generalize (length g) as n.
  induction n; intros k Hk; simpl; auto.
  unfold fstep. destruct (node_at g k) as [nd|] eqn:E; auto.
  assert (B : blkset A k = false).
  { destruct (blkset A k) eqn:B; auto. apply blkset_In in B. apply HA in B. lia. }
  rewrite B. simpl. apply eval_node_ext. intros c Hc.
  destruct (ST k nd c E Hc) as [Hp Hn].
  destruct c as [|p|p]; simpl; auto.
  apply IHn. rewrite key_of_pos in Hp. assert (lvl (Pos.to_nat p) <= lvl k) by (apply Hp; lia). lia.
Qed.

Lemma val_avoiding_nil_model : forall g a s k, is_model g a s -> val_avoiding g a s [] k = s k.
Proof. intros g a s k M. rewrite (M k). reflexivity. Qed.

(* executable top-down evaluation that never revisits an ancestor (the shape of
   _break_cycles without its memo), with fuel *)
Fixpoint va_node (g : graph) (a : N -> bool) (fuel : nat) (A : list nat) (k : nat) : bool :=
  match fuel with
  | O => false
  | S f =>
    if blkset A k then false else
      match node_at g k with
      | None => false
      | Some nd => eval_node a (fun c => match c with
                                         | Z0 => true
                                         | Zpos p => va_node g a f (k :: A) (Pos.to_nat p)
                                         | Zneg p => negb (va_node g a f (k :: A) (Pos.to_nat p))
                                         end) nd
      end
  end.

Definition free_count (g : graph) (A : list nat) : nat :=
  length (filter (fun j => negb (blkset A j)) (seq 1 (length g))).

Lemma filter_orb_le : forall (A : list nat) k l,
    length (filter (fun j => negb ((j =? k) || blkset A j)) l) <= length (filter (fun j => negb (blkset A j)) l).
Proof.
  intros A k. induction l as [|y l IH]; simpl; auto.
  destruct (y =? k); simpl; destruct (blkset A y); simpl; lia.
Qed.

Lemma filter_orb_lt : forall (A : list nat) k l, In k l -> blkset A k = false ->
    S (length (filter (fun j => negb ((j =? k) || blkset A j)) l)) <= length (filter (fun j => negb (blkset A j)) l).
Proof.
  intros A k. induction l as [|x l IH]; intros Hin B; simpl. destruct Hin.
  destruct Hin as [->|Hin].
  - rewrite Nat.eqb_refl, B. simpl. apply le_n_S. apply filter_orb_le.
  - specialize (IH Hin B). destruct (x =? k); simpl; destruct (blkset A x); simpl; lia.
Qed.

Lemma free_count_cons : forall g A k, 1 <= k <= length g -> ~ In k A ->
    S (free_count g (k :: A)) <= free_count g A.
Proof.
  intros g A k K NI. unfold free_count.
  assert (B : blkset A k = false).
  { destruct (blkset A k) eqn:B; auto. apply blkset_In in B. contradiction. }
  apply (filter_orb_lt A k (seq 1 (length g))); auto. apply in_seq; lia.
Qed.

(* With negation only across strata, the ancestor-avoiding evaluation computes
   val_avoiding; with A = [] that is the model. *)
Theorem va_node_correct : forall g a s (lvl : nat -> nat),
    is_model g a s ->
    (forall k nd c, node_at g k = Some nd -> In c (children nd) ->
                    ((0 < c)%Z -> lvl (key_of c) <= lvl k) /\ ((c < 0)%Z -> lvl (key_of c) < lvl k)) ->
    forall fuel A k, free_count g A < fuel -> (forall x, In x A -> lvl k <= lvl x) ->
                     va_node g a fuel A k = val_avoiding g a s A k.
Proof.
  intros g a s lvl M ST. induction fuel as [|f IH]; intros A k F HA. lia.
  simpl. destruct (blkset A k) eqn:B.
  { symmetry. apply val_avoiding_blocked. apply blkset_In; auto. }
  destruct (node_at g k) as [nd|] eqn:E; [|rewrite val_avoiding_fix, E; reflexivity].
  - assert (NI : ~ In k A). { intros H. apply blkset_In in H. congruence. }
    assert (K := node_at_Some _ _ _ E). destruct K as [K _].
    assert (F' : free_count g (k :: A) < f). { assert (X := free_count_cons g A k K NI). lia. }
    rewrite (val_avoiding_unfold g a s A k nd E NI).
    apply eval_node_ext. intros c Hc. destruct (ST k nd c E Hc) as [Hp Hn].
    destruct c as [|p|p]; simpl; auto.
    + apply IH; auto. intros x [<-|Hx]. rewrite key_of_pos in Hp. apply Hp; lia.
      rewrite key_of_pos in Hp. assert (lvl (Pos.to_nat p) <= lvl k) by (apply Hp; lia).
      specialize (HA x Hx). lia.
    + f_equal. rewrite key_of_neg in Hn. assert (LT : lvl (Pos.to_nat p) < lvl k) by (apply Hn; lia).
      rewrite IH; auto.
      * rewrite (val_avoiding_level g a s lvl (k :: A) (lvl (Pos.to_nat p)) ST); auto.
        apply val_avoiding_nil_model; auto.
        intros x [<-|Hx]; auto. specialize (HA x Hx). lia.
      * intros x [<-|Hx]. lia. specialize (HA x Hx). lia.
Qed.

Corollary va_node_model : forall g a s, is_model g a s -> stratified g ->
    forall k, va_node g a (S (length g)) [] k = s k.
Proof.
  intros g a s M [lvl ST] k. rewrite (va_node_correct g a s lvl M ST).
  - apply val_avoiding_nil_model; auto.
  - unfold free_count. assert (X := filter_len_le (fun j => negb (blkset [] j)) (seq 1 (length g))).
    rewrite seq_length in X. lia.
  - intros x [].
Qed.
