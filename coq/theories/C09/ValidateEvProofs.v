(* Soundness of validate_break_ev, for all inputs (no size bound). *)
From Coq Require Import ZArith NArith List Bool Lia Arith.
From PL.C09 Require Import BoolGraph ClarkBase Validate ValidateProofs ValidateEv.
Import ListNotations.

Lemma nmem_In : forall x l, nmem x l = true -> In x l.
Proof.
  intros x l H. unfold nmem in H. apply existsb_exists in H. destruct H as [y [I E]].
  apply N.eqb_eq in E. now subst.
Qed.

Lemma filter_agree : forall (a b : N -> bool) ms, (forall id, In id ms -> a id = b id) -> filter a ms = filter b ms.
Proof.
  intros a b. induction ms as [|x ms IH]; simpl; intros H; auto.
  rewrite (H x) by auto. rewrite IH; auto.
Qed.

Lemma amo_agree : forall a b groups,
    (forall ms id, In ms groups -> In id ms -> a id = b id) -> amo a groups = amo b groups.
Proof.
  intros a b. induction groups as [|ms groups IH]; simpl; intros H; auto.
  rewrite (filter_agree a b ms) by (intros id Hid; apply (H ms id); auto).
  rewrite IH; auto. intros ms' id I1 I2. apply (H ms' id); auto.
Qed.

Theorem validate_break_ev_sound : forall F D epairs lpairs evs groups,
    validate_break_ev F D epairs lpairs evs groups = true ->
    topo D /\
    forall a, exists s, is_model F a s /\
      (forall kF kD, In (kF, kD) epairs -> key_val s kF = key_val (vget (dag_val a D)) kD) /\
      (ev_sat s evs = true -> amo a groups = true ->
       forall kF kD, In (kF, kD) lpairs -> key_val s kF = key_val (vget (dag_val a D)) kD).
Proof.
  intros F D epairs lpairs evs groups H. unfold validate_break_ev in H.
  apply andb_true_iff in H. destruct H as [H H3]. apply andb_true_iff in H. destruct H as [T G].
  split. apply topob_sound; auto.
  intros a. destruct (sublists_cover a (ids_of [F; D])) as [t [Ht Hag]].
  rewrite forallb_forall in H3. specialize (H3 t Ht). unfold validate_break_ev_at in H3.
  apply andb_true_iff in H3. destruct H3 as [H3 L]. apply andb_true_iff in H3. destruct H3 as [M P].
  assert (DV : dag_val (asg_of t) D = dag_val a D).
  { apply dag_val_ext_a. intros id Hid. apply Hag. apply ids_of_in with (g := D); simpl; auto. }
  assert (AM : amo (asg_of t) groups = amo a groups).
  { apply amo_agree. intros ms id Ims Iid. apply Hag.
    rewrite forallb_forall in G. specialize (G ms Ims). rewrite forallb_forall in G. apply nmem_In. auto. }
  exists (vget (sem F (asg_of t))). split; [|split].
  - apply is_model_ext_a with (a := asg_of t).
    + intros id Hid. apply Hag. apply ids_of_in with (g := F); simpl; auto.
    + apply is_modelb_sound; auto.
  - intros kF kD Hin. unfold check_pairs in P. rewrite forallb_forall in P.
    specialize (P (kF, kD) Hin). simpl in P. apply eqb_prop in P. rewrite P. now rewrite DV.
  - intros ES AMO kF kD Hin. rewrite ES, AM, AMO in L. simpl in L.
    unfold check_pairs in L. rewrite forallb_forall in L.
    specialize (L (kF, kD) Hin). simpl in L. apply eqb_prop in L. rewrite L. now rewrite DV.
Qed.

(* with the stratification hypothesis the model is the only one *)
Corollary validate_break_ev_sound_unique : forall F D epairs lpairs evs groups,
    validate_break_ev F D epairs lpairs evs groups = true -> stratified F ->
    forall a s, is_model F a s ->
      (forall kF kD, In (kF, kD) epairs -> key_val (vget (dag_val a D)) kD = key_val s kF) /\
      (ev_sat s evs = true -> amo a groups = true ->
       forall kF kD, In (kF, kD) lpairs -> key_val (vget (dag_val a D)) kD = key_val s kF).
Proof.
  intros F D epairs lpairs evs groups H ST a s M.
  destruct (validate_break_ev_sound F D epairs lpairs evs groups H) as [_ V]. destruct (V a) as [s' [M' [PE PL]]].
  assert (E : forall k, s' k = s k) by (apply stratified_model_unique with (g := F) (a := a); auto).
  assert (KV : forall k, key_val s' k = key_val s k).
  { intros [c|]; simpl; auto. apply lit_val_ext. apply E. }
  split.
  - intros kF kD Hin. rewrite <- (PE kF kD Hin). apply KV.
  - intros ES AMO kF kD Hin.
    assert (ES' : ev_sat s' evs = true).
    { unfold ev_sat in *. rewrite forallb_forall in *. intros p Ip. rewrite KV. auto. }
    rewrite <- (PL ES' AMO kF kD Hin). apply KV.
Qed.
