(* Proofs about the translated Clark's completion (GenClark.v). *)
From Coq Require Import ZArith NArith List Bool Lia Arith.
From PL.C09 Require Import BoolGraph ClarkBase GenClark.
Import ListNotations.

(* ------------------------------------------------------------------ clean specification of the generated clause list *)
Definition clark_node_spec (index : Z) (nd : node) : list clause :=
  match nd with
  | NAnd cs => (HLit index, map Z.opp cs) :: map (fun c => (HLit (- index)%Z, [c])) cs
  | NOr cs => (HLit (- index)%Z, cs) :: map (fun c => (HLit index, [(- c)%Z])) cs
  | NAtom _ => []
  end.

Fixpoint neg_pairs (l : list Z) : list (list Z) :=
  match l with
  | [] => []
  | x :: t => map (fun m => [(- x)%Z; (- m)%Z]) t ++ neg_pairs t
  end.

Definition ad_spec (ad : ad_constraint) : list (list Z) :=
  if (2 <=? length (ad_nodes ad)) then
    neg_pairs (ad_nodes ad ++ [ad_extra ad]) ++ [ad_nodes ad ++ [ad_extra ad]]
  else [].

Definition completion_clauses (g : graph) : list clause :=
  flat_map (fun kn => clark_node_spec (Z.of_nat (fst kn)) (snd kn)) (combine (seq 1 (length g)) g).

Definition constraint_clauses (ads : list ad_constraint) : list clause :=
  flat_map (fun ad => map (fun c => (HForce false, c)) (ad_spec ad)) ads.

Definition force_clauses (force : bool) (n : nat) : list clause :=
  if force then map (fun i => (HLit (Z.of_nat i), [(- Z.of_nat i)%Z])) (seq 1 n) else [].

(* ------------------------------------------------------------------ generic fold lemmas *)
Lemma fold_left_proj_app : forall (A S C : Type) (proj : S -> list C) (gen : A -> list C) (step : S -> A -> S),
    (forall s x, proj (step s x) = proj s ++ gen x) ->
    forall l s, proj (fold_left step l s) = proj s ++ flat_map gen l.
Proof.
  intros A S C proj gen step H. induction l as [|x l IH]; intros s; simpl.
  - now rewrite app_nil_r.
  - rewrite IH, H. now rewrite app_assoc.
Qed.

Lemma fold_left_proj_keep : forall (A S C : Type) (proj : S -> C) (step : S -> A -> S),
    (forall s x, proj (step s x) = proj s) ->
    forall l s, proj (fold_left step l s) = proj s.
Proof.
  intros A S C proj step H. induction l as [|x l IH]; intros s; simpl; auto. rewrite IH. apply H.
Qed.

Lemma flat_map_single : forall (A B : Type) (f : A -> B) l, flat_map (fun x => [f x]) l = map f l.
Proof. induction l; simpl; congruence. Qed.

(* ------------------------------------------------------------------ ConstraintAD.as_clauses *)
Lemma fold_pairs_inner : forall n t (acc : list (list Z)),
    fold_left (fun lines m => lines ++ [[(- n)%Z; (- m)%Z]]) t acc = acc ++ map (fun m => [(- n)%Z; (- m)%Z]) t.
Proof.
  intros n. induction t as [|m t IH]; intros acc; simpl. now rewrite app_nil_r.
  rewrite IH. rewrite <- app_assoc. reflexivity.
Qed.

Lemma fold_pairs : forall l (acc : list (list Z)),
    fold_tails (fun n tl lines => fold_left (fun lines m => lines ++ [[(- n)%Z; (- m)%Z]]) tl lines) l acc
    = acc ++ neg_pairs l.
Proof.
  induction l as [|x t IH]; intros acc; simpl. now rewrite app_nil_r.
  rewrite IH. rewrite fold_pairs_inner. rewrite <- app_assoc. reflexivity.
Qed.

Theorem ad_as_clauses_spec : forall ad, ad_as_clauses ad = ad_spec ad.
Proof.
  intros ad. unfold ad_as_clauses, ad_spec, ad_is_nontrivial, ad_is_true, ad_is_false.
  rewrite andb_true_r.
  destruct (2 <=? length (ad_nodes ad)) eqn:E2.
  - apply Nat.leb_le in E2.
    assert (E : (Z.of_nat (length (ad_nodes ad)) <=? 1)%Z = false) by (apply Z.leb_gt; lia).
    rewrite E. change (negb false) with true. cbv beta iota zeta.
    rewrite fold_pairs. reflexivity.
  - apply Nat.leb_gt in E2.
    assert (E : (Z.of_nat (length (ad_nodes ad)) <=? 1)%Z = true) by (apply Z.leb_le; lia).
    rewrite E. reflexivity.
Qed.

(* ------------------------------------------------------------------ the generated clarks_completion *)
Lemma add_clause_clauses : forall h b d, c_clauses (cnf_add_clause h b d) = c_clauses d ++ [(h, b)].
Proof. reflexivity. Qed.

Lemma node_step_clauses : forall d (kn : Z * node),
    c_clauses (match snd kn with
               | NAnd children =>
                 fold_left (fun destination c => cnf_add_clause (HLit (- fst kn)%Z) [c] destination) children
                           (cnf_add_clause (HLit (fst kn)) (map (fun x => (- x)%Z) children) d)
               | NOr children =>
                 fold_left (fun destination c => cnf_add_clause (HLit (fst kn)) [(- c)%Z] destination) children
                           (cnf_add_clause (HLit (- fst kn)%Z) children d)
               | NAtom _ => d
               end) = c_clauses d ++ clark_node_spec (fst kn) (snd kn).
Proof.
  intros d [index nd]. simpl. destruct nd as [id|cs|cs]; simpl.
  - now rewrite app_nil_r.
  - rewrite (fold_left_proj_app Z cnf clause c_clauses (fun c => [(HLit (- index)%Z, [c])])).
    + simpl. rewrite <- app_assoc. rewrite flat_map_single. reflexivity.
    + intros. reflexivity.
  - rewrite (fold_left_proj_app Z cnf clause c_clauses (fun c => [(HLit index, [(- c)%Z])])).
    + simpl. rewrite <- app_assoc. rewrite flat_map_single. reflexivity.
    + intros. reflexivity.
Qed.

Lemma enum_nodes_flat : forall f,
    flat_map (fun kn : Z * node => clark_node_spec (fst kn) (snd kn)) (enum_nodes f) = completion_clauses (f_nodes f).
Proof.
  intros f. unfold enum_nodes, completion_clauses.
  induction (combine (seq 1 (length (f_nodes f))) (f_nodes f)) as [|x l IH]; simpl; auto.
  now rewrite IH.
Qed.

Lemma constraint_step_clauses : forall d ad,
    c_clauses (cnf_add_constraint ad false d) = c_clauses d ++ map (fun c => (HForce false, c)) (ad_spec ad).
Proof.
  intros d ad. unfold cnf_add_constraint. cbv zeta.
  rewrite (fold_left_proj_app (list Z) cnf clause c_clauses (fun c => [(HForce false, c)])).
  - simpl. rewrite ad_as_clauses_spec, flat_map_single. reflexivity.
  - intros. reflexivity.
Qed.

Lemma zrange_0 : forall n, zrange 0 (Z.of_nat n) = map Z.of_nat (seq 0 n).
Proof.
  intros n. unfold zrange. rewrite Z.sub_0_r, Nat2Z.id. apply map_ext. intros; lia.
Qed.

Theorem clark_clauses_eq : forall f force,
    c_clauses (clarks_completion f force cnf_empty)
    = force_clauses force (length (f_nodes f)) ++ completion_clauses (f_nodes f) ++ constraint_clauses (f_constraints f).
Proof.
  intros f force. unfold clarks_completion. cbv zeta.
  rewrite (fold_left_proj_keep _ cnf _ c_clauses) by (intros; reflexivity).
  rewrite (fold_left_proj_app ad_constraint cnf clause c_clauses (fun ad => map (fun c => (HForce false, c)) (ad_spec ad)))
    by (intros; apply constraint_step_clauses).
  rewrite (fold_left_proj_app (Z * node) cnf clause c_clauses (fun kn => clark_node_spec (fst kn) (snd kn)))
    by (intros; apply node_step_clauses).
  rewrite enum_nodes_flat.
  rewrite (fold_left_proj_app Z cnf clause c_clauses (fun i => if force then [(HLit (i + 1)%Z, [(- (i + 1))%Z])] else [])).
  - simpl. rewrite <- app_assoc. f_equal.
    rewrite zrange_0. unfold force_clauses. destruct force.
    + rewrite flat_map_single, map_map, <- seq_shift, map_map. apply map_ext. intros x.
      replace (Z.of_nat x + 1)%Z with (Z.of_nat (S x)) by lia. reflexivity.
    + induction (map Z.of_nat (seq 0 (length (f_nodes f)))); simpl; auto.
  - intros s x. destruct force; simpl; auto. now rewrite app_nil_r.
Qed.

Theorem clark_weights : forall f force, c_weights (clarks_completion f force cnf_empty) = f_weights f.
Proof.
  intros. unfold clarks_completion. cbv zeta.
  repeat (rewrite (fold_left_proj_keep _ cnf _ c_weights); [|intros; try reflexivity]).
  - reflexivity.
  - destruct force; reflexivity.
  - destruct (snd x); simpl; auto;
      rewrite (fold_left_proj_keep _ cnf _ c_weights); intros; reflexivity.
  - unfold cnf_add_constraint. cbv zeta. rewrite (fold_left_proj_keep _ cnf _ c_weights); intros; reflexivity.
Qed.

Theorem clark_names : forall f force, c_names (clarks_completion f force cnf_empty) = f_names f.
Proof.
  intros. unfold clarks_completion. cbv zeta.
  rewrite (fold_left_proj_app _ cnf _ c_names (fun x => [x])).
  - repeat (rewrite (fold_left_proj_keep _ cnf _ c_names); [|intros; try reflexivity]).
    + simpl. induction (f_names f); simpl; auto. now rewrite <- IHn at 2.
    + destruct force; reflexivity.
    + destruct (snd x); simpl; auto;
        rewrite (fold_left_proj_keep _ cnf _ c_names); intros; reflexivity.
    + unfold cnf_add_constraint. cbv zeta. rewrite (fold_left_proj_keep _ cnf _ c_names); intros; reflexivity.
  - intros s [[n i] l]. reflexivity.
Qed.

Theorem clark_constraints : forall f force, c_constraints (clarks_completion f force cnf_empty) = f_constraints f.
Proof.
  intros. unfold clarks_completion. cbv zeta.
  rewrite (fold_left_proj_keep _ cnf _ c_constraints) by (intros; reflexivity).
  rewrite (fold_left_proj_app _ cnf _ c_constraints (fun x => [x])).
  - repeat (rewrite (fold_left_proj_keep _ cnf _ c_constraints); [|intros; try reflexivity]).
    + simpl. induction (f_constraints f); simpl; auto. now rewrite <- IHl at 2.
    + destruct force; reflexivity.
    + destruct (snd x); simpl; auto;
        rewrite (fold_left_proj_keep _ cnf _ c_constraints); intros; reflexivity.
  - intros s x. unfold cnf_add_constraint. cbv zeta.
    rewrite (fold_left_proj_keep _ cnf _ c_constraints); intros; reflexivity.
Qed.

Theorem clark_atomcount : forall f force,
    c_atomcount (clarks_completion f force cnf_empty) = Z.of_nat (length (f_nodes f)).
Proof.
  intros. unfold clarks_completion. cbv zeta.
  rewrite (fold_left_proj_keep _ cnf _ c_atomcount) by (intros; reflexivity).
  rewrite (fold_left_proj_keep _ cnf _ c_atomcount)
    by (intros; unfold cnf_add_constraint; cbv zeta; rewrite (fold_left_proj_keep _ cnf _ c_atomcount); intros; reflexivity).
  rewrite (fold_left_proj_keep _ cnf _ c_atomcount)
    by (intros s x; destruct (snd x); simpl; auto; rewrite (fold_left_proj_keep _ cnf _ c_atomcount); intros; reflexivity).
  rewrite zrange_0.
  assert (forall l d, c_atomcount (fold_left (fun destination i => cnf_add_atom (i + 1) force destination) l d)
                      = (c_atomcount d + Z.of_nat (length l))%Z).
  { induction l; intros d; simpl. lia. rewrite IHl. destruct force; simpl; lia. }
  rewrite H. simpl. rewrite map_length, seq_length. reflexivity.
Qed.

(* ------------------------------------------------------------------ semantics of the completion clauses *)
Definition nozero (g : graph) : Prop := forall nd c, In nd g -> In c (children nd) -> c <> 0%Z.

Definition wf_dag (g : graph) : Prop := topo g /\ nozero g.

(* m gives atoms the value the assignment gives their identifier *)
Definition extends (g : graph) (a : N -> bool) (m : nat -> bool) : Prop :=
  forall k id, node_at g k = Some (NAtom id) -> m k = a id.

(* m is a fixpoint of the one-step operator on the nodes of g (no claim outside) *)
Definition supported_in (g : graph) (a : N -> bool) (m : nat -> bool) : Prop :=
  forall k nd, node_at g k = Some nd -> m k = eval_node a (lit_val m) nd.

Lemma cnf_lit_nz : forall m c, c <> 0%Z -> cnf_lit m c = lit_val m c.
Proof. intros m [|p|p] H; simpl; auto; try congruence. Qed.

Lemma cnf_lit_opp : forall m c, c <> 0%Z -> cnf_lit m (- c) = negb (lit_val m c).
Proof. intros m [|p|p] H; simpl; auto. now rewrite negb_involutive. Qed.

Lemma existsb_map_opp : forall m cs, (forall c, In c cs -> c <> 0%Z) ->
    existsb (cnf_lit m) (map Z.opp cs) = negb (forallb (lit_val m) cs).
Proof.
  induction cs as [|c cs IH]; intros H; simpl; auto.
  rewrite cnf_lit_opp by (apply H; left; auto). rewrite IH by (intros; apply H; right; auto).
  now rewrite negb_andb.
Qed.

Lemma existsb_nz : forall m cs, (forall c, In c cs -> c <> 0%Z) ->
    existsb (cnf_lit m) cs = existsb (lit_val m) cs.
Proof.
  induction cs as [|c cs IH]; intros H; simpl; auto.
  rewrite cnf_lit_nz by (apply H; left; auto). rewrite IH; auto. intros; apply H; right; auto.
Qed.

Lemma sat_unit_clauses_and : forall m k cs, (forall c, In c cs -> c <> 0%Z) -> (0 < k)%nat ->
    forallb (sat_clause m) (map (fun c => (HLit (- Z.of_nat k)%Z, [c])) cs) = negb (m k) || forallb (lit_val m) cs.
Proof.
  intros m k cs H K. induction cs as [|c cs IH]; simpl. now rewrite orb_true_r.
  rewrite IH by (intros; apply H; right; auto).
  unfold sat_clause, sat_lits. simpl. rewrite orb_false_r.
  rewrite (cnf_lit_nz m c) by (apply H; left; auto).
  assert (cnf_lit m (- Z.of_nat k) = negb (m k)).
  { destruct k. lia. simpl. now rewrite SuccNat2Pos.id_succ. }
  rewrite H0. destruct (m k); simpl; auto.
Qed.

Lemma sat_unit_clauses_or : forall m k cs, (forall c, In c cs -> c <> 0%Z) -> (0 < k)%nat ->
    forallb (sat_clause m) (map (fun c => (HLit (Z.of_nat k), [(- c)%Z])) cs) = m k || negb (existsb (lit_val m) cs).
Proof.
  intros m k cs H K. induction cs as [|c cs IH]; simpl. now rewrite orb_true_r.
  rewrite IH by (intros; apply H; right; auto).
  unfold sat_clause, sat_lits. simpl. rewrite orb_false_r.
  rewrite (cnf_lit_opp m c) by (apply H; left; auto).
  assert (cnf_lit m (Z.of_nat k) = m k).
  { destruct k. lia. simpl. now rewrite SuccNat2Pos.id_succ. }
  rewrite H0. destruct (m k); simpl; auto. now rewrite negb_orb.
Qed.

(* the clauses of one internal node hold iff the node's variable equals the node's definition *)
Lemma node_spec_sat : forall a m k nd, (forall c, In c (children nd) -> c <> 0%Z) -> (0 < k)%nat ->
    (forall id, nd = NAtom id -> m k = a id) ->
    (forallb (sat_clause m) (clark_node_spec (Z.of_nat k) nd) = true <-> m k = eval_node a (lit_val m) nd).
Proof.
  intros a m k nd H K HA. destruct nd as [id|cs|cs]; simpl in *.
  - split; auto.
  - rewrite sat_unit_clauses_and by auto.
    unfold sat_clause, sat_lits. simpl. rewrite existsb_map_opp by auto.
    assert (cnf_lit m (Z.of_nat k) = m k).
    { destruct k. lia. simpl. now rewrite SuccNat2Pos.id_succ. }
    rewrite H0. destruct (m k); destruct (forallb (lit_val m) cs); simpl; split; intros; congruence.
  - rewrite sat_unit_clauses_or by auto.
    unfold sat_clause, sat_lits. simpl. rewrite existsb_nz by auto.
    assert (cnf_lit m (- Z.of_nat k) = negb (m k)).
    { destruct k. lia. simpl. now rewrite SuccNat2Pos.id_succ. }
    rewrite H0. destruct (m k); destruct (existsb (lit_val m) cs); simpl; split; intros; congruence.
Qed.

Lemma In_combine_seq : forall (g : graph) k nd st,
    In (k, nd) (combine (seq st (length g)) g) <-> (st <= k /\ nth_error g (k - st) = Some nd).
Proof.
  induction g as [|x g IH]; intros k nd st; simpl.
  - split. tauto. intros [_ H]. destruct (k - st); discriminate.
  - split.
    + intros [E|H]. inversion E; subst. rewrite Nat.sub_diag. simpl. split; auto.
      apply IH in H. destruct H as [H1 H2]. split. lia.
      replace (k - st) with (S (k - S st)) by lia. exact H2.
    + intros [H1 H2]. destruct (k - st) eqn:E.
      * simpl in H2. inversion H2; subst. left. f_equal. lia.
      * right. apply IH. split. lia. simpl in H2. replace (k - S st) with n by lia. exact H2.
Qed.

Lemma In_combine_node_at : forall g k nd, In (k, nd) (combine (seq 1 (length g)) g) <-> node_at g k = Some nd.
Proof.
  intros. rewrite In_combine_seq. destruct k as [|i]; simpl.
  - split. lia. discriminate.
  - rewrite Nat.sub_0_r. split. tauto. intros; split; auto; lia.
Qed.

Theorem completion_sat_iff : forall g a m, nozero g -> extends g a m ->
    (sat_cnf m (completion_clauses g) = true <-> supported_in g a m).
Proof.
  intros g a m NZ EX. unfold sat_cnf, completion_clauses.
  rewrite forallb_forall. split.
  - intros H k nd E.
    assert (K := node_at_Some _ _ _ E).
    apply (node_spec_sat a m k nd).
    + intros c Hc. eapply NZ; eauto. tauto.
    + lia.
    + intros id ->. apply EX; auto.
    + apply forallb_forall. intros cl Hcl. apply H. apply in_flat_map.
      exists (k, nd). split; auto. apply In_combine_node_at; auto.
  - intros S cl Hcl. apply in_flat_map in Hcl. destruct Hcl as [[k nd] [Hin Hcl]]. simpl in Hcl.
    apply In_combine_node_at in Hin.
    assert (K := node_at_Some _ _ _ Hin).
    assert (forallb (sat_clause m) (clark_node_spec (Z.of_nat k) nd) = true).
    { apply (node_spec_sat a m k nd).
      - intros c Hc. eapply NZ; eauto. tauto.
      - lia.
      - intros id ->. apply EX; auto.
      - apply S; auto. }
    rewrite forallb_forall in H. apply H; auto.
Qed.

Lemma supported_in_extends : forall g a m, supported_in g a m -> extends g a m.
Proof. intros g a m S k id E. rewrite (S k _ E). reflexivity. Qed.

Theorem supported_in_dag : forall g a m, topo g -> supported_in g a m ->
    forall k, 1 <= k <= length g -> m k = vget (dag_val a g) k.
Proof.
  intros g a m T S k. induction k as [k IH] using lt_wf_ind. intros K.
  destruct (node_at g k) as [nd|] eqn:E.
  - rewrite (S k nd E). rewrite (dag_val_supported g a T k), E.
    apply eval_node_ext. intros c Hc.
    assert (L : key_of c < k) by (eapply T; eauto).
    destruct c as [|p|p]; simpl; auto.
    + apply IH. exact L. unfold key_of in L. simpl in L. lia.
    + f_equal. apply IH. exact L. unfold key_of in L. simpl in L. lia.
  - apply node_at_None in E. lia.
Qed.

Lemma dag_val_supported_in : forall g a, topo g -> supported_in g a (vget (dag_val a g)).
Proof.
  intros g a T k nd E. rewrite (dag_val_supported g a T k), E. reflexivity.
Qed.

(* ------------------------------------------------------------------ AD constraints: exactly one *)
Definition count_true (m : nat -> bool) (ls : list Z) : nat := length (filter (cnf_lit m) ls).

Lemma sat_pairs_head : forall m x t, x <> 0%Z -> (forall y, In y t -> y <> 0%Z) ->
    forallb (sat_lits m) (map (fun y => [(- x)%Z; (- y)%Z]) t) = negb (cnf_lit m x) || (count_true m t =? 0).
Proof.
  intros m x t Hx. induction t as [|y t IH]; intros Ht; simpl. now rewrite orb_true_r.
  rewrite IH by (intros; apply Ht; right; auto).
  unfold sat_lits. simpl. rewrite orb_false_r.
  assert (Hy : y <> 0%Z) by (apply Ht; left; auto).
  rewrite !cnf_lit_opp by auto. rewrite <- !cnf_lit_nz by auto.
  unfold count_true. simpl. destruct (cnf_lit m x); destruct (cnf_lit m y); simpl; auto.
Qed.

Lemma sat_neg_pairs : forall m l, (forall y, In y l -> y <> 0%Z) ->
    forallb (sat_lits m) (neg_pairs l) = (count_true m l <=? 1).
Proof.
  intros m. induction l as [|x t IH]; intros H; simpl; auto.
  rewrite forallb_app. rewrite sat_pairs_head by (try (apply H; left; auto); intros; apply H; right; auto).
  rewrite IH by (intros; apply H; right; auto).
  unfold count_true. simpl. destruct (cnf_lit m x); simpl.
  - destruct (length (filter (cnf_lit m) t)) as [|[|n]]; simpl; auto.
  - reflexivity.
Qed.

Lemma sat_pick_one : forall m l, sat_lits m l = (1 <=? count_true m l).
Proof.
  intros m. unfold sat_lits, count_true. induction l as [|x t IH]; simpl; auto.
  destruct (cnf_lit m x); simpl; auto.
Qed.

Theorem ad_spec_sat : forall m ad, (forall y, In y (ad_nodes ad ++ [ad_extra ad]) -> y <> 0%Z) ->
    2 <= length (ad_nodes ad) ->
    (forallb (sat_lits m) (ad_spec ad) = true <-> count_true m (ad_nodes ad ++ [ad_extra ad]) = 1).
Proof.
  intros m ad H L. unfold ad_spec. apply Nat.leb_le in L. rewrite L.
  rewrite forallb_app. simpl. rewrite andb_true_r.
  rewrite sat_neg_pairs by auto. rewrite sat_pick_one.
  rewrite andb_true_iff, Nat.leb_le, Nat.leb_le. lia.
Qed.

Lemma ad_spec_trivial : forall ad, length (ad_nodes ad) < 2 -> ad_spec ad = [].
Proof. intros ad H. unfold ad_spec. apply Nat.leb_gt in H. now rewrite H. Qed.

Definition ads_ok (m : nat -> bool) (ads : list ad_constraint) : Prop :=
  forall ad, In ad ads -> 2 <= length (ad_nodes ad) -> count_true m (ad_nodes ad ++ [ad_extra ad]) = 1.

Definition ads_nozero (ads : list ad_constraint) : Prop :=
  forall ad y, In ad ads -> In y (ad_nodes ad ++ [ad_extra ad]) -> y <> 0%Z.

Theorem constraint_clauses_sat : forall m ads, ads_nozero ads ->
    (sat_cnf m (constraint_clauses ads) = true <-> ads_ok m ads).
Proof.
  intros m ads NZ. unfold sat_cnf, constraint_clauses. rewrite forallb_forall. split.
  - intros H ad Hin L. apply ad_spec_sat; auto. intros; eapply NZ; eauto.
    apply forallb_forall. intros c Hc.
    specialize (H (HForce false, c)). unfold sat_clause in H. simpl in H. apply H.
    apply in_flat_map. exists ad. split; auto. apply in_map_iff. exists c. auto.
  - intros H cl Hcl. apply in_flat_map in Hcl. destruct Hcl as [ad [Hin Hcl]].
    apply in_map_iff in Hcl. destruct Hcl as [c [<- Hc]]. unfold sat_clause. simpl.
    destruct (le_lt_dec 2 (length (ad_nodes ad))) as [L|L].
    + assert (forallb (sat_lits m) (ad_spec ad) = true).
      { apply ad_spec_sat; auto. intros; eapply NZ; eauto. }
      rewrite forallb_forall in H0. auto.
    + rewrite ad_spec_trivial in Hc by auto. destruct Hc.
Qed.

Lemma force_clauses_sat : forall m force n, sat_cnf m (force_clauses force n) = true.
Proof.
  intros m force n. unfold force_clauses, sat_cnf. destruct force; auto.
  apply forallb_forall. intros cl H. apply in_map_iff in H. destruct H as [i [<- Hi]].
  apply in_seq in Hi. unfold sat_clause, sat_lits. simpl. rewrite orb_false_r.
  destruct i. lia. simpl. rewrite SuccNat2Pos.id_succ. destruct (m (S i)); auto.
Qed.

(* ------------------------------------------------------------------ main theorems *)
(* For every DAG, atom assignment a and CNF model candidate m:  m satisfies the whole
   generated CNF and gives atoms their assigned value  iff  m is dag_val on every node
   and the atoms satisfy every non-trivial AD (exactly-one) constraint. *)
Theorem clark_characterisation : forall f force a m,
    wf_dag (f_nodes f) -> ads_nozero (f_constraints f) ->
    (extends (f_nodes f) a m /\ sat_cnf m (c_clauses (clarks_completion f force cnf_empty)) = true
     <->
     (forall k, 1 <= k <= length (f_nodes f) -> m k = vget (dag_val a (f_nodes f)) k) /\ ads_ok m (f_constraints f)).
Proof.
  intros f force a m [T NZ] ANZ. rewrite clark_clauses_eq. unfold sat_cnf. rewrite !forallb_app.
  fold (sat_cnf m (force_clauses force (length (f_nodes f)))). rewrite force_clauses_sat. simpl.
  fold (sat_cnf m (completion_clauses (f_nodes f))). fold (sat_cnf m (constraint_clauses (f_constraints f))).
  rewrite andb_true_iff. rewrite (constraint_clauses_sat m _ ANZ). split.
  - intros [EX [C A]]. split; auto. apply supported_in_dag; auto. apply (completion_sat_iff _ a m NZ EX); auto.
  - intros [V A].
    assert (S : supported_in (f_nodes f) a m).
    { intros k nd E. assert (K := node_at_Some _ _ _ E). rewrite V by tauto.
      rewrite (dag_val_supported_in _ a T k nd E).
      apply eval_node_ext. intros c Hc. apply lit_val_ext.
      assert (key_of c < k) by (eapply T; eauto).
      assert (c <> 0%Z) by (eapply NZ; eauto; tauto).
      symmetry. apply V. unfold key_of in *. lia. }
    assert (EX := supported_in_extends _ _ _ S).
    split; auto. split; auto. apply (completion_sat_iff _ a m NZ EX); auto.
Qed.

(* existence and uniqueness, for the completion part (no constraints): exactly one
   extension of every atom assignment, and it is dag_val *)
Theorem clark_exists_unique : forall g a, wf_dag g ->
    (extends g a (vget (dag_val a g)) /\ sat_cnf (vget (dag_val a g)) (completion_clauses g) = true) /\
    (forall m, extends g a m -> sat_cnf m (completion_clauses g) = true ->
               forall k, 1 <= k <= length g -> m k = vget (dag_val a g) k).
Proof.
  intros g a [T NZ]. split.
  - assert (S := dag_val_supported_in g a T).
    assert (EX := supported_in_extends _ _ _ S). split; auto.
    apply (completion_sat_iff g a _ NZ EX); auto.
  - intros m EX C. apply supported_in_dag; auto. apply (completion_sat_iff g a m NZ EX); auto.
Qed.
