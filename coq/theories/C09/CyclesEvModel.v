(* Hand model of problog/cycles.py WITH the evidence look-up of `_break_cycles`
   (cycles.py:111-118):

       if not is_evidence and not source.is_probabilistic(source.get_evidence_value(nodeid)):
           ev = source.get_evidence_value(nodeid)
           return target.negate(ev) if negative_node else ev

   `source.get_evidence_value(k)` (formula.py:940) is `k` itself for k = 0 / None, otherwise
   `source.lookup_evidence.get(abs k, abs k)` (negated for k < 0) when the source formula carries
   the attribute `lookup_evidence` (set by engine.ground_evidence with propagate_evidence=True from
   LogicFormula.propagate, extended by ConstraintAD.add), and `k` when it does not.  The values of
   `lookup_evidence` are TRUE (0) / FALSE (None).

   The map is the argument `evm : cur` (PL.C06.ModelPropagate: association list key -> bool, the
   type of the result of the model of `propagate`).  Everything else is CyclesModel.bc, unchanged:
   `bc_ev` with the empty map IS `bc` (CyclesEvProofs.bc_ev_nil), so `break_cycles_m` is the
   instance `break_cycles_ev_m _ _ _ _ []`.  The evidence pass (is_evidence=True) never consults
   the map.  `keep_named=True` only appends the LABEL_NAMED names to `labeled`: it is the same
   function applied to a longer `labeled` list (the harness does that).

   No proofs in this file. *)
From Coq Require Import ZArith NArith List Bool Arith.
From PL.C09 Require Import BoolGraph CyclesModel.
From PL.C06 Require Import ModelPropagate.
Import ListNotations.

Definition const_key (b : bool) : key := if b then Some 0%Z else None.

(* get_evidence_value(n) for n >= 1 in the query pass; None = "the node itself" (probabilistic) *)
Definition ev_lookup (evm : cur) (is_ev : bool) (n : nat) : option bool :=
  if is_ev then None else cget evm n.

Fixpoint bc_ev (fuel : nat) (tc : bool) (use_memo : bool) (src : graph) (ai : atom_info) (evm : cur) (is_ev : bool)
         (t : tgt) (m : memo) (nodeid : Z) (anc : list nat) : option bc_result :=
  match fuel with
  | O => None
  | S f =>
    let neg := (nodeid <? 0)%Z in
    let n := Z.abs_nat nodeid in
    let out (k : key) := if neg then knegate k else k in
    if (n =? 0) && (tc || negb is_ev) then Some (mk_result t m (Some 0%Z) [] [])
    else
    match ev_lookup evm is_ev n with
    | Some b => Some (mk_result t m (out (const_key b)) [] [])                    (* propagated evidence value *)
    | None =>
    if mem n anc then Some (mk_result t m None [n] [])
    else
      let reuse := if use_memo then
                     match memo_get m n with
                     | Some es => memo_find es (anc ++ [n])
                     | None => None
                     end
                   else None in
      match reuse with
      | Some (nk, cb, cn) => Some (mk_result t m (out nk) cb cn)
      | None =>
        match node_at src n with
        | None => None
        | Some (NAtom id) =>
          let (t1, nk) := t_add_atom ai t id in
          Some (mk_result t1 (memo_add m n (nk, [], [])) (out nk) [] [])
        | Some nd =>
          let isand := match nd with NAnd _ => true | _ => false end in
          let step (acc : option (tgt * memo * list key * list nat * list nat)) (child : Z) :=
              match acc with
              | None => None
              | Some (t0, m0, ks, cb, cn) =>
                match bc_ev f tc use_memo src ai evm is_ev t0 m0 child (anc ++ [n]) with
                | None => None
                | Some r => Some (r_tgt r, r_memo r, ks ++ [r_key r], union cb (r_cb r), union cn (r_cn r))
                end
              end in
          match fold_left step (children nd) (Some (t, m, [], [], [])) with
          | None => None
          | Some (t1, m1, ks, ccb, ccn) =>
            match t_add_compound isand t1 ks with
            | None => None
            | Some (t2, nk) =>
              let cn_out := if is_prob nk then union ccn [n] else ccn in
              Some (mk_result t2 (memo_add m1 n (nk, ccb, diff ccn ccb)) (out nk) ccb cn_out)
            end
          end
        end
      end
    end
  end.

Definition bc_top_ev (tc : bool) (use_memo : bool) (src : graph) (ai : atom_info) (evm : cur) (is_ev : bool)
           (acc : option (tgt * memo * list key)) (n : key) : option (tgt * memo * list key) :=
  match acc with
  | None => None
  | Some (t, m, ks) =>
    match n with
    | Some c =>
      if is_prob n then
        let c' := if is_ev then Z.abs c else c in
        match bc_ev (S (S (length src))) tc use_memo src ai evm is_ev t m c' [] with
        | None => None
        | Some r => let k := if is_ev && (c <? 0)%Z then knegate (r_key r) else r_key r in
                    Some (r_tgt r, r_memo r, ks ++ [k])
        end
      else Some (t, m, ks ++ [n])
    | None => Some (t, m, ks ++ [n])
    end
  end.

(* break_cycles on a source formula whose lookup_evidence is evm *)
Definition break_cycles_ev_m (tc : bool) (use_memo : bool) (src : graph) (ai : atom_info) (evm : cur)
           (labeled evidence : list key) : option (graph * list key * list key) :=
  match fold_left (bc_top_ev tc use_memo src ai evm false) labeled (Some (tgt_empty, [], [])) with
  | None => None
  | Some (t1, _, ks1) =>
    match fold_left (bc_top_ev tc use_memo src ai evm true) evidence (Some (t1, [], [])) with
    | None => None
    | Some (t2, _, ks2) => Some (t_nodes t2, ks1, ks2)
    end
  end.

(* the literals engine.ground_evidence hands to LogicFormula.propagate: the evidence names'
   keys other than TRUE / FALSE (evidence() lists (name, node) for POS and (name, -node) for NEG) *)
Definition ev_literals (evidence : list key) : list Z :=
  flat_map (fun k => match k with Some Z0 => [] | Some c => [c] | None => [] end) evidence.
