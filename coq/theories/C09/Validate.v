(* Verified validators (definitions only; soundness in ValidateProofs.v).
   validate_break F D pairs : every listed key of the acyclic D has, under every
     atom assignment, the value the (checked) stable model of the cyclic F gives
     the corresponding key of F.
   validate_clark D ads cls : under every atom assignment the completion clauses
     of cls are satisfied by dag_val D, force every node's variable to that value
     (so the extension is unique), and the constraint clauses hold exactly when
     the AD constraints hold. *)
From Coq Require Import ZArith NArith List Bool Arith.
From PL.C09 Require Import BoolGraph ClarkBase.
Import ListNotations.

Definition ids_of (gs : list graph) : list N := nodup N.eq_dec (flat_map atoms_of gs).

Definition check_pairs (s dv : nat -> bool) (pairs : list (option Z * option Z)) : bool :=
  forallb (fun p => Bool.eqb (key_val s (fst p)) (key_val dv (snd p))) pairs.

Definition validate_break_at (F D : graph) (pairs : list (option Z * option Z)) (a : N -> bool) : bool :=
  let s := sem F a in
  is_modelb F a s && check_pairs (vget s) (vget (dag_val a D)) pairs.

Definition validate_break (F D : graph) (pairs : list (option Z * option Z)) : bool :=
  topob D && forallb (fun t => validate_break_at F D pairs (asg_of t)) (sublists (ids_of [F; D])).

(* ------------------------------------------------------------------ Clark *)
Definition is_completion_clause (c : clause) : bool := match fst c with HLit _ => true | HForce _ => false end.

Definition lit_var (l : Z) : nat := Z.abs_nat l.

Definition is_atomb (g : graph) (k : nat) : bool :=
  match node_at g k with Some (NAtom _) => true | _ => false end.

(* clause c forces variable k to its dv value, given the values of smaller keys and of atoms *)
Definition forcing (g : graph) (dv : nat -> bool) (k : nat) (c : clause) : bool :=
  let ls := clause_lits c in
  existsb (fun l => (lit_var l =? k) && cnf_lit dv l) ls &&
  forallb (fun l => if lit_var l =? k then cnf_lit dv l
                    else ((lit_var l <? k) || is_atomb g (lit_var l)) && negb (cnf_lit dv l)) ls.

Definition forced (g : graph) (cls : list clause) (dv : nat -> bool) (k : nat) : bool :=
  is_atomb g k || existsb (forcing g dv k) cls.

Definition nozerob (g : graph) : bool :=
  forallb (fun nd => forallb (fun c => negb (Z.eqb c 0)) (children nd)) g.

Definition count_trueb (m : nat -> bool) (ls : list Z) : nat := length (filter (cnf_lit m) ls).

Definition ads_okb (m : nat -> bool) (ads : list ad_constraint) : bool :=
  forallb (fun ad => (length (ad_nodes ad) <? 2) || (count_trueb m (ad_nodes ad ++ [ad_extra ad]) =? 1)) ads.

Definition validate_clark_at (D : graph) (ads : list ad_constraint) (comp cons : list clause) (a : N -> bool) : bool :=
  let dv := vget (dag_val a D) in
  sat_cnf dv comp &&
  forallb (forced D comp dv) (seq 1 (length D)) &&
  Bool.eqb (sat_cnf dv cons) (ads_okb dv ads).

Definition validate_clark (D : graph) (ads : list ad_constraint) (cls : list clause) : bool :=
  let comp := filter is_completion_clause cls in
  let cons := filter (fun c => negb (is_completion_clause c)) cls in
  topob D &&
  forallb (fun t => validate_clark_at D ads comp cons (asg_of t)) (sublists (ids_of [D])).
