(* Semantics of the target builder of CyclesModel.v: add_atom / add_and / add_or
   extend the DAG, keep it topologically ordered, and the returned key has the
   value of the conjunction / disjunction of the given keys (for every atom
   assignment). *)
From Coq Require Import ZArith NArith List Bool Lia Arith.
From PL.C09 Require Import BoolGraph CyclesModel.
Import ListNotations.

Local Arguments Z.of_nat : simpl never.

Ltac fold_ofnat :=
  repeat match goal with
         | |- context [Z.pos (Pos.of_succ_nat ?n)] => change (Z.pos (Pos.of_succ_nat n)) with (Z.of_nat (S n))
         end.

Section Builder.
Variable a : N -> bool.

Definition dv (t : tgt) : nat -> bool := vget (dag_val a (t_nodes t)).
Definition val (t : tgt) (k : key) : bool := key_val (dv t) k.
Definition key_valid (t : tgt) (k : key) : Prop :=
  match k with None => True | Some c => key_of c <= length (t_nodes t) end.
Definition ext (t t' : tgt) : Prop := exists more, t_nodes t' = t_nodes t ++ more.

Lemma ext_refl : forall t, ext t t.
Proof. intros t. exists []. now rewrite app_nil_r. Qed.

Lemma ext_trans : forall t1 t2 t3, ext t1 t2 -> ext t2 t3 -> ext t1 t3.
Proof. intros t1 t2 t3 [m1 E1] [m2 E2]. exists (m1 ++ m2). rewrite E2, E1. now rewrite app_assoc. Qed.

Lemma ext_length : forall t t', ext t t' -> length (t_nodes t) <= length (t_nodes t').
Proof. intros t t' [m E]. rewrite E, app_length. lia. Qed.

Lemma key_valid_ext : forall t t' k, ext t t' -> key_valid t k -> key_valid t' k.
Proof. intros t t' [c|] E H; simpl in *; auto. apply ext_length in E. lia. Qed.

Lemma dv_ext : forall t t' k, ext t t' -> k <= length (t_nodes t) -> dv t' k = dv t k.
Proof. intros t t' k [m E] H. unfold dv. rewrite E. apply dag_val_app. exact H. Qed.

Lemma val_ext : forall t t' k, ext t t' -> key_valid t k -> val t' k = val t k.
Proof.
  intros t t' [c|] E H; simpl in *; auto. unfold val. simpl.
  apply lit_val_ext. apply dv_ext; auto.
Qed.

Lemma key_val_knegate : forall v k, key_val v (knegate k) = negb (key_val v k).
Proof.
  intros v [c|]; simpl; auto. destruct c as [|p|p]; simpl; auto. now rewrite negb_involutive.
Qed.

Lemma key_valid_knegate : forall t k, key_valid t k -> key_valid t (knegate k).
Proof.
  intros t [c|]; simpl; auto.
  - destruct c as [|p|p]; simpl; auto.
  - intros _. unfold key_of. simpl. lia.
Qed.

(* ------------------------------------------------------------------ lists of nodes *)
Lemma node_at_app_or : forall g more k nd, node_at (g ++ more) k = Some nd -> node_at g k = Some nd \/ (length g < k /\ In nd more).
Proof.
  intros g more [|i] nd H; simpl in *. discriminate.
  destruct (lt_dec i (length g)) as [L|L].
  - rewrite nth_error_app1 in H by auto. left; auto.
  - rewrite nth_error_app2 in H by lia. right. split. lia. eapply nth_error_In; eauto.
Qed.

Lemma topo_snoc : forall g nd, topo g -> (forall c, In c (children nd) -> key_of c <= length g) -> topo (g ++ [nd]).
Proof.
  intros g nd T H k nd' c E Hc. apply node_at_app_or in E. destruct E as [E|[L [<-|[]]]].
  - eapply T; eauto.
  - apply H in Hc. lia.
Qed.

Lemma topo_app_leaves : forall g more, topo g -> (forall nd, In nd more -> children nd = []) -> topo (g ++ more).
Proof.
  intros g more T H k nd c E Hc. apply node_at_app_or in E. destruct E as [E|[L I]].
  - eapply T; eauto.
  - rewrite (H nd I) in Hc. destruct Hc.
Qed.

Lemma lit_val_of_nat : forall v k, 1 <= k -> lit_val v (Z.of_nat k) = v k.
Proof. intros v [|i] H. lia. simpl. now rewrite SuccNat2Pos.id_succ. Qed.

Lemma key_of_of_nat : forall k, key_of (Z.of_nat k) = k.
Proof. intros. unfold key_of. apply Zabs2Nat.id. Qed.

Lemma node_eqb_eq : forall x y, node_eqb x y = true -> x = y.
Proof.
  intros [i|c|c] [j|d|d] H; simpl in H; try discriminate.
  - apply N.eqb_eq in H. congruence.
  - destruct (list_eq_dec Z.eq_dec c d); congruence.
  - destruct (list_eq_dec Z.eq_dec c d); congruence.
Qed.

Lemma find_node_some : forall g nd st k, find_node g nd st = Some k -> st <= k /\ nth_error g (k - st) = Some nd.
Proof.
  induction g as [|x g IH]; intros nd st k H; simpl in H. discriminate.
  destruct (node_eqb x nd) eqn:E.
  - inversion H; subst. rewrite Nat.sub_diag. simpl. apply node_eqb_eq in E. subst. auto.
  - apply IH in H. destruct H as [H1 H2]. split. lia.
    replace (k - st) with (S (k - S st)) by lia. exact H2.
Qed.

Lemma find_node_at : forall g nd k, find_node g nd 1 = Some k -> node_at g k = Some nd /\ 1 <= k.
Proof.
  intros g nd k H. apply find_node_some in H. destruct H as [H1 H2].
  destruct k as [|i]. lia. simpl. replace (S i - 1) with i in H2 by lia. split; auto; lia.
Qed.

(* value of an existing node in a topologically ordered target *)
Lemma dv_node : forall t k nd, topo (t_nodes t) -> node_at (t_nodes t) k = Some nd ->
    dv t k = eval_node a (lit_val (dv t)) nd.
Proof.
  intros t k nd T E. unfold dv. rewrite (dag_val_supported (t_nodes t) a T k), E. reflexivity.
Qed.

(* ------------------------------------------------------------------ add_atom *)
Lemma atom_push_ok : forall t t' id rest,
    topo (t_nodes t) -> t_nodes t' = t_nodes t ++ NAtom id :: rest ->
    (forall nd, In nd rest -> children nd = []) ->
    ext t t' /\ topo (t_nodes t') /\ key_valid t' (Some (Z.of_nat (S (length (t_nodes t))))) /\
    val t' (Some (Z.of_nat (S (length (t_nodes t))))) = a id.
Proof.
  intros t t' id rest T E L. split; [|split; [|split]].
  - eexists; eauto.
  - rewrite E. apply topo_app_leaves; auto. intros nd [<-|H]; auto.
  - unfold key_valid. rewrite key_of_of_nat. rewrite E, app_length. simpl. lia.
  - unfold val, key_val. rewrite lit_val_of_nat by lia. unfold dv. rewrite E.
    replace (t_nodes t ++ NAtom id :: rest) with ((t_nodes t ++ [NAtom id]) ++ rest) by (rewrite <- app_assoc; reflexivity).
    rewrite dag_val_app by (rewrite app_length; simpl; lia).
    rewrite dag_val_snoc. reflexivity.
Qed.

Theorem t_add_atom_ok : forall ai t id t' k,
    topo (t_nodes t) -> t_add_atom ai t id = (t', k) ->
    ext t t' /\ topo (t_nodes t') /\ key_valid t' k /\ val t' k = a id.
Proof.
  intros ai t id t' k T H. unfold t_add_atom in H.
  destruct (find_node (t_nodes t) (NAtom id) 1) as [j|] eqn:F.
  - inversion H; subst. apply find_node_at in F. destruct F as [F J].
    split. apply ext_refl. split; auto. split.
    + unfold key_valid. rewrite key_of_of_nat. apply node_at_Some in F. lia.
    + unfold val, key_val. rewrite lit_val_of_nat by auto. rewrite (dv_node _ _ _ T F). reflexivity.
  - unfold push_node in H. simpl in H.
    destruct (assoc id (ai_group ai)) as [[grp is_extra]|].
    + destruct is_extra.
      * inversion H; subst. apply (atom_push_ok t _ id []); auto. intros nd [].
      * destruct (g_extra match assoc grp (t_groups t) with Some gs => gs | None => {| g_members := []; g_extra := None |} end) eqn:GE.
        { inversion H; subst. apply (atom_push_ok t _ id []); auto. intros nd []. }
        destruct (1 <? length (g_members match assoc grp (t_groups t) with Some gs => gs | None => {| g_members := []; g_extra := None |} end ++ [S (length (t_nodes t))])) eqn:LT.
        { destruct (assoc grp (ai_extra_id ai)) as [eid|].
          - inversion H; subst. apply (atom_push_ok t _ id [NAtom eid]); auto.
            simpl. rewrite <- app_assoc. reflexivity. intros nd [<-|[]]. reflexivity.
          - inversion H; subst. apply (atom_push_ok t _ id []); auto. intros nd []. }
        { inversion H; subst. apply (atom_push_ok t _ id []); auto. intros nd []. }
    + inversion H; subst. apply (atom_push_ok t _ id []); auto. intros nd [].
Qed.

(* ------------------------------------------------------------------ add_and / add_or *)
Lemma forallb_equiv : forall (f : Z -> bool) l1 l2, (forall x, In x l1 <-> In x l2) -> forallb f l1 = forallb f l2.
Proof.
  intros f l1 l2 H. destruct (forallb f l1) eqn:E1; destruct (forallb f l2) eqn:E2; auto.
  - rewrite forallb_forall in E1. assert (forallb f l2 = true) by (apply forallb_forall; intros; apply E1; apply H; auto). congruence.
  - rewrite forallb_forall in E2. assert (forallb f l1 = true) by (apply forallb_forall; intros; apply E2; apply H; auto). congruence.
Qed.

Lemma existsb_equiv : forall (f : Z -> bool) l1 l2, (forall x, In x l1 <-> In x l2) -> existsb f l1 = existsb f l2.
Proof.
  intros f l1 l2 H. destruct (existsb f l1) eqn:E1; destruct (existsb f l2) eqn:E2; auto.
  - apply existsb_exists in E1. destruct E1 as [x [I F]].
    assert (existsb f l2 = true) by (apply existsb_exists; exists x; split; auto; apply H; auto). congruence.
  - apply existsb_exists in E2. destruct E2 as [x [I F]].
    assert (existsb f l1 = true) by (apply existsb_exists; exists x; split; auto; apply H; auto). congruence.
Qed.

Lemma existsb_Zeqb_In : forall x l, existsb (Z.eqb x) l = true <-> In x l.
Proof.
  intros x l. rewrite existsb_exists. split.
  - intros [y [I E]]. apply Z.eqb_eq in E. subst; auto.
  - intros I. exists x. split; auto. apply Z.eqb_refl.
Qed.

Lemma dedupe_In : forall l seen x, In x (dedupe l seen) <-> In x l /\ ~ In x seen.
Proof.
  induction l as [|y l IH]; intros seen x; simpl. tauto.
  destruct (existsb (Z.eqb y) seen) eqn:E.
  - rewrite IH. apply existsb_Zeqb_In in E. split.
    + intros [H1 H2]; auto.
    + intros [[->|H1] H2]; auto. contradiction.
  - assert (NI : ~ In y seen). { intros H. apply existsb_Zeqb_In in H. congruence. }
    simpl. rewrite IH. simpl. split.
    + intros [->|[H1 H2]]; auto.
    + intros [[->|H1] H2]; auto. destruct (Z.eq_dec y x); auto. right. split; auto. intros [E'|H3]; auto.
Qed.

Lemma dedupe_nil_In : forall l x, In x (dedupe l []) <-> In x l.
Proof. intros. rewrite dedupe_In. simpl. tauto. Qed.

Lemma lit_val_opp : forall v x, x <> 0%Z -> lit_val v (- x) = negb (lit_val v x).
Proof. intros v [|p|p] H; simpl; auto. congruence. now rewrite negb_involutive. Qed.

Lemma has_opposites_and : forall v l, (forall x, In x l -> x <> 0%Z) -> has_opposites l = true -> forallb (lit_val v) l = false.
Proof.
  intros v l NZ H. unfold has_opposites in H. apply existsb_exists in H. destruct H as [x [I H]].
  apply existsb_Zeqb_In in H.
  destruct (forallb (lit_val v) l) eqn:E; auto. rewrite forallb_forall in E.
  assert (A := E x I). assert (B := E _ H). rewrite lit_val_opp in B by (apply NZ; auto). rewrite A in B. discriminate.
Qed.

Lemma has_opposites_or : forall v l, (forall x, In x l -> x <> 0%Z) -> has_opposites l = true -> existsb (lit_val v) l = true.
Proof.
  intros v l NZ H. unfold has_opposites in H. apply existsb_exists in H. destruct H as [x [I H]].
  apply existsb_Zeqb_In in H. apply existsb_exists.
  destruct (lit_val v x) eqn:A. exists x; auto.
  exists (- x)%Z. split; auto. rewrite lit_val_opp by (apply NZ; auto). now rewrite A.
Qed.

(* after the early exit on t and the filtering of f, the remaining literals carry the value *)
Lemma and_content : forall t content,
    existsb (key_eqb None) content = false ->
    forallb (val t) content = forallb (lit_val (dv t)) (keys_to_Z (filter (fun x => negb (key_eqb x (Some 0%Z))) content)).
Proof.
  intros t. unfold val. induction content as [|k content IH]; intros H; simpl in *; auto.
  apply orb_false_iff in H. destruct H as [H1 H2].
  destruct k as [c|]; simpl in *; [|discriminate].
  destruct (Z.eqb c 0) eqn:E; simpl.
  - apply Z.eqb_eq in E. subst. simpl. apply IH; auto.
  - rewrite IH; auto.
Qed.

Lemma or_content : forall t content,
    existsb (key_eqb (Some 0%Z)) content = false ->
    existsb (val t) content = existsb (lit_val (dv t)) (keys_to_Z (filter (fun x => negb (key_eqb x None)) content)).
Proof.
  intros t. unfold val. induction content as [|k content IH]; intros H; simpl in *; auto.
  apply orb_false_iff in H. destruct H as [H1 H2].
  destruct k as [c|]; simpl in *.
  - rewrite IH; auto.
  - apply IH; auto.
Qed.

Lemma and_content_props : forall t content x,
    Forall (key_valid t) content ->
    In x (keys_to_Z (filter (fun k => negb (key_eqb k (Some 0%Z))) content)) ->
    x <> 0%Z /\ key_of x <= length (t_nodes t).
Proof.
  intros t. induction content as [|k content IH]; intros x V I; simpl in *. destruct I.
  inversion V; subst. destruct k as [c|]; simpl in *.
  - destruct (Z.eqb c 0) eqn:E; simpl in *; auto.
    destruct I as [<-|I]; auto. split; auto. apply Z.eqb_neq; auto.
  - auto.
Qed.

Lemma or_content_props : forall t content x,
    Forall (key_valid t) content -> existsb (key_eqb (Some 0%Z)) content = false ->
    In x (keys_to_Z (filter (fun k => negb (key_eqb k None)) content)) ->
    x <> 0%Z /\ key_of x <= length (t_nodes t).
Proof.
  intros t. induction content as [|k content IH]; intros x V Z I; simpl in *. destruct I.
  inversion V; subst. apply orb_false_iff in Z. destruct Z as [Z1 Z2].
  destruct k as [c|]; simpl in *; auto.
  destruct I as [<-|I]; auto. split; auto. apply Z.eqb_neq; auto.
Qed.

(* adding (or finding) the node itself *)
Lemma node_add_ok : forall t nd t' k,
    topo (t_nodes t) -> (forall c, In c (children nd) -> key_of c <= length (t_nodes t)) ->
    match find_node (t_nodes t) nd 1 with
    | Some j => Some (t, Some (Z.of_nat j))
    | None => let (t1, j) := push_node t nd in Some (t1, Some (Z.of_nat j))
    end = Some (t', k) ->
    ext t t' /\ topo (t_nodes t') /\ key_valid t' k /\ val t' k = eval_node a (lit_val (dv t)) nd.
Proof.
  intros t nd t' k T V H. destruct (find_node (t_nodes t) nd 1) as [j|] eqn:F.
  - inversion H; subst. apply find_node_at in F. destruct F as [F J].
    split. apply ext_refl. split; auto. split.
    + unfold key_valid. rewrite key_of_of_nat. apply node_at_Some in F. lia.
    + unfold val, key_val. rewrite lit_val_of_nat by auto. apply dv_node; auto.
  - unfold push_node in H. inversion H; subst. clear H.
    split. { eexists. simpl. reflexivity. }
    split. { simpl. apply topo_snoc; auto. }
    split. { unfold key_valid. fold_ofnat. rewrite key_of_of_nat. simpl t_nodes. rewrite app_length. simpl. lia. }
    unfold val, key_val. fold_ofnat. rewrite lit_val_of_nat by lia. unfold dv. simpl t_nodes.
    apply dag_val_snoc.
Qed.

Theorem t_add_compound_ok : forall isand t content t' k,
    topo (t_nodes t) -> Forall (key_valid t) content ->
    t_add_compound isand t content = Some (t', k) ->
    ext t t' /\ topo (t_nodes t') /\ key_valid t' k /\
    val t' k = if isand then forallb (val t) content else existsb (val t) content.
Proof.
  intros isand t content t' k T V H. unfold t_add_compound in H.
  destruct content as [|k0 content0]; [discriminate|].
  set (content := k0 :: content0) in *.
  destruct isand.
  - (* conjunction: t = FALSE (None), f = TRUE (Some 0) *)
    destruct (existsb (key_eqb None) content) eqn:E1.
    { inversion H; subst. split. apply ext_refl. split; auto. split. exact I.
      symmetry. apply existsb_exists in E1. destruct E1 as [x [I E]].
      destruct x; simpl in E; try discriminate.
      destruct (forallb (val t') content) eqn:F; auto. rewrite forallb_forall in F. apply F in I. discriminate. }
    rewrite (and_content t content E1).
    set (c1 := keys_to_Z (filter (fun x => negb (key_eqb x (Some 0%Z))) content)) in *.
    assert (P : forall x, In x (dedupe c1 []) -> x <> 0%Z /\ key_of x <= length (t_nodes t)).
    { intros x I. apply (proj1 (dedupe_nil_In _ _)) in I. apply (and_content_props t content x V I). }
    rewrite <- (forallb_equiv (lit_val (dv t)) (dedupe c1 []) c1) by (apply dedupe_nil_In).
    destruct (dedupe c1 []) as [|x [|y r]] eqn:D.
    + inversion H; subst. split. apply ext_refl. split; auto. split. simpl. unfold key_of. simpl. lia. reflexivity.
    + destruct (has_opposites [x]) eqn:O.
      * inversion H; subst. split. apply ext_refl. split; auto. split. exact I.
        symmetry. apply has_opposites_and; auto. intros z Hz. apply P; auto.
      * inversion H; subst. split. apply ext_refl. split; auto. split. simpl. apply P. left; auto.
        unfold val. simpl. now rewrite andb_true_r.
    + destruct (has_opposites (x :: y :: r)) eqn:O.
      * inversion H; subst. split. apply ext_refl. split; auto. split. exact I.
        symmetry. apply has_opposites_and; auto. intros z Hz. apply P; auto.
      * apply (node_add_ok t (NAnd (x :: y :: r)) t' k T); auto. intros c Hc. apply P; auto.
  - (* disjunction: t = TRUE (Some 0), f = FALSE (None) *)
    destruct (existsb (key_eqb (Some 0%Z)) content) eqn:E1.
    { inversion H; subst. split. apply ext_refl. split; auto. split. simpl. unfold key_of. simpl. lia.
      symmetry. apply existsb_exists in E1. destruct E1 as [x [I E]].
      apply existsb_exists. exists x. split; auto. destruct x as [c|]; simpl in E; try discriminate.
      destruct c; try discriminate. reflexivity. }
    rewrite (or_content t content E1).
    set (c1 := keys_to_Z (filter (fun x => negb (key_eqb x None)) content)) in *.
    assert (P : forall x, In x (dedupe c1 []) -> x <> 0%Z /\ key_of x <= length (t_nodes t)).
    { intros x I. apply (proj1 (dedupe_nil_In _ _)) in I. apply (or_content_props t content x V E1 I). }
    rewrite <- (existsb_equiv (lit_val (dv t)) (dedupe c1 []) c1) by (apply dedupe_nil_In).
    destruct (dedupe c1 []) as [|x [|y r]] eqn:D.
    + inversion H; subst. split. apply ext_refl. split; auto. split. exact I. reflexivity.
    + destruct (has_opposites [x]) eqn:O.
      * inversion H; subst. split. apply ext_refl. split; auto. split. simpl. unfold key_of. simpl. lia.
        symmetry. apply has_opposites_or; auto. intros z Hz. apply P; auto.
      * inversion H; subst. split. apply ext_refl. split; auto. split. simpl. apply P. left; auto.
        unfold val. simpl. now rewrite orb_false_r.
    + destruct (has_opposites (x :: y :: r)) eqn:O.
      * inversion H; subst. split. apply ext_refl. split; auto. split. simpl. unfold key_of. simpl. lia.
        symmetry. apply has_opposites_or; auto. intros z Hz. apply P; auto.
      * apply (node_add_ok t (NOr (x :: y :: r)) t' k T); auto. intros c Hc. apply P; auto.
Qed.

End Builder.
