(* Correctness of the model of _break_cycles (CyclesModel.bc), WITH the
   `translation` memo and its reuse test, for graphs with negation only across
   strata: every key returned for a top-level call has, in the DAG built, the
   value the (stable = perfect) model of the cyclic source gives the node.

   Invariant carried through the recursion, for the node n reached with
   ancestors anc and the key k returned (positive occurrence):
       val_avoiding anc n  <=  value of k  <=  model value of n
   plus, for the memo: for every set B that contains the cycles broken below
   (other than n itself), val_avoiding B n <= value of k.  The reuse test
   `cb <= ancset` is what makes a memoised node satisfy the lower bound in the
   new context; the upper bound holds for every node ever built.  At top level
   (anc = []) lower and upper bound coincide. *)
From Coq Require Import ZArith NArith List Bool Lia Arith.
From PL.C09 Require Import BoolGraph Avoid CyclesModel BuilderProofs.
Import ListNotations.

(* ------------------------------------------------------------------ list-sets *)
Lemma mem_In : forall x l, mem x l = true <-> In x l.
Proof.
  intros x l. unfold mem. rewrite existsb_exists. split.
  - intros [y [I E]]. apply Nat.eqb_eq in E. subst; auto.
  - intros I. exists x. split; auto. apply Nat.eqb_refl.
Qed.

Lemma union_In : forall a b x, In x (union a b) <-> In x a \/ In x b.
Proof.
  intros a b x. unfold union. rewrite in_app_iff, filter_In. split.
  - intros [H|[H _]]; auto.
  - intros [H|H]; auto. destruct (mem x a) eqn:E. left. apply mem_In; auto. right. split; auto.
Qed.

Lemma subset_In : forall a b, subset a b = true -> forall x, In x a -> In x b.
Proof. intros a b H x I. unfold subset in H. rewrite forallb_forall in H. apply mem_In. auto. Qed.

Definition rm (n : nat) (l : list nat) : list nat := filter (fun x => negb (x =? n)) l.

Lemma rm_In : forall n l x, In x (rm n l) <-> In x l /\ x <> n.
Proof.
  intros n l x. unfold rm. rewrite filter_In. rewrite negb_true_iff, Nat.eqb_neq. tauto.
Qed.

(* ------------------------------------------------------------------ memo *)
Lemma memo_get_add : forall m n e n',
    memo_get (memo_add m n e) n' =
    if Nat.eqb n n' then Some (match memo_get m n with Some es => es ++ [e] | None => [e] end) else memo_get m n'.
Proof.
  induction m as [|[k es] m IH]; intros n e n'; simpl.
  - destruct (Nat.eqb n n') eqn:E; auto.
  - destruct (Nat.eqb k n) eqn:E1; simpl.
    + apply Nat.eqb_eq in E1. subst k. destruct (Nat.eqb n n') eqn:E2; auto.
    + destruct (Nat.eqb k n') eqn:E2.
      * apply Nat.eqb_eq in E2. subst k. rewrite Nat.eqb_sym in E1. now rewrite E1.
      * apply IH.
Qed.

Lemma memo_find_some : forall es A e, memo_find es A = Some e ->
    In e es /\ subset (snd (fst e)) A = true.
Proof.
  induction es as [|[[nk cb] cn] es IH]; intros A e H; simpl in H. discriminate.
  destruct (subset cb A && disjoint A cn) eqn:E.
  - inversion H; subst. split. left; auto. simpl. apply andb_true_iff in E. tauto.
  - apply IH in H. destruct H. split; auto. right; auto.
Qed.

Definition child_step (f : nat) (tc : bool) (use_memo : bool) (src : graph) (ai : atom_info) (is_ev : bool) (anc' : list nat)
           (acc : option (tgt * memo * list key * list nat * list nat)) (child : Z)
  : option (tgt * memo * list key * list nat * list nat) :=
  match acc with
  | None => None
  | Some (t0, m0, ks, cb, cn) =>
    match bc f tc use_memo src ai is_ev t0 m0 child anc' with
    | None => None
    | Some r => Some (r_tgt r, r_memo r, ks ++ [r_key r], union cb (r_cb r), union cn (r_cn r))
    end
  end.

Lemma bc_unfold : forall f tc um src ai is_ev t m nodeid anc,
    bc (S f) tc um src ai is_ev t m nodeid anc =
    let neg := (nodeid <? 0)%Z in
    let n := Z.abs_nat nodeid in
    let out (k : key) := if neg then knegate k else k in
    if (n =? 0) && (tc || negb is_ev) then Some (mk_result t m (Some 0%Z) [] [])
    else if mem n anc then Some (mk_result t m None [n] [])
    else
      let reuse := if um then
                     match memo_get m n with
                     | Some es => memo_find es (anc ++ [n])
                     | None => None
                     end
                   else None in
      match reuse with
      | Some (nk, cb, cn) => Some (mk_result t m (out nk) cb cn)
      | None =>
        match node_at src n with
        | None => None
        | Some (NAtom id) =>
          let (t1, nk) := t_add_atom ai t id in
          Some (mk_result t1 (memo_add m n (nk, [], [])) (out nk) [] [])
        | Some nd =>
          let isand := match nd with NAnd _ => true | _ => false end in
          match fold_left (child_step f tc um src ai is_ev (anc ++ [n])) (children nd) (Some (t, m, [], [], [])) with
          | None => None
          | Some (t1, m1, ks, ccb, ccn) =>
            match t_add_compound isand t1 ks with
            | None => None
            | Some (t2, nk) =>
              let cn_out := if is_prob nk then union ccn [n] else ccn in
              Some (mk_result t2 (memo_add m1 n (nk, ccb, diff ccn ccb)) (out nk) ccb cn_out)
            end
          end
        end
      end.
Proof. reflexivity. Qed.

Lemma child_step_none : forall f tc um src ai is_ev anc' cs,
    fold_left (child_step f tc um src ai is_ev anc') cs None = None.
Proof. induction cs; simpl; auto. Qed.

(* ------------------------------------------------------------------ Forall2 helpers *)
Lemma forallb_F2 : forall (A B : Type) (R : A -> B -> Prop) (f : A -> bool) (g : B -> bool) l1 l2,
    Forall2 R l1 l2 -> (forall x y, R x y -> f x = true -> g y = true) ->
    forallb f l1 = true -> forallb g l2 = true.
Proof.
  intros A B R f g l1 l2 H HR. induction H; simpl; auto.
  intros E. apply andb_true_iff in E. destruct E as [E1 E2]. rewrite (HR x y H E1). simpl. auto.
Qed.

Lemma existsb_F2 : forall (A B : Type) (R : A -> B -> Prop) (f : A -> bool) (g : B -> bool) l1 l2,
    Forall2 R l1 l2 -> (forall x y, R x y -> f x = true -> g y = true) ->
    existsb f l1 = true -> existsb g l2 = true.
Proof.
  intros A B R f g l1 l2 H HR. induction H; simpl; auto.
  intros E. apply orb_true_iff in E. destruct E as [E1|E2].
  - rewrite (HR x y H E1). reflexivity.
  - rewrite IHForall2 by auto. apply orb_true_r.
Qed.

Lemma Forall2_flip : forall (A B : Type) (R : A -> B -> Prop) l1 l2, Forall2 R l1 l2 -> Forall2 (fun y x => R x y) l2 l1.
Proof. intros A B R l1 l2 H. induction H; constructor; auto. Qed.

Lemma Forall2_impl : forall (A B : Type) (R R' : A -> B -> Prop) l1 l2,
    (forall x y, R x y -> R' x y) -> Forall2 R l1 l2 -> Forall2 R' l1 l2.
Proof. intros A B R R' l1 l2 H F. induction F; constructor; auto. Qed.

Lemma Forall2_right : forall (A B : Type) (R : A -> B -> Prop) (P : B -> Prop) l1 l2,
    (forall x y, R x y -> P y) -> Forall2 R l1 l2 -> Forall P l2.
Proof. intros A B R P l1 l2 H F. induction F; constructor; eauto. Qed.

Section Correct.
Variable src : graph.
Variable a : N -> bool.
Variable s : nat -> bool.
Variable lvl : nat -> nat.
Hypothesis M : is_model src a s.
Hypothesis ST : forall k nd c, node_at src k = Some nd -> In c (children nd) ->
                               ((0 < c)%Z -> lvl (key_of c) <= lvl k) /\ ((c < 0)%Z -> lvl (key_of c) < lvl k).
Variable ai : atom_info.
Variable tc : bool.
Variable use_memo : bool.
Variable is_ev : bool.

Notation LA := (val_avoiding src a s).
Notation V := (val a).

Definition pos_post (t : tgt) (n : nat) (anc : list nat) (k : key) (cb : list nat) : Prop :=
  (V t k = true -> s n = true) /\
  (LA anc n = true -> V t k = true) /\
  (forall B, (forall x, In x cb -> (x <> n \/ In n anc) -> In x B) -> LA B n = true -> V t k = true).

Definition lit_post (t : tgt) (c : Z) (anc : list nat) (k : key) (cb : list nat) : Prop :=
  match c with
  | Z0 => V t k = true
  | Zpos p => pos_post t (Pos.to_nat p) anc k cb
  | Zneg p => V t k = negb (s (Pos.to_nat p))
  end.

Definition entry_ok (t : tgt) (n : nat) (e : memo_entry) : Prop :=
  1 <= n /\ key_valid t (fst (fst e)) /\
  (V t (fst (fst e)) = true -> s n = true) /\
  (LA (rm n (snd (fst e))) n = true -> V t (fst (fst e)) = true).

Definition memo_ok (t : tgt) (m : memo) : Prop :=
  forall n es e, memo_get m n = Some es -> In e es -> entry_ok t n e.

Definition anc_ok (c : Z) (anc : list nat) : Prop :=
  forall x, In x anc -> 1 <= x /\ ((0 < c)%Z -> lvl (key_of c) <= lvl x) /\ ((c < 0)%Z -> lvl (key_of c) < lvl x).

Definition post (t : tgt) (c : Z) (anc : list nat) (r : bc_result) : Prop :=
  ext t (r_tgt r) /\ topo (t_nodes (r_tgt r)) /\ memo_ok (r_tgt r) (r_memo r) /\
  key_valid (r_tgt r) (r_key r) /\ lit_post (r_tgt r) c anc (r_key r) (r_cb r).

Lemma entry_ok_ext : forall t t' n e, ext t t' -> entry_ok t n e -> entry_ok t' n e.
Proof.
  intros t t' n e E [H1 [H2 [H3 H4]]]. unfold entry_ok.
  rewrite (val_ext a t t' _ E H2). split; auto. split; auto. eapply key_valid_ext; eauto.
Qed.

Lemma memo_ok_ext : forall t t' m, ext t t' -> memo_ok t m -> memo_ok t' m.
Proof. intros t t' m E H n es e G I. eapply entry_ok_ext; eauto. Qed.

Lemma memo_ok_add : forall t m n e, memo_ok t m -> entry_ok t n e -> memo_ok t (memo_add m n e).
Proof.
  intros t m n e H E n' es e' G I. rewrite memo_get_add in G.
  destruct (Nat.eqb n n') eqn:Q.
  - apply Nat.eqb_eq in Q. subst n'. inversion G; subst. clear G.
    destruct (memo_get m n) as [es0|] eqn:G0.
    + apply in_app_or in I. destruct I as [I|[<-|[]]]; auto. eapply H; eauto.
    + destruct I as [<-|[]]; auto.
  - eapply H; eauto.
Qed.

Lemma pos_post_ext : forall t t' n anc k cb cb', ext t t' -> key_valid t k ->
    (forall x, In x cb -> In x cb') -> pos_post t n anc k cb -> pos_post t' n anc k cb'.
Proof.
  intros t t' n anc k cb cb' E K S [H1 [H2 H3]]. unfold pos_post. rewrite (val_ext a t t' k E K).
  split; auto. split; auto. intros B HB. apply H3. intros x I. apply HB. auto.
Qed.

Lemma lit_post_ext : forall t t' c anc k cb cb', ext t t' -> key_valid t k ->
    (forall x, In x cb -> In x cb') -> lit_post t c anc k cb -> lit_post t' c anc k cb'.
Proof.
  intros t t' c anc k cb cb' E K S H. destruct c; simpl in *.
  - rewrite (val_ext a t t' k E K). auto.
  - eapply pos_post_ext; eauto.
  - rewrite (val_ext a t t' k E K). auto.
Qed.

Lemma s_supported : forall k nd, node_at src k = Some nd -> s k = eval_node a (lit_val s) nd.
Proof. intros k nd E. rewrite (model_supported src a s M k), E. reflexivity. Qed.

(* from the bounds on the positive key to the literal actually requested *)
Lemma finish : forall t c anc nk cb,
    c <> 0%Z -> anc_ok c anc -> key_valid t nk -> pos_post t (key_of c) anc nk cb ->
    key_valid t (if (c <? 0)%Z then knegate nk else nk) /\
    lit_post t c anc (if (c <? 0)%Z then knegate nk else nk) cb.
Proof.
  intros t c anc nk cb NZ AO K P. destruct c as [|p|p]; [congruence| |].
  - simpl. split; auto.
  - change (Z.neg p <? 0)%Z with true. cbv iota. split. apply key_valid_knegate; auto.
    simpl. unfold val. rewrite key_val_knegate. f_equal.
    destruct P as [U [L _]]. rewrite key_of_neg in *.
    fold (val a t nk).
    destruct (V t nk) eqn:E.
    + symmetry. auto.
    + destruct (s (Pos.to_nat p)) eqn:E2; auto.
      assert (X : LA anc (Pos.to_nat p) = true).
      { rewrite (val_avoiding_level src a s lvl anc (lvl (Pos.to_nat p)) ST); auto.
        - rewrite val_avoiding_nil_model; auto.
        - intros x I. destruct (AO x I) as [_ [_ H]]. rewrite key_of_neg in H. apply H. lia. }
      apply L in X. congruence.
Qed.

(* ------------------------------------------------------------------ the children loop *)
Definition child_ok (t : tgt) (anc' : list nat) (cb : list nat) (c : Z) (k : key) : Prop :=
  key_valid t k /\ lit_post t c anc' k cb.

Lemma children_ok : forall f anc',
    (forall t m c r, topo (t_nodes t) -> memo_ok t m -> anc_ok c anc' ->
                     bc f tc use_memo src ai is_ev t m c anc' = Some r -> post t c anc' r) ->
    forall cs t0 m0 ks0 cb0 cn0 t1 m1 ks ccb ccn,
      topo (t_nodes t0) -> memo_ok t0 m0 -> (forall c, In c cs -> anc_ok c anc') ->
      fold_left (child_step f tc use_memo src ai is_ev anc') cs (Some (t0, m0, ks0, cb0, cn0)) = Some (t1, m1, ks, ccb, ccn) ->
      ext t0 t1 /\ topo (t_nodes t1) /\ memo_ok t1 m1 /\ (forall x, In x cb0 -> In x ccb) /\
      exists ks', ks = ks0 ++ ks' /\ Forall2 (child_ok t1 anc' ccb) cs ks'.
Proof.
  intros f anc' IHf. induction cs as [|c cs IH]; intros t0 m0 ks0 cb0 cn0 t1 m1 ks ccb ccn T MO AO H; simpl in H.
  - inversion H; subst. split. apply ext_refl. split; auto. split; auto. split; auto.
    exists []. split. now rewrite app_nil_r. constructor.
  - destruct (bc f tc use_memo src ai is_ev t0 m0 c anc') as [r|] eqn:B.
    2: { rewrite child_step_none in H. discriminate. }
    assert (P : post t0 c anc' r). { apply (IHf t0 m0 c r); auto. apply AO. left; auto. }
    destruct P as [E [T' [MO' [K L]]]].
    apply IH in H; auto.
    2: { intros c' I. apply AO. right; auto. }
    destruct H as [E1 [T1 [MO1 [S1 [ks' [EQ F]]]]]].
    split. eapply ext_trans; eauto. split; auto. split; auto.
    split. { intros x I. apply S1. apply union_In. left; auto. }
    exists (r_key r :: ks'). split. { rewrite EQ. rewrite <- app_assoc. reflexivity. }
    constructor; auto. split. eapply key_valid_ext; eauto.
    apply (lit_post_ext (r_tgt r) t1 c anc' (r_key r) (r_cb r) ccb); auto.
    intros x I. apply S1. apply union_In. right; auto.
Qed.

(* value of a compound node from the values of its children *)
Lemma compound_post : forall t1 n anc nd (isand : bool) cs ks ccb t2 nk,
    node_at src n = Some nd -> nd = (if isand then NAnd cs else NOr cs) -> ~ In n anc ->
    Forall2 (child_ok t1 (anc ++ [n]) ccb) cs ks ->
    ext t1 t2 -> key_valid t2 nk ->
    V t2 nk = (if isand then forallb (V t1) ks else existsb (V t1) ks) ->
    pos_post t2 n anc nk ccb.
Proof.
  intros t1 n anc nd isand cs ks ccb t2 nk E ND NI F EX K VAL.
  assert (EV : forall lv, eval_node a lv nd = if isand then forallb lv cs else existsb lv cs).
  { intros lv. rewrite ND. destruct isand; reflexivity. }
  (* lower bound for any blocked set B' covering n and what the children need *)
  assert (LOW : forall B', ~ In n B' -> (forall x, In x ccb -> x <> n -> In x B') ->
                           LA B' n = true -> V t2 nk = true).
  { intros B' NB HB X. rewrite (val_avoiding_unfold src a s B' n nd E NB) in X. rewrite EV in X. rewrite VAL.
    assert (STEP : forall c k, child_ok t1 (anc ++ [n]) ccb c k -> rlit_val s (LA (n :: B')) c = true -> V t1 k = true).
    { intros c k [Kc Lc] R. destruct c as [|p|p]; simpl in *; auto.
      - destruct Lc as [_ [_ L3]]. apply (L3 (n :: B')); auto.
        intros x I NE. destruct (Nat.eq_dec x n) as [->|NN]. left; auto. right. apply HB; auto.
      - rewrite Lc. exact R. }
    destruct isand.
    - eapply forallb_F2; eauto.
    - eapply existsb_F2; eauto. }
  split; [|split].
  - (* upper bound *)
    intros X. rewrite (s_supported n nd E). rewrite EV. rewrite VAL in X.
    assert (STEP : forall k c, child_ok t1 (anc ++ [n]) ccb c k -> V t1 k = true -> lit_val s c = true).
    { intros k c [Kc Lc] R. destruct c as [|p|p]; simpl in *; auto.
      - destruct Lc as [U _]. auto.
      - rewrite Lc in R. exact R. }
    apply Forall2_flip in F.
    destruct isand.
    + eapply forallb_F2; eauto.
    + eapply existsb_F2; eauto.
  - (* lower bound in the current context *)
    intros X. rewrite (val_avoiding_unfold src a s anc n nd E NI) in X. rewrite EV in X. rewrite VAL.
    assert (STEP : forall c k, child_ok t1 (anc ++ [n]) ccb c k -> rlit_val s (LA (n :: anc)) c = true -> V t1 k = true).
    { intros c k [Kc Lc] R. destruct c as [|p|p]; simpl in *; auto.
      - destruct Lc as [_ [L2 _]]. apply L2.
        rewrite (val_avoiding_ext src a s (anc ++ [n]) (n :: anc)); auto.
        intros x. rewrite in_app_iff. simpl. tauto.
      - rewrite Lc. exact R. }
    destruct isand.
    + eapply forallb_F2; eauto.
    + eapply existsb_F2; eauto.
  - intros B HB X. destruct (in_dec Nat.eq_dec n B) as [I|NB].
    + rewrite val_avoiding_blocked in X by auto. discriminate.
    + apply (LOW B); auto.
Qed.

(* ------------------------------------------------------------------ the recursion *)
Theorem bc_ok : forall fuel t m c anc r,
    topo (t_nodes t) -> memo_ok t m -> anc_ok c anc ->
    bc fuel tc use_memo src ai is_ev t m c anc = Some r -> post t c anc r.
Proof.
  induction fuel as [|f IHf]; intros t m c anc r T MO AO H. discriminate.
  rewrite bc_unfold in H. cbv zeta in H.
  set (n := Z.abs_nat c) in *.
  assert (KN : key_of c = n) by reflexivity.
  destruct ((n =? 0) && (tc || negb is_ev)) eqn:C0.
  { (* TRUE child *)
    apply andb_true_iff in C0. destruct C0 as [C0 _]. apply Nat.eqb_eq in C0.
    assert (c = 0%Z) by (unfold n in C0; lia). subst c.
    inversion H; subst. split. apply ext_refl. split; auto. split; auto.
    split. simpl. unfold key_of. simpl. lia. reflexivity. }
  destruct (mem n anc) eqn:MA.
  { (* ancestor: cycle broken, node is False *)
    apply mem_In in MA. inversion H; subst. clear H.
    split. apply ext_refl. split; auto. split; auto. split. exact I.
    destruct (AO n MA) as [N1 [AP AN]].
    destruct c as [|p|p]; simpl.
    - unfold n in N1. simpl in N1. lia.
    - fold n. split. discriminate. split.
      + intros X. rewrite val_avoiding_blocked in X by auto. discriminate.
      + intros B HB X. rewrite val_avoiding_blocked in X. discriminate.
        apply HB. left; auto. right; auto.
    - rewrite KN in AN. assert (lvl n < lvl n) by (apply AN; lia). lia. }
  (* not an ancestor *)
  assert (NI : ~ In n anc). { intros I. apply mem_In in I. congruence. }
  destruct (if use_memo then match memo_get m n with Some es => memo_find es (anc ++ [n]) | None => None end else None)
    as [[[nk cb] cn]|] eqn:RU.
  { (* memo reuse *)
    destruct use_memo; [|discriminate].
    destruct (memo_get m n) as [es|] eqn:G; [|discriminate].
    apply memo_find_some in RU. destruct RU as [I SUB]. simpl in SUB.
    destruct (MO n es _ G I) as [N1 [K [U L]]]. simpl in *.
    assert (CN : c <> 0%Z). { intros ->. unfold n in N1. simpl in N1. lia. }
    inversion H; subst. clear H.
    split. apply ext_refl. split; auto. split; auto.
    apply (finish t c anc nk cb CN AO K). rewrite KN.
    split; auto. split.
    - intros X. apply L. revert X. apply val_avoiding_antitone.
      intros x Hx. apply rm_In in Hx. destruct Hx as [Hx NE].
      apply (subset_In _ _ SUB) in Hx. apply in_app_or in Hx. destruct Hx as [Hx|[Hx|[]]]; auto. congruence.
    - intros B HB X. apply L. revert X. apply val_avoiding_antitone.
      intros x Hx. apply rm_In in Hx. destruct Hx as [Hx NE]. apply HB; auto. }
  destruct (node_at src n) as [nd|] eqn:E; [|discriminate].
  assert (N1 : 1 <= n) by (apply node_at_Some in E; tauto).
  assert (CN : c <> 0%Z). { intros ->. unfold n in N1. simpl in N1. lia. }
  destruct nd as [id|cs|cs].
  - (* atom *)
    destruct (t_add_atom ai t id) as [t1 nk] eqn:TA. inversion H; subst. clear H. simpl.
    destruct (t_add_atom_ok a ai t id t1 nk T TA) as [EX [T1 [K VA]]].
    assert (SN : s n = a id). { rewrite (s_supported n _ E). reflexivity. }
    assert (LB : forall B, LA B n = true -> V t1 nk = true).
    { intros B X. rewrite val_avoiding_fix, E in X. rewrite VA. destruct (blkset B n); [discriminate|exact X]. }
    split; auto. split; auto. split.
    { apply memo_ok_add. eapply memo_ok_ext; eauto.
      split; auto. split; auto. simpl. split. rewrite VA, SN; auto. apply LB. }
    apply (finish t1 c anc nk [] CN AO K). rewrite KN.
    split. rewrite VA, SN; auto. split. apply LB. intros B _. apply LB.
  - (* conjunction *)
    simpl in H.
    destruct (fold_left (child_step f tc use_memo src ai is_ev (anc ++ [n])) cs (Some (t, m, [], [], [])))
      as [[[[[t1 m1] ks] ccb] ccn]|] eqn:FL; [|discriminate].
    destruct (t_add_compound true t1 ks) as [[t2 nk]|] eqn:TC; [|discriminate].
    inversion H; subst. clear H. simpl.
    assert (AO' : forall c', In c' cs -> anc_ok c' (anc ++ [n])).
    { intros c' I x Hx. destruct (ST n _ c' E I) as [SP SN].
      apply in_app_or in Hx. destruct Hx as [Hx|[<-|[]]].
      - destruct (AO x Hx) as [X1 [XP XN]]. split; auto. rewrite KN in *.
        destruct c as [|p|p]; try congruence.
        + assert (lvl n <= lvl x) by (apply XP; lia). split; intros; [apply SP in H0|apply SN in H0]; lia.
        + assert (lvl n < lvl x) by (apply XN; lia). split; intros; [apply SP in H0|apply SN in H0]; lia.
      - split; auto. }
    destruct (children_ok f (anc ++ [n]) (fun t m c r => IHf t m c (anc ++ [n]) r) cs t m [] [] [] t1 m1 ks ccb ccn T MO AO' FL)
      as [EX1 [T1 [MO1 [_ [ks' [EQ F]]]]]].
    simpl in EQ. subst ks'.
    assert (VK : Forall (key_valid t1) ks).
    { eapply Forall2_right; [|exact F]. intros x y [Ky _]. exact Ky. }
    destruct (t_add_compound_ok a true t1 ks t2 nk T1 VK TC) as [EX2 [T2 [K VAL]]].
    assert (PP : pos_post t2 n anc nk ccb).
    { eapply (compound_post t1 n anc (NAnd cs) true cs ks ccb t2 nk); eauto. }
    split. eapply ext_trans; eauto. split; auto. split.
    { apply memo_ok_add. eapply memo_ok_ext; eauto.
      split; auto. split; auto. simpl. destruct PP as [U [_ L3]]. split; auto.
      apply L3. intros x I [NE|IA]; [apply rm_In; auto | contradiction]. }
    apply (finish t2 c anc nk ccb CN AO K). rewrite KN. exact PP.
  - (* disjunction *)
    simpl in H.
    destruct (fold_left (child_step f tc use_memo src ai is_ev (anc ++ [n])) cs (Some (t, m, [], [], [])))
      as [[[[[t1 m1] ks] ccb] ccn]|] eqn:FL; [|discriminate].
    destruct (t_add_compound false t1 ks) as [[t2 nk]|] eqn:TC; [|discriminate].
    inversion H; subst. clear H. simpl.
    assert (AO' : forall c', In c' cs -> anc_ok c' (anc ++ [n])).
    { intros c' I x Hx. destruct (ST n _ c' E I) as [SP SN].
      apply in_app_or in Hx. destruct Hx as [Hx|[<-|[]]].
      - destruct (AO x Hx) as [X1 [XP XN]]. split; auto. rewrite KN in *.
        destruct c as [|p|p]; try congruence.
        + assert (lvl n <= lvl x) by (apply XP; lia). split; intros; [apply SP in H0|apply SN in H0]; lia.
        + assert (lvl n < lvl x) by (apply XN; lia). split; intros; [apply SP in H0|apply SN in H0]; lia.
      - split; auto. }
    destruct (children_ok f (anc ++ [n]) (fun t m c r => IHf t m c (anc ++ [n]) r) cs t m [] [] [] t1 m1 ks ccb ccn T MO AO' FL)
      as [EX1 [T1 [MO1 [_ [ks' [EQ F]]]]]].
    simpl in EQ. subst ks'.
    assert (VK : Forall (key_valid t1) ks).
    { eapply Forall2_right; [|exact F]. intros x y [Ky _]. exact Ky. }
    destruct (t_add_compound_ok a false t1 ks t2 nk T1 VK TC) as [EX2 [T2 [K VAL]]].
    assert (PP : pos_post t2 n anc nk ccb).
    { eapply (compound_post t1 n anc (NOr cs) false cs ks ccb t2 nk); eauto. }
    split. eapply ext_trans; eauto. split; auto. split.
    { apply memo_ok_add. eapply memo_ok_ext; eauto.
      split; auto. split; auto. simpl. destruct PP as [U [_ L3]]. split; auto.
      apply L3. intros x I [NE|IA]; [apply rm_In; auto | contradiction]. }
    apply (finish t2 c anc nk ccb CN AO K). rewrite KN. exact PP.
Qed.

(* at top level (no ancestors) the bounds meet: the key has the model value of the literal *)
Corollary bc_top_value : forall fuel t m c r,
    topo (t_nodes t) -> memo_ok t m ->
    bc fuel tc use_memo src ai is_ev t m c [] = Some r ->
    ext t (r_tgt r) /\ topo (t_nodes (r_tgt r)) /\ memo_ok (r_tgt r) (r_memo r) /\ key_valid (r_tgt r) (r_key r) /\
    V (r_tgt r) (r_key r) = lit_val s c.
Proof.
  intros fuel t m c r T MO H.
  destruct (bc_ok fuel t m c [] r T MO (fun x (I : In x []) => match I with end) H) as [E [T' [MO' [K L]]]].
  split; auto. split; auto. split; auto. split; auto.
  destruct c as [|p|p]; simpl in *; auto.
  destruct L as [U [L2 _]]. rewrite val_avoiding_nil_model in L2 by auto.
  destruct (V (r_tgt r) (r_key r)) eqn:E1; destruct (s (Pos.to_nat p)) eqn:E2; auto;
    try (symmetry; auto; fail); try (apply L2; reflexivity).
Qed.

End Correct.

(* ------------------------------------------------------------------ break_cycles: both passes *)
Section Top.
Variable src : graph.
Variable a : N -> bool.
Variable s : nat -> bool.
Variable lvl : nat -> nat.
Hypothesis M : is_model src a s.
Hypothesis ST : forall k nd c, node_at src k = Some nd -> In c (children nd) ->
                               ((0 < c)%Z -> lvl (key_of c) <= lvl k) /\ ((c < 0)%Z -> lvl (key_of c) < lvl k).
Variable ai : atom_info.
Variable tc : bool.
Variable use_memo : bool.

Definition key_ok (t : tgt) (n k : key) : Prop := key_valid t k /\ val a t k = key_val s n.

Lemma key_ok_ext : forall t t' n k, ext t t' -> key_ok t n k -> key_ok t' n k.
Proof.
  intros t t' n k E [K V]. split. eapply key_valid_ext; eauto. rewrite (val_ext a t t' k E K). exact V.
Qed.

Lemma bc_top_ok : forall is_ev t m ks n t' m' ks',
    topo (t_nodes t) -> memo_ok src a s t m ->
    bc_top tc use_memo src ai is_ev (Some (t, m, ks)) n = Some (t', m', ks') ->
    ext t t' /\ topo (t_nodes t') /\ memo_ok src a s t' m' /\ exists k, ks' = ks ++ [k] /\ key_ok t' n k.
Proof.
  intros is_ev t m ks n t' m' ks' T MO H. unfold bc_top in H.
  destruct n as [c|].
  - destruct (is_prob (Some c)) eqn:P.
    + destruct (bc (S (S (length src))) tc use_memo src ai is_ev t m (if is_ev then Z.abs c else c) []) as [r|] eqn:B; [|discriminate].
      inversion H; subst. clear H.
      destruct (bc_top_value src a s lvl M ST ai tc use_memo is_ev _ t m _ r T MO B) as [E [T' [MO' [K V]]]].
      split; auto. split; auto. split; auto.
      eexists. split. reflexivity.
      destruct is_ev; simpl.
      * destruct (c <? 0)%Z eqn:NEG.
        { split. apply key_valid_knegate; auto. unfold val. rewrite key_val_knegate. fold (val a (r_tgt r) (r_key r)).
          rewrite V. apply Z.ltb_lt in NEG. destruct c as [|p|p]; try lia. simpl. reflexivity. }
        { split; auto. rewrite V. apply Z.ltb_ge in NEG. destruct c as [|p|p]; try lia; reflexivity. }
      * split; auto.
    + inversion H; subst. split. apply ext_refl. split; auto. split; auto.
      eexists. split. reflexivity. destruct c as [|p|p]; try discriminate.
      split. simpl. unfold key_of. simpl. lia. reflexivity.
  - inversion H; subst. split. apply ext_refl. split; auto. split; auto.
    eexists. split. reflexivity. split. exact I. reflexivity.
Qed.

Lemma bc_top_none : forall is_ev ns, fold_left (bc_top tc use_memo src ai is_ev) ns None = None.
Proof. induction ns; simpl; auto. Qed.

Lemma bc_top_fold : forall is_ev ns t m ks t' m' ks',
    topo (t_nodes t) -> memo_ok src a s t m ->
    fold_left (bc_top tc use_memo src ai is_ev) ns (Some (t, m, ks)) = Some (t', m', ks') ->
    ext t t' /\ topo (t_nodes t') /\ exists ks'', ks' = ks ++ ks'' /\ Forall2 (key_ok t') ns ks''.
Proof.
  intros is_ev. induction ns as [|n ns IH]; intros t m ks t' m' ks' T MO H.
  - change (Some (t, m, ks) = Some (t', m', ks')) in H.
    inversion H; subst. split. apply ext_refl. split; auto. exists []. split. now rewrite app_nil_r. constructor.
  - change (fold_left (bc_top tc use_memo src ai is_ev) ns (bc_top tc use_memo src ai is_ev (Some (t, m, ks)) n) = Some (t', m', ks')) in H.
    destruct (bc_top tc use_memo src ai is_ev (Some (t, m, ks)) n) as [[[t1 m1] ks1]|] eqn:B.
    2: { rewrite bc_top_none in H. discriminate. }
    destruct (bc_top_ok is_ev t m ks n t1 m1 ks1 T MO B) as [E [T1 [MO1 [k [EQ KO]]]]].
    destruct (IH t1 m1 ks1 t' m' ks' T1 MO1 H) as [E' [T' [ks'' [EQ' F]]]].
    split. eapply ext_trans; eauto. split; auto.
    exists (k :: ks''). split. rewrite EQ', EQ, <- app_assoc. reflexivity.
    constructor; auto. eapply key_ok_ext; eauto.
Qed.

End Top.

Lemma memo_ok_nil : forall src a s t, memo_ok src a s t [].
Proof. intros src a s t n es e G. discriminate. Qed.

(* THE theorem for the faithful model (memo included): every query / evidence key of the
   acyclic program has the value the model of the cyclic program gives the source key *)
Theorem break_cycles_correct : forall tc use_memo src ai labeled evidence D ks1 ks2 a s,
    is_model src a s -> stratified src ->
    break_cycles_m tc use_memo src ai labeled evidence = Some (D, ks1, ks2) ->
    topo D /\
    Forall2 (fun n k => key_val (vget (dag_val a D)) k = key_val s n) labeled ks1 /\
    Forall2 (fun n k => key_val (vget (dag_val a D)) k = key_val s n) evidence ks2.
Proof.
  intros tc use_memo src ai labeled evidence D ks1 ks2 a s M [lvl ST] H. unfold break_cycles_m in H.
  destruct (fold_left (bc_top tc use_memo src ai false) labeled (Some (tgt_empty, [], []))) as [[[t1 m1] k1]|] eqn:F1; [|discriminate].
  destruct (fold_left (bc_top tc use_memo src ai true) evidence (Some (t1, [], []))) as [[[t2 m2] k2]|] eqn:F2; [|discriminate].
  inversion H; subst. clear H.
  assert (T0 : topo (t_nodes tgt_empty)). { intros k nd c E. destruct k; simpl in E; try discriminate. destruct k; discriminate. }
  destruct (bc_top_fold src a s lvl M ST ai tc use_memo false labeled tgt_empty [] [] t1 m1 ks1 T0 (memo_ok_nil _ _ _ _) F1)
    as [E1 [T1 [ks' [EQ1 FA1]]]]. simpl in EQ1. subst ks'.
  destruct (bc_top_fold src a s lvl M ST ai tc use_memo true evidence t1 [] [] t2 m2 ks2 T1 (memo_ok_nil _ _ _ _) F2)
    as [E2 [T2 [ks' [EQ2 FA2]]]]. simpl in EQ2. subst ks'.
  split; auto. split.
  - eapply Forall2_impl; [|exact FA1]. intros n k KO. apply (key_ok_ext a s t1 t2 n k E2) in KO. destruct KO as [_ V]. exact V.
  - eapply Forall2_impl; [|exact FA2]. intros n k [_ V]. exact V.
Qed.

(* the design's C09_break_cycles_nomemo is the instance use_memo = false *)
Corollary break_cycles_nomemo_correct : forall tc src ai labeled evidence D ks1 ks2 a s,
    is_model src a s -> stratified src ->
    break_cycles_m tc false src ai labeled evidence = Some (D, ks1, ks2) ->
    topo D /\
    Forall2 (fun n k => key_val (vget (dag_val a D)) k = key_val s n) labeled ks1 /\
    Forall2 (fun n k => key_val (vget (dag_val a D)) k = key_val s n) evidence ks2.
Proof. intros. eapply break_cycles_correct; eauto. Qed.
