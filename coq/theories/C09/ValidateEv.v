(* Verified validator for cycle breaking on a formula that carries propagated evidence values
   (definitions only; soundness in ValidateEvProofs.v).
   validate_break_ev F D epairs lpairs evs groups:
     under every atom assignment, with s the (checked) stable model of the cyclic F,
     - every evidence pair (key of F, key of D) has the same value in s and in dag_val D;
     - if s gives every evidence key its wanted value (evs) and at most one atom of every
       annotated-disjunction group is true, every query pair has the same value as well. *)
From Coq Require Import ZArith NArith List Bool Arith.
From PL.C09 Require Import BoolGraph ClarkBase Validate.
Import ListNotations.

Definition ev_sat (s : nat -> bool) (evs : list (option Z * bool)) : bool :=
  forallb (fun p => Bool.eqb (key_val s (fst p)) (snd p)) evs.

Definition amo (a : N -> bool) (groups : list (list N)) : bool :=
  forallb (fun ms => length (filter a ms) <=? 1) groups.

Definition nmem (x : N) (l : list N) : bool := existsb (N.eqb x) l.

Definition validate_break_ev_at (F D : graph) (epairs lpairs : list (option Z * option Z))
           (evs : list (option Z * bool)) (groups : list (list N)) (a : N -> bool) : bool :=
  let s := sem F a in
  let dv := vget (dag_val a D) in
  is_modelb F a s && check_pairs (vget s) dv epairs &&
  (if ev_sat (vget s) evs && amo a groups then check_pairs (vget s) dv lpairs else true).

Definition validate_break_ev (F D : graph) (epairs lpairs : list (option Z * option Z))
           (evs : list (option Z * bool)) (groups : list (list N)) : bool :=
  let ids := ids_of [F; D] in
  topob D && forallb (fun ms => forallb (fun id => nmem id ids) ms) groups &&
  forallb (fun t => validate_break_ev_at F D epairs lpairs evs groups (asg_of t)) (sublists ids).
