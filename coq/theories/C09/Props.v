(* C09 — Cycle breaking and Clark's completion preserve the ground program's meaning.
   This file contains only property statements, closed by `exact`. *)
From Coq Require Import ZArith NArith List Bool Lia.
From PL.C09 Require Import BoolGraph Strat Avoid ClarkBase GenClark ClarkProofs CyclesModel BuilderProofs CyclesProofs Validate ValidateProofs.
From PL.C09 Require Import CyclesEvModel CyclesEvProofs CyclesEvCond ValidateEv ValidateEvProofs.
From PL.C06 Require ModelPropagate ProofsPropagate ModelWMC.
Import ListNotations.

(* ------------------------------------------------------------------ semantics of (cyclic) and-or graphs *)
(* Kleene iteration: |g| rounds reach a fixpoint of the (reduct) operator, for every graph *)
Theorem C09_kleene_reaches_lfp : forall g a s blk k,
    fstep g a s blk (lfpf g a s blk) k = lfpf g a s blk k.
Proof. exact kleene_reaches_lfp. Qed.
Print Assumptions C09_kleene_reaches_lfp.

(* ... and it is the least (pre-)fixpoint *)
Theorem C09_lfp_least : forall g a s blk w,
    vle (fstep g a s blk w) w -> vle (lfpf g a s blk) w.
Proof. exact lfp_least. Qed.
Print Assumptions C09_lfp_least.

(* negation only across strata: at most one model (the perfect model) *)
Theorem C09_stratified_model_unique : forall g a s1 s2,
    stratified g -> is_model g a s1 -> is_model g a s2 -> forall k, s1 k = s2 k.
Proof. exact stratified_model_unique. Qed.
Print Assumptions C09_stratified_model_unique.

(* ... and exactly one: the iteration "lfp of the reduct of the previous guess" reaches it *)
Theorem C09_stratified_model_exists : forall g a, stratified g -> exists s, is_model g a s.
Proof. exact stratified_model_exists. Qed.
Print Assumptions C09_stratified_model_exists.

(* on topologically ordered graphs the one-pass evaluation is the model, and the only one *)
Theorem C09_dag_val_is_model : forall g a, topo g -> is_model g a (vget (dag_val a g)).
Proof. exact dag_val_is_model. Qed.
Print Assumptions C09_dag_val_is_model.

Theorem C09_dag_val_eq_lfp_val : forall g a s, topo g -> is_model g a s -> forall k, s k = vget (dag_val a g) k.
Proof. exact dag_val_eq_lfp_val. Qed.
Print Assumptions C09_dag_val_eq_lfp_val.

(* ------------------------------------------------------------------ Clark's completion (model generated from the source) *)
(* the generated function produces exactly: optional tautologies, the completion clauses of every
   internal node, the pairwise-exclusion / pick-one clauses of every non-trivial AD *)
Theorem C09_clark_clauses : forall f force,
    c_clauses (clarks_completion f force cnf_empty)
    = force_clauses force (length (f_nodes f)) ++ completion_clauses (f_nodes f) ++ constraint_clauses (f_constraints f).
Proof. exact clark_clauses_eq. Qed.
Print Assumptions C09_clark_clauses.

(* for every DAG and every atom assignment: exactly one extension satisfies the completion, it is dag_val *)
Theorem C09_clark_exists_unique : forall g a, wf_dag g ->
    (ClarkProofs.extends g a (vget (dag_val a g)) /\ sat_cnf (vget (dag_val a g)) (completion_clauses g) = true) /\
    (forall m, ClarkProofs.extends g a m -> sat_cnf m (completion_clauses g) = true ->
               forall k, 1 <= k <= length g -> m k = vget (dag_val a g) k).
Proof. exact clark_exists_unique. Qed.
Print Assumptions C09_clark_exists_unique.

(* whole CNF: models extending a  =  dag_val on every node  +  the atoms satisfy every AD constraint *)
Theorem C09_clark_agrees : forall f force a m,
    wf_dag (f_nodes f) -> ads_nozero (f_constraints f) ->
    (ClarkProofs.extends (f_nodes f) a m /\ sat_cnf m (c_clauses (clarks_completion f force cnf_empty)) = true
     <->
     (forall k, 1 <= k <= length (f_nodes f) -> m k = vget (dag_val a (f_nodes f)) k) /\ ads_ok m (f_constraints f)).
Proof. exact clark_characterisation. Qed.
Print Assumptions C09_clark_agrees.

(* ConstraintAD.as_clauses encodes exactly-one *)
Theorem C09_ad_clauses_exactly_one : forall m ad,
    (forall y, In y (ad_nodes ad ++ [ad_extra ad]) -> y <> 0%Z) -> 2 <= length (ad_nodes ad) ->
    (forallb (sat_lits m) (ad_as_clauses ad) = true <-> count_true m (ad_nodes ad ++ [ad_extra ad]) = 1).
Proof. intros m ad. rewrite ad_as_clauses_spec. exact (ad_spec_sat m ad). Qed.
Print Assumptions C09_ad_clauses_exactly_one.

(* weights, names, constraints, atom count carried over unchanged *)
Theorem C09_clark_weights_constraints : forall f force,
    c_weights (clarks_completion f force cnf_empty) = f_weights f /\
    c_constraints (clarks_completion f force cnf_empty) = f_constraints f /\
    c_names (clarks_completion f force cnf_empty) = f_names f /\
    c_atomcount (clarks_completion f force cnf_empty) = Z.of_nat (length (f_nodes f)).
Proof.
  intros f force.
  exact (conj (clark_weights f force) (conj (clark_constraints f force) (conj (clark_names f force) (clark_atomcount f force)))).
Qed.
Print Assumptions C09_clark_weights_constraints.

(* ------------------------------------------------------------------ cycle breaking *)
(* the loop-free-proof lemma: the value of k when the nodes of A are forced false is the node's
   operator applied to the children's values when k :: A are forced false (positive cycles;
   negative children read the model s) *)
Theorem C09_unfold : forall g a s A k nd,
    node_at g k = Some nd -> ~ In k A ->
    val_avoiding g a s A k = eval_node a (rlit_val s (val_avoiding g a s (k :: A))) nd.
Proof. exact val_avoiding_unfold. Qed.
Print Assumptions C09_unfold.

(* the ancestor-avoiding top-down evaluation (the recursion scheme of _break_cycles without memo
   and without building nodes) computes the model, when negation only crosses strata *)
Theorem C09_ancestor_avoiding_eval : forall g a s, is_model g a s -> stratified g ->
    forall k, va_node g a (S (length g)) [] k = s k.
Proof. exact va_node_model. Qed.
Print Assumptions C09_ancestor_avoiding_eval.

(* the target builder: add_and / add_or return a key whose value is the conjunction /
   disjunction of the given keys, extend the DAG and keep it topologically ordered *)
Theorem C09_builder_compound : forall a isand t content t' k,
    topo (t_nodes t) -> Forall (key_valid t) content ->
    t_add_compound isand t content = Some (t', k) ->
    ext t t' /\ topo (t_nodes t') /\ key_valid t' k /\
    val a t' k = if isand then forallb (val a t) content else existsb (val a t) content.
Proof. exact t_add_compound_ok. Qed.
Print Assumptions C09_builder_compound.

(* one call of the model of _break_cycles, memo and reuse test included (use_memo arbitrary):
   the DAG only grows, stays acyclic, and at top level (no ancestors) the returned key has the
   model value of the requested literal *)
Theorem C09_break_cycles_call : forall src a s lvl,
    is_model src a s ->
    (forall k nd c, node_at src k = Some nd -> In c (children nd) ->
                    ((0 < c)%Z -> lvl (key_of c) <= lvl k) /\ ((c < 0)%Z -> lvl (key_of c) < lvl k)) ->
    forall ai tc use_memo is_ev fuel t m c r,
      topo (t_nodes t) -> memo_ok src a s t m ->
      bc fuel tc use_memo src ai is_ev t m c [] = Some r ->
      ext t (r_tgt r) /\ topo (t_nodes (r_tgt r)) /\ memo_ok src a s (r_tgt r) (r_memo r) /\
      key_valid (r_tgt r) (r_key r) /\ val a (r_tgt r) (r_key r) = lit_val s c.
Proof. exact bc_top_value. Qed.
Print Assumptions C09_break_cycles_call.

(* break_cycles (both passes) for the faithful model: every query-like and evidence key of the
   acyclic program has, for every atom assignment, the value the model of the cyclic program
   gives the source key.  (fuel exhaustion / assertion failures are the None result) *)
Theorem C09_break_cycles_correct : forall tc use_memo src ai labeled evidence D ks1 ks2 a s,
    is_model src a s -> stratified src ->
    break_cycles_m tc use_memo src ai labeled evidence = Some (D, ks1, ks2) ->
    topo D /\
    Forall2 (fun n k => key_val (vget (dag_val a D)) k = key_val s n) labeled ks1 /\
    Forall2 (fun n k => key_val (vget (dag_val a D)) k = key_val s n) evidence ks2.
Proof. exact break_cycles_correct. Qed.
Print Assumptions C09_break_cycles_correct.

Theorem C09_break_cycles_nomemo : forall tc src ai labeled evidence D ks1 ks2 a s,
    is_model src a s -> stratified src ->
    break_cycles_m tc false src ai labeled evidence = Some (D, ks1, ks2) ->
    topo D /\
    Forall2 (fun n k => key_val (vget (dag_val a D)) k = key_val s n) labeled ks1 /\
    Forall2 (fun n k => key_val (vget (dag_val a D)) k = key_val s n) evidence ks2.
Proof. exact break_cycles_nomemo_correct. Qed.
Print Assumptions C09_break_cycles_nomemo.

(* ------------------------------------------------------------------ cycle breaking on a formula with propagated evidence *)
(* CyclesEvModel.bc_ev / break_cycles_ev_m: the same model with the look-up
   `source.get_evidence_value(nodeid)` of the query pass (cycles.py:111-118); `evm` is the source
   formula's `lookup_evidence` (key -> TRUE/FALSE; the type of the result of the model of
   LogicFormula.propagate in PL.C06).  The old model is literally the empty-map instance. *)
Theorem C09_break_cycles_empty_map : forall tc use_memo src ai labeled evidence,
    break_cycles_ev_m tc use_memo src ai [] labeled evidence = break_cycles_m tc use_memo src ai labeled evidence.
Proof. exact break_cycles_ev_nil. Qed.
Print Assumptions C09_break_cycles_empty_map.

(* one top-level call: structure is preserved unconditionally; the returned key has the model
   value of the literal whenever the consulted entries of the map hold in the model s *)
Theorem C09_break_cycles_call_with_evidence_map : forall src a s lvl,
    is_model src a s ->
    (forall k nd c, node_at src k = Some nd -> In c (children nd) ->
                    ((0 < c)%Z -> lvl (key_of c) <= lvl k) /\ ((c < 0)%Z -> lvl (key_of c) < lvl k)) ->
    forall ai tc use_memo is_ev evm fuel t m c r,
      topo (t_nodes t) -> memo_okg src a s is_ev evm t m ->
      bc_ev fuel tc use_memo src ai evm is_ev t m c [] = Some r ->
      ext t (r_tgt r) /\ topo (t_nodes (r_tgt r)) /\ memo_okg src a s is_ev evm (r_tgt r) (r_memo r) /\
      key_valid (r_tgt r) (r_key r) /\
      ((forall k b, ev_lookup evm is_ev k = Some b -> s k = b) -> val a (r_tgt r) (r_key r) = lit_val s c).
Proof. exact bc_top_value_ev. Qed.
Print Assumptions C09_break_cycles_call_with_evidence_map.

(* THE statement asked for.  `ev` = the evidence literals; the map is SOUND for the evidence when
   every model (under any atom assignment) that satisfies `ev` gives the listed nodes the listed
   values -- exactly what C06_propagate_sound establishes for the map LogicFormula.propagate
   computes.  Then: the produced graph is acyclic, every evidence key has the least-model value for
   EVERY assignment, and every query-like key has it for every assignment whose model satisfies
   the evidence. *)
Theorem C09_break_cycles_correct_with_evidence_map :
  forall tc use_memo src ai evm (ev : list Z) labeled evidence D ks1 ks2,
    stratified src ->
    (forall a s, is_model src a s -> ProofsPropagate.sat_lits s ev -> ProofsPropagate.holds_in s evm) ->
    break_cycles_ev_m tc use_memo src ai evm labeled evidence = Some (D, ks1, ks2) ->
    forall a s, is_model src a s ->
      topo D /\
      Forall2 (fun n k => key_val (vget (dag_val a D)) k = key_val s n) evidence ks2 /\
      (ProofsPropagate.sat_lits s ev ->
       Forall2 (fun n k => key_val (vget (dag_val a D)) k = key_val s n) labeled ks1).
Proof.
  intros tc um src ai evm ev labeled evidence D ks1 ks2 ST SOUND H a s M.
  destruct (break_cycles_ev_correct tc um src ai evm labeled evidence D ks1 ks2 a s M ST H) as [T [F2 F1]].
  split; auto. split; auto. intros SAT.
  eapply Forall2_impl; [|exact F1]. intros n k Q. apply Q. apply (SOUND a s M SAT).
Qed.
Print Assumptions C09_break_cycles_correct_with_evidence_map.

(* the same for a map that is only known to hold in the model at hand (e.g. entries contributed by
   ConstraintAD.add, which hold in the worlds that satisfy the AD constraints) *)
Theorem C09_break_cycles_correct_with_evidence_map_pointwise :
  forall tc use_memo src ai evm labeled evidence D ks1 ks2 a s,
    is_model src a s -> stratified src ->
    break_cycles_ev_m tc use_memo src ai evm labeled evidence = Some (D, ks1, ks2) ->
    topo D /\
    Forall2 (fun n k => key_val (vget (dag_val a D)) k = key_val s n) evidence ks2 /\
    Forall2 (fun n k => ProofsPropagate.holds_in s evm -> key_val (vget (dag_val a D)) k = key_val s n) labeled ks1.
Proof. exact break_cycles_ev_correct. Qed.
Print Assumptions C09_break_cycles_correct_with_evidence_map_pointwise.

(* P(q | e) is unchanged: for every weight function, every list of atoms, every world filter cst
   (AD constraints), `model a` = the model of the cyclic program under a:
   the conditional probability of every query-like name, computed on the acyclic program with
   its evidence keys, equals the one of the cyclic program *)
Theorem C09_break_cycles_cond_prob_with_evidence_map :
  forall tc use_memo src ai evm labeled evidence want D ks1 ks2
         (model : (N -> bool) -> nat -> bool) (cst : (N -> bool) -> bool) (w : N -> QArith_base.Q) ids,
    stratified src -> (forall a, is_model src a (model a)) ->
    ev_map_sound model cst evidence want evm ->
    break_cycles_ev_m tc use_memo src ai evm labeled evidence = Some (D, ks1, ks2) ->
    Forall2 (fun q k =>
               ModelWMC.cond_prob w ids (fun a => key_val (vget (dag_val a D)) k)
                         (fun a => cst a && ev_holds (vget (dag_val a D)) ks2 want)
               = ModelWMC.cond_prob w ids (fun a => key_val (model a) q)
                           (fun a => cst a && ev_holds (model a) evidence want)) labeled ks1.
Proof. exact break_cycles_ev_cond_prob. Qed.
Print Assumptions C09_break_cycles_cond_prob_with_evidence_map.

(* link with C06: the map the model of LogicFormula.propagate computes from the evidence literals
   engine.ground_evidence passes (ev_nodes) is sound, for every pop order and every fuel ... *)
Theorem C09_propagated_map_sound : forall src model evidence want sched fuel evm,
    (forall a, is_model src a (model a)) ->
    ModelPropagate.propagate_m src (ev_nodes evidence want) [] sched fuel = ModelPropagate.Done evm ->
    ev_map_sound model (fun _ => true) evidence want evm.
Proof. exact propagate_map_sound. Qed.
Print Assumptions C09_propagated_map_sound.

(* ... hence ground_evidence(propagate_evidence=True) followed by break_cycles keeps P(q | e) *)
Theorem C09_break_cycles_propagated_cond_prob :
  forall tc use_memo src ai labeled evidence want sched fuel evm D ks1 ks2
         (model : (N -> bool) -> nat -> bool) (w : N -> QArith_base.Q) ids,
    stratified src -> (forall a, is_model src a (model a)) ->
    ModelPropagate.propagate_m src (ev_nodes evidence want) [] sched fuel = ModelPropagate.Done evm ->
    break_cycles_ev_m tc use_memo src ai evm labeled evidence = Some (D, ks1, ks2) ->
    Forall2 (fun q k =>
               ModelWMC.cond_prob w ids (fun a => key_val (vget (dag_val a D)) k)
                         (fun a => true && ev_holds (vget (dag_val a D)) ks2 want)
               = ModelWMC.cond_prob w ids (fun a => key_val (model a) q)
                           (fun a => true && ev_holds (model a) evidence want)) labeled ks1.
Proof. exact break_cycles_propagated_cond_prob. Qed.
Print Assumptions C09_break_cycles_propagated_cond_prob.

(* ------------------------------------------------------------------ verified validators *)
Theorem C09_validate_break_sound : forall F D pairs,
    validate_break F D pairs = true ->
    topo D /\
    forall a, exists s, is_model F a s /\
                        forall kF kD, In (kF, kD) pairs -> key_val s kF = key_val (vget (dag_val a D)) kD.
Proof. exact validate_break_sound. Qed.
Print Assumptions C09_validate_break_sound.

Theorem C09_validate_break_sound_unique : forall F D pairs,
    validate_break F D pairs = true -> stratified F ->
    forall a s, is_model F a s ->
                forall kF kD, In (kF, kD) pairs -> key_val (vget (dag_val a D)) kD = key_val s kF.
Proof. exact validate_break_sound_unique. Qed.
Print Assumptions C09_validate_break_sound_unique.

(* validator for LogicDAG.create_from on a formula with propagated evidence values: evidence pairs in
   every world, query pairs in every world whose model satisfies the evidence (evs) and in which at
   most one atom of every listed group is true *)
Theorem C09_validate_break_ev_sound : forall F D epairs lpairs evs groups,
    validate_break_ev F D epairs lpairs evs groups = true ->
    topo D /\
    forall a, exists s, is_model F a s /\
      (forall kF kD, In (kF, kD) epairs -> key_val s kF = key_val (vget (dag_val a D)) kD) /\
      (ev_sat s evs = true -> amo a groups = true ->
       forall kF kD, In (kF, kD) lpairs -> key_val s kF = key_val (vget (dag_val a D)) kD).
Proof. exact validate_break_ev_sound. Qed.
Print Assumptions C09_validate_break_ev_sound.

Theorem C09_validate_break_ev_sound_unique : forall F D epairs lpairs evs groups,
    validate_break_ev F D epairs lpairs evs groups = true -> stratified F ->
    forall a s, is_model F a s ->
      (forall kF kD, In (kF, kD) epairs -> key_val (vget (dag_val a D)) kD = key_val s kF) /\
      (ev_sat s evs = true -> amo a groups = true ->
       forall kF kD, In (kF, kD) lpairs -> key_val (vget (dag_val a D)) kD = key_val s kF).
Proof. exact validate_break_ev_sound_unique. Qed.
Print Assumptions C09_validate_break_ev_sound_unique.

Theorem C09_validate_clark_sound : forall D ads cls,
    validate_clark D ads cls = true ->
    topo D /\
    forall a,
      let dv := vget (dag_val a D) in
      let comp := filter is_completion_clause cls in
      let cons := filter (fun c => negb (is_completion_clause c)) cls in
      (ValidateProofs.extends D a dv /\ sat_cnf dv comp = true) /\
      (forall m, ValidateProofs.extends D a m -> sat_cnf m comp = true -> forall k, 1 <= k <= length D -> m k = dv k) /\
      sat_cnf dv cons = ads_okb dv ads /\
      (forall m, ValidateProofs.extends D a m -> sat_cnf m cls = true ->
                 (forall k, 1 <= k <= length D -> m k = dv k)) /\
      sat_cnf dv cls = ads_okb dv ads.
Proof. exact validate_clark_sound. Qed.
Print Assumptions C09_validate_clark_sound.

(* ------------------------------------------------------------------ non-vacuity *)
(* p :- a, q.  p :- b.  q :- p, c.  q :- \+x, c.   (keys: a=1 x=2 c=3, 4 = \+x,c ; 5 = q ; 6 = a,q ; 7 = p ; 8 = p,c ; 9 = b) *)
Definition ex_F : graph :=
  [NAtom 1; NAtom 2; NAtom 3; NAnd [-2; 3]%Z; NOr [4; 8]%Z; NAnd [1; 5]%Z; NOr [6; 9]%Z; NAnd [7; 3]%Z; NAtom 4].
Definition ex_ai : atom_info := {| ai_group := []; ai_extra_id := [] |}.

Definition ex_res := Eval vm_compute in break_cycles_m false true ex_F ex_ai [Some 7%Z; Some 5%Z] [].

Example C09_example_break :
  break_cycles_m false true ex_F ex_ai [Some 7%Z; Some 5%Z] [] = ex_res /\
  topob ex_F = false /\
  match ex_res with
  | Some (D, ks, _) => validate_break ex_F D (combine [Some 7%Z; Some 5%Z] ks) && (length D =? 9)
  | None => false
  end = true.
Proof. split; [|split]; vm_compute; reflexivity. Qed.

(* the hypotheses of C09_break_cycles_correct are satisfiable on this cyclic graph with negation *)
Example C09_example_stratified : stratified ex_F /\ ex_res <> None.
Proof.
  split.
  - apply (stratb_sound ex_F [0; 0; 0; 0; 1; 1; 1; 1; 1; 0]). reflexivity.
  - discriminate.
Qed.

Example C09_example_clark :
  let D := [NAtom 1; NAtom 2; NAnd [1; -2]%Z; NOr [3; 2]%Z] in
  wf_dag D /\
  validate_clark D [] (c_clauses (clarks_completion {| f_nodes := D; f_weights := []; f_constraints := []; f_names := [] |} false cnf_empty)) = true.
Proof.
  split.
  - split.
    + apply topob_sound. reflexivity.
    + intros nd c Hn Hc. simpl in Hn.
      repeat (destruct Hn as [<-|Hn]; [simpl in Hc; repeat (destruct Hc as [<-|Hc]; [discriminate|]); try destruct Hc|]).
      destruct Hn.
  - vm_compute. reflexivity.
Qed.

(* evidence map: 1 = a, 2 = b, 3 = d := a,b ; 4 = e := d ; e := g ; 5 = g := e,a  (cycle e <-> g);
   evidence d = true.  propagate derives d, a, b; with that map the query e folds to TRUE, and
   the query g (= e, a) as well; without the map both are copied. *)
Definition ex_E : graph := [NAtom 1; NAtom 2; NAnd [1; 2]%Z; NOr [3; 5]%Z; NAnd [4; 1]%Z].
Definition ex_evm : ModelPropagate.cur := [(2, true); (1, true); (3, true)].

Example C09_example_evidence_map :
  ModelPropagate.propagate_m ex_E (ev_nodes [Some 3%Z] [Some true]) [] [] 10 = ModelPropagate.Done ex_evm /\
  break_cycles_ev_m false true ex_E ex_ai ex_evm [Some 4%Z; Some 5%Z] [Some 3%Z]
  = Some ([NAtom 1; NAtom 2; NAnd [1; 2]%Z], [Some 0%Z; Some 0%Z], [Some 3%Z]) /\
  break_cycles_ev_m false true ex_E ex_ai [] [Some 4%Z; Some 5%Z] [Some 3%Z]
  = Some ([NAtom 1; NAtom 2; NAnd [1; 2]%Z; NAnd [3; 1]%Z], [Some 3%Z; Some 4%Z], [Some 3%Z]) /\
  stratified ex_E.
Proof.
  split; [|split; [|split]]; try (vm_compute; reflexivity).
  apply (stratb_sound ex_E [0; 0; 0; 0; 0; 0]). reflexivity.
Qed.

(* the validator accepts the example (query pairs only under the evidence d = true) and would not
   accept it without the evidence condition *)
Example C09_example_validate_ev :
  validate_break_ev ex_E [NAtom 1; NAtom 2; NAnd [1; 2]%Z] [(Some 3%Z, Some 3%Z)]
                    [(Some 4%Z, Some 0%Z); (Some 5%Z, Some 0%Z)] [(Some 3%Z, true)] [] = true /\
  validate_break ex_E [NAtom 1; NAtom 2; NAnd [1; 2]%Z] [(Some 4%Z, Some 0%Z)] = false.
Proof. split; vm_compute; reflexivity. Qed.
