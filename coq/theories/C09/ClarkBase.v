(* Hand-written prelude for the translated model of
     problog/cnf_formula.py  (CNF.add_atom / add_clause / add_constraint, clarks_completion)
     problog/constraint.py   (ConstraintAD.as_clauses)
   Data types, record setters and the few helper folds the translator
   gen/c09_clark.py targets; plus how CNF._contents (non-partial, unweighted)
   reads a stored clause.  No proofs in this file. *)
From Coq Require Import ZArith NArith List Bool.
From PL.C09 Require Import BoolGraph.
Import ListNotations.
Local Open Scope Z_scope.

(* the first element of a stored clause is either an int (head of a completion
   clause) or the bool `force` (constraint clause, CNF.add_constraint) *)
Inductive chead : Type := HLit (h : Z) | HForce (b : bool).
Definition clause : Type := (chead * list Z)%type.

(* ConstraintAD: self.nodes (in Python iteration order), self.extra_node *)
Record ad_constraint : Type := { ad_nodes : list Z; ad_extra : Z }.

Definition weights : Type := list (Z * N).          (* key -> interned weight term *)
Definition names : Type := list (N * option Z * N). (* interned name, key (None = FALSE), interned label *)

(* the parts of a LogicDAG that clarks_completion reads *)
Record formula : Type :=
  { f_nodes : graph; f_weights : weights; f_constraints : list ad_constraint; f_names : names }.

Record cnf : Type :=
  { c_atomcount : Z; c_clauses : list clause; c_clausecount : Z;
    c_weights : weights; c_constraints : list ad_constraint; c_names : names }.

Definition cnf_empty : cnf :=
  {| c_atomcount := 0; c_clauses := []; c_clausecount := 0; c_weights := []; c_constraints := []; c_names := [] |}.

Definition set_c_atomcount (x : Z) (d : cnf) : cnf :=
  {| c_atomcount := x; c_clauses := c_clauses d; c_clausecount := c_clausecount d;
     c_weights := c_weights d; c_constraints := c_constraints d; c_names := c_names d |}.
Definition set_c_clauses (x : list clause) (d : cnf) : cnf :=
  {| c_atomcount := c_atomcount d; c_clauses := x; c_clausecount := c_clausecount d;
     c_weights := c_weights d; c_constraints := c_constraints d; c_names := c_names d |}.
Definition set_c_clausecount (x : Z) (d : cnf) : cnf :=
  {| c_atomcount := c_atomcount d; c_clauses := c_clauses d; c_clausecount := x;
     c_weights := c_weights d; c_constraints := c_constraints d; c_names := c_names d |}.
Definition set_c_weights (x : weights) (d : cnf) : cnf :=
  {| c_atomcount := c_atomcount d; c_clauses := c_clauses d; c_clausecount := c_clausecount d;
     c_weights := x; c_constraints := c_constraints d; c_names := c_names d |}.
Definition set_c_constraints (x : list ad_constraint) (d : cnf) : cnf :=
  {| c_atomcount := c_atomcount d; c_clauses := c_clauses d; c_clausecount := c_clausecount d;
     c_weights := c_weights d; c_constraints := x; c_names := c_names d |}.
Definition set_c_names (x : names) (d : cnf) : cnf :=
  {| c_atomcount := c_atomcount d; c_clauses := c_clauses d; c_clausecount := c_clausecount d;
     c_weights := c_weights d; c_constraints := c_constraints d; c_names := x |}.

(* BaseFormula.add_name on a CNF: self._names[label][name] = key *)
Definition cnf_add_name (n : N) (i : option Z) (l : N) (d : cnf) : cnf :=
  set_c_names (c_names d ++ [(n, i, l)]) d.

(* range(lo, hi) *)
Definition zrange (lo hi : Z) : list Z := map (fun i => lo + Z.of_nat i) (seq 0 (Z.to_nat (hi - lo))).

(* LogicFormula.__iter__: (i + 1, node) for i, node in enumerate(self._nodes) *)
Definition enum_nodes (f : formula) : list (Z * node) :=
  map (fun kn => (Z.of_nat (fst kn), snd kn)) (combine (seq 1 (length (f_nodes f))) (f_nodes f)).

(* `for i, n in enumerate(xs): ... xs[i + 1:] ...` *)
Fixpoint fold_tails {A S : Type} (f : A -> list A -> S -> S) (l : list A) (s : S) : S :=
  match l with
  | [] => s
  | x :: t => fold_tails f t (f x t s)
  end.

(* how CNF._contents (partial=False, weighted=False) turns a stored clause into
   DIMACS literals: `if head is None or type(head) == bool and not head: body
   else [head] + body`; a bool True head would be printed as such (1 as an int) *)
Definition clause_lits (c : clause) : list Z :=
  match c with
  | (HLit h, b) => h :: b
  | (HForce false, b) => b
  | (HForce true, b) => 1 :: b
  end.

(* CNF semantics: variables are positive naturals; 0 is not a literal *)
Definition cnf_lit (m : nat -> bool) (c : Z) : bool :=
  match c with
  | Z0 => false
  | Zpos p => m (Pos.to_nat p)
  | Zneg p => negb (m (Pos.to_nat p))
  end.

Definition sat_lits (m : nat -> bool) (ls : list Z) : bool := existsb (cnf_lit m) ls.
Definition sat_clause (m : nat -> bool) (c : clause) : bool := sat_lits m (clause_lits c).
Definition sat_cnf (m : nat -> bool) (cs : list clause) : bool := forallb (sat_clause m) cs.
