(* Hand model of problog/cycles.py (break_cycles, _break_cycles) together with the
   part of the target LogicDAG builder it drives (formula.py: add_atom with the
   ConstraintAD bookkeeping that creates the `extra` atom, add_and / add_or with
   auto_compact, node reuse by content).  No proofs in this file.

   Not modelled: node names (the problog_cv_ renaming only touches names),
   evidence propagation (`lookup_evidence` is absent unless propagate_evidence=True,
   which is not the default pipeline), keep_named. *)
From Coq Require Import ZArith NArith List Bool Arith.
From PL.C09 Require Import BoolGraph.
Import ListNotations.

Definition key := option Z.          (* None = FALSE, Some 0 = TRUE *)

Definition knegate (k : key) : key :=
  match k with
  | None => Some 0%Z
  | Some Z0 => None
  | Some c => Some (- c)%Z
  end.

Definition is_prob (k : key) : bool :=
  match k with None => false | Some Z0 => false | Some _ => true end.

Definition key_eqb (a b : key) : bool :=
  match a, b with
  | None, None => true
  | Some x, Some y => Z.eqb x y
  | _, _ => false
  end.

(* ------------------------------------------------------------------ sets of node ids as lists *)
Definition mem (x : nat) (l : list nat) : bool := existsb (Nat.eqb x) l.
Definition union (a b : list nat) : list nat := a ++ filter (fun x => negb (mem x a)) b.
Definition subset (a b : list nat) : bool := forallb (fun x => mem x b) a.
Definition disjoint (a b : list nat) : bool := forallb (fun x => negb (mem x b)) a.
Definition diff (a b : list nat) : list nat := filter (fun x => negb (mem x b)) a.

(* ------------------------------------------------------------------ target builder *)
(* per AD group: member atom keys, key of the extra atom *)
Record group_state : Type := { g_members : list nat; g_extra : option nat }.

Record tgt : Type := { t_nodes : graph; t_groups : list (N * group_state) }.

Definition tgt_empty : tgt := {| t_nodes := []; t_groups := [] |}.

(* static information about source atoms: identifier -> (group, is_extra); and
   group -> identifier the builder gives the extra atom ("%s_extra" % group) *)
Record atom_info : Type := { ai_group : list (N * (N * bool)); ai_extra_id : list (N * N) }.

Fixpoint assoc {A : Type} (k : N) (l : list (N * A)) : option A :=
  match l with
  | [] => None
  | (k', v) :: r => if N.eqb k k' then Some v else assoc k r
  end.

Fixpoint assoc_set {A : Type} (k : N) (v : A) (l : list (N * A)) : list (N * A) :=
  match l with
  | [] => [(k, v)]
  | (k', v') :: r => if N.eqb k k' then (k, v) :: r else (k', v') :: assoc_set k v r
  end.

Definition node_eqb (a b : node) : bool :=
  match a, b with
  | NAtom x, NAtom y => N.eqb x y
  | NAnd x, NAnd y => if list_eq_dec Z.eq_dec x y then true else false
  | NOr x, NOr y => if list_eq_dec Z.eq_dec x y then true else false
  | _, _ => false
  end.

(* key (1-based) of the first node equal to nd: the _index_atom / _index_conj / _index_disj lookup *)
Fixpoint find_node (g : graph) (nd : node) (k : nat) : option nat :=
  match g with
  | [] => None
  | x :: r => if node_eqb x nd then Some k else find_node r nd (S k)
  end.

Definition push_node (t : tgt) (nd : node) : tgt * nat :=
  ({| t_nodes := t_nodes t ++ [nd]; t_groups := t_groups t |}, S (length (t_nodes t))).

(* LogicFormula.add_atom (probability is a real weight; no semiring; keep_all = False)
   followed by _add_constraint_me / ConstraintAD.add / _update_logic *)
Definition t_add_atom (ai : atom_info) (t : tgt) (id : N) : tgt * key :=
  match find_node (t_nodes t) (NAtom id) 1 with
  | Some k => (t, Some (Z.of_nat k))
  | None =>
    let (t1, k) := push_node t (NAtom id) in
    match assoc id (ai_group ai) with
    | None => (t1, Some (Z.of_nat k))
    | Some (grp, is_extra) =>
      let gs := match assoc grp (t_groups t1) with Some gs => gs | None => {| g_members := []; g_extra := None |} end in
      if is_extra then
        ({| t_nodes := t_nodes t1; t_groups := assoc_set grp {| g_members := g_members gs; g_extra := Some k |} (t_groups t1) |},
         Some (Z.of_nat k))
      else
        let members := g_members gs ++ [k] in
        match g_extra gs, (1 <? length members), assoc grp (ai_extra_id ai) with
        | None, true, Some eid =>
          (* second member and no extra node yet: _update_logic adds the extra atom *)
          let (t2, ke) := push_node t1 (NAtom eid) in
          ({| t_nodes := t_nodes t2; t_groups := assoc_set grp {| g_members := members; g_extra := Some ke |} (t_groups t2) |},
           Some (Z.of_nat k))
        | ex, _, _ =>
          ({| t_nodes := t_nodes t1; t_groups := assoc_set grp {| g_members := members; g_extra := ex |} (t_groups t1) |},
           Some (Z.of_nat k))
        end
    end
  end.

Fixpoint dedupe (l : list Z) (seen : list Z) : list Z :=
  match l with
  | [] => []
  | x :: r => if existsb (Z.eqb x) seen then dedupe r seen else x :: dedupe r (x :: seen)
  end.

Definition has_opposites (l : list Z) : bool := existsb (fun x => existsb (Z.eqb (- x)%Z) l) l.

Fixpoint keys_to_Z (l : list key) : list Z :=
  match l with
  | [] => []
  | Some c :: r => c :: keys_to_Z r
  | None :: r => keys_to_Z r
  end.

(* LogicFormula._add_compound with auto_compact, readonly, update=None, no name.
   None = the `assert content` failure *)
Definition t_add_compound (isand : bool) (t : tgt) (content : list key) : option (tgt * key) :=
  match content with
  | [] => None
  | _ =>
    let tk : key := if isand then None else Some 0%Z in
    let fk : key := if isand then Some 0%Z else None in
    if existsb (key_eqb tk) content then Some (t, tk) else
    let c1 := keys_to_Z (filter (fun x => negb (key_eqb x fk)) content) in
    let c2 := dedupe c1 [] in
    match c2 with
    | [] => Some (t, fk)
    | [x] => if has_opposites c2 then Some (t, tk) else Some (t, Some x)
    | _ =>
      if has_opposites c2 then Some (t, tk) else
      let nd := if isand then NAnd c2 else NOr c2 in
      match find_node (t_nodes t) nd 1 with
      | Some k => Some (t, Some (Z.of_nat k))
      | None => let (t1, k) := push_node t nd in Some (t1, Some (Z.of_nat k))
      end
    end
  end.

(* ------------------------------------------------------------------ _break_cycles *)
(* translation: nodeid -> [(newnode, cycles_broken, content - cycles_broken)] in append order *)
Definition memo_entry : Type := (key * list nat * list nat)%type.
Definition memo : Type := list (nat * list memo_entry).

Fixpoint memo_get (m : memo) (n : nat) : option (list memo_entry) :=
  match m with
  | [] => None
  | (k, es) :: r => if Nat.eqb k n then Some es else memo_get r n
  end.

Fixpoint memo_add (m : memo) (n : nat) (e : memo_entry) : memo :=
  match m with
  | [] => [(n, [e])]
  | (k, es) :: r => if Nat.eqb k n then (k, es ++ [e]) :: r else (k, es) :: memo_add r n e
  end.

(* the reuse test: cb <= ancset and not ancset & cn *)
Fixpoint memo_find (es : list memo_entry) (ancset : list nat) : option memo_entry :=
  match es with
  | [] => None
  | (nk, cb, cn) :: r => if subset cb ancset && disjoint ancset cn then Some (nk, cb, cn) else memo_find r ancset
  end.

Record bc_result : Type := { r_tgt : tgt; r_memo : memo; r_key : key; r_cb : list nat; r_cn : list nat }.

Definition mk_result t m k cb cn : bc_result := {| r_tgt := t; r_memo := m; r_key := k; r_cb := cb; r_cn := cn |}.

(* use_memo = false gives the plain unfolding (no `translation` reuse), used in the proofs.
   tc ("true child"): cycles.py at the pinned commit only short-cuts a deterministic child
   (key 0 = TRUE) when `not is_evidence`; in the evidence pass it falls through to
   get_node(0), whose assertion fails (tc = false models that: result None).  With
   fixes/C09-true-child-in-evidence-pass.patch the short-cut applies in both passes (tc = true). *)
Fixpoint bc (fuel : nat) (tc : bool) (use_memo : bool) (src : graph) (ai : atom_info) (is_ev : bool)
         (t : tgt) (m : memo) (nodeid : Z) (anc : list nat) : option bc_result :=
  match fuel with
  | O => None
  | S f =>
    let neg := (nodeid <? 0)%Z in
    let n := Z.abs_nat nodeid in
    let out (k : key) := if neg then knegate k else k in
    if (n =? 0) && (tc || negb is_ev) then Some (mk_result t m (Some 0%Z) [] []) (* get_evidence_value(0) = TRUE *)
    else if mem n anc then Some (mk_result t m None [n] [])                     (* cyclic node: node is False *)
    else
      let reuse := if use_memo then
                     match memo_get m n with
                     | Some es => memo_find es (anc ++ [n])
                     | None => None
                     end
                   else None in
      match reuse with
      | Some (nk, cb, cn) => Some (mk_result t m (out nk) cb cn)
      | None =>
        match node_at src n with
        | None => None                                                          (* get_node assertion *)
        | Some (NAtom id) =>
          let (t1, nk) := t_add_atom ai t id in
          Some (mk_result t1 (memo_add m n (nk, [], [])) (out nk) [] [])
        | Some nd =>
          let isand := match nd with NAnd _ => true | _ => false end in
          let step (acc : option (tgt * memo * list key * list nat * list nat)) (child : Z) :=
              match acc with
              | None => None
              | Some (t0, m0, ks, cb, cn) =>
                match bc f tc use_memo src ai is_ev t0 m0 child (anc ++ [n]) with
                | None => None
                | Some r => Some (r_tgt r, r_memo r, ks ++ [r_key r], union cb (r_cb r), union cn (r_cn r))
                end
              end in
          match fold_left step (children nd) (Some (t, m, [], [], [])) with
          | None => None
          | Some (t1, m1, ks, ccb, ccn) =>
            match t_add_compound isand t1 ks with
            | None => None
            | Some (t2, nk) =>
              let cn_out := if is_prob nk then union ccn [n] else ccn in
              Some (mk_result t2 (memo_add m1 n (nk, ccb, diff ccn ccb)) (out nk) ccb cn_out)
            end
          end
        end
      end
  end.

(* break_cycles: first the query-like labels with one memo, then the evidence with a fresh one *)
Definition bc_top (tc : bool) (use_memo : bool) (src : graph) (ai : atom_info) (is_ev : bool)
           (acc : option (tgt * memo * list key)) (n : key) : option (tgt * memo * list key) :=
  match acc with
  | None => None
  | Some (t, m, ks) =>
    match n with
    | Some c =>
      if is_prob n then
        let c' := if is_ev then Z.abs c else c in
        match bc (S (S (length src))) tc use_memo src ai is_ev t m c' [] with
        | None => None
        | Some r => let k := if is_ev && (c <? 0)%Z then knegate (r_key r) else r_key r in
                    Some (r_tgt r, r_memo r, ks ++ [k])
        end
      else Some (t, m, ks ++ [n])
    | None => Some (t, m, ks ++ [n])
    end
  end.

Definition break_cycles_m (tc : bool) (use_memo : bool) (src : graph) (ai : atom_info) (labeled evidence : list key)
  : option (graph * list key * list key) :=
  match fold_left (bc_top tc use_memo src ai false) labeled (Some (tgt_empty, [], [])) with
  | None => None
  | Some (t1, _, ks1) =>
    match fold_left (bc_top tc use_memo src ai true) evidence (Some (t1, [], [])) with
    | None => None
    | Some (t2, _, ks2) => Some (t_nodes t2, ks1, ks2)
    end
  end.
