(* Existence of the model for graphs with negation only across strata
   (uniqueness is BoolGraph.stratified_model_unique): iterate "least fixpoint of
   the reduct w.r.t. the previous guess"; after (max level + 1) rounds the guess
   reproduces itself. *)
From Coq Require Import ZArith NArith List Bool Lia Arith.
From PL.C09 Require Import BoolGraph.
Import ListNotations.

Fixpoint titer (g : graph) (a : N -> bool) (i : nat) : nat -> bool :=
  match i with
  | O => bot
  | S j => lfpf g a (titer g a j) noblk
  end.

Section Strat.
Variable g : graph.
Variable a : N -> bool.
Variable lvl : nat -> nat.
Hypothesis ST : forall k nd c, node_at g k = Some nd -> In c (children nd) ->
                               ((0 < c)%Z -> lvl (key_of c) <= lvl k) /\ ((c < 0)%Z -> lvl (key_of c) < lvl k).

(* the reduct's least fixpoint at level <= L only reads the guess below L *)
Lemma lfpf_dep : forall s s' L, (forall j, lvl j < L -> s j = s' j) ->
    forall k, lvl k <= L -> lfpf g a s noblk k = lfpf g a s' noblk k.
Proof.
  intros s s' L H. unfold lfpf. generalize (length g) as n.
  induction n; intros k Hk; simpl; auto.
  unfold fstep. destruct (node_at g k) as [nd|] eqn:E; auto. unfold noblk.
  apply eval_node_ext. intros c Hc. destruct (ST k nd c E Hc) as [Hp Hn].
  destruct c as [|p|p]; simpl; auto.
  - apply IHn. rewrite key_of_pos in Hp. assert (lvl (Pos.to_nat p) <= lvl k) by (apply Hp; lia). lia.
  - f_equal. apply H. rewrite key_of_neg in Hn. assert (lvl (Pos.to_nat p) < lvl k) by (apply Hn; lia). lia.
Qed.

Lemma titer_stable : forall i k, lvl k < i -> titer g a (S i) k = titer g a i k.
Proof.
  induction i; intros k Hk. lia.
  change (lfpf g a (titer g a (S i)) noblk k = lfpf g a (titer g a i) noblk k).
  apply (lfpf_dep (titer g a (S i)) (titer g a i) i); auto. lia.
Qed.

Definition maxl : nat := fold_right Nat.max 0 (map lvl (seq 1 (length g))).

Lemma maxl_ge : forall k, 1 <= k <= length g -> lvl k <= maxl.
Proof.
  intros k K. unfold maxl. assert (I : In k (seq 1 (length g))) by (apply in_seq; lia).
  induction (seq 1 (length g)) as [|x l IH]; simpl in *. tauto.
  destruct I as [->|I]. lia. specialize (IH I). lia.
Qed.

Lemma lfpf_out : forall s blk k, ~ (1 <= k <= length g) -> lfpf g a s blk k = false.
Proof.
  intros s blk k H. destruct (lfpf g a s blk k) eqn:E; auto. apply lfpf_range in E. contradiction.
Qed.

Theorem stratified_model_exists_lvl : is_model g a (titer g a (S maxl)).
Proof.
  intros k. change (titer g a (S maxl) k = titer g a (S (S maxl)) k).
  destruct (le_lt_dec 1 k) as [K1|K1]; [destruct (le_lt_dec k (length g)) as [K2|K2]|].
  - symmetry. apply titer_stable. assert (lvl k <= maxl) by (apply maxl_ge; lia). lia.
  - simpl. rewrite !lfpf_out by lia. reflexivity.
  - simpl. rewrite !lfpf_out by lia. reflexivity.
Qed.

End Strat.

Theorem stratified_model_exists : forall g a, stratified g -> exists s, is_model g a s.
Proof.
  intros g a [lvl ST]. exists (titer g a (S (maxl g lvl))). apply stratified_model_exists_lvl. exact ST.
Qed.

(* a checkable certificate of stratification: a table of levels *)
Definition stratb (g : graph) (lv : list nat) : bool :=
  forallb (fun kn => forallb (fun c => if (0 <? c)%Z then nth (key_of c) lv 0 <=? nth (fst kn) lv 0
                                       else if (c <? 0)%Z then nth (key_of c) lv 0 <? nth (fst kn) lv 0
                                            else true)
                             (children (snd kn)))
          (combine (seq 1 (length g)) g).

Lemma In_combine_seq_node : forall (g : graph) k nd st,
    nth_error g k = Some nd -> In (st + k, nd) (combine (seq st (length g)) g).
Proof.
  induction g as [|x g IH]; intros k nd st E. destruct k; discriminate.
  destruct k; simpl in *.
  - inversion E; subst. left. f_equal. lia.
  - right. specialize (IH k nd (S st) E). replace (S st + k) with (st + S k) in IH by lia. exact IH.
Qed.

Theorem stratb_sound : forall g lv, stratb g lv = true -> stratified g.
Proof.
  intros g lv H. exists (fun k => nth k lv 0). intros k nd c E Hc.
  unfold stratb in H. rewrite forallb_forall in H.
  destruct k as [|i]; simpl in E. discriminate.
  assert (I := In_combine_seq_node g i nd 1 E). simpl in I.
  apply H in I. simpl in I. rewrite forallb_forall in I. apply I in Hc.
  destruct (0 <? c)%Z eqn:P.
  - apply Nat.leb_le in Hc. apply Z.ltb_lt in P. split; auto. lia.
  - apply Z.ltb_ge in P. destruct (c <? 0)%Z eqn:Q.
    + apply Nat.ltb_lt in Hc. split; auto. lia.
    + apply Z.ltb_ge in Q. split; lia.
Qed.
