(* Correctness of CyclesEvModel.bc_ev / break_cycles_ev_m: the model of _break_cycles with the
   evidence look-up `source.get_evidence_value(nodeid)` of the query pass.

   1. `bc_ev` with the empty map is `bc` (so CyclesModel.break_cycles_m is an instance).
   2. For a fixed atom assignment a with (stable) model s of the stratified source: the recursion
      keeps the structural invariant (target only grows, stays topological, returned keys and
      memoised keys are valid) unconditionally, and the value invariant of CyclesProofs
          val_avoiding anc n  <=  value of k  <=  s n     (+ the memo form)
      under the hypothesis SND "every entry of the map that is consulted holds in s".  A node
      replaced by its propagated constant b satisfies the sandwich because b = s n and
      val_avoiding B n <= s n for every blocked set B.
   3. Top level: every evidence key has the model value for EVERY assignment (the evidence pass
      does not consult the map), every query key has it for every assignment whose model
      satisfies the map. *)
From Coq Require Import ZArith NArith List Bool Lia Arith.
From PL.C09 Require Import BoolGraph Avoid CyclesModel BuilderProofs CyclesProofs CyclesEvModel.
From PL.C06 Require Import ModelPropagate ProofsPropagate.
Import ListNotations.

(* ------------------------------------------------------------------ the step function, named *)
Definition child_step_ev (f : nat) (tc : bool) (use_memo : bool) (src : graph) (ai : atom_info) (evm : cur) (is_ev : bool)
           (anc' : list nat) (acc : option (tgt * memo * list key * list nat * list nat)) (child : Z)
  : option (tgt * memo * list key * list nat * list nat) :=
  match acc with
  | None => None
  | Some (t0, m0, ks, cb, cn) =>
    match bc_ev f tc use_memo src ai evm is_ev t0 m0 child anc' with
    | None => None
    | Some r => Some (r_tgt r, r_memo r, ks ++ [r_key r], union cb (r_cb r), union cn (r_cn r))
    end
  end.

Lemma bc_ev_unfold : forall f tc um src ai evm is_ev t m nodeid anc,
    bc_ev (S f) tc um src ai evm is_ev t m nodeid anc =
    let neg := (nodeid <? 0)%Z in
    let n := Z.abs_nat nodeid in
    let out (k : key) := if neg then knegate k else k in
    if (n =? 0) && (tc || negb is_ev) then Some (mk_result t m (Some 0%Z) [] [])
    else
    match ev_lookup evm is_ev n with
    | Some b => Some (mk_result t m (out (const_key b)) [] [])
    | None =>
    if mem n anc then Some (mk_result t m None [n] [])
    else
      let reuse := if um then
                     match memo_get m n with
                     | Some es => memo_find es (anc ++ [n])
                     | None => None
                     end
                   else None in
      match reuse with
      | Some (nk, cb, cn) => Some (mk_result t m (out nk) cb cn)
      | None =>
        match node_at src n with
        | None => None
        | Some (NAtom id) =>
          let (t1, nk) := t_add_atom ai t id in
          Some (mk_result t1 (memo_add m n (nk, [], [])) (out nk) [] [])
        | Some nd =>
          let isand := match nd with NAnd _ => true | _ => false end in
          match fold_left (child_step_ev f tc um src ai evm is_ev (anc ++ [n])) (children nd) (Some (t, m, [], [], [])) with
          | None => None
          | Some (t1, m1, ks, ccb, ccn) =>
            match t_add_compound isand t1 ks with
            | None => None
            | Some (t2, nk) =>
              let cn_out := if is_prob nk then union ccn [n] else ccn in
              Some (mk_result t2 (memo_add m1 n (nk, ccb, diff ccn ccb)) (out nk) ccb cn_out)
            end
          end
        end
      end
    end.
Proof. reflexivity. Qed.

Lemma child_step_ev_none : forall f tc um src ai evm is_ev anc' cs,
    fold_left (child_step_ev f tc um src ai evm is_ev anc') cs None = None.
Proof. induction cs; simpl; auto. Qed.

(* ------------------------------------------------------------------ 1. the empty map *)
Lemma fold_left_ext_in : forall (A B : Type) (f g : A -> B -> A) l x,
    (forall y b, In b l -> f y b = g y b) -> fold_left f l x = fold_left g l x.
Proof.
  intros A B f g. induction l as [|b l IH]; intros x H; simpl; auto.
  rewrite H by (left; auto). apply IH. intros y c I. apply H. right; auto.
Qed.

Lemma ev_lookup_nil : forall is_ev n, ev_lookup [] is_ev n = None.
Proof. intros [|] n; reflexivity. Qed.

Lemma ev_lookup_evidence_pass : forall evm n, ev_lookup evm true n = None.
Proof. reflexivity. Qed.

Theorem bc_ev_nil : forall fuel tc um src ai is_ev t m c anc,
    bc_ev fuel tc um src ai [] is_ev t m c anc = bc fuel tc um src ai is_ev t m c anc.
Proof.
  induction fuel as [|f IH]; intros tc um src ai is_ev t m c anc. reflexivity.
  rewrite bc_ev_unfold, bc_unfold. cbv zeta. rewrite ev_lookup_nil.
  destruct ((Z.abs_nat c =? 0) && (tc || negb is_ev)); auto.
  destruct (mem (Z.abs_nat c) anc); auto.
  destruct (if um then match memo_get m (Z.abs_nat c) with Some es => memo_find es (anc ++ [Z.abs_nat c]) | None => None end else None)
    as [[[nk cb] cn]|]; auto.
  destruct (node_at src (Z.abs_nat c)) as [[id|cs|cs]|]; auto.
  - replace (fold_left (child_step_ev f tc um src ai [] is_ev (anc ++ [Z.abs_nat c])) (children (NAnd cs)) (Some (t, m, [], [], [])))
      with (fold_left (child_step f tc um src ai is_ev (anc ++ [Z.abs_nat c])) (children (NAnd cs)) (Some (t, m, [], [], []))); auto.
    apply fold_left_ext_in. intros [[[[[t0 m0] ks] cb] cn]|] ch _; simpl; auto. rewrite IH. reflexivity.
  - replace (fold_left (child_step_ev f tc um src ai [] is_ev (anc ++ [Z.abs_nat c])) (children (NOr cs)) (Some (t, m, [], [], [])))
      with (fold_left (child_step f tc um src ai is_ev (anc ++ [Z.abs_nat c])) (children (NOr cs)) (Some (t, m, [], [], []))); auto.
    apply fold_left_ext_in. intros [[[[[t0 m0] ks] cb] cn]|] ch _; simpl; auto. rewrite IH. reflexivity.
Qed.

Lemma bc_top_ev_nil : forall tc um src ai is_ev acc n,
    bc_top_ev tc um src ai [] is_ev acc n = bc_top tc um src ai is_ev acc n.
Proof.
  intros tc um src ai is_ev [[[t m] ks]|] [c|]; unfold bc_top_ev, bc_top; auto.
  rewrite bc_ev_nil. reflexivity.
Qed.

Theorem break_cycles_ev_nil : forall tc um src ai labeled evidence,
    break_cycles_ev_m tc um src ai [] labeled evidence = break_cycles_m tc um src ai labeled evidence.
Proof.
  intros tc um src ai labeled evidence. unfold break_cycles_ev_m, break_cycles_m.
  rewrite (fold_left_ext_in _ _ (bc_top_ev tc um src ai [] false) (bc_top tc um src ai false))
    by (intros; apply bc_top_ev_nil).
  destruct (fold_left (bc_top tc um src ai false) labeled (Some (tgt_empty, [], []))) as [[[t1 m1] ks1]|]; auto.
  rewrite (fold_left_ext_in _ _ (bc_top_ev tc um src ai [] true) (bc_top tc um src ai true))
    by (intros; apply bc_top_ev_nil).
  reflexivity.
Qed.

(* ------------------------------------------------------------------ 2. the recursion *)
Lemma val_const : forall a t b, val a t (const_key b) = b.
Proof. intros a t [|]; reflexivity. Qed.

Lemma key_valid_const : forall t b, key_valid t (const_key b).
Proof. intros t [|]; simpl; auto. unfold key_of. simpl. lia. Qed.

Lemma key_valid_out : forall t (neg : bool) k, key_valid t k -> key_valid t (if neg then knegate k else k).
Proof. intros t [|] k H; auto. apply key_valid_knegate; auto. Qed.

Section CorrectEv.
Variable src : graph.
Variable a : N -> bool.
Variable s : nat -> bool.
Variable lvl : nat -> nat.
Hypothesis M : is_model src a s.
Hypothesis ST : forall k nd c, node_at src k = Some nd -> In c (children nd) ->
                               ((0 < c)%Z -> lvl (key_of c) <= lvl k) /\ ((c < 0)%Z -> lvl (key_of c) < lvl k).
Variable ai : atom_info.
Variable tc : bool.
Variable use_memo : bool.
Variable is_ev : bool.
Variable evm : cur.

Notation LA := (val_avoiding src a s).
Notation V := (val a).

(* the entries of the map that this pass consults hold in s *)
Definition SND : Prop := forall k b, ev_lookup evm is_ev k = Some b -> s k = b.

Definition memo_okg (t : tgt) (m : memo) : Prop :=
  forall n es e, memo_get m n = Some es -> In e es ->
                 1 <= n /\ key_valid t (fst (fst e)) /\ (SND -> entry_ok src a s t n e).

Definition postg (t : tgt) (c : Z) (anc : list nat) (r : bc_result) : Prop :=
  ext t (r_tgt r) /\ topo (t_nodes (r_tgt r)) /\ memo_okg (r_tgt r) (r_memo r) /\
  key_valid (r_tgt r) (r_key r) /\ (SND -> lit_post src a s (r_tgt r) c anc (r_key r) (r_cb r)).

Definition child_okg (t : tgt) (anc' : list nat) (cb : list nat) (c : Z) (k : key) : Prop :=
  key_valid t k /\ (SND -> lit_post src a s t c anc' k cb).

Lemma memo_okg_ext : forall t t' m, ext t t' -> memo_okg t m -> memo_okg t' m.
Proof.
  intros t t' m E H n es e G I. destruct (H n es e G I) as [N1 [K EO]].
  split; auto. split. eapply key_valid_ext; eauto. intros S. eapply entry_ok_ext; eauto.
Qed.

Lemma memo_okg_add : forall t m n e, memo_okg t m ->
    1 <= n -> key_valid t (fst (fst e)) -> (SND -> entry_ok src a s t n e) -> memo_okg t (memo_add m n e).
Proof.
  intros t m n e H N1 K E n' es e' G I. rewrite memo_get_add in G.
  destruct (Nat.eqb n n') eqn:Q.
  - apply Nat.eqb_eq in Q. subst n'. inversion G; subst. clear G.
    destruct (memo_get m n) as [es0|] eqn:G0.
    + apply in_app_or in I. destruct I as [I|[<-|[]]]; auto. eapply H; eauto.
    + destruct I as [<-|[]]; auto.
  - eapply H; eauto.
Qed.

Lemma memo_okg_ok : forall t m, SND -> memo_okg t m -> memo_ok src a s t m.
Proof. intros t m S H n es e G I. destruct (H n es e G I) as [_ [_ EO]]. auto. Qed.

Lemma memo_okg_nil : forall t, memo_okg t [].
Proof. intros t n es e G. discriminate. Qed.

Lemma LA_le_model : forall B n, LA B n = true -> s n = true.
Proof.
  intros B n X. rewrite <- (val_avoiding_nil_model src a s n M).
  revert X. apply val_avoiding_antitone. intros x [].
Qed.

(* a node replaced by the constant b = s n *)
Lemma const_pos_post : forall t n anc b cb, s n = b -> pos_post src a s t n anc (const_key b) cb.
Proof.
  intros t n anc b cb E. unfold pos_post. rewrite val_const. subst b.
  split; auto. split. apply LA_le_model. intros B _. apply LA_le_model.
Qed.

Lemma children_okg : forall f anc',
    (forall t m c r, topo (t_nodes t) -> memo_okg t m -> anc_ok lvl c anc' ->
                     bc_ev f tc use_memo src ai evm is_ev t m c anc' = Some r -> postg t c anc' r) ->
    forall cs t0 m0 ks0 cb0 cn0 t1 m1 ks ccb ccn,
      topo (t_nodes t0) -> memo_okg t0 m0 -> (forall c, In c cs -> anc_ok lvl c anc') ->
      fold_left (child_step_ev f tc use_memo src ai evm is_ev anc') cs (Some (t0, m0, ks0, cb0, cn0)) = Some (t1, m1, ks, ccb, ccn) ->
      ext t0 t1 /\ topo (t_nodes t1) /\ memo_okg t1 m1 /\ (forall x, In x cb0 -> In x ccb) /\
      exists ks', ks = ks0 ++ ks' /\ Forall2 (child_okg t1 anc' ccb) cs ks'.
Proof.
  intros f anc' IHf. induction cs as [|c cs IH]; intros t0 m0 ks0 cb0 cn0 t1 m1 ks ccb ccn T MO AO H; simpl in H.
  - inversion H; subst. split. apply ext_refl. split; auto. split; auto. split; auto.
    exists []. split. now rewrite app_nil_r. constructor.
  - destruct (bc_ev f tc use_memo src ai evm is_ev t0 m0 c anc') as [r|] eqn:B.
    2: { rewrite child_step_ev_none in H. discriminate. }
    assert (P : postg t0 c anc' r). { apply (IHf t0 m0 c r); auto. apply AO. left; auto. }
    destruct P as [E [T' [MO' [K L]]]].
    apply IH in H; auto.
    2: { intros c' I. apply AO. right; auto. }
    destruct H as [E1 [T1 [MO1 [S1 [ks' [EQ F]]]]]].
    split. eapply ext_trans; eauto. split; auto. split; auto.
    split. { intros x I. apply S1. apply union_In. left; auto. }
    exists (r_key r :: ks'). split. { rewrite EQ. rewrite <- app_assoc. reflexivity. }
    constructor; auto. split. eapply key_valid_ext; eauto.
    intros S. apply (lit_post_ext src a s (r_tgt r) t1 c anc' (r_key r) (r_cb r) ccb); auto.
    intros x I. apply S1. apply union_In. right; auto.
Qed.

Lemma anc_ok_child : forall c n nd anc c', c <> 0%Z -> key_of c = n -> node_at src n = Some nd -> 1 <= n ->
    anc_ok lvl c anc -> In c' (children nd) -> anc_ok lvl c' (anc ++ [n]).
Proof.
  intros c n nd anc c' CN KN E N1 AO I x Hx. destruct (ST n _ c' E I) as [SP SN].
  apply in_app_or in Hx. destruct Hx as [Hx|[<-|[]]].
  - destruct (AO x Hx) as [X1 [XP XN]]. split; auto. rewrite KN in *.
    destruct c as [|p|p]; try congruence.
    + assert (lvl n <= lvl x) by (apply XP; lia). split; intros H0; [apply SP in H0|apply SN in H0]; lia.
    + assert (lvl n < lvl x) by (apply XN; lia). split; intros H0; [apply SP in H0|apply SN in H0]; lia.
  - split; auto.
Qed.

Theorem bc_okg : forall fuel t m c anc r,
    topo (t_nodes t) -> memo_okg t m -> anc_ok lvl c anc ->
    bc_ev fuel tc use_memo src ai evm is_ev t m c anc = Some r -> postg t c anc r.
Proof.
  induction fuel as [|f IHf]; intros t m c anc r T MO AO H. discriminate.
  rewrite bc_ev_unfold in H. cbv zeta in H.
  set (n := Z.abs_nat c) in *.
  assert (KN : key_of c = n) by reflexivity.
  destruct ((n =? 0) && (tc || negb is_ev)) eqn:C0.
  { (* TRUE child *)
    apply andb_true_iff in C0. destruct C0 as [C0 _]. apply Nat.eqb_eq in C0.
    assert (c = 0%Z) by (unfold n in C0; lia). subst c.
    inversion H; subst. split. apply ext_refl. split; auto. split; auto.
    split. simpl. unfold key_of. simpl. lia. intros _. reflexivity. }
  destruct (ev_lookup evm is_ev n) as [b|] eqn:EL.
  { (* propagated evidence value *)
    assert (IE : is_ev = false). { destruct is_ev; auto. discriminate. }
    assert (N0 : n <> 0).
    { intros Z0. rewrite Z0, IE in C0. simpl in C0. rewrite orb_true_r in C0. discriminate. }
    inversion H; subst r. clear H. unfold postg. cbn [r_tgt r_memo r_key r_cb mk_result].
    split. apply ext_refl. split; auto. split; auto.
    split. apply key_valid_out. apply key_valid_const.
    intros S. assert (SN : s n = b) by (apply S; auto).
    destruct c as [|p|p].
    - unfold n in N0. simpl in N0. congruence.
    - simpl. rewrite key_of_pos in KN. rewrite KN. apply const_pos_post; auto.
    - change (Z.neg p <? 0)%Z with true. cbv iota. simpl.
      unfold val. rewrite key_val_knegate. fold (val a t (const_key b)). rewrite val_const.
      rewrite key_of_neg in KN. rewrite KN. now rewrite SN. }
  destruct (mem n anc) eqn:MA.
  { (* ancestor: cycle broken, node is False *)
    apply mem_In in MA. inversion H; subst. clear H.
    split. apply ext_refl. split; auto. split; auto. split. exact I.
    intros _.
    destruct (AO n MA) as [N1 [AP AN]].
    destruct c as [|p|p]; simpl.
    - unfold n in N1. simpl in N1. lia.
    - fold n. split. discriminate. split.
      + intros X. rewrite val_avoiding_blocked in X by auto. discriminate.
      + intros B HB X. rewrite val_avoiding_blocked in X. discriminate.
        apply HB. left; auto. right; auto.
    - rewrite KN in AN. assert (lvl n < lvl n) by (apply AN; lia). lia. }
  (* not an ancestor *)
  assert (NI : ~ In n anc). { intros I. apply mem_In in I. congruence. }
  destruct (if use_memo then match memo_get m n with Some es => memo_find es (anc ++ [n]) | None => None end else None)
    as [[[nk cb] cn]|] eqn:RU.
  { (* memo reuse *)
    destruct use_memo; [|discriminate].
    destruct (memo_get m n) as [es|] eqn:G; [|discriminate].
    apply memo_find_some in RU. destruct RU as [I SUB]. simpl in SUB.
    destruct (MO n es _ G I) as [N1 [K EO]]. simpl in K.
    assert (CN : c <> 0%Z). { intros ->. unfold n in N1. simpl in N1. lia. }
    inversion H; subst. clear H. unfold postg. cbn [r_tgt r_memo r_key r_cb mk_result].
    split. apply ext_refl. split; auto. split; auto.
    split. apply key_valid_out; auto.
    intros S. destruct (EO S) as [_ [_ [U L]]]. simpl in U, L.
    apply (finish src a s lvl M ST t c anc nk cb CN AO K). rewrite KN.
    split; auto. split.
    - intros X. apply L. revert X. apply val_avoiding_antitone.
      intros x Hx. apply rm_In in Hx. destruct Hx as [Hx NE].
      apply (subset_In _ _ SUB) in Hx. apply in_app_or in Hx. destruct Hx as [Hx|[Hx|[]]]; auto. congruence.
    - intros B HB X. apply L. revert X. apply val_avoiding_antitone.
      intros x Hx. apply rm_In in Hx. destruct Hx as [Hx NE]. apply HB; auto. }
  destruct (node_at src n) as [nd|] eqn:E; [|discriminate].
  assert (N1 : 1 <= n) by (apply node_at_Some in E; tauto).
  assert (CN : c <> 0%Z). { intros ->. unfold n in N1. simpl in N1. lia. }
  destruct nd as [id|cs|cs].
  - (* atom *)
    destruct (t_add_atom ai t id) as [t1 nk] eqn:TA. inversion H; subst. clear H.
    unfold postg. cbn [r_tgt r_memo r_key r_cb mk_result].
    destruct (t_add_atom_ok a ai t id t1 nk T TA) as [EX [T1 [K VA]]].
    assert (SN : s n = a id). { rewrite (s_supported src a s M n _ E). reflexivity. }
    assert (LB : forall B, LA B n = true -> V t1 nk = true).
    { intros B X. rewrite val_avoiding_fix, E in X. rewrite VA. destruct (blkset B n); [discriminate|exact X]. }
    split; auto. split; auto. split.
    { apply memo_okg_add; auto. eapply memo_okg_ext; eauto.
      intros _. split; auto. split; auto. simpl. split. rewrite VA, SN; auto. apply LB. }
    split. apply key_valid_out; auto.
    intros _. apply (finish src a s lvl M ST t1 c anc nk [] CN AO K). rewrite KN.
    split. rewrite VA, SN; auto. split. apply LB. intros B _. apply LB.
  - (* conjunction *)
    simpl in H.
    destruct (fold_left (child_step_ev f tc use_memo src ai evm is_ev (anc ++ [n])) cs (Some (t, m, [], [], [])))
      as [[[[[t1 m1] ks] ccb] ccn]|] eqn:FL; [|discriminate].
    destruct (t_add_compound true t1 ks) as [[t2 nk]|] eqn:TC; [|discriminate].
    inversion H; subst. clear H. unfold postg. cbn [r_tgt r_memo r_key r_cb mk_result].
    assert (AO' : forall c', In c' cs -> anc_ok lvl c' (anc ++ [n])).
    { intros c' I. eapply (anc_ok_child c n (NAnd cs)); eauto. }
    destruct (children_okg f (anc ++ [n]) (fun t m c r => IHf t m c (anc ++ [n]) r) cs t m [] [] [] t1 m1 ks ccb ccn T MO AO' FL)
      as [EX1 [T1 [MO1 [_ [ks' [EQ F]]]]]].
    simpl in EQ. subst ks'.
    assert (VK : Forall (key_valid t1) ks).
    { eapply Forall2_right; [|exact F]. intros x y [Ky _]. exact Ky. }
    destruct (t_add_compound_ok a true t1 ks t2 nk T1 VK TC) as [EX2 [T2 [K VAL]]].
    assert (PP : SND -> pos_post src a s t2 n anc nk ccb).
    { intros S. eapply (compound_post src a s M t1 n anc (NAnd cs) true cs ks ccb t2 nk); eauto.
      eapply Forall2_impl; [|exact F]. intros x y [Ky Ly]. split; auto. }
    split. eapply ext_trans; eauto. split; auto. split.
    { apply memo_okg_add; auto. eapply memo_okg_ext; eauto.
      intros S. split; auto. split; auto. simpl. destruct (PP S) as [U [_ L3]]. split; auto.
      apply L3. intros x I [NE|IA]; [apply rm_In; auto | contradiction]. }
    split. apply key_valid_out; auto.
    intros S. apply (finish src a s lvl M ST t2 c anc nk ccb CN AO K). rewrite KN. exact (PP S).
  - (* disjunction *)
    simpl in H.
    destruct (fold_left (child_step_ev f tc use_memo src ai evm is_ev (anc ++ [n])) cs (Some (t, m, [], [], [])))
      as [[[[[t1 m1] ks] ccb] ccn]|] eqn:FL; [|discriminate].
    destruct (t_add_compound false t1 ks) as [[t2 nk]|] eqn:TC; [|discriminate].
    inversion H; subst. clear H. unfold postg. cbn [r_tgt r_memo r_key r_cb mk_result].
    assert (AO' : forall c', In c' cs -> anc_ok lvl c' (anc ++ [n])).
    { intros c' I. eapply (anc_ok_child c n (NOr cs)); eauto. }
    destruct (children_okg f (anc ++ [n]) (fun t m c r => IHf t m c (anc ++ [n]) r) cs t m [] [] [] t1 m1 ks ccb ccn T MO AO' FL)
      as [EX1 [T1 [MO1 [_ [ks' [EQ F]]]]]].
    simpl in EQ. subst ks'.
    assert (VK : Forall (key_valid t1) ks).
    { eapply Forall2_right; [|exact F]. intros x y [Ky _]. exact Ky. }
    destruct (t_add_compound_ok a false t1 ks t2 nk T1 VK TC) as [EX2 [T2 [K VAL]]].
    assert (PP : SND -> pos_post src a s t2 n anc nk ccb).
    { intros S. eapply (compound_post src a s M t1 n anc (NOr cs) false cs ks ccb t2 nk); eauto.
      eapply Forall2_impl; [|exact F]. intros x y [Ky Ly]. split; auto. }
    split. eapply ext_trans; eauto. split; auto. split.
    { apply memo_okg_add; auto. eapply memo_okg_ext; eauto.
      intros S. split; auto. split; auto. simpl. destruct (PP S) as [U [_ L3]]. split; auto.
      apply L3. intros x I [NE|IA]; [apply rm_In; auto | contradiction]. }
    split. apply key_valid_out; auto.
    intros S. apply (finish src a s lvl M ST t2 c anc nk ccb CN AO K). rewrite KN. exact (PP S).
Qed.

(* at top level (no ancestors) the bounds meet *)
Corollary bc_top_value_ev : forall fuel t m c r,
    topo (t_nodes t) -> memo_okg t m ->
    bc_ev fuel tc use_memo src ai evm is_ev t m c [] = Some r ->
    ext t (r_tgt r) /\ topo (t_nodes (r_tgt r)) /\ memo_okg (r_tgt r) (r_memo r) /\ key_valid (r_tgt r) (r_key r) /\
    (SND -> V (r_tgt r) (r_key r) = lit_val s c).
Proof.
  intros fuel t m c r T MO H.
  destruct (bc_okg fuel t m c [] r T MO (fun x (I : In x []) => match I with end) H) as [E [T' [MO' [K L]]]].
  split; auto. split; auto. split; auto. split; auto.
  intros S. specialize (L S).
  destruct c as [|p|p]; simpl in *; auto.
  destruct L as [U [L2 _]]. rewrite val_avoiding_nil_model in L2 by auto.
  destruct (V (r_tgt r) (r_key r)) eqn:E1; destruct (s (Pos.to_nat p)) eqn:E2; auto;
    try (symmetry; auto; fail); try (apply L2; reflexivity).
Qed.

End CorrectEv.

(* ------------------------------------------------------------------ 3. break_cycles: both passes *)
(* `holds_in s evm` (PL.C06.ProofsPropagate): forall k b, cget evm k = Some b -> s k = b *)

Section TopEv.
Variable src : graph.
Variable a : N -> bool.
Variable s : nat -> bool.
Variable lvl : nat -> nat.
Hypothesis M : is_model src a s.
Hypothesis ST : forall k nd c, node_at src k = Some nd -> In c (children nd) ->
                               ((0 < c)%Z -> lvl (key_of c) <= lvl k) /\ ((c < 0)%Z -> lvl (key_of c) < lvl k).
Variable ai : atom_info.
Variable tc : bool.
Variable use_memo : bool.
Variable evm : cur.

Definition key_okg (is_ev : bool) (t : tgt) (n k : key) : Prop :=
  key_valid t k /\ (SND s is_ev evm -> val a t k = key_val s n).

Lemma key_okg_ext : forall is_ev t t' n k, ext t t' -> key_okg is_ev t n k -> key_okg is_ev t' n k.
Proof.
  intros is_ev t t' n k E [K V]. split. eapply key_valid_ext; eauto. rewrite (val_ext a t t' k E K). exact V.
Qed.

Lemma bc_top_ev_ok : forall is_ev t m ks n t' m' ks',
    topo (t_nodes t) -> memo_okg src a s is_ev evm t m ->
    bc_top_ev tc use_memo src ai evm is_ev (Some (t, m, ks)) n = Some (t', m', ks') ->
    ext t t' /\ topo (t_nodes t') /\ memo_okg src a s is_ev evm t' m' /\ exists k, ks' = ks ++ [k] /\ key_okg is_ev t' n k.
Proof.
  intros is_ev t m ks n t' m' ks' T MO H. unfold bc_top_ev in H.
  destruct n as [c|].
  - destruct (is_prob (Some c)) eqn:P.
    + destruct (bc_ev (S (S (length src))) tc use_memo src ai evm is_ev t m (if is_ev then Z.abs c else c) []) as [r|] eqn:B; [|discriminate].
      inversion H; subst. clear H.
      destruct (bc_top_value_ev src a s lvl M ST ai tc use_memo is_ev evm _ t m _ r T MO B) as [E [T' [MO' [K V]]]].
      split; auto. split; auto. split; auto.
      eexists. split. reflexivity.
      destruct is_ev; simpl.
      * destruct (c <? 0)%Z eqn:NEG.
        { split. apply key_valid_knegate; auto. intros S. unfold val. rewrite key_val_knegate. fold (val a (r_tgt r) (r_key r)).
          rewrite (V S). apply Z.ltb_lt in NEG. destruct c as [|p|p]; try lia. simpl. reflexivity. }
        { split; auto. intros S. rewrite (V S). apply Z.ltb_ge in NEG. destruct c as [|p|p]; try lia; reflexivity. }
      * split; auto.
    + inversion H; subst. split. apply ext_refl. split; auto. split; auto.
      eexists. split. reflexivity. destruct c as [|p|p]; try discriminate.
      split. simpl. unfold key_of. simpl. lia. intros _. reflexivity.
  - inversion H; subst. split. apply ext_refl. split; auto. split; auto.
    eexists. split. reflexivity. split. exact I. intros _. reflexivity.
Qed.

Lemma bc_top_ev_none : forall is_ev ns, fold_left (bc_top_ev tc use_memo src ai evm is_ev) ns None = None.
Proof. induction ns; simpl; auto. Qed.

Lemma bc_top_ev_fold : forall is_ev ns t m ks t' m' ks',
    topo (t_nodes t) -> memo_okg src a s is_ev evm t m ->
    fold_left (bc_top_ev tc use_memo src ai evm is_ev) ns (Some (t, m, ks)) = Some (t', m', ks') ->
    ext t t' /\ topo (t_nodes t') /\ exists ks'', ks' = ks ++ ks'' /\ Forall2 (key_okg is_ev t') ns ks''.
Proof.
  intros is_ev. induction ns as [|n ns IH]; intros t m ks t' m' ks' T MO H.
  - change (Some (t, m, ks) = Some (t', m', ks')) in H.
    inversion H; subst. split. apply ext_refl. split; auto. exists []. split. now rewrite app_nil_r. constructor.
  - change (fold_left (bc_top_ev tc use_memo src ai evm is_ev) ns (bc_top_ev tc use_memo src ai evm is_ev (Some (t, m, ks)) n) = Some (t', m', ks')) in H.
    destruct (bc_top_ev tc use_memo src ai evm is_ev (Some (t, m, ks)) n) as [[[t1 m1] ks1]|] eqn:B.
    2: { rewrite bc_top_ev_none in H. discriminate. }
    destruct (bc_top_ev_ok is_ev t m ks n t1 m1 ks1 T MO B) as [E [T1 [MO1 [k [EQ KO]]]]].
    destruct (IH t1 m1 ks1 t' m' ks' T1 MO1 H) as [E' [T' [ks'' [EQ' F]]]].
    split. eapply ext_trans; eauto. split; auto.
    exists (k :: ks''). split. rewrite EQ', EQ, <- app_assoc. reflexivity.
    constructor; auto. eapply key_okg_ext; eauto.
Qed.

End TopEv.

Lemma SND_evidence_pass : forall s evm, SND s true evm.
Proof. intros s evm k b H. discriminate. Qed.

Lemma SND_query_pass : forall s evm, holds_in s evm -> SND s false evm.
Proof. intros s evm H k b E. apply H. exact E. Qed.

(* THE theorem for the model with the evidence map.  For one assignment a with model s:
   the evidence keys are right unconditionally, the query keys when s satisfies the map. *)
Theorem break_cycles_ev_correct : forall tc use_memo src ai evm labeled evidence D ks1 ks2 a s,
    is_model src a s -> stratified src ->
    break_cycles_ev_m tc use_memo src ai evm labeled evidence = Some (D, ks1, ks2) ->
    topo D /\
    Forall2 (fun n k => key_val (vget (dag_val a D)) k = key_val s n) evidence ks2 /\
    Forall2 (fun n k => holds_in s evm -> key_val (vget (dag_val a D)) k = key_val s n) labeled ks1.
Proof.
  intros tc use_memo src ai evm labeled evidence D ks1 ks2 a s M [lvl ST] H. unfold break_cycles_ev_m in H.
  destruct (fold_left (bc_top_ev tc use_memo src ai evm false) labeled (Some (tgt_empty, [], []))) as [[[t1 m1] k1]|] eqn:F1; [|discriminate].
  destruct (fold_left (bc_top_ev tc use_memo src ai evm true) evidence (Some (t1, [], []))) as [[[t2 m2] k2]|] eqn:F2; [|discriminate].
  inversion H; subst. clear H.
  assert (T0 : topo (t_nodes tgt_empty)). { intros k nd c E. destruct k; simpl in E; try discriminate. destruct k; discriminate. }
  destruct (bc_top_ev_fold src a s lvl M ST ai tc use_memo evm false labeled tgt_empty [] [] t1 m1 ks1 T0 (memo_okg_nil _ _ _ _ _ _) F1)
    as [E1 [T1 [ks' [EQ1 FA1]]]]. simpl in EQ1. subst ks'.
  destruct (bc_top_ev_fold src a s lvl M ST ai tc use_memo evm true evidence t1 [] [] t2 m2 ks2 T1 (memo_okg_nil _ _ _ _ _ _) F2)
    as [E2 [T2 [ks' [EQ2 FA2]]]]. simpl in EQ2. subst ks'.
  split; auto. split.
  - eapply Forall2_impl; [|exact FA2]. intros n k [_ V]. apply V. apply SND_evidence_pass.
  - eapply Forall2_impl; [|exact FA1]. intros n k KO HM.
    apply (key_okg_ext a s evm false t1 t2 n k E2) in KO. destruct KO as [_ V]. apply V. apply SND_query_pass; auto.
Qed.
