(* P(q | e) is unchanged by cycle breaking on a source formula that carries propagated evidence
   values (CyclesEvModel.break_cycles_ev_m), and the link with the model of LogicFormula.propagate
   (PL.C06): the map propagate computes is sound for the evidence, for every pop order. *)
From Coq Require Import QArith ZArith NArith List Bool Lia.
From PL.C09 Require Import BoolGraph CyclesModel CyclesProofs CyclesEvModel CyclesEvProofs.
From PL.C06 Require Import ModelPropagate ProofsPropagate ModelWMC.
Import ListNotations.

(* the evidence names of a formula: key in the name table + wanted value
   (Some true = LABEL_EVIDENCE_POS, Some false = LABEL_EVIDENCE_NEG, None = LABEL_EVIDENCE_MAYBE) *)
Definition ev_holds (v : nat -> bool) (evidence : list key) (want : list (option bool)) : bool :=
  forallb (fun kw => match snd kw with
                     | None => true
                     | Some b => Bool.eqb (key_val v (fst kw)) b
                     end) (combine evidence want).

(* engine.ground_evidence:  ev_nodes = [node for name, node in target.evidence() if node != 0 and node is not None]
   where evidence() lists `node` for POS and `negate(node)` for NEG names *)
Definition ev_nodes (evidence : list key) (want : list (option bool)) : list Z :=
  flat_map (fun kw => match fst kw, snd kw with
                      | Some Z0, _ => []
                      | Some c, Some true => [c]
                      | Some c, Some false => [(- c)%Z]
                      | _, _ => []
                      end) (combine evidence want).

(* the map is sound for the evidence in the worlds selected by cst (cst = the AD constraints for
   the entries ConstraintAD.add contributes; fun _ => true for the entries of propagate) *)
Definition ev_map_sound (model : (N -> bool) -> nat -> bool) (cst : (N -> bool) -> bool)
           (evidence : list key) (want : list (option bool)) (evm : cur) : Prop :=
  forall a, cst a = true -> ev_holds (model a) evidence want = true -> holds_in (model a) evm.

Lemma ev_holds_sat : forall v evidence want,
    ev_holds v evidence want = true -> sat_lits v (ev_nodes evidence want).
Proof.
  intros v evidence want H x Hx. unfold ev_holds in H. rewrite forallb_forall in H.
  unfold ev_nodes in Hx. apply in_flat_map in Hx. destruct Hx as [[k w] [I Hx]].
  specialize (H _ I). simpl in *.
  destruct k as [c|]; [|destruct Hx].
  destruct c as [|p|p]; [destruct Hx| |]; destruct w as [[|]|]; try (destruct Hx; fail);
    destruct Hx as [<-|[]]; apply eqb_prop in H; simpl in *; auto.
  - now rewrite H.
  - destruct (v (Pos.to_nat p)); simpl in *; congruence.
Qed.

Lemma ev_holds_F2 : forall v v' evidence ks2 want,
    Forall2 (fun n k => key_val v' k = key_val v n) evidence ks2 ->
    ev_holds v' ks2 want = ev_holds v evidence want.
Proof.
  intros v v' evidence ks2 want F. revert want. unfold ev_holds.
  induction F as [|n k l l' E F IH]; intros want; simpl; auto.
  destruct want as [|w want]; simpl; auto. rewrite IH, E. reflexivity.
Qed.

Lemma wmc_pointwise : forall w ids phi psi, (forall a, phi a = psi a) -> wmc w ids phi = wmc w ids psi.
Proof. intros w ids phi psi H. unfold wmc. f_equal. apply map_ext. intros t. now rewrite H. Qed.

Lemma Forall2_forall : forall (A B C : Type) (c0 : C) (R : C -> A -> B -> Prop) l1 l2,
    (forall c, Forall2 (R c) l1 l2) -> Forall2 (fun x y => forall c, R c x y) l1 l2.
Proof.
  intros A B C c0 R. induction l1 as [|x l1 IH]; intros l2 H.
  - specialize (H c0). inversion H. constructor.
  - destruct l2 as [|y l2]. specialize (H c0). inversion H.
    constructor.
    + intros c. specialize (H c). inversion H; auto.
    + apply IH. intros c. specialize (H c). inversion H; auto.
Qed.

(* conditional probabilities of all query-like names are the same on the acyclic program *)
Theorem break_cycles_ev_cond_prob :
  forall tc use_memo src ai evm labeled evidence want D ks1 ks2
         (model : (N -> bool) -> nat -> bool) (cst : (N -> bool) -> bool) (w : N -> Q) ids,
    stratified src -> (forall a, is_model src a (model a)) ->
    ev_map_sound model cst evidence want evm ->
    break_cycles_ev_m tc use_memo src ai evm labeled evidence = Some (D, ks1, ks2) ->
    Forall2 (fun q k =>
               cond_prob w ids (fun a => key_val (vget (dag_val a D)) k)
                         (fun a => cst a && ev_holds (vget (dag_val a D)) ks2 want)
               = cond_prob w ids (fun a => key_val (model a) q)
                           (fun a => cst a && ev_holds (model a) evidence want)) labeled ks1.
Proof.
  intros tc um src ai evm labeled evidence want D ks1 ks2 model cst w ids ST MD SOUND H.
  assert (ALL : forall a, Forall2 (fun q k => holds_in (model a) evm ->
                                              key_val (vget (dag_val a D)) k = key_val (model a) q) labeled ks1).
  { intros a. destruct (break_cycles_ev_correct tc um src ai evm labeled evidence D ks1 ks2 a (model a) (MD a) ST H) as [_ [_ F]]. exact F. }
  assert (EV : forall a, ev_holds (vget (dag_val a D)) ks2 want = ev_holds (model a) evidence want).
  { intros a. destruct (break_cycles_ev_correct tc um src ai evm labeled evidence D ks1 ks2 a (model a) (MD a) ST H) as [_ [F _]].
    apply ev_holds_F2. exact F. }
  apply (Forall2_forall _ _ _ (fun _ : N => false)) in ALL.
  eapply Forall2_impl; [|exact ALL]. intros q k Q. simpl in Q.
  unfold cond_prob. f_equal.
  - apply wmc_pointwise. intros a. rewrite EV.
    destruct (cst a) eqn:C; [|now rewrite !andb_false_r].
    destruct (ev_holds (model a) evidence want) eqn:E; [|now rewrite !andb_false_r].
    rewrite Q; auto.
  - apply wmc_pointwise. intros a. now rewrite EV.
Qed.

(* the map computed by the model of LogicFormula.propagate from the evidence literals is sound
   (PL.C06 propagate_sound), for every pop order of the queue and every amount of fuel *)
Theorem propagate_map_sound : forall src model evidence want sched fuel evm,
    (forall a, is_model src a (model a)) ->
    propagate_m src (ev_nodes evidence want) [] sched fuel = Done evm ->
    ev_map_sound model (fun _ => true) evidence want evm.
Proof.
  intros src model evidence want sched fuel evm MD P a _ E.
  eapply propagate_sound; eauto. apply ev_holds_sat. exact E.
Qed.

(* the two together: ground_evidence(propagate_evidence=True) followed by break_cycles *)
Theorem break_cycles_propagated_cond_prob :
  forall tc use_memo src ai labeled evidence want sched fuel evm D ks1 ks2
         (model : (N -> bool) -> nat -> bool) (w : N -> Q) ids,
    stratified src -> (forall a, is_model src a (model a)) ->
    propagate_m src (ev_nodes evidence want) [] sched fuel = Done evm ->
    break_cycles_ev_m tc use_memo src ai evm labeled evidence = Some (D, ks1, ks2) ->
    Forall2 (fun q k =>
               cond_prob w ids (fun a => key_val (vget (dag_val a D)) k)
                         (fun a => true && ev_holds (vget (dag_val a D)) ks2 want)
               = cond_prob w ids (fun a => key_val (model a) q)
                           (fun a => true && ev_holds (model a) evidence want)) labeled ks1.
Proof.
  intros tc um src ai labeled evidence want sched fuel evm D ks1 ks2 model w ids ST MD P H.
  apply (break_cycles_ev_cond_prob tc um src ai evm labeled evidence want D ks1 ks2 model (fun _ => true) w ids ST MD); auto.
  eapply propagate_map_sound; eauto.
Qed.
