(* C33 -- the soft-cut model picks the applicable rule with the smallest index
   and does not depend on the file order of the rules.  Generic in the domain
   [D] on which C15's generated struct_cmp is the standard order. *)
From Coq Require Import ZArith NArith List Bool Sorted Permutation Lia.
From PL.C15 Require Import ModelStd ModelPrelude GenStructCmp ProofsStd ProofsSort ProofsGen.
From PL.C33 Require Import GenLibCut ModelCut.
Import ListNotations.

Section CutFacts.
  Variable fr : Z -> text.
  Variable A : Type.
  Variable D : term -> bool.
  Hypothesis HD : forall a b, D a = true -> D b = true -> struct_cmp fr a b = cmpZ (plg_cmp a b).

  Notation crule := (crule A).
  Notation ltP := (ltR plg_cmp).

  Definition indices_in (rs : list crule) : Prop := Forall (fun v => D v = true) (collect A rs).

  (* what the property asks of the result *)
  Definition is_choice (rs : list crule) (res : option (term * list A)) : Prop :=
    match res with
    | None => forall v, In v (collect A rs) -> answers_at A rs v = []
    | Some (v, ans) =>
        In v (collect A rs) /\ ans = answers_at A rs v /\ ans <> [] /\
        forall w, In w (collect A rs) -> answers_at A rs w <> [] -> plg_cmp v w <> Gt
    end.

  Lemma olist_is_sort rs : indices_in rs -> olist fr A rs = plg_sort (collect A rs).
  Proof.
    intros H. unfold olist. apply (sort_spec fr D HD); [exact H|apply py_set_list_is_set].
  Qed.

  Lemma walk_sorted rs : forall l, StronglySorted ltP l ->
    match walk A rs l with
    | None => forall v, In v l -> answers_at A rs v = []
    | Some (v, ans) => In v l /\ ans = answers_at A rs v /\ ans <> [] /\
                       forall w, In w l -> answers_at A rs w <> [] -> plg_cmp v w <> Gt
    end.
  Proof.
    induction 1 as [|v l S IH F]; cbn [walk].
    - intros v [].
    - destruct (answers_at A rs v) as [|a ans] eqn:E.
      + destruct (walk A rs l) as [[u ans']|].
        * destruct IH as (I1 & I2 & I3 & I4). repeat split; auto.
          -- right. exact I1.
          -- intros w [<-|Hw] Hne; [congruence|auto].
        * intros w [<-|Hw]; auto.
      + repeat split.
        * left. reflexivity.
        * symmetry. exact E.
        * discriminate.
        * intros w [<-|Hw] _.
          -- unfold plg_cmp. rewrite cmp_refl. discriminate.
          -- rewrite Forall_forall in F. specialize (F w Hw). unfold ProofsStd.ltR in F. rewrite F. discriminate.
  Qed.

  Theorem cut_lowest_index rs : indices_in rs -> is_choice rs (cut_m fr A rs).
  Proof.
    intros H. unfold cut_m. rewrite olist_is_sort by exact H.
    pose proof (walk_sorted rs (plg_sort (collect A rs))
                  (sort_u_sorted plg_cmp (cmp_eq true) (cmp_opp true) (cmp_trans true) _)) as W.
    unfold is_choice. unfold plg_sort in *.
    assert (I : forall x, In x (sort_u plg_cmp (collect A rs)) <-> In x (collect A rs))
      by (intros x; apply (sort_u_In plg_cmp (cmp_eq true))).
    destruct (walk A rs (sort_u plg_cmp (collect A rs))) as [[v ans]|].
    - destruct W as (W1 & W2 & W3 & W4). repeat split; auto.
      + apply I. exact W1.
      + intros w Hw. apply W4. apply I. exact Hw.
    - intros v Hv. apply W. apply I. exact Hv.
  Qed.

  (* the choice is unique: two results that satisfy the property agree *)
  Lemma choice_unique rs r1 r2 : is_choice rs r1 -> is_choice rs r2 -> r1 = r2.
  Proof.
    destruct r1 as [[v1 a1]|], r2 as [[v2 a2]|]; cbn; intros H1 H2; try reflexivity.
    - destruct H1 as (I1 & E1 & N1 & M1), H2 as (I2 & E2 & N2 & M2).
      assert (v1 = v2).
      { subst a1 a2. specialize (M1 v2 I2 N2). specialize (M2 v1 I1 N1).
        unfold plg_cmp in *. rewrite (cmp_opp true v1 v2) in M2.
        destruct (std_cmp_gen true v1 v2) eqn:E; try congruence.
        - apply cmp_eq in E. exact E.
        - cbn in M2. congruence. }
      subst v2. congruence.
    - destruct H1 as (I1 & E1 & N1 & M1). subst a1. exfalso. apply N1. apply H2. exact I1.
    - destruct H2 as (I2 & E2 & N2 & M2). subst a2. exfalso. apply N2. apply H1. exact I2.
  Qed.

  (* ---- independence from the file order *)
  Lemma filter_perm {B} (f : B -> bool) l l' : Permutation l l' -> Permutation (filter f l) (filter f l').
  Proof.
    induction 1; cbn.
    - constructor.
    - destruct (f x); [constructor|]; assumption.
    - destruct (f x), (f y); try constructor; try apply Permutation_refl. 
    - eapply Permutation_trans; eassumption.
  Qed.

  Lemma collect_perm rs rs' : Permutation rs rs' -> Permutation (collect A rs) (collect A rs').
  Proof. intros P. unfold collect. apply Permutation_map. apply filter_perm. exact P. Qed.

  Lemma answers_perm rs rs' v : Permutation rs rs' -> Permutation (answers_at A rs v) (answers_at A rs' v).
  Proof. intros P. unfold answers_at. apply Permutation_flat_map. apply filter_perm. exact P. Qed.

  Lemma answers_nil_perm rs rs' v : Permutation rs rs' -> answers_at A rs v = [] -> answers_at A rs' v = [].
  Proof.
    intros P E. apply Permutation_nil. rewrite <- E. apply answers_perm. exact P.
  Qed.

  Lemma is_choice_perm rs rs' v ans :
    Permutation rs rs' -> is_choice rs (Some (v, ans)) -> is_choice rs' (Some (v, answers_at A rs' v)).
  Proof.
    intros P (I & E & N & M). cbn. repeat split.
    - eapply Permutation_in; [apply collect_perm; exact P|exact I].
    - intros E'. apply N. subst ans. eapply answers_nil_perm; [apply Permutation_sym; exact P|exact E'].
    - intros w Hw Nw. apply M.
      + eapply Permutation_in; [apply collect_perm; apply Permutation_sym; exact P|exact Hw].
      + intros E'. apply Nw. eapply answers_nil_perm; [exact P|exact E'].
  Qed.

  Theorem cut_file_order_free rs rs' :
    indices_in rs -> Permutation rs rs' ->
    match cut_m fr A rs, cut_m fr A rs' with
    | None, None => True
    | Some (v, ans), Some (v', ans') => v = v' /\ Permutation ans ans'
    | _, _ => False
    end.
  Proof.
    intros H P.
    assert (H' : indices_in rs').
    { unfold indices_in in *. rewrite Forall_forall in *. intros x Hx. apply H.
      eapply Permutation_in; [apply Permutation_sym; apply collect_perm; exact P|exact Hx]. }
    pose proof (cut_lowest_index rs H) as C. pose proof (cut_lowest_index rs' H') as C'.
    destruct (cut_m fr A rs) as [[v ans]|] eqn:E, (cut_m fr A rs') as [[v' ans']|] eqn:E'.
    - pose proof (is_choice_perm rs rs' v ans P C) as C2.
      pose proof (choice_unique rs' _ _ C' C2) as U. inversion U; subst.
      split; [reflexivity|]. destruct C as (_ & -> & _). apply answers_perm. exact P.
    - destruct C as (I & Ea & N & _). apply N. subst ans.
      eapply answers_nil_perm; [apply Permutation_sym; exact P|]. apply C'.
      eapply Permutation_in; [apply collect_perm; exact P|exact I].
    - destruct C' as (I & Ea & N & _). apply N. subst ans'.
      eapply answers_nil_perm; [exact P|]. apply C.
      eapply Permutation_in; [apply collect_perm; apply Permutation_sym; exact P|exact I].
    - exact I.
  Qed.
End CutFacts.

(* integer indices: the order is the numeric one *)
Lemma int_index_le sa i j : std_cmp_gen sa (TInt i) (TInt j) <> Gt -> (i <= j)%Z.
Proof. rewrite cmp_int_int. intros H. apply Z.compare_le_iff. exact H. Qed.

Lemma cut_int_index fr A D
  (HD : forall a b, D a = true -> D b = true -> struct_cmp fr a b = cmpZ (plg_cmp a b))
  (rs : list (crule A)) i ans :
  indices_in A D rs -> cut_m fr A rs = Some (TInt i, ans) ->
  ans = answers_at A rs (TInt i) /\ ans <> [] /\
  forall j, In (TInt j) (collect A rs) -> answers_at A rs (TInt j) <> [] -> (i <= j)%Z.
Proof.
  intros H E. pose proof (cut_lowest_index fr A D HD rs H) as C. rewrite E in C.
  destruct C as (_ & E1 & N & M). repeat split; auto.
  intros j Hj Nj. eapply int_index_le. apply M; eassumption.
Qed.
