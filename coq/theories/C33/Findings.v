(* C33 -- refutation witness for the PINNED source: with indices 10 and 2 both
   applicable the library model (on C15's generated sort) picks 10.
   Outside the cone of Props.v; stops compiling once C15's number defect is fixed. *)
From Coq Require Import ZArith NArith List Bool.
From PL.C15 Require Import ModelStd ModelPrelude GenStructCmp.
From PL.C33 Require Import ModelCut.
Import ListNotations.

Theorem C33_lowest_index_refuted :
  exists rs : list (crule nat),
    Forall (fun v => dom v = true) (collect nat rs) /\
    forall fr, cut_m fr nat rs = Some (TInt 10, [100]%nat) /\
               answers_at nat rs (TInt 2) <> [] /\ plg_cmp (TInt 10) (TInt 2) = Gt.
Proof.
  exists [Build_crule (TInt 10) true [100]; Build_crule (TInt 2) true [20]]%nat.
  split; [repeat constructor|]. intros fr. split; [vm_compute; reflexivity|]. split; [vm_compute; discriminate|vm_compute; reflexivity].
Qed.
