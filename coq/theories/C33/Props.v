(* C33 -- the soft-cut library picks the lowest-indexed applicable rule.
   Only statements, closed by `exact`.

   Model: ModelCut.cut_m (hand model of library/cut.pl; the clauses it was
   written from are pinned against the clauses regenerated from cut.pl on every
   run, C33_library_pinned) on top of C15's GENERATED model of sort/2.
   Index terms in [dom]: any integer |z| < 2^53, floats, unquoted atoms,
   compounds.  Depends on C15/ProofsFixed.v (struct_cmp is the standard order
   on [dom]); before fix 24d7f1d r(10,..) was preferred to r(2,..) (witness kept
   in corpus/C33). *)
From Coq Require Import ZArith NArith List Bool Permutation.
From PL.C15 Require Import ModelStd ModelPrelude GenStructCmp ProofsGen ProofsFixed.
From PL.C33 Require Import GenLibCut ModelCut ProofsCut.
Import ListNotations.

(* the library text is the one the model was written from *)
Theorem C33_library_pinned : lib_cut_clauses = expected_clauses.
Proof. vm_compute. reflexivity. Qed.
Print Assumptions C33_library_pinned.

(* cut/1 answers = all answers of the applicable clauses with the smallest
   applicable index (standard order of terms); cut/2 binds Index to it; no
   answer iff no clause is applicable *)
Theorem C33_lowest_index : forall fr A (rs : list (crule A)),
  Forall (fun v => dom v = true) (collect A rs) ->
  match cut_m fr A rs with
  | None => forall v, In v (collect A rs) -> answers_at A rs v = []
  | Some (v, ans) =>
      In v (collect A rs) /\ ans = answers_at A rs v /\ ans <> [] /\
      forall w, In w (collect A rs) -> answers_at A rs w <> [] -> plg_cmp v w <> Gt
  end.
Proof. exact (fun fr A => cut_lowest_index fr A dom (struct_cmp_dom fr)). Qed.
Print Assumptions C33_lowest_index.

(* integer indices: numeric order (this is what cut/2 returns) *)
Theorem C33_cut2_index : forall fr A (rs : list (crule A)) i ans,
  Forall (fun v => dom v = true) (collect A rs) ->
  cut_m fr A rs = Some (TInt i, ans) ->
  ans = answers_at A rs (TInt i) /\ ans <> [] /\
  forall j, In (TInt j) (collect A rs) -> answers_at A rs (TInt j) <> [] -> (i <= j)%Z.
Proof. exact (fun fr A => cut_int_index fr A dom (struct_cmp_dom fr)). Qed.
Print Assumptions C33_cut2_index.

(* the file order of the rules does not matter *)
Theorem C33_file_order_free : forall fr A (rs rs' : list (crule A)),
  Forall (fun v => dom v = true) (collect A rs) -> Permutation rs rs' ->
  match cut_m fr A rs, cut_m fr A rs' with
  | None, None => True
  | Some (v, ans), Some (v', ans') => v = v' /\ Permutation ans ans'
  | _, _ => False
  end.
Proof. exact (fun fr A => cut_file_order_free fr A dom (struct_cmp_dom fr)). Qed.
Print Assumptions C33_file_order_free.

(* non-vacuity: multi-digit indices *)
Example C33_example : forall fr,
  cut_m fr nat [Build_crule (TInt 10) true [100]; Build_crule (TInt 3) true []; Build_crule (TInt 12) false [50];
                Build_crule (TInt 2) true [20; 21]]%nat
  = Some (TInt 2, [20; 21]%nat).
Proof. intros fr. vm_compute. reflexivity. Qed.
