(* C33 -- hand model of problog/library/cut.pl (soft cut over indexed rules).
   No proofs in this file.

   The library (pinned clause by clause: [expected_clauses] must equal the value
   GenLibCut.lib_cut_clauses that gen/c33_libcut.py regenerates from cut.pl with
   ProbLog's parser on every run -- Props.C33_library_pinned):

     cut(Call) :-                                   (cut/2: same body, Index is the 2nd argument)
         Call =.. [Pred|Args],
         RCall =.. [Pred, Index | Args],            RCall = r(Index, Args...)
         all(Index, clause(RCall, _), List),        [collect]   indices of the clauses whose head unifies
         sort(List, OList),                         [olist]     sort/2 = C15's generated _builtin_sort
         cut(RCall, Index, OList, Call).
     cut(RCall, Index, [Index|Rest], Call) :- call(RCall).                     [walk, first branch]
     cut(RCall, Index, [Value|Rest], Call) :-
         \+ (Value = Index, call(RCall)), cut(RCall, Index, Rest, Call).       [walk, second branch]

   For one fixed call r(Args) a clause of r is abstracted to
     c_idx      its (ground) index argument,
     c_matches  does its head unify with r(_, Args)           (what clause/2 sees),
     c_answers  the answers of its body under that unification (what call/1 yields; [] = not applicable).
   [A] (the type of an answer) is arbitrary.  Indices are ground terms on
   which unification is identity (numbers, unquoted atoms). *)
From Coq Require Import ZArith NArith List Bool String Ascii.
From PL.C15 Require Import ModelStd ModelPrelude GenStructCmp.
Import ListNotations.

(* ---- the clauses the model was written from *)
Fixpoint codes (s : string) : text :=
  match s with EmptyString => [] | String a r => N_of_ascii a :: codes r end.
Definition V (n : Z) : term := TVar n.
Definition fn (s : string) (xs : list term) : term := TFun (codes s) xs.
Definition conj (a b : term) : term := fn "," [a; b].
Definition lst (h t : term) : term := fn "." [h; t].


Definition expected_clauses : list (term * term) := [
  (* :- module(cut, [cut/1, cut/2]). *)
  (fn "_directive" [],
   fn "module" [fn "cut" []; lst (fn "'/'" [fn "cut" []; TInt 1]) (lst (fn "'/'" [fn "cut" []; TInt 2]) (fn "[]" []))]);
  (* cut(Call) :- Call =.. [Pred|Args], RCall =.. [Pred,Index|Args], all(Index,clause(RCall,_),List), sort(List,OList), cut(RCall,Index,OList,Call).
     Call 0, Pred 1, Args 2, RCall 3, Index 4, _ 5, List 6, OList 7 *)
  (fn "cut" [V 0],
   conj (fn "'=..'" [V 0; lst (V 1) (V 2)])
  (conj (fn "'=..'" [V 3; lst (V 1) (lst (V 4) (V 2))])
  (conj (fn "all" [V 4; fn "clause" [V 3; V 5]; V 6])
  (conj (fn "sort" [V 6; V 7])
        (fn "cut" [V 3; V 4; V 7; V 0])))));
  (* cut(Call, Index) :- (same body).  Call 0, Index 1, Pred 2, Args 3, RCall 4, _ 5, List 6, OList 7 *)
  (fn "cut" [V 0; V 1],
   conj (fn "'=..'" [V 0; lst (V 2) (V 3)])
  (conj (fn "'=..'" [V 4; lst (V 2) (lst (V 1) (V 3))])
  (conj (fn "all" [V 1; fn "clause" [V 4; V 5]; V 6])
  (conj (fn "sort" [V 6; V 7])
        (fn "cut" [V 4; V 1; V 7; V 0])))));
  (* cut(RCall, Index, [Index|Rest], Call) :- call(RCall). *)
  (fn "cut" [V 0; V 1; lst (V 1) (V 2); V 3],
   fn "call" [V 0]);
  (* cut(RCall, Index, [Value|Rest], Call) :- \+ (Value = Index, call(RCall)), cut(RCall, Index, Rest, Call). *)
  (fn "cut" [V 0; V 1; lst (V 2) (V 3); V 4],
   conj (fn "\+" [conj (fn "'='" [V 2; V 1]) (fn "call" [V 0])])
        (fn "cut" [V 0; V 1; V 3; V 4]))
].

(* ---- the model *)
Section Cut.
  Variable fr : Z -> text.            (* repr of floats, see C15/ModelPrelude *)
  Variable A : Type.

  Record crule : Type := { c_idx : term; c_matches : bool; c_answers : list A }.

  (* all(Index, clause(RCall,_), List): file order, one entry per matching clause *)
  Definition collect (rs : list crule) : list term := map c_idx (filter c_matches rs).

  (* sort(List, OList): the model generated from engine_builtin.py; set(List) in one iteration order *)
  Definition olist (rs : list crule) : list term := _builtin_sort_sorted fr (py_set_list (collect rs)).

  (* Value = Index, call(RCall): every clause whose head unifies and whose index is Value *)
  Definition answers_at (rs : list crule) (v : term) : list A :=
    flat_map c_answers (filter (fun r => c_matches r && term_eqb (c_idx r) v) rs).

  (* cut/4 over OList: first branch yields the answers at the head of the list; the second
     branch continues only when there is none *)
  Fixpoint walk (rs : list crule) (ol : list term) : option (term * list A) :=
    match ol with
    | [] => None
    | v :: rest => match answers_at rs v with
                   | [] => walk rs rest
                   | ans => Some (v, ans)
                   end
    end.

  (* cut/1 succeeds with [snd]; cut/2 additionally binds Index to [fst] *)
  Definition cut_m (rs : list crule) : option (term * list A) := walk rs (olist rs).
End Cut.
Arguments c_idx {A}. Arguments c_matches {A}. Arguments c_answers {A}.
Arguments Build_crule {A}.
