(* C11 — structural facts about the builder's operations needed for completeness:
   which nodes a call appends, which children they have, which key it returns. *)
From Coq Require Import ZArith List Bool Lia.
From PL.C11 Require Import ModelBuilder ProofsBasics ProofsBuilder ProofsInv ProofsStep.
Import ListNotations.
Open Scope Z_scope.

(* what a returned key can be: a constant, one of the arguments, or a (positive) node index *)
Definition kres (n : nat) (content : list key) (k : key) : Prop :=
  k = Some 0 \/ k = None \/ In k content \/ exists j, k = Some j /\ 0 < j <= Z.of_nat n.

Lemma kres_rvalid : forall n content k, kres n content k ->
  (forall c, In c content -> rvalid n c) -> rvalid n k.
Proof.
  intros n content k [->|[->|[H|[j [-> H]]]]] Hc; simpl; try lia; auto.
Qed.

Lemma add_node_shape : forall s n reuse s' j, add_node s n reuse = (s', j) ->
  sh s' = sh s \/ sh s' = sh s ++ [strip n].
Proof.
  intros s n reuse s' j H. unfold add_node in H. destruct reuse.
  - destruct n as [id pc nm|cs nm|cs nm].
    + destruct (lookup Z.eq_dec id (idx_atom s)); injection H as <- <-; [left; reflexivity | right; apply sh_snoc].
    + destruct (lookup keys_eq_dec cs (idx_conj s)); injection H as <- <-; [left; reflexivity | right; apply sh_snoc].
    + destruct (lookup keys_eq_dec cs (idx_disj s)); injection H as <- <-; [left; reflexivity | right; apply sh_snoc].
  - injection H as <- <-. right. apply sh_snoc.
Qed.

Lemma create_shape : forall pcl o s im kd cs ro nm clash s' k,
  idx_ok pcl s im -> im_ok s im ->
  create o s kd cs ro nm clash = (s', k) ->
  (sh s' = sh s \/ sh s' = sh s ++ [mk_node kd cs None]) /\
  exists j, k = Some j /\ 0 < j <= Z.of_nat (length (sh s')).
Proof.
  intros pcl o s im kd cs ro nm clash s' k Hidx Him H.
  destruct (create_spec pcl o s im kd cs ro nm clash s' k Hidx Him H) as [j [-> [Pj [Nj _]]]].
  split.
  - unfold create in H.
    match type of H with (let (_, _) := add_node s ?n ?r in _) = _ => destruct (add_node s n r) as [s1 i] eqn:A end.
    injection H as <- _. apply add_node_shape in A. rewrite strip_mk_node in A. exact A.
  - exists j. split; [reflexivity|]. split; [exact Pj|]. apply (ix_in_range _ _ _ Pj Nj).
Qed.

Lemma add_compound_shape : forall pcl o s im kd content ro nm ph cp s' k,
  idx_ok pcl s im -> im_ok s im ->
  add_compound o s kd content ro nm ph cp = Some (s', k) ->
  (sh s' = sh s \/ exists cs', sh s' = sh s ++ [mk_node kd cs' None] /\ incl cs' content) /\
  kres (length (sh s')) content k.
Proof.
  intros pcl o s im kd content ro nm ph cp s' k Hidx Him H.
  unfold add_compound in H.
  destruct (negb ph && match content with [] => true | _ => false end); [discriminate|].
  fold (kt kd) in H. fold (kf kd) in H.
  assert (Create : forall cs clash s1 k1, incl cs content ->
            create o s kd cs ro nm clash = (s1, k1) ->
            (sh s1 = sh s \/ exists cs', sh s1 = sh s ++ [mk_node kd cs' None] /\ incl cs' content) /\
            kres (length (sh s1)) content k1).
  { intros cs clash s1 k1 Hi Hc.
    destruct (create_shape pcl o s im kd cs ro nm clash s1 k1 Hidx Him Hc) as [[E|E] [j [-> Hj]]].
    - split; [left; exact E|]. right. right. right. exists j. auto.
    - split; [right; exists cs; auto|]. right. right. right. exists j. auto. }
  assert (Kt : kres (length (sh s)) content (kt kd)) by (destruct kd; [right; left|left]; reflexivity).
  assert (Kf : kres (length (sh s)) content (kf kd)) by (destruct kd; [left|right; left]; reflexivity).
  destruct (match cp with Some b => b | None => auto_compact o end).
  2:{ injection H as H. destruct (create o s kd content ro nm false) as [s1 k1] eqn:C. injection H as <- <-.
      eapply Create; eauto. apply incl_refl. }
  destruct (memk (kt kd) content).
  { injection H as <- <-. split; [left; reflexivity | exact Kt]. }
  set (c1 := filter (fun x => negb (key_eqb x (kf kd))) content) in *.
  set (c2 := if keep_duplicates o then c1 else dedup c1) in *.
  assert (Hi2 : incl c2 content).
  { intros x Hx. unfold c2 in Hx. assert (In x c1) as K.
    { destruct (keep_duplicates o); [exact Hx | rewrite dedup_In in Hx; exact Hx]. }
    unfold c1 in K. apply filter_In in K. tauto. }
  destruct (match c2 with [] => true | _ => false end && negb ph).
  { injection H as <- <-. split; [left; reflexivity | exact Kf]. }
  destruct (opposites c2).
  { injection H as <- <-. split; [left; reflexivity | exact Kt]. }
  assert (Collapse : forall c s1, In c c2 -> sh s1 = sh s ->
            (sh s1 = sh s \/ exists cs', sh s1 = sh s ++ [mk_node kd cs' None] /\ incl cs' content) /\
            kres (length (sh s1)) content c).
  { intros c s1 Hc E. split; [left; exact E|]. right. right. left. apply Hi2. exact Hc. }
  destruct c2 as [|c [|c' rest]] eqn:Ec2.
  - destruct (create o s kd [] ro nm false) as [s1 k1] eqn:C. injection H as <- <-. eapply Create; eauto.
  - destruct ro eqn:Ero.
    2:{ destruct (create o s kd [c] false nm false) as [s1 k1] eqn:C. injection H as <- <-. eapply Create; eauto. }
    destruct (avoid_name_clash o).
    + destruct c as [z|]; [|discriminate].
      destruct (get_node s (Z.abs z)) as [nd|]; [|discriminate].
      destruct (match nm with None => true | Some a => match node_name nd with None => true | Some b => a =? b end end).
      * destruct nm as [n|].
        -- destruct (add_name s n (Some z) false) as [s1|] eqn:AN; [|discriminate]. injection H as <- <-.
           apply add_name_spec in AN. destruct AN as [E T]. apply Collapse; [left; reflexivity | exact E].
        -- injection H as <- <-. apply Collapse; [left; reflexivity | reflexivity].
      * match type of H with Some ?t = _ => destruct t as [s1 k1] eqn:C end. injection H as <- <-. eapply Create; eauto.
    + destruct nm as [n|].
      * destruct c as [z|]; [|discriminate].
        destruct (get_node s (Z.abs z)) as [nd|]; [|discriminate].
        destruct (node_name nd).
        -- injection H as <- <-. apply Collapse; [left; reflexivity | reflexivity].
        -- destruct (add_name s n (Some z) false) as [s1|] eqn:AN; [|discriminate]. injection H as <- <-.
           apply add_name_spec in AN. destruct AN as [E T]. apply Collapse; [left; reflexivity | exact E].
      * injection H as <- <-. apply Collapse; [left; reflexivity | reflexivity].
  - destruct (create o s kd (c :: c' :: rest) ro nm false) as [s1 k1] eqn:C. injection H as <- <-. eapply Create; eauto.
Qed.

Definition is_atom (g : list node) (j : Z) : Prop :=
  exists id pc, nth_error g (ix j) = Some (NAtom id pc None).

Lemma add_atom_shape : forall pcl o s im id nm s' k,
  idx_ok pcl s im -> im_ok s im ->
  add_atom o (pcl id) s id nm = Some (s', k) ->
  (sh s' = sh s \/ sh s' = sh s ++ [NAtom id (pcl id) None]) /\
  (k = Some 0 \/ k = None \/ exists j, k = Some j /\ 0 < j /\ nth_error (sh s') (ix j) = Some (NAtom id (pcl id) None)).
Proof.
  intros pcl o s im id nm s' k Hidx Him H.
  assert (Tail : (let (s1, i) := add_node s (NAtom id (pcl id) nm) true in
                  match nm with
                  | Some n => match add_name s1 n (Some i) false with
                              | Some s2 => Some (s2, Some i) | None => None end
                  | None => Some (s1, Some i)
                  end) = Some (s', k) ->
            (sh s' = sh s \/ sh s' = sh s ++ [NAtom id (pcl id) None]) /\
            (k = Some 0 \/ k = None \/ exists j, k = Some j /\ 0 < j /\ nth_error (sh s') (ix j) = Some (NAtom id (pcl id) None))).
  { clear H. intro H.
    destruct (add_node s (NAtom id (pcl id) nm) true) as [s1 i] eqn:A.
    pose proof (add_node_shape _ _ _ _ _ A) as Sh. simpl strip in Sh.
    apply (add_node_spec pcl s im) in A; auto.
    2:{ intros id0 pc0 nm0 E. injection E as -> -> ->. reflexivity. }
    destruct A as [Pi [Ni _]]. simpl strip in Ni.
    destruct nm as [n|].
    - destruct (add_name s1 n (Some i) false) as [s2|] eqn:AN; [|discriminate]. injection H as <- <-.
      apply add_name_spec in AN. destruct AN as [E _]. rewrite E. split; [exact Sh|].
      right. right. exists i. auto.
    - injection H as <- <-. split; [exact Sh|]. right. right. exists i. auto. }
  unfold add_atom in H.
  destruct (pcl id) eqn:P; destruct (keep_all o) eqn:K; try (apply Tail; exact H).
  - injection H as <- <-. split; [left; reflexivity | left; reflexivity].
  - injection H as <- <-. split; [left; reflexivity | right; left; reflexivity].
Qed.

(* add_disjunct on a genuine mutable node j: possibly one new read-only node (the nested add_or of the
   max_arity splitting, children among those of j), then node j is overwritten by a disjunction *)
Lemma add_disjunct_shape : forall pcl o s im j cs ic s' upd,
  idx_ok pcl s im -> im_ok s im -> In j im -> nth_error (sh s) (ix j) = Some (NDisj cs None) ->
  add_disjunct o s (Some j) ic = Some (s', upd) ->
  sh s' = sh s \/
  exists x cs'', (x = [] \/ exists cs', x = [NDisj cs' None] /\ incl cs' cs) /\
     sh s' = list_set (sh s ++ x) (ix j) (NDisj cs'' None) /\
     forall c, In c cs'' -> In c cs \/ c = ic \/ kres (length (sh s ++ x)) cs c.
Proof.
  intros pcl o s im j cs ic s' upd Hidx Him Hj Hn H.
  pose proof (Him j Hj) as [Jpos Jle].
  unfold add_disjunct in H. assert (j =? 0 = false) as E0 by lia. rewrite E0 in H.
  destruct (sh_nth_inv _ _ _ Hn) as [nd [Hnd Hs]]. apply strip_disj_inv in Hs. destruct Hs as [nm ->].
  assert (G : get_node s j = Some (NDisj cs nm)).
  { unfold get_node. assert (j >? 0 = true) as -> by lia. exact Hnd. }
  rewrite G in H.
  destruct ic as [cz|]; [|injection H as <- <-; left; reflexivity].
  destruct (cz =? 0) eqn:Ecz.
  { match type of H with match ?t with _ => _ end = _ => destruct t as [s1|] eqn:U end; [|discriminate]. injection H as <- <-.
    right. exists [], [Some 0]. split; [left; reflexivity|]. rewrite app_nil_r. split; [apply (update_sh _ _ _ _ U)|].
    intros c [<-|[]]. right. right. left. reflexivity. }
  destruct (memk (Some cz) cs && negb (keep_duplicates o)).
  { injection H as <- <-. left. reflexivity. }
  destruct (Nat.ltb 0 (max_arity o) && Nat.eqb (max_arity o) (length cs)).
  - destruct (add_or o s cs true false None None) as [[s1 child]|] eqn:AO; [|discriminate].
    match type of H with match ?t with _ => _ end = _ => destruct t as [s2|] eqn:U end; [|discriminate]. injection H as <- <-.
    unfold add_or in AO. simpl in AO.
    destruct (add_compound_shape pcl o s im KDisj cs true None false None s1 child Hidx Him AO) as [Sh Kr].
    pose proof (update_sh _ _ _ _ U) as E2. simpl strip in E2.
    right. destruct Sh as [E|[cs' [E Hi]]].
    + exists [], [child; Some cz]. split; [left; reflexivity|]. rewrite app_nil_r. rewrite E in E2. split; [exact E2|].
      intros c [<-|[<-|[]]]; [|right; left; reflexivity]. right. right. rewrite E in Kr. exact Kr.
    + exists [NDisj cs' None], [child; Some cz]. split; [right; exists cs'; auto|]. rewrite E in E2. split; [exact E2|].
      intros c [<-|[<-|[]]]; [|right; left; reflexivity]. right. right. rewrite E in Kr. exact Kr.
  - match type of H with match ?t with _ => _ end = _ => destruct t as [s1|] eqn:U end; [|discriminate]. injection H as <- <-.
    right. exists [], (cs ++ [Some cz]). split; [left; reflexivity|]. rewrite app_nil_r. split; [apply (update_sh _ _ _ _ U)|].
    intros c Hc. apply in_app_or in Hc. destruct Hc as [Hc|[<-|[]]]; [left; exact Hc | right; left; reflexivity].
Qed.
