(* C11 — refutation witness for the code AS IT IS at the pinned commit; outside the cone of Props.v.
   LogicFormula.add_disjunct documents `:return: key` but its updating branches
   `return self._update(...)`, i.e. None = the FALSE key (class add-disjunct-returns-none). *)
From Coq Require Import ZArith List Bool.
From PL.C11 Require Import ModelBuilder.
Import ListNotations.
Open Scope Z_scope.

Theorem C11_add_disjunct_returns_key_refuted :
  exists o pcl r r' code doc,
    run o pcl init [OAtom 0 None; OOr [Some 1] false false None None] = Ok r /\
    step o pcl r (ODisjunct (Some 2) (Some 0)) = Ok (r', RDisjunct code doc) /\
    doc = Some 2 /\ code = None.
Proof.
  exists (mkOpts true false false false false 0), (fun _ => PProb).
  eexists. eexists. eexists. eexists. vm_compute. repeat split.
Qed.
