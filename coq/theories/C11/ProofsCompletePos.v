(* C11 — a reference graph without negative keys gives a builder's graph without negative keys (Inv4):
   the builder only negates through `negate` applied to an argument key. *)
From Coq Require Import ZArith List Bool Lia.
From PL.C11 Require Import ModelBuilder ProofsBasics ProofsBuilder ProofsInv ProofsStep ProofsSem
                           ProofsCompleteShape ProofsCompleteInv ProofsComplete ProofsCompleteLfp.
Import ListNotations.
Open Scope Z_scope.

Definition knn (k : key) : Prop := match k with Some z => 0 <= z | None => True end.

Lemma posonly_knn : forall g, posonly g <-> forall n nd, nth_error g n = Some nd -> forall c, In c (children nd) -> knn c.
Proof. intro g. unfold posonly, knn. tauto. Qed.

Definition G4 (r : rstate) : Prop := forall n k, nth_error (rmap r) n = Some k -> knn k.
Definition Inv4 (r : rstate) : Prop := posonly (rg r) -> G4 r /\ posonly (sh (impl r)).

Lemma Inv4_init : Inv4 init.
Proof. intros _. split; [intros [|n] k H; discriminate | intros [|n] nd H; discriminate]. Qed.

Lemma rkey_knn : forall r c ic, G4 r -> knn c -> rkey (rmap r) c = Some ic -> knn ic.
Proof.
  intros r [z|] ic HG Hc H; simpl in *; [|injection H as <-; exact I].
  destruct (z =? 0) eqn:E0; [injection H as <-; simpl; lia|]. apply Z.eqb_neq in E0.
  destruct (nth_error (rmap r) (Z.to_nat (Z.abs z - 1))) as [ik|] eqn:N; [|discriminate].
  injection H as <-. assert (z >? 0 = true) as -> by (apply Z.gtb_lt; lia). apply (HG _ _ N).
Qed.

Lemma rkeys_knn : forall r cs ics, G4 r -> (forall c, In c cs -> knn c) ->
  rkeys (rmap r) cs = Some ics -> forall c, In c ics -> knn c.
Proof.
  intros r cs. induction cs as [|c t IH]; intros ics HG Hc H c0 Hc0; simpl in H.
  - injection H as <-. destruct Hc0.
  - destruct (rkey (rmap r) c) as [ic|] eqn:K; [|discriminate].
    destruct (rkeys (rmap r) t) as [its|] eqn:T; [|discriminate]. injection H as <-.
    destruct Hc0 as [<-|Hc0].
    + apply (rkey_knn r c _ HG); [apply Hc; left; reflexivity | exact K].
    + apply (IH its HG); auto. intros c1 Hc1. apply Hc. right. exact Hc1.
Qed.

Lemma posonly_app_inv : forall g nd, posonly (g ++ [nd]) -> posonly g /\ forall c, In c (children nd) -> knn c.
Proof.
  intros g nd H. split.
  - intros n nd0 Hn. apply (H n nd0). rewrite nth_error_app1; [exact Hn | eapply nth_error_lt; eauto].
  - apply (H (length g) nd). apply nth_snoc.
Qed.

Lemma posonly_set_inv : forall g z rcs c, nth_error g (ix z) = Some (NDisj rcs None) ->
  posonly (list_set g (ix z) (NDisj (rcs ++ [c]) None)) -> posonly g /\ knn c.
Proof.
  intros g z rcs c Hz H.
  assert (Lz : (ix z < length g)%nat) by (eapply nth_error_lt; eauto).
  pose proof (H (ix z) _ (nth_error_list_set_eq _ g (ix z) (NDisj (rcs ++ [c]) None) Lz)) as K. simpl in K.
  split.
  - intros n nd0 Hn c0 Hc0. destruct (Nat.eq_dec n (ix z)) as [->|Ne].
    + rewrite Hz in Hn. injection Hn as <-. apply K. apply in_or_app. left. exact Hc0.
    + apply (H n nd0); [|exact Hc0]. rewrite nth_error_list_set_neq by congruence. exact Hn.
  - apply K. apply in_or_app. right. left. reflexivity.
Qed.

Lemma kres_knn : forall n content k, kres n content k -> (forall c, In c content -> knn c) -> knn k.
Proof. intros n content k [->|[->|[H|[j [-> H]]]]] Hc; simpl; auto; lia. Qed.

(* one more reference node *)
Lemma Inv4_grow : forall pcl r s' x nd k rmut' im',
  Inv pcl r -> G4 r -> posonly (sh (impl r)) -> sh s' = sh (impl r) ++ x ->
  (forall ndm, In ndm x -> forall c, In c (children ndm) -> knn c) -> knn k ->
  let r' := mkR s' (rg r ++ [nd]) rmut' (rmap r ++ [k]) im' in G4 r' /\ posonly (sh (impl r')).
Proof.
  intros pcl r s' x nd k rmut' im' HI HG HH Hsh Hx Hk. simpl. split.
  - intros n k0 Hn. simpl in Hn. apply nth_app_last in Hn. destruct Hn as [[_ Hn]|[_ ->]]; [apply (HG n k0 Hn) | exact Hk].
  - intros n nd0 Hn c Hc. rewrite Hsh in Hn.
    destruct (Nat.lt_ge_cases n (length (sh (impl r)))) as [L|L].
    + rewrite nth_error_app1 in Hn by exact L. apply (HH n nd0 Hn c Hc).
    + rewrite nth_error_app2 in Hn by exact L. apply (Hx nd0); [eapply nth_error_In; eauto | exact Hc].
Qed.

Theorem step_inv4 : forall o pcl r x r' rv,
  Inv pcl r -> Inv4 r -> step o pcl r x = Ok (r', rv) -> Inv4 r'.
Proof.
  intros o pcl r x r' rv HI H4 H Hpos'.
  pose proof (inv_idx _ _ HI) as Hidx. pose proof (inv_imut _ _ HI) as Him.
  destruct x as [id nm | cs nm cp | cs ro ph nm cp | k c | nm k keep]; simpl in H.
  - destruct (add_atom o (pcl id) (impl r) id nm) as [[s' k]|] eqn:A; [|discriminate].
    injection H as <- <-. simpl in Hpos'.
    destruct (posonly_app_inv _ _ Hpos') as [Hpos _]. destruct (H4 Hpos) as [HG HH].
    destruct (add_atom_shape pcl o (impl r) (imut r) id nm s' k Hidx Him A) as [Sh Kr].
    assert (exists x, sh s' = sh (impl r) ++ x /\ (x = [] \/ x = [NAtom id (pcl id) None])) as [x [Ex Hx]].
    { destruct Sh as [E|E]; [exists []; rewrite app_nil_r; auto | eexists; eauto]. }
    apply (Inv4_grow pcl r s' x _ k _ _ HI HG HH Ex).
    + intros ndm Hin. destruct Hx as [->| ->]; [destruct Hin|]. destruct Hin as [<-|[]]. intros c [].
    + destruct Kr as [->|[->|[j [-> [Pj _]]]]]; simpl; auto; lia.
  - destruct (rkeys (rmap r) cs) as [ics|] eqn:K; [|discriminate].
    destruct (add_and o (impl r) ics nm cp) as [[s' k]|] eqn:A; [|discriminate].
    injection H as <- <-. simpl in Hpos'.
    destruct (posonly_app_inv _ _ Hpos') as [Hpos Hnew]. destruct (H4 Hpos) as [HG HH].
    unfold add_and in A. pose proof (rkeys_knn r cs ics HG Hnew K) as Ki.
    destruct (add_compound_shape pcl o (impl r) (imut r) KConj ics true nm false cp s' k Hidx Him A) as [Sh Kr].
    assert (exists x, sh s' = sh (impl r) ++ x /\ (x = [] \/ exists cs', x = [NConj cs' None] /\ incl cs' ics)) as [x [Ex Hx]].
    { destruct Sh as [E0|[cs' [E0 Hi]]]; [exists []; rewrite app_nil_r; auto | eexists; split; [exact E0|right; eauto]]. }
    apply (Inv4_grow pcl r s' x _ k _ _ HI HG HH Ex).
    + intros ndm Hin. destruct Hx as [->|[cs' [-> Hi]]]; [destruct Hin|]. destruct Hin as [<-|[]].
      intros c Hc. apply Ki. apply Hi. exact Hc.
    + apply (kres_knn _ ics k Kr Ki).
  - destruct (rkeys (rmap r) cs) as [ics|] eqn:K; [|discriminate].
    destruct (add_or o (impl r) ics ro ph nm cp) as [[s' k]|] eqn:A; [|discriminate].
    injection H as <- <-. simpl in Hpos'.
    destruct (posonly_app_inv _ _ Hpos') as [Hpos Hnew]. destruct (H4 Hpos) as [HG HH].
    unfold add_or in A. pose proof (rkeys_knn r cs ics HG Hnew K) as Ki.
    destruct (add_compound_shape pcl o (impl r) (imut r) KDisj ics (ro && negb ph) nm ph cp s' k Hidx Him A) as [Sh Kr].
    assert (exists x, sh s' = sh (impl r) ++ x /\ (x = [] \/ exists cs', x = [NDisj cs' None] /\ incl cs' ics)) as [x [Ex Hx]].
    { destruct Sh as [E0|[cs' [E0 Hi]]]; [exists []; rewrite app_nil_r; auto | eexists; split; [exact E0|right; eauto]]. }
    apply (Inv4_grow pcl r s' x _ k _ _ HI HG HH Ex).
    + intros ndm Hin. destruct Hx as [->|[cs' [-> Hi]]]; [destruct Hin|]. destruct Hin as [<-|[]].
      intros c Hc. apply Ki. apply Hi. exact Hc.
    + apply (kres_knn _ ics k Kr Ki).
  - destruct k as [z|]; [|discriminate].
    destruct (z =? 0) eqn:Ez.
    { destruct (rkey (rmap r) c); [|discriminate]. injection H as <- <-. apply H4. exact Hpos'. }
    destruct (memz z (rmut r)) eqn:Em; [|discriminate].
    apply memz_In in Em.
    destruct (rkey (rmap r) (Some z)) as [ik|] eqn:Kz; [|discriminate].
    destruct (rkey (rmap r) c) as [ic|] eqn:Kc; [|discriminate].
    destruct (add_disjunct o (impl r) ik ic) as [[s' upd]|] eqn:A; [|discriminate].
    injection H as <- <-. cbn [rg] in Hpos'.
    pose proof (inv_rmut _ _ HI z Em) as [Pz Lz].
    apply rkey_pos in Kz; auto.
    change (Z.to_nat (z - 1)) with (ix z) in Hpos'. change (Z.to_nat (z - 1)) with (ix z).
    destruct (inv_mut _ _ HI z Em) as [[[Ka|Ka] [B [rcs C]]]|[j [cs0 [rcs [Ka [Bj [Cj [D [E F]]]]]]]]];
      rewrite Ka in Kz; injection Kz as <-.
    + simpl in A. injection A as <- <-. rewrite C in Hpos'.
      destruct (posonly_set_inv _ z rcs c C Hpos') as [Hpos _]. rewrite C. exact (H4 Hpos).
    + simpl in A. discriminate.
    + rewrite D in Hpos'. destruct (posonly_set_inv _ z rcs c D Hpos') as [Hpos Hc].
      destruct (H4 Hpos) as [HG HH]. rewrite D.
      pose proof (rkey_knn r c ic HG Hc Kc) as Kic.
      assert (Hcs0 : forall c0, In c0 cs0 -> knn c0) by (apply (HH (ix j) _ Cj)).
      destruct (add_disjunct_shape pcl o (impl r) (imut r) j cs0 ic s' upd Hidx Him Bj Cj A)
        as [Esame|[x [cs'' [Hx [Es' Hcs'']]]]].
      * split; [exact HG|]. simpl. rewrite Esame. exact HH.
      * split; [exact HG|]. simpl. intros n nd0 Hn c0 Hc0. rewrite Es' in Hn.
        pose proof (inv_imut _ _ HI j Bj) as [Pj Lj].
        destruct (Nat.eq_dec n (ix j)) as [->|Ne].
        -- rewrite nth_error_list_set_eq in Hn by (rewrite app_length; pose proof (ix_lt_of_range j _ (conj Pj Lj)); lia).
           injection Hn as <-. destruct (Hcs'' c0 Hc0) as [K|[->|K]]; [apply Hcs0; exact K | exact Kic|].
           apply (kres_knn _ cs0 c0 K Hcs0).
        -- rewrite nth_error_list_set_neq in Hn by congruence.
           destruct (Nat.lt_ge_cases n (length (sh (impl r)))) as [L|L].
           ++ rewrite nth_error_app1 in Hn by exact L. apply (HH n nd0 Hn c0 Hc0).
           ++ rewrite nth_error_app2 in Hn by exact L.
              assert (In nd0 x) as Hin by (eapply nth_error_In; eauto).
              destruct Hx as [->|[cs' [-> Hi]]]; [destruct Hin|]. destruct Hin as [<-|[]].
              apply Hcs0. apply Hi. exact Hc0.
  - destruct (rkey (rmap r) k) as [ik|]; [|discriminate].
    destruct (add_name (impl r) nm ik keep) as [s'|] eqn:A; [|discriminate].
    injection H as <- <-. simpl in Hpos'.
    apply add_name_spec in A. destruct A as [E T]. destruct (H4 Hpos') as [HG HH].
    split; [exact HG|]. simpl. rewrite E. exact HH.
Qed.

Lemma run_inv4 : forall o pcl ops r r', Inv pcl r -> Inv4 r -> run o pcl r ops = Ok r' -> Inv4 r'.
Proof.
  intros o pcl ops. induction ops as [|x t IH]; intros r r' HI H4 H; simpl in H.
  - injection H as <-. exact H4.
  - destruct (step o pcl r x) as [[r1 rv]| |] eqn:S; try discriminate.
    destruct (step_inv o pcl r x r1 rv HI S) as [I1 _].
    apply (IH r1 r' I1 (step_inv4 o pcl r x r1 rv HI H4 S) H).
Qed.

Theorem posonly_inherited : forall o pcl ops r, run o pcl init ops = Ok r -> posonly (rg r) -> posonly (nodes (impl r)).
Proof.
  intros o pcl ops r H Hpos.
  destruct (run_inv4 o pcl ops init r (Inv_init pcl) Inv4_init H Hpos) as [_ HH].
  intros n nd Hn c Hc. apply (HH n (strip nd)); [apply sh_nth; exact Hn|]. destruct nd; exact Hc.
Qed.
