(* C11 — the simulation invariant between the model builder and the
   unoptimised reference graph, preserved by every call, for every option vector. *)
From Coq Require Import ZArith List Bool Lia.
From PL.C11 Require Import ModelBuilder ProofsBasics ProofsBuilder.
Import ListNotations.
Open Scope Z_scope.

Definition children (n : node) : list key :=
  match n with NAtom _ _ _ => [] | NConj cs _ => cs | NDisj cs _ => cs end.

(* a reference key that refers to one of the first n reference nodes *)
Definition rvalid (n : nat) (k : key) : Prop :=
  match k with None => True | Some z => Z.abs z <= Z.of_nat n end.

Lemma rvalid_mono : forall n m k, rvalid n k -> (n <= m)%nat -> rvalid m k.
Proof. intros n m [z|] H L; simpl in *; [lia | exact I]. Qed.

Lemma rkey_valid : forall rm k ik, rkey rm k = Some ik -> rvalid (length rm) k.
Proof.
  intros rm [z|] ik H; simpl in *; [|exact I].
  destruct (z =? 0) eqn:E; [lia|].
  destruct (nth_error rm (Z.to_nat (Z.abs z - 1))) eqn:N; [|discriminate].
  apply nth_error_lt in N. lia.
Qed.

Lemma vkey_pull : forall rm v c ic, rkey rm c = Some ic -> vkey v ic = vkey (pull rm v) c.
Proof.
  intros rm v [z|] ic H; simpl in *.
  - destruct (z =? 0) eqn:E0; [injection H as <-; reflexivity|].
    destruct (nth_error rm (Z.to_nat (Z.abs z - 1))) as [ik|] eqn:N; [|discriminate].
    injection H as <-. unfold pull.
    destruct (z >? 0) eqn:E1.
    + replace (Z.to_nat (z - 1)) with (Z.to_nat (Z.abs z - 1)) by lia. rewrite N. reflexivity.
    + replace (Z.to_nat (- z - 1)) with (Z.to_nat (Z.abs z - 1)) by lia. rewrite N. apply vkey_negate.
  - injection H as <-. reflexivity.
Qed.

Lemma pull_app : forall rm x v c, rvalid (length rm) c -> vkey (pull (rm ++ x) v) c = vkey (pull rm v) c.
Proof.
  intros rm x v [z|] H; simpl in *; [|reflexivity].
  destruct (z =? 0) eqn:E0; [reflexivity|]. apply Z.eqb_neq in E0. unfold pull.
  destruct (z >? 0) eqn:E1.
  - rewrite nth_error_app1 by lia. reflexivity.
  - rewrite nth_error_app1 by lia. reflexivity.
Qed.

Lemma ev_ext_in : forall kd v w l, (forall c, In c l -> vkey v c = vkey w c) -> ev kd v l = ev kd w l.
Proof.
  intros kd v w l H. induction l as [|c t IH]; [destruct kd; reflexivity|].
  assert (vkey v c = vkey w c) as E by (apply H; left; reflexivity).
  assert (ev kd v t = ev kd w t) as E' by (apply IH; intros; apply H; right; assumption).
  destruct kd; simpl in *; rewrite E, E'; reflexivity.
Qed.

Lemma eval_ext_in : forall a v w nd, (forall c, In c (children nd) -> vkey v c = vkey w c) -> eval_node a v nd = eval_node a w nd.
Proof.
  intros a v w [id pc nm|cs nm|cs nm] H; simpl in *; [reflexivity | apply (ev_ext_in KConj) | apply (ev_ext_in KDisj)]; exact H.
Qed.

Lemma eval_pull_app : forall a rm x v nd, (forall c, In c (children nd) -> rvalid (length rm) c) ->
  eval_node a (pull (rm ++ x) v) nd = eval_node a (pull rm v) nd.
Proof. intros. apply eval_ext_in. intros c Hc. apply pull_app. auto. Qed.

Lemma rkeys_spec : forall rm cs ics, rkeys rm cs = Some ics ->
  (forall c, In c cs -> rvalid (length rm) c) /\ (forall kd v, ev kd v ics = ev kd (pull rm v) cs).
Proof.
  intros rm cs. induction cs as [|c t IH]; intros ics H; simpl in H.
  - injection H as <-. split; [intros c []|]. intros [] v; reflexivity.
  - destruct (rkey rm c) as [ic|] eqn:K; [|discriminate].
    destruct (rkeys rm t) as [its|] eqn:T; [|discriminate]. injection H as <-.
    destruct (IH its eq_refl) as [V E]. split.
    + intros c' [<-|Hc]; [eapply rkey_valid; eauto | auto].
    + intros kd v. specialize (E kd v). pose proof (vkey_pull rm v c ic K) as P.
      destruct kd; simpl in *; rewrite P, E; reflexivity.
Qed.

(* ------------------------------------------------------------ the invariant *)
(* reference node i is represented by a key whose value is determined by the
   equations of the read-only model nodes *)
Definition Pro (r : rstate) (i : Z) : Prop :=
  forall nd ik, nth_error (rg r) (ix i) = Some nd -> nth_error (rmap r) (ix i) = Some ik ->
  forall a v, rsol a (sh (impl r)) (imut r) v -> vkey v ik = eval_node a (pull (rmap r) v) nd.

(* mutable reference node i owns the mutable model node j and their equations agree *)
Definition Qmut (r : rstate) (i : Z) : Prop :=
  exists j cs rcs,
    nth_error (rmap r) (ix i) = Some (Some j) /\ In j (imut r) /\
    nth_error (sh (impl r)) (ix j) = Some (NDisj cs None) /\
    nth_error (rg r) (ix i) = Some (NDisj rcs None) /\
    (forall a v, rsol a (sh (impl r)) (imut r) v -> existsb (vkey v) cs = existsb (vkey (pull (rmap r) v)) rcs) /\
    (forall i', In i' (rmut r) -> nth_error (rmap r) (ix i') = Some (Some j) -> i' = i).

Definition Degenerate (r : rstate) (i : Z) : Prop :=
  (nth_error (rmap r) (ix i) = Some (Some 0) \/ nth_error (rmap r) (ix i) = Some None) /\ Pro r i /\
  exists rcs, nth_error (rg r) (ix i) = Some (NDisj rcs None).

Record Inv (pcl : Z -> pclass) (r : rstate) : Prop := {
  inv_len : length (rmap r) = length (rg r);
  inv_rchild : forall i nd, nth_error (rg r) i = Some nd -> forall c, In c (children nd) -> rvalid (length (rg r)) c;
  inv_imut : im_ok (impl r) (imut r);
  inv_idx : idx_ok pcl (impl r) (imut r);
  inv_rmut : forall i, In i (rmut r) -> 0 < i <= Z.of_nat (length (rg r));
  inv_ro : forall i, 0 < i -> ~ In i (rmut r) -> Pro r i;
  inv_mut : forall i, In i (rmut r) -> Degenerate r i \/ Qmut r i
}.

Lemma Inv_init : forall pcl, Inv pcl init.
Proof.
  intro pcl. constructor; simpl.
  - reflexivity.
  - intros [|i] nd H; discriminate.
  - intros j [].
  - split; [|split]; intros k j H; discriminate.
  - intros i [].
  - intros i _ _ nd ik H. destruct (ix i); discriminate.
  - intros i [].
Qed.

Lemma nth_app_in : forall (A : Type) (l x : list A) i, 0 < i <= Z.of_nat (length l) -> nth_error (l ++ x) (ix i) = nth_error l (ix i).
Proof. intros A l x i H. apply nth_error_app1. unfold ix. lia. Qed.

Lemma ix_range_of_some : forall (A : Type) (l : list A) i y, 0 < i -> nth_error l (ix i) = Some y -> 0 < i <= Z.of_nat (length l).
Proof. intros A l i y Hi H. apply nth_error_lt in H. unfold ix in H. lia. Qed.

Lemma ix_succ_len : forall n : nat, ix (Z.of_nat n + 1) = n.
Proof. intros. unfold ix. lia. Qed.

(* ------------------------------------------------------------ growth: one more reference node *)
Section Grow.
  Variable pcl : Z -> pclass.
  Variable r : rstate.
  Variable s' : state.
  Variable nd : node.
  Variable k : key.
  Variable rmut' im' : list Z.
  Hypothesis HI : Inv pcl r.
  Hypothesis Hg : grows (impl r) s'.
  Hypothesis Hnd : forall c, In c (children nd) -> rvalid (length (rg r)) c.
  Hypothesis Hrs : forall a v, rsol a (sh s') im' v -> rsol a (sh (impl r)) (imut r) v.
  Hypothesis Him_incl : forall j, In j (imut r) -> In j im'.

  Let r' := mkR s' (rg r ++ [nd]) rmut' (rmap r ++ [k]) im'.

  Lemma Pro_grow : forall i, 0 < i <= Z.of_nat (length (rg r)) -> Pro r i -> Pro r' i.
  Proof.
    intros i Hi P nd0 ik0 Hn Hm a v Hr. simpl in *.
    rewrite nth_app_in in Hn by exact Hi.
    rewrite nth_app_in in Hm by (rewrite (inv_len _ _ HI); exact Hi).
    rewrite (P nd0 ik0 Hn Hm a v (Hrs a v Hr)).
    symmetry. apply eval_pull_app. rewrite (inv_len _ _ HI). eapply (inv_rchild _ _ HI); eauto.
  Qed.

  Lemma Pro_new : (forall a v, rsol a (sh s') im' v -> vkey v k = eval_node a (pull (rmap r) v) nd) ->
    Pro r' (ref_next r).
  Proof.
    intros H nd0 ik0 Hn Hm a v Hr. simpl in *. unfold ref_next in *.
    rewrite ix_succ_len in Hn. rewrite nth_snoc in Hn. injection Hn as <-.
    rewrite <- (inv_len _ _ HI), ix_succ_len, nth_snoc in Hm. injection Hm as <-.
    rewrite (H a v Hr). symmetry. apply eval_pull_app. rewrite (inv_len _ _ HI). exact Hnd.
  Qed.

  Lemma Qmut_grow : forall i, In i (rmut r) ->
    (forall i', In i' rmut' -> In i' (rmut r) \/ (i' = ref_next r /\ forall j, In j (imut r) -> k <> Some j)) ->
    Qmut r i -> Qmut r' i.
  Proof.
    intros i Hi Hmut' [j [cs [rcs [A [B [C [D [E F]]]]]]]].
    pose proof (inv_rmut _ _ HI i Hi) as Ri.
    exists j, cs, rcs. simpl. repeat split.
    - rewrite nth_app_in by (rewrite (inv_len _ _ HI); exact Ri). exact A.
    - apply Him_incl. exact B.
    - destruct Hg as [x ->]. rewrite nth_error_app1; [exact C | eapply nth_error_lt; eauto].
    - rewrite nth_app_in by exact Ri. exact D.
    - intros a v Hr. rewrite (E a v (Hrs a v Hr)).
      change (ev KDisj (pull (rmap r) v) rcs = ev KDisj (pull (rmap r ++ [k]) v) rcs).
      symmetry. apply ev_ext_in. intros c Hc. apply pull_app. rewrite (inv_len _ _ HI).
      apply (inv_rchild _ _ HI (ix i) (NDisj rcs None) D c Hc).
    - intros i' Hi' Hm'. destruct (Hmut' i' Hi') as [Hold | [-> Hk]].
      + apply F; [exact Hold|]. pose proof (inv_rmut _ _ HI i' Hold) as Ri'.
        rewrite nth_app_in in Hm' by (rewrite (inv_len _ _ HI); exact Ri'). exact Hm'.
      + exfalso. unfold ref_next in Hm'. rewrite <- (inv_len _ _ HI), ix_succ_len, nth_snoc in Hm'.
        injection Hm' as Hm'. apply (Hk j B). exact Hm'.
  Qed.

  Lemma Degenerate_grow : forall i, In i (rmut r) -> Degenerate r i -> Degenerate r' i.
  Proof.
    intros i Hi [A [B [rcs C]]]. pose proof (inv_rmut _ _ HI i Hi) as Ri.
    split; [|split].
    - simpl. rewrite nth_app_in by (rewrite (inv_len _ _ HI); exact Ri). exact A.
    - apply Pro_grow; assumption.
    - exists rcs. simpl. rewrite nth_app_in by exact Ri. exact C.
  Qed.

  Lemma rchild_grow : forall i nd0, nth_error (rg r ++ [nd]) i = Some nd0 ->
    forall c, In c (children nd0) -> rvalid (length (rg r ++ [nd])) c.
  Proof.
    intros i nd0 H c Hc. rewrite app_length. simpl.
    destruct (Nat.lt_ge_cases i (length (rg r))) as [L|L].
    - rewrite nth_error_app1 in H by exact L. eapply rvalid_mono; [eapply (inv_rchild _ _ HI); eauto | lia].
    - rewrite nth_error_app2 in H by exact L. destruct (i - length (rg r))%nat as [|n]; simpl in H.
      + injection H as <-. eapply rvalid_mono; [apply Hnd; exact Hc | lia].
      + destruct n; discriminate.
  Qed.
End Grow.

(* a read-only creating call (add_atom, add_and, readonly add_or) *)
Lemma grow_ro : forall pcl r s' nd k,
  Inv pcl r -> grows (impl r) s' -> idx_ok pcl s' (imut r) ->
  (forall c, In c (children nd) -> rvalid (length (rg r)) c) ->
  (forall a v, rsol a (sh s') (imut r) v -> vkey v k = eval_node a (pull (rmap r) v) nd) ->
  Inv pcl (mkR s' (rg r ++ [nd]) (rmut r) (rmap r ++ [k]) (imut r)).
Proof.
  intros pcl r s' nd k HI Hg Hidx Hnd Hk.
  assert (Hrs : forall a v, rsol a (sh s') (imut r) v -> rsol a (sh (impl r)) (imut r) v).
  { intros a v H. destruct Hg as [x E]. rewrite E in H. eapply rsol_app; eauto. }
  constructor; simpl.
  - rewrite !app_length, (inv_len _ _ HI). reflexivity.
  - eapply rchild_grow; eauto.
  - eapply im_ok_grows; [apply (inv_imut _ _ HI) | exact Hg].
  - exact Hidx.
  - intros i Hi. pose proof (inv_rmut _ _ HI i Hi). rewrite app_length. simpl. lia.
  - intros i Hi Hni.
    destruct (Z_le_gt_dec i (Z.of_nat (length (rg r)))) as [L|L].
    + eapply Pro_grow; eauto. apply (inv_ro _ _ HI); assumption.
    + destruct (Z.eq_dec i (ref_next r)) as [->|Hne].
      * eapply Pro_new; eauto.
      * intros nd0 ik0 Hn. simpl in Hn. apply nth_error_lt in Hn. rewrite app_length in Hn. simpl in Hn.
        unfold ref_next in Hne. unfold ix in Hn. lia.
  - intros i Hi. destruct (inv_mut _ _ HI i Hi) as [D|Q].
    + left. eapply Degenerate_grow; eauto.
    + right. eapply Qmut_grow; eauto.
Qed.

(* a mutable add_or *)
Lemma grow_mut_common : forall pcl r s' cs k im',
  Inv pcl r -> grows (impl r) s' -> idx_ok pcl s' im' -> im_ok s' im' ->
  (forall c, In c cs -> rvalid (length (rg r)) c) ->
  (forall a v, rsol a (sh s') im' v -> rsol a (sh (impl r)) (imut r) v) ->
  (forall j, In j (imut r) -> In j im') ->
  (forall j, In j (imut r) -> k <> Some j) ->
  (let r' := mkR s' (rg r ++ [NDisj cs None]) (ref_next r :: rmut r) (rmap r ++ [k]) im' in
   Degenerate r' (ref_next r) \/ Qmut r' (ref_next r)) ->
  Inv pcl (mkR s' (rg r ++ [NDisj cs None]) (ref_next r :: rmut r) (rmap r ++ [k]) im').
Proof.
  intros pcl r s' cs k im' HI Hg Hidx Him Hnd Hrs Hincl Hknew Hnew.
  assert (Hnd' : forall c, In c (children (NDisj cs None)) -> rvalid (length (rg r)) c) by exact Hnd.
  assert (Hmut' : forall i', In i' (ref_next r :: rmut r) ->
            In i' (rmut r) \/ (i' = ref_next r /\ forall j, In j (imut r) -> k <> Some j)).
  { intros i' [<-|H]; [right; split; [reflexivity | exact Hknew] | left; exact H]. }
  constructor; simpl.
  - rewrite !app_length, (inv_len _ _ HI). reflexivity.
  - eapply rchild_grow; eauto.
  - exact Him.
  - exact Hidx.
  - intros i [<-|Hi]; [unfold ref_next; rewrite app_length; simpl; lia|].
    pose proof (inv_rmut _ _ HI i Hi). rewrite app_length. simpl. lia.
  - intros i Hi Hni.
    assert (Hni' : ~ In i (rmut r)) by (intro; apply Hni; right; assumption).
    assert (Hne : i <> ref_next r) by (intro; apply Hni; left; auto).
    destruct (Z_le_gt_dec i (Z.of_nat (length (rg r)))) as [L|L].
    + eapply (Pro_grow pcl r s' (NDisj cs None) k (ref_next r :: rmut r) im'); eauto. apply (inv_ro _ _ HI); assumption.
    + intros nd0 ik0 Hn. simpl in Hn. apply nth_error_lt in Hn. rewrite app_length in Hn. simpl in Hn.
      unfold ref_next in Hne. unfold ix in Hn. lia.
  - intros i [<-|Hi]; [exact Hnew|].
    destruct (inv_mut _ _ HI i Hi) as [D|Q].
    + left. eapply (Degenerate_grow pcl r s' (NDisj cs None) k (ref_next r :: rmut r) im'); eauto.
    + right. eapply (Qmut_grow pcl r s' (NDisj cs None) k (ref_next r :: rmut r) im'); eauto.
Qed.

Lemma grow_mut_degen : forall pcl r s' cs k,
  Inv pcl r -> (k = Some 0 \/ k = None) -> sh s' = sh (impl r) -> idx_ok pcl s' (imut r) ->
  (forall c, In c cs -> rvalid (length (rg r)) c) ->
  (forall v, vkey v k = existsb (vkey (pull (rmap r) v)) cs) ->
  Inv pcl (mkR s' (rg r ++ [NDisj cs None]) (ref_next r :: rmut r) (rmap r ++ [k]) (imut r)).
Proof.
  intros pcl r s' cs k HI Hk Esh Hidx Hnd Hv.
  assert (Hg : grows (impl r) s') by (apply grows_same; exact Esh).
  assert (Hrs : forall a v, rsol a (sh s') (imut r) v -> rsol a (sh (impl r)) (imut r) v).
  { intros a v H. rewrite Esh in H. exact H. }
  apply grow_mut_common; auto.
  - eapply im_ok_grows; [apply (inv_imut _ _ HI) | exact Hg].
  - intros j Hj E. pose proof (inv_imut _ _ HI j Hj). destruct Hk as [-> | ->]; [injection E as <-; lia | discriminate].
  - left. split; [|split].
    + simpl. unfold ref_next. rewrite <- (inv_len _ _ HI), ix_succ_len, nth_snoc.
      destruct Hk as [-> | ->]; auto.
    + eapply (Pro_new pcl r s' (NDisj cs None) k (ref_next r :: rmut r) (imut r)); eauto; intros a v _; simpl; apply Hv.
    + exists cs. simpl. unfold ref_next. rewrite ix_succ_len, nth_snoc. reflexivity.
Qed.

Lemma grow_mut_fresh : forall pcl r s' cs c2,
  Inv pcl r -> sh s' = sh (impl r) ++ [NDisj c2 None] -> same_tables (impl r) s' ->
  (forall c, In c cs -> rvalid (length (rg r)) c) ->
  (forall v, existsb (vkey v) c2 = existsb (vkey (pull (rmap r) v)) cs) ->
  Inv pcl (mkR s' (rg r ++ [NDisj cs None]) (ref_next r :: rmut r) (rmap r ++ [Some (next_index (impl r))])
               (next_index (impl r) :: imut r)).
Proof.
  intros pcl r s' cs c2 HI Esh T Hnd Hv.
  assert (Hg : grows (impl r) s') by (eexists; exact Esh).
  assert (L : Z.of_nat (length (sh (impl r))) < next_index (impl r)) by (unfold next_index; rewrite sh_length; lia).
  assert (Hrs : forall a v, rsol a (sh s') (next_index (impl r) :: imut r) v -> rsol a (sh (impl r)) (imut r) v).
  { intros a v H. rewrite Esh in H. apply rsol_app in H. apply rsol_more_mut in H; [exact H | exact L]. }
  apply grow_mut_common; auto.
  - pose proof (inv_idx _ _ HI) as [TA [TB TC]]. destruct T as [T1 [T2 T3]].
    unfold idx_ok. rewrite Esh, T1, T2, T3.
    split; [|split]; apply tbl_ok_app; apply tbl_ok_add_im; assumption.
  - intros j [<-|Hj].
    + rewrite Esh, app_length. simpl. unfold next_index. rewrite sh_length. lia.
    + pose proof (inv_imut _ _ HI j Hj). rewrite Esh, app_length. simpl. lia.
  - intros j Hj. right. exact Hj.
  - intros j Hj E. injection E as <-. pose proof (inv_imut _ _ HI _ Hj). lia.
  - right. exists (next_index (impl r)), c2, cs. simpl. repeat split.
    + unfold ref_next. rewrite <- (inv_len _ _ HI), ix_succ_len, nth_snoc. reflexivity.
    + left. reflexivity.
    + rewrite Esh, ix_next, nth_snoc. reflexivity.
    + unfold ref_next. rewrite ix_succ_len, nth_snoc. reflexivity.
    + intros a v Hr. rewrite Hv.
      change (ev KDisj (pull (rmap r) v) cs = ev KDisj (pull (rmap r ++ [Some (next_index (impl r))]) v) cs).
      symmetry. apply ev_ext_in. intros c Hc. apply pull_app. rewrite (inv_len _ _ HI). apply Hnd. exact Hc.
    + intros i' [<-|Hi'] Hm'; [reflexivity|]. exfalso.
      pose proof (inv_rmut _ _ HI i' Hi') as Ri'.
      rewrite nth_app_in in Hm' by (rewrite (inv_len _ _ HI); exact Ri').
      destruct (inv_mut _ _ HI i' Hi') as [[[A|A] _]|[j [cs0 [rcs0 [A [B _]]]]]]; rewrite A in Hm'; try discriminate.
      * injection Hm' as Hm'. pose proof (next_index_pos (impl r)). lia.
      * injection Hm' as ->. pose proof (inv_imut _ _ HI _ B). lia.
Qed.
