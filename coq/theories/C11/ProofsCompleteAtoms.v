(* C11 — negation on atoms only is inherited by the builder's graph: if in the reference graph every negative
   key points at an atom node (`natomic (rg r)`), then so does every negative key in the builder's graph and
   every negative returned key (Inv3).  Hence the equations of both graphs are monotone and the least
   supported valuations exist on both sides. *)
From Coq Require Import ZArith List Bool Lia.
From PL.C11 Require Import ModelBuilder ProofsBasics ProofsBuilder ProofsInv ProofsStep ProofsSem
                           ProofsCompleteShape ProofsCompleteInv ProofsComplete.
Import ListNotations.
Open Scope Z_scope.

Definition ext_atoms (g g' : list node) : Prop := forall j, atom_at g j -> atom_at g' j.

Lemma ext_atoms_refl : forall g, ext_atoms g g.
Proof. intros g j H. exact H. Qed.

Lemma ext_atoms_app : forall g x, ext_atoms g (g ++ x).
Proof.
  intros g x j [id [pc [nm H]]]. exists id, pc, nm. rewrite nth_error_app1; [exact H | eapply nth_error_lt; eauto].
Qed.

Lemma ext_atoms_set : forall g j0 cs nd, 0 < j0 -> nth_error g (ix j0) = Some (NDisj cs None) ->
  (forall id pc nm, nd <> NAtom id pc nm) ->
  ext_atoms g (list_set g (ix j0) nd) /\ forall j, 0 < j -> atom_at (list_set g (ix j0) nd) j -> atom_at g j.
Proof.
  intros g j0 cs nd P0 H0 Hnd. split.
  - intros j [id [pc [nm H]]]. exists id, pc, nm. rewrite nth_error_list_set_neq; [exact H|].
    intro E. rewrite E in H0. congruence.
  - intros j Pj [id [pc [nm H]]]. exists id, pc, nm.
    destruct (Nat.eq_dec (ix j0) (ix j)) as [E|Ne].
    + rewrite <- E in H. rewrite nth_error_list_set_eq in H by (eapply nth_error_lt; eauto).
      injection H as H. exfalso. apply (Hnd id pc nm). exact H.
    + rewrite nth_error_list_set_neq in H by exact Ne. exact H.
Qed.

Lemma ext_katom : forall g g' c, ext_atoms g g' -> katom g c -> katom g' c.
Proof. intros g g' [z|] E H; simpl in *; [|exact I]. intro Hz. apply E. apply H. exact Hz. Qed.

Lemma katom_pos : forall g j, 0 <= j -> katom g (Some j).
Proof. intros g j H Hz. lia. Qed.

(* the three facts that hold when the reference graph negates atoms only *)
Definition F3 (r : rstate) : Prop :=
  forall i id pc nm, 0 < i -> nth_error (rg r) (ix i) = Some (NAtom id pc nm) ->
  exists k, nth_error (rmap r) (ix i) = Some k /\
            (k = Some 0 \/ k = None \/ exists j, k = Some j /\ 0 < j /\ atom_at (sh (impl r)) j).
Definition G3 (r : rstate) : Prop := forall n k, nth_error (rmap r) n = Some k -> katom (sh (impl r)) k.
Definition H3 (r : rstate) : Prop := natomic (sh (impl r)).
Definition Inv3 (r : rstate) : Prop := natomic (rg r) -> F3 r /\ G3 r /\ H3 r.

Lemma Inv3_init : Inv3 init.
Proof.
  intros _. split; [|split].
  - intros i id pc nm _ H. simpl in H. destruct (ix i); discriminate.
  - intros [|n] k H; discriminate.
  - intros [|n] nd H; discriminate.
Qed.

Lemma rkey_katom : forall r c ic, F3 r -> G3 r -> katom (rg r) c -> rkey (rmap r) c = Some ic ->
  katom (sh (impl r)) ic.
Proof.
  intros r [z|] ic HF HG Hc H; simpl in H; [|injection H as <-; exact I].
  destruct (z =? 0) eqn:E0; [injection H as <-; apply katom_pos; lia|]. apply Z.eqb_neq in E0.
  destruct (nth_error (rmap r) (Z.to_nat (Z.abs z - 1))) as [ik|] eqn:N; [|discriminate].
  injection H as <-. destruct (z >? 0) eqn:E1; [apply (HG _ _ N)|].
  assert (Hz : z < 0) by lia. destruct (Hc Hz) as [id [pc [nm Ha]]].
  destruct (HF (- z) id pc nm ltac:(lia) Ha) as [k [Hk Hcase]].
  replace (ix (- z)) with (Z.to_nat (Z.abs z - 1)) in Hk by (unfold ix; lia). rewrite N in Hk. injection Hk as ->.
  destruct Hcase as [->|[->|[j [-> [Pj Aj]]]]]; simpl.
  - exact I.
  - apply katom_pos. lia.
  - assert (j =? 0 = false) as -> by lia. intros _. rewrite Z.opp_involutive. exact Aj.
Qed.

Lemma rkeys_katom : forall r cs ics, F3 r -> G3 r -> (forall c, In c cs -> katom (rg r) c) ->
  rkeys (rmap r) cs = Some ics -> forall c, In c ics -> katom (sh (impl r)) c.
Proof.
  intros r cs. induction cs as [|c t IH]; intros ics HF HG Hc H c0 Hc0; simpl in H.
  - injection H as <-. destruct Hc0.
  - destruct (rkey (rmap r) c) as [ic|] eqn:K; [|discriminate].
    destruct (rkeys (rmap r) t) as [its|] eqn:T; [|discriminate]. injection H as <-.
    destruct Hc0 as [<-|Hc0].
    + apply (rkey_katom r c _ HF HG); [apply Hc; left; reflexivity | exact K].
    + apply (IH its HF HG); auto. intros c1 Hc1. apply Hc. right. exact Hc1.
Qed.

(* natomic of a grown reference graph restricts to the old one *)
Lemma natomic_app_inv : forall g nd, (forall i nd0, nth_error g i = Some nd0 -> forall c, In c (children nd0) -> rvalid (length g) c) ->
  natomic (g ++ [nd]) -> natomic g /\ forall c, In c (children nd) -> rvalid (length g) c -> katom g c.
Proof.
  intros g nd Hv H.
  assert (Back : forall c, rvalid (length g) c -> katom (g ++ [nd]) c -> katom g c).
  { intros [z|] Hc K; simpl in *; [|exact I]. intro Hz. destruct (K Hz) as [id [pc [nm Ha]]]. exists id, pc, nm.
    rewrite nth_error_app1 in Ha; [exact Ha | unfold ix; lia]. }
  split.
  - intros n nd0 Hn c Hc. apply Back; [apply (Hv n nd0 Hn c Hc)|].
    apply (H n nd0); [|exact Hc]. rewrite nth_error_app1; [exact Hn | eapply nth_error_lt; eauto].
  - intros c Hc Hvc. apply Back; [exact Hvc|]. apply (H (length g) nd); [apply nth_snoc | exact Hc].
Qed.

Lemma natomic_set_inv : forall g z rcs c, 0 < z -> nth_error g (ix z) = Some (NDisj rcs None) ->
  natomic (list_set g (ix z) (NDisj (rcs ++ [c]) None)) -> natomic g /\ katom g c.
Proof.
  intros g z rcs c Pz Hz H.
  assert (Lz : (ix z < length g)%nat) by (eapply nth_error_lt; eauto).
  assert (Back : forall c0, katom (list_set g (ix z) (NDisj (rcs ++ [c]) None)) c0 -> katom g c0).
  { intros [y|] K; simpl in *; [|exact I]. intro Hy.
    apply (proj2 (ext_atoms_set g z rcs (NDisj (rcs ++ [c]) None) Pz Hz ltac:(intros; discriminate)) (- y)); [lia|].
    apply K. exact Hy. }
  split.
  - intros n nd0 Hn c0 Hc0. apply Back.
    destruct (Nat.eq_dec n (ix z)) as [->|Ne].
    + rewrite Hz in Hn. injection Hn as <-.
      apply (H (ix z) (NDisj (rcs ++ [c]) None)); [apply nth_error_list_set_eq; exact Lz|].
      simpl. apply in_or_app. left. exact Hc0.
    + apply (H n nd0); [|exact Hc0]. rewrite nth_error_list_set_neq by congruence. exact Hn.
  - apply Back. apply (H (ix z) (NDisj (rcs ++ [c]) None)); [apply nth_error_list_set_eq; exact Lz|].
    simpl. apply in_or_app. right. left. reflexivity.
Qed.

(* ------------------------------------------------------------ one more reference node *)
Section Grow3.
  Variable pcl : Z -> pclass.
  Variable r : rstate.
  Variable s' : state.
  Variable x : list node.
  Variable nd : node.
  Variable k : key.
  Variable rmut' im' : list Z.
  Hypothesis HI : Inv pcl r.
  Hypothesis HF : F3 r.
  Hypothesis HG : G3 r.
  Hypothesis HH : H3 r.
  Hypothesis Hsh : sh s' = sh (impl r) ++ x.
  Hypothesis Hx : forall ndm, In ndm x -> forall c, In c (children ndm) -> katom (sh (impl r)) c.
  Hypothesis Hk : katom (sh s') k.
  Hypothesis Hat : forall id pc nm, nd = NAtom id pc nm ->
    k = Some 0 \/ k = None \/ exists j, k = Some j /\ 0 < j /\ atom_at (sh s') j.

  Lemma Inv3_grow : let r' := mkR s' (rg r ++ [nd]) rmut' (rmap r ++ [k]) im' in F3 r' /\ G3 r' /\ H3 r'.
  Proof.
    assert (EA : ext_atoms (sh (impl r)) (sh s')) by (rewrite Hsh; apply ext_atoms_app).
    simpl. split; [|split].
    - intros i id pc nm Pi Hn. simpl in *.
      apply nth_app_last in Hn. destruct Hn as [[L Hn]|[E Hn]].
      + destruct (HF i id pc nm Pi Hn) as [k0 [Hk0 Hc]]. exists k0. split.
        * rewrite nth_error_app1; [exact Hk0 | eapply nth_error_lt; eauto].
        * destruct Hc as [->|[->|[j [-> [Pj Aj]]]]]; auto. right. right. exists j. auto.
      + exists k. split; [rewrite E, <- (inv_len _ _ HI); apply nth_snoc|]. apply (Hat id pc nm). symmetry. exact Hn.
    - intros n k0 Hn. simpl in *. apply nth_app_last in Hn. destruct Hn as [[_ Hn]|[_ ->]]; [|exact Hk].
      apply (ext_katom _ _ _ EA). apply (HG n k0 Hn).
    - intros n nd0 Hn c Hc. simpl in *. apply (ext_katom _ _ _ EA). rewrite Hsh in Hn.
      destruct (Nat.lt_ge_cases n (length (sh (impl r)))) as [L|L].
      + rewrite nth_error_app1 in Hn by exact L. apply (HH n nd0 Hn c Hc).
      + rewrite nth_error_app2 in Hn by exact L. apply (Hx nd0); [eapply nth_error_In; eauto | exact Hc].
  Qed.
End Grow3.

Lemma Inv3_same_sh : forall r s', F3 r /\ G3 r /\ H3 r -> sh s' = sh (impl r) ->
  let r' := mkR s' (rg r) (rmut r) (rmap r) (imut r) in F3 r' /\ G3 r' /\ H3 r'.
Proof.
  intros r s' [HF [HG HH]] E. unfold F3, G3, H3. simpl. rewrite E. auto.
Qed.

Lemma kres_katom : forall g n content k, kres n content k -> (forall c, In c content -> katom g c) -> katom g k.
Proof.
  intros g n content k [->|[->|[H|[j [-> H]]]]] Hc; auto.
  - apply katom_pos. lia.
  - exact I.
  - apply katom_pos. lia.
Qed.

(* ------------------------------------------------------------ one call *)
Theorem step_inv3 : forall o pcl r x r' rv,
  Inv pcl r -> Inv2 r -> Inv3 r -> step o pcl r x = Ok (r', rv) -> Inv3 r'.
Proof.
  intros o pcl r x r' rv HI H2 H3' H Hnat'.
  pose proof (inv_idx _ _ HI) as Hidx. pose proof (inv_imut _ _ HI) as Him.
  destruct x as [id nm | cs nm cp | cs ro ph nm cp | k c | nm k keep]; simpl in H.
  - (* add_atom *)
    destruct (add_atom o (pcl id) (impl r) id nm) as [[s' k]|] eqn:A; [|discriminate].
    injection H as <- <-. simpl in Hnat'.
    destruct (natomic_app_inv _ _ (inv_rchild _ _ HI) Hnat') as [Hnat _].
    destruct (H3' Hnat) as [HF [HG HH]].
    destruct (add_atom_shape pcl o (impl r) (imut r) id nm s' k Hidx Him A) as [Sh Kr].
    assert (exists x, sh s' = sh (impl r) ++ x /\ (x = [] \/ x = [NAtom id (pcl id) None])) as [x [Ex Hx]].
    { destruct Sh as [E|E]; [exists []; rewrite app_nil_r; auto | eexists; eauto]. }
    apply (Inv3_grow pcl r s' x _ k _ _ HI HF HG HH Ex).
    + intros ndm Hin. destruct Hx as [->| ->]; [destruct Hin|]. destruct Hin as [<-|[]]. intros c [].
    + destruct Kr as [->|[->|[j [-> [Pj _]]]]]; [apply katom_pos; lia | exact I | apply katom_pos; lia].
    + intros id0 pc0 nm0 _. destruct Kr as [->|[->|[j [-> [Pj Nj]]]]]; auto.
      right. right. exists j. split; [reflexivity|]. split; [exact Pj|]. exists id, (pcl id), None. exact Nj.
  - (* add_and *)
    destruct (rkeys (rmap r) cs) as [ics|] eqn:K; [|discriminate].
    destruct (add_and o (impl r) ics nm cp) as [[s' k]|] eqn:A; [|discriminate].
    injection H as <- <-. simpl in Hnat'.
    destruct (natomic_app_inv _ _ (inv_rchild _ _ HI) Hnat') as [Hnat Hnew].
    destruct (H3' Hnat) as [HF [HG HH]].
    destruct (rkeys_spec _ _ _ K) as [V _]. unfold add_and in A.
    assert (Ki : forall c, In c ics -> katom (sh (impl r)) c).
    { apply (rkeys_katom r cs ics HF HG); [|exact K]. intros c Hc. apply Hnew; [exact Hc|].
      rewrite <- (inv_len _ _ HI). apply V. exact Hc. }
    destruct (add_compound_shape pcl o (impl r) (imut r) KConj ics true nm false cp s' k Hidx Him A) as [Sh Kr].
    assert (exists x, sh s' = sh (impl r) ++ x /\ (x = [] \/ exists cs', x = [NConj cs' None] /\ incl cs' ics)) as [x [Ex Hx]].
    { destruct Sh as [E0|[cs' [E0 Hi]]]; [exists []; rewrite app_nil_r; auto | eexists; split; [exact E0|right; eauto]]. }
    apply (Inv3_grow pcl r s' x _ k _ _ HI HF HG HH Ex).
    + intros ndm Hin. destruct Hx as [->|[cs' [-> Hi]]]; [destruct Hin|]. destruct Hin as [<-|[]].
      intros c Hc. apply Ki. apply Hi. exact Hc.
    + apply (kres_katom _ _ ics k Kr). intros c Hc. apply (ext_katom (sh (impl r))); [rewrite Ex; apply ext_atoms_app | apply Ki; exact Hc].
    + intros id0 pc0 nm0 E0. discriminate.
  - (* add_or *)
    destruct (rkeys (rmap r) cs) as [ics|] eqn:K; [|discriminate].
    destruct (add_or o (impl r) ics ro ph nm cp) as [[s' k]|] eqn:A; [|discriminate].
    injection H as <- <-. simpl in Hnat'.
    destruct (natomic_app_inv _ _ (inv_rchild _ _ HI) Hnat') as [Hnat Hnew].
    destruct (H3' Hnat) as [HF [HG HH]].
    destruct (rkeys_spec _ _ _ K) as [V _]. unfold add_or in A.
    assert (Ki : forall c, In c ics -> katom (sh (impl r)) c).
    { apply (rkeys_katom r cs ics HF HG); [|exact K]. intros c Hc. apply Hnew; [exact Hc|].
      rewrite <- (inv_len _ _ HI). apply V. exact Hc. }
    destruct (add_compound_shape pcl o (impl r) (imut r) KDisj ics (ro && negb ph) nm ph cp s' k Hidx Him A) as [Sh Kr].
    assert (exists x, sh s' = sh (impl r) ++ x /\ (x = [] \/ exists cs', x = [NDisj cs' None] /\ incl cs' ics)) as [x [Ex Hx]].
    { destruct Sh as [E0|[cs' [E0 Hi]]]; [exists []; rewrite app_nil_r; auto | eexists; split; [exact E0|right; eauto]]. }
    apply (Inv3_grow pcl r s' x _ k _ _ HI HF HG HH Ex).
    + intros ndm Hin. destruct Hx as [->|[cs' [-> Hi]]]; [destruct Hin|]. destruct Hin as [<-|[]].
      intros c Hc. apply Ki. apply Hi. exact Hc.
    + apply (kres_katom _ _ ics k Kr). intros c Hc. apply (ext_katom (sh (impl r))); [rewrite Ex; apply ext_atoms_app | apply Ki; exact Hc].
    + intros id0 pc0 nm0 E0. discriminate.
  - (* add_disjunct *)
    destruct k as [z|]; [|discriminate].
    destruct (z =? 0) eqn:Ez.
    { destruct (rkey (rmap r) c); [|discriminate]. injection H as <- <-. apply H3'. exact Hnat'. }
    destruct (memz z (rmut r)) eqn:Em; [|discriminate].
    apply memz_In in Em.
    destruct (rkey (rmap r) (Some z)) as [ik|] eqn:Kz; [|discriminate].
    destruct (rkey (rmap r) c) as [ic|] eqn:Kc; [|discriminate].
    destruct (add_disjunct o (impl r) ik ic) as [[s' upd]|] eqn:A; [|discriminate].
    injection H as <- <-. cbn [rg] in Hnat'.
    pose proof (inv_rmut _ _ HI z Em) as [Pz Lz].
    apply rkey_pos in Kz; auto.
    change (Z.to_nat (z - 1)) with (ix z) in Hnat'. change (Z.to_nat (z - 1)) with (ix z).
    (* the reference side: atoms stay where they are *)
    assert (RefF : forall rcs, nth_error (rg r) (ix z) = Some (NDisj rcs None) ->
              forall i id pc nm, 0 < i ->
              nth_error (list_set (rg r) (ix z) (NDisj (rcs ++ [c]) None)) (ix i) = Some (NAtom id pc nm) ->
              nth_error (rg r) (ix i) = Some (NAtom id pc nm)).
    { intros rcs Hz i id pc nm Pi Hn. destruct (Nat.eq_dec (ix z) (ix i)) as [E|Ne].
      - rewrite <- E in Hn. rewrite nth_error_list_set_eq in Hn by (eapply nth_error_lt; eauto). discriminate.
      - rewrite nth_error_list_set_neq in Hn by exact Ne. exact Hn. }
    destruct (inv_mut _ _ HI z Em) as [[[Ka|Ka] [B [rcs C]]]|[j [cs0 [rcs [Ka [Bj [Cj [D [E F]]]]]]]]];
      rewrite Ka in Kz; injection Kz as <-.
    + simpl in A. injection A as <- <-. rewrite C in Hnat'.
      destruct (natomic_set_inv _ z rcs c Pz C Hnat') as [Hnat _].
      destruct (H3' Hnat) as [HF [HG HH]]. rewrite C.
      split; [|split; [exact HG | exact HH]].
      intros i id pc nm Pi Hn. simpl in *. apply (HF i id pc nm Pi). apply (RefF rcs C i id pc nm Pi Hn).
    + simpl in A. discriminate.
    + rewrite D in Hnat'.
      destruct (natomic_set_inv _ z rcs c Pz D Hnat') as [Hnat Hc].
      destruct (H3' Hnat) as [HF [HG HH]]. rewrite D.
      pose proof (rkey_katom r c ic HF HG Hc Kc) as Kic.
      pose proof (inv_imut _ _ HI j Bj) as [Pj Lj].
      assert (Hcs0 : forall c0, In c0 cs0 -> katom (sh (impl r)) c0) by (apply (HH (ix j) _ Cj)).
      destruct (add_disjunct_shape pcl o (impl r) (imut r) j cs0 ic s' upd Hidx Him Bj Cj A)
        as [Esame|[x [cs'' [Hx [Es' Hcs'']]]]].
      * split; [|split].
        -- intros i id pc nm Pi Hn. simpl in *. rewrite Esame. apply (HF i id pc nm Pi). apply (RefF rcs D i id pc nm Pi Hn).
        -- intros n k0 Hn. simpl in *. rewrite Esame. apply (HG n k0 Hn).
        -- unfold H3. simpl. rewrite Esame. exact HH.
      * assert (Cj' : nth_error (sh (impl r) ++ x) (ix j) = Some (NDisj cs0 None)).
        { rewrite nth_error_app1; [exact Cj | eapply nth_error_lt; eauto]. }
        assert (EA : ext_atoms (sh (impl r)) (sh s')).
        { intros y Hy. rewrite Es'.
          apply (proj1 (ext_atoms_set _ j cs0 (NDisj cs'' None) Pj Cj' ltac:(intros; discriminate))).
          apply ext_atoms_app. exact Hy. }
        split; [|split].
        -- intros i id pc nm Pi Hn. simpl in *.
           destruct (HF i id pc nm Pi (RefF rcs D i id pc nm Pi Hn)) as [k0 [Hk0 Hc0]]. exists k0. split; [exact Hk0|].
           destruct Hc0 as [->|[->|[y [-> [Py Ay]]]]]; auto. right. right. exists y. auto.
        -- intros n k0 Hn. simpl in *. apply (ext_katom _ _ _ EA). apply (HG n k0 Hn).
        -- intros n nd0 Hn c0 Hc0. simpl in *. apply (ext_katom _ _ _ EA). rewrite Es' in Hn.
           destruct (Nat.eq_dec n (ix j)) as [->|Ne].
           ++ rewrite nth_error_list_set_eq in Hn by (eapply nth_error_lt; eauto). injection Hn as <-.
              destruct (Hcs'' c0 Hc0) as [K|[->|K]]; [apply Hcs0; exact K | exact Kic|].
              apply (kres_katom _ _ cs0 c0 K). exact Hcs0.
           ++ rewrite nth_error_list_set_neq in Hn by congruence.
              destruct (Nat.lt_ge_cases n (length (sh (impl r)))) as [L|L].
              ** rewrite nth_error_app1 in Hn by exact L. apply (HH n nd0 Hn c0 Hc0).
              ** rewrite nth_error_app2 in Hn by exact L.
                 assert (In nd0 x) as Hin by (eapply nth_error_In; eauto).
                 destruct Hx as [->|[cs' [-> Hi]]]; [destruct Hin|]. destruct Hin as [<-|[]].
                 apply Hcs0. apply Hi. exact Hc0.
  - (* add_name *)
    destruct (rkey (rmap r) k) as [ik|]; [|discriminate].
    destruct (add_name (impl r) nm ik keep) as [s'|] eqn:A; [|discriminate].
    injection H as <- <-. simpl in Hnat'.
    apply add_name_spec in A. destruct A as [E T]. apply Inv3_same_sh; [apply H3'; exact Hnat' | exact E].
Qed.

Lemma run_inv3 : forall o pcl ops r r', Inv pcl r -> Inv2 r -> Inv3 r -> run o pcl r ops = Ok r' -> Inv3 r'.
Proof.
  intros o pcl ops. induction ops as [|x t IH]; intros r r' HI H2 H3' H; simpl in H.
  - injection H as <-. exact H3'.
  - destruct (step o pcl r x) as [[r1 rv]| |] eqn:S; try discriminate.
    destruct (step_inv o pcl r x r1 rv HI S) as [I1 _].
    apply (IH r1 r' I1 (step_inv2 o pcl r x r1 rv HI H2 S) (step_inv3 o pcl r x r1 rv HI H2 H3' S) H).
Qed.

(* atoms of the shape list = atoms of the node list *)
Lemma atom_at_sh : forall s j, atom_at (sh s) j <-> atom_at (nodes s) j.
Proof.
  intros s j. split; intros [id [pc [nm H]]].
  - apply sh_nth_inv in H. destruct H as [nd [Hn Hs]]. destruct nd as [id' pc' nm'|cs nm'|cs nm']; simpl in Hs; try discriminate.
    exists id', pc', nm'. exact Hn.
  - apply sh_nth in H. simpl in H. exists id, pc, None. exact H.
Qed.

Lemma katom_sh : forall s c, katom (sh s) c <-> katom (nodes s) c.
Proof.
  intros s [z|]; simpl; [|tauto]. split; intros H Hz; apply atom_at_sh; apply H; exact Hz.
Qed.

Lemma natomic_sh : forall s, natomic (sh s) -> natomic (nodes s).
Proof.
  intros s H n nd Hn c Hc. apply katom_sh. apply (H n (strip nd)); [apply sh_nth; exact Hn|].
  destruct nd; exact Hc.
Qed.

Theorem natomic_inherited : forall o pcl ops r, run o pcl init ops = Ok r -> natomic (rg r) ->
  natomic (nodes (impl r)) /\ forall n k, nth_error (rmap r) n = Some k -> katom (nodes (impl r)) k.
Proof.
  intros o pcl ops r H Hnat.
  destruct (run_inv o pcl ops init r (Inv_init pcl) H) as [I _].
  pose proof (run_inv2 o pcl ops init r (Inv_init pcl) Inv2_init H) as I2.
  destruct (run_inv3 o pcl ops init r (Inv_init pcl) Inv2_init Inv3_init H Hnat) as [_ [HG HH]].
  split; [apply natomic_sh; exact HH|]. intros n k Hn. apply katom_sh. apply (HG n k Hn).
Qed.
