(* C11 — completeness, the main statements over histories. *)
From Coq Require Import ZArith List Bool Lia.
From PL.C11 Require Import ModelBuilder ProofsBasics ProofsBuilder ProofsInv ProofsStep ProofsSem
                           ProofsCompleteShape ProofsCompleteInv ProofsComplete ProofsCompleteLfp ProofsCompleteAtoms ProofsCompletePos.
Import ListNotations.
Open Scope Z_scope.

(* the least supported valuations of the two graphs agree on every returned key *)
Theorem least_equal : forall o pcl ops r, run o pcl init ops = Ok r -> natomic (rg r) ->
  forall a V W, least_sol a (nodes (impl r)) V -> least_sol a (rg r) W ->
  forall n ik, nth_error (rmap r) n = Some ik -> vkey V ik = W (Z.of_nat n + 1).
Proof.
  intros o pcl ops r H Hnat.
  destruct (run_inv o pcl ops init r (Inv_init pcl) H) as [I _].
  pose proof (run_inv2 o pcl ops init r (Inv_init pcl) Inv2_init H) as I2.
  destruct (natomic_inherited o pcl ops r H Hnat) as [_ HG].
  apply (Inv_least_equal pcl r I I2 HG).
Qed.

(* ... and they exist on both sides, computed by the Kleene iteration kleeneN *)
Theorem least_exist : forall o pcl ops r, run o pcl init ops = Ok r -> natomic (rg r) ->
  forall a, least_sol a (nodes (impl r)) (lfpN a (nodes (impl r))) /\ least_sol a (rg r) (lfpN a (rg r)).
Proof.
  intros o pcl ops r H Hnat a.
  destruct (natomic_inherited o pcl ops r H Hnat) as [HH _].
  split; apply lfpN_least_sol; assumption.
Qed.

Theorem lfpN_equal : forall o pcl ops r, run o pcl init ops = Ok r -> natomic (rg r) ->
  forall a n ik, nth_error (rmap r) n = Some ik ->
  vkey (lfpN a (nodes (impl r))) ik = lfpN a (rg r) (Z.of_nat n + 1).
Proof.
  intros o pcl ops r H Hnat a n ik Hk.
  destruct (least_exist o pcl ops r H Hnat a) as [L1 L2].
  apply (least_equal o pcl ops r H Hnat a _ _ L1 L2 n ik Hk).
Qed.

(* ModelBuilder.lfp_val (plain Kleene iteration from all-false): equal on graphs without negative keys *)
Theorem lfp_val_equal : forall o pcl ops r, run o pcl init ops = Ok r -> posonly (rg r) ->
  forall a n ik, nth_error (rmap r) n = Some ik ->
  lfp_val a (nodes (impl r)) ik = lfp_val a (rg r) (Some (Z.of_nat n + 1)).
Proof.
  intros o pcl ops r H P1 a n ik Hk.
  pose proof (posonly_inherited o pcl ops r H P1) as P2.
  unfold lfp_val.
  rewrite (vkey_ext _ (lfpN a (nodes (impl r))) ik (kleene_kleeneN a _ P2 _)).
  rewrite (vkey_ext _ (lfpN a (rg r)) (Some (Z.of_nat n + 1)) (kleene_kleeneN a _ P1 _)).
  rewrite (lfpN_equal o pcl ops r H (posonly_natomic _ P1) a n ik Hk).
  simpl. assert (Z.of_nat n + 1 =? 0 = false) as -> by (apply Z.eqb_neq; lia).
  assert (Z.of_nat n + 1 >? 0 = true) as -> by (apply Z.gtb_lt; lia). reflexivity.
Qed.

(* the builder's graph has a supported valuation whenever the reference graph has one (always, when negation is
   on atoms only): C11_builder_sound / C11_meaning_acyclic are not vacuous *)
Corollary builder_has_sol : forall o pcl ops r, run o pcl init ops = Ok r ->
  forall a, (exists w, sol a (rg r) w) -> exists v, sol a (nodes (impl r)) v.
Proof.
  intros o pcl ops r H a [w Sw]. destruct (builder_complete o pcl ops r H a w Sw) as [v [Sv _]]. exists v. exact Sv.
Qed.

(* a decision procedure for `natomic`, for concrete histories *)
Definition katomb (g : list node) (c : key) : bool :=
  match c with
  | Some z => if z <? 0 then match nth_error g (ix (- z)) with Some (NAtom _ _ _) => true | _ => false end else true
  | None => true
  end.
Definition natomicb (g : list node) : bool := forallb (fun nd => forallb (katomb g) (children nd)) g.

Lemma natomicb_sound : forall g, natomicb g = true -> natomic g.
Proof.
  intros g H n nd Hn c Hc. unfold natomicb in H. rewrite forallb_forall in H.
  specialize (H nd (nth_error_In _ _ Hn)). rewrite forallb_forall in H. specialize (H c Hc).
  destruct c as [z|]; simpl in *; [|exact I]. intro Hz.
  assert (z <? 0 = true) as E by (apply Z.ltb_lt; exact Hz). rewrite E in H.
  destruct (nth_error g (ix (- z))) as [[id pc nm|cs nm|cs nm]|] eqn:N; try discriminate.
  exists id, pc, nm. exact N.
Qed.
