(* C11 — the structural invariant behind completeness (Inv2), preserved by every call:
   read-only model nodes only have children with a smaller index, every mutable model node is owned by a
   mutable reference node, read-only reference nodes only have earlier children, a mutable reference node
   folded to TRUE was folded because of its original (earlier) children, returned keys are in range. *)
From Coq Require Import ZArith List Bool Lia.
From PL.C11 Require Import ModelBuilder ProofsBasics ProofsBuilder ProofsInv ProofsStep ProofsCompleteShape.
Import ListNotations.
Open Scope Z_scope.

Record Inv2 (r : rstate) : Prop := {
  i2_ro_small : forall j nd, 0 < j -> nth_error (sh (impl r)) (ix j) = Some nd -> ~ In j (imut r) ->
                forall c, In c (children nd) -> rvalid (ix j) c;
  i2_valid : forall n nd, nth_error (sh (impl r)) n = Some nd ->
             forall c, In c (children nd) -> rvalid (length (sh (impl r))) c;
  i2_owned : forall j, In j (imut r) -> exists i, In i (rmut r) /\ nth_error (rmap r) (ix i) = Some (Some j);
  i2_r_small : forall i nd, 0 < i -> ~ In i (rmut r) -> nth_error (rg r) (ix i) = Some nd ->
               forall c, In c (children nd) -> rvalid (ix i) c;
  i2_r_true : forall i rcs, In i (rmut r) -> nth_error (rg r) (ix i) = Some (NDisj rcs None) ->
              nth_error (rmap r) (ix i) = Some (Some 0) ->
              exists rcs0 rcs1, rcs = rcs0 ++ rcs1 /\ (forall c, In c rcs0 -> rvalid (ix i) c) /\
                                forall v, existsb (vkey (pull (rmap r) v)) rcs0 = true;
  i2_r_false : forall i rcs, In i (rmut r) -> nth_error (rg r) (ix i) = Some (NDisj rcs None) ->
               nth_error (rmap r) (ix i) = Some None -> forall c, In c rcs -> rvalid (ix i) c;
  i2_rmap : forall n k, nth_error (rmap r) n = Some k -> rvalid (length (sh (impl r))) k
}.

Lemma Inv2_init : Inv2 init.
Proof.
  constructor; simpl.
  - intros j nd _ H. destruct (ix j); discriminate.
  - intros [|n] nd H; discriminate.
  - intros j [].
  - intros i nd _ _ H. destruct (ix i); discriminate.
  - intros i rcs [].
  - intros i rcs [].
  - intros [|n] k H; discriminate.
Qed.

Lemma ix_lt_of_range : forall i n, 0 < i <= Z.of_nat n -> (ix i < n)%nat.
Proof. intros. unfold ix. lia. Qed.

Lemma nth_app_last : forall (A : Type) (l : list A) x n y, nth_error (l ++ [x]) n = Some y ->
  (n < length l)%nat /\ nth_error l n = Some y \/ n = length l /\ y = x.
Proof.
  intros A l x n y H. destruct (Nat.lt_ge_cases n (length l)) as [L|L].
  - left. rewrite nth_error_app1 in H by exact L. auto.
  - right. rewrite nth_error_app2 in H by exact L. destruct (n - length l)%nat as [|m] eqn:E; simpl in H.
    + injection H as <-. split; [lia | reflexivity].
    + destruct m; discriminate.
Qed.

(* ------------------------------------------------------------ one more reference node *)
Section Grow2.
  Variable pcl : Z -> pclass.
  Variable r : rstate.
  Variable s' : state.
  Variable x : list node.
  Variable nd : node.
  Variable k : key.
  Variable rmut' im' : list Z.
  Hypothesis HI : Inv pcl r.
  Hypothesis H2 : Inv2 r.
  Hypothesis Hsh : sh s' = sh (impl r) ++ x.
  Hypothesis Hx : forall ndm, In ndm x -> x = [ndm] /\ forall c, In c (children ndm) -> rvalid (length (sh (impl r))) c.
  Hypothesis Hnd : forall c, In c (children nd) -> rvalid (length (rg r)) c.
  Hypothesis Hk : rvalid (length (sh s')) k.
  Hypothesis Hrm_old : forall i, In i (rmut r) -> In i rmut'.
  Hypothesis Hrm_new : forall i, In i rmut' -> In i (rmut r) \/ i = ref_next r.
  Hypothesis Him_old : forall j, In j (imut r) -> In j im'.
  Hypothesis Him_new : forall j, In j im' -> In j (imut r) \/ (In (ref_next r) rmut' /\ k = Some j).
  Hypothesis Hnew_true : In (ref_next r) rmut' -> k = Some 0 -> forall rcs, nd = NDisj rcs None ->
    forall v, existsb (vkey (pull (rmap r) v)) rcs = true.

  Lemma len_mono : (length (sh (impl r)) <= length (sh s'))%nat.
  Proof. rewrite Hsh, app_length. lia. Qed.

  Lemma old_ref : forall i, 0 < i <= Z.of_nat (length (rg r)) ->
    nth_error (rg r ++ [nd]) (ix i) = nth_error (rg r) (ix i) /\
    nth_error (rmap r ++ [k]) (ix i) = nth_error (rmap r) (ix i).
  Proof.
    intros i Hi. split; apply nth_app_in; [exact Hi | rewrite (inv_len _ _ HI); exact Hi].
  Qed.

  Lemma new_ref : nth_error (rg r ++ [nd]) (ix (ref_next r)) = Some nd /\
                  nth_error (rmap r ++ [k]) (ix (ref_next r)) = Some k.
  Proof.
    unfold ref_next. rewrite ix_succ_len. split; [apply nth_snoc|].
    rewrite <- (inv_len _ _ HI). apply nth_snoc.
  Qed.

  Lemma ref_cases : forall i y, 0 < i -> nth_error (rg r ++ [nd]) (ix i) = Some y ->
    0 < i <= Z.of_nat (length (rg r)) \/ i = ref_next r.
  Proof.
    intros i y Pi H. apply nth_app_last in H. destruct H as [[L _]|[E _]].
    - left. unfold ix in L. lia.
    - right. unfold ref_next, ix in *. lia.
  Qed.

  Lemma Inv2_grow : Inv2 (mkR s' (rg r ++ [nd]) rmut' (rmap r ++ [k]) im').
  Proof.
    pose proof len_mono as LM.
    constructor; simpl.
    - (* read-only model nodes *)
      intros j nd0 Pj Hn Hni c Hc. rewrite Hsh in Hn.
      destruct (Nat.lt_ge_cases (ix j) (length (sh (impl r)))) as [L|L].
      + rewrite nth_error_app1 in Hn by exact L.
        apply (i2_ro_small _ H2 j nd0 Pj Hn); [|exact Hc]. intro Hin. apply Hni. apply Him_old. exact Hin.
      + rewrite nth_error_app2 in Hn by exact L.
        assert (In nd0 x) as Hin by (eapply nth_error_In; eauto).
        destruct (Hx nd0 Hin) as [Ex Hch]. rewrite Ex in Hn.
        destruct (ix j - length (sh (impl r)))%nat as [|m] eqn:E; simpl in Hn; [|destruct m; discriminate].
        assert (ix j = length (sh (impl r))) as -> by lia. apply Hch. exact Hc.
    - (* all children in range *)
      intros n nd0 Hn c Hc. rewrite Hsh in Hn.
      destruct (Nat.lt_ge_cases n (length (sh (impl r)))) as [L|L].
      + rewrite nth_error_app1 in Hn by exact L.
        eapply rvalid_mono; [apply (i2_valid _ H2 n nd0 Hn c Hc) | exact LM].
      + rewrite nth_error_app2 in Hn by exact L.
        assert (In nd0 x) as Hin by (eapply nth_error_In; eauto).
        destruct (Hx nd0 Hin) as [_ Hch]. eapply rvalid_mono; [apply Hch; exact Hc | exact LM].
    - (* owners *)
      intros j Hj. destruct (Him_new j Hj) as [Hold|[Hr Ek]].
      + destruct (i2_owned _ H2 j Hold) as [i [Hi Hm]]. exists i. split; [apply Hrm_old; exact Hi|].
        rewrite (proj2 (old_ref i (inv_rmut _ _ HI i Hi))). exact Hm.
      + exists (ref_next r). split; [exact Hr|]. rewrite (proj2 new_ref). f_equal. exact Ek.
    - (* read-only reference nodes *)
      intros i nd0 Pi Hni Hn c Hc.
      destruct (ref_cases i nd0 Pi Hn) as [Ri| ->].
      + rewrite (proj1 (old_ref i Ri)) in Hn. apply (i2_r_small _ H2 i nd0 Pi); auto.
      + rewrite (proj1 new_ref) in Hn. injection Hn as <-. unfold ref_next. rewrite ix_succ_len. apply Hnd. exact Hc.
    - (* folded to TRUE *)
      intros i rcs Hi Hn Hm. destruct (Hrm_new i Hi) as [Hold| ->].
      + pose proof (inv_rmut _ _ HI i Hold) as Ri. destruct (old_ref i Ri) as [E1 E2]. rewrite E1 in Hn. rewrite E2 in Hm.
        destruct (i2_r_true _ H2 i rcs Hold Hn Hm) as [rcs0 [rcs1 [E [V T]]]].
        exists rcs0, rcs1. split; [exact E|]. split; [exact V|]. intro v. rewrite <- (T v).
        change (ev KDisj (pull (rmap r ++ [k]) v) rcs0 = ev KDisj (pull (rmap r) v) rcs0).
        apply ev_ext_in. intros c Hc. apply pull_app. rewrite (inv_len _ _ HI).
        eapply rvalid_mono; [apply V; exact Hc|]. pose proof (ix_lt_of_range i _ Ri). lia.
      + destruct new_ref as [E1 E2]. rewrite E1 in Hn. rewrite E2 in Hm. injection Hn as ->. injection Hm as ->.
        exists rcs, []. split; [rewrite app_nil_r; reflexivity|]. split.
        * intros c Hc. unfold ref_next. rewrite ix_succ_len. apply Hnd. exact Hc.
        * intro v. rewrite <- (Hnew_true Hi eq_refl rcs eq_refl v).
          change (ev KDisj (pull (rmap r ++ [Some 0]) v) rcs = ev KDisj (pull (rmap r) v) rcs).
          apply ev_ext_in. intros c Hc. apply pull_app. rewrite (inv_len _ _ HI). apply Hnd. exact Hc.
    - (* folded to FALSE *)
      intros i rcs Hi Hn Hm. destruct (Hrm_new i Hi) as [Hold| ->].
      + pose proof (inv_rmut _ _ HI i Hold) as Ri. destruct (old_ref i Ri) as [E1 E2]. rewrite E1 in Hn. rewrite E2 in Hm.
        apply (i2_r_false _ H2 i rcs Hold Hn Hm).
      + destruct new_ref as [E1 _]. rewrite E1 in Hn. injection Hn as ->.
        intros c Hc. unfold ref_next. rewrite ix_succ_len. apply Hnd. exact Hc.
    - (* returned keys in range *)
      intros n k0 Hn. apply nth_app_last in Hn. destruct Hn as [[_ Hn]|[_ ->]]; [|exact Hk].
      eapply rvalid_mono; [apply (i2_rmap _ H2 n k0 Hn) | exact LM].
  Qed.
End Grow2.

Lemma Inv2_same_sh : forall r s', Inv2 r -> sh s' = sh (impl r) ->
  Inv2 (mkR s' (rg r) (rmut r) (rmap r) (imut r)).
Proof.
  intros r s' H2 E. constructor; simpl; rewrite ?E.
  - apply (i2_ro_small _ H2).
  - apply (i2_valid _ H2).
  - apply (i2_owned _ H2).
  - apply (i2_r_small _ H2).
  - apply (i2_r_true _ H2).
  - apply (i2_r_false _ H2).
  - apply (i2_rmap _ H2).
Qed.

(* a key translated from a reference key is in range *)
Lemma rkey_rvalid : forall r c ic, Inv2 r -> rkey (rmap r) c = Some ic -> rvalid (length (sh (impl r))) ic.
Proof.
  intros r [z|] ic H2 H; simpl in H.
  - destruct (z =? 0); [injection H as <-; simpl; lia|].
    destruct (nth_error (rmap r) (Z.to_nat (Z.abs z - 1))) as [ik|] eqn:N; [|discriminate].
    pose proof (i2_rmap _ H2 _ _ N) as V. injection H as <-.
    destruct (z >? 0); [exact V|]. destruct ik as [y|]; simpl in *; [|lia].
    destruct (y =? 0); simpl; lia.
  - injection H as <-. exact I.
Qed.

Lemma rkeys_rvalid : forall r cs ics, Inv2 r -> rkeys (rmap r) cs = Some ics ->
  forall c, In c ics -> rvalid (length (sh (impl r))) c.
Proof.
  intros r cs. induction cs as [|c t IH]; intros ics H2 H c0 Hc0; simpl in H.
  - injection H as <-. destruct Hc0.
  - destruct (rkey (rmap r) c) as [ic|] eqn:K; [|discriminate].
    destruct (rkeys (rmap r) t) as [its|] eqn:T; [|discriminate]. injection H as <-.
    destruct Hc0 as [<-|Hc0]; [eapply rkey_rvalid; eauto | eapply IH; eauto].
Qed.

(* ------------------------------------------------------------ one call *)
Theorem step_inv2 : forall o pcl r x r' rv,
  Inv pcl r -> Inv2 r -> step o pcl r x = Ok (r', rv) -> Inv2 r'.
Proof.
  intros o pcl r x r' rv HI H2 H.
  pose proof (inv_idx _ _ HI) as Hidx. pose proof (inv_imut _ _ HI) as Him.
  destruct x as [id nm | cs nm cp | cs ro ph nm cp | k c | nm k keep]; simpl in H.
  - (* add_atom *)
    destruct (add_atom o (pcl id) (impl r) id nm) as [[s' k]|] eqn:A; [|discriminate].
    injection H as <- <-.
    destruct (add_atom_shape pcl o (impl r) (imut r) id nm s' k Hidx Him A) as [Sh Kr].
    assert (exists x, sh s' = sh (impl r) ++ x /\ (x = [] \/ x = [NAtom id (pcl id) None])) as [x [Ex Hx]].
    { destruct Sh as [E|E]; [exists []; rewrite app_nil_r; auto | eexists; eauto]. }
    apply (Inv2_grow pcl r s' x _ _ _ _ HI H2 Ex).
    + intros ndm Hin. destruct Hx as [->| ->]; [destruct Hin|]. destruct Hin as [<-|[]]. split; [reflexivity|]. intros c [].
    + intros c [].
    + destruct Kr as [->|[->|[j [-> [Pj Nj]]]]]; simpl; try lia. pose proof (ix_in_range _ _ _ Pj Nj). lia.
    + auto.
    + auto.
    + auto.
    + intros j Hj. left. exact Hj.
    + intros Hr. exfalso. pose proof (inv_rmut _ _ HI _ Hr). unfold ref_next in *. lia.
  - (* add_and *)
    destruct (rkeys (rmap r) cs) as [ics|] eqn:K; [|discriminate].
    destruct (add_and o (impl r) ics nm cp) as [[s' k]|] eqn:A; [|discriminate].
    injection H as <- <-.
    destruct (rkeys_spec _ _ _ K) as [V E]. unfold add_and in A.
    pose proof (rkeys_rvalid r cs ics H2 K) as Vi.
    destruct (add_compound_shape pcl o (impl r) (imut r) KConj ics true nm false cp s' k Hidx Him A) as [Sh Kr].
    assert (exists x, sh s' = sh (impl r) ++ x /\ (x = [] \/ exists cs', x = [NConj cs' None] /\ incl cs' ics)) as [x [Ex Hx]].
    { destruct Sh as [E0|[cs' [E0 Hi]]]; [exists []; rewrite app_nil_r; auto | eexists; split; [exact E0|right; eauto]]. }
    apply (Inv2_grow pcl r s' x _ _ _ _ HI H2 Ex).
    + intros ndm Hin. destruct Hx as [->|[cs' [-> Hi]]]; [destruct Hin|]. destruct Hin as [<-|[]]. split; [reflexivity|].
      intros c Hc. apply Vi. apply Hi. exact Hc.
    + simpl. intros c Hc. rewrite <- (inv_len _ _ HI). auto.
    + apply (kres_rvalid _ ics); [exact Kr|]. intros c Hc. eapply rvalid_mono; [apply Vi; exact Hc|].
      rewrite Ex, app_length. lia.
    + auto.
    + auto.
    + auto.
    + intros j Hj. left. exact Hj.
    + intros Hr. exfalso. pose proof (inv_rmut _ _ HI _ Hr). unfold ref_next in *. lia.
  - (* add_or *)
    destruct (rkeys (rmap r) cs) as [ics|] eqn:K; [|discriminate].
    destruct (add_or o (impl r) ics ro ph nm cp) as [[s' k]|] eqn:A; [|discriminate].
    injection H as <- <-.
    destruct (rkeys_spec _ _ _ K) as [V E]. unfold add_or in A.
    pose proof (rkeys_rvalid r cs ics H2 K) as Vi.
    assert (V' : forall c, In c cs -> rvalid (length (rg r)) c).
    { intros c Hc. rewrite <- (inv_len _ _ HI). auto. }
    destruct (add_compound_shape pcl o (impl r) (imut r) KDisj ics (ro && negb ph) nm ph cp s' k Hidx Him A) as [Sh Kr].
    destruct (add_compound_sound pcl o (impl r) (imut r) KDisj ics (ro && negb ph) nm ph cp s' k Hidx Him A) as [_ [_ [_ M]]].
    assert (exists x, sh s' = sh (impl r) ++ x /\ (x = [] \/ exists cs', x = [NDisj cs' None] /\ incl cs' ics)) as [x [Ex Hx]].
    { destruct Sh as [E0|[cs' [E0 Hi]]]; [exists []; rewrite app_nil_r; auto | eexists; split; [exact E0|right; eauto]]. }
    assert (Hxv : forall ndm, In ndm x -> x = [ndm] /\ forall c, In c (children ndm) -> rvalid (length (sh (impl r))) c).
    { intros ndm Hin. destruct Hx as [->|[cs' [-> Hi]]]; [destruct Hin|]. destruct Hin as [<-|[]]. split; [reflexivity|].
      intros c Hc. apply Vi. apply Hi. exact Hc. }
    assert (Hkv : rvalid (length (sh s')) k).
    { apply (kres_rvalid _ ics); [exact Kr|]. intros c Hc. eapply rvalid_mono; [apply Vi; exact Hc|].
      rewrite Ex, app_length. lia. }
    destruct (ro && negb ph) eqn:Ero.
    + apply (Inv2_grow pcl r s' x (NDisj cs None) _ _ _ HI H2 Ex Hxv V' Hkv).
      * auto.
      * auto.
      * auto.
      * intros j Hj. left. exact Hj.
      * intros Hr. exfalso. pose proof (inv_rmut _ _ HI _ Hr). unfold ref_next in *. lia.
    + destruct (M eq_refl eq_refl) as [[-> [Esh Hv]]|[[-> [Esh Hv]]|[c2 [-> [Esh [T Hv]]]]]].
      * simpl. apply (Inv2_grow pcl r s' x (NDisj cs None) _ _ _ HI H2 Ex Hxv V' Hkv).
        -- intros i Hi. right. exact Hi.
        -- intros i [<-|Hi]; [right; reflexivity | left; exact Hi].
        -- auto.
        -- intros j Hj. left. exact Hj.
        -- intros _ _ rcs Erc v. injection Erc as <-.
           pose proof (E KDisj v) as Ev. simpl in Ev. rewrite <- Ev. apply Hv.
      * apply (Inv2_grow pcl r s' x (NDisj cs None) _ _ _ HI H2 Ex Hxv V' Hkv).
        -- intros i Hi. right. exact Hi.
        -- intros i [<-|Hi]; [right; reflexivity | left; exact Hi].
        -- auto.
        -- intros j Hj. left. exact Hj.
        -- intros _ Ek. discriminate.
      * assert (next_index (impl r) =? 0 = false) as -> by (pose proof (next_index_pos (impl r)); lia).
        apply (Inv2_grow pcl r s' x (NDisj cs None) _ _ _ HI H2 Ex Hxv V' Hkv).
        -- intros i Hi. right. exact Hi.
        -- intros i [<-|Hi]; [right; reflexivity | left; exact Hi].
        -- intros j Hj. right. exact Hj.
        -- intros j [<-|Hj]; [right; split; [left; reflexivity | reflexivity] | left; exact Hj].
        -- intros _ Ek. injection Ek as Ek. pose proof (next_index_pos (impl r)). lia.
  - (* add_disjunct *)
    destruct k as [z|]; [|discriminate].
    destruct (z =? 0) eqn:Ez.
    { destruct (rkey (rmap r) c); [|discriminate]. injection H as <- <-. exact H2. }
    destruct (memz z (rmut r)) eqn:Em; [|discriminate].
    apply memz_In in Em.
    destruct (rkey (rmap r) (Some z)) as [ik|] eqn:Kz; [|discriminate].
    destruct (rkey (rmap r) c) as [ic|] eqn:Kc; [|discriminate].
    destruct (add_disjunct o (impl r) ik ic) as [[s' upd]|] eqn:A; [|discriminate].
    injection H as <- <-.
    pose proof (inv_rmut _ _ HI z Em) as [Pz Lz].
    apply rkey_pos in Kz; auto.
    pose proof (rkey_valid _ _ _ Kc) as Vc. rewrite (inv_len _ _ HI) in Vc.
    pose proof (rkey_rvalid r c ic H2 Kc) as Vic.
    replace (Z.to_nat (z - 1)) with (ix z) by reflexivity.
    assert (Lzn : (ix z < length (rg r))%nat) by (apply ix_lt_of_range; lia).
    (* facts about the changed reference graph, common to both sub-cases *)
    assert (Hother : forall rcs i, 0 < i -> i <> z ->
              nth_error (list_set (rg r) (ix z) (NDisj (rcs ++ [c]) None)) (ix i) = nth_error (rg r) (ix i)).
    { intros rcs i Pi Ne. apply nth_error_list_set_neq. intro E. apply ix_inj in E; auto. }
    destruct (inv_mut _ _ HI z Em) as [[[Ka|Ka] [B [rcs C]]]|[j [cs0 [rcs [Ka [Bj [Cj [D [E F]]]]]]]]];
      rewrite Ka in Kz; injection Kz as <-.
    + (* folded to TRUE: the model does not change *)
      simpl in A. injection A as <- <-. rewrite C.
      constructor; simpl.
      * apply (i2_ro_small _ H2).
      * apply (i2_valid _ H2).
      * apply (i2_owned _ H2).
      * intros i nd0 Pi Hni Hn. assert (i <> z) by (intro; subst; contradiction).
        rewrite Hother in Hn by assumption. apply (i2_r_small _ H2 i nd0 Pi Hni Hn).
      * intros i rcs' Hi Hn Hm. destruct (Z.eq_dec i z) as [->|Ne].
        -- rewrite nth_error_list_set_eq in Hn by exact Lzn. injection Hn as <-.
           destruct (i2_r_true _ H2 z rcs Em C Ka) as [rcs0 [rcs1 [E0 [V0 T0]]]].
           exists rcs0, (rcs1 ++ [c]). split; [rewrite E0, app_assoc; reflexivity | auto].
        -- pose proof (inv_rmut _ _ HI i Hi) as [Pi _]. rewrite Hother in Hn by assumption.
           apply (i2_r_true _ H2 i rcs' Hi Hn Hm).
      * intros i rcs' Hi Hn Hm. destruct (Z.eq_dec i z) as [->|Ne]; [rewrite Ka in Hm; discriminate|].
        pose proof (inv_rmut _ _ HI i Hi) as [Pi _]. rewrite Hother in Hn by assumption.
        apply (i2_r_false _ H2 i rcs' Hi Hn Hm).
      * apply (i2_rmap _ H2).
    + simpl in A. discriminate.
    + (* a genuine mutable node *)
      rewrite D.
      pose proof (inv_imut _ _ HI j Bj) as [Pj Lj].
      assert (Hcs0 : forall c0, In c0 cs0 -> rvalid (length (sh (impl r))) c0).
      { intros c0 Hc0. apply (i2_valid _ H2 (ix j) _ Cj c0 Hc0). }
      (* the reference side is the same in the two sub-cases *)
      assert (Ref : forall s1, (length (sh (impl r)) <= length (sh s1))%nat ->
                (forall j' nd0, 0 < j' -> nth_error (sh s1) (ix j') = Some nd0 -> ~ In j' (imut r) ->
                   forall c0, In c0 (children nd0) -> rvalid (ix j') c0) ->
                (forall n nd0, nth_error (sh s1) n = Some nd0 -> forall c0, In c0 (children nd0) -> rvalid (length (sh s1)) c0) ->
                Inv2 (mkR s1 (list_set (rg r) (ix z) (NDisj (rcs ++ [c]) None)) (rmut r) (rmap r) (imut r))).
      { intros s1 LM Ha Hb. constructor; simpl.
        - exact Ha.
        - exact Hb.
        - apply (i2_owned _ H2).
        - intros i nd0 Pi Hni Hn. assert (i <> z) by (intro; subst; contradiction).
          rewrite Hother in Hn by assumption. apply (i2_r_small _ H2 i nd0 Pi Hni Hn).
        - intros i rcs' Hi Hn Hm. destruct (Z.eq_dec i z) as [->|Ne].
          + rewrite Ka in Hm. injection Hm as Hm. lia.
          + pose proof (inv_rmut _ _ HI i Hi) as [Pi _]. rewrite Hother in Hn by assumption.
            apply (i2_r_true _ H2 i rcs' Hi Hn Hm).
        - intros i rcs' Hi Hn Hm. destruct (Z.eq_dec i z) as [->|Ne]; [rewrite Ka in Hm; discriminate|].
          pose proof (inv_rmut _ _ HI i Hi) as [Pi _]. rewrite Hother in Hn by assumption.
          apply (i2_r_false _ H2 i rcs' Hi Hn Hm).
        - intros n k0 Hn. eapply rvalid_mono; [apply (i2_rmap _ H2 n k0 Hn) | exact LM]. }
      destruct (add_disjunct_shape pcl o (impl r) (imut r) j cs0 ic s' upd Hidx Him Bj Cj A)
        as [Esame|[x [cs'' [Hx [Es' Hcs'']]]]].
      * apply Ref; rewrite ?Esame; [lia | apply (i2_ro_small _ H2) | apply (i2_valid _ H2)].
      * assert (Lx : length (sh s') = length (sh (impl r) ++ x)) by (rewrite Es', list_set_length; reflexivity).
        assert (LM : (length (sh (impl r)) <= length (sh s'))%nat) by (rewrite Lx, app_length; lia).
        assert (Hxv : forall ndm, In ndm x -> x = [ndm] /\ forall c0, In c0 (children ndm) -> rvalid (length (sh (impl r))) c0).
        { intros ndm Hin. destruct Hx as [->|[cs' [-> Hi]]]; [destruct Hin|]. destruct Hin as [<-|[]]. split; [reflexivity|].
          intros c0 Hc0. apply Hcs0. apply Hi. exact Hc0. }
        assert (Hcs''v : forall c0, In c0 cs'' -> rvalid (length (sh s')) c0).
        { intros c0 Hc0. destruct (Hcs'' c0 Hc0) as [K|[->|K]].
          - eapply rvalid_mono; [apply Hcs0; exact K | exact LM].
          - eapply rvalid_mono; [exact Vic | exact LM].
          - rewrite Lx. apply (kres_rvalid _ cs0); [exact K|]. intros c1 Hc1.
            eapply rvalid_mono; [apply Hcs0; exact Hc1|]. rewrite app_length. lia. }
        apply Ref; [exact LM| |].
        -- intros j' nd0 Pj' Hn Hni c0 Hc0. rewrite Es' in Hn.
           assert (j' <> j) by (intro; subst; contradiction).
           rewrite nth_error_list_set_neq in Hn by (intro Eix; apply ix_inj in Eix; auto).
           destruct (Nat.lt_ge_cases (ix j') (length (sh (impl r)))) as [L|L].
           ++ rewrite nth_error_app1 in Hn by exact L. apply (i2_ro_small _ H2 j' nd0 Pj' Hn Hni c0 Hc0).
           ++ rewrite nth_error_app2 in Hn by exact L.
              assert (In nd0 x) as Hin by (eapply nth_error_In; eauto).
              destruct (Hxv nd0 Hin) as [Ex Hch]. rewrite Ex in Hn.
              destruct (ix j' - length (sh (impl r)))%nat as [|m] eqn:E1; simpl in Hn; [|destruct m; discriminate].
              assert (ix j' = length (sh (impl r))) as -> by lia. apply Hch. exact Hc0.
        -- intros n nd0 Hn c0 Hc0. rewrite Es' in Hn.
           destruct (Nat.eq_dec n (ix j)) as [->|Ne].
           ++ rewrite nth_error_list_set_eq in Hn by (rewrite app_length; pose proof (ix_lt_of_range j _ (conj Pj Lj)); lia).
              injection Hn as <-. apply Hcs''v. exact Hc0.
           ++ rewrite nth_error_list_set_neq in Hn by congruence.
              destruct (Nat.lt_ge_cases n (length (sh (impl r)))) as [L|L].
              ** rewrite nth_error_app1 in Hn by exact L.
                 eapply rvalid_mono; [apply (i2_valid _ H2 n nd0 Hn c0 Hc0) | exact LM].
              ** rewrite nth_error_app2 in Hn by exact L.
                 assert (In nd0 x) as Hin by (eapply nth_error_In; eauto).
                 destruct (Hxv nd0 Hin) as [_ Hch]. eapply rvalid_mono; [apply Hch; exact Hc0 | exact LM].
  - (* add_name *)
    destruct (rkey (rmap r) k) as [ik|]; [|discriminate].
    destruct (add_name (impl r) nm ik keep) as [s'|] eqn:A; [|discriminate].
    injection H as <- <-.
    apply add_name_spec in A. destruct A as [E T]. apply Inv2_same_sh; assumption.
Qed.

Lemma run_inv2 : forall o pcl ops r r', Inv pcl r -> Inv2 r -> run o pcl r ops = Ok r' -> Inv2 r'.
Proof.
  intros o pcl ops. induction ops as [|x t IH]; intros r r' HI H2 H; simpl in H.
  - injection H as <-. exact H2.
  - destruct (step o pcl r x) as [[r1 rv]| |] eqn:S; try discriminate.
    destruct (step_inv o pcl r x r1 rv HI S) as [I1 _].
    apply (IH r1 r' I1 (step_inv2 o pcl r x r1 rv HI H2 S) H).
Qed.
