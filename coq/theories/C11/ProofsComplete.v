(* C11 — completeness of the builder: every supported valuation of the reference graph is realised by a
   supported valuation of the builder's graph (read through the returned keys), for ALL histories and
   options; consequence: the least supported valuations of the two graphs agree on every returned key. *)
From Coq Require Import ZArith List Bool Lia.
From PL.C11 Require Import ModelBuilder ProofsBasics ProofsBuilder ProofsInv ProofsStep ProofsSem
                           ProofsCompleteShape ProofsCompleteInv.
Import ListNotations.
Open Scope Z_scope.

(* ------------------------------------------------------------ the read-only equations always have a solution *)
(* given any values mv for the mutable nodes, the read-only nodes (children with smaller index) can be
   evaluated in index order *)
Lemma rsol_exists : forall a (mv : Z -> bool) im g,
  (forall j nd, 0 < j -> nth_error g (ix j) = Some nd -> ~ In j im ->
     forall c, In c (children nd) -> rvalid (ix j) c) ->
  exists v, rsol a g im v /\ forall j, In j im -> v j = mv j.
Proof.
  intros a mv im g. induction g as [|nd g IH] using rev_ind; intro Hsm.
  - exists mv. split; [|reflexivity]. intros j nd _ H. destruct (ix j); discriminate.
  - assert (Hsm' : forall j nd0, 0 < j -> nth_error g (ix j) = Some nd0 -> ~ In j im ->
              forall c, In c (children nd0) -> rvalid (ix j) c).
    { intros j nd0 Pj Hn. apply Hsm; [exact Pj|]. rewrite nth_error_app1; [exact Hn | eapply nth_error_lt; eauto]. }
    destruct (IH Hsm') as [v [Hr Hm]].
    set (n := length g). set (jn := Z.of_nat n + 1).
    destruct (in_dec Z.eq_dec jn im) as [Hin|Hni].
    + exists v. split; [|exact Hm]. intros j nd0 Pj Hn Hnj.
      apply nth_app_last in Hn. destruct Hn as [[_ Hn]|[E _]]; [apply Hr; auto|].
      exfalso. apply Hnj. replace j with jn; [exact Hin|]. unfold jn, n, ix in *. lia.
    + set (v' := fun j => if j =? jn then eval_node a v nd else v j).
      assert (Agree : forall nd0 m, (m <= n)%nat -> (forall c, In c (children nd0) -> rvalid m c) ->
                eval_node a v' nd0 = eval_node a v nd0).
      { intros nd0 m Lm Hc. apply eval_ext_in. intros c Hcin. apply (vkey_agree v' v m c (Hc c Hcin)).
        intros y Hy. unfold v'. assert (Z.of_nat y + 1 =? jn = false) as -> by (unfold jn; lia). reflexivity. }
      exists v'. split.
      * intros j nd0 Pj Hn Hnj. pose proof Hn as Hn0.
        apply nth_app_last in Hn. destruct Hn as [[L Hn]|[E ->]].
        -- unfold v' at 1. assert (j =? jn = false) as -> by (unfold jn, n, ix in *; lia).
           rewrite (Hr j nd0 Pj Hn Hnj). symmetry. apply (Agree nd0 (ix j)); [unfold n; lia|].
           apply (Hsm j nd0 Pj Hn0 Hnj).
        -- assert (j = jn) as -> by (unfold jn, n, ix in *; lia).
           unfold v' at 1. rewrite Z.eqb_refl. symmetry. apply (Agree nd n); [lia|].
           intros c Hc. pose proof (Hsm jn nd Pj Hn0 Hnj c Hc) as K.
           replace (ix jn) with n in K by (unfold jn, ix; lia). exact K.
      * intros j Hj. unfold v'. assert (j =? jn = false) as ->; [|apply Hm; exact Hj].
        apply Z.eqb_neq. intro E. subst j. contradiction.
Qed.

(* ------------------------------------------------------------ the owner of a mutable model node *)
Definition owns (rm : list key) (j : Z) (i : Z) : bool :=
  match nth_error rm (ix i) with Some (Some y) => y =? j | _ => false end.
Definition mutval (r : rstate) (w : Z -> bool) (j : Z) : bool :=
  match find (owns (rmap r) j) (rmut r) with Some i => w i | None => false end.

Lemma mutval_owner : forall r w i j, In i (rmut r) -> nth_error (rmap r) (ix i) = Some (Some j) ->
  (forall i', In i' (rmut r) -> nth_error (rmap r) (ix i') = Some (Some j) -> i' = i) ->
  mutval r w j = w i.
Proof.
  intros r w i j Hi Hm F. unfold mutval.
  destruct (find (owns (rmap r) j) (rmut r)) as [i'|] eqn:E.
  - apply find_some in E. destruct E as [Hi' Ho]. unfold owns in Ho.
    destruct (nth_error (rmap r) (ix i')) as [[y|]|] eqn:N; try discriminate.
    apply Z.eqb_eq in Ho. subst y. rewrite (F i' Hi' N). reflexivity.
  - exfalso. pose proof (find_none _ _ E i Hi) as K. unfold owns in K. rewrite Hm, Z.eqb_refl in K. discriminate.
Qed.

(* ------------------------------------------------------------ completeness *)
Theorem Inv_complete : forall pcl r, Inv pcl r -> Inv2 r ->
  forall a w, sol a (rg r) w ->
  exists v, sol a (nodes (impl r)) v /\
            forall n, (n < length (rg r))%nat -> pull (rmap r) v (Z.of_nat n + 1) = w (Z.of_nat n + 1).
Proof.
  intros pcl r HI H2 a w Sw.
  destruct (rsol_exists a (mutval r w) (imut r) (sh (impl r)) (i2_ro_small _ H2)) as [v [Hr Hm]].
  (* a mutable model node carries the value of its owner *)
  assert (Own : forall i j, In i (rmut r) -> nth_error (rmap r) (ix i) = Some (Some j) -> In j (imut r) ->
            (forall i', In i' (rmut r) -> nth_error (rmap r) (ix i') = Some (Some j) -> i' = i) -> v j = w i).
  { intros i j Hi Hmi Hj F. rewrite (Hm j Hj). apply (mutval_owner r w i j Hi Hmi F). }
  (* the pulled valuation is w, by induction on the creation order of the reference nodes *)
  assert (P : forall n, (n < length (rg r))%nat -> pull (rmap r) v (Z.of_nat n + 1) = w (Z.of_nat n + 1)).
  { induction n as [n IH] using lt_wf_ind. intro Ln.
    set (i := Z.of_nat n + 1).
    assert (Pi : 0 < i) by (unfold i; lia).
    assert (Ei : ix i = n) by (unfold i; apply ix_succ_len).
    destruct (nth_error (rg r) n) as [nd|] eqn:Hn; [|apply nth_error_None in Hn; lia].
    destruct (nth_error (rmap r) n) as [ik|] eqn:Hk; [|apply nth_error_None in Hk; rewrite (inv_len _ _ HI) in Hk; lia].
    assert (Hp : pull (rmap r) v i = vkey v ik).
    { unfold pull. replace (Z.to_nat (i - 1)) with n by (unfold i; lia). rewrite Hk. reflexivity. }
    pose proof (Sw n nd Hn) as Swn. fold i in Swn. rewrite Hp, Swn.
    assert (Below : forall c, rvalid n c -> vkey (pull (rmap r) v) c = vkey w c).
    { intros c Hc. apply (vkey_agree _ _ n c Hc). intros m Lm. apply IH; [exact Lm | lia]. }
    destruct (in_dec Z.eq_dec i (rmut r)) as [Hin|Hni].
    - destruct (inv_mut _ _ HI i Hin) as [[Ka [B [rcs C]]]|[j [cs [rcs [A [Bj [Cj [D [E F]]]]]]]]].
      + rewrite Ei in *. rewrite Hn in C. injection C as ->. destruct Ka as [Ka|Ka]; rewrite Hk in Ka; injection Ka as ->.
        * (* folded to TRUE *)
          assert (nth_error (rmap r) (ix i) = Some (Some 0)) as Hk' by (rewrite Ei; exact Hk).
          assert (nth_error (rg r) (ix i) = Some (NDisj rcs None)) as Hn' by (rewrite Ei; exact Hn).
          destruct (i2_r_true _ H2 i rcs Hin Hn' Hk') as [rcs0 [rcs1 [E0 [V0 T0]]]].
          simpl. rewrite E0, existsb_app. rewrite Ei in V0.
          assert (existsb (vkey w) rcs0 = true) as ->; [|reflexivity].
          rewrite <- (T0 v). symmetry.
          change (ev KDisj (pull (rmap r) v) rcs0 = ev KDisj w rcs0). apply ev_ext_in. intros c Hc. apply Below. apply V0. exact Hc.
        * (* folded to FALSE *)
          assert (nth_error (rmap r) (ix i) = Some None) as Hk' by (rewrite Ei; exact Hk).
          assert (nth_error (rg r) (ix i) = Some (NDisj rcs None)) as Hn' by (rewrite Ei; exact Hn).
          pose proof (i2_r_false _ H2 i rcs Hin Hn' Hk') as V0. rewrite Ei in V0.
          rewrite (B _ _ Hn' Hk' a v Hr). apply eval_ext_in. intros c Hc. apply Below. apply V0. exact Hc.
      + rewrite Ei in A, D. rewrite Hk in A. injection A as ->. rewrite Hn in D. injection D as ->.
        pose proof (inv_imut _ _ HI j Bj) as [Pj _].
        simpl vkey. assert (j =? 0 = false) as -> by lia. assert (j >? 0 = true) as -> by lia.
        rewrite <- Swn. apply (Own i j Hin); [rewrite Ei; exact Hk | exact Bj | exact F].
    - assert (nth_error (rmap r) (ix i) = Some ik) as Hk' by (rewrite Ei; exact Hk).
      assert (nth_error (rg r) (ix i) = Some nd) as Hn' by (rewrite Ei; exact Hn).
      rewrite (inv_ro _ _ HI i Pi Hni nd ik Hn' Hk' a v Hr).
      apply eval_ext_in. intros c Hc. apply Below.
      pose proof (i2_r_small _ H2 i nd Pi Hni Hn' c Hc) as K. rewrite Ei in K. exact K. }
  exists v. split; [|exact P].
  apply sol_sh. intros n nd Hn.
  set (j := Z.of_nat n + 1).
  assert (Pj : 0 < j) by (unfold j; lia).
  assert (Ej : ix j = n) by (unfold j; apply ix_succ_len).
  destruct (in_dec Z.eq_dec j (imut r)) as [Hin|Hni]; [|apply (Hr j nd Pj); [rewrite Ej; exact Hn | exact Hni]].
  destruct (i2_owned _ H2 j Hin) as [i [Hi Hmi]].
  destruct (inv_mut _ _ HI i Hi) as [[[Ka|Ka] _]|[j' [cs [rcs [A [Bj [Cj [D [E F]]]]]]]]];
    try (rewrite Ka in Hmi; injection Hmi as Hmi; lia); try (rewrite Ka in Hmi; discriminate).
  rewrite A in Hmi. injection Hmi as ->.
  rewrite Ej in Cj. rewrite Hn in Cj. injection Cj as ->.
  rewrite (Own i j Hi A Hin F).
  pose proof (inv_rmut _ _ HI i Hi) as Ri.
  assert (Li : (ix i < length (rg r))%nat) by (apply ix_lt_of_range; exact Ri).
  pose proof (Sw (ix i) _ D) as Swi. replace (Z.of_nat (ix i) + 1) with i in Swi by (unfold ix; lia).
  rewrite Swi. simpl. rewrite (E a v Hr).
  change (ev KDisj w rcs = ev KDisj (pull (rmap r) v) rcs). apply ev_ext_in. intros c Hc. symmetry.
  apply (vkey_agree _ _ (length (rg r)) c (inv_rchild _ _ HI (ix i) _ D c Hc)). exact P.
Qed.

Theorem builder_complete : forall o pcl ops r, run o pcl init ops = Ok r ->
  forall a w, sol a (rg r) w ->
  exists v, sol a (nodes (impl r)) v /\
            forall n, (n < length (rg r))%nat -> pull (rmap r) v (Z.of_nat n + 1) = w (Z.of_nat n + 1).
Proof.
  intros o pcl ops r H.
  destruct (run_inv o pcl ops init r (Inv_init pcl) H) as [I _].
  pose proof (run_inv2 o pcl ops init r (Inv_init pcl) Inv2_init H) as I2.
  apply (Inv_complete pcl r I I2).
Qed.

(* the builder's graph always has a supported valuation when the reference graph has one, and the returned
   keys then take exactly the reference values: soundness is not vacuous *)

(* ------------------------------------------------------------ least supported valuations *)
Definition least_sol (a : Z -> bool) (g : list node) (V : Z -> bool) : Prop :=
  sol a g V /\ forall u, sol a g u -> forall j, 0 < j <= Z.of_nat (length g) -> V j = true -> u j = true.

Definition atom_at (g : list node) (j : Z) : Prop :=
  exists id pc nm, nth_error g (ix j) = Some (NAtom id pc nm).
(* a key that, when negative, negates an atom node *)
Definition katom (g : list node) (c : key) : Prop :=
  match c with Some z => z < 0 -> atom_at g (- z) | None => True end.
(* negation on atoms only: the equations are monotone *)
Definition natomic (g : list node) : Prop :=
  forall n nd, nth_error g n = Some nd -> forall c, In c (children nd) -> katom g c.

Lemma sol_atom : forall a g u1 u2 j, sol a g u1 -> sol a g u2 -> 0 < j -> atom_at g j -> u1 j = u2 j.
Proof.
  intros a g u1 u2 j S1 S2 Pj [id [pc [nm H]]].
  pose proof (S1 _ _ H) as A. pose proof (S2 _ _ H) as B.
  replace (Z.of_nat (ix j) + 1) with j in A, B by (unfold ix; lia). rewrite A, B. reflexivity.
Qed.

Lemma vkey_mono : forall a g V u k, sol a g V -> sol a g u -> katom g k -> rvalid (length g) k ->
  (forall j, 0 < j <= Z.of_nat (length g) -> V j = true -> u j = true) ->
  vkey V k = true -> vkey u k = true.
Proof.
  intros a g V u [z|] SV Su Hk Hv Hle H; simpl in *; [|exact H].
  destruct (z =? 0) eqn:E0; [reflexivity|]. apply Z.eqb_neq in E0.
  destruct (z >? 0) eqn:E1.
  - apply Hle; [lia | exact H].
  - rewrite <- (sol_atom a g V u (- z) SV Su); [exact H | lia | apply Hk; lia].
Qed.

Theorem Inv_least_equal : forall pcl r, Inv pcl r -> Inv2 r ->
  (forall n k, nth_error (rmap r) n = Some k -> katom (nodes (impl r)) k) ->
  forall a V W, least_sol a (nodes (impl r)) V -> least_sol a (rg r) W ->
  forall n ik, nth_error (rmap r) n = Some ik -> vkey V ik = W (Z.of_nat n + 1).
Proof.
  intros pcl r HI H2 Hka a V W [SV LV] [SW LW] n ik Hk.
  assert (Ln : (n < length (rg r))%nat) by (rewrite <- (inv_len _ _ HI); eapply nth_error_lt; eauto).
  assert (Hp : forall v, pull (rmap r) v (Z.of_nat n + 1) = vkey v ik).
  { intro v. unfold pull. replace (Z.to_nat (Z.of_nat n + 1 - 1)) with n by lia. rewrite Hk. reflexivity. }
  destruct (Inv_complete pcl r HI H2 a W SW) as [v [Sv Pv]].
  pose proof (Inv_sound pcl r HI a V SV) as SpV.
  apply eq_iff_eq_true. split; intro H.
  - rewrite <- (Pv n Ln), Hp.
    apply (vkey_mono a (nodes (impl r)) V v ik SV Sv (Hka n ik Hk)); [|apply (LV v Sv)|exact H].
    rewrite <- sh_length. apply (i2_rmap _ H2 n ik Hk).
  - rewrite <- Hp. apply (LW _ SpV); [lia | exact H].
Qed.
