(* C11 — least supported valuations exist and are computed by a Kleene iteration, for graphs in which
   negative keys only point at atom nodes (`natomic`).
   The iteration `kleeneN` reads a negated atom from the atom's definition (ModelBuilder.kleene reads it
   from the previous iterate, which is all-false at the start: with a negated atom inside a cycle that
   iteration oscillates, see Props.C11_lfp_val_negated_atom).  For graphs without negative keys the two
   iterations coincide. *)
From Coq Require Import ZArith List Bool Lia.
From PL.C11 Require Import ModelBuilder ProofsBasics ProofsBuilder ProofsInv ProofsStep ProofsSem
                           ProofsCompleteShape ProofsCompleteInv ProofsComplete.
Import ListNotations.
Open Scope Z_scope.

Lemma forallb_ext_list : forall (X : Type) (f h : X -> bool) l, (forall x, In x l -> f x = h x) -> forallb f l = forallb h l.
Proof.
  intros X f h l. induction l as [|x l IH]; simpl; intro H; [reflexivity|].
  rewrite (H x (or_introl eq_refl)), IH; [reflexivity|]. intros y Hy. apply H. right. exact Hy.
Qed.
Lemma existsb_ext_list : forall (X : Type) (f h : X -> bool) l, (forall x, In x l -> f x = h x) -> existsb f l = existsb h l.
Proof.
  intros X f h l. induction l as [|x l IH]; simpl; intro H; [reflexivity|].
  rewrite (H x (or_introl eq_refl)), IH; [reflexivity|]. intros y Hy. apply H. right. exact Hy.
Qed.
Arguments forallb_ext_list {X}.
Arguments existsb_ext_list {X}.

Lemma flt_len_le : forall (X : Type) (p : X -> bool) l, (length (filter p l) <= length l)%nat.
Proof. intros X p l. induction l as [|x l IH]; simpl; [lia|]. destruct (p x); simpl; lia. Qed.

Lemma flt_len_le2 : forall (X : Type) (p q : X -> bool) l,
  (forall x, In x l -> p x = true -> q x = true) -> (length (filter p l) <= length (filter q l))%nat.
Proof.
  intros X p q l. induction l as [|x l IH]; simpl; intro H; [lia|].
  assert (length (filter p l) <= length (filter q l))%nat as K by (apply IH; intros; apply H; auto).
  destruct (p x) eqn:Ep.
  - rewrite (H x (or_introl eq_refl) Ep). simpl. lia.
  - destruct (q x); simpl; lia.
Qed.

Lemma flt_len_lt : forall (X : Type) (p q : X -> bool) l c,
  (forall x, In x l -> p x = true -> q x = true) -> In c l -> q c = true -> p c = false ->
  (length (filter p l) < length (filter q l))%nat.
Proof.
  intros X p q l c. induction l as [|x l IH]; simpl; intros H Hc Hq Hp; [contradiction|].
  assert (forall y, In y l -> p y = true -> q y = true) as H' by (intros; apply H; auto).
  destruct Hc as [E|Hc].
  - subst x. rewrite Hp, Hq. simpl. pose proof (flt_len_le2 X p q l H'). lia.
  - specialize (IH H' Hc Hq Hp). destruct (p x) eqn:Ep.
    + rewrite (H x (or_introl eq_refl) Ep). simpl. lia.
    + destruct (q x); simpl; lia.
Qed.

Definition pcval (a : Z -> bool) (id : Z) (pc : pclass) : bool :=
  match pc with PTrue => true | PFalse => false | PProb => a id end.
Definition atomval (a : Z -> bool) (g : list node) (j : Z) : bool :=
  match nth_error g (ix j) with Some (NAtom id pc _) => pcval a id pc | _ => false end.
Definition vkeyN (a : Z -> bool) (g : list node) (v : Z -> bool) (k : key) : bool :=
  match k with
  | None => false
  | Some z => if z =? 0 then true else if z >? 0 then v z else negb (atomval a g (- z))
  end.
Definition evalN (a : Z -> bool) (g : list node) (v : Z -> bool) (n : node) : bool :=
  match n with
  | NAtom id pc _ => pcval a id pc
  | NConj cs _ => forallb (vkeyN a g v) cs
  | NDisj cs _ => existsb (vkeyN a g v) cs
  end.
Definition kstepN (a : Z -> bool) (g : list node) (v : Z -> bool) : Z -> bool :=
  fun i => if i >? 0 then match nth_error g (ix i) with
                          | Some nd => evalN a g v nd
                          | None => false
                          end
           else false.
Fixpoint kleeneN (n : nat) (a : Z -> bool) (g : list node) : Z -> bool :=
  match n with
  | O => fun _ => false
  | S n' => kstepN a g (kleeneN n' a g)
  end.
Definition lfpN (a : Z -> bool) (g : list node) : Z -> bool := kleeneN (S (length g)) a g.

Definition le (v u : Z -> bool) : Prop := forall j, v j = true -> u j = true.

Section K.
Variable a : Z -> bool.
Variable g : list node.

Lemma vkeyN_mono : forall v u k, le v u -> vkeyN a g v k = true -> vkeyN a g u k = true.
Proof.
  intros v u [z|] H; simpl; [|auto]. destruct (z =? 0); [auto|]. destruct (z >? 0); [apply H | auto].
Qed.

Lemma evalN_mono : forall v u nd, le v u -> evalN a g v nd = true -> evalN a g u nd = true.
Proof.
  intros v u [id pc nm|cs nm|cs nm] H; simpl; [auto| |].
  - rewrite !forallb_forall. intros K c Hc. apply (vkeyN_mono v u c H). apply K. exact Hc.
  - rewrite !existsb_exists. intros [c [Hc K]]. exists c. split; [exact Hc | apply (vkeyN_mono v u c H K)].
Qed.

Lemma kstepN_mono : forall v u, le v u -> le (kstepN a g v) (kstepN a g u).
Proof.
  intros v u H j. unfold kstepN. destruct (j >? 0); [|auto].
  destruct (nth_error g (ix j)) as [nd|]; [apply evalN_mono; exact H | auto].
Qed.

Lemma vkeyN_ext : forall v u k, (forall j, v j = u j) -> vkeyN a g v k = vkeyN a g u k.
Proof. intros v u [z|] H; simpl; [|reflexivity]. rewrite H. reflexivity. Qed.

Lemma evalN_ext : forall v u nd, (forall j, v j = u j) -> evalN a g v nd = evalN a g u nd.
Proof.
  intros v u [id pc nm|cs nm|cs nm] H; simpl; [reflexivity| |].
  - apply forallb_ext_list. intros c _. apply vkeyN_ext. exact H.
  - apply existsb_ext_list. intros c _. apply vkeyN_ext. exact H.
Qed.

Lemma kstepN_ext : forall v u, (forall j, v j = u j) -> forall j, kstepN a g v j = kstepN a g u j.
Proof.
  intros v u H j. unfold kstepN. destruct (j >? 0); [|reflexivity].
  destruct (nth_error g (ix j)); [apply evalN_ext; exact H | reflexivity].
Qed.

Lemma kleeneN_chain : forall n, le (kleeneN n a g) (kleeneN (S n) a g).
Proof.
  induction n as [|n IH]; [intros j H; discriminate|].
  change (le (kstepN a g (kleeneN n a g)) (kstepN a g (kleeneN (S n) a g))). apply kstepN_mono. exact IH.
Qed.

Lemma kleeneN_range : forall n j, kleeneN n a g j = true -> 0 < j <= Z.of_nat (length g).
Proof.
  intros [|n] j H; simpl in H; [discriminate|]. unfold kstepN in H.
  destruct (j >? 0) eqn:E; [|discriminate].
  destruct (nth_error g (ix j)) eqn:N; [|discriminate]. apply nth_error_lt in N. unfold ix in N. lia.
Qed.

(* ---------------------------------------------------------- the chain is stationary after |g| + 1 steps *)
Definition tr (n : nat) (m : nat) : bool := kleeneN n a g (Z.of_nat m + 1).
Definition cntT (n : nat) : nat := length (filter (tr n) (seq 0 (length g))).
Definition grew (n : nat) : bool := existsb (fun m => tr (S n) m && negb (tr n m)) (seq 0 (length g)).

Lemma cntT_le : forall n, (cntT n <= length g)%nat.
Proof. intro n. unfold cntT. rewrite <- (seq_length (length g) 0) at 2. apply flt_len_le. Qed.

Lemma grew_false : forall n, grew n = false -> forall j, kleeneN (S n) a g j = kleeneN n a g j.
Proof.
  intros n H j. destruct (kleeneN n a g j) eqn:E1; [apply kleeneN_chain; exact E1|].
  destruct (kleeneN (S n) a g j) eqn:E2; [|reflexivity]. exfalso.
  pose proof (kleeneN_range (S n) j E2) as R.
  assert (grew n = true) as K; [|congruence].
  unfold grew. apply existsb_exists. exists (ix j). split; [apply in_seq; unfold ix; lia|].
  unfold tr. replace (Z.of_nat (ix j) + 1) with j by (unfold ix; lia). rewrite E1, E2. reflexivity.
Qed.

Lemma grew_true : forall n, grew n = true -> (cntT n < cntT (S n))%nat.
Proof.
  intros n H. unfold grew in H. apply existsb_exists in H. destruct H as [m [Hm K]].
  apply andb_true_iff in K. destruct K as [K1 K2]. apply negb_true_iff in K2.
  unfold cntT. apply (flt_len_lt nat (tr n) (tr (S n)) _ m); [|exact Hm|exact K1|exact K2].
  intros y _ Hy. unfold tr in *. apply kleeneN_chain. exact Hy.
Qed.

Lemma stationary_or_count : forall n,
  (exists k, (k <= n)%nat /\ forall j, kleeneN (S k) a g j = kleeneN k a g j) \/ (n <= cntT n)%nat.
Proof.
  induction n as [|n IH]; [right; lia|].
  destruct IH as [[k [Lk Hk]]|Hc]; [left; exists k; split; [lia | exact Hk]|].
  destruct (grew n) eqn:G.
  - right. pose proof (grew_true n G). lia.
  - left. exists n. split; [lia | apply grew_false; exact G].
Qed.

Lemma stationary_from : forall k, (forall j, kleeneN (S k) a g j = kleeneN k a g j) ->
  forall m j, kleeneN (m + k) a g j = kleeneN k a g j.
Proof.
  intros k Hk m. induction m as [|m IH]; intro j; [reflexivity|].
  change (kstepN a g (kleeneN (m + k) a g) j = kleeneN k a g j).
  rewrite (kstepN_ext _ _ IH j). apply Hk.
Qed.

Theorem lfpN_fixpoint : forall j, kstepN a g (lfpN a g) j = lfpN a g j.
Proof.
  intro j. unfold lfpN.
  destruct (stationary_or_count (S (length g))) as [[k [Lk Hk]]|Hc]; [|pose proof (cntT_le (S (length g))); lia].
  assert (St : forall n, (k <= n)%nat -> kleeneN n a g j = kleeneN k a g j).
  { intros n Ln. pose proof (stationary_from k Hk (n - k) j) as K.
    replace (n - k + k)%nat with n in K by lia. exact K. }
  change (kleeneN (S (S (length g))) a g j = kleeneN (S (length g)) a g j).
  rewrite (St (S (S (length g)))) by lia. rewrite (St (S (length g))) by lia. reflexivity.
Qed.

(* ---------------------------------------------------------- fixpoints of kstepN vs supported valuations *)
Lemma atom_value : forall V j, (forall i nd, nth_error g i = Some nd -> V (Z.of_nat i + 1) = evalN a g V nd) ->
  0 < j -> atom_at g j -> V j = atomval a g j.
Proof.
  intros V j HV Pj [id [pc [nm H]]]. pose proof (HV _ _ H) as K.
  replace (Z.of_nat (ix j) + 1) with j in K by (unfold ix; lia). rewrite K. unfold atomval. rewrite H. reflexivity.
Qed.

Lemma atom_value_sol : forall u j, sol a g u -> 0 < j -> atom_at g j -> u j = atomval a g j.
Proof.
  intros u j Su Pj [id [pc [nm H]]]. pose proof (Su _ _ H) as K.
  replace (Z.of_nat (ix j) + 1) with j in K by (unfold ix; lia). rewrite K. unfold atomval. rewrite H. reflexivity.
Qed.

Lemma vkeyN_vkey : forall V c, (forall j, 0 < j -> atom_at g j -> V j = atomval a g j) -> katom g c ->
  vkeyN a g V c = vkey V c.
Proof.
  intros V [z|] HA Hc; simpl in *; [|reflexivity].
  destruct (z =? 0) eqn:E0; [reflexivity|]. apply Z.eqb_neq in E0.
  destruct (z >? 0) eqn:E1; [reflexivity|]. f_equal. symmetry. apply HA; [lia | apply Hc; lia].
Qed.

Lemma evalN_eval : forall V nd, (forall j, 0 < j -> atom_at g j -> V j = atomval a g j) ->
  (forall c, In c (children nd) -> katom g c) -> evalN a g V nd = eval_node a V nd.
Proof.
  intros V [id pc nm|cs nm|cs nm] HA Hc; simpl in *; [destruct pc; reflexivity| |].
  - apply forallb_ext_list. intros c Hin. apply vkeyN_vkey; auto.
  - apply existsb_ext_list. intros c Hin. apply vkeyN_vkey; auto.
Qed.

Hypothesis Hnat : natomic g.

Theorem lfpN_sol : sol a g (lfpN a g).
Proof.
  assert (F : forall i nd, nth_error g i = Some nd -> lfpN a g (Z.of_nat i + 1) = evalN a g (lfpN a g) nd).
  { intros i nd H. rewrite <- lfpN_fixpoint. unfold kstepN.
    assert (Z.of_nat i + 1 >? 0 = true) as -> by (apply Z.gtb_lt; lia). rewrite ix_succ_len, H. reflexivity. }
  intros i nd H. rewrite (F i nd H). apply evalN_eval; [|apply (Hnat i nd H)].
  intros j Pj Hj. apply atom_value; assumption.
Qed.

Theorem kleeneN_least : forall u, sol a g u -> forall n, le (kleeneN n a g) u.
Proof.
  intros u Su. induction n as [|n IH]; intros j H; [discriminate|].
  simpl in H. unfold kstepN in H. destruct (j >? 0) eqn:Pj; [|discriminate].
  destruct (nth_error g (ix j)) as [nd|] eqn:N; [|discriminate].
  apply (evalN_mono _ u nd IH) in H.
  rewrite evalN_eval in H; [| intros y Py Hy; apply atom_value_sol; assumption | apply (Hnat _ _ N)].
  pose proof (Su _ _ N) as K. replace (Z.of_nat (ix j) + 1) with j in K by (unfold ix; lia). rewrite K. exact H.
Qed.

Theorem lfpN_least_sol : least_sol a g (lfpN a g).
Proof.
  split; [exact lfpN_sol|]. intros u Su j _ H. apply (kleeneN_least u Su _ j H).
Qed.
End K.

(* ---------------------------------------------------------- graphs without negative keys: ModelBuilder.kleene *)
Definition posonly (g : list node) : Prop :=
  forall n nd, nth_error g n = Some nd -> forall c, In c (children nd) ->
  match c with Some z => 0 <= z | None => True end.

Lemma posonly_natomic : forall g, posonly g -> natomic g.
Proof. intros g H n nd Hn c Hc. specialize (H n nd Hn c Hc). destruct c as [z|]; simpl; [lia | exact I]. Qed.

Lemma kleene_kleeneN : forall a g, posonly g -> forall n j, kleene n a g j = kleeneN n a g j.
Proof.
  intros a g Hp. induction n as [|n IH]; intro j; [reflexivity|]. simpl. unfold kstep, kstepN.
  destruct (j >? 0); [|reflexivity]. change (Z.to_nat (j - 1)) with (ix j).
  destruct (nth_error g (ix j)) as [nd|] eqn:N; [|reflexivity].
  destruct nd as [id pc nm|cs nm|cs nm]; simpl; [destruct pc; reflexivity| |].
  - apply forallb_ext_list. intros c Hc. specialize (Hp _ _ N c Hc). destruct c as [z|]; simpl in *; [|reflexivity].
    destruct (z =? 0) eqn:E0; [reflexivity|]. apply Z.eqb_neq in E0.
    assert (z >? 0 = true) as -> by (apply Z.gtb_lt; lia). apply IH.
  - apply existsb_ext_list. intros c Hc. specialize (Hp _ _ N c Hc). destruct c as [z|]; simpl in *; [|reflexivity].
    destruct (z =? 0) eqn:E0; [reflexivity|]. apply Z.eqb_neq in E0.
    assert (z >? 0 = true) as -> by (apply Z.gtb_lt; lia). apply IH.
Qed.

Lemma vkey_ext : forall v u k, (forall j, v j = u j) -> vkey v k = vkey u k.
Proof. intros v u [z|] H; simpl; [|reflexivity]. rewrite !H. reflexivity. Qed.

Theorem lfp_val_least : forall a g, posonly g -> exists V, least_sol a g V /\ forall k, lfp_val a g k = vkey V k.
Proof.
  intros a g Hp. exists (lfpN a g). split; [apply lfpN_least_sol; apply posonly_natomic; exact Hp|].
  intro k. unfold lfp_val, lfpN. apply vkey_ext. apply kleene_kleeneN. exact Hp.
Qed.

(* two least supported valuations agree on the nodes of the graph *)
Lemma least_sol_unique : forall a g V V', least_sol a g V -> least_sol a g V' ->
  forall j, 0 < j <= Z.of_nat (length g) -> V j = V' j.
Proof.
  intros a g V V' [S1 L1] [S2 L2] j Hj. apply eq_iff_eq_true. split; intro H.
  - apply (L1 V' S2 j Hj H).
  - apply (L2 V S1 j Hj H).
Qed.
