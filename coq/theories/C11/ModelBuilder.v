(* C11 — hand model of problog/formula.py : LogicFormula (the ground-program
   builder).  Executable definitions only; the proofs are in ProofsBuilder.v.

   Keys are Python's signed ints with TRUE = 0 and FALSE = None:
       key = option Z,  Some 0 = TRUE,  None = FALSE,  Some (-k) = negation of node k.
   Names are Terms in Python; only equality and unary minus (Term.__neg__ /
   Not.__neg__, an involution) are used by the builder, so a name is a non-zero
   Z and `-name` is Z.opp.
   add_atom's `probability` only matters through the three cases
   None (deterministically true), False, anything else: [pclass]; the class of an
   identifier is a parameter [pcl] of the run (one probability per identifier).
   Not modelled: group/ConstraintAD, propagate_weights (semiring), weights dict,
   _atomcount/_index_next, use_string_names, labels other than LABEL_NAMED. *)
From Coq Require Import ZArith List Bool.
Import ListNotations.
Open Scope Z_scope.

Definition key := option Z.
Definition KTRUE : key := Some 0.
Definition KFALSE : key := None.

Definition key_eq_dec : forall a b : key, {a = b} + {a <> b}.
Proof. decide equality. apply Z.eq_dec. Defined.
Definition keys_eq_dec : forall a b : list key, {a = b} + {a <> b} := list_eq_dec key_eq_dec.

Definition key_eqb (a b : key) : bool := if key_eq_dec a b then true else false.
Definition memk (k : key) (l : list key) : bool := existsb (key_eqb k) l.

(* BaseFormula.negate *)
Definition negate (k : key) : key :=
  match k with
  | None => Some 0
  | Some z => if z =? 0 then None else Some (- z)
  end.

(* abs() on a child key; only applied to non-zero ints by the code *)
Definition kabs (k : key) : key :=
  match k with None => None | Some z => Some (Z.abs z) end.

Definition is_probabilistic (k : key) : bool :=
  match k with None => false | Some z => negb (z =? 0) end.

Inductive pclass := PProb | PTrue | PFalse.

Inductive node :=
| NAtom (id : Z) (pc : pclass) (nm : option Z)
| NConj (cs : list key) (nm : option Z)
| NDisj (cs : list key) (nm : option Z).

Definition node_name (n : node) : option Z :=
  match n with NAtom _ _ nm => nm | NConj _ nm => nm | NDisj _ nm => nm end.
Definition set_name (n : node) (nm : option Z) : node :=
  match n with NAtom i p _ => NAtom i p nm | NConj c _ => NConj c nm | NDisj c _ => NDisj c nm end.

Record opts := mkOpts {
  auto_compact : bool;
  keep_order : bool;          (* both branches of the code are identical *)
  keep_duplicates : bool;
  keep_all : bool;
  avoid_name_clash : bool;
  max_arity : nat
}.

Record state := mkState {
  nodes : list node;                      (* self._nodes, node k at position k-1 *)
  idx_atom : list (Z * Z);                (* self._index_atom : identifier -> index *)
  idx_conj : list (list key * Z);         (* self._index_conj : children tuple -> index *)
  idx_disj : list (list key * Z);         (* self._index_disj *)
  names : list (Z * key)                  (* self._names[LABEL_NAMED] : name -> key *)
}.

Definition empty_state : state := mkState [] [] [] [] [].

Fixpoint lookup {K : Type} (eqd : forall a b : K, {a = b} + {a <> b}) (k : K) (l : list (K * Z)) : option Z :=
  match l with
  | [] => None
  | (k', v) :: t => if eqd k k' then Some v else lookup eqd k t
  end.

Definition next_index (s : state) : Z := Z.of_nat (length (nodes s)) + 1.

(* get_node: asserts is_probabilistic(key) and key > 0, then self._nodes[key-1];
   None = the Python code raises (AssertionError / IndexError) *)
Definition get_node (s : state) (k : Z) : option node :=
  if k >? 0 then nth_error (nodes s) (Z.to_nat (k - 1)) else None.

Fixpoint list_set {A : Type} (l : list A) (n : nat) (x : A) : list A :=
  match l, n with
  | [], _ => []
  | _ :: t, O => x :: t
  | h :: t, S n' => h :: list_set t n' x
  end.

Definition with_nodes (s : state) (ns : list node) : state :=
  mkState ns (idx_atom s) (idx_conj s) (idx_disj s) (names s).

(* _update *)
Definition update (s : state) (k : Z) (v : node) : option state :=
  if (k >? 0) && (Nat.ltb (Z.to_nat (k - 1)) (length (nodes s)))
  then Some (with_nodes s (list_set (nodes s) (Z.to_nat (k - 1)) v))
  else None.

Definition bind_name (s : state) (nm : Z) (k : key) : state :=
  mkState (nodes s) (idx_atom s) (idx_conj s) (idx_disj s)
          ((nm, k) :: filter (fun p => negb (Z.eqb (fst p) nm)) (names s)).

(* LogicFormula.add_name (label = LABEL_NAMED) *)
Definition add_name (s : state) (nm : Z) (k : key) (keep_name : bool) : option state :=
  if negb keep_name && is_probabilistic k then
    match k with
    | Some z =>
        match get_node s (Z.abs z) with
        | Some nd =>
            let lname := if z <? 0 then - nm else nm in
            match update s (Z.abs z) (set_name nd (Some lname)) with
            | Some s' => Some (bind_name s' nm k)
            | None => None
            end
        | None => None
        end
    | None => None
    end
  else Some (bind_name s nm k).

(* _add *)
Definition append_node (s : state) (n : node) : state := with_nodes s (nodes s ++ [n]).

Definition add_node (s : state) (n : node) (reuse : bool) : state * Z :=
  if reuse then
    match n with
    | NAtom id _ _ =>
        match lookup Z.eq_dec id (idx_atom s) with
        | Some i => (s, i)
        | None => (mkState (nodes s ++ [n]) ((id, next_index s) :: idx_atom s) (idx_conj s) (idx_disj s) (names s),
                   next_index s)
        end
    | NConj cs _ =>
        match lookup keys_eq_dec cs (idx_conj s) with
        | Some i => (s, i)
        | None => (mkState (nodes s ++ [n]) (idx_atom s) ((cs, next_index s) :: idx_conj s) (idx_disj s) (names s),
                   next_index s)
        end
    | NDisj cs _ =>
        match lookup keys_eq_dec cs (idx_disj s) with
        | Some i => (s, i)
        | None => (mkState (nodes s ++ [n]) (idx_atom s) (idx_conj s) ((cs, next_index s) :: idx_disj s) (names s),
                   next_index s)
        end
    end
  else (append_node s n, next_index s).

(* add_atom(identifier, probability, name=nm) with group=None, no semiring *)
Definition add_atom (o : opts) (pc : pclass) (s : state) (id : Z) (nm : option Z) : option (state * key) :=
  match pc, keep_all o with
  | PTrue, false => Some (s, KTRUE)
  | PFalse, false => Some (s, KFALSE)
  | _, _ =>
      let (s1, i) := add_node s (NAtom id pc nm) true in
      match nm with
      | Some n => match add_name s1 n (Some i) false with
                  | Some s2 => Some (s2, Some i)
                  | None => None
                  end
      | None => Some (s1, Some i)
      end
  end.

(* tuple(OrderedSet(content)) : first occurrences, in order *)
Definition dedup (l : list key) : list key := rev (nodup key_eq_dec (rev l)).

(* len(set(content)) > len(set(map(abs, content))) *)
Definition opposites (l : list key) : bool :=
  Nat.ltb (length (nodup key_eq_dec (map kabs l))) (length (nodup key_eq_dec l)).

Inductive kind := KConj | KDisj.
Definition mk_node (kd : kind) (cs : list key) (nm : option Z) : node :=
  match kd with KConj => NConj cs nm | KDisj => NDisj cs nm end.

Definition opt_eqb (a b : option Z) : bool :=
  match a, b with Some x, Some y => x =? y | None, None => true | _, _ => false end.

(* the tail of _add_compound: create / reuse the node *)
Definition create (o : opts) (s : state) (kd : kind) (cs : list key) (readonly : bool)
           (nm : option Z) (name_clash : bool) : state * key :=
  let n := mk_node kd cs nm in
  let reuse :=
    match kd with
    | KConj => auto_compact o && negb (keep_all o)
    | KDisj => if readonly then auto_compact o && negb name_clash && negb (keep_all o) else false
    end in
  let (s', i) := add_node s n reuse in (s', Some i).

(* _add_compound(nodetype, content, t, f, readonly, name, placeholder, compact); update=None always *)
Definition add_compound (o : opts) (s : state) (kd : kind) (content : list key) (readonly : bool)
           (nm : option Z) (placeholder : bool) (compact : option bool) : option (state * key) :=
  let t := match kd with KConj => KFALSE | KDisj => KTRUE end in
  let f := match kd with KConj => KTRUE | KDisj => KFALSE end in
  if negb placeholder && match content with [] => true | _ => false end then None   (* assert content *)
  else
  let do_compact := match compact with Some b => b | None => auto_compact o end in
  if do_compact then
    if memk t content then Some (s, t)
    else
      let c1 := filter (fun x => negb (key_eqb x f)) content in
      let c2 := if keep_duplicates o then c1 else dedup c1 in   (* keep_order: same either way *)
      if match c2 with [] => true | _ => false end && negb placeholder then Some (s, f)
      else if opposites c2 then Some (s, t)
      else
        match c2 with
        | [c] =>
            if readonly then
              if avoid_name_clash o then
                match c with
                | Some z =>
                    match get_node s (Z.abs z) with
                    | None => None
                    | Some nd =>
                        let name_old := node_name nd in
                        if match nm, name_old with
                           | None, _ => true | _, None => true | Some a, Some b => a =? b end
                        then
                          match nm with
                          | Some n => match add_name s n c false with
                                      | Some s' => Some (s', c) | None => None end
                          | None => Some (s, c)
                          end
                        else Some (create o s kd c2 readonly nm true)
                    end
                | None => None
                end
              else
                match nm with
                | None => Some (s, c)
                | Some n =>
                    match c with
                    | Some z =>
                        match get_node s (Z.abs z) with
                        | None => None
                        | Some nd =>
                            match node_name nd with
                            | None => match add_name s n c false with
                                      | Some s' => Some (s', c) | None => None end
                            | Some _ => Some (s, c)
                            end
                        end
                    | None => None
                    end
                end
            else Some (create o s kd c2 readonly nm false)
        | _ => Some (create o s kd c2 readonly nm false)
        end
  else Some (create o s kd content readonly nm false).

Definition add_and (o : opts) (s : state) (cs : list key) (nm : option Z) (compact : option bool) :=
  add_compound o s KConj cs true nm false compact.

Definition add_or (o : opts) (s : state) (cs : list key) (readonly placeholder : bool)
           (nm : option Z) (compact : option bool) :=
  add_compound o s KDisj cs (readonly && negb placeholder) nm placeholder compact.

(* add_disjunct: the state change.  The value the code returns is described
   separately below (it differs from the documented one: finding
   add-disjunct-returns-none). [did_update] tells whether a branch
   `return self._update(...)` was taken. *)
Definition add_disjunct (o : opts) (s : state) (k c : key) : option (state * bool) :=
  match k with
  | None => None                                   (* ValueError: Cannot update failing node *)
  | Some z =>
      if z =? 0 then Some (s, false)
      else
        match get_node s z with
        | Some (NDisj cs nm) =>
            match c with
            | None => Some (s, false)
            | Some cz =>
                if cz =? 0 then
                  match update s z (NDisj [Some 0] nm) with Some s' => Some (s', true) | None => None end
                else if memk c cs && negb (keep_duplicates o) then Some (s, false)
                else if (Nat.ltb 0 (max_arity o)) && (Nat.eqb (max_arity o) (length cs)) then
                  match add_or o s cs true false None None with
                  | Some (s1, child) =>
                      match update s1 z (NDisj [child; c] nm) with Some s' => Some (s', true) | None => None end
                  | None => None
                  end
                else
                  match update s z (NDisj (cs ++ [c]) nm) with Some s' => Some (s', true) | None => None end
            end
        | _ => None                                (* ValueError / AssertionError / IndexError *)
        end
  end.

(* what `add_disjunct` returns: the code as it is (None after an update) and as documented *)
Definition add_disjunct_ret_code (k : key) (did_update : bool) : key := if did_update then None else k.
Definition add_disjunct_ret_doc (k : key) (did_update : bool) : key := k.

(* ------------------------------------------------------------------------ *)
(* Call histories, the reference builder, and the interpreter that runs a
   history through the model and the reference side by side.

   Arguments of calls are *reference keys*: the reference builder appends
   exactly one node per add_atom/add_and/add_or call and never optimises, so
   the n-th such call returns Some n; a negative key is the negation.  The
   model is called with the keys it returned itself for those calls ([rmap]),
   negated by the model's own [negate]. *)

Inductive op :=
| OAtom (id : Z) (nm : option Z)
| OAnd (cs : list key) (nm : option Z) (compact : option bool)
| OOr (cs : list key) (readonly placeholder : bool) (nm : option Z) (compact : option bool)
| ODisjunct (k c : key)
| OName (nm : Z) (k : key) (keep_name : bool).

Inductive result (A : Type) := Ok (a : A) | IllFormed | Raises.
Arguments Ok {A} a.
Arguments IllFormed {A}.
Arguments Raises {A}.

Record rstate := mkR {
  impl : state;
  rg : list node;        (* reference graph: node i at position i-1, names unused *)
  rmut : list Z;         (* reference nodes created with readonly=False / placeholder *)
  rmap : list key;       (* key the model returned for reference node i *)
  imut : list Z          (* ghost: model nodes created by a non-readonly add_or *)
}.

Definition init : rstate := mkR empty_state [] [] [] [].

Definition memz (z : Z) (l : list Z) : bool := existsb (Z.eqb z) l.

(* translate a reference key into the key the model returned; None = not a key returned earlier *)
Definition rkey (rm : list key) (k : key) : option key :=
  match k with
  | None => Some None
  | Some z =>
      if z =? 0 then Some (Some 0)
      else match nth_error rm (Z.to_nat (Z.abs z - 1)) with
           | Some ik => Some (if z >? 0 then ik else negate ik)
           | None => None
           end
  end.

Fixpoint rkeys (rm : list key) (ks : list key) : option (list key) :=
  match ks with
  | [] => Some []
  | k :: t => match rkey rm k, rkeys rm t with
              | Some a, Some b => Some (a :: b)
              | _, _ => None
              end
  end.

Inductive retval := RKey (k : key) | RDisjunct (code doc : key) | RNone.

Definition ref_next (r : rstate) : Z := Z.of_nat (length (rg r)) + 1.

Definition step (o : opts) (pcl : Z -> pclass) (r : rstate) (x : op) : result (rstate * retval) :=
  match x with
  | OAtom id nm =>
      match add_atom o (pcl id) (impl r) id nm with
      | Some (s', k) => Ok (mkR s' (rg r ++ [NAtom id (pcl id) None]) (rmut r) (rmap r ++ [k]) (imut r), RKey k)
      | None => Raises
      end
  | OAnd cs nm compact =>
      match rkeys (rmap r) cs with
      | None => IllFormed
      | Some ics =>
          match add_and o (impl r) ics nm compact with
          | Some (s', k) => Ok (mkR s' (rg r ++ [NConj cs None]) (rmut r) (rmap r ++ [k]) (imut r), RKey k)
          | None => Raises
          end
      end
  | OOr cs readonly placeholder nm compact =>
      match rkeys (rmap r) cs with
      | None => IllFormed
      | Some ics =>
          match add_or o (impl r) ics readonly placeholder nm compact with
          | Some (s', k) =>
              let ro := readonly && negb placeholder in
              Ok (mkR s' (rg r ++ [NDisj cs None])
                      (if ro then rmut r else ref_next r :: rmut r)
                      (rmap r ++ [k])
                      (if ro then imut r else
                         match k with
                         | Some z => if z =? 0 then imut r else z :: imut r
                         | None => imut r
                         end),
                  RKey k)
          | None => Raises
          end
      end
  | ODisjunct k c =>
      (* documented precondition: k is TRUE or a node created with readonly=False *)
      match k with
      | None => IllFormed
      | Some z =>
          if z =? 0 then
            match rkey (rmap r) c with
            | None => IllFormed
            | Some _ => Ok (r, RDisjunct (Some 0) (Some 0))
            end
          else if memz z (rmut r) then
            match rkey (rmap r) k, rkey (rmap r) c with
            | Some ik, Some ic =>
                match add_disjunct o (impl r) ik ic with
                | Some (s', upd) =>
                    Ok (mkR s'
                            (match nth_error (rg r) (Z.to_nat (z - 1)) with
                             | Some (NDisj cs nm) => list_set (rg r) (Z.to_nat (z - 1)) (NDisj (cs ++ [c]) nm)
                             | _ => rg r
                             end)
                            (rmut r) (rmap r) (imut r),
                        RDisjunct (add_disjunct_ret_code ik upd) (add_disjunct_ret_doc ik upd))
                | None => Raises
                end
            | _, _ => IllFormed
            end
          else IllFormed
      end
  | OName nm k keep =>
      match rkey (rmap r) k with
      | None => IllFormed
      | Some ik =>
          match add_name (impl r) nm ik keep with
          | Some s' => Ok (mkR s' (rg r) (rmut r) (rmap r) (imut r), RNone)
          | None => Raises
          end
      end
  end.

Fixpoint run (o : opts) (pcl : Z -> pclass) (r : rstate) (ops : list op) : result rstate :=
  match ops with
  | [] => Ok r
  | x :: t => match step o pcl r x with
              | Ok (r', _) => run o pcl r' t
              | IllFormed => IllFormed
              | Raises => Raises
              end
  end.

(* trace for the correspondence: returns of the successful prefix, the last good state, final status *)
Fixpoint run_trace (o : opts) (pcl : Z -> pclass) (r : rstate) (ops : list op) (acc : list retval)
  : list retval * rstate * nat :=      (* status: 0 ok, 1 ill-formed, 2 raises *)
  match ops with
  | [] => (rev acc, r, 0%nat)
  | x :: t => match step o pcl r x with
              | Ok (r', rv) => run_trace o pcl r' t (rv :: acc)
              | IllFormed => (rev acc, r, 1%nat)
              | Raises => (rev acc, r, 2%nat)
              end
  end.

(* ------------------------------------------------------------------------ *)
(* Meaning.  A valuation gives a truth value to every node index; a graph
   (list of nodes) is a system of equations  v(i) = eval(node i).  *)

Definition vkey (v : Z -> bool) (k : key) : bool :=
  match k with
  | None => false
  | Some z => if z =? 0 then true else if z >? 0 then v z else negb (v (- z))
  end.

Definition eval_node (a : Z -> bool) (v : Z -> bool) (n : node) : bool :=
  match n with
  | NAtom id pc _ => match pc with PTrue => true | PFalse => false | PProb => a id end
  | NConj cs _ => forallb (vkey v) cs
  | NDisj cs _ => existsb (vkey v) cs
  end.

(* v satisfies every equation of g: a supported valuation *)
Definition sol (a : Z -> bool) (g : list node) (v : Z -> bool) : Prop :=
  forall i nd, nth_error g i = Some nd -> v (Z.of_nat i + 1) = eval_node a v nd.

(* the valuation of reference nodes induced by a valuation of model nodes *)
Definition pull (rm : list key) (v : Z -> bool) : Z -> bool :=
  fun i => match nth_error rm (Z.to_nat (i - 1)) with
           | Some ik => vkey v ik
           | None => false
           end.

(* Kleene iteration from the all-false valuation (least fixpoint when the
   graph is monotone, i.e. negative keys only point at atoms) *)
Definition kstep (a : Z -> bool) (g : list node) (v : Z -> bool) : Z -> bool :=
  fun i => if i >? 0 then match nth_error g (Z.to_nat (i - 1)) with
                          | Some nd => eval_node a v nd
                          | None => false
                          end
           else false.
Fixpoint kleene (n : nat) (a : Z -> bool) (g : list node) : Z -> bool :=
  match n with
  | O => fun _ => false
  | S n' => kstep a g (kleene n' a g)
  end.
Definition lfp_val (a : Z -> bool) (g : list node) (k : key) : bool :=
  vkey (kleene (S (length g)) a g) k.
