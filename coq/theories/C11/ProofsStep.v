(* C11 — every call preserves the simulation invariant; the main theorems. *)
From Coq Require Import ZArith List Bool Lia.
From PL.C11 Require Import ModelBuilder ProofsBasics ProofsBuilder ProofsInv.
Import ListNotations.
Open Scope Z_scope.

(* ------------------------------------------------------------ add_atom *)
Lemma add_atom_spec : forall pcl o s im id nm s' k,
  idx_ok pcl s im -> im_ok s im ->
  add_atom o (pcl id) s id nm = Some (s', k) ->
  idx_ok pcl s' im /\ grows s s' /\
  forall a v, rsol a (sh s') im v -> vkey v k = eval_node a v (NAtom id (pcl id) None).
Proof.
  intros pcl o s im id nm s' k Hidx Him H.
  assert (Tail : (let (s1, i) := add_node s (NAtom id (pcl id) nm) true in
                  match nm with
                  | Some n => match add_name s1 n (Some i) false with
                              | Some s2 => Some (s2, Some i) | None => None end
                  | None => Some (s1, Some i)
                  end) = Some (s', k) ->
                 idx_ok pcl s' im /\ grows s s' /\
                 forall a v, rsol a (sh s') im v -> vkey v k = eval_node a v (NAtom id (pcl id) None)).
  { clear H. intro H.
    destruct (add_node s (NAtom id (pcl id) nm) true) as [s1 i] eqn:A.
    apply (add_node_spec pcl s im) in A; auto.
    2:{ intros id0 pc0 nm0 E. injection E as -> -> ->. reflexivity. }
    destruct A as [Pi [Ni [Ii [D _]]]]. simpl strip in *.
    assert (Hnot : ~ In i im).
    { destruct D as [[_ D]|[_ D]]; [exact D | subst i; apply im_ok_fresh; exact Him]. }
    assert (G1 : grows s s1).
    { destruct D as [[E _]|[E _]]; [apply grows_same; exact E | eexists; exact E]. }
    assert (Fin : forall s2, sh s2 = sh s1 -> same_tables s1 s2 ->
              idx_ok pcl s2 im /\ grows s s2 /\
              forall a v, rsol a (sh s2) im v -> vkey v (Some i) = eval_node a v (NAtom id (pcl id) None)).
    { intros s2 E T. split; [eapply idx_ok_same; eauto|]. split.
      - destruct G1 as [x G1]. exists x. rewrite E. exact G1.
      - intros a v Hr. simpl vkey. assert (i =? 0 = false) as -> by lia. assert (i >? 0 = true) as -> by lia.
        rewrite E in Hr. rewrite (Hr i _ Pi Ni Hnot). reflexivity. }
    destruct nm as [n|].
    - destruct (add_name s1 n (Some i) false) as [s2|] eqn:AN; [|discriminate]. injection H as <- <-.
      apply add_name_spec in AN. destruct AN as [E T]. apply Fin; assumption.
    - injection H as <- <-. apply Fin; [reflexivity | repeat split]. }
  unfold add_atom in H.
  destruct (pcl id) eqn:P; destruct (keep_all o) eqn:K; try (apply Tail; exact H).
  - injection H as <- <-. split; [exact Hidx|]. split; [apply grows_refl|]. intros a v _. reflexivity.
  - injection H as <- <-. split; [exact Hidx|]. split; [apply grows_refl|]. intros a v _. reflexivity.
Qed.

(* ------------------------------------------------------------ add_disjunct *)
Lemma strip_disj_inv : forall nd cs, strip nd = NDisj cs None -> exists nm, nd = NDisj cs nm.
Proof. intros [id pc nm|c nm|c nm] cs H; simpl in H; try discriminate. injection H as ->. eauto. Qed.

Lemma add_disjunct_spec : forall pcl o s im j cs ic s' upd,
  idx_ok pcl s im -> im_ok s im -> In j im -> nth_error (sh s) (ix j) = Some (NDisj cs None) ->
  add_disjunct o s (Some j) ic = Some (s', upd) ->
  exists cs', nth_error (sh s') (ix j) = Some (NDisj cs' None) /\ idx_ok pcl s' im /\ im_ok s' im /\
    (forall a v, rsol a (sh s') im v -> rsol a (sh s) im v) /\
    (forall j' nd, 0 < j' -> j' <> j -> nth_error (sh s) (ix j') = Some nd -> nth_error (sh s') (ix j') = Some nd) /\
    (forall a v, rsol a (sh s') im v -> existsb (vkey v) cs' = existsb (vkey v) cs || vkey v ic).
Proof.
  intros pcl o s im j cs ic s' upd Hidx Him Hj Hn H.
  pose proof (Him j Hj) as [Jpos Jle].
  unfold add_disjunct in H. assert (j =? 0 = false) as E0 by lia. rewrite E0 in H.
  destruct (sh_nth_inv _ _ _ Hn) as [nd [Hnd Hs]]. apply strip_disj_inv in Hs. destruct Hs as [nm ->].
  assert (G : get_node s j = Some (NDisj cs nm)).
  { unfold get_node. assert (j >? 0 = true) as -> by lia. exact Hnd. }
  rewrite G in H.
  (* no change *)
  assert (Same : forall (extra : bool), (forall a v, rsol a (sh s) im v -> existsb (vkey v) cs = existsb (vkey v) cs || vkey v ic) ->
            exists cs', nth_error (sh s) (ix j) = Some (NDisj cs' None) /\ idx_ok pcl s im /\ im_ok s im /\
              (forall a v, rsol a (sh s) im v -> rsol a (sh s) im v) /\
              (forall j' nd, 0 < j' -> j' <> j -> nth_error (sh s) (ix j') = Some nd -> nth_error (sh s) (ix j') = Some nd) /\
              (forall a v, rsol a (sh s) im v -> existsb (vkey v) cs' = existsb (vkey v) cs || vkey v ic)).
  { intros _ Hv. exists cs. split; [exact Hn|]. split; [exact Hidx|]. split; [exact Him|]. split; [auto|]. split; [auto|]. exact Hv. }
  (* an update of node j of a state s1 that grew from s *)
  assert (Upd : forall s1 s2 cs', grows s s1 -> idx_ok pcl s1 im ->
            update s1 j (NDisj cs' nm) = Some s2 ->
            (forall a v, rsol a (sh s1) im v -> existsb (vkey v) cs' = existsb (vkey v) cs || vkey v ic) ->
            exists cs'', nth_error (sh s2) (ix j) = Some (NDisj cs'' None) /\ idx_ok pcl s2 im /\ im_ok s2 im /\
              (forall a v, rsol a (sh s2) im v -> rsol a (sh s) im v) /\
              (forall j' nd, 0 < j' -> j' <> j -> nth_error (sh s) (ix j') = Some nd -> nth_error (sh s2) (ix j') = Some nd) /\
              (forall a v, rsol a (sh s2) im v -> existsb (vkey v) cs'' = existsb (vkey v) cs || vkey v ic)).
  { intros s1 s2 cs' G1 I1 U Hv.
    pose proof (update_sh _ _ _ _ U) as E2. pose proof (update_spec _ _ _ _ U) as [_ [Lt [_ [T _]]]].
    simpl strip in E2. rewrite <- sh_length in Lt.
    exists cs'. split; [rewrite E2; apply nth_error_list_set_eq; exact Lt|].
    split; [eapply idx_ok_set; eauto|].
    split; [intros j0 Hj0; specialize (Him j0 Hj0); rewrite E2, list_set_length; destruct G1 as [x ->]; rewrite app_length; lia|].
    split; [|split].
    - intros a v Hr. rewrite E2 in Hr. apply rsol_set in Hr; auto. destruct G1 as [x G1]. rewrite G1 in Hr. eapply rsol_app; eauto.
    - intros j' nd0 P' Ne Hn'. rewrite E2. rewrite nth_error_list_set_neq.
      + destruct G1 as [x ->]. rewrite nth_error_app1; [exact Hn' | eapply nth_error_lt; eauto].
      + intro Eix. apply ix_inj in Eix; auto.
    - intros a v Hr. apply (Hv a). rewrite E2 in Hr. apply rsol_set in Hr; auto. }
  destruct ic as [cz|].
  2:{ injection H as <- <-. apply (Same false). intros a v _. simpl. rewrite orb_false_r. reflexivity. }
  destruct (cz =? 0) eqn:Ecz.
  { apply Z.eqb_eq in Ecz. subst cz.
    match type of H with match ?t with _ => _ end = _ => destruct t as [s1|] eqn:U end; [|discriminate]. injection H as <- <-.
    eapply (Upd s s1); eauto; [apply grows_refl|]. intros a v _. simpl. rewrite orb_true_r. reflexivity. }
  destruct (memk (Some cz) cs && negb (keep_duplicates o)) eqn:Emem.
  { injection H as <- <-. apply (Same false). intros a v _.
    apply andb_true_iff in Emem. destruct Emem as [Emem _]. apply memk_In in Emem.
    destruct (vkey v (Some cz)) eqn:V; [|rewrite orb_false_r; reflexivity].
    rewrite orb_true_r. apply existsb_exists. exists (Some cz). auto. }
  destruct (Nat.ltb 0 (max_arity o) && Nat.eqb (max_arity o) (length cs)).
  - destruct (add_or o s cs true false None None) as [[s1 child]|] eqn:AO; [|discriminate].
    match type of H with match ?t with _ => _ end = _ => destruct t as [s2|] eqn:U end; [|discriminate]. injection H as <- <-.
    unfold add_or in AO. simpl in AO.
    destruct (add_compound_sound pcl o s im KDisj cs true None false None s1 child Hidx Him AO) as [I1 [G1 [Hro _]]].
    eapply (Upd s1 s2); eauto.
    intros a v Hr. simpl. rewrite (Hro (or_introl eq_refl) a v Hr). simpl. rewrite orb_false_r. reflexivity.
  - match type of H with match ?t with _ => _ end = _ => destruct t as [s1|] eqn:U end; [|discriminate]. injection H as <- <-.
    eapply (Upd s s1); eauto; [apply grows_refl|].
    intros a v _. rewrite existsb_app. simpl. rewrite orb_false_r. reflexivity.
Qed.

(* ------------------------------------------------------------ changing one mutable reference node *)
Lemma Inv_disjunct : forall pcl r s' z rcs c j0,
  Inv pcl r -> In z (rmut r) ->
  nth_error (rg r) (ix z) = Some (NDisj rcs None) ->
  rvalid (length (rg r)) c ->
  idx_ok pcl s' (imut r) -> im_ok s' (imut r) ->
  (forall a v, rsol a (sh s') (imut r) v -> rsol a (sh (impl r)) (imut r) v) ->
  (forall j' nd, 0 < j' -> j' <> j0 -> nth_error (sh (impl r)) (ix j') = Some nd -> nth_error (sh s') (ix j') = Some nd) ->
  (forall i, In i (rmut r) -> i <> z -> nth_error (rmap r) (ix i) <> Some (Some j0)) ->
  (let r' := mkR s' (list_set (rg r) (ix z) (NDisj (rcs ++ [c]) None)) (rmut r) (rmap r) (imut r) in
   Degenerate r' z \/ Qmut r' z) ->
  Inv pcl (mkR s' (list_set (rg r) (ix z) (NDisj (rcs ++ [c]) None)) (rmut r) (rmap r) (imut r)).
Proof.
  intros pcl r s' z rcs c j0 HI Hz Hrz Hc Hidx Him Hrs Hoth Hown Hnew.
  pose proof (inv_rmut _ _ HI z Hz) as Rz.
  assert (Hother : forall i, 0 < i -> i <> z ->
            nth_error (list_set (rg r) (ix z) (NDisj (rcs ++ [c]) None)) (ix i) = nth_error (rg r) (ix i)).
  { intros i Pi Ne. apply nth_error_list_set_neq. intro E. apply ix_inj in E; auto. lia. }
  constructor; simpl.
  - rewrite list_set_length. apply (inv_len _ _ HI).
  - intros i nd Hn c0 Hc0. rewrite list_set_length.
    destruct (Nat.eq_dec i (ix z)) as [->|Ne].
    + rewrite nth_error_list_set_eq in Hn by (eapply nth_error_lt; eauto). injection Hn as <-.
      simpl in Hc0. apply in_app_or in Hc0. destruct Hc0 as [Hc0|[<-|[]]]; [|exact Hc].
      apply (inv_rchild _ _ HI (ix z) _ Hrz c0 Hc0).
    + rewrite nth_error_list_set_neq in Hn by congruence. eapply (inv_rchild _ _ HI); eauto.
  - exact Him.
  - exact Hidx.
  - intros i Hi. rewrite list_set_length. apply (inv_rmut _ _ HI i Hi).
  - intros i Pi Hni nd ik Hn Hm a v Hr. simpl in *.
    assert (i <> z) by (intro; subst; contradiction).
    rewrite Hother in Hn by assumption.
    apply (inv_ro _ _ HI i Pi Hni nd ik Hn Hm a v (Hrs a v Hr)).
  - intros i Hi. destruct (Z.eq_dec i z) as [->|Ne]; [exact Hnew|].
    pose proof (inv_rmut _ _ HI i Hi) as [Pi _].
    destruct (inv_mut _ _ HI i Hi) as [[A [B [rcs0 C]]]|[j [cs0 [rcs0 [A [B [C [D [E F]]]]]]]]].
    + left. split; [exact A|]. split.
      * intros nd ik Hn Hm a v Hr. simpl in *. rewrite Hother in Hn by assumption.
        apply (B nd ik Hn Hm a v (Hrs a v Hr)).
      * exists rcs0. simpl. rewrite Hother by assumption. exact C.
    + right. exists j, cs0, rcs0. simpl.
      pose proof (inv_imut _ _ HI j B) as [Pj _].
      assert (j <> j0). { intro. subst j0. apply (Hown i Hi Ne). exact A. }
      repeat split; auto.
      * rewrite Hother by assumption. exact D.
      * intros a v Hr. apply (E a v (Hrs a v Hr)).
Qed.

Lemma Inv_same_sh : forall pcl r s', Inv pcl r -> sh s' = sh (impl r) -> same_tables (impl r) s' ->
  Inv pcl (mkR s' (rg r) (rmut r) (rmap r) (imut r)).
Proof.
  intros pcl r s' HI E T.
  constructor; simpl.
  - apply (inv_len _ _ HI).
  - apply (inv_rchild _ _ HI).
  - intros j Hj. rewrite E. apply (inv_imut _ _ HI j Hj).
  - eapply idx_ok_same; eauto. apply (inv_idx _ _ HI).
  - apply (inv_rmut _ _ HI).
  - intros i Pi Hni nd ik Hn Hm a v Hr. simpl in *. rewrite E in Hr. apply (inv_ro _ _ HI i Pi Hni nd ik Hn Hm a v Hr).
  - intros i Hi. destruct (inv_mut _ _ HI i Hi) as [[A [B C]]|[j [cs0 [rcs0 [A [B [C [D [F G]]]]]]]]].
    + left. split; [exact A|]. split; [|exact C].
      intros nd ik Hn Hm a v Hr. simpl in *. rewrite E in Hr. apply (B nd ik Hn Hm a v Hr).
    + right. exists j, cs0, rcs0. simpl. rewrite E. repeat split; auto.
Qed.

(* ------------------------------------------------------------ one call *)
Lemma rkey_pos : forall rm z ik, 0 < z -> rkey rm (Some z) = Some ik -> nth_error rm (ix z) = Some ik.
Proof.
  intros rm z ik Pz H. simpl in H. assert (z =? 0 = false) as E by lia. rewrite E in H.
  replace (Z.to_nat (Z.abs z - 1)) with (ix z) in H by (unfold ix; lia).
  destruct (nth_error rm (ix z)) as [x|]; [|discriminate].
  assert (z >? 0 = true) as E' by lia. rewrite E' in H. exact H.
Qed.

Theorem step_inv : forall o pcl r x r' rv,
  Inv pcl r -> step o pcl r x = Ok (r', rv) ->
  Inv pcl r' /\ exists ext, rmap r' = rmap r ++ ext.
Proof.
  intros o pcl r x r' rv HI H.
  pose proof (inv_idx _ _ HI) as Hidx. pose proof (inv_imut _ _ HI) as Him.
  destruct x as [id nm | cs nm cp | cs ro ph nm cp | k c | nm k keep]; simpl in H.
  - (* add_atom *)
    destruct (add_atom o (pcl id) (impl r) id nm) as [[s' k]|] eqn:A; [|discriminate].
    injection H as <- <-. split; [|eexists; reflexivity].
    destruct (add_atom_spec pcl o (impl r) (imut r) id nm s' k Hidx Him A) as [I [G S]].
    apply grow_ro; auto. intros c [].
  - (* add_and *)
    destruct (rkeys (rmap r) cs) as [ics|] eqn:K; [|discriminate].
    destruct (add_and o (impl r) ics nm cp) as [[s' k]|] eqn:A; [|discriminate].
    injection H as <- <-. split; [|eexists; reflexivity].
    destruct (rkeys_spec _ _ _ K) as [V E]. unfold add_and in A.
    destruct (add_compound_sound pcl o (impl r) (imut r) KConj ics true nm false cp s' k Hidx Him A) as [I [G [S _]]].
    apply grow_ro; auto.
    + simpl. intros c Hc. rewrite <- (inv_len _ _ HI). auto.
    + intros a v Hr. rewrite (S (or_introl eq_refl) a v Hr). simpl. apply (E KConj v).
  - (* add_or *)
    destruct (rkeys (rmap r) cs) as [ics|] eqn:K; [|discriminate].
    destruct (add_or o (impl r) ics ro ph nm cp) as [[s' k]|] eqn:A; [|discriminate].
    injection H as <- <-. split; [|eexists; reflexivity].
    destruct (rkeys_spec _ _ _ K) as [V E]. unfold add_or in A.
    assert (V' : forall c, In c cs -> rvalid (length (rg r)) c).
    { intros c Hc. rewrite <- (inv_len _ _ HI). auto. }
    destruct (add_compound_sound pcl o (impl r) (imut r) KDisj ics (ro && negb ph) nm ph cp s' k Hidx Him A) as [I [G [S M]]].
    destruct (ro && negb ph) eqn:Ero.
    + apply grow_ro; auto.
      intros a v Hr. rewrite (S (or_introl eq_refl) a v Hr). simpl. apply (E KDisj v).
    + destruct (M eq_refl eq_refl) as [[-> [Esh Hv]]|[[-> [Esh Hv]]|[c2 [-> [Esh [T Hv]]]]]].
      * simpl. apply grow_mut_degen; auto.
        intro v. pose proof (E KDisj v) as Ev. simpl in Ev. rewrite <- Ev. simpl. symmetry. apply Hv.
      * apply grow_mut_degen; auto.
        intro v. pose proof (E KDisj v) as Ev. simpl in Ev. rewrite <- Ev. simpl. symmetry. apply Hv.
      * assert (next_index (impl r) =? 0 = false) as -> by (pose proof (next_index_pos (impl r)); lia).
        apply grow_mut_fresh with (c2 := c2); auto.
        intro v. rewrite Hv. apply (E KDisj v).
  - (* add_disjunct *)
    destruct k as [z|]; [|discriminate].
    destruct (z =? 0) eqn:Ez.
    { destruct (rkey (rmap r) c); [|discriminate]. injection H as <- <-.
      split; [exact HI | exists []; rewrite app_nil_r; reflexivity]. }
    destruct (memz z (rmut r)) eqn:Em; [|discriminate].
    apply memz_In in Em.
    destruct (rkey (rmap r) (Some z)) as [ik|] eqn:Kz; [|discriminate].
    destruct (rkey (rmap r) c) as [ic|] eqn:Kc; [|discriminate].
    destruct (add_disjunct o (impl r) ik ic) as [[s' upd]|] eqn:A; [|discriminate].
    injection H as <- <-. split; [|exists []; simpl; rewrite app_nil_r; reflexivity].
    pose proof (inv_rmut _ _ HI z Em) as [Pz Lz].
    apply rkey_pos in Kz; auto.
    pose proof (rkey_valid _ _ _ Kc) as Vc. rewrite (inv_len _ _ HI) in Vc.
    replace (Z.to_nat (z - 1)) with (ix z) by reflexivity.
    destruct (inv_mut _ _ HI z Em) as [[[Ka|Ka] [B [rcs C]]]|[j [cs0 [rcs [Ka [Bj [Cj [D [E F]]]]]]]]];
      rewrite Ka in Kz; injection Kz as <-.
    + (* the mutable node was folded to TRUE *)
      simpl in A. injection A as <- <-. rewrite C.
      apply (Inv_disjunct pcl r (impl r) z rcs c (-1)); auto.
      * intros i Hi _ Hm. destruct (inv_mut _ _ HI i Hi) as [[[Ki|Ki] _]|[j [cs0 [rcs0 [Ki [Bj _]]]]]]; rewrite Ki in Hm; try discriminate.
        injection Hm as ->. pose proof (inv_imut _ _ HI _ Bj). lia.
      * left. split; [left; exact Ka|]. split.
        -- intros nd ik Hn Hm a v Hr. simpl in *.
           rewrite nth_error_list_set_eq in Hn by (eapply nth_error_lt; eauto). injection Hn as <-.
           rewrite Ka in Hm. injection Hm as <-.
           pose proof (B _ _ C Ka a v Hr) as Bv. simpl in Bv. simpl. rewrite existsb_app, <- Bv. reflexivity.
        -- exists (rcs ++ [c]). simpl. apply nth_error_list_set_eq. eapply nth_error_lt; eauto.
    + (* folded to FALSE: the code raises *)
      simpl in A. discriminate.
    + (* a genuine mutable node *)
      destruct (add_disjunct_spec pcl o (impl r) (imut r) j cs0 ic s' upd Hidx Him Bj Cj A)
        as [cs' [N' [I' [M' [R' [O' V']]]]]].
      rewrite D.
      assert (Hown : forall i, In i (rmut r) -> i <> z -> nth_error (rmap r) (ix i) <> Some (Some j)).
      { intros i Hi Ne Hm. apply Ne. apply F; assumption. }
      apply (Inv_disjunct pcl r s' z rcs c j HI Em D Vc I' M' R' O' Hown).
      right. exists j, cs', (rcs ++ [c]). simpl.
      split; [exact Ka|]. split; [exact Bj|]. split; [exact N'|].
      split; [apply nth_error_list_set_eq; eapply nth_error_lt; eauto|]. split; [|exact F].
      intros a v Hr. rewrite (V' a v Hr), existsb_app. simpl. rewrite orb_false_r.
      rewrite (E a v (R' a v Hr)). rewrite (vkey_pull _ v _ _ Kc). reflexivity.
  - (* add_name *)
    destruct (rkey (rmap r) k) as [ik|]; [|discriminate].
    destruct (add_name (impl r) nm ik keep) as [s'|] eqn:A; [|discriminate].
    injection H as <- <-. split; [|exists []; simpl; rewrite app_nil_r; reflexivity].
    apply add_name_spec in A. destruct A as [E T]. apply Inv_same_sh; assumption.
Qed.

(* ------------------------------------------------------------ histories *)
Lemma run_inv : forall o pcl ops r r', Inv pcl r -> run o pcl r ops = Ok r' ->
  Inv pcl r' /\ exists ext, rmap r' = rmap r ++ ext.
Proof.
  intros o pcl ops. induction ops as [|x t IH]; intros r r' HI H; simpl in H.
  - injection H as <-. split; [exact HI | exists []; rewrite app_nil_r; reflexivity].
  - destruct (step o pcl r x) as [[r1 rv]| |] eqn:S; try discriminate.
    destruct (step_inv o pcl r x r1 rv HI S) as [I1 [e1 E1]].
    destruct (IH r1 r' I1 H) as [I2 [e2 E2]]. split; [exact I2|].
    exists (e1 ++ e2). rewrite E2, E1, app_assoc. reflexivity.
Qed.

(* soundness: a valuation that satisfies the equations of the builder's graph,
   read through the returned keys, satisfies the equations of the reference graph *)
Lemma Inv_sound : forall pcl r, Inv pcl r ->
  forall a v, sol a (nodes (impl r)) v -> sol a (rg r) (pull (rmap r) v).
Proof.
  intros pcl r HI a v Hs. apply sol_sh in Hs.
  pose proof (sol_rsol a (sh (impl r)) (imut r) v Hs) as Hr.
  intros n nd Hn.
  set (i := Z.of_nat n + 1).
  assert (Pi : 0 < i) by (unfold i; lia).
  assert (Ei : ix i = n) by (unfold i; apply ix_succ_len).
  assert (Ln : (n < length (rmap r))%nat) by (rewrite (inv_len _ _ HI); eapply nth_error_lt; eauto).
  destruct (nth_error (rmap r) n) as [ik|] eqn:Hm; [|apply nth_error_None in Hm; lia].
  assert (Hp : pull (rmap r) v i = vkey v ik).
  { unfold pull. replace (Z.to_nat (i - 1)) with n by (unfold i; lia). rewrite Hm. reflexivity. }
  rewrite Hp.
  destruct (in_dec Z.eq_dec i (rmut r)) as [Hin|Hni].
  - destruct (inv_mut _ _ HI i Hin) as [[_ [B _]]|[j [cs [rcs [A [Bj [Cj [D [E F]]]]]]]]].
    + apply (B nd ik); rewrite ?Ei; auto.
    + rewrite Ei in A, D. rewrite Hm in A. injection A as ->. rewrite Hn in D. injection D as ->.
      pose proof (inv_imut _ _ HI j Bj) as [Pj _].
      simpl vkey. assert (j =? 0 = false) as -> by lia. assert (j >? 0 = true) as -> by lia.
      specialize (Hs (ix j) _ Cj). replace (Z.of_nat (ix j) + 1) with j in Hs by (unfold ix; lia).
      rewrite Hs. simpl. apply (E a v Hr).
  - apply (inv_ro _ _ HI i Pi Hni nd ik); rewrite ?Ei; auto.
Qed.
